import NA.Proofs.C05Sound2
import NA.Proofs.C05Int
/-!
C05 (follow-up): the normal form of a rule of the grammar is stable — `RuleOK cfg r` gives
`Stable (normalize …)`, so idempotence of `normalizeIPTables` holds on everything the counted
predicate `RuleOK` admits.
-/
namespace NA.C05
open NA.Linux NA.Linux.Spec

theorem normPort_fixed_one (p : Str) (h : canonNum p = true) : normPort (normPort p) = normPort p := by
  rw [port_val_one p h]
  by_cases h0 : p = ['0']
  · rw [if_pos h0]; rfl
  · rw [if_neg h0, port_val_one p h, if_neg h0]

theorem normPort_fixed_range (lo hi : Str) (hlo : canonNum lo = true) (hhi : canonNum hi = true) :
    normPort (normPort (lo ++ [':'] ++ hi)) = normPort (lo ++ [':'] ++ hi) := by
  rw [port_val_range lo hi hlo hhi]
  have hcl : ':' ∉ hi := digits_nochar (canonNum_digits hhi) ':' (by decide)
  -- the normal form: L ++ ":" ++ H with L not starting with 0 and H ≠ 65535
  have key : ∀ (L H : Str), L.head? ≠ some '0' → ':' ∉ H → H ≠ s "65535" →
      normPort (L ++ [':'] ++ H) = L ++ [':'] ++ H := by
    intro L H hL hH hne
    unfold normPort
    simp only
    have hh : (L ++ [':'] ++ H).head? ≠ some '0' := by
      cases L with
      | nil => simp
      | cons a as => simpa using hL
    rw [trimLeft0_of_head hh]
    have e : L ++ [':'] ++ H = L ++ ':' :: H := by simp
    rw [e, show s ":65535" = ':' :: s "65535" from rfl, cutSuffix_sep_none ':' L H (s "65535") hH (by decide) hne]
  apply key
  · by_cases h0 : lo = ['0']
    · rw [if_pos h0]; simp
    · rw [if_neg h0]; exact canonNum_head hlo h0
  · by_cases h5 : hi = s "65535"
    · rw [if_pos h5]; simp
    · rw [if_neg h5]; exact hcl
  · by_cases h5 : hi = s "65535"
    · rw [if_pos h5]; decide
    · rw [if_neg h5]; exact h5

theorem normAddr_fixed (pre ip len : Str) (hpre : '/' ∉ pre) (hip : '/' ∉ ip) (hlen : '/' ∉ len) :
    normAddr (normAddr (pre ++ (ip ++ ['/'] ++ len))) = normAddr (pre ++ (ip ++ ['/'] ++ len)) := by
  rw [addr_val pre ip len hpre hip hlen]
  by_cases h : len = s "32"
  · rw [if_pos h, normAddr_noslash _ (by simp [hpre, hip])]
  · rw [if_neg h, addr_val pre ip len hpre hip hlen, if_neg h]

theorem normProto_fixed (cfg : KCfg) (n : Neg) (P : Proto) (u m : Bool) (w : (AOpt.proto n P u m).wf = true) :
    normProto (normProto (negPre n.isNeg ++ P.kname cfg.protoNames)) = normProto (negPre n.isNeg ++ P.kname cfg.protoNames) := by
  cases P with
  | num d =>
    simp only [AOpt.wf, Bool.and_eq_true] at w
    have e := normProto_digits (negPre n.isNeg) d (canonNum_digits w.1.1) (canonNum_ne_nil w.1.1) (negPre_cases _)
    simp only [Proto.kname]
    rw [e, e]
  | tcp | udp | icmp | vrrp | ipv6icmp =>
    obtain ⟨names⟩ := cfg
    revert w
    cases n <;> cases names <;> cases u <;> cases m <;> decide

theorem normState_fixed (l : List Spec.St) (hne : l ≠ []) (hnd : l.Nodup) :
    normState (normState (joinWith [','] ((kStates l).map Spec.St.name))) =
      normState (joinWith [','] ((kStates l).map Spec.St.name)) := by
  have k1 : kStates l ≠ [] := st_filter_ne l hne hnd
  rw [normState_names _ k1]
  have nocomma : ∀ x ∈ sortStrs ((kStates l).map Spec.St.name), ',' ∉ x := by
    intro x hx
    obtain ⟨y, _, e⟩ := List.mem_map.mp ((mem_sortStrs x _).mp hx)
    rw [← e]; exact stName_nocomma y
  have ne : sortStrs ((kStates l).map Spec.St.name) ≠ [] := by
    intro e
    have := (isort_perm strLe ((kStates l).map Spec.St.name)).length_eq
    rw [show isort strLe ((kStates l).map Spec.St.name) = sortStrs ((kStates l).map Spec.St.name) from rfl, e] at this
    simp at this
    exact k1 (List.length_eq_zero_iff.mp this.symm)
  unfold normState
  rw [splitChar_join ',' _ ne nocomma]
  exact congrArg (joinWith [',']) (sortStrs_perm_eq (isort_perm strLe _))

theorem normMark_fixed (t : Str) (n : Int) (h : markNorm t = some n) : normMark (normMark t) = normMark t := by
  rw [normMark_of_markNorm t n h]
  have hr : -2147483648 ≤ n ∧ n < 2147483648 := by
    unfold markNorm at h; exact parseInt32_range h
  have hp := parseInt32_intToStr n hr.1 hr.2
  -- the decimal text has no upper case letters and no slash
  have hchars : ∀ c ∈ intToStr n, isDigit c = true ∨ c = '-' := by
    intro c hc
    unfold intToStr at hc
    split at hc
    · rcases List.mem_cons.mp hc with e | hc
      · right; exact e
      · left; rw [natToStr_eq] at hc; exact List.all_eq_true.mp (toDigits_digits _) c hc
    · left; rw [natToStr_eq] at hc; exact List.all_eq_true.mp (toDigits_digits _) c hc
  have hlow : lower (intToStr n) = intToStr n := by
    unfold lower
    conv => rhs; rw [← List.map_id (intToStr n)]
    apply List.map_congr_left
    intro c hc
    rcases hchars c hc with h1 | h1
    · exact lowerC_of_digit h1
    · subst h1; rfl
  have hns : '/' ∉ intToStr n := by
    intro hm
    rcases hchars '/' hm with h1 | h1
    · simp [isDigit] at h1
    · exact absurd h1 (by decide)
  apply normMark_of_markNorm
  unfold markNorm
  simp only [hlow, cutSuffix_none_of_not_mem (intToStr n) (s "/0xffffffff") '/' (by decide) hns, Option.getD_none]
  exact hp

/-- The normalised value of the kernel's spelling of a well formed option is a fixed point of the
per-key rewriting. -/
theorem nv_fixed (cfg : KCfg) (a : AOpt) (w : a.wf = true) : normVal (nk a) (nv cfg a) = nv cfg a := by
  cases a with
  | src n ip len h =>
    simp only [AOpt.wf, Bool.and_eq_true] at w
    show normVal (s "-s") _ = _
    rw [normVal_s]
    exact normAddr_fixed _ _ _ (negPre_noslash _) (ipTok_noslash w.1) (digits_nochar (canonNum_digits w.2) '/' (by decide))
  | dst n ip len h =>
    simp only [AOpt.wf, Bool.and_eq_true] at w
    show normVal (s "-d") _ = _
    rw [normVal_d]
    exact normAddr_fixed _ _ _ (negPre_noslash _) (ipTok_noslash w.1) (digits_nochar (canonNum_digits w.2) '/' (by decide))
  | inIf n name =>
    show normVal (s "-i") _ = _
    exact normVal_other _ _ (by decide)
  | proto n P u m =>
    show normVal (s "-p") _ = _
    rw [normVal_p]; exact normProto_fixed cfg n P u m w
  | sport ps z o =>
    simp only [AOpt.wf] at w
    show normVal (s "--sport") (normPort ps.kernel) = _
    rw [normVal_sport]
    cases ps with
    | one p => exact normPort_fixed_one p w
    | range lo hi =>
      simp only [Ports.wf, Bool.and_eq_true] at w
      exact normPort_fixed_range lo hi w.1.1.1 w.1.1.2
  | dport ps z o =>
    simp only [AOpt.wf] at w
    show normVal (s "--dport") (normPort ps.kernel) = _
    rw [normVal_dport]
    cases ps with
    | one p => exact normPort_fixed_one p w
    | range lo hi =>
      simp only [Ports.wf, Bool.and_eq_true] at w
      exact normPort_fixed_range lo hi w.1.1.1 w.1.1.2
  | syn n f =>
    show normVal (s "--syn") _ = _
    exact normVal_other _ _ (by decide)
  | icmpType t =>
    show normVal (s "--icmp-type") _ = _
    exact normVal_other _ _ (by decide)
  | mExplicit n =>
    show normVal (s "-m") _ = _
    exact normVal_other _ _ (by decide)
  | state l =>
    simp only [AOpt.wf, Bool.and_eq_true, Bool.not_eq_eq_eq_not, Bool.not_true, List.isEmpty_eq_false_iff,
      decide_eq_true_eq] at w
    show normVal (s "--state") _ = _
    rw [normVal_state]; exact normState_fixed l w.1 w.2
  | jump t =>
    show normVal (s "-j") _ = _
    exact normVal_other _ _ (by decide)
  | goto t =>
    show normVal (s "-g") _ = _
    exact normVal_other _ _ (by decide)
  | logLevel lvl d =>
    simp only [AOpt.wf] at w
    show normVal (s "--log-level") (normLog lvl) = _
    rw [normVal_log, normLog_canon w, normLog_canon w]
    show lvl = normLog lvl
    rw [normLog_canon w]
  | setMark hex mask x v =>
    simp only [AOpt.wf, Bool.and_eq_true, beq_iff_eq] at w
    obtain ⟨⟨⟨⟨_, hsome⟩, heq⟩, _⟩, hmask⟩ := w
    subst hmask
    have e2 : s "0x" ++ hex ++ s "/0x" ++ s "ffffffff" = s "0x" ++ hex ++ s "/0xffffffff" := by
      rw [List.append_assoc (s "0x" ++ hex)]; rfl
    have hs : (markNorm (s "0x" ++ hex ++ s "/0xffffffff")).isSome = true := by rw [← heq]; exact hsome
    obtain ⟨n, hn⟩ := Option.isSome_iff_exists.mp hs
    show normVal (s "--set-mark") (normMark (s "0x" ++ hex ++ s "/0x" ++ s "ffffffff")) = _
    rw [show s "--set-mark" = kMark from rfl, normVal_mark, e2]
    show _ = normMark (s "0x" ++ hex ++ s "/0x" ++ s "ffffffff")
    rw [e2]
    exact normMark_fixed _ n hn
  | toSource ip =>
    show normVal (s "--to-source") _ = _
    exact normVal_other _ _ (by decide)

theorem tagKey_facts : ∀ i, i < 15 → tagKey i ≠ kXmark ∧ (tagKey i = kM → i = 8) ∧ (tagKey i = kP → i = 3) := by decide

theorem nk_facts (a : AOpt) : nk a ≠ kXmark ∧ (nk a = kM → ∃ n, a = .mExplicit n) ∧
    (nk a = kP → ∃ n P u m, a = .proto n P u m) := by
  obtain ⟨h1, h2, h3⟩ := tagKey_facts (tag a) (tag_lt a)
  rw [← nk_tag] at h1 h2 h3
  refine ⟨h1, ?_, ?_⟩
  · intro h; have := h2 h; cases a <;> simp [tag] at this; exact ⟨_, rfl⟩
  · intro h; have := h3 h; cases a <;> simp [tag] at this; exact ⟨_, _, _, _, rfl⟩

/-- a normalised protocol value never folds to `state` -/
theorem normProto_not_state (cfg : KCfg) (n : Neg) (P : Proto) (u m : Bool) (w : (AOpt.proto n P u m).wf = true) :
    equalFold (s "state") (normProto (negPre n.isNeg ++ P.kname cfg.protoNames)) = false := by
  cases P with
  | num d =>
    simp only [AOpt.wf, Bool.and_eq_true] at w
    have hd := canonNum_digits w.1.1
    simp only [Proto.kname]
    rw [normProto_digits _ d hd (canonNum_ne_nil w.1.1) (negPre_cases _)]
    cases d with
    | nil => exact absurd rfl (canonNum_ne_nil w.1.1)
    | cons c cs =>
      simp only [List.all_cons, Bool.and_eq_true] at hd
      have hc := hd.1
      have hcs : c ≠ 's' := by intro e; subst e; simp [isDigit] at hc
      cases n
      · exact equalFold_false_of_head (s "state") _ 's' c (by decide)
          (by simp [negPre, Neg.isNeg, lower, lowerC_of_digit hc]) (fun e => hcs e.symm)
      · exact equalFold_false_of_head (s "state") _ 's' '!' (by decide) (by simp [negPre, Neg.isNeg, lower]; decide) (by decide)
      · exact equalFold_false_of_head (s "state") _ 's' '!' (by decide) (by simp [negPre, Neg.isNeg, lower]; decide) (by decide)
  | tcp | udp | icmp | vrrp | ipv6icmp =>
    obtain ⟨names⟩ := cfg
    revert w
    cases n <;> cases names <;> cases u <;> cases m <;> decide

/-- **The normal form of a rule of the grammar is stable**: the counted predicate `RuleOK` discharges
the hypothesis of `normalize_idempotent_partial`. -/
theorem ruleOK_stable (cfg : KCfg) (r : ARule) (H : RuleOK cfg r) :
    Stable (normalize (pairsOf (kernelOpts cfg r) [])) := by
  -- every entry of the normal form is (nk a, nv a) for an option a of the rule
  have ent : ∀ k v, getA k (normalize (pairsOf (kernelOpts cfg r) [])) = some v →
      ∃ a ∈ r, isPM (protoOf cfg r) a = false ∧ k = nk a ∧ v = nv cfg a := by
    intro k v hg
    obtain ⟨a, ha, hpm, hn⟩ := (kernel_norm_entries cfg r H k v).mp hg
    rw [kentry_some cfg r H a ha hpm] at hn
    have := Prod.mk.inj (Option.some.inj hn)
    exact ⟨a, ha, hpm, this.1.symm, this.2.symm⟩
  rw [stable_iff]
  refine ⟨?_, ?_, ?_⟩
  · intro k v hg
    obtain ⟨a, ha, _, rfl, rfl⟩ := ent k v hg
    exact nv_fixed cfg a (H.wf a ha)
  · unfold xConv
    cases hg : getA kXmark (normalize (pairsOf (kernelOpts cfg r) [])) with
    | none => rfl
    | some v =>
      obtain ⟨a, _, _, hk, _⟩ := ent kXmark v hg
      exact absurd hk.symm (nk_facts a).1
  · unfold mDrop
    cases hg : getA kM (normalize (pairsOf (kernelOpts cfg r) [])) with
    | none => rfl
    | some v =>
      obtain ⟨a, ha, hpm, hk, hv⟩ := ent kM v hg
      obtain ⟨n, rfl⟩ := (nk_facts a).2.1 hk.symm
      obtain ⟨hs, _⟩ := keepK cfg r H n ha hpm
      subst hs
      have hv' : v = s "state" := by rw [hv]; show lower (s "state") = s "state"; decide
      subst hv'
      simp only
      cases hgp : getA kP (normalize (pairsOf (kernelOpts cfg r) [])) with
      | none => decide
      | some w =>
        obtain ⟨a', ha', _, hk', hw⟩ := ent kP w hgp
        obtain ⟨n', P, u, m, rfl⟩ := (nk_facts a').2.2 hk'.symm
        rw [Option.getD_some, hw]
        exact normProto_not_state cfg n' P u m (H.wf _ ha')

/-- Hence a second normalisation of what the parser made of the kernel's spelling changes nothing. -/
theorem normalize_idempotent_ruleOK (cfg : KCfg) (r : ARule) (H : RuleOK cfg r) :
    PairsEq (normalize (normalize (pairsOf (kernelOpts cfg r) []))) (normalize (pairsOf (kernelOpts cfg r) [])) :=
  normalize_of_stable _ (ruleOK_stable cfg r H)

end NA.C05
