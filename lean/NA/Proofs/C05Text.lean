import NA.Proofs.C05Final
/-!
C05 (round 3): the text level.  Words joined by single blanks are read back by `fields`; a line that
neither starts nor ends with white space is its own `trimSpace`; and `parseRoute` reads back what
`ip route show` prints for a static route (`routeShow`).
-/
namespace NA.C05
open NA.Linux NA.Linux.Spec

/-- A word: not empty, no white space. -/
def Tok (w : Str) : Prop := w ≠ [] ∧ ∀ c ∈ w, isSpace c = false

instance (w : Str) : Decidable (Tok w) := by unfold Tok; exact inferInstance

theorem fieldsGo_tok (w rest cur : Str) (hw : ∀ c ∈ w, isSpace c = false) :
    fields.go (w ++ rest) cur = fields.go rest (w.reverse ++ cur) := by
  induction w generalizing cur with
  | nil => rfl
  | cons c cs ih =>
    have hc : isSpace c = false := hw c (by simp)
    simp only [List.cons_append, fields.go, hc, Bool.false_eq_true, ↓reduceIte,
      ih (c :: cur) (fun d hd => hw d (by simp [hd]))]
    simp

theorem fieldsGo_join : ∀ (ws : List Str) (w cur : Str), (∀ x ∈ w :: ws, Tok x) →
    fields.go (joinWith [' '] (w :: ws)) cur = (cur.reverse ++ w) :: ws := by
  intro ws
  induction ws with
  | nil =>
    intro w cur h
    have hw := h w (by simp)
    have := fieldsGo_tok w [] cur hw.2
    simp only [List.append_nil] at this
    have hne : (w.reverse ++ cur).isEmpty = false := by
      cases w with
      | nil => exact absurd rfl hw.1
      | cons c cs => simp
    simp [joinWith, this, fields.go, hne]
  | cons y ys ih =>
    intro w cur h
    have hw := h w (by simp)
    have hj : joinWith [' '] (w :: y :: ys) = w ++ (' ' :: joinWith [' '] (y :: ys)) := by simp [joinWith]
    have hne : (w.reverse ++ cur).isEmpty = false := by
      cases w with
      | nil => exact absurd rfl hw.1
      | cons c cs => simp
    rw [hj, fieldsGo_tok w _ cur hw.2]
    simp only [fields.go, show isSpace ' ' = true from rfl, ↓reduceIte, hne, Bool.false_eq_true]
    rw [ih y [] (fun x hx => h x (by simp [List.mem_cons.mp hx]))]
    simp

/-- Words joined by single blanks are read back by `strings.Fields`. -/
theorem fields_join (ws : List Str) (h : ∀ x ∈ ws, Tok x) : fields (joinWith [' '] ws) = ws := by
  cases ws with
  | nil => rfl
  | cons w ws =>
    unfold fields
    rw [fieldsGo_join ws w [] h]
    simp

theorem trimLeftSpace_id {x : Str} (h : ∀ c, x.head? = some c → isSpace c = false) : trimLeftSpace x = x := by
  cases x with
  | nil => rfl
  | cons c cs => simp [trimLeftSpace, h c rfl]

/-- A line that neither starts nor ends with white space is not changed by `strings.TrimSpace`. -/
theorem trimSpace_id {x : Str} (h1 : ∀ c, x.head? = some c → isSpace c = false)
    (h2 : ∀ c, x.getLast? = some c → isSpace c = false) : trimSpace x = x := by
  unfold trimSpace
  rw [trimLeftSpace_id h1, trimLeftSpace_id (by
    intro c hc
    rw [List.head?_reverse] at hc
    exact h2 c hc), List.reverse_reverse]

/-! ### the two tests for ignored routes -/

theorem hasPrefix_mem {x p : Str} (h : hasPrefix x p = true) : ∀ c ∈ p, c ∈ x := by
  induction p generalizing x with
  | nil => intro c hc; simp at hc
  | cons d ds ih =>
    cases x with
    | nil => simp [hasPrefix] at h
    | cons e es =>
      simp only [hasPrefix, Bool.and_eq_true, beq_iff_eq] at h
      intro c hc
      rcases List.mem_cons.mp hc with e1 | e1
      · simp [e1, h.1]
      · simp [ih h.2 c e1]

theorem contains_tok (w rest sub : Str) (hw : ∀ c ∈ w, isSpace c = false) :
    contains (w ++ rest) (' ' :: sub) = contains rest (' ' :: sub) := by
  induction w with
  | nil => rfl
  | cons c cs ih =>
    have hc : ¬ c = ' ' := by intro e; have := hw c (by simp); rw [e] at this; simp [isSpace] at this
    have hb : (c == ' ') = false := by simp [hc]
    simp only [List.cons_append, contains, hasPrefix, hb, Bool.false_and, Bool.false_or]
    exact ih (fun d hd => hw d (by simp [hd]))

theorem contains_nil (sub : Str) : contains [] (' ' :: sub) = false := rfl

theorem contains_space (rest sub : Str) :
    contains (' ' :: rest) (' ' :: sub) = (hasPrefix rest sub || contains rest (' ' :: sub)) := by
  simp [contains, hasPrefix]

theorem matchProto_tok (w rest : Str) (hw : ∀ c ∈ w, isSpace c = false) :
    matchProtoIgnored (w ++ rest) = matchProtoIgnored rest := by
  induction w with
  | nil => rfl
  | cons c cs ih =>
    have hc : ¬ c = ' ' := by intro e; have := hw c (by simp); rw [e] at this; simp [isSpace] at this
    have hcp : cutPrefix (c :: (cs ++ rest)) (s " proto ") = none := by
      show cutPrefix (c :: (cs ++ rest)) (' ' :: s "proto ") = none
      simp [cutPrefix, hc]
    simp only [List.cons_append, matchProtoIgnored, hcp, Bool.false_or]
    exact ih (fun d hd => hw d (by simp [hd]))

theorem matchProto_space (rest : Str) (h : cutPrefix rest (s "proto ") = none) :
    matchProtoIgnored (' ' :: rest) = matchProtoIgnored rest := by
  have : cutPrefix (' ' :: rest) (s " proto ") = cutPrefix rest (s "proto ") := by
    show cutPrefix (' ' :: rest) (' ' :: s "proto ") = _
    simp [cutPrefix]
  simp only [matchProtoIgnored, this, h, Bool.false_or]

/-- A word followed by anything does not start with a pattern that has a blank inside the word's length. -/
theorem cutPrefix_none_of_head {x p : Str} {c d : Char} (hx : x.head? = some c) (hp : p.head? = some d)
    (hcd : c ≠ d) : cutPrefix x p = none ∧ hasPrefix x p = false := by
  cases x with
  | nil => simp at hx
  | cons a as =>
    cases p with
    | nil => simp at hp
    | cons b bs =>
      simp only [List.head?_cons, Option.some.injEq] at hx hp
      subst hx; subst hp
      simp [cutPrefix, hasPrefix, hcd]

/-- A last word without blank does not start with a pattern containing a blank. -/
theorem tok_no_blank_prefix {w p : Str} (hw : ∀ c ∈ w, isSpace c = false) (hp : ' ' ∈ p) :
    cutPrefix w p = none ∧ hasPrefix w p = false := by
  constructor
  · cases h : cutPrefix w p with
    | none => rfl
    | some r =>
      have := cutPrefix_some h
      have hm : ' ' ∈ w := by rw [this]; simp [hp]
      have := hw ' ' hm
      simp [isSpace] at this
  · cases h : hasPrefix w p with
    | false => rfl
    | true =>
      have hm := hasPrefix_mem h ' ' hp
      have := hw ' ' hm
      simp [isSpace] at this

/-! ### `parseRoute` reads back what `ip route show` prints -/

theorem ipTok_tok {w : Str} (h : ipTok w = true) : Tok w := by
  simp only [ipTok, plainTok, Bool.and_eq_true, Bool.not_eq_eq_eq_not, Bool.not_true, List.isEmpty_eq_false_iff,
    List.any_eq_false] at h
  exact ⟨h.1.1.1.1.1, fun c hc => by simpa using h.1.1.1.1.2 c hc⟩

theorem ipTok_chars {w : Str} (h : ipTok w = true) : ∀ c ∈ w, isDigit c = true ∨ c = '.' := by
  simp only [ipTok, Bool.and_eq_true, List.all_eq_true, Bool.or_eq_true, beq_iff_eq] at h
  exact h.2

theorem ipTok_head {w : Str} (h : ipTok w = true) : ∃ c, w.head? = some c ∧ (isDigit c = true ∨ c = '.') := by
  cases w with
  | nil => exact absurd rfl (ipTok_tok h).1
  | cons c cs => exact ⟨c, rfl, ipTok_chars h c (by simp)⟩

theorem digit_or_dot_ne {c : Char} (h : isDigit c = true ∨ c = '.') : c ≠ 's' ∧ c ≠ 'p' ∧ c ≠ '/' ∧ c ≠ 'd' := by
  rcases h with h | h
  · simp only [isDigit, Bool.and_eq_true, decide_eq_true_eq] at h
    have h1 : c.toNat ≤ 57 := h.2
    have h0 : 48 ≤ c.toNat := h.1
    refine ⟨?_, ?_, ?_, ?_⟩ <;> (intro e; subst e; simp at h1 h0)
  · subst h; decide

/-- The part of an `ip route show` line behind the next hop. -/
def rtail : Option Str → Str
  | some d => ' ' :: (s "dev" ++ ' ' :: d)
  | none => []

/-- The shape all printed routes have: `DST via HOP [dev IF]`. -/
def rline (D hop : Str) (dev : Option Str) : Str := D ++ (' ' :: (s "via" ++ (' ' :: (hop ++ rtail dev))))

def rtoks (D hop : Str) : Option Str → List Str
  | some d => [D, s "via", hop, s "dev", d]
  | none => [D, s "via", hop]

theorem rline_join (D hop : Str) (dev : Option Str) : rline D hop dev = joinWith [' '] (rtoks D hop dev) := by
  cases dev <;> simp [rline, rtail, rtoks, joinWith]

theorem rline_notIgnored (D hop : Str) (dev : Option Str) (hD : Tok D) (hhop : ipTok hop = true)
    (hdev : ∀ d, dev = some d → Tok d) :
    contains (rline D hop dev) (s " scope link") = false ∧ matchProtoIgnored (rline D hop dev) = false := by
  obtain ⟨hc, hhd, hcd⟩ := ipTok_head hhop
  have hne := digit_or_dot_ne hcd
  have hhopT := ipTok_tok hhop
  have hvia : ∀ c ∈ s "via", isSpace c = false := by decide
  have hdevw : ∀ c ∈ s "dev", isSpace c = false := by decide
  have pat : s " scope link" = ' ' :: s "scope link" := rfl
  have hop_head : ∀ (T : Str), (hop ++ T).head? = some hc := by
    intro T; cases hop with
    | nil => simp at hhd
    | cons a as => simpa using hhd
  constructor
  · unfold rline
    rw [pat, contains_tok D _ _ hD.2, contains_space]
    rw [(cutPrefix_none_of_head (x := s "via" ++ (' ' :: (hop ++ rtail dev))) (p := s "scope link") (c := 'v') (d := 's') rfl rfl (by decide)).2]
    rw [Bool.false_or, contains_tok _ _ _ hvia, contains_space]
    rw [(cutPrefix_none_of_head (hop_head _) (p := s "scope link") (d := 's') rfl hne.1).2]
    rw [Bool.false_or, contains_tok _ _ _ hhopT.2]
    cases dev with
    | none => rfl
    | some d =>
      have hd := hdev d rfl
      simp only [rtail]
      rw [contains_space]
      rw [(cutPrefix_none_of_head (x := s "dev" ++ ' ' :: d) (p := s "scope link") (c := 'd') (d := 's') rfl rfl (by decide)).2]
      rw [Bool.false_or, contains_tok _ _ _ hdevw, contains_space]
      rw [(tok_no_blank_prefix hd.2 (p := s "scope link") (by decide)).2, Bool.false_or]
      have := contains_tok d [] (s "scope link") hd.2
      simp only [List.append_nil] at this
      rw [this]; rfl
  · unfold rline
    rw [matchProto_tok D _ hD.2, matchProto_space _ (cutPrefix_none_of_head (x := s "via" ++ (' ' :: (hop ++ rtail dev)))
        (p := s "proto ") (c := 'v') (d := 'p') rfl rfl (by decide)).1]
    rw [matchProto_tok _ _ hvia, matchProto_space _ (cutPrefix_none_of_head (hop_head _) (p := s "proto ") (d := 'p') rfl hne.2.1).1]
    rw [matchProto_tok _ _ hhopT.2]
    cases dev with
    | none => rfl
    | some d =>
      have hd := hdev d rfl
      simp only [rtail]
      rw [matchProto_space _ (cutPrefix_none_of_head (x := s "dev" ++ ' ' :: d) (p := s "proto ") (c := 'd') (d := 'p') rfl rfl (by decide)).1]
      rw [matchProto_tok _ _ hdevw, matchProto_space _ (tok_no_blank_prefix hd.2 (p := s "proto ") (by decide)).1]
      have := matchProto_tok d [] hd.2
      simp only [List.append_nil] at this
      rw [this]; rfl

/-- How `parseRoutes` reads a destination word. -/
def dstParse (D : Str) : Str × Int :=
  match cutChar D '/' with
  | (a, b, true) => (a, atoiOrZero b)
  | _ => if D = s "default" then (s "0.0.0.0", 0) else (D, 32)

/-- `parseRoute` on a line of that shape. -/
theorem parseRoute_rline (D hop : Str) (dev : Option Str) (hD : Tok D) (hhop : ipTok hop = true)
    (hdev : ∀ d, dev = some d → Tok d) :
    parseRoute (s "ip route add " ++ rline D hop dev) =
      .ok (some { ip := (dstParse D).1, plen := (dstParse D).2,
                  hop := hop, orig := s "ip route add " ++ rline D hop dev }) := by
  obtain ⟨h1, h2⟩ := rline_notIgnored D hop dev hD hhop hdev
  have hf : fields (rline D hop dev) = rtoks D hop dev := by
    rw [rline_join]
    apply fields_join
    intro x hx
    cases dev with
    | none =>
      simp only [rtoks, List.mem_cons, List.not_mem_nil, or_false] at hx
      rcases hx with e | e | e
      · rw [e]; exact hD
      · rw [e]; decide
      · rw [e]; exact ipTok_tok hhop
    | some d =>
      simp only [rtoks, List.mem_cons, List.not_mem_nil, or_false] at hx
      rcases hx with e | e | e | e | e
      · rw [e]; exact hD
      · rw [e]; decide
      · rw [e]; exact ipTok_tok hhop
      · rw [e]; decide
      · rw [e]; exact hdev d rfl
  unfold parseRoute
  rw [cutPrefix_append]
  simp only [h1, h2, Bool.false_eq_true, ↓reduceIte, hf]
  cases dev with
  | none =>
    simp only [rtoks, ne_eq, not_true_eq_false, ↓reduceIte, List.length_nil, gt_iff_lt, Nat.lt_irrefl,
      decide_false, Bool.false_and]
    rfl
  | some d =>
    simp only [rtoks, ne_eq, not_true_eq_false, ↓reduceIte]
    have : (decide ([s "dev", d].length > 0) && !([s "dev", d].length == 2 && [s "dev", d].head? == some (s "dev"))) = false := by
      simp
    simp only [this, Bool.false_eq_true, ↓reduceIte]
    rfl

theorem plen_digits : ∀ n : Nat, n < 33 →
    atoiOrZero (toString (Int.ofNat n)).toList = Int.ofNat n ∧
    (∀ c ∈ (toString (Int.ofNat n)).toList, isSpace c = false) := by decide

/-- The destination word of `routeShow`. -/
def dstText (ip : Str) (pl : Int) : Str :=
  if pl = 32 then ip else if ip = s "0.0.0.0" ∧ pl = 0 then s "default" else ip ++ ['/'] ++ (toString pl).toList

theorem routeShow_eq (ip hop : Str) (pl : Int) (dev : Option Str) :
    routeShow (ip, pl, hop) dev = rline (dstText ip pl) hop dev := by
  have e1 : s " via " = ' ' :: (s "via" ++ [' ']) := by decide
  have e2 : s " dev " = ' ' :: (s "dev" ++ [' ']) := by decide
  cases dev with
  | none =>
    simp only [routeShow, rline, rtail, dstText, e1, List.append_assoc, List.cons_append, List.nil_append,
      List.append_nil]
  | some d =>
    simp only [routeShow, rline, rtail, dstText, e1, e2, List.append_assoc, List.cons_append, List.nil_append,
      List.append_nil]

/-- For every static route of the kernel table — address and next hop dotted decimals, prefix length
0…32, optionally an interface — `parseRoute` reads the line `ip route show` prints for it back to
exactly that (destination, prefix length, next hop). -/
theorem parseRoute_routeShow (ip hop : Str) (n : Nat) (dev : Option Str) (hip : ipTok ip = true)
    (hhop : ipTok hop = true) (hn : n ≤ 32) (hdev : ∀ d, dev = some d → Tok d) :
    ∃ r : Route, parseRoute (s "ip route add " ++ routeShow (ip, Int.ofNat n, hop) dev) = .ok (some r) ∧
      r.key = (ip, Int.ofNat n, hop) := by
  rw [routeShow_eq]
  have hipT := ipTok_tok hip
  obtain ⟨hc, hhd, hcd⟩ := ipTok_head hip
  have hns := ipTok_noslash hip
  obtain ⟨hat, hsp⟩ := plen_digits n (by omega)
  have i32 : (Int.ofNat n = 32) ↔ n = 32 := by
    constructor
    · intro h; exact Int.ofNat.inj h
    · intro h; rw [h]; rfl
  have i0 : (Int.ofNat n = 0) ↔ n = 0 := by
    constructor
    · intro h; exact Int.ofNat.inj h
    · intro h; rw [h]; rfl
  by_cases h32 : n = 32
  · have hD : dstText ip (Int.ofNat n) = ip := by unfold dstText; rw [if_pos (i32.mpr h32)]
    rw [hD]
    refine ⟨_, parseRoute_rline ip hop dev hipT hhop hdev, ?_⟩
    have hnd : ¬ ip = s "default" := by
      intro e; rw [e] at hhd
      have : hc = 'd' := by simpa [s] using hhd.symm
      exact (digit_or_dot_ne hcd).2.2.2 this
    have : dstParse ip = (ip, 32) := by
      unfold dstParse; rw [cutChar_no ip '/' hns]; simp only; rw [if_neg hnd]
    simp only [Route.key, this, h32]; rfl
  · by_cases hdef : ip = s "0.0.0.0" ∧ n = 0
    · obtain ⟨e1, e2⟩ := hdef
      have hD : dstText ip (Int.ofNat n) = s "default" := by
        unfold dstText; rw [if_neg (fun h => h32 (i32.mp h)), if_pos ⟨e1, i0.mpr e2⟩]
      rw [hD]
      refine ⟨_, parseRoute_rline (s "default") hop dev (by decide) hhop hdev, ?_⟩
      have : dstParse (s "default") = (s "0.0.0.0", 0) := by decide
      simp only [Route.key, this, e1, e2]; rfl
    · have hD : dstText ip (Int.ofNat n) = ip ++ ['/'] ++ (toString (Int.ofNat n)).toList := by
        unfold dstText
        rw [if_neg (fun h => h32 (i32.mp h)), if_neg (fun h => hdef ⟨h.1, i0.mp h.2⟩)]
      rw [hD]
      have hT : Tok (ip ++ ['/'] ++ (toString (Int.ofNat n)).toList) := by
        refine ⟨by cases ip with
          | nil => exact absurd rfl hipT.1
          | cons a as => simp, ?_⟩
        intro c hc'
        simp only [List.mem_append, List.mem_singleton] at hc'
        rcases hc' with (h | h) | h
        · exact hipT.2 c h
        · subst h; rfl
        · exact hsp c h
      refine ⟨_, parseRoute_rline _ hop dev hT hhop hdev, ?_⟩
      have hcut : cutChar (ip ++ ['/'] ++ (toString (Int.ofNat n)).toList) '/' =
          (ip, (toString (Int.ofNat n)).toList, true) := by
        have := cutChar_at ip (toString (Int.ofNat n)).toList '/' hns
        rw [List.append_assoc]; exact this
      have : dstParse (ip ++ ['/'] ++ (toString (Int.ofNat n)).toList) = (ip, Int.ofNat n) := by
        unfold dstParse; rw [hcut]; simp only; rw [hat]
      simp only [Route.key, this]

end NA.C05
