import NA.Proofs.F1Full
import NA.Proofs.F1Check
/-!
# F1: transfer of a whole access list (`addCmds(bl)`) on the strict device
-/
namespace NA.F1
open NA.AsaDev
open NA.Acl (Range)

theorem hasAcl_setAcl (d : Dev) (X n : Name) (ls : List RLine) (md : Option Name) :
    hasAcl { d with acls := setAssoc d.acls X ls, mode := md } n = (X == n || hasAcl d n) := by
  simp [hasAcl, anyKey_setAssoc]

theorem keys_setAssoc_new {β : Type} (m : List (Name × β)) (k : Name) (v : β) (h : m.any (·.1 == k) = false) :
    (setAssoc m k v).map (·.1) = m.map (·.1) ++ [k] := by
  rw [setAssoc_eq]; simp [h]

theorem hasAcl_iff_keys (d : Dev) (n : Name) : hasAcl d n = true ↔ n ∈ d.acls.map (·.1) := by
  simp only [hasAcl, List.any_eq_true, List.mem_map, beq_iff_eq]

theorem hasAcl_congr_keys {d d' : Dev} (h : d'.acls.map (·.1) = d.acls.map (·.1)) (n : Name) : hasAcl d' n = hasAcl d n := by
  have h1 := hasAcl_iff_keys d n
  have h2 := hasAcl_iff_keys d' n
  rw [h] at h2
  cases ha : hasAcl d n <;> cases hb : hasAcl d' n <;> simp_all

/-- Appending one line to access list `X` (created if it does not exist). -/
theorem exec1_aclAppend (d : Dev) (X : Name) (r : RLine) (hg : ∀ g ∈ r.names, hasGroup d g = true)
    (hdup : (linesOf d X).any (fun x => x.mkey == r.mkey) = false) :
    exec1 d (.acl X none r) = .ok { d with acls := setAssoc d.acls X (linesOf d X ++ [r]), mode := none } := by
  have h1 : r.names.all (hasGroup d) = true := List.all_eq_true.mpr hg
  simp [exec1, h1, hdup]

theorem keysNodup_setAcl (d : Dev) (X : Name) (ls : List RLine) (md : Option Name) (h : (d.acls.map (·.1)).Nodup) :
    (({ d with acls := setAssoc d.acls X ls, mode := md } : Dev).acls.map (·.1)).Nodup := by
  show ((setAssoc d.acls X ls).map (·.1)).Nodup
  cases hx : d.acls.any (·.1 == X) with
  | true => rw [keys_setAssoc_existing _ _ _ hx]; exact h
  | false =>
    rw [keys_setAssoc_new _ _ _ hx]
    apply List.nodup_append.mpr
    refine ⟨h, by simp, ?_⟩
    intro a ha b hb e1
    simp at hb; subst hb; subst e1
    have : hasAcl d a = true := (hasAcl_iff_keys d a).mpr ha
    unfold hasAcl at this
    rw [hx] at this; exact absurd this (by simp)

/-- One line of the transfer: groups first, then `access-list X extended …` appended to `X`. -/
theorem transferLine_step (e : Env) (hw : WF e) (st0 : St) (X : Name) (s : St) (ds : Dev) (l : Line)
    (h : Sem e s ds) (hgn : s.gName = st0.gName) (hb : ∀ g ∈ l.refs, g ∈ BNames e)
    (hdup : (linesOf ds X).any (fun x => x.mkey == (resolveB st0 l).mkey) = false)
    (hk : (ds.acls.map (·.1)).Nodup) :
    ∃ d', StepX e s ds (emitLine e s (Chg.acl X none) l) d' X ∧ Sem e (emitLine e s (Chg.acl X none) l) d' ∧
      linesOf d' X = linesOf ds X ++ [resolveB st0 l] ∧ hasAcl d' X = true ∧ (d'.acls.map (·.1)).Nodup ∧
      (emitLine e s (Chg.acl X none) l).gName = st0.gName ∧
      (∀ g ∈ l.refs, g ∈ (emitLine e s (Chg.acl X none) l).gReady) ∧
      (∀ g ∈ s.gReady, g ∈ (emitLine e s (Chg.acl X none) l).gReady) ∧
      SameAclMarks s (emitLine e s (Chg.acl X none) l) ∧ d'.binds = ds.binds ∧ d'.routes = ds.routes := by
  have hmarks := emitLine_aclMarks e s (Chg.acl X none) l
  unfold emitLine at hmarks ⊢
  simp only [] at hmarks ⊢
  obtain ⟨d1, g1, r1, n1, m1⟩ := transferRefs_gstep e hw l.refs s ds h hb
  have hm1 : SameAclMarks s (l.refs.foldl (transferGroup e) s) :=
    SameAclMarks.foldl _ _ s (fun s' g => transferGroup_aclMarks e s' g)
  generalize l.refs.foldl (transferGroup e) s = s1 at g1 r1 n1 m1 hm1 hmarks ⊢
  have hres : resolveB s1 l = resolveB st0 l := resolveB_congr (n1.trans hgn) l
  rw [hres] at hmarks ⊢
  have hgroups : ∀ g ∈ (resolveB st0 l).names, hasGroup d1 g = true := by
    intro g hg
    rw [← hres] at hg
    simp only [resolveB, List.mem_map] at hg
    obtain ⟨r, hr, rfl⟩ := hg
    exact (g1.sem.ready r (r1 r hr)).1
  have hl1 : linesOf d1 X = linesOf ds X := g1.lines X
  have hex := exec1_aclAppend d1 X (resolveB st0 l) hgroups (by rw [hl1]; exact hdup)
  generalize hd2 : ({ d1 with acls := setAssoc d1.acls X (linesOf d1 X ++ [resolveB st0 l]), mode := none } : Dev) = d2 at hex
  have hgr2 : d2.groups = d1.groups := by rw [← hd2]
  have hsem2 : Sem e { (s1.emit (Chg.acl X none (resolveB st0 l))) with mode := "" } d2 :=
    g1.sem.transport hgr2 (by unfold ModeRel; rw [← hd2]; rfl) rfl rfl rfl
  have hlines2 : ∀ n, n ≠ X → linesOf d2 n = linesOf d1 n := fun n hn => by
    rw [← hd2]; exact linesOf_setAcl_ne d1 X n _ _ hn
  have hhas2 : ∀ n, hasAcl d2 n = (X == n || hasAcl d1 n) := fun n => by rw [← hd2]; exact hasAcl_setAcl d1 X n _ _
  refine ⟨d2, ?_, hsem2, ?_, ?_, ?_, n1.trans hgn, r1, m1, hmarks, ?_, ?_⟩
  · -- the step
    refine StepX.trans (g1.toStepX hm1.aNeeded hm1.aReady hm1.aName X) ?_
    refine ⟨⟨[_], rfl, exec_single hex⟩, ?_, fun x hx => hx, ?_, fun x hx => hx, fun bN hb' => ⟨hb', rfl⟩, by rw [← hd2]⟩
    · intro x hx _
      exact ⟨by simpa [hasGroup, hgr2] using hx, by simp [membersOf, hgr2]⟩
    · intro n hn
      refine ⟨?_, hlines2 n hn⟩
      rw [hhas2]
      have : (X == n) = false := by rw [beq_eq_false_iff_ne]; exact fun e1 => hn e1.symm
      simp [this]
  · rw [← hd2, linesOf_setAcl_self, hl1]
  · rw [hhas2]; simp
  · rw [← hd2]
    exact keysNodup_setAcl d1 X _ _ (by rw [g1.acls]; exact hk)
  · rw [← hd2]; exact g1.binds
  · rw [← hd2]; exact g1.routes

/-- All lines of the transfer. -/
theorem transferLines_step (e : Env) (hw : WF e) (st0 : St) (X : Name) : ∀ (ls : List Line) (s : St) (ds : Dev) (done : List Line),
    Sem e s ds → s.gName = st0.gName → (∀ l ∈ ls, ∀ g ∈ l.refs, g ∈ BNames e) →
    linesOf ds X = done.map (resolveB st0) →
    ((done ++ ls).map fun l => (resolveB st0 l).mkey).Nodup →
    (ds.acls.map (·.1)).Nodup → (∀ l ∈ done, ∀ g ∈ l.refs, g ∈ s.gReady) →
    ∃ d', StepX e s ds (ls.foldl (fun st l => emitLine e st (Chg.acl X none) l) s) d' X ∧
      Sem e (ls.foldl (fun st l => emitLine e st (Chg.acl X none) l) s) d' ∧
      linesOf d' X = (done ++ ls).map (resolveB st0) ∧ (hasAcl ds X = true ∨ ls ≠ [] → hasAcl d' X = true) ∧ (d'.acls.map (·.1)).Nodup ∧
      (ls.foldl (fun st l => emitLine e st (Chg.acl X none) l) s).gName = st0.gName ∧
      (∀ l ∈ done ++ ls, ∀ g ∈ l.refs, g ∈ (ls.foldl (fun st l => emitLine e st (Chg.acl X none) l) s).gReady) ∧
      SameAclMarks s (ls.foldl (fun st l => emitLine e st (Chg.acl X none) l) s) ∧ d'.binds = ds.binds ∧ d'.routes = ds.routes := by
  intro ls
  induction ls with
  | nil =>
    intro s ds done h hgn _ hl _ hk hr
    exact ⟨ds, StepX.refl e s ds X, h, by simpa using hl, fun hx => hx.elim id (fun h' => absurd rfl h'), hk, hgn,
      by simpa using hr, SameAclMarks.refl s, rfl, rfl⟩
  | cons l ls ih =>
    intro s ds done h hgn hb hl hnd hk hr
    have hdup : (linesOf ds X).any (fun x => x.mkey == (resolveB st0 l).mkey) = false := by
      rw [hl, List.any_map]
      cases hh : done.any ((fun x => x.mkey == (resolveB st0 l).mkey) ∘ resolveB st0) with
      | false => rfl
      | true =>
        exfalso
        obtain ⟨x, hx, hxe⟩ := List.any_eq_true.mp hh
        simp only [Function.comp, beq_iff_eq] at hxe
        rw [List.map_append, List.nodup_append] at hnd
        exact hnd.2.2 _ (List.mem_map.mpr ⟨x, hx, rfl⟩) _ (List.mem_map.mpr ⟨l, List.mem_cons_self, rfl⟩) hxe
    obtain ⟨d1, s1, m1, l1, a1, k1, g1, r1, rm1, am1, b1, ro1⟩ := transferLine_step e hw st0 X s ds l h hgn
      (hb l List.mem_cons_self) hdup hk
    obtain ⟨d2, s2, m2, l2, a2, k2, g2, r2, am2, b2, ro2⟩ := ih (emitLine e s (Chg.acl X none) l) d1 (done ++ [l]) m1 g1
      (fun x hx => hb x (List.mem_cons_of_mem _ hx)) (by rw [l1, hl]; simp)
      (by simpa using hnd) k1 (by
        intro x hx g hg
        rcases List.mem_append.mp hx with hx | hx
        · exact rm1 g (hr x hx g hg)
        · simp at hx; subst hx; exact r1 g hg)
    refine ⟨d2, by rw [List.foldl_cons]; exact s1.trans s2, by rw [List.foldl_cons]; exact m2, ?_, ?_, k2,
      by rw [List.foldl_cons]; exact g2, ?_, by rw [List.foldl_cons]; exact am1.trans am2, b2.trans b1, ro2.trans ro1⟩
    · rw [l2]; simp
    · intro _; exact a2 (Or.inl a1)
    · rw [List.foldl_cons]
      intro x hx g hg
      exact r2 x (by simpa using hx) g hg

theorem transferFold_congr (e : Env) (bN X : Name) : ∀ (ls : List Line) (s : St), s.aNameOf bN = X →
    ls.foldl (fun st l => emitLine e st (Chg.acl (st.aNameOf bN) none) l) s =
      ls.foldl (fun st l => emitLine e st (Chg.acl X none) l) s := by
  intro ls
  induction ls with
  | nil => intro s _; rfl
  | cons l ls ih =>
    intro s hs
    simp only [List.foldl_cons, hs]
    apply ih
    have := (emitLine_aclMarks e s (Chg.acl X none) l).aName
    simp [St.aNameOf, this] at hs ⊢
    exact hs

theorem lineOK_of_ready {e : Env} {st : St} {d : Dev} (hs : Sem e st d) (l : Line)
    (hr : ∀ g ∈ l.refs, g ∈ st.gReady) : LineOK e st d (resolveB st l) l ∧ ∀ x ∈ (resolveB st l).names, Frozen e st x := by
  refine ⟨⟨rfl, by simp [resolveB], ?_⟩, ?_⟩
  · intro p hp
    have hzz : (l.refs.map st.gNameOf).zip l.refs = l.refs.map (fun g => (st.gNameOf g, g)) := by
      have := zip_map_same st.gNameOf id l.refs
      simpa using this
    simp only [resolveB] at hp
    rw [hzz] at hp
    obtain ⟨g, hg, rfl⟩ := List.mem_map.mp hp
    exact hs.ready g (hr g hg)
  · intro x hx
    simp only [resolveB, List.mem_map] at hx
    obtain ⟨g, hg, rfl⟩ := hx
    exact (hs.ready g (hr g hg)).2.2

/-- `addCmds(bl)` for a whole target access list on the strict device. -/
theorem transferAcl_full (e : Env) (hw : WF e) (hB : RefsClosedB e) (st : St) (d : Dev) (hF : Full e st d) (bN : Name)
    (hbN : bN ∈ BAcls e) (hc : transferCheck e st bN = true) :
    ∃ d', Step e st d (transferAcl e st bN) d' ∧ Full e (transferAcl e st bN) d' ∧
      bN ∈ (transferAcl e st bN).aReady ∧ d'.binds = d.binds ∧ d'.routes = d.routes ∧
      (transferAcl e st bN).aNeeded = st.aNeeded ∧ (transferAcl e st bN).bNeeded = st.bNeeded ∧
      (transferAcl e st bN).aToDel = st.aToDel ∧ (transferAcl e st bN).bToDel = st.bToDel := by
  unfold transferAcl
  by_cases hr : st.aReady.contains bN = true
  · simp only [hr, if_true]
    exact ⟨d, Step.refl e st d, hF, by simpa using hr, rfl, rfl, trivial, trivial, trivial, trivial⟩
  · have hr' : bN ∉ st.aReady := by simpa using hr
    simp only [hr, Bool.false_eq_true, if_false]
    unfold transferCheck at hc
    simp only [hr, Bool.false_or, Bool.and_eq_true, Bool.not_eq_true', decide_eq_true_eq] at hc
    obtain ⟨hne, hnd⟩ := hc
    obtain ⟨hname, hno⟩ := hF.unready bN hbN hr'
    generalize hX : genName bN (A0 e) = X at hname hno
    have hXA : X ∉ A0 e := hX ▸ genName_fresh bN (A0 e)
    -- the state after marking the ACL ready
    generalize hst0 : ({ st with aReady := bN :: st.aReady }.hit "acl:transfer" : St) = st0
    have hsem0 : Sem e st0 d := by rw [← hst0]; exact sem_marks hF.sem rfl rfl rfl rfl
    have hn0 : st0.aNameOf bN = X := by rw [← hst0]; exact hname
    rw [transferFold_congr e bN X _ st0 hn0]
    have hres0 : ∀ l, resolveB st0 l = resolveB st l := fun l => by rw [← hst0]; rfl
    obtain ⟨d', sx, sem', hlines, hhas, hkeys, hgn, hready, hmarks, hb', hro'⟩ :=
      transferLines_step e hw st0 X (e.bLines bN) st0 d [] hsem0 rfl (fun l hl => hB bN l hl)
        (by
          have : linesOf d X = [] := by
            unfold linesOf
            cases hl : d.acls.lookup X with
            | none => rfl
            | some v =>
              have := mem_of_lookup hl
              have h2 : hasAcl d X = true := List.any_eq_true.mpr ⟨_, this, by simp⟩
              rw [hno] at h2; exact absurd h2 (by simp)
          simpa using this)
        (by simpa [hres0] using hnd) hF.keysNodup (fun _ hl => by simp at hl)
    generalize hst' : (e.bLines bN).foldl (fun st l => emitLine e st (Chg.acl X none) l) st0 = st' at sx sem' hgn hready hmarks
    simp only [List.nil_append] at hlines hready
    have hblne : e.bLines bN ≠ [] := by
      intro h0; rw [h0] at hne; simp at hne
    -- marks of the final state relative to `st`
    have haN : st'.aNeeded = st.aNeeded := by rw [hmarks.aNeeded, ← hst0]; rfl
    have haR : st'.aReady = bN :: st.aReady := by rw [hmarks.aReady, ← hst0]; rfl
    have haName : st'.aName = st.aName := by rw [hmarks.aName, ← hst0]; rfl
    have hgName : st'.gName = st.gName := by rw [hgn, ← hst0]; rfl
    -- the whole transfer as a step from `st`
    have s0 : StepX e st d st0 d X :=
      ⟨⟨[], by rw [← hst0]; simp [St.hit], exec_nil d⟩, fun _ h _ => ⟨h, rfl⟩, fun x hx => by rw [← hst0]; exact hx,
        fun _ _ => ⟨rfl, rfl⟩, fun x hx => by rw [← hst0]; exact hx,
        fun b hb => ⟨by rw [← hst0]; exact List.mem_cons_of_mem _ hb, by rw [← hst0]; rfl⟩, rfl⟩
    have sfull : StepX e st d st' d' X := s0.trans sx
    have hstep : Step e st d st' d' := sfull.toStep (fun hx => by rw [hno] at hx; exact absurd hx.1 (by simp))
    have hresolve : ∀ l, resolveB st' l = resolveB st0 l := fun l => resolveB_congr hgn l
    refine ⟨d', hstep, ?_, by rw [haR]; exact List.mem_cons_self, hb', hro', haN,
      by rw [hmarks.bNeeded, ← hst0]; rfl, by rw [hmarks.aToDel, ← hst0]; rfl, by rw [hmarks.bToDel, ← hst0]; rfl⟩
    apply Full.update hF hstep sem' X bN hkeys (fun n hn => sfull.aStable n hn)
    · refine ⟨hhas (Or.inr hblne), ⟨by rw [hlines]; simp, ?_⟩, Or.inr hXA, ?_⟩
      · intro p hp
        have hzz : ((e.bLines bN).map (resolveB st0)).zip (e.bLines bN) = (e.bLines bN).map (fun l => (resolveB st0 l, l)) := by
          have := zip_map_same (resolveB st0) id (e.bLines bN)
          simpa using this
        rw [hlines, hzz] at hp
        obtain ⟨l, hl, rfl⟩ := List.mem_map.mp hp
        have := (lineOK_of_ready sem' l (hready l hl)).1
        rw [hresolve] at this
        exact this
      · intro r hr2 x hx
        rw [hlines] at hr2
        obtain ⟨l, hl, rfl⟩ := List.mem_map.mp hr2
        have := (lineOK_of_ready sem' l (hready l hl)).2 x
        rw [hresolve] at this
        exact this hx
    · intro x hx; rw [haN] at hx; exact Or.inl hx
    · intro b; rw [haR]; exact List.mem_cons
    · simp [St.aNameOf, haName]; exact hname
    · intro b _; simp [St.aNameOf, haName]
    · intro hx; rw [hno] at hx; exact absurd hx.1 (by simp)
    · exact Or.inr hX.symm

end NA.F1
