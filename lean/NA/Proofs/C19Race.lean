import NA.Proofs.C19Code
/-!
# C19 — no git command of the script fails unless a user commit races with pull…push

`trouble` (ghost) is set when `git clone`, `git commit`, `git pull --no-rebase` of the script fail
or when a `git push` is rejected while HEAD carries another POLICY file than the remote head.
`raced` (ghost) is set when a user commit lands while some live invocation stands between its
`git pull --no-rebase` and the following `git push`; `edited` when POLICY is rewritten by hand.
Domain `gitd` = numbering × code × one more fact (`synced`: we have pulled, nobody pushed since);
requirements: `git clone` only into an empty fresh `next`; `git commit` only with POLICY staged and
different from HEAD's; `git pull --no-rebase` only when origin/master and the remote head carry the
same POLICY; `git push` either with HEAD's POLICY equal to the remote's or right after the pull.
Theorem: in every history with `raced = false` and `edited = false`, `trouble = false`.
-/
set_option linter.unusedVariables false
set_option linter.unnecessarySimpa false
set_option linter.unusedSimpArgs false
namespace NA.C19

structure F5 where
  n : F2
  k : F4
  synced : Bool

def tfSy (c : Cmd) (a : F5) (ok : Bool) : Bool :=
  match c with
  | .gitPullMerge => ok && a.k.holds
  | .gitPush | .gitClone => false
  | _ => a.synced && !c.wBase && !c.wRemote

/-- `git pull --no-rebase` cannot fail when origin/master and the remote head carry the same
POLICY file (no conflict possible) and next/src has a HEAD. -/
def pullCannotFail (c : Cmd) (a : F5) (ok : Bool) : Bool :=
  c == .gitPullMerge && !ok && a.n.baseR && a.n.hPol

def tf5 (c : Cmd) (a : F5) (ok : Bool) : Option F5 :=
  if pullCannotFail c a ok then none else
  match tf2 c a.n ok, tf4 c a.k ok with
  | some n, some k => some ⟨n, k, tfSy c a ok⟩
  | _, _ => none

def req5 (c : Cmd) (a : F5) : Bool :=
  match c with
  | .gitClone => a.k.nextEmpty
  | .gitCommitPolicy => a.n.sOk && a.n.hEqR && a.n.polGt
  | .gitPullMerge => a.n.baseR && a.n.hPol
  | .gitPush => a.n.hEqR || (a.n.hPol && a.synced)
  | _ => true

def gitd : Dom where
  F := F5
  le a b := numbering.le a.n b.n && code.le a.k b.k && (!b.synced || a.synced)
  meet a b := ⟨numbering.meet a.n b.n, code.meet a.k b.k, a.synced && b.synced⟩
  entry := ⟨numbering.entry, code.entry, false⟩
  tf := tf5
  req := req5

/-- we have pulled and nobody has pushed since: our `git push` will be a fast-forward -/
def Sy (b : Bool) (g : G) (p : Proc) : Prop :=
  b = true → g.lock = some p.pid ∧ p.fetched = true ∧ p.base = g.remote

structure Γ5 (a : F5) (g : G) (p : Proc) : Prop where
  n : Γ2 a.n g p
  k : Γ4 a.k g p
  s : Sy a.synced g p

theorem Γ5.mono {a b : F5} {g : G} {p : Proc} (h : Γ5 a g p) (hle : gitd.le a b = true) : Γ5 b g p := by
  simp only [gitd, Bool.and_eq_true, Bool.or_eq_true, Bool.not_eq_true'] at hle
  obtain ⟨⟨h1, h2⟩, h3⟩ := hle
  refine ⟨h.n.mono h1, h.k.mono h2, ?_⟩
  intro hb
  rcases h3 with h3 | h3
  · rw [hb] at h3; cases h3
  · exact h.s h3

theorem fr_fetched (c : Cmd) (g : G) (p : Proc) (h : c.wBase = false) : (exec c g p).2.1.fetched = p.fetched := by
  cases c <;> simp [Cmd.wBase] at h <;> simp only [exec] <;> (repeat' split) <;> simp_all [Proc.setReg] <;>
    (repeat' split) <;> simp_all

theorem fr_raced (c : Cmd) (g : G) (p : Proc) : (exec c g p).1.raced = g.raced := by
  cases c <;> simp only [exec] <;> (repeat' split) <;> simp_all [G.setNextHead] <;> (repeat' split) <;> simp_all

/-- The git commands of the script do not fail when their requirement is met (and `edited` … hold). -/
theorem no_trouble_exec {c : Cmd} {a : F5} {g : G} {p : Proc} (hΓ : Γ5 a g p) (hreq : req5 c a = true) :
    (exec c g p).1.trouble = g.trouble := by
  by_cases hw : c.wGhost = false
  · exact (fr_ghost c g p hw).1
  · cases c <;> simp [Cmd.wGhost] at hw
    · -- git clone
      simp only [req5] at hreq
      obtain ⟨_, d, hn, hh⟩ := hΓ.k.nextEmpty hreq
      simp [exec, hn, hh]
    · -- git commit
      simp only [req5, Bool.and_eq_true] at hreq
      obtain ⟨⟨l3, l4⟩, l5⟩ := hreq
      have hs := hΓ.n.sOk l3
      obtain ⟨_, h, hh, he⟩ := hΓ.n.hEqR l4
      obtain ⟨_, hgt, _⟩ := hΓ.n.polGt l5
      have hne : ((commitAt g.store h).pol == some p.policy) = false := by
        have he' : (commitAt g.store h).pol = (commitAt g.store g.remote).pol := he
        rw [he']
        cases hp : (commitAt g.store g.remote).pol with
        | none => rfl
        | some r =>
          simp [Rg, polOf, hp] at hgt
          simp; omega
      simp [exec, hh, hs, hne]
    · -- git pull --no-rebase
      simp only [req5, Bool.and_eq_true] at hreq
      obtain ⟨l1, l2⟩ := hreq
      obtain ⟨_, hb⟩ := hΓ.n.baseR l1
      obtain ⟨_, h, hh, _⟩ := hΓ.n.hPol l2
      have hb' : (commitAt g.store p.base).pol = (commitAt g.store g.remote).pol := hb
      simp only [exec, hh]
      split
      · rfl
      · split
        · simp
        · split
          · next hc => simp [hb'] at hc
          · simp
    · -- git push
      simp only [req5, Bool.or_eq_true, Bool.and_eq_true] at hreq
      rcases hreq with l | ⟨l1, l2⟩
      · obtain ⟨_, h, hh, he⟩ := hΓ.n.hEqR l
        have he' : (commitAt g.store h).pol = (commitAt g.store g.remote).pol := he
        simp only [exec, hh]
        split
        · rfl
        · simp [he']
      · obtain ⟨_, h, hh, _⟩ := hΓ.n.hPol l1
        obtain ⟨_, _, hb⟩ := hΓ.s l2
        simp [exec, hh, hb]
    · -- git revert
      simp only [exec]
      (repeat' split) <;> simp

/-- `synced` after an own step. -/
theorem ownSy {c : Cmd} {a : F5} {g : G} {p : Proc} {pc : Nat} {t : Bool} (hΓ : Γ5 a g p)
    (hq : (exec c g p).1.trouble = false) :
    Sy (tfSy c a (exec c g p).2.2) (exec c g p).1 (upd (exec c g p).2.1 pc t) := by
  have hl : g.lock = some p.pid → (exec c g p).1.lock = some (upd (exec c g p).2.1 pc t).pid := by
    intro h; simp [exec_pid]; exact exec_lock_own h
  by_cases c1 : c = .gitPullMerge
  · subst c1
    intro hf
    simp [tfSy] at hf
    refine ⟨hl (hΓ.k.holds hf.2), ?_⟩
    have hok := hf.1
    revert hq hok
    simp only [exec]
    (repeat' split) <;> simp_all
  by_cases c2 : c = .gitPush
  · subst c2; intro hf; simp [tfSy] at hf
  by_cases c3 : c = .gitClone
  · subst c3; intro hf; simp [tfSy] at hf
  · intro hf
    have hx : tfSy c a (exec c g p).2.2 = (a.synced && !c.wBase && !c.wRemote) := by
      cases c <;> simp_all [tfSy]
    rw [hx] at hf
    simp only [Bool.and_eq_true, Bool.not_eq_true'] at hf
    obtain ⟨⟨h1, h2⟩, h3⟩ := hf
    obtain ⟨hL, hfe, hb⟩ := hΓ.s h1
    refine ⟨hl hL, ?_, ?_⟩
    · show (exec c g p).2.1.fetched = true
      rw [fr_fetched c g p h2]; exact hfe
    · show (exec c g p).2.1.base = _
      rw [fr_base c g p h2, fr_remote c g p h3]; exact hb

theorem Sy.vacuous {b : Bool} {g g' : G} {q : Proc} {pid : Nat} (h : Sy b g q) (hl : g.lock = some pid)
    (hne : q.pid ≠ pid) : Sy b g' q := by
  intro hb
  have := (h hb).1
  rw [hl] at this; injection this with this; exact absurd this.symm hne

theorem Sy.release {b : Bool} {g : G} {q : Proc} {pid : Nat} (h : Sy b g q) (hne : q.pid ≠ pid) :
    Sy b (release g pid) q := by
  unfold NA.C19.release
  split
  · next hl => exact h.vacuous hl hne
  · exact h

theorem otherSy {c : Cmd} {b : Bool} {g : G} {p q : Proc} (h : Sy b g q) (hne : q.pid ≠ p.pid)
    (hmut : c.mutating = true → g.lock = some p.pid) : Sy b (exec c g p).1 q := by
  cases hm : c.mutating
  · obtain ⟨_, w2, _, _, _⟩ := nonmut_writes hm
    intro hb
    obtain ⟨hL, hf, hbase⟩ := h hb
    refine ⟨?_, hf, by rw [fr_remote c g p w2]; exact hbase⟩
    rcases exec_lock c g p with h1 | ⟨h0, _⟩
    · rw [h1]; exact hL
    · rw [h0] at hL; cases hL
  · exact h.vacuous (hmut hm) hne

/-! ### The invariant -/

def Qs (s : State) : Prop := s.g.raced = false ∧ s.g.edited = false

structure Inv5 (ann : Ann gitd) (s : State) : Prop where
  calm  : s.g.trouble = false
  procs : ∀ p ∈ s.procs, p.alive = true → ∃ a, gitd.at ann p.pc = some a ∧ Γ5 a s.g p

theorem pull_ok {a : F5} {g : G} {p : Proc} (hΓ : Γ5 a g p) (l1 : a.n.baseR = true) (l2 : a.n.hPol = true) :
    (exec .gitPullMerge g p).2.2 = true := by
  obtain ⟨_, hb⟩ := hΓ.n.baseR l1
  obtain ⟨_, h, hh, _⟩ := hΓ.n.hPol l2
  have hb' : (commitAt g.store p.base).pol = (commitAt g.store g.remote).pol := hb
  simp only [exec, hh]
  split
  · rfl
  · split
    · rfl
    · split
      · next hc => simp [hb'] at hc
      · rfl

theorem pullCannotFail_false {c : Cmd} {a : F5} {g : G} {p : Proc} (hΓ : Γ5 a g p) :
    pullCannotFail c a (exec c g p).2.2 = false := by
  cases hpc : pullCannotFail c a (exec c g p).2.2 with
  | false => rfl
  | true =>
    exfalso
    simp only [pullCannotFail, Bool.and_eq_true, beq_iff_eq, Bool.not_eq_true'] at hpc
    obtain ⟨⟨⟨hc, hok⟩, l1⟩, l2⟩ := hpc
    subst hc
    rw [pull_ok hΓ l1 l2] at hok; cases hok

theorem tf5_feasible {c : Cmd} {a : F5} {g : G} {p : Proc} (hΓ : Γ5 a g p) :
    ∃ x, tf5 c a (exec c g p).2.2 = some x := by
  obtain ⟨xn, hxn⟩ := tf2_total c a.n (exec c g p).2.2
  obtain ⟨xk, hxk⟩ := tf4_feasible (c := c) hΓ.k
  exact ⟨⟨xn, xk, tfSy c a (exec c g p).2.2⟩, by simp [tf5, pullCannotFail_false hΓ, hxn, hxk]⟩

theorem raced_mono {prog : Prog} (s : State) (e : Event) (h : (stepCore prog s e).g.raced = false) :
    s.g.raced = false := by
  cases e with
  | commit g po em => simp [stepCore] at h; exact h.1
  | spawn => exact h
  | killDuring q => exact h
  | step q =>
    revert h
    simp only [stepCore]
    cases hf : findProc s.procs q with
    | none => exact id
    | some p =>
      simp only []
      split
      · intro h
        unfold stepProc at h
        revert h
        split
        · simp only [release]; split <;> exact id
        · split
          · simp only [release]; split <;> exact id
          · next i c hc => intro h; simpa [fr_raced] using h
      · exact id
  | kill q =>
    revert h
    simp only [stepCore]
    split
    · split
      · simp only [release]; split <;> exact id
      · exact id
    · exact id

theorem edited_mono {prog : Prog} (s : State) (e : Event) (h : (stepCore prog s e).g.edited = false) :
    s.g.edited = false := by
  cases e with
  | commit g po em => simp [stepCore, applyCommit] at h; exact h.1
  | spawn => exact h
  | killDuring q => exact h
  | step q =>
    revert h
    simp only [stepCore]
    cases hf : findProc s.procs q with
    | none => exact id
    | some p =>
      simp only []
      split
      · intro h
        unfold stepProc at h
        revert h
        split
        · simp only [release]; split <;> exact id
        · split
          · simp only [release]; split <;> exact id
          · next i c hc => intro h; exact fr_edited _ _ _ h
      · exact id
  | kill q =>
    revert h
    simp only [stepCore]
    split
    · split
      · simp only [release]; split <;> exact id
      · exact id
    · exact id

theorem not_pending {ps : List Proc} (h : pushPending ps = false) {p : Proc} (hp : p ∈ ps) (ha : p.alive = true) :
    p.fetched = false := by
  simp only [pushPending, List.any_eq_false] at h
  have := h p hp
  simp [ha] at this
  exact this

theorem Γ5_entry (g : G) (p : Proc) : Γ5 gitd.entry g p :=
  ⟨Γ2_entry g p,
   ⟨fun h => by simp [gitd, code] at h, fun h => by simp [gitd, code] at h, fun h => by simp [gitd, code] at h,
    fun h => by simp [gitd, code] at h, fun h => by simp [gitd, code] at h, fun h => by simp [gitd, code] at h⟩,
   fun h => by simp [gitd] at h⟩

/-- One event (without the orphan mechanism): while no commit has raced and nobody edited POLICY,
no git command has failed and the facts of `gitd` hold. -/
theorem inv5_stepCore {prog : Prog} {ann1 : Ann safety} {ann2 : Ann numbering} {ann4 : Ann code} {ann : Ann gitd}
    (hc1 : check safety prog ann1 = true) (hc : check gitd prog ann = true) {s : State}
    (h1 : Inv1 ann1 s) (h2 : Inv2 ann2 s) (h4 : Inv4 ann4 s) (h5 : Qs s → Inv5 ann s) (e : Event)
    (hq' : Qs (stepCore prog s e)) : Inv5 ann (stepCore prog s e) := by
  have hq : Qs s := ⟨raced_mono s e hq'.1, edited_mono s e hq'.2⟩
  obtain ⟨hcalm, hprocs⟩ := h5 hq
  have hvg := h2.vg
  have hquiet : quiet s.g := ⟨hcalm, hq.2⟩
  cases e with
  | commit good pol email =>
    have hpend : pushPending s.procs = false := by
      have := hq'.1; simp [stepCore] at this; exact this.2
    have hpol : pol = none := by
      have := hq'.2; simp [stepCore, applyCommit] at this
      cases pol <;> simp_all
    subst hpol
    simp only [stepCore]
    refine ⟨by simpa [applyCommit] using hcalm, ?_⟩
    intro p hp ha
    obtain ⟨a, ha1, hΓ⟩ := hprocs p hp ha
    refine ⟨a, ha1, ?_, ?_, ?_⟩
    · exact (hΓ.n.commit (good := good) (email := email) hvg (h2.vp p hp)).congr (fun h => h) rfl rfl rfl rfl rfl
    · have := hΓ.k.grow (g' := applyCommit s.g good none email) hvg (h2.vp p hp) (fun h => h) rfl ⟨_, rfl⟩
      exact ⟨this.holds, this.codeH, this.codeS, this.clean, this.nextNone, this.nextEmpty⟩
    · intro hb
      have := (hΓ.s hb).2.1
      rw [not_pending hpend hp ha] at this; cases this
  | spawn =>
    simp only [stepCore]
    refine ⟨hcalm, ?_⟩
    intro p hp ha
    simp only [List.mem_append, List.mem_singleton] at hp
    rcases hp with hp | hp
    · exact hprocs p hp ha
    · subst hp
      obtain ⟨a, ha1, ha2⟩ := check_entry hc
      exact ⟨a, ha1, (Γ5_entry s.g _).mono ha2⟩
  | killDuring pid => exact ⟨hcalm, hprocs⟩
  | kill pid =>
    simp only [stepCore]
    cases hf : findProc s.procs pid with
    | none => exact ⟨hcalm, hprocs⟩
    | some p =>
      obtain ⟨hpm, hpp⟩ := findProc_some hf
      by_cases hal : p.alive = true
      · simp only [hal, if_true]
        refine ⟨by simp only [release]; split <;> exact hcalm, ?_⟩
        intro q hq1 hqa
        rcases mem_replaceProc hq1 with ⟨rfl, _⟩ | ⟨hq2, hq3⟩
        · simp at hqa
        · obtain ⟨b, hb1, hΓ⟩ := hprocs q hq2 hqa
          have hne : q.pid ≠ pid := by simpa [hpp] using hq3
          exact ⟨b, hb1, hΓ.n.release hne, hΓ.k.release hne, hΓ.s.release hne⟩
      · simp [hal]; exact ⟨hcalm, hprocs⟩
  | step pid =>
    simp only [stepCore] at hq' ⊢
    cases hf : findProc s.procs pid with
    | none => exact ⟨hcalm, hprocs⟩
    | some p =>
      obtain ⟨hpm, hpp⟩ := findProc_some hf
      simp only [hf] at hq'
      by_cases hal : p.alive = true
      · simp only [hal, if_true] at hq' ⊢
        obtain ⟨a1, ha1, hΓ1⟩ := h1.procs p hpm hal
        have hlt : p.pc < prog.length := by rw [← check_len hc1]; exact at_some_lt ha1
        have hi : instrAt prog p.pc = some prog[p.pc] := by simp [instrAt, hlt]
        generalize prog[p.pc] = i at hi
        obtain ⟨hreq1, _⟩ := check_step hc1 (by simpa [instrAt] using hi) ha1
        have hmut : i.cmd.mutating = true → s.g.lock = some p.pid := by
          intro hm
          have hr : req1 i.cmd a1 = true := hreq1
          simp [req1, hm] at hr
          exact hΓ1.holds hr.1
        by_cases hex : ∃ n, i.cmd = .exit n
        · obtain ⟨n, hnn⟩ := hex
          rw [stepProc_exit hi hnn]
          refine ⟨by simp only [release]; split <;> exact hcalm, ?_⟩
          intro q hq1 hqa
          rcases mem_replaceProc hq1 with ⟨rfl, _⟩ | ⟨hq2, hq3⟩
          · simp at hqa
          · obtain ⟨b, hb1, hΓ⟩ := hprocs q hq2 hqa
            have hne : q.pid ≠ p.pid := by simpa using hq3
            exact ⟨b, hb1, hΓ.n.release hne, hΓ.k.release hne, hΓ.s.release hne⟩
        · have hne : ∀ n, i.cmd ≠ .exit n := fun n h => hex ⟨n, h⟩
          rw [stepProc_nonexit hi hne] at hq' ⊢
          obtain ⟨a, ha, hΓ⟩ := hprocs p hpm hal
          obtain ⟨hreq, _, _, hedge1, hedge2⟩ := check_step hc (by simpa [instrAt] using hi) ha
          have htr : (exec i.cmd s.g p).1.trouble = false := by
            rw [no_trouble_exec hΓ hreq]; exact hcalm
          have hqg : quiet (exec i.cmd s.g p).1 := ⟨htr, hq'.2⟩
          refine ⟨htr, ?_⟩
          intro q hq1 hqa
          rcases mem_replaceProc hq1 with ⟨rfl, _⟩ | ⟨hq2, hq3⟩
          · obtain ⟨xn, hxn⟩ := tf2_total i.cmd a.n (exec i.cmd s.g p).2.2
            obtain ⟨xk, hxk⟩ := tf4_feasible (c := i.cmd) hΓ.k
            have hx : tf5 i.cmd a (exec i.cmd s.g p).2.2 = some ⟨xn, xk, tfSy i.cmd a (exec i.cmd s.g p).2.2⟩ := by
              simp [tf5, pullCannotFail_false hΓ, hxn, hxk]
            have hΓ' : Γ5 ⟨xn, xk, tfSy i.cmd a (exec i.cmd s.g p).2.2⟩ (exec i.cmd s.g p).1 (after i s.g p) :=
              ⟨own2 hΓ.n (h2.n hquiet) hvg (h2.vp p hpm) hqg hxn, own4 hΓ.k hvg (h2.vp p hpm) h4.gi.hpos hxk,
               ownSy hΓ htr⟩
            cases hok : (exec i.cmd s.g p).2.2
            · rw [hok] at hx
              obtain ⟨b, hb1, hb2⟩ := hedge2 _ hx
              refine ⟨b, ?_, ?_⟩
              · simp [after, hok]; exact hb1
              · rw [hok] at hΓ'; exact hΓ'.mono hb2
            · rw [hok] at hx
              obtain ⟨b, hb1, hb2⟩ := hedge1 _ hx
              refine ⟨b, ?_, ?_⟩
              · simp [after, hok]; exact hb1
              · rw [hok] at hΓ'; exact hΓ'.mono hb2
          · obtain ⟨b, hb1, hΓq⟩ := hprocs q hq2 hqa
            rw [after_pid] at hq3
            exact ⟨b, hb1, other2 hΓq.n hq3 hmut, other4 hΓq.k hvg (h2.vp q hq2) hq3 hmut, otherSy hΓq.s hq3 hmut⟩
      · simp [hal]; exact ⟨hcalm, hprocs⟩

/-- All four layers for all events. -/
theorem inv1245_step {prog : Prog} {ann1 : Ann safety} {ann2 : Ann numbering} {ann4 : Ann code} {ann : Ann gitd}
    (hinh : inhOK prog = true) (hc1 : check safety prog ann1 = true) (hc2 : check numbering prog ann2 = true)
    (hc4 : check code prog ann4 = true) (hc : check gitd prog ann = true) {s : State}
    (h : Inv1 ann1 s ∧ Inv2 ann2 s ∧ Inv4 ann4 s ∧ (Qs s → Inv5 ann s)) (e : Event) :
    Inv1 ann1 (step prog s e) ∧ Inv2 ann2 (step prog s e) ∧ Inv4 ann4 (step prog s e) ∧
      (Qs (step prog s e) → Inv5 ann (step prog s e)) :=
  step_lift hinh (P := fun s => Inv1 ann1 s ∧ Inv2 ann2 s ∧ Inv4 ann4 s ∧ (Qs s → Inv5 ann s))
    (fun _ e h => ⟨inv1_stepCore hc1 h.1 e, inv2_stepCore hc1 hc2 h.1 h.2.1 e, inv4_stepCore hc1 hc4 h.1 h.2.1 h.2.2.1 e,
      fun hq => inv5_stepCore hc1 hc h.1 h.2.1 h.2.2.1 h.2.2.2 e hq⟩)
    (fun _ _ h => ⟨h.1.dying, h.2.1.dying, h.2.2.1.dying, fun hq => ⟨(h.2.2.2 hq).calm, (h.2.2.2 hq).procs⟩⟩) s e h

theorem inv1245_run {prog : Prog} {ann1 : Ann safety} {ann2 : Ann numbering} {ann4 : Ann code}
    {ann : Ann gitd} (hinh : inhOK prog = true) (hc1 : check safety prog ann1 = true)
    (hc2 : check numbering prog ann2 = true) (hc4 : check code prog ann4 = true) (hc : check gitd prog ann = true)
    (se : Bool) (es : List Event) :
    Inv1 ann1 (run prog se es) ∧ Inv2 ann2 (run prog se es) ∧ Inv4 ann4 (run prog se es) ∧
      (Qs (run prog se es) → Inv5 ann (run prog se es)) := by
  unfold run
  have h0 : Inv1 ann1 (init se) ∧ Inv2 ann2 (init se) ∧ Inv4 ann4 (init se) ∧ (Qs (init se) → Inv5 ann (init se)) :=
    ⟨inv1_init hc1 se, inv2_init (prog := prog) se, inv4_init se,
     fun _ => ⟨by simp [init], fun p hp => by simp [init] at hp⟩⟩
  generalize init se = s0 at h0
  induction es generalizing s0 with
  | nil => exact h0
  | cons e es ih => exact ih _ (inv1245_step hinh hc1 hc2 hc4 hc h0 e)

/-- No racing commit, no hand-edited POLICY ⇒ no git command of the script has failed. -/
theorem no_trouble_of_race_free {prog : Prog} {ann1 : Ann safety} {ann2 : Ann numbering} {ann4 : Ann code}
    {ann : Ann gitd} (hinh : inhOK prog = true) (hc1 : check safety prog ann1 = true)
    (hc2 : check numbering prog ann2 = true) (hc4 : check code prog ann4 = true) (hc : check gitd prog ann = true)
    (se : Bool) (es : List Event) (hr : (run prog se es).g.raced = false) (he : (run prog se es).g.edited = false) :
    (run prog se es).g.trouble = false :=
  ((inv1245_run hinh hc1 hc2 hc4 hc se es).2.2.2 ⟨hr, he⟩).calm

end NA.C19
