import NA.Proofs.C19Flow
/-!
# C19 — safety invariants (locking, crash-consistent ordering) for every schedule

Domain `safety`: three facts per program point
* `holds`  — this process holds the flock on `policies/LOCK`;
* `nextOk` — `policies/next` exists and holds a successful compile (and we hold the lock);
* `dirOk`  — the directory `p$POLICY` exists (and we hold the lock).

Requirements checked on the program: every command that writes below `policies/` or to the
remote runs with `holds`; `mv next $POLICY` runs with `nextOk`; `rm -f $CURRENT` and
`ln -s $POLICY $CURRENT` run with `dirOk`.
-/
namespace NA.C19

structure F1 where
  holds  : Bool
  nextOk : Bool
  dirOk  : Bool
  deriving DecidableEq, Repr

def tf1 (c : Cmd) (a : F1) (ok : Bool) : Option F1 :=
  some <|
    match c with
    | .flockNB => if ok then { a with holds := true } else a
    | .compile => { a with nextOk := ok && a.holds }
    | .rmrfNext | .mkdirNext | .gitClone => { a with nextOk := false }
    | .mvNextTo => { a with nextOk := false, dirOk := a.nextOk }
    | .policyFromCount => { a with dirOk := false }
    | _ => a

def req1 (c : Cmd) (a : F1) : Bool :=
  (!c.mutating || a.holds) &&
  (match c with
   | .mvNextTo => a.nextOk
   | .rmCurrent | .lnCurrent => a.dirOk
   | _ => true)

def safety : Dom where
  F := F1
  le a b := (!b.holds || a.holds) && (!b.nextOk || a.nextOk) && (!b.dirOk || a.dirOk)
  meet a b := ⟨a.holds && b.holds, a.nextOk && b.nextOk, a.dirOk && b.dirOk⟩
  entry := ⟨false, false, false⟩
  tf := tf1
  req := req1

/-- Meaning of the facts. -/
structure Γ1 (a : F1) (g : G) (p : Proc) : Prop where
  holds  : a.holds = true → g.lock = some p.pid
  nextOk : a.nextOk = true → g.lock = some p.pid ∧ ∃ d, g.next = some d ∧ d.built = true
  dirOk  : a.dirOk = true → g.lock = some p.pid ∧ ∃ d, lookupDir g.dirs p.policy = some d
  tch    : p.touched = true → g.lock = some p.pid

theorem Γ1.mono {a b : F1} {g : G} {p : Proc} (h : Γ1 a g p) (hle : safety.le a b = true) : Γ1 b g p := by
  simp [safety] at hle
  obtain ⟨⟨h1, h2⟩, h3⟩ := hle
  constructor
  · intro hb; exact h.holds (by cases hh : b.holds <;> simp_all)
  · intro hb; exact h.nextOk (by cases hh : b.nextOk <;> simp_all)
  · intro hb; exact h.dirOk (by cases hh : b.dirOk <;> simp_all)
  · exact h.tch

/-- Global part: every policy directory is compiled; `current` names an existing directory. -/
structure GI1 (g : G) : Prop where
  dirs : ∀ n d, lookupDir g.dirs n = some d → d.built = true
  cur  : ∀ n, g.current = some n → ∃ d, lookupDir g.dirs n = some d

/-! ### Frame facts about `exec` -/

theorem lookupDir_setNested {ds : List (Nat × Dir)} {m n : Nat} :
    (∃ d, lookupDir (setNested ds m) n = some d) ↔ (∃ d, lookupDir ds n = some d) := by
  induction ds with
  | nil => simp [setNested, lookupDir]
  | cons x xs ih =>
    obtain ⟨k, e⟩ := x
    by_cases h1 : k = m <;> by_cases h2 : k = n <;> simp_all [setNested, lookupDir]

theorem lookupDir_setNested_built {ds : List (Nat × Dir)} {m n : Nat} {d : Dir}
    (h : lookupDir (setNested ds m) n = some d) : ∃ d0, lookupDir ds n = some d0 ∧ d0.built = d.built := by
  induction ds with
  | nil => simp [setNested, lookupDir] at h
  | cons x xs ih =>
    obtain ⟨k, e⟩ := x
    by_cases h1 : k = m <;> by_cases h2 : k = n <;> simp_all [setNested, lookupDir]
    all_goals first | (subst h; simp) | exact ih h

theorem setNextHead_next {g : G} {h : Nat} :
    (∃ d, (g.setNextHead h).next = some d ∧ d.built = true) ↔ (∃ d, g.next = some d ∧ d.built = true) := by
  unfold G.setNextHead
  cases hn : g.next <;> simp [hn]

theorem setNextHead_lock {g : G} {h : Nat} : (g.setNextHead h).lock = g.lock := by
  unfold G.setNextHead; cases g.next <;> rfl
theorem setNextHead_dirs {g : G} {h : Nat} : (g.setNextHead h).dirs = g.dirs := by
  unfold G.setNextHead; cases g.next <;> rfl
theorem setNextHead_current {g : G} {h : Nat} : (g.setNextHead h).current = g.current := by
  unfold G.setNextHead; cases g.next <;> rfl

end NA.C19

namespace NA.C19

theorem setNextHead_lockFile {g : G} {h : Nat} : (g.setNextHead h).lockFile = g.lockFile := by
  unfold G.setNextHead; cases g.next <;> rfl

theorem exec_pid (c : Cmd) (g : G) (p : Proc) : (exec c g p).2.1.pid = p.pid := by
  cases c <;> simp only [exec] <;> (repeat' split) <;> simp_all [Proc.setReg] <;> (repeat' split) <;> simp_all

theorem exec_touched (c : Cmd) (g : G) (p : Proc) : (exec c g p).2.1.touched = p.touched := by
  cases c <;> simp only [exec] <;> (repeat' split) <;> simp_all [Proc.setReg] <;> (repeat' split) <;> simp_all

theorem exec_policy (c : Cmd) (g : G) (p : Proc) (hc : c ≠ .policyFromCount) :
    (exec c g p).2.1.policy = p.policy := by
  cases c <;> simp only [exec] <;> (repeat' split) <;> simp_all [Proc.setReg] <;> (repeat' split) <;> simp_all

end NA.C19

namespace NA.C19

/-- `exec` never takes the lock away from anybody; only `flock -n 9` on a free lock changes it. -/
theorem exec_lock (c : Cmd) (g : G) (p : Proc) :
    (exec c g p).1.lock = g.lock ∨ (g.lock = none ∧ (exec c g p).1.lock = some p.pid) := by
  cases c <;> simp only [exec] <;> (repeat' split) <;> simp_all [setNextHead_lock]

theorem exec_lock_own {c : Cmd} {g : G} {p : Proc} (h : g.lock = some p.pid) :
    (exec c g p).1.lock = some p.pid := by
  rcases exec_lock c g p with h1 | ⟨h1, _⟩
  · rw [h1, h]
  · rw [h] at h1; simp at h1

theorem flock_ok {g : G} {p : Proc} (h : (exec .flockNB g p).2.2 = true) :
    (exec .flockNB g p).1.lock = some p.pid := by
  simp only [exec] at *
  split <;> simp_all

/-- Commands that are not `mutating` leave `next`, the policy directories and the link alone. -/
theorem exec_nonmut {c : Cmd} (g : G) (p : Proc) (h : c.mutating = false) :
    (exec c g p).1.next = g.next ∧ (exec c g p).1.dirs = g.dirs ∧ (exec c g p).1.current = g.current := by
  cases c <;> simp [Cmd.mutating] at h <;> simp only [exec] <;> (repeat' split) <;> simp_all

theorem exec_dirs {c : Cmd} (g : G) (p : Proc) (h : c ≠ .mvNextTo) : (exec c g p).1.dirs = g.dirs := by
  cases c <;> simp only [exec] <;> (repeat' split) <;> simp_all [setNextHead_dirs]

theorem exec_current {c : Cmd} (g : G) (p : Proc) (h1 : c ≠ .rmCurrent) (h2 : c ≠ .lnCurrent) :
    (exec c g p).1.current = g.current := by
  cases c <;> simp only [exec] <;> (repeat' split) <;> simp_all [setNextHead_current]

def NextBuilt (g : G) : Prop := ∃ d, g.next = some d ∧ d.built = true

theorem exec_nextBuilt {c : Cmd} (g : G) (p : Proc) (h : NextBuilt g)
    (h1 : c ≠ .rmrfNext) (h2 : c ≠ .mkdirNext) (h3 : c ≠ .gitClone) (h4 : c ≠ .compile) (h5 : c ≠ .mvNextTo) :
    NextBuilt (exec c g p).1 := by
  unfold NextBuilt at *
  cases c <;> simp only [exec] <;> (repeat' split) <;> simp_all [setNextHead_next]

theorem compile_ok {g : G} {p : Proc} (h : (exec .compile g p).2.2 = true) : NextBuilt (exec .compile g p).1 := by
  unfold NextBuilt
  simp only [exec] at *
  (repeat' split) <;> simp_all

/-- After `mv next $POLICY` with a built `next`, the directory `p$POLICY` exists. -/
theorem mv_dir {g : G} {p : Proc} (h : NextBuilt g) :
    ∃ d, lookupDir (exec .mvNextTo g p).1.dirs p.policy = some d := by
  obtain ⟨d, hd, _⟩ := h
  simp only [exec, hd]
  cases he : lookupDir g.dirs p.policy with
  | none => simp [lookupDir]
  | some e =>
    by_cases hn : e.nested = true
    · simp [hn, he]
    · simp [hn]
      exact lookupDir_setNested.mpr ⟨e, he⟩

/-- Existing directories stay (with their compiled flag); a new one comes from a built `next`. -/
theorem exec_dirs_built {c : Cmd} (g : G) (p : Proc) (hg : ∀ n d, lookupDir g.dirs n = some d → d.built = true)
    (hmv : c = .mvNextTo → NextBuilt g) :
    ∀ n d, lookupDir (exec c g p).1.dirs n = some d → d.built = true := by
  by_cases hc : c = .mvNextTo
  · subst hc
    obtain ⟨d0, hd0, hb0⟩ := hmv rfl
    intro n d
    simp only [exec, hd0]
    cases he : lookupDir g.dirs p.policy with
    | none =>
      simp only [lookupDir]
      by_cases hpn : p.policy = n
      · simp [hpn]; intro h; subst h; exact hb0
      · simp [hpn]; exact hg n d
    | some e =>
      by_cases hn : e.nested = true
      · simp [hn]; exact hg n d
      · simp [hn]
        intro h
        obtain ⟨d1, h1, h2⟩ := lookupDir_setNested_built h
        rw [← h2]; exact hg n d1 h1
  · rw [exec_dirs g p hc]; exact hg

theorem exec_dirs_mono {c : Cmd} (g : G) (p : Proc) {n : Nat} (h : ∃ d, lookupDir g.dirs n = some d) :
    ∃ d, lookupDir (exec c g p).1.dirs n = some d := by
  by_cases hc : c = .mvNextTo
  · subst hc
    simp only [exec]
    cases hn : g.next with
    | none => simpa using h
    | some d0 =>
      cases he : lookupDir g.dirs p.policy with
      | none =>
        simp only [lookupDir]
        by_cases hpn : p.policy = n
        · simp [hpn]
        · simpa [hpn] using h
      | some e =>
        by_cases hne : e.nested = true
        · simpa [hne] using h
        · simp [hne]; exact lookupDir_setNested.mpr h
  · rw [exec_dirs g p hc]; exact h

end NA.C19

namespace NA.C19

/-- The process after one non-exit command. -/
def after (i : Instr) (g : G) (p : Proc) : Proc :=
  { (exec i.cmd g p).2.1 with pc := if (exec i.cmd g p).2.2 then i.ok else i.fail,
                               touched := (exec i.cmd g p).2.1.touched || i.cmd.mutating }

theorem stepProc_nonexit {prog : Prog} {g : G} {p : Proc} {i : Instr} (hi : instrAt prog p.pc = some i)
    (hne : ∀ n, i.cmd ≠ .exit n) : stepProc prog g p = ((exec i.cmd g p).1, after i g p) := by
  unfold stepProc after
  simp only [hi]     -- the side condition of the default alternative is discharged by `hne`

theorem stepProc_exit {prog : Prog} {g : G} {p : Proc} {i : Instr} {n : Nat} (hi : instrAt prog p.pc = some i)
    (hc : i.cmd = .exit n) : stepProc prog g p = (release g p.pid, { p with alive := false, exit := some n }) := by
  unfold stepProc
  simp only [hi, hc]

theorem after_pid (i : Instr) (g : G) (p : Proc) : (after i g p).pid = p.pid := by
  simp [after, exec_pid]

theorem after_alive (i : Instr) (g : G) (p : Proc) : (after i g p).alive = (exec i.cmd g p).2.1.alive := rfl

theorem exec_alive (c : Cmd) (g : G) (p : Proc) : (exec c g p).2.1.alive = p.alive := by
  cases c <;> simp only [exec] <;> (repeat' split) <;> simp_all [Proc.setReg] <;> (repeat' split) <;> simp_all

/-- Own step: the facts computed by the transfer function hold afterwards. -/
theorem own1 {i : Instr} {a x : F1} {g : G} {p : Proc} (hΓ : Γ1 a g p) (hreq : req1 i.cmd a = true)
    (htf : tf1 i.cmd a (exec i.cmd g p).2.2 = some x) : Γ1 x (exec i.cmd g p).1 (after i g p) := by
  obtain ⟨line, c, kok, kfail, vis⟩ := i
  simp only at hreq htf ⊢
  generalize hi : (⟨line, c, kok, kfail, vis⟩ : Instr) = i
  have hic : i.cmd = c := by rw [← hi]
  have hpid : (after i g p).pid = p.pid := after_pid i g p
  have hpol : c ≠ .policyFromCount → (after i g p).policy = p.policy := by
    intro h; simp only [after, hic]; exact exec_policy c g p h
  have hmut : c.mutating = true → g.lock = some p.pid := by
    intro hm
    have : a.holds = true := by
      simp [req1, hm] at hreq; exact hreq.1
    exact hΓ.holds this
  have hkeep : g.lock = some p.pid → (exec c g p).1.lock = some (after i g p).pid := by
    intro h; rw [hpid]; exact exec_lock_own h
  have htch : (after i g p).touched = true → (exec c g p).1.lock = some (after i g p).pid := by
    intro ht
    simp [after, exec_touched, hic] at ht
    rcases ht with ht | ht
    · exact hkeep (hΓ.tch ht)
    · exact hkeep (hmut ht)
  have hdir : c ≠ .policyFromCount → a.dirOk = true →
      (exec c g p).1.lock = some (after i g p).pid ∧ ∃ d, lookupDir (exec c g p).1.dirs (after i g p).policy = some d := by
    intro hc h
    refine ⟨hkeep (hΓ.dirOk h).1, ?_⟩
    rw [hpol hc]; exact exec_dirs_mono g p (hΓ.dirOk h).2
  simp only [tf1, Option.some.injEq] at htf
  by_cases c1 : c = .flockNB
  · subst c1
    cases hok : (exec Cmd.flockNB g p).2.2
    · simp [hok] at htf; subst htf
      exact ⟨fun h => hkeep (hΓ.holds h),
             fun h => ⟨hkeep (hΓ.nextOk h).1, exec_nextBuilt g p (hΓ.nextOk h).2 (by simp) (by simp) (by simp) (by simp) (by simp)⟩,
             hdir (by simp), htch⟩
    · simp [hok] at htf; subst htf
      have hl : (exec Cmd.flockNB g p).1.lock = some (after i g p).pid := by rw [hpid]; exact flock_ok hok
      exact ⟨fun _ => hl,
             fun h => ⟨hl, exec_nextBuilt g p (hΓ.nextOk h).2 (by simp) (by simp) (by simp) (by simp) (by simp)⟩,
             fun h => ⟨hl, (hdir (by simp) h).2⟩, htch⟩
  by_cases c2 : c = .compile
  · subst c2
    subst htf
    refine ⟨fun h => hkeep (hΓ.holds h), ?_, hdir (by simp), htch⟩
    intro h
    simp at h
    exact ⟨hkeep (hΓ.holds h.2), compile_ok h.1⟩
  by_cases c3 : c = .mvNextTo
  · subst c3
    subst htf
    refine ⟨fun h => hkeep (hΓ.holds h), fun h => by simp at h, ?_, htch⟩
    intro h
    simp at h
    refine ⟨hkeep (hΓ.nextOk h).1, ?_⟩
    rw [hpol (by simp)]; exact mv_dir (hΓ.nextOk h).2
  by_cases c4 : c = .policyFromCount
  · subst c4
    subst htf
    refine ⟨fun h => hkeep (hΓ.holds h), ?_, fun h => by simp at h, htch⟩
    intro h
    exact ⟨hkeep (hΓ.nextOk h).1, exec_nextBuilt g p (hΓ.nextOk h).2 (by simp) (by simp) (by simp) (by simp) (by simp)⟩
  by_cases c5 : c = .rmrfNext ∨ c = .mkdirNext ∨ c = .gitClone
  · have hx : x = { a with nextOk := false } := by
      rcases c5 with c5 | c5 | c5 <;> subst c5 <;> exact htf.symm
    subst hx
    exact ⟨fun h => hkeep (hΓ.holds h), fun h => by simp at h, hdir c4, htch⟩
  · have h5 : c ≠ .rmrfNext ∧ c ≠ .mkdirNext ∧ c ≠ .gitClone :=
      ⟨fun h => c5 (Or.inl h), fun h => c5 (Or.inr (Or.inl h)), fun h => c5 (Or.inr (Or.inr h))⟩
    have hx : x = a := by
      revert htf
      cases c <;> simp_all
    subst hx
    refine ⟨fun h => hkeep (hΓ.holds h), ?_, hdir c4, htch⟩
    intro h
    exact ⟨hkeep (hΓ.nextOk h).1, exec_nextBuilt g p (hΓ.nextOk h).2 h5.1 h5.2.1 h5.2.2 c2 c3⟩

end NA.C19
