import NA.Proofs.C19Flow
/-!
# C19 — safety invariants (locking, crash-consistent ordering) for every schedule

Domain `safety`: three facts per program point
* `holds`  — this process holds the flock on `policies/LOCK`;
* `nextOk` — `policies/next` exists and holds a successful compile (and we hold the lock);
* `dirOk`  — the directory `p$POLICY` exists (and we hold the lock).

Requirements checked on the program: every command that writes below `policies/` or to the
remote runs with `holds`; `mv next $POLICY` runs with `nextOk`; `rm -f $CURRENT` and
`ln -s $POLICY $CURRENT` run with `dirOk`.
-/
namespace NA.C19

structure F1 where
  holds  : Bool
  nextOk : Bool
  dirOk  : Bool
  deriving DecidableEq, Repr

def tf1 (c : Cmd) (a : F1) (ok : Bool) : Option F1 :=
  some <|
    match c with
    | .flockNB => if ok then { a with holds := true } else a
    | .compile => { a with nextOk := ok && a.holds }
    | .rmrfNext | .mkdirNext | .gitClone => { a with nextOk := false }
    | .mvNextTo => { a with nextOk := false, dirOk := a.nextOk }
    | .policyFromCount => { a with dirOk := false }
    | _ => a

def req1 (c : Cmd) (a : F1) : Bool :=
  (!c.mutating || a.holds) &&
  (match c with
   | .mvNextTo => a.nextOk
   | .rmCurrent | .lnCurrent => a.dirOk
   | _ => true)

def safety : Dom where
  F := F1
  le a b := (!b.holds || a.holds) && (!b.nextOk || a.nextOk) && (!b.dirOk || a.dirOk)
  meet a b := ⟨a.holds && b.holds, a.nextOk && b.nextOk, a.dirOk && b.dirOk⟩
  entry := ⟨false, false, false⟩
  tf := tf1
  req := req1

/-- Meaning of the facts. -/
structure Γ1 (a : F1) (g : G) (p : Proc) : Prop where
  holds  : a.holds = true → g.lock = some p.pid
  nextOk : a.nextOk = true → g.lock = some p.pid ∧ ∃ d, g.next = some d ∧ d.built = true
  dirOk  : a.dirOk = true → g.lock = some p.pid ∧ ∃ d, lookupDir g.dirs p.policy = some d
  tch    : p.touched = true → g.lock = some p.pid

theorem Γ1.mono {a b : F1} {g : G} {p : Proc} (h : Γ1 a g p) (hle : safety.le a b = true) : Γ1 b g p := by
  simp [safety] at hle
  obtain ⟨⟨h1, h2⟩, h3⟩ := hle
  constructor
  · intro hb; exact h.holds (by cases hh : b.holds <;> simp_all)
  · intro hb; exact h.nextOk (by cases hh : b.nextOk <;> simp_all)
  · intro hb; exact h.dirOk (by cases hh : b.dirOk <;> simp_all)
  · exact h.tch

/-- Global part: every policy directory is compiled; `current` names an existing directory. -/
structure GI1 (g : G) : Prop where
  dirs : ∀ n d, lookupDir g.dirs n = some d → d.built = true
  cur  : ∀ n, g.current = some n → ∃ d, lookupDir g.dirs n = some d

/-! ### Frame facts about `exec` -/

theorem lookupDir_setNested {ds : List (Nat × Dir)} {m n : Nat} :
    (∃ d, lookupDir (setNested ds m) n = some d) ↔ (∃ d, lookupDir ds n = some d) := by
  induction ds with
  | nil => simp [setNested, lookupDir]
  | cons x xs ih =>
    obtain ⟨k, e⟩ := x
    by_cases h1 : k = m <;> by_cases h2 : k = n <;> simp_all [setNested, lookupDir]

theorem lookupDir_setNested_built {ds : List (Nat × Dir)} {m n : Nat} {d : Dir}
    (h : lookupDir (setNested ds m) n = some d) : ∃ d0, lookupDir ds n = some d0 ∧ d0.built = d.built := by
  induction ds with
  | nil => simp [setNested, lookupDir] at h
  | cons x xs ih =>
    obtain ⟨k, e⟩ := x
    by_cases h1 : k = m <;> by_cases h2 : k = n <;> simp_all [setNested, lookupDir]
    all_goals first | (subst h; simp) | exact ih h

theorem setNextHead_next {g : G} {h : Nat} :
    (∃ d, (g.setNextHead h).next = some d ∧ d.built = true) ↔ (∃ d, g.next = some d ∧ d.built = true) := by
  unfold G.setNextHead
  cases hn : g.next <;> simp [hn]

theorem setNextHead_lock {g : G} {h : Nat} : (g.setNextHead h).lock = g.lock := by
  unfold G.setNextHead; cases g.next <;> rfl
theorem setNextHead_dirs {g : G} {h : Nat} : (g.setNextHead h).dirs = g.dirs := by
  unfold G.setNextHead; cases g.next <;> rfl
theorem setNextHead_current {g : G} {h : Nat} : (g.setNextHead h).current = g.current := by
  unfold G.setNextHead; cases g.next <;> rfl

end NA.C19

namespace NA.C19

theorem setNextHead_lockFile {g : G} {h : Nat} : (g.setNextHead h).lockFile = g.lockFile := by
  unfold G.setNextHead; cases g.next <;> rfl

theorem exec_pid (c : Cmd) (g : G) (p : Proc) : (exec c g p).2.1.pid = p.pid := by
  cases c <;> simp only [exec] <;> (repeat' split) <;> simp_all [Proc.setReg] <;> (repeat' split) <;> simp_all

theorem exec_touched (c : Cmd) (g : G) (p : Proc) : (exec c g p).2.1.touched = p.touched := by
  cases c <;> simp only [exec] <;> (repeat' split) <;> simp_all [Proc.setReg] <;> (repeat' split) <;> simp_all

theorem exec_policy (c : Cmd) (g : G) (p : Proc) (hc : c ≠ .policyFromCount) :
    (exec c g p).2.1.policy = p.policy := by
  cases c <;> simp only [exec] <;> (repeat' split) <;> simp_all [Proc.setReg] <;> (repeat' split) <;> simp_all

end NA.C19

namespace NA.C19

/-- `exec` never takes the lock away from anybody; only `flock -n 9` on a free lock changes it. -/
theorem exec_lock (c : Cmd) (g : G) (p : Proc) :
    (exec c g p).1.lock = g.lock ∨ (g.lock = none ∧ (exec c g p).1.lock = some p.pid) := by
  cases c <;> simp only [exec] <;> (repeat' split) <;> simp_all [setNextHead_lock]

theorem exec_lock_own {c : Cmd} {g : G} {p : Proc} (h : g.lock = some p.pid) :
    (exec c g p).1.lock = some p.pid := by
  rcases exec_lock c g p with h1 | ⟨h1, _⟩
  · rw [h1, h]
  · rw [h] at h1; simp at h1

theorem flock_ok {g : G} {p : Proc} (h : (exec .flockNB g p).2.2 = true) :
    (exec .flockNB g p).1.lock = some p.pid := by
  simp only [exec] at *
  split <;> simp_all

/-- Commands that are not `mutating` leave `next`, the policy directories and the link alone. -/
theorem exec_nonmut {c : Cmd} (g : G) (p : Proc) (h : c.mutating = false) :
    (exec c g p).1.next = g.next ∧ (exec c g p).1.dirs = g.dirs ∧ (exec c g p).1.current = g.current := by
  cases c <;> simp [Cmd.mutating] at h <;> simp only [exec] <;> (repeat' split) <;> simp_all

theorem exec_dirs {c : Cmd} (g : G) (p : Proc) (h : c ≠ .mvNextTo) : (exec c g p).1.dirs = g.dirs := by
  cases c <;> simp only [exec] <;> (repeat' split) <;> simp_all [setNextHead_dirs]

theorem exec_current {c : Cmd} (g : G) (p : Proc) (h1 : c ≠ .rmCurrent) (h2 : c ≠ .lnCurrent) :
    (exec c g p).1.current = g.current := by
  cases c <;> simp only [exec] <;> (repeat' split) <;> simp_all [setNextHead_current]

def NextBuilt (g : G) : Prop := ∃ d, g.next = some d ∧ d.built = true

theorem exec_nextBuilt {c : Cmd} (g : G) (p : Proc) (h : NextBuilt g)
    (h1 : c ≠ .rmrfNext) (h2 : c ≠ .mkdirNext) (h3 : c ≠ .gitClone) (h4 : c ≠ .compile) (h5 : c ≠ .mvNextTo) :
    NextBuilt (exec c g p).1 := by
  unfold NextBuilt at *
  cases c <;> simp only [exec] <;> (repeat' split) <;> simp_all [setNextHead_next]

theorem compile_ok {g : G} {p : Proc} (h : (exec .compile g p).2.2 = true) : NextBuilt (exec .compile g p).1 := by
  unfold NextBuilt
  simp only [exec] at *
  (repeat' split) <;> simp_all

/-- After `mv next $POLICY` with a built `next`, the directory `p$POLICY` exists. -/
theorem mv_dir {g : G} {p : Proc} (h : NextBuilt g) :
    ∃ d, lookupDir (exec .mvNextTo g p).1.dirs p.policy = some d := by
  obtain ⟨d, hd, _⟩ := h
  simp only [exec, hd]
  cases he : lookupDir g.dirs p.policy with
  | none => simp [lookupDir]
  | some e =>
    by_cases hn : e.nested = true
    · simp [hn, he]
    · simp [hn]
      exact lookupDir_setNested.mpr ⟨e, he⟩

/-- Existing directories stay (with their compiled flag); a new one comes from a built `next`. -/
theorem exec_dirs_built {c : Cmd} (g : G) (p : Proc) (hg : ∀ n d, lookupDir g.dirs n = some d → d.built = true)
    (hmv : c = .mvNextTo → NextBuilt g) :
    ∀ n d, lookupDir (exec c g p).1.dirs n = some d → d.built = true := by
  by_cases hc : c = .mvNextTo
  · subst hc
    obtain ⟨d0, hd0, hb0⟩ := hmv rfl
    intro n d
    simp only [exec, hd0]
    cases he : lookupDir g.dirs p.policy with
    | none =>
      simp only [lookupDir]
      by_cases hpn : p.policy = n
      · simp [hpn]; intro h; subst h; exact hb0
      · simp [hpn]; exact hg n d
    | some e =>
      by_cases hn : e.nested = true
      · simp [hn]; exact hg n d
      · simp [hn]
        intro h
        obtain ⟨d1, h1, h2⟩ := lookupDir_setNested_built h
        rw [← h2]; exact hg n d1 h1
  · rw [exec_dirs g p hc]; exact hg

theorem exec_dirs_mono {c : Cmd} (g : G) (p : Proc) {n : Nat} (h : ∃ d, lookupDir g.dirs n = some d) :
    ∃ d, lookupDir (exec c g p).1.dirs n = some d := by
  by_cases hc : c = .mvNextTo
  · subst hc
    simp only [exec]
    cases hn : g.next with
    | none => simpa using h
    | some d0 =>
      cases he : lookupDir g.dirs p.policy with
      | none =>
        simp only [lookupDir]
        by_cases hpn : p.policy = n
        · simp [hpn]
        · simpa [hpn] using h
      | some e =>
        by_cases hne : e.nested = true
        · simpa [hne] using h
        · simp [hne]; exact lookupDir_setNested.mpr h
  · rw [exec_dirs g p hc]; exact h

end NA.C19

namespace NA.C19

/-- The process after one non-exit command. -/
def after (i : Instr) (g : G) (p : Proc) : Proc :=
  { (exec i.cmd g p).2.1 with pc := if (exec i.cmd g p).2.2 then i.ok else i.fail,
                               touched := (exec i.cmd g p).2.1.touched || i.cmd.mutating }

theorem stepProc_nonexit {prog : Prog} {g : G} {p : Proc} {i : Instr} (hi : instrAt prog p.pc = some i)
    (hne : ∀ n, i.cmd ≠ .exit n) : stepProc prog g p = ((exec i.cmd g p).1, after i g p) := by
  unfold stepProc after
  simp only [hi]     -- the side condition of the default alternative is discharged by `hne`

theorem stepProc_exit {prog : Prog} {g : G} {p : Proc} {i : Instr} {n : Nat} (hi : instrAt prog p.pc = some i)
    (hc : i.cmd = .exit n) : stepProc prog g p = (release g p.pid, { p with alive := false, exit := some n }) := by
  unfold stepProc
  simp only [hi, hc]

theorem after_pid (i : Instr) (g : G) (p : Proc) : (after i g p).pid = p.pid := by
  simp [after, exec_pid]

theorem after_alive (i : Instr) (g : G) (p : Proc) : (after i g p).alive = (exec i.cmd g p).2.1.alive := rfl

theorem exec_alive (c : Cmd) (g : G) (p : Proc) : (exec c g p).2.1.alive = p.alive := by
  cases c <;> simp only [exec] <;> (repeat' split) <;> simp_all [Proc.setReg] <;> (repeat' split) <;> simp_all

/-- Own step: the facts computed by the transfer function hold afterwards. -/
theorem own1 {i : Instr} {a x : F1} {g : G} {p : Proc} (hΓ : Γ1 a g p) (hreq : req1 i.cmd a = true)
    (htf : tf1 i.cmd a (exec i.cmd g p).2.2 = some x) : Γ1 x (exec i.cmd g p).1 (after i g p) := by
  obtain ⟨line, c, kok, kfail, vis, inh⟩ := i
  simp only at hreq htf ⊢
  generalize hi : (⟨line, c, kok, kfail, vis, inh⟩ : Instr) = i
  have hic : i.cmd = c := by rw [← hi]
  have hpid : (after i g p).pid = p.pid := after_pid i g p
  have hpol : c ≠ .policyFromCount → (after i g p).policy = p.policy := by
    intro h; simp only [after, hic]; exact exec_policy c g p h
  have hmut : c.mutating = true → g.lock = some p.pid := by
    intro hm
    have : a.holds = true := by
      simp [req1, hm] at hreq; exact hreq.1
    exact hΓ.holds this
  have hkeep : g.lock = some p.pid → (exec c g p).1.lock = some (after i g p).pid := by
    intro h; rw [hpid]; exact exec_lock_own h
  have htch : (after i g p).touched = true → (exec c g p).1.lock = some (after i g p).pid := by
    intro ht
    simp [after, exec_touched, hic] at ht
    rcases ht with ht | ht
    · exact hkeep (hΓ.tch ht)
    · exact hkeep (hmut ht)
  have hdir : c ≠ .policyFromCount → a.dirOk = true →
      (exec c g p).1.lock = some (after i g p).pid ∧ ∃ d, lookupDir (exec c g p).1.dirs (after i g p).policy = some d := by
    intro hc h
    refine ⟨hkeep (hΓ.dirOk h).1, ?_⟩
    rw [hpol hc]; exact exec_dirs_mono g p (hΓ.dirOk h).2
  simp only [tf1, Option.some.injEq] at htf
  by_cases c1 : c = .flockNB
  · subst c1
    cases hok : (exec Cmd.flockNB g p).2.2
    · simp [hok] at htf; subst htf
      exact ⟨fun h => hkeep (hΓ.holds h),
             fun h => ⟨hkeep (hΓ.nextOk h).1, exec_nextBuilt g p (hΓ.nextOk h).2 (by simp) (by simp) (by simp) (by simp) (by simp)⟩,
             hdir (by simp), htch⟩
    · simp [hok] at htf; subst htf
      have hl : (exec Cmd.flockNB g p).1.lock = some (after i g p).pid := by rw [hpid]; exact flock_ok hok
      exact ⟨fun _ => hl,
             fun h => ⟨hl, exec_nextBuilt g p (hΓ.nextOk h).2 (by simp) (by simp) (by simp) (by simp) (by simp)⟩,
             fun h => ⟨hl, (hdir (by simp) h).2⟩, htch⟩
  by_cases c2 : c = .compile
  · subst c2
    subst htf
    refine ⟨fun h => hkeep (hΓ.holds h), ?_, hdir (by simp), htch⟩
    intro h
    simp at h
    exact ⟨hkeep (hΓ.holds h.2), compile_ok h.1⟩
  by_cases c3 : c = .mvNextTo
  · subst c3
    subst htf
    refine ⟨fun h => hkeep (hΓ.holds h), fun h => by simp at h, ?_, htch⟩
    intro h
    simp at h
    refine ⟨hkeep (hΓ.nextOk h).1, ?_⟩
    rw [hpol (by simp)]; exact mv_dir (hΓ.nextOk h).2
  by_cases c4 : c = .policyFromCount
  · subst c4
    subst htf
    refine ⟨fun h => hkeep (hΓ.holds h), ?_, fun h => by simp at h, htch⟩
    intro h
    exact ⟨hkeep (hΓ.nextOk h).1, exec_nextBuilt g p (hΓ.nextOk h).2 (by simp) (by simp) (by simp) (by simp) (by simp)⟩
  by_cases c5 : c = .rmrfNext ∨ c = .mkdirNext ∨ c = .gitClone
  · have hx : x = { a with nextOk := false } := by
      rcases c5 with c5 | c5 | c5 <;> subst c5 <;> exact htf.symm
    subst hx
    exact ⟨fun h => hkeep (hΓ.holds h), fun h => by simp at h, hdir c4, htch⟩
  · have h5 : c ≠ .rmrfNext ∧ c ≠ .mkdirNext ∧ c ≠ .gitClone :=
      ⟨fun h => c5 (Or.inl h), fun h => c5 (Or.inr (Or.inl h)), fun h => c5 (Or.inr (Or.inr h))⟩
    have hx : x = a := by
      revert htf
      cases c <;> simp_all
    subst hx
    refine ⟨fun h => hkeep (hΓ.holds h), ?_, hdir c4, htch⟩
    intro h
    exact ⟨hkeep (hΓ.nextOk h).1, exec_nextBuilt g p (hΓ.nextOk h).2 h5.1 h5.2.1 h5.2.2 c2 c3⟩

end NA.C19

namespace NA.C19

/-- If the lock is held by somebody else, none of `q`'s facts can be claimed. -/
theorem Γ1.vacuous {b : F1} {g g' : G} {q : Proc} {pid : Nat} (h : Γ1 b g q) (hl : g.lock = some pid)
    (hne : q.pid ≠ pid) : Γ1 b g' q := by
  have no : g.lock = some q.pid → False := by
    intro h1; rw [hl] at h1; injection h1 with h1; exact hne h1.symm
  exact ⟨fun hb => (no (h.holds hb)).elim, fun hb => (no (h.nextOk hb).1).elim,
         fun hb => (no (h.dirOk hb).1).elim, fun hb => (no (h.tch hb)).elim⟩

theorem Γ1.congr {b : F1} {g g' : G} {q : Proc} (h : Γ1 b g q) (h1 : g'.lock = g.lock) (h2 : g'.next = g.next)
    (h3 : g'.dirs = g.dirs) : Γ1 b g' q := by
  refine ⟨fun hb => h1 ▸ h.holds hb, fun hb => ?_, fun hb => ?_, fun hb => h1 ▸ h.tch hb⟩
  · rw [h1, h2]; exact h.nextOk hb
  · rw [h1, h3]; exact h.dirOk hb

/-- Steps of another process do not disturb `q`'s facts (that process writes only under the lock). -/
theorem other1 {c : Cmd} {b : F1} {g : G} {p q : Proc} (h : Γ1 b g q) (hne : q.pid ≠ p.pid)
    (hmut : c.mutating = true → g.lock = some p.pid) : Γ1 b (exec c g p).1 q := by
  cases hm : c.mutating
  · obtain ⟨h2, h3, _⟩ := exec_nonmut g p hm
    rcases exec_lock c g p with h1 | ⟨h0, _⟩
    · exact h.congr h1 h2 h3
    · have no : g.lock = some q.pid → False := by intro h1; rw [h0] at h1; cases h1
      exact ⟨fun hb => (no (h.holds hb)).elim, fun hb => (no (h.nextOk hb).1).elim,
             fun hb => (no (h.dirOk hb).1).elim, fun hb => (no (h.tch hb)).elim⟩
  · exact h.vacuous (hmut hm) hne

theorem Γ1.release {b : F1} {g : G} {q : Proc} {pid : Nat} (h : Γ1 b g q) (hne : q.pid ≠ pid) :
    Γ1 b (release g pid) q := by
  unfold NA.C19.release
  split
  · next hl => exact h.vacuous hl hne
  · exact h

theorem GI1.congr {g g' : G} (h : GI1 g) (h1 : g'.dirs = g.dirs) (h2 : g'.current = g.current) : GI1 g' :=
  ⟨fun n d => by rw [h1]; exact h.dirs n d, fun n => by rw [h1, h2]; exact h.cur n⟩

theorem GI1.release {g : G} {pid : Nat} (h : GI1 g) : GI1 (release g pid) := by
  unfold NA.C19.release
  split
  · exact h.congr rfl rfl
  · exact h

/-- Own step keeps the global part. -/
theorem gi1_exec {c : Cmd} {a : F1} {g : G} {p : Proc} (h : GI1 g) (hΓ : Γ1 a g p) (hreq : req1 c a = true) :
    GI1 (exec c g p).1 := by
  constructor
  · apply exec_dirs_built g p h.dirs
    intro hc; subst hc
    simp [req1] at hreq
    exact (hΓ.nextOk hreq.2).2
  · intro n hn
    by_cases c1 : c = .rmCurrent
    · subst c1; simp [exec] at hn
    by_cases c2 : c = .lnCurrent
    · subst c2
      simp [req1] at hreq
      have hd := (hΓ.dirOk hreq.2).2
      simp only [exec] at hn ⊢
      split at hn
      · simp at hn; subst hn; exact hd
      · next k hk => simp at hn; simpa using h.cur n (by simp_all)
    · rw [exec_current g p c1 c2] at hn
      exact exec_dirs_mono g p (h.cur n hn)

/-! ### The invariant over all schedules -/

structure Inv1 (ann : Ann safety) (s : State) : Prop where
  gi    : GI1 s.g
  uniq  : UniquePids s.procs
  fresh : ∀ p ∈ s.procs, p.pid < s.npid
  procs : ∀ p ∈ s.procs, p.alive = true → ∃ a, safety.at ann p.pc = some a ∧ Γ1 a s.g p

theorem inv1_init {prog : Prog} {ann : Ann safety} (_ : check safety prog ann = true) (se : Bool) :
    Inv1 ann (init se) :=
  ⟨⟨fun n d h => by simp [init, lookupDir] at h, fun n h => by simp [init] at h⟩,
   fun p hp => by simp [init] at hp, fun p hp => by simp [init] at hp, fun p hp => by simp [init] at hp⟩

theorem Γ1_entry (g : G) (p : Proc) (hp : p.touched = false) : Γ1 safety.entry g p :=
  ⟨fun h => by simp [safety] at h, fun h => by simp [safety] at h, fun h => by simp [safety] at h,
   fun h => by rw [hp] at h; cases h⟩

theorem inv1_stepCore {prog : Prog} {ann : Ann safety} (hc : check safety prog ann = true) {s : State}
    (hinv : Inv1 ann s) (e : Event) : Inv1 ann (stepCore prog s e) := by
  obtain ⟨hgi, huniq, hfresh, hprocs⟩ := hinv
  cases e with
  | commit good pol email =>
    simp only [stepCore]
    refine ⟨hgi.congr rfl rfl, huniq, hfresh, ?_⟩
    intro p hp ha
    obtain ⟨a, h1, h2⟩ := hprocs p hp ha
    exact ⟨a, h1, h2.congr rfl rfl rfl⟩
  | spawn =>
    simp only [stepCore]
    refine ⟨hgi, ?_, ?_, ?_⟩
    · intro p hp q hq hpq
      simp only [List.mem_append, List.mem_singleton] at hp hq
      rcases hp with hp | hp <;> rcases hq with hq | hq
      · exact huniq p hp q hq hpq
      · subst hq; have := hfresh p hp; simp at hpq; omega
      · subst hp; have := hfresh q hq; simp at hpq; omega
      · rw [hp, hq]
    · intro p hp
      simp only [List.mem_append, List.mem_singleton] at hp
      rcases hp with hp | hp
      · have := hfresh p hp; show p.pid < s.npid + 1; omega
      · subst hp; show s.npid < s.npid + 1; omega
    · intro p hp ha
      simp only [List.mem_append, List.mem_singleton] at hp
      rcases hp with hp | hp
      · exact hprocs p hp ha
      · subst hp
        obtain ⟨a, h1, h2⟩ := check_entry hc
        exact ⟨a, h1, (Γ1_entry s.g _ rfl).mono h2⟩
  | kill pid =>
    simp only [stepCore]
    cases hf : findProc s.procs pid with
    | none => exact ⟨hgi, huniq, hfresh, hprocs⟩
    | some p =>
      obtain ⟨hpm, hpp⟩ := findProc_some hf
      by_cases hal : p.alive = true
      · simp only [hal, if_true]
        refine ⟨hgi.release, unique_replaceProc huniq, ?_, ?_⟩
        · intro q hq
          rcases mem_replaceProc hq with ⟨rfl, _⟩ | ⟨hq1, _⟩
          · exact hfresh p hpm
          · exact hfresh q hq1
        · intro q hq hqa
          rcases mem_replaceProc hq with ⟨rfl, _⟩ | ⟨hq1, hq2⟩
          · simp at hqa
          · obtain ⟨a, h1, h2⟩ := hprocs q hq1 hqa
            exact ⟨a, h1, h2.release (by simpa [hpp] using hq2)⟩
      · simp [hal]; exact ⟨hgi, huniq, hfresh, hprocs⟩
  | step pid =>
    simp only [stepCore]
    cases hf : findProc s.procs pid with
    | none => exact ⟨hgi, huniq, hfresh, hprocs⟩
    | some p =>
      obtain ⟨hpm, hpp⟩ := findProc_some hf
      by_cases hal : p.alive = true
      · simp only [hal, if_true]
        obtain ⟨a, ha, hΓ⟩ := hprocs p hpm hal
        have hlt : p.pc < prog.length := by rw [← check_len hc]; exact at_some_lt ha
        have hi : instrAt prog p.pc = some prog[p.pc] := by simp [instrAt, hlt]
        generalize prog[p.pc] = i at hi
        obtain ⟨hreq, hokl, hfaill, hedge1, hedge2⟩ := check_step hc (by simpa [instrAt] using hi) ha
        by_cases hex : ∃ n, i.cmd = .exit n
        · obtain ⟨n, hn⟩ := hex
          rw [stepProc_exit hi hn]
          refine ⟨hgi.release, unique_replaceProc huniq, ?_, ?_⟩
          · intro q hq
            rcases mem_replaceProc hq with ⟨rfl, _⟩ | ⟨hq1, _⟩
            · exact hfresh p hpm
            · exact hfresh q hq1
          · intro q hq hqa
            rcases mem_replaceProc hq with ⟨rfl, _⟩ | ⟨hq1, hq2⟩
            · simp at hqa
            · obtain ⟨b, h1, h2⟩ := hprocs q hq1 hqa
              exact ⟨b, h1, h2.release (by simpa using hq2)⟩
        · have hne : ∀ n, i.cmd ≠ .exit n := fun n h => hex ⟨n, h⟩
          rw [stepProc_nonexit hi hne]
          have hmut : i.cmd.mutating = true → s.g.lock = some p.pid := by
            intro hm
            have : a.holds = true := by
              have hr : req1 i.cmd a = true := hreq
              simp [req1, hm] at hr; exact hr.1
            exact hΓ.holds this
          refine ⟨gi1_exec hgi hΓ hreq, unique_replaceProc huniq, ?_, ?_⟩
          · intro q hq
            rcases mem_replaceProc hq with ⟨rfl, _⟩ | ⟨hq1, _⟩
            · rw [after_pid]; exact hfresh p hpm
            · exact hfresh q hq1
          · intro q hq hqa
            rcases mem_replaceProc hq with ⟨rfl, _⟩ | ⟨hq1, hq2⟩
            · -- the process that moved
              have htf : ∃ x, tf1 i.cmd a (exec i.cmd s.g p).2.2 = some x := by simp [tf1]
              obtain ⟨x, hx⟩ := htf
              have hΓ' := own1 hΓ hreq hx
              cases hok : (exec i.cmd s.g p).2.2
              · obtain ⟨b, hb1, hb2⟩ := hedge2 x (by rw [hok] at hx; exact hx)
                refine ⟨b, ?_, hΓ'.mono hb2⟩
                simp [after, hok]; exact hb1
              · obtain ⟨b, hb1, hb2⟩ := hedge1 x (by rw [hok] at hx; exact hx)
                refine ⟨b, ?_, hΓ'.mono hb2⟩
                simp [after, hok]; exact hb1
            · obtain ⟨b, h1, h2⟩ := hprocs q hq1 hqa
              rw [after_pid] at hq2
              exact ⟨b, h1, other1 h2 hq2 hmut⟩
      · simp [hal]; exact ⟨hgi, huniq, hfresh, hprocs⟩
  | killDuring pid => exact ⟨hgi, huniq, hfresh, hprocs⟩

theorem inh_of_ok {prog : Prog} (h : inhOK prog = true) {pc : Nat} {i : Instr} (hi : instrAt prog pc = some i)
    (he : i.cmd.external = true) : i.inh = true := by
  simp only [inhOK, List.all_eq_true] at h
  have hm : i ∈ prog := by
    unfold instrAt at hi
    exact List.mem_of_getElem? hi
  have := h i hm
  simp [he] at this
  exact this

/-- Lift a property of states that does not look at `dying` from `stepCore` to `step`
(for programs whose child processes all inherit fd 9). -/
theorem step_lift {prog : Prog} (hinh : inhOK prog = true) {P : State → Prop}
    (hcore : ∀ s e, P s → P (stepCore prog s e))
    (hdy : ∀ s d, P s → P { s with dying := d }) (s : State) (e : Event) (h : P s) : P (step prog s e) := by
  cases e with
  | killDuring pid =>
    cases hf : findProc s.procs pid with
    | none => simp only [step, hf]; exact h
    | some p =>
      cases hi : instrAt prog p.pc with
      | none => simp only [step, hf, hi]; exact hcore _ _ h
      | some i =>
        by_cases hc : (p.alive && i.cmd.external) = true
        · have he : i.cmd.external = true := by simp at hc; exact hc.2
          simp only [step, hf, hi, hc, if_true, inh_of_ok hinh hi he]
          exact hdy _ _ h
        · have hc' : (p.alive && i.cmd.external) = false := by simpa using hc
          simp only [step, hf, hi, hc', Bool.false_eq_true, if_false]; exact hcore _ _ h
  | step pid =>
    simp only [step]
    split
    · exact hcore _ _ (hdy _ _ (hcore _ _ h))
    · exact hcore _ _ h
  | commit good pol email => exact hcore s (.commit good pol email) h
  | spawn => exact hcore s .spawn h
  | kill pid => exact hcore s (.kill pid) h

theorem Inv1.dying {ann : Ann safety} {s : State} {d : List Nat} (h : Inv1 ann s) : Inv1 ann { s with dying := d } :=
  ⟨h.gi, h.uniq, h.fresh, h.procs⟩

theorem inv1_step {prog : Prog} {ann : Ann safety} (hinh : inhOK prog = true) (hc : check safety prog ann = true)
    {s : State} (hinv : Inv1 ann s) (e : Event) : Inv1 ann (step prog s e) :=
  step_lift hinh (P := Inv1 ann) (fun _ e h => inv1_stepCore hc h e) (fun _ _ h => h.dying) s e hinv

theorem inv1_run {prog : Prog} {ann : Ann safety} (hinh : inhOK prog = true) (hc : check safety prog ann = true)
    (se : Bool) (es : List Event) : Inv1 ann (run prog se es) := by
  unfold run
  have h0 : Inv1 ann (init se) := inv1_init hc se
  generalize init se = s0 at h0
  induction es generalizing s0 with
  | nil => exact h0
  | cons e es ih => exact ih _ (inv1_step hinh hc h0 e)

end NA.C19

namespace NA.C19

/-- A live process that has started to write, or is about to. -/
def works (prog : Prog) (p : Proc) : Bool :=
  p.alive && (p.touched || ((instrAt prog p.pc).map (·.cmd.mutating)).getD false)

theorem works_holds {prog : Prog} {ann : Ann safety} (hc : check safety prog ann = true) {s : State}
    (hinv : Inv1 ann s) {p : Proc} (hp : p ∈ s.procs) (hw : works prog p = true) : s.g.lock = some p.pid := by
  simp only [works, Bool.and_eq_true, Bool.or_eq_true] at hw
  obtain ⟨hal, hw⟩ := hw
  obtain ⟨a, ha, hΓ⟩ := hinv.procs p hp hal
  rcases hw with hw | hw
  · exact hΓ.tch hw
  · cases hi : instrAt prog p.pc with
    | none => simp [hi] at hw
    | some i =>
      simp [hi] at hw
      obtain ⟨hreq, _⟩ := check_step hc (by simpa [instrAt] using hi) ha
      have hr : req1 i.cmd a = true := hreq
      simp [req1, hw] at hr
      exact hΓ.holds hr.1

/-- Whoever changes `current` is a live process whose `p$POLICY` directory exists and is compiled. -/
theorem current_changeCore {prog : Prog} {ann : Ann safety} (hc : check safety prog ann = true) {s : State}
    (hinv : Inv1 ann s) (e : Event) (hch : (stepCore prog s e).g.current ≠ s.g.current) :
    ∃ pid p d, e = .step pid ∧ findProc s.procs pid = some p ∧ p.alive = true ∧
      s.g.lock = some p.pid ∧ lookupDir s.g.dirs p.policy = some d ∧ d.built = true := by
  cases e with
  | commit good pol email => simp [stepCore, applyCommit] at hch
  | spawn => simp [stepCore] at hch
  | kill pid =>
    simp only [stepCore] at hch
    cases hf : findProc s.procs pid with
    | none => simp [hf] at hch
    | some p =>
      simp only [hf] at hch
      split at hch
      · simp only [release] at hch; split at hch <;> simp at hch
      · simp at hch
  | step pid =>
    simp only [stepCore] at hch
    cases hf : findProc s.procs pid with
    | none => simp [hf] at hch
    | some p =>
      obtain ⟨hpm, hpp⟩ := findProc_some hf
      simp only [hf] at hch
      by_cases hal : p.alive = true
      · simp only [hal, if_true] at hch
        obtain ⟨a, ha, hΓ⟩ := hinv.procs p hpm hal
        have hlt : p.pc < prog.length := by rw [← check_len hc]; exact at_some_lt ha
        have hi : instrAt prog p.pc = some prog[p.pc] := by simp [instrAt, hlt]
        generalize prog[p.pc] = i at hi
        obtain ⟨hreq, _⟩ := check_step hc (by simpa [instrAt] using hi) ha
        by_cases hex : ∃ n, i.cmd = .exit n
        · obtain ⟨n, hn⟩ := hex
          rw [stepProc_exit hi hn] at hch
          simp only [release] at hch; split at hch <;> simp at hch
        · have hne : ∀ n, i.cmd ≠ .exit n := fun n h => hex ⟨n, h⟩
          rw [stepProc_nonexit hi hne] at hch
          simp only at hch
          have hr : req1 i.cmd a = true := hreq
          have hd : a.dirOk = true := by
            by_cases c1 : i.cmd = .rmCurrent
            · simp [req1, c1] at hr; exact hr.2
            by_cases c2 : i.cmd = .lnCurrent
            · simp [req1, c2] at hr; exact hr.2
            · exact absurd (exec_current s.g p c1 c2) hch
          obtain ⟨hl, d, hd2⟩ := hΓ.dirOk hd
          exact ⟨pid, p, d, rfl, hf, hal, hl, hd2, hinv.gi.dirs _ _ hd2⟩
      · simp [hal] at hch
  | killDuring pid => simp [stepCore] at hch

theorem kill_current {prog : Prog} (s : State) (pid : Nat) : (stepCore prog s (.kill pid)).g.current = s.g.current := by
  simp only [stepCore]
  split
  · split
    · simp only [release]; split <;> rfl
    · rfl
  · rfl

theorem current_change {prog : Prog} {ann : Ann safety} (hc : check safety prog ann = true) {s : State}
    (hinv : Inv1 ann s) (e : Event) (hch : (step prog s e).g.current ≠ s.g.current) :
    ∃ pid p d, e = .step pid ∧ findProc s.procs pid = some p ∧ p.alive = true ∧
      s.g.lock = some p.pid ∧ lookupDir s.g.dirs p.policy = some d ∧ d.built = true := by
  cases e with
  | killDuring pid =>
    exfalso; apply hch
    cases hf : findProc s.procs pid with
    | none => simp only [step, hf]
    | some p =>
      cases hi : instrAt prog p.pc with
      | none => simp only [step, hf, hi]; exact kill_current s pid
      | some i =>
        simp only [step, hf, hi]
        split
        · split
          · rfl
          · show (release s.g pid).current = s.g.current
            simp only [release]; split <;> rfl
        · exact kill_current s pid
  | step pid =>
    simp only [step] at hch
    split at hch
    · rw [kill_current] at hch
      exact current_changeCore hc hinv (.step pid) hch
    · exact current_changeCore hc hinv (.step pid) hch
  | commit good pol email => exact current_changeCore hc hinv _ hch
  | spawn => exact current_changeCore hc hinv _ hch
  | kill pid => exact current_changeCore hc hinv _ hch

end NA.C19
