import NA.Proofs.C06
/-
C06: the gate.  `approve` = load ; GetChanges ; gate ; apply.  If the load part always stops or
leaves the gate shut, approve sends nothing but harmless requests and fails
(`approveWith_blocked`).  The rest of the file shows, per backend and per interlock, that the
load part stops / shuts the gate.
-/
namespace NA.Gate
open NA.Gate.Spec

/-! ## structure of the orchestration -/

theorem exec_seq (env : Env) (p q : Prog) (st : St) : exec env (p ;; q) st = exec env q (exec env p st) := rfl
theorem exec_call (env : Env) (f : String) (p : Prog) (st : St) : exec env (.call f p) st = exec env p st := rfl
theorem exec_block (env : Env) (p : Prog) (st : St) : exec env (.block p) st = exec env p st := rfl
theorem exec_note (env : Env) (k t : String) (st : St) : exec env (.note k t) st = st := rfl
theorem exec_defn (env : Env) (k : String) (p : Prog) (st : St) : exec env (.defn k p) st = st := rfl
theorem exec_nop (env : Env) (st : St) : exec env .nop st = st := rfl
theorem exec_send (env : Env) (a b : String) (o : Out) (fm : FaultMode) (st : St) :
    exec env (.send a b o fm) st = sendStep env o fm st := rfl

/-- the reply after a request, when the run was going -/
theorem sendStep_running (env : Env) (o : Out) (fm : FaultMode) (st : St) (h : st.status = .running) :
    sendStep env o fm st =
      match env.dev st.trace o with
      | .fault why => { st with trace := st.trace ++ [o], reply := .fault why, status := faultStatus fm why }
      | r => { st with trace := st.trace ++ [o], reply := r, connected := st.connected || o == .connect } := by
  unfold sendStep
  simp only [h, Status.isRunning_running, if_true]
  cases env.dev st.trace o <;> rfl

theorem compareDevice_exec (env : Env) (load gc : Prog) (st : St) :
    exec env (compareDeviceP load gc) st = exec env gc (exec env load st) := by
  simp [compareDeviceP, loadDeviceP, getCompareP, errRet, exec]

theorem approveWith_exec (env : Env) (load gc ap : Prog) (c : Bool) (st : St) :
    exec env (approveWith load gc c ap) st =
      exec env (applyCommandsP ap) (exec env (.gate c) (exec env gc (exec env load st))) := by
  simp [approveWith, errRet, exec, compareDevice_exec]

theorem compareWith_exec (env : Env) (load gc : Prog) (st : St) :
    exec env (compareWith load gc) st = exec env .warnU (exec env gc (exec env load st)) := by
  simp [compareWith, errRet, exec, compareDevice_exec]

theorem safe_compareDevice (b : Backend) (load gc : Prog) :
    safe b (compareDeviceP load gc) = (safe b load && safe b gc) := by
  simp [compareDeviceP, loadDeviceP, getCompareP, errRet, safe]

theorem noCrash_compareDevice (load gc : Prog) :
    noCrash (compareDeviceP load gc) = (noCrash load && noCrash gc) := by
  simp [compareDeviceP, loadDeviceP, getCompareP, errRet, noCrash]

theorem noChange_nil (b : Backend) : NoChange b ([] : List Out) := by
  intro o h; cases h

theorem notPanicked_init : notPanicked ({} : St) := ⟨fun m => by simp, by simp⟩

theorem isRunning_false_of_ne {s : Status} : s.isRunning = false ↔ s ≠ .running := by
  cases s <;> simp [Status.isRunning]

/-- A stopped run that is not a Go panic ends with exit status 1 and an `ERROR>>>` line. -/
theorem exit_one (st : St) (hn : st.status.isRunning = false) (hp : notPanicked st) :
    st.exit = 1 ∧ st.diagnostic.isSome = true := by
  unfold St.exit St.diagnostic
  cases h : st.status with
  | running => rw [h] at hn; simp [Status.isRunning] at hn
  | aborted m => simp
  | failed m => simp
  | panicked m => exact absurd h (hp.1 m)
  | unfinished => exact absurd h hp.2

theorem closeStep_status (o : Option Out) (st : St) : (closeStep o st).status = st.status := by
  unfold closeStep
  split
  · rfl
  · split <;> rfl

theorem closeOut_harmless (b : Backend) (x : Out) (h : closeOut b = some x) : harmless b x = true := by
  cases b <;> simp [closeOut] at h <;> subst h <;> decide

theorem closeStep_noChange (b : Backend) (st : St) (h : NoChange b st.trace) :
    NoChange b (closeStep (closeOut b) st).trace := by
  unfold closeStep
  split
  · exact h
  · rename_i x hx
    split
    · exact noChange_append b _ _ h (closeOut_harmless b x hx)
    · exact h

/-- The structural theorem: whenever the load part (LoadDevice ; GetChanges) either stops or ends
with a non-empty `errUnmanaged` that the gate consults, approve sends only harmless requests,
ends with exit status 1 and an ERROR line. -/
theorem approveWith_blocked (env : Env) (b : Backend) (load gc ap : Prog) (c : Bool)
    (hsafe : (safe b load && safe b gc) = true) (hnc : (noCrash load && noCrash gc) = true)
    (hshut : (exec env gc (exec env load {})).status.isRunning = true →
      c = true ∧ (exec env gc (exec env load {})).errU ≠ []) :
    let f := closeStep (closeOut b) (exec env (approveWith load gc c ap) {})
    NoChange b f.trace ∧ f.exit = 1 ∧ f.diagnostic.isSome = true := by
  intro f
  have hs1 : safe b load = true ∧ safe b gc = true := by simpa using hsafe
  have hn1 : noCrash load = true ∧ noCrash gc = true := by simpa using hnc
  -- state after the load part
  let s := exec env gc (exec env load {})
  have htr : NoChange b s.trace :=
    exec_noChange env b gc hs1.2 _ (exec_noChange env b load hs1.1 _ (noChange_nil b))
  have hnp : notPanicked s :=
    exec_noPanic env gc hn1.2 _ (exec_noPanic env load hn1.1 _ notPanicked_init)
  -- state after the gate: stopped, same trace
  let g := exec env (.gate c) s
  have hg : g.status.isRunning = false ∧ g.trace = s.trace ∧ notPanicked g := by
    show (exec env (.gate c) s).status.isRunning = false ∧ (exec env (.gate c) s).trace = s.trace ∧
      notPanicked (exec env (.gate c) s)
    cases hr : s.status.isRunning with
    | false => rw [exec_nr env _ s hr]; exact ⟨hr, rfl, hnp⟩
    | true =>
      obtain ⟨hc, he⟩ := hshut hr
      simp only [exec, hr, hc, Bool.and_self, if_true]
      cases hel : s.errU with
      | nil => exact absurd hel he
      | cons m l => exact ⟨rfl, rfl, fun m' => by simp, by simp⟩
  have hf : exec env (approveWith load gc c ap) {} = g := by
    rw [approveWith_exec]; exact exec_nr env _ g hg.1
  have hfs : f.status = g.status := by
    show (closeStep (closeOut b) (exec env (approveWith load gc c ap) {})).status = g.status
    rw [closeStep_status, hf]
  refine ⟨?_, ?_⟩
  · show NoChange b (closeStep (closeOut b) (exec env (approveWith load gc c ap) {})).trace
    rw [hf]; apply closeStep_noChange; rw [hg.2.1]; exact htr
  · apply exit_one f
    · rw [hfs]; exact hg.1
    · exact notPanicked_of_status hfs hg.2.2

/-- `drc FILE` / `do-approve approve` = ApproveOrCompare with `isCompare = false`. -/
theorem runMain_approve (b : Backend) (env : Env) (h : env.cfg.isCompare = false) :
    runMain b env = closeStep (closeOut b) (exec env (approveP b env.cfg) {}) := by
  simp [runMain, run, approveOrCompareP, exec, Pred.eval, penv, h]

theorem runMain_compare (b : Backend) (env : Env) (h : env.cfg.isCompare = true) :
    runMain b env = closeStep (closeOut b) (exec env (compareP b env.cfg) {}) := by
  simp [runMain, run, approveOrCompareP, exec, Pred.eval, penv, h]

/-! ## wrong hostname -/

theorem sendStep_nr_status (env : Env) (o : Out) (fm : FaultMode) (st : St)
    (h : st.status.isRunning = false) : (sendStep env o fm st).status.isRunning = false := by
  rw [sendStep_nr env o fm st h]; exact h

/-- `out := GetCmdOutput(query); out = TrimSuffix(out, "\n"); if name != out { Abort }` never
lets a device through that does not report the expected name. -/
theorem asa_nameCheck_blocks (env : Env) (h : WrongHost .asa [env.cfg.name] env.dev) (st : St) :
    (exec env asaCheckDeviceName st).status.isRunning = false := by
  simp only [asaCheckDeviceName, outDecl, nameCheck, exec_seq, exec_send]
  cases hr : st.status.isRunning with
  | false =>
    rw [sendStep_nr env _ _ st hr]
    exact exec_nr_status env _ _ (exec_nr_status env _ _ (exec_nr_status env _ _ hr))
  | true =>
    have hs : st.status = .running := Status.isRunning_iff.mp hr
    rw [sendStep_running env _ _ st hs]
    have hw := h _ rfl st.trace env.cfg.name (by simp)
    cases hd : env.dev st.trace (.lit "show hostname") with
    | fault w => simp [faultStatus, exec, Pred.eval, penv]
    | text s => simp [hostIs, hd, replyText] at hw; simp [exec, Pred.eval, penv, hs, Pred.eval, TExp.eval, penv]; rw [if_neg (fun e => hw e.symm)]; rfl
    | ha a b c => simp [hostIs, hd, replyText] at hw; simp [exec, Pred.eval, penv, hs, Pred.eval, TExp.eval, penv]; rw [if_neg (fun e => hw e.symm)]; rfl
    | conf a b => simp [hostIs, hd, replyText] at hw; simp [exec, Pred.eval, penv, hs, Pred.eval, TExp.eval, penv]; rw [if_neg (fun e => hw e.symm)]; rfl
    | page a b => simp [hostIs, hd, replyText] at hw; simp [exec, Pred.eval, penv, hs, Pred.eval, TExp.eval, penv]; rw [if_neg (fun e => hw e.symm)]; rfl

theorem linux_nameCheck_blocks (env : Env) (h : WrongHost .linux [env.cfg.name] env.dev) (st : St) :
    (exec env linuxCheckDeviceName st).status.isRunning = false := by
  simp only [linuxCheckDeviceName, outDecl, nameCheck, exec_seq, exec_send]
  cases hr : st.status.isRunning with
  | false =>
    rw [sendStep_nr env _ _ st hr]
    exact exec_nr_status env _ _ (exec_nr_status env _ _ (exec_nr_status env _ _ hr))
  | true =>
    have hs : st.status = .running := Status.isRunning_iff.mp hr
    rw [sendStep_running env _ _ st hs]
    have hw := h _ rfl st.trace env.cfg.name (by simp)
    cases hd : env.dev st.trace (.lit "hostname -s") with
    | fault w => simp [faultStatus, exec, Pred.eval, penv]
    | text s => simp [hostIs, hd, replyText] at hw; simp [exec, Pred.eval, penv, hs, Pred.eval, TExp.eval, penv]; rw [if_neg (fun e => hw e.symm)]; rfl
    | ha a b c => simp [hostIs, hd, replyText] at hw; simp [exec, Pred.eval, penv, hs, Pred.eval, TExp.eval, penv]; rw [if_neg (fun e => hw e.symm)]; rfl
    | conf a b => simp [hostIs, hd, replyText] at hw; simp [exec, Pred.eval, penv, hs, Pred.eval, TExp.eval, penv]; rw [if_neg (fun e => hw e.symm)]; rfl
    | page a b => simp [hostIs, hd, replyText] at hw; simp [exec, Pred.eval, penv, hs, Pred.eval, TExp.eval, penv]; rw [if_neg (fun e => hw e.symm)]; rfl

theorem ios_nameCheck_blocks (env : Env) (h : WrongHost .ios [env.cfg.name] env.dev) (st : St) :
    (exec env iosCheckDeviceName st).status.isRunning = false := by
  simp only [iosCheckDeviceName, nameCheck, exec_seq, exec_send]
  cases hr : st.status.isRunning with
  | false =>
    rw [sendStep_nr env _ _ st hr]
    exact exec_nr_status env _ _ (exec_nr_status env _ _ (exec_nr_status env _ _ hr))
  | true =>
    have hs : st.status = .running := Status.isRunning_iff.mp hr
    rw [sendStep_running env _ _ st hs]
    have hw := h _ rfl st.trace env.cfg.name (by simp)
    cases hd : env.dev st.trace (.lit "") with
    | fault w => simp [faultStatus, exec, Pred.eval, penv]
    | text s => simp [hostIs, hd, replyText] at hw; simp [exec, Pred.eval, penv, hs, Pred.eval, TExp.eval, penv]; rw [if_neg (fun e => hw e.symm)]; rfl
    | ha a b c => simp [hostIs, hd, replyText] at hw; simp [exec, Pred.eval, penv, hs, Pred.eval, TExp.eval, penv]; rw [if_neg (fun e => hw e.symm)]; rfl
    | conf a b => simp [hostIs, hd, replyText] at hw; simp [exec, Pred.eval, penv, hs, Pred.eval, TExp.eval, penv]; rw [if_neg (fun e => hw e.symm)]; rfl
    | page a b => simp [hostIs, hd, replyText] at hw; simp [exec, Pred.eval, penv, hs, Pred.eval, TExp.eval, penv]; rw [if_neg (fun e => hw e.symm)]; rfl

theorem asa_host_blocks (env : Env) (h : WrongHost .asa [env.cfg.name] env.dev) (gc : Prog) :
    (exec env gc (exec env asaLoadDevice {})).status.isRunning = false := by
  have hb := asa_nameCheck_blocks env h
  simp only [asaLoadDevice, asaPostLogin, outDecl, exec_seq, exec_call, exec_note, exec_send]
  repeat (first | with_reducible exact hb _ | with_reducible apply exec_nr_status | with_reducible apply sendStep_nr_status)

theorem ios_host_blocks (env : Env) (h : WrongHost .ios [env.cfg.name] env.dev) (gc : Prog) :
    (exec env gc (exec env iosLoadDevice {})).status.isRunning = false := by
  have hb := ios_nameCheck_blocks env h
  simp only [iosLoadDevice, iosPostLogin, outDecl, exec_seq, exec_call, exec_note, exec_send]
  repeat (first | with_reducible exact hb _ | with_reducible apply exec_nr_status | with_reducible apply sendStep_nr_status)

theorem linux_host_blocks (env : Env) (h : WrongHost .linux [env.cfg.name] env.dev) (cb gc : Prog) :
    (exec env gc (exec env (linuxLoadDeviceWith cb) {})).status.isRunning = false := by
  have hb := linux_nameCheck_blocks env h
  simp only [linuxLoadDeviceWith, linuxPreBanner, linuxPostBanner, exec_seq, exec_call, exec_note]
  repeat (first | with_reducible exact hb _ | with_reducible apply exec_nr_status | with_reducible apply sendStep_nr_status)

/-! ### PAN-OS: the name that logged in is one of the name list -/

theorem panLoginBody_name (env : Env) (n : String) (st : St)
    (h : (exec env (panLoginBody n) st).status.isRunning = true) :
    (exec env (panLoginBody n) st).devName = n := by
  simp only [panLoginBody, errRet, exec_seq, exec_call, exec_block, exec_note] at h ⊢
  generalize exec env (Prog.check _ _ _ _) _ = x at h ⊢
  simp only [exec] at h ⊢
  split
  · rfl
  · rename_i hnr
    rw [if_neg hnr] at h
    exact absurd h hnr

theorem tryNames_devName (env : Env) (names : List String) :
    ∀ st, (exec env (tryNames panLoginBody names) st).status.isRunning = true →
      (exec env (tryNames panLoginBody names) st).devName ∈ names := by
  induction names with
  | nil =>
    intro st h
    simp only [tryNames, exec, Pred.eval, Bool.and_true] at h
    cases hr : st.status.isRunning <;> simp [hr] at h
  | cons n ns ih =>
    intro st h
    simp only [tryNames, exec, Pred.eval] at h ⊢
    split
    · rename_i hr
      simp only [hr, if_true] at h
      split
      · rename_i m hm
        simp only [hm] at h
        exact List.mem_cons_of_mem _ (ih _ h)
      · rename_i hnf
        have h' : (exec env (panLoginBody n) st).status.isRunning = true := by
          split at h
          · rename_i m hm; exact absurd hm (hnf m)
          · exact h
        rw [panLoginBody_name env n st h']
        exact List.mem_cons_self
    · rename_i hr
      simp only [hr] at h
      simp at h
      exact absurd h hr

/-- The part of PAN-OS `LoadDevice` after the login loop: request the configuration, decode,
compare `<hostname>` with the name that logged in. -/
theorem panLoadSuffix_blocks (env : Env) (h : WrongHost .panos env.cfg.names env.dev) (st : St)
    (hn : st.status.isRunning = true → st.devName ∈ env.cfg.names) :
    (exec env panLoadSuffix st).status.isRunning = false := by
  simp only [panLoadSuffix, panCheckDeviceName, errRet, exec_seq, exec_call, exec_block, exec_note,
    exec_send]
  cases hr : st.status.isRunning with
  | false =>
    rw [sendStep_nr env _ _ st hr]
    exact exec_nr_status env _ _ (exec_nr_status env _ _ hr)
  | true =>
    have hs : st.status = .running := Status.isRunning_iff.mp hr
    have hmem := hn hr
    rw [sendStep_running env _ _ st hs]
    cases hd : env.dev st.trace panConf with
    | fault w => simp [faultStatus, exec, Pred.eval, penv]
    | text s => simp [exec, Pred.eval, penv, hs]
    | ha a b c => simp [exec, Pred.eval, penv, hs]
    | page l c => simp [exec, Pred.eval, penv, hs]
    | conf hname vs =>
      have := h _ rfl st.trace st.devName hmem
      simp only [panConf] at hd
      simp only [hostIs, hd] at this
      have hne : hname ≠ st.devName := by simpa using this
      simp [exec, Pred.eval, penv, hs, hne]

theorem panos_host_blocks (env : Env) (h : WrongHost .panos env.cfg.names env.dev) (gc : Prog) :
    (exec env gc (exec env (panLoadDevice env.cfg) {})).status.isRunning = false := by
  apply exec_nr_status
  simp only [panLoadDevice, errRet, exec]
  apply panLoadSuffix_blocks env h
  exact tryNames_devName env env.cfg.names _

/-! ## HA: a member that never claims to be active -/

theorem haOK_eq (r : Reply) : haOK r = haActive r := by
  cases r with
  | ha e m s =>
    simp only [haOK, haActive]
    by_cases he : e = "yes"
    · by_cases h1 : m = "Active-Passive"
      · subst he h1; simp
      · by_cases h2 : m = "Active-Active"
        · subst he h2; simp
        · simp [he, h1, h2]
    · simp [he]
  | _ => rfl

theorem panLoginBody_blocks (env : Env) (h : HaPassive env.dev) (n : String) (st : St) :
    (exec env (panLoginBody n) st).status.isRunning = false := by
  simp only [panLoginBody, errRet, exec_seq, exec_call, exec_block, exec_note]
  apply exec_nr_status
  -- state before checkHA
  generalize exec env panGetAPIKey st = x
  simp only [panCheckHA, errRet, exec_seq, exec_call, exec_block, exec_note, exec_send]
  cases hr : x.status.isRunning with
  | false =>
    rw [sendStep_nr env _ _ x hr]
    exact exec_nr_status env _ _ hr
  | true =>
    have hs : x.status = .running := Status.isRunning_iff.mp hr
    rw [sendStep_running env _ _ x hs]
    have hp := h x.trace
    rw [← haOK_eq] at hp
    simp only [panHaQuery] at hp
    simp only [panHa]
    cases hd : env.dev x.trace
        (.lit "type=op&cmd=<show><high-availability><state/></high-availability></show>") with
    | fault w => simp [faultStatus, exec, Pred.eval, penv, hs, haOK]
    | text s => simp [exec, Pred.eval, penv, hs, haOK]
    | conf a b => simp [exec, Pred.eval, penv, hs, haOK]
    | page l c => simp [exec, Pred.eval, penv, hs, haOK]
    | ha a b c =>
      rw [hd] at hp
      simp [exec, Pred.eval, penv, hs, hp]

theorem tryNames_blocks (env : Env) (body : String → Prog)
    (hb : ∀ n st, (exec env (body n) st).status.isRunning = false) (names : List String) :
    ∀ st, (exec env (tryNames body names) st).status.isRunning = false := by
  induction names with
  | nil =>
    intro st
    simp only [tryNames, exec, Pred.eval, Bool.and_true]
    cases hr : st.status.isRunning <;> simp [hr]
  | cons n ns ih =>
    intro st
    simp only [tryNames, exec, Pred.eval]
    split
    · split
      · exact ih _
      · exact hb n st
    · rename_i hr; simpa using hr

theorem panos_ha_blocks (env : Env) (h : HaPassive env.dev) (gc : Prog) :
    (exec env gc (exec env (panLoadDevice env.cfg) {})).status.isRunning = false := by
  apply exec_nr_status
  simp only [panLoadDevice, errRet, exec]
  apply exec_nr_status
  exact tryNames_blocks env panLoginBody (panLoginBody_blocks env h) _ _

/-! ## missing marker -/

def FromDev (dev : Dev) (s : String) : Prop := ∃ hist o, dev hist o = .text s

def BannerInv (env : Env) (st : St) : Prop :=
  (∀ s ∈ st.banner, FromDev env.dev s) ∧ (∀ s, st.reply = .text s → FromDev env.dev s)

theorem bannerInv_step (env : Env) : StepInv env (BannerInv env) where
  send := by
    intro st o fm h
    unfold sendStep
    split
    · dsimp only
      split
      · rename_i w hw
        refine ⟨h.1, ?_⟩
        intro s hs; simp only at hs; rw [hs] at hw; cases hw
      · refine ⟨h.1, ?_⟩
        intro s hs; exact ⟨st.trace, o, hs⟩
    · exact h
  collect := by
    intro st s h hs
    refine ⟨?_, h.2⟩
    intro x hx
    simp at hx
    cases hx with
    | inl hx => exact h.1 x hx
    | inr hx => rw [hx]; exact h.2 s hs
  setName := fun _ _ h => h
  status := fun _ _ h => h
  errU := fun _ _ h => h
  warn := fun _ _ h => h
  retry := fun _ _ h => h
  out := fun _ _ h => h
  lines := fun _ _ h => h
  cursor := fun _ _ h => h

theorem bannerInv_init (env : Env) : BannerInv env {} := by
  refine ⟨?_, ?_⟩
  · intro s hs; cases hs
  · intro s hs; cases hs

/-- ASA / IOS: after `LoginEnable` with a device that never shows the marker, `errUnmanaged`
is set: the regexp is searched in the concatenation of the collected outputs. -/
theorem ciscoCheckBanner_sets (env : Env) (r : Rx) (hb : env.cfg.banner = some r)
    (hm : MarkerNever env.dev r) (st : St) (hi : BannerInv env st)
    (hr : (exec env ciscoCheckBanner st).status.isRunning = true) :
    (exec env ciscoCheckBanner st).errU = [missingBanner] := by
  have hrun : st.status.isRunning = true := running_before env _ st hr
  have hfalse : r.search (String.join st.banner).toList = false := hm st.banner hi.1
  have hfalse' : r.search (List.flatMap String.toList st.banner) = false := by simpa using hfalse
  simp [ciscoCheckBanner, exec, hrun, hb, hfalse', Pred.eval, TExp.eval, penv]

theorem cisco_marker_shut (env : Env) (r : Rx) (hb : env.cfg.banner = some r)
    (hm : MarkerNever env.dev r) (post gc : Prog) (hpost : noRecord post = true)
    (hgc : noRecord gc = true) :
    let s := exec env gc (exec env (ciscoPreLogin ;; .call "LoginEnable" ciscoLoginEnable ;; post) {})
    s.status.isRunning = true → s.errU ≠ [] := by
  intro s hr
  have e : s = exec env gc (exec env post (exec env ciscoCheckBanner
      (exec env ciscoLoginPre (exec env ciscoPreLogin {})))) := by
    simp [s, ciscoLoginEnable, exec]
  rw [e] at hr ⊢
  have h3 := running_before env _ _ (running_before env _ _ hr)
  have hinv : BannerInv env (exec env ciscoLoginPre (exec env ciscoPreLogin {})) :=
    exec_inv env _ (bannerInv_step env) _ _ (exec_inv env _ (bannerInv_step env) _ _ (bannerInv_init env))
  rw [exec_errU env gc hgc, exec_errU env post hpost, ciscoCheckBanner_sets env r hb hm _ hinv h3]
  simp

theorem noRecord_asaPost : noRecord asaPostLogin = true := by decide
theorem noRecord_iosPost : noRecord iosPostLogin = true := by decide
theorem noRecord_ciscoGetChanges : noRecord ciscoGetChanges = true := by decide

/-! ### PAN-OS -/

/-- After the configuration request and its checks the reply still is what the device sent. -/
theorem panLoadSuffix_reply (env : Env) (st : St)
    (hr : (exec env panLoadSuffix st).status.isRunning = true) :
    ∃ hist h vs, env.dev hist panConfQuery = .conf h vs ∧ (exec env panLoadSuffix st).reply = .conf h vs := by
  have hrun : st.status.isRunning = true := running_before env _ st hr
  have hs : st.status = .running := Status.isRunning_iff.mp hrun
  simp only [panLoadSuffix, panCheckDeviceName, errRet, exec_seq, exec_call, exec_block, exec_note,
    exec_send] at hr ⊢
  rw [sendStep_running env _ _ st hs] at hr ⊢
  cases hd : env.dev st.trace panConf with
  | fault w => simp [hd, faultStatus, exec, Pred.eval, penv] at hr
  | text s => simp [hd, hs, exec, Pred.eval, penv] at hr
  | ha a b c => simp [hd, hs, exec, Pred.eval, penv] at hr
  | page l c => simp [hd, hs, exec, Pred.eval, penv] at hr
  | conf hname vs =>
    refine ⟨st.trace, hname, vs, hd, ?_⟩
    simp only [hd] at hr ⊢
    by_cases hc : hname = st.devName
    · simp [hc, exec, hs, Pred.eval, penv]
    · simp [hc, exec, hs, Pred.eval, penv] at hr

theorem panMarked_eq (dn : String) : panMarked dn = vsysMarked dn := rfl

theorem panUnmarked_ne (cfg : Cfg) (vs : List (String × String))
    (h : ∃ v ∈ vs, v.1 ∈ cfg.targetVsys ∧ vsysMarked v.2 = false) : panUnmarked cfg vs ≠ [] := by
  obtain ⟨v, hv, ht, hm⟩ := h
  unfold panUnmarked
  intro he
  have : v ∈ vs.filter (fun v => cfg.targetVsys.contains v.1 && !panMarked v.2) := by
    simp [List.mem_filter, hv, ht, panMarked_eq, hm]
  have hne : vs.filter (fun v => cfg.targetVsys.contains v.1 && !panMarked v.2) ≠ [] := by
    intro h0; rw [h0] at this; cases this
  simp at he
  exact hne (by simpa using he)

theorem panos_marker_shut (env : Env) (h : PanNoMarker env.cfg env.dev) :
    let s := exec env panGetChanges (exec env (panLoadDevice env.cfg) {})
    s.status.isRunning = true → s.errU ≠ [] := by
  intro s hr
  have e : s = exec env panGetChanges (exec env panLoadSuffix
      (exec env (tryNames panLoginBody env.cfg.names) {})) := by
    simp [s, panLoadDevice, errRet, exec]
  rw [e] at hr ⊢
  generalize exec env (tryNames panLoginBody env.cfg.names) {} = x at hr ⊢
  have h1 : (exec env panLoadSuffix x).status.isRunning = true := running_before env _ _ hr
  obtain ⟨hist, hn, vs, hdev, hrep⟩ := panLoadSuffix_reply env x h1
  have hne := panUnmarked_ne env.cfg vs (h hist hn vs hdev)
  generalize exec env panLoadSuffix x = y at hr h1 hrep ⊢
  have hne' : (panUnmarked env.cfg vs).isEmpty = false := by
    cases hl : panUnmarked env.cfg vs with
    | nil => exact absurd hl hne
    | cons a l => rfl
  simp only [panGetChanges, panProcessVsysPairs, panCheckUnmanaged, exec_seq, exec_call, exec_note,
    exec_defn] at hr ⊢
  -- the record step appends a non-empty list; the check after it does not touch errU
  have hrec : ∀ l t : String, (exec env (Prog.record
      (.opaque l fun cfg r _ => !(panUnmarkedOf cfg r).isEmpty) t
      .append panUnmarkedOf) y).errU = y.errU ++ panUnmarked env.cfg vs := by
    intro l t
    simp [exec, h1, Pred.eval, penv, hrep, panUnmarkedOf, hne']
  intro hnil
  rw [exec_errU env _ (by rfl)] at hnil
  rw [hrec] at hnil
  have : panUnmarked env.cfg vs = [] := (List.append_eq_nil_iff.mp hnil).2
  exact hne this

end NA.Gate
