import NA.Proofs.F1K2
/-!
# F1: a comparison of a device that already carries the target prints nothing (class ISO)

The class is static (it does not evaluate the engine): the compared access-group commands sit at the same
places; the bound access lists are paired one to one, their passed scripts are one "equal" range over all
lines; the object-groups referenced at the same positions are paired one to one, their passed scripts keep
every member; the routes are the same; no generated (`-DRC-`) object is unused.
-/
namespace NA.F1
open NA.AsaDev
open NA.Acl (Range)

theorem bij_iff {R : List (Name × Name)} (h : bij R = true) {p q : Name × Name} (hp : p ∈ R) (hq : q ∈ R) :
    p.1 = q.1 ↔ p.2 = q.2 := by
  have h1 := List.all_eq_true.mp (List.all_eq_true.mp h p hp) q hq
  by_cases e1 : p.1 = q.1 <;> by_cases e2 : p.2 = q.2 <;> simp_all

theorem editMembers_pureEq (st : St) (aN : Name) (la lb : List String) : ∀ (rs : List Range), pureEq rs = true →
    editMembers st aN la lb rs = st := by
  intro rs
  induction rs with
  | nil => intro _; rfl
  | cons r rs ih =>
    intro h
    simp only [pureEq, List.all_cons, Bool.and_eq_true, Bool.not_eq_true'] at h
    obtain ⟨⟨⟨_, h2⟩, h3⟩, h4⟩ := h
    unfold editMembers
    simp only [h2, h3, Bool.false_eq_true, if_false]
    exact ih h4

theorem scriptStat_pureEq : ∀ (rs : List Range), pureEq rs = true → scriptStat rs = (0, 0) := by
  intro rs
  induction rs with
  | nil => intro _; rfl
  | cons r rs ih =>
    intro h
    simp only [pureEq, List.all_cons, Bool.and_eq_true, Bool.not_eq_true'] at h
    obtain ⟨⟨⟨_, h2⟩, h3⟩, h4⟩ := h
    unfold scriptStat
    rw [ih h4]
    simp [h2, h3]

theorem isIdentity_pureEq (rs : List Range) (h : pureEq rs = true) : isIdentity rs = true := by
  unfold isIdentity
  apply List.all_eq_true.mpr
  intro r hr
  have := List.all_eq_true.mp h r hr
  simp only [Bool.and_eq_true] at this
  exact this.1.1

/-- The invariant of a run that prints nothing: nothing printed, no sub-mode open, no `toDelete` mark, and the
marks of the paired groups move together. -/
structure QuietG (RG : List (Name × Name)) (st : St) : Prop where
  out : st.out = []
  mode : st.mode = ""
  gToDel : st.gToDel = []
  grp : ∀ p ∈ RG, (p.1 ∈ st.gNeeded ↔ p.2 ∈ st.gReady) ∧ (p.2 ∈ st.gReady → st.gNameOf p.2 = p.1)

theorem QuietG.hit {RG : List (Name × Name)} {st : St} (h : QuietG RG st) (x : String) : QuietG RG (st.hit x) :=
  ⟨h.out, h.mode, h.gToDel, h.grp⟩

/-- `equalizedGroups` for a pair of the relation: succeeds and prints nothing. -/
theorem equalizedGroups_quiet (e : Env) (RG : List (Name × Name)) (hb : bij RG = true) (st : St) (hq : QuietG RG st)
    (aG bG : Name) (hp : (aG, bG) ∈ RG) (hs : pureEq (lookupD e.sc.grp (aG, bG)) = true) :
    (equalizedGroups e st aG bG).2 = true ∧ QuietG RG (equalizedGroups e st aG bG).1 ∧
    aG ∈ (equalizedGroups e st aG bG).1.gNeeded ∧ (∀ x ∈ st.gNeeded, x ∈ (equalizedGroups e st aG bG).1.gNeeded) := by
  obtain ⟨g1, g2⟩ := hq.grp (aG, bG) hp
  simp only at g1 g2
  unfold equalizedGroups
  by_cases hn : st.gNeeded.contains aG = true
  · have hn' : aG ∈ st.gNeeded := by simpa using hn
    have hr : bG ∈ st.gReady := g1.mp hn'
    have hr' : st.gReady.contains bG = true := by simpa using hr
    rw [if_pos hn, if_pos hr']
    refine ⟨by simp [g2 hr], hq.hit _, hn', fun x hx => hx⟩
  · rw [if_neg hn]
    have hn' : aG ∉ st.gNeeded := by simpa using hn
    have hr : bG ∉ st.gReady := fun h => hn' (g1.mpr h)
    simp only [isIdentity_pureEq _ hs, if_true, Bool.not_true, Bool.false_and, Bool.false_eq_true, if_false,
      scriptStat_pureEq _ hs, Nat.add_zero, Nat.not_lt_zero, gt_iff_lt, editMembers_pureEq _ _ _ _ _ hs]
    refine ⟨trivial, ⟨hq.out, hq.mode, hq.gToDel, ?_⟩, mem_addSet.mpr (Or.inl rfl), fun x hx => mem_addSet.mpr (Or.inr hx)⟩
    intro q hqR
    obtain ⟨q1, q2⟩ := hq.grp q hqR
    have hbi := bij_iff hb hqR hp
    simp only at hbi
    show (q.1 ∈ addSet aG st.gNeeded ↔ q.2 ∈ addSet bG st.gReady) ∧
      (q.2 ∈ addSet bG st.gReady → (((bG, aG) :: st.gName).lookup q.2).getD q.2 = q.1)
    rw [mem_addSet, mem_addSet]
    by_cases e1 : q.1 = aG
    · have e2 : q.2 = bG := hbi.mp e1
      refine ⟨⟨fun _ => Or.inl e2, fun _ => Or.inl e1⟩, fun _ => ?_⟩
      rw [e2, e1]; simp [List.lookup]
    · have e2 : q.2 ≠ bG := fun h => e1 (hbi.mpr h)
      refine ⟨⟨?_, ?_⟩, ?_⟩
      · rintro (h | h)
        · exact absurd h e1
        · exact Or.inr (q1.mp h)
      · rintro (h | h)
        · exact absurd h e2
        · exact Or.inr (q1.mpr h)
      · rintro (h | h)
        · exact absurd h e2
        · have hbq : (q.2 == bG) = false := by simpa using e2
          simp only [List.lookup, hbq]
          exact q2 h

/-- `equalizeACLs` for one kept pair of lines whose references are pairs of the relation. -/
theorem equalizePair_quiet (e : Env) (RG : List (Name × Name)) (hb : bij RG = true)
    (hs : ∀ p ∈ RG, pureEq (lookupD e.sc.grp p) = true) (st : St) (hq : QuietG RG st) (a b : Line)
    (hp : ∀ p ∈ a.refs.zip b.refs, p ∈ RG) :
    (equalizePair e st a b).2 = true ∧ QuietG RG (equalizePair e st a b).1 ∧
    (∀ p ∈ a.refs.zip b.refs, p.1 ∈ (equalizePair e st a b).1.gNeeded) ∧
    (∀ x ∈ st.gNeeded, x ∈ (equalizePair e st a b).1.gNeeded) := by
  unfold equalizePair
  have key : ∀ (l : List (Name × Name)) (s : St × Bool), (∀ p ∈ l, p ∈ RG) → s.2 = true → QuietG RG s.1 →
      (l.foldl (fun (s : St × Bool) p =>
        let (st', ok) := equalizedGroups e s.1 p.1 p.2
        (st', s.2 && ok)) s).2 = true ∧
      QuietG RG (l.foldl (fun (s : St × Bool) p =>
        let (st', ok) := equalizedGroups e s.1 p.1 p.2
        (st', s.2 && ok)) s).1 ∧
      (∀ p ∈ l, p.1 ∈ (l.foldl (fun (s : St × Bool) p =>
        let (st', ok) := equalizedGroups e s.1 p.1 p.2
        (st', s.2 && ok)) s).1.gNeeded) ∧
      (∀ x ∈ s.1.gNeeded, x ∈ (l.foldl (fun (s : St × Bool) p =>
        let (st', ok) := equalizedGroups e s.1 p.1 p.2
        (st', s.2 && ok)) s).1.gNeeded) := by
    intro l
    induction l with
    | nil => intro s _ h2 h3; exact ⟨h2, h3, fun p hp => by simp at hp, fun x hx => hx⟩
    | cons p ps ih =>
      intro s hl h2 h3
      simp only [List.foldl_cons]
      have hpR : (p.1, p.2) ∈ RG := hl p List.mem_cons_self
      obtain ⟨r1, r2, r3, r4⟩ := equalizedGroups_quiet e RG hb s.1 h3 p.1 p.2 hpR (hs _ hpR)
      generalize equalizedGroups e s.1 p.1 p.2 = q at r1 r2 r3 r4
      obtain ⟨st', ok⟩ := q
      simp only at r1 r2 r3 r4 ⊢
      obtain ⟨i1, i2, i3, i4⟩ := ih (st', s.2 && ok) (fun x hx => hl x (List.mem_cons_of_mem _ hx)) (by simp [h2, r1]) r2
      refine ⟨i1, i2, ?_, fun x hx => i4 x (r4 x hx)⟩
      intro x hx
      rcases List.mem_cons.mp hx with e1 | e1
      · rw [e1]; exact i4 _ r3
      · exact i3 x e1
  exact key _ (st, true) hp rfl hq

/-- The loop over a kept range: only `keep` cells, nothing printed. -/
theorem equalizeRange_quiet (e : Env) (RG : List (Name × Name)) (hb : bij RG = true)
    (hs : ∀ p ∈ RG, pureEq (lookupD e.sc.grp p) = true) (al bl : List Line) (lowA lowB : Nat) :
    ∀ (n : Nat) (st : St) (acc : List MCell), QuietG RG st → (∀ c ∈ acc, cellKeep c = true) →
    (∀ k, k < n → ∀ p ∈ (al.getD (lowA + k) default).refs.zip (bl.getD (lowB + k) default).refs, p ∈ RG) →
    QuietG RG (equalizeRange e al bl lowA lowB n st acc).1 ∧
    (∀ c ∈ (equalizeRange e al bl lowA lowB n st acc).2, cellKeep c = true) ∧
    (∀ k, k < n → ∀ p ∈ (al.getD (lowA + k) default).refs.zip (bl.getD (lowB + k) default).refs,
      p.1 ∈ (equalizeRange e al bl lowA lowB n st acc).1.gNeeded) ∧
    (∀ x ∈ st.gNeeded, x ∈ (equalizeRange e al bl lowA lowB n st acc).1.gNeeded) := by
  intro n
  induction n with
  | zero => intro st acc h1 h2 _; exact ⟨h1, h2, fun k hk => absurd hk (Nat.not_lt_zero k), fun x hx => hx⟩
  | succ n ih =>
    intro st acc h1 h2 h3
    obtain ⟨i1, i2, i3, i4⟩ := ih st acc h1 h2 (fun k hk => h3 k (Nat.lt_succ_of_lt hk))
    unfold equalizeRange
    generalize equalizeRange e al bl lowA lowB n st acc = r at i1 i2 i3 i4
    obtain ⟨st1, acc1⟩ := r
    simp only at i1 i2 i3 i4 ⊢
    obtain ⟨p1, p2, p3, p4⟩ := equalizePair_quiet e RG hb hs st1 i1 (al.getD (lowA + n) default) (bl.getD (lowB + n) default)
      (h3 n (Nat.lt_succ_self n))
    generalize equalizePair e st1 (al.getD (lowA + n) default) (bl.getD (lowB + n) default) = q at p1 p2 p3 p4
    obtain ⟨st2, ok⟩ := q
    simp only at p1 p2 p3 p4
    subst p1
    simp only [if_true]
    refine ⟨p2, ?_, ?_, fun x hx => p4 x (i4 x hx)⟩
    · intro c hc
      rcases List.mem_append.mp hc with h | h
      · exact i2 c h
      · have : c = MCell.keep (lowA + n) (lowB + n) := by simpa using h
        rw [this]; rfl
    · intro k hk p hp
      rcases Nat.lt_succ_iff_lt_or_eq.mp hk with h | h
      · exact p4 _ (i3 k h p hp)
      · subst h; exact p3 p hp

theorem planASA_allKeep (cells : List MCell) (mkeys : List String) (h : ∀ c ∈ cells, cellKeep c = true) :
    NA.Acl.planASA (encodeCells cells mkeys) = [] := by
  have hcell : ∀ i, i < cells.length → ((encodeCells cells mkeys).getD i default).old = true ∧
      ((encodeCells cells mkeys).getD i default).new = true := by
    intro i hi
    have hlen : (encodeCells cells mkeys).length = cells.length := by simp [encodeCells]
    have hc := h (cells.getD i default) (by
      rw [List.getD_eq_getElem?_getD, List.getElem?_eq_getElem hi]; exact List.getElem_mem hi)
    have : (encodeCells cells mkeys).getD i default = (encodeCells cells mkeys)[i]'(by rw [hlen]; exact hi) := by
      rw [List.getD_eq_getElem?_getD, List.getElem?_eq_getElem (by rw [hlen]; exact hi)]; rfl
    rw [this]
    simp only [encodeCells, List.getElem_map, List.getElem_range]
    cases hcc : cells.getD i default with
    | keep a b => exact ⟨rfl, rfl⟩
    | ins b => rw [hcc] at hc; simp [cellKeep] at hc
    | del a => rw [hcc] at hc; simp [cellKeep] at hc
  have hlen : (encodeCells cells mkeys).length = cells.length := by simp [encodeCells]
  have ha : NA.Acl.addIdx (encodeCells cells mkeys) = [] := by
    unfold NA.Acl.addIdx
    apply List.filter_eq_nil_iff.mpr
    intro i hi
    have := hcell i (by rw [← hlen]; exact List.mem_range.mp hi)
    rw [this.1, this.2]; decide
  have hd : NA.Acl.delIdx (encodeCells cells mkeys) = [] := by
    unfold NA.Acl.delIdx
    apply List.filter_eq_nil_iff.mpr
    intro i hi
    have := hcell i (by rw [← hlen]; exact List.mem_range.mp hi)
    rw [this.1, this.2]; decide
  unfold NA.Acl.planASA
  simp only [ha, hd, List.reverse_nil, List.foldl_nil]

/-- `diffASAACLs` with the script "all lines equal": nothing printed, every referenced group `needed`. -/
theorem diffASAACLs_quiet (e : Env) (RG : List (Name × Name)) (hb : bij RG = true)
    (hs : ∀ p ∈ RG, pureEq (lookupD e.sc.grp p) = true) (st : St) (hq : QuietG RG st) (aN bN : Name) (n : Nat)
    (hn : 0 < n)
    (hp : ∀ k, k < n → ∀ p ∈ ((e.aLines aN).getD k default).refs.zip ((e.bLines bN).getD k default).refs, p ∈ RG) :
    QuietG RG (diffASAACLs e st aN bN [⟨0, n, 0, n⟩]) ∧
    (∀ k, k < n → ∀ p ∈ ((e.aLines aN).getD k default).refs.zip ((e.bLines bN).getD k default).refs,
      p.1 ∈ (diffASAACLs e st aN bN [⟨0, n, 0, n⟩]).gNeeded) ∧
    (∀ x ∈ st.gNeeded, x ∈ (diffASAACLs e st aN bN [⟨0, n, 0, n⟩]).gNeeded) := by
  have hne : n ≠ 0 := Nat.pos_iff_ne_zero.mp hn
  have r1 : (⟨0, n, 0, n⟩ : Range).isInsert = false := by simp [Range.isInsert]; exact fun h => hne h.symm
  have r2 : (⟨0, n, 0, n⟩ : Range).isDelete = false := by simp [Range.isDelete]; exact fun h => hne h.symm
  have r3 : (⟨0, n, 0, n⟩ : Range).isEqual = true := by simp [Range.isEqual]
  have hearly : earlyFind e (e.bLines bN) [⟨0, n, 0, n⟩] st = st := by
    simp [earlyFind, r1]
  obtain ⟨i1, i2, i3, i4⟩ := equalizeRange_quiet e RG hb hs (e.aLines aN) (e.bLines bN) 0 0 n st [] hq
    (fun c hc => by simp at hc) (fun k hk => by simpa using hp k hk)
  unfold diffASAACLs
  simp only [hearly]
  unfold cellsPhase
  simp only [r1, r2, r3, Bool.false_eq_true, if_false, if_true, Nat.sub_zero]
  generalize equalizeRange e (e.aLines aN) (e.bLines bN) 0 0 n st [] = r at i1 i2 i3 i4
  obtain ⟨st1, cells⟩ := r
  simp only at i1 i2 i3 i4
  simp only [cellsPhase]
  rw [planASA_allKeep cells _ i2]
  simp only [List.foldl_nil]
  exact ⟨i1, fun k hk p hp' => i3 k hk p (by simpa using hp'), i4⟩

/-! ## Access lists and access-group commands -/

structure Quiet (e : Env) (RA RG : List (Name × Name)) (st : St) : Prop where
  g : QuietG RG st
  aToDel : st.aToDel = []
  acl : ∀ p ∈ RA, (p.1 ∈ st.aNeeded ↔ p.2 ∈ st.aReady) ∧ (p.2 ∈ st.aReady → st.aNameOf p.2 = p.1)
  refsNeeded : ∀ p ∈ RA, p.1 ∈ st.aNeeded → ∀ l ∈ e.aLines p.1, ∀ x ∈ l.refs, x ∈ st.gNeeded

theorem mem_RGof {e : Env} {RA : List (Name × Name)} {p : Name × Name} (hp : p ∈ RA) {l : Line × Line}
    (hl : l ∈ (e.aLines p.1).zip (e.bLines p.2)) {q : Name × Name} (hq : q ∈ l.1.refs.zip l.2.refs) : q ∈ RGof e RA :=
  List.mem_flatMap.mpr ⟨p, hp, List.mem_flatMap.mpr ⟨l, hl, hq⟩⟩

theorem fst_mem_zip_of_mem {α β : Type} : ∀ (l1 : List α) (l2 : List β) (x : α), l1.length = l2.length → x ∈ l1 →
    ∃ y, (x, y) ∈ l1.zip l2 := by
  intro l1
  induction l1 with
  | nil => intro l2 x _ h; simp at h
  | cons a as ih =>
    intro l2 x hlen hx
    cases l2 with
    | nil => simp at hlen
    | cons b bs =>
      rcases List.mem_cons.mp hx with e1 | e1
      · exact ⟨b, by rw [e1]; simp⟩
      · obtain ⟨y, hy⟩ := ih bs x (by simpa using hlen) e1
        exact ⟨y, by simp [hy]⟩

/-- `diffCmds` for a pair of bound access lists of the relation: nothing printed, the device list stays. -/
theorem diffAcl_quiet (e : Env) (RA : List (Name × Name)) (hbA : bij RA = true) (hbG : bij (RGof e RA) = true)
    (hs : ∀ p ∈ RGof e RA, pureEq (lookupD e.sc.grp p) = true) (st : St) (hq : Quiet e RA (RGof e RA) st)
    (aN bN : Name) (hp : (aN, bN) ∈ RA) (hiso : aclIso e aN bN = true) :
    Quiet e RA (RGof e RA) (diffAcl e st aN bN).1 ∧ (diffAcl e st aN bN).2 = aN ∧
    aN ∈ (diffAcl e st aN bN).1.aNeeded ∧
    (∀ x ∈ st.aNeeded, x ∈ (diffAcl e st aN bN).1.aNeeded) ∧ (∀ x ∈ st.gNeeded, x ∈ (diffAcl e st aN bN).1.gNeeded) ∧
    (diffAcl e st aN bN).1.bNeeded = st.bNeeded := by
  obtain ⟨a1, a2⟩ := hq.acl (aN, bN) hp
  simp only at a1 a2
  unfold diffAcl
  by_cases hn : st.aNeeded.contains aN = true
  · have hn' : aN ∈ st.aNeeded := by simpa using hn
    have hr : bN ∈ st.aReady := a1.mp hn'
    have hr' : (st.hit "acl:device-acl-needed").aReady.contains bN = true := by
      show st.aReady.contains bN = true
      simpa using hr
    rw [if_pos hn]
    have ht : transferAcl e (st.hit "acl:device-acl-needed") bN = st.hit "acl:device-acl-needed" := by
      unfold transferAcl; rw [if_pos hr']
    simp only [ht]
    exact ⟨⟨hq.g.hit _, hq.aToDel, hq.acl, hq.refsNeeded⟩, a2 hr, hn', fun x hx => hx, fun x hx => hx, rfl⟩
  · rw [if_neg hn]
    have hn' : aN ∉ st.aNeeded := by simpa using hn
    have hr : bN ∉ st.aReady := fun h => hn' (a1.mpr h)
    have hr' : ¬ st.aReady.contains bN = true := by simpa using hr
    rw [if_neg hr']
    unfold aclIso at hiso
    simp only [Bool.and_eq_true, decide_eq_true_eq] at hiso
    obtain ⟨⟨⟨i1, i2⟩, i3⟩, i4⟩ := hiso
    generalize hnn : (e.aLines aN).length = n at i1 i2 i3
    simp only [i3]
    have hany : ([⟨0, n, 0, n⟩] : List Range).any (·.isEqual) = true := by simp [Range.isEqual]
    simp only [hany, Bool.not_true, Bool.false_eq_true, if_false]
    generalize hst2 : (({ st with aName := (bN, aN) :: st.aName }.hit "acl:incremental").hit
      (planCheck e st aN bN [⟨0, n, 0, n⟩]) : St) = st2
    have hq2 : QuietG (RGof e RA) st2 := by rw [← hst2]; exact ⟨hq.g.out, hq.g.mode, hq.g.gToDel, hq.g.grp⟩
    have hzip : ∀ k, k < n → ((e.aLines aN).getD k default, (e.bLines bN).getD k default) ∈ (e.aLines aN).zip (e.bLines bN) := by
      intro k hk
      have h1 : k < (e.aLines aN).length := by rw [hnn]; exact hk
      have h2 : k < (e.bLines bN).length := by rw [i2]; exact hk
      rw [List.getD_eq_getElem?_getD, List.getD_eq_getElem?_getD, List.getElem?_eq_getElem h1, List.getElem?_eq_getElem h2]
      exact mem_zip_of_getElem _ _ k h1 h2
    obtain ⟨d1, d2, d3⟩ := diffASAACLs_quiet e (RGof e RA) hbG hs st2 hq2 aN bN n i1
      (fun k hk p hpz => mem_RGof hp (hzip k hk) hpz)
    have hfr := diffASAACLs_aclMarks e st2 aN bN [⟨0, n, 0, n⟩]
    generalize diffASAACLs e st2 aN bN [⟨0, n, 0, n⟩] = st3 at d1 d2 d3 hfr
    have h2N : st2.aNeeded = st.aNeeded := by rw [← hst2]; rfl
    have h2R : st2.aReady = st.aReady := by rw [← hst2]; rfl
    have h2D : st2.aToDel = st.aToDel := by rw [← hst2]; rfl
    have h2G : st2.gNeeded = st.gNeeded := by rw [← hst2]; rfl
    have h2B : st2.bNeeded = st.bNeeded := by rw [← hst2]; rfl
    have h2A : st2.aName = (bN, aN) :: st.aName := by rw [← hst2]; rfl
    have hmono : ∀ x ∈ st.gNeeded, x ∈ st3.gNeeded := fun x hx => d3 x (by rw [h2G]; exact hx)
    refine ⟨⟨⟨d1.out, d1.mode, d1.gToDel, d1.grp⟩, by rw [hfr.aToDel, h2D]; exact hq.aToDel, ?_, ?_⟩, trivial,
      mem_addSet.mpr (Or.inl rfl), fun x hx => mem_addSet.mpr (Or.inr (by rw [hfr.aNeeded, h2N]; exact hx)), hmono,
      by rw [hfr.bNeeded, h2B]⟩
    · intro q hqR
      obtain ⟨q1, q2⟩ := hq.acl q hqR
      have hbi := bij_iff hbA hqR hp
      simp only at hbi
      show (q.1 ∈ addSet aN st3.aNeeded ↔ q.2 ∈ addSet bN st3.aReady) ∧
        (q.2 ∈ addSet bN st3.aReady → (st3.aName.lookup q.2).getD q.2 = q.1)
      rw [mem_addSet, mem_addSet, hfr.aNeeded, hfr.aReady, hfr.aName, h2N, h2R, h2A]
      by_cases e1 : q.1 = aN
      · have e2 : q.2 = bN := hbi.mp e1
        refine ⟨⟨fun _ => Or.inl e2, fun _ => Or.inl e1⟩, fun _ => ?_⟩
        rw [e2, e1]; simp [List.lookup]
      · have e2 : q.2 ≠ bN := fun h => e1 (hbi.mpr h)
        refine ⟨⟨?_, ?_⟩, ?_⟩
        · rintro (h | h)
          · exact absurd h e1
          · exact Or.inr (q1.mp h)
        · rintro (h | h)
          · exact absurd h e2
          · exact Or.inr (q1.mpr h)
        · rintro (h | h)
          · exact absurd h e2
          · have hbq : (q.2 == bN) = false := by simpa using e2
            simp only [List.lookup, hbq]
            exact q2 h
    · intro q hqR hqn l hl x hx
      have hqn' : q.1 ∈ addSet aN st3.aNeeded := hqn
      rw [mem_addSet, hfr.aNeeded, h2N] at hqn'
      rcases hqn' with e1 | e1
      · -- the access list just handled: every line is a kept line
        rw [e1] at hl
        obtain ⟨k, hk, hlk⟩ := List.getElem_of_mem hl
        have hkn : k < n := by rw [← hnn]; exact hk
        have hk2 : k < (e.bLines bN).length := by rw [i2]; exact hkn
        have hlen := List.all_eq_true.mp i4 _ (mem_zip_of_getElem _ _ k hk hk2)
        simp only [beq_iff_eq] at hlen
        rw [hlk] at hlen
        obtain ⟨y, hy⟩ := fst_mem_zip_of_mem l.refs ((e.bLines bN)[k]).refs x hlen hx
        have := d2 k hkn (x, y) (by
          rw [List.getD_eq_getElem?_getD, List.getD_eq_getElem?_getD, List.getElem?_eq_getElem hk,
            List.getElem?_eq_getElem hk2]
          simp only [Option.getD_some]
          rw [hlk]; exact hy)
        exact this
      · exact hmono x (hq.refsNeeded q hqR e1 l hl x hx)

/-- `makeEqual` for a pair of access-group commands of the relation. -/
theorem makeEqualBind_quiet (e : Env) (RA : List (Name × Name)) (hbA : bij RA = true) (hbG : bij (RGof e RA) = true)
    (hs : ∀ p ∈ RGof e RA, pureEq (lookupD e.sc.grp p) = true) (st : St) (hq : Quiet e RA (RGof e RA) st)
    (i : Nat) (b : Bind) (hp : (aclOfI e i, b.acl) ∈ RA) (hiso : aclIso e (aclOfI e i) b.acl = true) :
    Quiet e RA (RGof e RA) (makeEqualBind e st i b) ∧ i ∈ (makeEqualBind e st i b).bNeeded ∧
    aclOfI e i ∈ (makeEqualBind e st i b).aNeeded ∧
    (∀ x ∈ st.aNeeded, x ∈ (makeEqualBind e st i b).aNeeded) ∧ (∀ x ∈ st.gNeeded, x ∈ (makeEqualBind e st i b).gNeeded) ∧
    (∀ x ∈ st.bNeeded, x ∈ (makeEqualBind e st i b).bNeeded) := by
  generalize hst1 : ({ st with bNeeded := makeEqualBind.addSet' i st.bNeeded } : St) = st1
  have hq1 : Quiet e RA (RGof e RA) st1 := by
    rw [← hst1]; exact ⟨⟨hq.g.out, hq.g.mode, hq.g.gToDel, hq.g.grp⟩, hq.aToDel, hq.acl, hq.refsNeeded⟩
  obtain ⟨d1, d2, d3, d4, d5, d6⟩ := diffAcl_quiet e RA hbA hbG hs st1 hq1 (aclOfI e i) b.acl hp hiso
  have hb1 : ∀ x, x ∈ st1.bNeeded ↔ x = i ∨ x ∈ st.bNeeded := by
    intro x; rw [← hst1]
    show x ∈ makeEqualBind.addSet' i st.bNeeded ↔ _
    unfold makeEqualBind.addSet'
    split
    · rename_i hx
      have : i ∈ st.bNeeded := by simpa using hx
      constructor
      · exact Or.inr
      · rintro (h1 | h1)
        · rw [h1]; exact this
        · exact h1
    · exact List.mem_cons
  unfold makeEqualBind
  simp only []
  rw [hst1]
  unfold aclOfI at d1 d2 d3 d4 d5 d6
  generalize diffAcl e st1 (e.a.binds.getD i default).acl b.acl = q at d1 d2 d3 d4 d5 d6
  obtain ⟨st2, refName⟩ := q
  simp only at d1 d2 d3 d4 d5 d6 ⊢
  have : (refName != (e.a.binds.getD i default).acl) = false := by rw [d2]; simp
  simp only [this, Bool.false_eq_true, if_false]
  refine ⟨d1, by rw [d6]; exact (hb1 i).mpr (Or.inl rfl), d3, fun x hx => d4 x (by rw [← hst1]; exact hx),
    fun x hx => d5 x (by rw [← hst1]; exact hx), fun x hx => by rw [d6]; exact (hb1 x).mpr (Or.inr hx)⟩

/-- All compared pairs. -/
theorem pairsFold_quiet (e : Env) (RA : List (Name × Name)) (hbA : bij RA = true) (hbG : bij (RGof e RA) = true)
    (hs : ∀ p ∈ RGof e RA, pureEq (lookupD e.sc.grp p) = true) :
    ∀ (ps : List (Nat × Bind)) (st : St), Quiet e RA (RGof e RA) st →
    (∀ p ∈ ps, (aclOfI e p.1, p.2.acl) ∈ RA ∧ aclIso e (aclOfI e p.1) p.2.acl = true) →
    Quiet e RA (RGof e RA) (ps.foldl (fun st p => makeEqualBind e st p.1 p.2) st) ∧
    (∀ p ∈ ps, p.1 ∈ (ps.foldl (fun st p => makeEqualBind e st p.1 p.2) st).bNeeded ∧
      aclOfI e p.1 ∈ (ps.foldl (fun st p => makeEqualBind e st p.1 p.2) st).aNeeded) ∧
    (∀ x ∈ st.aNeeded, x ∈ (ps.foldl (fun st p => makeEqualBind e st p.1 p.2) st).aNeeded) ∧
    (∀ x ∈ st.gNeeded, x ∈ (ps.foldl (fun st p => makeEqualBind e st p.1 p.2) st).gNeeded) ∧
    (∀ x ∈ st.bNeeded, x ∈ (ps.foldl (fun st p => makeEqualBind e st p.1 p.2) st).bNeeded) := by
  intro ps
  induction ps with
  | nil => intro st hq _; exact ⟨hq, fun p hp => by simp at hp, fun x hx => hx, fun x hx => hx, fun x hx => hx⟩
  | cons p ps ih =>
    intro st hq hps
    obtain ⟨h1, h2⟩ := hps p List.mem_cons_self
    obtain ⟨m1, m2, m3, m4, m5, m6⟩ := makeEqualBind_quiet e RA hbA hbG hs st hq p.1 p.2 h1 h2
    obtain ⟨i1, i2, i3, i4, i5⟩ := ih (makeEqualBind e st p.1 p.2) m1 (fun q hq' => hps q (List.mem_cons_of_mem _ hq'))
    rw [List.foldl_cons]
    refine ⟨i1, ?_, fun x hx => i3 x (m4 x hx), fun x hx => i4 x (m5 x hx), fun x hx => i5 x (m6 x hx)⟩
    intro q hq'
    rcases List.mem_cons.mp hq' with e1 | e1
    · rw [e1]; exact ⟨i5 _ m2, i3 _ m3⟩
    · exact i2 q e1

/-! ## Routes and `deleteUnused` -/

theorem diffRoutes_frame' (st : St) (al bl : List Route) :
    RouteFrame st (diffRoutes st al bl) (routePlan bl (routeDelsOf al bl) (routeInssOf al bl)) := by
  have hframe := diffRoutes_frame st al bl
  have hplan : (if al.isEmpty then bl.map (fun r => Chg.route r.text)
       else routePlan bl (routeDels al (diffUnordered (al.map (·.text)) (bl.map (·.text))))
              (routeInss bl (diffUnordered (al.map (·.text)) (bl.map (·.text))))) =
      routePlan bl (routeDelsOf al bl) (routeInssOf al bl) := by
    unfold routeDelsOf routeInssOf
    split
    · rw [routePlan_nodels]
    · rfl
  rw [hplan] at hframe
  exact hframe

theorem diffRoutes_quiet (st : St) (al bl : List Route) (h : routesSame al bl = true) :
    RouteFrame st (diffRoutes st al bl) [] := by
  unfold routesSame at h
  by_cases hbl : bl.isEmpty = true
  · have hb : bl = [] := by simpa using hbl
    subst hb
    have := diffRoutes_frame' st al []
    have hi : routeInssOf al [] = [] := by
      unfold routeInssOf
      split
      · rfl
      · apply List.flatMap_eq_nil_iff.mpr
        intro r _
        split
        · simp [slice]
        · rfl
    rw [hi] at this
    have hp : routePlan [] (routeDelsOf al []) [] = [] := by simp [routePlan, routeAdds]
    rw [hp] at this
    exact this
  simp only [hbl, Bool.false_or, Bool.and_eq_true, decide_eq_true_eq] at h
  obtain ⟨⟨⟨h0, h1⟩, h2⟩, h3⟩ := h
  have hd : routeDelsOf al bl = [] := by
    have h4 : (routeDelsOf al bl).map (·.2) = [] := by
      rw [h0]
      apply List.filter_eq_nil_iff.mpr
      intro a ha
      have := List.all_eq_true.mp h2 a ha
      rw [this]; decide
    simpa using h4
  have hi : routeInssOf al bl = [] := by
    rw [h1]
    apply List.filter_eq_nil_iff.mpr
    intro r hr
    have := List.all_eq_true.mp h3 r hr
    rw [this]; decide
  have := diffRoutes_frame' st al bl
  rw [hd, hi] at this
  have hp : routePlan bl [] [] = [] := by simp [routePlan, routeAdds]
  rw [hp] at this
  exact this

theorem duPending_none (e : Env) (st : St) (managed : List Nat) (hb : ∀ i ∈ managed, i ∈ st.bNeeded)
    (ha : st.aToDel = []) (hg : st.gToDel = [])
    (hA : ∀ n ∈ A0 e, isTagged n = true → n ∈ st.aNeeded) (hG : ∀ g ∈ D0 e, isTagged g = true → g ∈ st.gNeeded) :
    (duPending e st managed).1.isEmpty = true := by
  unfold duPending
  have hB0 : (managed.filter fun i => !st.bNeeded.contains i && st.bToDel.contains i) = [] := by
    apply List.filter_eq_nil_iff.mpr
    intro i hi
    simp [hb i hi]
  have hA0 : ((e.a.acls.map (·.1)).filter fun n => !st.aNeeded.contains n && (st.aToDel.contains n || isTagged n)) = [] := by
    apply List.filter_eq_nil_iff.mpr
    intro n hn
    rw [ha]
    cases ht : isTagged n
    · simp
    · have := hA n hn ht
      simp [this]
  have hG0 : ((e.a.groups.map (·.1)).filter fun n => !st.gNeeded.contains n && (st.gToDel.contains n || isTagged n)) = [] := by
    apply List.filter_eq_nil_iff.mpr
    intro n hn
    rw [hg]
    cases ht : isTagged n
    · simp
    · have := hG n hn ht
      simp [this]
  simp only [hB0, hA0, hG0, List.filter_nil]
  rfl

theorem deleteUnused_quiet (e : Env) (st : St) (managed : List Nat)
    (h : (duPending e st managed).1.isEmpty = true) : (deleteUnused e st managed).out = st.out := by
  unfold deleteUnused
  generalize duPending e st managed = q at h
  obtain ⟨p, sr⟩ := q
  simp only at h ⊢
  rw [if_pos h]
  split <;> rfl

/-! ## The whole engine -/

theorem checkInterfaces_clean (e : Env) (st : St) (managed : List Nat) (h : checkInterfaces e {} = some (st, managed)) :
    st.mode = "" ∧ st.aToDel = [] ∧ st.gToDel = [] := by
  unfold checkInterfaces at h
  simp only [] at h
  split at h
  · simp only [Option.some.injEq, Prod.mk.injEq] at h
    rw [← h.1]
    apply foldl_inv (fun s : St => s.mode = "" ∧ s.aToDel = [] ∧ s.gToDel = [])
    · intro s i _ hs; exact hs
    · exact ⟨rfl, rfl, rfl⟩
  · exact absurd h (by simp)

theorem afterBinds_eq_pairs (e : Env) (st0 : St) (managed : List Nat)
    (hshape : (managed.isEmpty && e.b.binds.isEmpty) = true ∨
      bindsShape e (generateNames e st0) managed e.b.binds = true) :
    afterBinds e st0 managed =
      (isoPairs e managed).foldl (fun st p => makeEqualBind e st p.1 p.2) (generateNames e st0) := by
  unfold afterBinds isoPairs
  by_cases h0 : (managed.isEmpty && e.b.binds.isEmpty) = true
  · rw [if_pos h0, if_pos h0]; rfl
  · rw [if_neg h0, if_neg h0]
    rcases hshape with h | h
    · exact absurd h h0
    · exact diffBinds_eq_pairs e _ managed e.b.binds h

/-- **A comparison in class ISO prints nothing.** -/
theorem iso_core (e : Env) (st0 : St) (managed : List Nat) (hci : checkInterfaces e {} = some (st0, managed))
    (hshape : (managed.isEmpty && e.b.binds.isEmpty) = true ∨
      (bindsShape e (generateNames e st0) managed e.b.binds = true ∧ (isoPairs e managed).map (·.1) = managed))
    (hbA : bij (isoRA e managed) = true) (hbG : bij (RGof e (isoRA e managed)) = true)
    (hRA : ∀ p ∈ isoRA e managed, p.1 ∉ st0.aNeeded ∧ aclIso e p.1 p.2 = true)
    (hRG : ∀ p ∈ RGof e (isoRA e managed), p.1 ∉ st0.gNeeded ∧ pureEq (lookupD e.sc.grp p) = true)
    (hroutes : routesSame (sortRoutes e.a.routes) (sortRoutes e.b.routes) = true)
    (hcA : ∀ n ∈ A0 e, isTagged n = true → n ∈ st0.aNeeded ∨ n ∈ (isoRA e managed).map (·.1))
    (hcG : ∀ g ∈ D0 e, isTagged g = true → g ∈ st0.gNeeded ∨
      g ∈ (isoRA e managed).flatMap fun p => (e.aLines p.1).flatMap (·.refs)) :
    (finalSt e st0 managed).out = [] := by
  obtain ⟨o1, o2, _⟩ := checkInterfaces_init e st0 managed hci
  obtain ⟨c1, c2, c3⟩ := checkInterfaces_clean e st0 managed hci
  obtain ⟨m1, _, _⟩ := checkInterfaces_marks e st0 managed hci
  have hq0 : Quiet e (isoRA e managed) (RGof e (isoRA e managed)) (generateNames e st0) := by
    refine ⟨⟨o1, c1, c3, ?_⟩, c2, ?_, ?_⟩
    · intro p hp
      have h1 : p.1 ∉ (generateNames e st0).gNeeded := (hRG p hp).1
      have h2 : p.2 ∉ (generateNames e st0).gReady := by
        show p.2 ∉ st0.gReady
        rw [o2]; simp
      exact ⟨⟨fun h => absurd h h1, fun h => absurd h h2⟩, fun h => absurd h h2⟩
    · intro p hp
      have h1 : p.1 ∉ (generateNames e st0).aNeeded := (hRA p hp).1
      have h2 : p.2 ∉ (generateNames e st0).aReady := by
        show p.2 ∉ st0.aReady
        rw [m1.aReady]; simp
      exact ⟨⟨fun h => absurd h h1, fun h => absurd h h2⟩, fun h => absurd h h2⟩
    · intro p hp h
      exact absurd h (hRA p hp).1
  have hpairs := afterBinds_eq_pairs e st0 managed (by
    rcases hshape with h | h
    · exact Or.inl h
    · exact Or.inr h.1)
  obtain ⟨q1, q2, q3, q4, _⟩ := pairsFold_quiet e (isoRA e managed) hbA hbG (fun p hp => (hRG p hp).2)
    (isoPairs e managed) (generateNames e st0) hq0 (by
      intro p hp
      have hm : (aclOfI e p.1, p.2.acl) ∈ isoRA e managed := List.mem_map.mpr ⟨p, hp, rfl⟩
      exact ⟨hm, (hRA _ hm).2⟩)
  rw [← hpairs] at q1 q2 q3 q4
  have hmanaged : ∀ i ∈ managed, i ∈ (afterBinds e st0 managed).bNeeded := by
    rcases hshape with h | h
    · simp only [Bool.and_eq_true, List.isEmpty_iff] at h
      intro i hi; rw [h.1] at hi; simp at hi
    · intro i hi
      rw [← h.2] at hi
      obtain ⟨p, hp, rfl⟩ := List.mem_map.mp hi
      exact (q2 p hp).1
  unfold finalSt
  generalize afterBinds e st0 managed = stB at q1 q2 q3 q4 hmanaged ⊢
  have fr := diffRoutes_quiet stB (sortRoutes e.a.routes) (sortRoutes e.b.routes) hroutes
  generalize diffRoutes stB (sortRoutes e.a.routes) (sortRoutes e.b.routes) = stR at fr ⊢
  have hp := duPending_none e stR managed (fun i hi => by rw [fr.bNeeded]; exact hmanaged i hi)
    (by rw [fr.aToDel]; exact q1.aToDel) (by rw [fr.gToDel]; exact q1.g.gToDel)
    (by
      intro n hn ht
      rw [fr.aNeeded]
      rcases hcA n hn ht with h | h
      · exact q3 n h
      · obtain ⟨p, hp, rfl⟩ := List.mem_map.mp h
        obtain ⟨p0, hp0, rfl⟩ := List.mem_map.mp hp
        exact (q2 p0 hp0).2)
    (by
      intro g hg ht
      rw [fr.gNeeded]
      rcases hcG g hg ht with h | h
      · exact q4 g h
      · obtain ⟨p, hp, hgp⟩ := List.mem_flatMap.mp h
        obtain ⟨l, hl, hgl⟩ := List.mem_flatMap.mp hgp
        have hpn : p.1 ∈ stB.aNeeded := by
          obtain ⟨p0, hp0, rfl⟩ := List.mem_map.mp hp
          exact (q2 p0 hp0).2
        exact q1.refsNeeded p hp hpn l hl g hgl)
  rw [deleteUnused_quiet e stR managed hp, fr.out, q1.g.out]
  rfl

/-- **`asa_F1_idempotent` on class ISO** with ONE decidable, static hypothesis. -/
theorem iso_quiet (a b : Config) (sc : Scripts) (hc : isoCheck a b sc = true) :
    (engine a b sc).map (·.script) = some [] := by
  unfold isoCheck at hc
  split at hc
  · exact absurd hc (by decide)
  · rename_i st0 managed hci
    simp only [Bool.and_eq_true, Bool.or_eq_true, decide_eq_true_eq] at hc
    obtain ⟨⟨⟨⟨⟨⟨⟨c1, c2⟩, c3⟩, c4⟩, c5⟩, c6⟩, c7⟩, c8⟩ := hc
    rw [engine_eq a b sc st0 managed hci]
    congr 1
    apply iso_core ⟨a, b, sc⟩ st0 managed hci (by
      rcases c1 with h | h
      · exact Or.inl (by simp [h.1, h.2])
      · exact Or.inr h) c2 c3
    · intro p hp
      have := List.all_eq_true.mp c4 p hp
      simp only [Bool.and_eq_true, Bool.not_eq_true', List.contains_eq_mem, decide_eq_false_iff_not] at this
      exact this
    · intro p hp
      have := List.all_eq_true.mp c5 p hp
      simp only [Bool.and_eq_true, Bool.not_eq_true', List.contains_eq_mem, decide_eq_false_iff_not] at this
      exact this
    · exact c6
    · intro n hn ht
      have := List.all_eq_true.mp c7 n hn
      simp only [ht, Bool.not_true, Bool.false_or, Bool.or_eq_true, List.contains_eq_mem, decide_eq_true_eq] at this
      exact this
    · intro g hg ht
      have := List.all_eq_true.mp c8 g hg
      simp only [ht, Bool.not_true, Bool.false_or, Bool.or_eq_true, List.contains_eq_mem, decide_eq_true_eq] at this
      exact this

end NA.F1
