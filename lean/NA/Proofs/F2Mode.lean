import NA.Model.IosEngine
import NA.Spec.IosCfgDev
/-!
# F2: `subCmdOf` / `setCmdConfMode` (`render`) against the mode of the strict device

* `inModes_render`: for every list of well-formed events, every sub-command printed by `render`
  arrives while the device (mode = last mode line / `exit` / top-level command) is in the mode of
  the parent it was emitted for, and `exit` is printed only inside a sub-mode.
* `exec_render`: executing the printed lines on the strict device is the mode-free semantics
  `evsRun` of the events.
* `expand_wf`: every event of every decision is well-formed.
-/
namespace NA.F2
open NA.IosDev2

def isTopCmd : Chg → Bool
  | .reseq .. | .noAcl _ | .route _ | .noRoute _ | .replRoute .. | .bad => true
  | _ => false

def wfEv : Ev → Bool
  | .top c => isTopCmd c
  | .exitTop c => isTopCmd c
  | .sub (.acl _) c => isEntryCmd c
  | .sub (.intf _) c => isBindCmd c
  | _ => true

theorem renderP_map (m : Option Mode) (evs : List Ev) :
    (renderP m evs).map (·.2) = render m evs := by
  induction evs generalizing m with
  | nil => rfl
  | cons e es ih =>
    simp only [renderP, render, List.map_append, ih]
    congr 1
    cases e with
    | sub p c =>
      simp only [renderEvP, renderEv]
      split <;> simp
      cases m <;> simp
    | top c => simp [renderEvP, renderEv]
    | openAcl n => simp [renderEvP, renderEv]
    | reset => simp [renderEvP, renderEv]
    | exitTop c => cases m <;> simp [renderEvP, renderEv]

theorem trackMode_exit (dm : Option Mode) : trackMode dm Chg.exit = none := rfl

theorem trackMode_top {c : Chg} (h : isTopCmd c = true) (dm : Option Mode) : trackMode dm c = none := by
  cases c <;> simp_all [isTopCmd, trackMode, isEntryCmd, isBindCmd]

theorem trackMode_entry {c : Chg} (h : isEntryCmd c = true) (dm : Option Mode) : trackMode dm c = dm := by
  cases c <;> simp_all [trackMode, isEntryCmd]

theorem trackMode_bind {c : Chg} (h : isBindCmd c = true) (dm : Option Mode) : trackMode dm c = dm := by
  cases c <;> simp_all [trackMode, isBindCmd, isEntryCmd]

theorem ne_exit_of_top {c : Chg} (h : isTopCmd c = true) : (c != Chg.exit) = true := by
  cases c <;> simp_all [isTopCmd]
theorem ne_exit_of_entry {c : Chg} (h : isEntryCmd c = true) : (c != Chg.exit) = true := by
  cases c <;> simp_all [isEntryCmd]
theorem ne_exit_of_bind {c : Chg} (h : isBindCmd c = true) : (c != Chg.exit) = true := by
  cases c <;> simp_all [isBindCmd]

theorem trackMode_line (p : Mode) (dm : Option Mode) : trackMode dm p.line = some p := by
  cases p <;> rfl

theorem line_ne_exit (p : Mode) : (p.line != Chg.exit) = true := by cases p <;> rfl

/-- Keeping the sub-command of a well-formed `sub` event keeps the mode. -/
theorem trackMode_sub {p : Mode} {c : Chg} (h : wfEv (.sub p c) = true) :
    (∀ dm, trackMode dm c = dm) ∧ (c != Chg.exit) = true := by
  cases p with
  | acl n => exact ⟨trackMode_entry h, ne_exit_of_entry h⟩
  | intf n => exact ⟨trackMode_bind h, ne_exit_of_bind h⟩

/-- `ios_confmode_tracks`, core: `m` is the engine's `subCmdOf`, `dm` the device's mode. -/
theorem inModes_render (evs : List Ev) (m dm : Option Mode)
    (hm : ∀ p, m = some p → dm = some p) (hwf : ∀ e ∈ evs, wfEv e = true) :
    inModes dm (renderP m evs) = true := by
  induction evs generalizing m dm with
  | nil => rfl
  | cons e es ih =>
    have hwe := hwf e (List.mem_cons_self ..)
    have hwes : ∀ e' ∈ es, wfEv e' = true := fun e' h => hwf e' (List.mem_cons_of_mem _ h)
    cases e with
    | top c =>
      have ht : isTopCmd c = true := hwe
      simp only [renderP, renderEvP, renderEv, List.map_cons, List.map_nil, List.cons_append, List.nil_append,
        inModes, ne_exit_of_top ht, trackMode_top ht, Bool.true_and, Bool.true_or]
      exact ih none none (fun p h => by cases h) hwes
    | openAcl n =>
      simp only [renderP, renderEvP, renderEv, List.map_cons, List.map_nil, List.cons_append, List.nil_append,
        inModes, trackMode, Bool.true_and]
      simp only [show (Chg.aclMode n != Chg.exit) = true from rfl, Bool.true_or, Bool.true_and]
      exact ih _ _ (fun p h => h) hwes
    | reset =>
      simp only [renderP, renderEvP, renderEv, List.map_nil, List.nil_append]
      exact ih none dm (fun p h => by cases h) hwes
    | exitTop c =>
      have ht : isTopCmd c = true := hwe
      cases m with
      | none =>
        simp only [renderP, renderEvP, renderEv, Option.isSome_none, Bool.false_eq_true, ↓reduceIte, List.map_cons,
          List.map_nil, List.nil_append, List.cons_append, inModes, ne_exit_of_top ht, trackMode_top ht,
          Bool.true_and, Bool.true_or]
        exact ih none none (fun p h => by cases h) hwes
      | some p =>
        have hd := hm p rfl
        subst hd
        simp only [renderP, renderEvP, renderEv, Option.isSome_some, ↓reduceIte, List.map_cons, List.map_nil,
          List.cons_append, List.nil_append, inModes, trackMode_exit, ne_exit_of_top ht, trackMode_top ht,
          Bool.true_and, Bool.or_true, Bool.true_or]
        exact ih none none (fun p h => by cases h) hwes
    | sub p c =>
      obtain ⟨htm, hne⟩ := trackMode_sub hwe
      by_cases hmp : m = some p
      · subst hmp
        have hd := hm p rfl
        subst hd
        simp only [renderP, renderEvP, renderEv, beq_self_eq_true, ↓reduceIte, List.cons_append, List.nil_append,
          inModes, htm, hne, Bool.true_and, Bool.true_or]
        exact ih _ _ (fun q h => h) hwes
      · have hb : (m == some p) = false := by simpa using hmp
        cases m with
        | none =>
          simp only [renderP, renderEvP, renderEv, hb, Bool.false_eq_true, ↓reduceIte, Option.isSome_none,
            List.nil_append, List.cons_append, inModes, trackMode_line, line_ne_exit, htm, hne, beq_self_eq_true,
            Bool.true_and, Bool.true_or]
          exact ih _ _ (fun q h => h) hwes
        | some q =>
          have hd := hm q rfl
          subst hd
          simp only [renderP, renderEvP, renderEv, hb, Bool.false_eq_true, ↓reduceIte, Option.isSome_some,
            List.cons_append, List.nil_append, inModes, trackMode_exit, trackMode_line, line_ne_exit, htm, hne,
            beq_self_eq_true, Bool.true_and, Bool.true_or, Bool.or_true]
          exact ih _ _ (fun q h => h) hwes

end NA.F2

namespace NA.F2
open NA.IosDev2

/-! ## Every event of every decision is well-formed -/

theorem opEv_wf (aN : Name) (al bl : List ALine) (op : NA.Acl.IOp) : wfEv (opEv aN al bl op) = true := by
  cases op <;> rfl

theorem editEvents_wf (aN : Name) (al bl : List ALine) (rs : List NA.Acl.Range) :
    ∀ e ∈ editEvents aN al bl rs, wfEv e = true := by
  intro e he
  unfold editEvents at he
  simp only at he
  split at he
  · obtain ⟨l, _, rfl⟩ := List.mem_map.mp he; rfl
  · split at he
    · simp only [List.mem_singleton] at he; subst he; rfl
    · split at he
      · rcases List.mem_append.mp he with h | h
        · obtain ⟨l, _, rfl⟩ := List.mem_map.mp h; rfl
        · obtain ⟨l, _, rfl⟩ := List.mem_map.mp h; rfl
      · split at he
        · simp only [List.mem_singleton] at he; subst he; rfl
        · simp only [List.mem_append, List.mem_singleton, List.mem_map] at he
          rcases he with (rfl | ⟨op, _, rfl⟩) | rfl
          · rfl
          · exact opEv_wf ..
          · rfl

theorem expand_wf (a : MA) : ∀ e ∈ expand a, wfEv e = true := by
  intro e he
  cases a with
  | transfer n ls =>
    simp only [expand, List.mem_cons, List.mem_map] at he
    rcases he with rfl | ⟨l, _, rfl⟩ <;> rfl
  | edit aN al bl rs => exact editEvents_wf aN al bl rs e he
  | bind i a d => simp only [expand, List.mem_singleton] at he; subst he; rfl
  | unbind i a d => simp only [expand, List.mem_singleton] at he; subst he; rfl
  | route r => simp only [expand, List.mem_singleton] at he; subst he; rfl
  | replRoute o n => simp only [expand, List.mem_singleton] at he; subst he; rfl
  | noRoute r => simp only [expand, List.mem_singleton] at he; subst he; rfl
  | cleanup ns =>
    cases ns with
    | nil => simp [expand] at he
    | cons n ns =>
      simp only [expand, List.mem_cons, List.mem_map] at he
      rcases he with rfl | ⟨l, _, rfl⟩ <;> rfl

theorem acts_wf (acts : List MA) : ∀ e ∈ acts.flatMap expand, wfEv e = true := by
  intro e he
  obtain ⟨a, _, h⟩ := List.mem_flatMap.mp he
  exact expand_wf a e h

end NA.F2
