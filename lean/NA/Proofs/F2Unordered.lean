import NA.Model.AsaEngine
/-!
# `diffUnordered` (shared model of the Go function): what its ranges are, flattened

For a duplicate-free key list `as` (device side) and any `bs`:
* `fDel`: the indices of `as` in delete ranges, in order = the `i` with `as[i] ∉ bs`;
* `fEq`:  the index pairs of equal ranges, in order = the `(i, j)` with `as[i] ∈ bs`, `j` the last
          index of that key in `bs`;
* `fIns`: the indices of `bs` in insert ranges, in order = the `j` with `bs[j] ∉ as`;
* every range is of exactly one kind and inside the bounds; the a-side ranges come first.
-/
namespace NA.F2
open NA.Acl (Range)
open NA.F1 (diffUnordered duStepA duStepB lastIdx)

def idxs (lo hi : Nat) : List Nat := (List.range (hi - lo)).map (lo + ·)

def fDel (rs : List Range) : List Nat := rs.flatMap fun r => if r.isDelete then idxs r.lowA r.highA else []
def fIns (rs : List Range) : List Nat := rs.flatMap fun r => if r.isInsert then idxs r.lowB r.highB else []
def fEq (rs : List Range) : List (Nat × Nat) :=
  rs.flatMap fun r => if r.isInsert then [] else if r.isEqual then (idxs r.lowA r.highA).zip (idxs r.lowB r.highB) else []

inductive Kind | del | eq | ins
  deriving DecidableEq

/-- Shape of the ranges `diffUnordered` produces for lists of lengths `n`, `m`. -/
def kindOf (n m : Nat) (r : Range) : Option Kind :=
  if r.lowA < r.highA ∧ r.highA ≤ n ∧ r.lowB = 0 ∧ r.highB = 0 then some .del
  else if r.lowA < r.highA ∧ r.highA ≤ n ∧ r.lowB < r.highB ∧ r.highB ≤ m ∧ r.highB - r.lowB = r.highA - r.lowA then some .eq
  else if r.lowA = n ∧ r.highA = n ∧ r.lowB < r.highB ∧ r.highB ≤ m then some .ins
  else none

theorem idxs_succ (lo hi : Nat) (h : lo ≤ hi) : idxs lo (hi + 1) = idxs lo hi ++ [hi] := by
  unfold idxs
  have : hi + 1 - lo = (hi - lo) + 1 := by omega
  rw [this, List.range_succ, List.map_append]
  simp only [List.map_cons, List.map_nil, List.append_cancel_left_eq, List.cons.injEq, and_true]
  omega

theorem idxs_single (i : Nat) : idxs i (i + 1) = [i] := by
  simp [idxs]

theorem idxs_length (lo hi : Nat) : (idxs lo hi).length = hi - lo := by simp [idxs]

theorem idxs_self (i : Nat) : idxs i i = [] := by simp [idxs]

theorem zip_snoc {α β : Type} (l1 : List α) (l2 : List β) (a : α) (b : β) (h : l1.length = l2.length) :
    (l1 ++ [a]).zip (l2 ++ [b]) = l1.zip l2 ++ [(a, b)] := by
  rw [List.zip_append h]; rfl

section kinds
variable {n m : Nat} {r : Range}

theorem kind_del (h : kindOf n m r = some .del) :
    r.lowA < r.highA ∧ r.highA ≤ n ∧ r.lowB = 0 ∧ r.highB = 0 := by
  unfold kindOf at h
  split at h
  · assumption
  · split at h
    · cases h
    · split at h <;> cases h

theorem kind_eq (h : kindOf n m r = some .eq) :
    r.lowA < r.highA ∧ r.highA ≤ n ∧ r.lowB < r.highB ∧ r.highB ≤ m ∧ r.highB - r.lowB = r.highA - r.lowA := by
  unfold kindOf at h
  split at h
  · cases h
  · split at h
    · assumption
    · split at h <;> cases h

theorem kind_ins (h : kindOf n m r = some .ins) :
    r.lowA = n ∧ r.highA = n ∧ r.lowB < r.highB ∧ r.highB ≤ m := by
  unfold kindOf at h
  split at h
  · cases h
  · split at h
    · cases h
    · split at h
      · assumption
      · cases h

/-- The three tests of the Go code on a range of known kind. -/
theorem tests_del (h : kindOf n m r = some .del) : r.isDelete = true ∧ r.isInsert = false ∧ r.isEqual = false := by
  obtain ⟨h1, _, h3, h4⟩ := kind_del h
  simp only [Range.isDelete, Range.isInsert, Range.isEqual, h3, h4, beq_self_eq_true, true_and]
  refine ⟨?_, ?_⟩
  · simp; omega
  · simp; omega

theorem tests_eq (h : kindOf n m r = some .eq) : r.isDelete = false ∧ r.isInsert = false ∧ r.isEqual = true := by
  obtain ⟨h1, _, h3, _, h5⟩ := kind_eq h
  simp only [Range.isDelete, Range.isInsert, Range.isEqual]
  refine ⟨?_, ?_, ?_⟩
  · simp; omega
  · simp; omega
  · simp; omega

theorem tests_ins (h : kindOf n m r = some .ins) : r.isDelete = false ∧ r.isInsert = true ∧ r.isEqual = false := by
  obtain ⟨h1, h2, h3, _⟩ := kind_ins h
  simp only [Range.isDelete, Range.isInsert, Range.isEqual]
  refine ⟨?_, ?_, ?_⟩
  · simp; omega
  · simp; omega
  · simp; omega

end kinds


/-! ## single ranges -/

def gDel (r : Range) : List Nat := if r.isDelete then idxs r.lowA r.highA else []
def gIns (r : Range) : List Nat := if r.isInsert then idxs r.lowB r.highB else []
def gEq (r : Range) : List (Nat × Nat) :=
  if r.isInsert then [] else if r.isEqual then (idxs r.lowA r.highA).zip (idxs r.lowB r.highB) else []

theorem fDel_eq (rs : List Range) : fDel rs = rs.flatMap gDel := rfl
theorem fIns_eq (rs : List Range) : fIns rs = rs.flatMap gIns := rfl
theorem fEq_eq (rs : List Range) : fEq rs = rs.flatMap gEq := rfl

theorem fDel_rev_cons (p : Range) (rest : List Range) : fDel (p :: rest).reverse = fDel rest.reverse ++ gDel p := by
  simp [fDel_eq, List.flatMap_append]
theorem fEq_rev_cons (p : Range) (rest : List Range) : fEq (p :: rest).reverse = fEq rest.reverse ++ gEq p := by
  simp [fEq_eq, List.flatMap_append]
theorem fIns_rev_cons (p : Range) (rest : List Range) : fIns (p :: rest).reverse = fIns rest.reverse ++ gIns p := by
  simp [fIns_eq, List.flatMap_append]

section single
variable {n m : Nat}

theorem g_of_del {r : Range} (h : kindOf n m r = some .del) :
    gDel r = idxs r.lowA r.highA ∧ gEq r = [] ∧ gIns r = [] := by
  obtain ⟨h1, h2, h3⟩ := tests_del h
  simp [gDel, gEq, gIns, h1, h2, h3]

theorem g_of_eq {r : Range} (h : kindOf n m r = some .eq) :
    gDel r = [] ∧ gEq r = (idxs r.lowA r.highA).zip (idxs r.lowB r.highB) ∧ gIns r = [] := by
  obtain ⟨h1, h2, h3⟩ := tests_eq h
  simp [gDel, gEq, gIns, h1, h2, h3]

theorem g_of_ins {r : Range} (h : kindOf n m r = some .ins) :
    gDel r = [] ∧ gEq r = [] ∧ gIns r = idxs r.lowB r.highB := by
  obtain ⟨h1, h2, h3⟩ := tests_ins h
  simp [gDel, gEq, gIns, h1, h2]

theorem new_del (i : Nat) (hi : i < n) : kindOf n m ⟨i, i + 1, 0, 0⟩ = some .del := by
  unfold kindOf
  dsimp only
  rw [if_pos ⟨by omega, by omega, rfl, rfl⟩]

theorem new_eq (i j : Nat) (hi : i < n) (hj : j < m) : kindOf n m ⟨i, i + 1, j, j + 1⟩ = some .eq := by
  unfold kindOf
  dsimp only
  rw [if_neg (by intro h; have := h.2.2.2; omega), if_pos ⟨by omega, by omega, by omega, by omega, by omega⟩]

theorem new_ins (j : Nat) (hj : j < m) : kindOf n m ⟨n, n, j, j + 1⟩ = some .ins := by
  unfold kindOf
  dsimp only
  rw [if_neg (by intro h; have := h.1; omega), if_neg (by intro h; have := h.1; omega),
    if_pos ⟨rfl, rfl, by omega, by omega⟩]

theorem ext_del {p : Range} (h : kindOf n m p = some .del) (i : Nat) (hpa : p.highA = i) (hi : i < n) :
    kindOf n m { p with highA := i + 1 } = some .del := by
  obtain ⟨h1, h2, h3, h4⟩ := kind_del h
  unfold kindOf
  dsimp only
  rw [if_pos ⟨by omega, by omega, h3, h4⟩]

theorem ext_eq {p : Range} (h : kindOf n m p = some .eq) (i j : Nat) (hpa : p.highA = i) (hpb : p.highB = j)
    (hi : i < n) (hj : j < m) :
    kindOf n m { p with highA := i + 1, highB := j + 1 } = some .eq := by
  obtain ⟨h1, h2, h3, h4, h5⟩ := kind_eq h
  unfold kindOf
  dsimp only
  rw [if_neg (by intro h; have := h.2.2.2; omega), if_pos ⟨by omega, by omega, by omega, by omega, by omega⟩]

theorem ext_ins {p : Range} (h : kindOf n m p = some .ins) (j : Nat) (hpb : p.highB = j) (hj : j < m) :
    kindOf n m { p with highB := j + 1 } = some .ins := by
  obtain ⟨h1, h2, h3, h4⟩ := kind_ins h
  unfold kindOf
  dsimp only
  rw [if_neg (by intro h; have := h.1; omega), if_neg (by intro h; have := h.1; omega),
    if_pos ⟨h1, h2, by omega, by omega⟩]

end single

/-! ## `lastIdx` -/

theorem lastIdx_some {k : String} {bs : List String} {j : Nat} (h : lastIdx k bs = some j) :
    j < bs.length ∧ bs.getD j "" = k := by
  unfold lastIdx at h
  have hm := List.mem_of_find?_eq_some h
  have hp := List.find?_some h
  simp only [List.mem_reverse, List.mem_range] at hm
  exact ⟨hm, by simpa using hp⟩

theorem lastIdx_none {k : String} {bs : List String} : lastIdx k bs = none ↔ k ∉ bs := by
  unfold lastIdx
  rw [List.find?_eq_none]
  constructor
  · intro h hk
    obtain ⟨j, hj, hjk⟩ := List.getElem_of_mem hk
    have := h j (by simp [hj])
    simp only [List.getD_eq_getElem?_getD, List.getElem?_eq_getElem hj, Option.getD_some, hjk, beq_self_eq_true,
      not_true_eq_false] at this
  · intro h j hj
    simp only [List.mem_reverse, List.mem_range] at hj
    intro hc
    apply h
    have : bs.getD j "" = k := by simpa using hc
    rw [← this, List.getD_eq_getElem?_getD, List.getElem?_eq_getElem hj, Option.getD_some]
    exact List.getElem_mem hj


/-! ## what the flattened result is -/

def sDel (bs : List String) : Nat → List String → List Nat
  | _, [] => []
  | i, k :: ks => (if (lastIdx k bs).isNone then [i] else []) ++ sDel bs (i + 1) ks

def sEq (bs : List String) : Nat → List String → List (Nat × Nat)
  | _, [] => []
  | i, k :: ks => (match lastIdx k bs with
      | some j => [(i, j)]
      | none => []) ++ sEq bs (i + 1) ks

def sIns (as : List String) : Nat → List String → List Nat
  | _, [] => []
  | j, k :: ks => (if as.contains k then [] else [j]) ++ sIns as (j + 1) ks

theorem sDel_snoc (bs : List String) (i : Nat) (pre : List String) (k : String) :
    sDel bs i (pre ++ [k]) = sDel bs i pre ++ (if (lastIdx k bs).isNone then [i + pre.length] else []) := by
  induction pre generalizing i with
  | nil => simp [sDel]
  | cons x xs ih =>
    simp only [List.cons_append, sDel, ih, List.length_cons, List.append_assoc]
    congr 2
    have : i + 1 + xs.length = i + (xs.length + 1) := by omega
    rw [this]

theorem sEq_snoc (bs : List String) (i : Nat) (pre : List String) (k : String) :
    sEq bs i (pre ++ [k]) = sEq bs i pre ++ (match lastIdx k bs with
      | some j => [(i + pre.length, j)]
      | none => []) := by
  induction pre generalizing i with
  | nil => simp [sEq]
  | cons x xs ih =>
    simp only [List.cons_append, sEq, ih, List.length_cons, List.append_assoc]
    congr 2
    have : i + 1 + xs.length = i + (xs.length + 1) := by omega
    rw [this]

theorem sIns_snoc (as : List String) (j : Nat) (pre : List String) (k : String) :
    sIns as j (pre ++ [k]) = sIns as j pre ++ (if as.contains k then [] else [j + pre.length]) := by
  induction pre generalizing j with
  | nil => simp [sIns]
  | cons x xs ih =>
    simp only [List.cons_append, sIns, ih, List.length_cons, List.append_assoc]
    congr 2
    have : j + 1 + xs.length = j + (xs.length + 1) := by omega
    rw [this]

/-- Invariant of the first loop after the keys `pre`. -/
structure InvA (bs : List String) (n : Nat) (pre : List String) (s : List Range × List String × Nat) : Prop where
  idx : s.2.2 = pre.length
  matched : ∀ k, k ∈ s.2.1 ↔ k ∈ pre ∧ k ∈ bs
  kinds : ∀ r ∈ s.1, (kindOf n bs.length r = some .del ∨ kindOf n bs.length r = some .eq) ∧ r.highA ≤ pre.length
  del : fDel s.1.reverse = sDel bs 0 pre
  eq : fEq s.1.reverse = sEq bs 0 pre
  ins : fIns s.1.reverse = []

theorem invA_init (bs : List String) (n : Nat) : InvA bs n [] ([], [], 0) :=
  ⟨rfl, by simp, by simp, rfl, rfl, rfl⟩

theorem invA_step (bs : List String) (n : Nat) (pre : List String) (s : List Range × List String × Nat)
    (k : String) (h : InvA bs n pre s) (hk : k ∉ pre) (hn : pre.length < n) :
    InvA bs n (pre ++ [k]) (duStepA bs s k) := by
  obtain ⟨res, matched, i⟩ := s
  obtain ⟨hidx, hmat, hkinds, hdel, heq, hins⟩ := h
  simp only at hidx hmat hkinds hdel heq hins
  subst hidx
  have hnm : matched.contains k = false := by
    rw [Bool.eq_false_iff]
    intro hc
    exact hk ((hmat k).mp (by simpa using hc)).1
  unfold duStepA
  simp only [hnm, Bool.false_eq_true, ↓reduceIte]
  cases hl : lastIdx k bs with
  | none =>
    have hkb : k ∉ bs := lastIdx_none.mp hl
    have hmat' : ∀ k', k' ∈ matched ↔ k' ∈ pre ++ [k] ∧ k' ∈ bs := by
      intro k'
      rw [hmat k']
      simp only [List.mem_append, List.mem_singleton]
      constructor
      · intro ⟨h1, h2⟩; exact ⟨Or.inl h1, h2⟩
      · intro ⟨h1, h2⟩
        rcases h1 with h1 | h1
        · exact ⟨h1, h2⟩
        · subst h1; exact absurd h2 hkb
    -- new delete range
    have fresh : InvA bs n (pre ++ [k]) (⟨pre.length, pre.length + 1, 0, 0⟩ :: res, matched, pre.length + 1) := by
      have hnew := new_del (n := n) (m := bs.length) pre.length hn
      refine ⟨by simp, hmat', ?_, ?_, ?_, ?_⟩
      · intro r hr
        rcases List.mem_cons.mp hr with rfl | hr
        · exact ⟨Or.inl hnew, by simp⟩
        · obtain ⟨h1, h2⟩ := hkinds r hr
          exact ⟨h1, by simp; omega⟩
      · rw [fDel_rev_cons, hdel, sDel_snoc, hl, (g_of_del hnew).1]
        simp [idxs_single]
      · rw [fEq_rev_cons, heq, sEq_snoc, hl, (g_of_del hnew).2.1]
      · rw [fIns_rev_cons, hins, (g_of_del hnew).2.2]; rfl
    cases res with
    | nil => exact fresh
    | cons p rest =>
      simp only
      by_cases hc : (p.isDelete && p.highA == pre.length) = true
      · simp only [hc, ↓reduceIte]
        simp only [Bool.and_eq_true, beq_iff_eq] at hc
        obtain ⟨hpd, hpa⟩ := hc
        obtain ⟨hpk, _⟩ := hkinds p (List.mem_cons_self ..)
        have hpk' : kindOf n bs.length p = some .del := by
          rcases hpk with h1 | h1
          · exact h1
          · have := (tests_eq h1).1; rw [hpd] at this; cases this
        have hext := ext_del hpk' pre.length hpa hn
        obtain ⟨q1, _, _, _⟩ := kind_del hpk'
        rw [fDel_rev_cons, (g_of_del hpk').1] at hdel
        rw [fEq_rev_cons, (g_of_del hpk').2.1] at heq
        rw [fIns_rev_cons, (g_of_del hpk').2.2] at hins
        refine ⟨by simp, hmat', ?_, ?_, ?_, ?_⟩
        · intro r hr
          rcases List.mem_cons.mp hr with rfl | hr
          · exact ⟨Or.inl hext, by simp⟩
          · obtain ⟨h1, h2⟩ := hkinds r (List.mem_cons_of_mem _ hr)
            exact ⟨h1, by simp; omega⟩
        · rw [fDel_rev_cons, (g_of_del hext).1, sDel_snoc, hl]
          simp only [Option.isNone_none, ↓reduceIte, Nat.zero_add]
          rw [idxs_succ _ _ (by omega), ← List.append_assoc, ← hpa, hdel]
        · rw [fEq_rev_cons, (g_of_del hext).2.1, sEq_snoc, hl]
          simpa using heq
        · rw [fIns_rev_cons, (g_of_del hext).2.2]
          simpa using hins
      · simp only [hc, Bool.false_eq_true, ↓reduceIte]
        exact fresh
  | some j =>
    obtain ⟨hjm, hjk⟩ := lastIdx_some hl
    have hkb : k ∈ bs := by
      rw [← hjk, List.getD_eq_getElem?_getD, List.getElem?_eq_getElem hjm, Option.getD_some]
      exact List.getElem_mem hjm
    have hmat' : ∀ k', k' ∈ k :: matched ↔ k' ∈ pre ++ [k] ∧ k' ∈ bs := by
      intro k'
      rw [List.mem_cons, hmat k', List.mem_append, List.mem_singleton]
      constructor
      · rintro (rfl | ⟨h1, h2⟩)
        · exact ⟨Or.inr rfl, hkb⟩
        · exact ⟨Or.inl h1, h2⟩
      · rintro ⟨h1 | h1, h2⟩
        · exact Or.inr ⟨h1, h2⟩
        · exact Or.inl h1
    have fresh : InvA bs n (pre ++ [k]) (⟨pre.length, pre.length + 1, j, j + 1⟩ :: res, k :: matched, pre.length + 1) := by
      have hnew := new_eq (n := n) (m := bs.length) pre.length j hn hjm
      refine ⟨by simp, hmat', ?_, ?_, ?_, ?_⟩
      · intro r hr
        rcases List.mem_cons.mp hr with rfl | hr
        · exact ⟨Or.inr hnew, by simp⟩
        · obtain ⟨h1, h2⟩ := hkinds r hr
          exact ⟨h1, by simp; omega⟩
      · rw [fDel_rev_cons, hdel, sDel_snoc, hl, (g_of_eq hnew).1]
        simp
      · rw [fEq_rev_cons, heq, sEq_snoc, hl, (g_of_eq hnew).2.1]
        simp [idxs_single]
      · rw [fIns_rev_cons, hins, (g_of_eq hnew).2.2]; rfl
    cases res with
    | nil => exact fresh
    | cons p rest =>
      simp only
      by_cases hc : (p.isEqual && p.highA == pre.length && p.highB == j) = true
      · simp only [hc, ↓reduceIte]
        simp only [Bool.and_eq_true, beq_iff_eq] at hc
        obtain ⟨⟨hpe, hpa⟩, hpb⟩ := hc
        obtain ⟨hpk, _⟩ := hkinds p (List.mem_cons_self ..)
        have hpk' : kindOf n bs.length p = some .eq := by
          rcases hpk with h1 | h1
          · have := (tests_del h1).2.2; rw [hpe] at this; cases this
          · exact h1
        have hext := ext_eq hpk' pre.length j hpa hpb hn hjm
        obtain ⟨q1, _, q3, _, q5⟩ := kind_eq hpk'
        rw [fDel_rev_cons, (g_of_eq hpk').1] at hdel
        rw [fEq_rev_cons, (g_of_eq hpk').2.1] at heq
        rw [fIns_rev_cons, (g_of_eq hpk').2.2] at hins
        refine ⟨by simp, hmat', ?_, ?_, ?_, ?_⟩
        · intro r hr
          rcases List.mem_cons.mp hr with rfl | hr
          · exact ⟨Or.inr hext, by simp⟩
          · obtain ⟨h1, h2⟩ := hkinds r (List.mem_cons_of_mem _ hr)
            exact ⟨h1, by simp; omega⟩
        · rw [fDel_rev_cons, (g_of_eq hext).1, sDel_snoc, hl]
          simpa using hdel
        · rw [fEq_rev_cons, (g_of_eq hext).2.1, sEq_snoc, hl]
          simp only [Nat.zero_add]
          rw [idxs_succ _ _ (by omega), idxs_succ _ _ (by omega), zip_snoc _ _ _ _ (by simp [idxs_length]; omega),
            ← List.append_assoc, ← hpa, ← hpb, heq]
        · rw [fIns_rev_cons, (g_of_eq hext).2.2]
          simpa using hins
      · simp only [hc, Bool.false_eq_true, ↓reduceIte]
        exact fresh


theorem invA_fold (bs : List String) (n : Nat) (pre rest : List String) (s : List Range × List String × Nat)
    (h : InvA bs n pre s) (hnd : (pre ++ rest).Nodup) (hn : (pre ++ rest).length ≤ n) :
    InvA bs n (pre ++ rest) (rest.foldl (duStepA bs) s) := by
  induction rest generalizing pre s with
  | nil => simpa using h
  | cons k rest ih =>
    have hk : k ∉ pre := by
      intro hc
      have := List.nodup_append.mp hnd
      exact this.2.2 k hc k (List.mem_cons_self ..) rfl
    have hlen : pre.length < n := by simp at hn; omega
    have := ih (pre ++ [k]) (duStepA bs s k) (invA_step bs n pre s k h hk hlen)
      (by simpa using hnd) (by simpa using hn)
    simpa using this

/-- Invariant of the second loop after the keys `preb` of `bs`: `ra` is the result of the first loop. -/
structure InvB (as bs : List String) (ra : List Range) (preb : List String) (s : List Range × Nat) : Prop where
  idx : s.2 = preb.length
  split : ∃ rb, s.1 = rb ++ ra ∧ (∀ r ∈ rb, kindOf as.length bs.length r = some .ins ∧ r.highB ≤ preb.length) ∧
    fIns rb.reverse = sIns as 0 preb

theorem invB_step (as bs : List String) (ra : List Range) (matched : List String) (preb : List String)
    (s : List Range × Nat) (k : String)
    (hra : ∀ r ∈ ra, kindOf as.length bs.length r = some .del ∨ kindOf as.length bs.length r = some .eq)
    (hmat : matched.contains k = as.contains k) (hm : preb.length < bs.length)
    (h : InvB as bs ra preb s) : InvB as bs ra (preb ++ [k]) (duStepB as.length matched s k) := by
  obtain ⟨res, j⟩ := s
  obtain ⟨hidx, rb, hres, hkinds, hins⟩ := h
  simp only at hidx hres
  subst hidx
  unfold duStepB
  simp only [hmat]
  by_cases hc : as.contains k = true
  · simp only [hc, ↓reduceIte]
    refine ⟨by simp, rb, hres, ?_, ?_⟩
    · intro r hr; obtain ⟨h1, h2⟩ := hkinds r hr; exact ⟨h1, by simp; omega⟩
    · rw [hins, sIns_snoc, hc]; simp
  · simp only [hc, Bool.false_eq_true, ↓reduceIte]
    have hnew := new_ins (n := as.length) (m := bs.length) preb.length hm
    have fresh : InvB as bs ra (preb ++ [k]) (⟨as.length, as.length, preb.length, preb.length + 1⟩ :: res, preb.length + 1) := by
      refine ⟨by simp, ⟨as.length, as.length, preb.length, preb.length + 1⟩ :: rb, by simp [hres], ?_, ?_⟩
      · intro r hr
        rcases List.mem_cons.mp hr with rfl | hr
        · exact ⟨hnew, by simp⟩
        · obtain ⟨h1, h2⟩ := hkinds r hr; exact ⟨h1, by simp; omega⟩
      · rw [fIns_rev_cons, hins, sIns_snoc, (g_of_ins hnew).2.2]
        simp only [hc, Bool.false_eq_true, ↓reduceIte, Nat.zero_add, idxs_single]
    cases hres' : res with
    | nil => rw [hres'] at fresh; exact fresh
    | cons p rest =>
      rw [hres'] at fresh
      simp only
      by_cases hc2 : (p.isInsert && p.highB == preb.length) = true
      · simp only [hc2, ↓reduceIte]
        simp only [Bool.and_eq_true, beq_iff_eq] at hc2
        obtain ⟨hpi, hpb⟩ := hc2
        -- the head is an insert range, hence belongs to `rb`
        cases rb with
        | nil =>
          simp only [List.nil_append] at hres
          have hp : p ∈ ra := by rw [← hres, hres']; exact List.mem_cons_self ..
          rcases hra p hp with h1 | h1
          · have := (tests_del h1).2.1; rw [hpi] at this; cases this
          · have := (tests_eq h1).2.1; rw [hpi] at this; cases this
        | cons q rb' =>
          have hqp : q = p ∧ rest = rb' ++ ra := by
            rw [hres'] at hres
            have := hres.symm
            simp only [List.cons_append, List.cons.injEq] at this
            exact ⟨this.1, this.2.symm⟩
          obtain ⟨rfl, hrest⟩ := hqp
          obtain ⟨hqk, _⟩ := hkinds q (List.mem_cons_self ..)
          have hext := ext_ins hqk preb.length hpb hm
          obtain ⟨_, _, q3, _⟩ := kind_ins hqk
          rw [fIns_rev_cons, (g_of_ins hqk).2.2] at hins
          refine ⟨by simp, { q with highB := preb.length + 1 } :: rb', by simp [hrest], ?_, ?_⟩
          · intro r hr
            rcases List.mem_cons.mp hr with rfl | hr
            · exact ⟨hext, by simp⟩
            · obtain ⟨h1, h2⟩ := hkinds r (List.mem_cons_of_mem _ hr); exact ⟨h1, by simp; omega⟩
          · rw [fIns_rev_cons, (g_of_ins hext).2.2, sIns_snoc]
            simp only [hc, Bool.false_eq_true, ↓reduceIte, Nat.zero_add]
            rw [idxs_succ _ _ (by omega), ← List.append_assoc, ← hpb, hins]
      · simp only [hc2, Bool.false_eq_true, ↓reduceIte]
        exact fresh

theorem invB_fold (as bs : List String) (ra : List Range) (matched : List String)
    (hra : ∀ r ∈ ra, kindOf as.length bs.length r = some .del ∨ kindOf as.length bs.length r = some .eq)
    (hmat : ∀ k ∈ bs, matched.contains k = as.contains k)
    (preb rest : List String) (hbs : bs = preb ++ rest) (s : List Range × Nat) (h : InvB as bs ra preb s) :
    InvB as bs ra bs (rest.foldl (duStepB as.length matched) s) := by
  induction rest generalizing preb s with
  | nil => simp only [List.append_nil] at hbs; subst hbs; simpa using h
  | cons k rest ih =>
    have hk : k ∈ bs := by rw [hbs]; simp
    have hm : preb.length < bs.length := by rw [hbs]; simp
    have := ih (preb ++ [k]) (by simpa using hbs) (duStepB as.length matched s k)
      (invB_step as bs ra matched preb s k hra (hmat k hk) hm h)
    simpa using this

/-- The specification of `diffUnordered` for a duplicate-free device-side key list. -/
theorem diffUnordered_spec (as bs : List String) (hnd : as.Nodup) :
    ∃ rsA rsB, diffUnordered as bs = rsA ++ rsB ∧
      (∀ r ∈ rsA, kindOf as.length bs.length r = some .del ∨ kindOf as.length bs.length r = some .eq) ∧
      (∀ r ∈ rsB, kindOf as.length bs.length r = some .ins) ∧
      fDel rsA = sDel bs 0 as ∧ fEq rsA = sEq bs 0 as ∧ fIns rsB = sIns as 0 bs := by
  have hA := invA_fold bs as.length [] as ([], [], 0) (invA_init bs as.length) (by simpa using hnd) (by simp)
  simp only [List.nil_append] at hA
  obtain ⟨⟨ra, matched, ia⟩, hfold⟩ : ∃ t, as.foldl (duStepA bs) ([], [], 0) = t := ⟨_, rfl⟩
  rw [hfold] at hA
  obtain ⟨_, hmat, hkinds, hdel, heq, _⟩ := hA
  simp only at hmat hkinds hdel heq
  have hmat' : ∀ k ∈ bs, matched.contains k = as.contains k := by
    intro k hk
    have := hmat k
    by_cases hka : k ∈ as
    · have h1 : k ∈ matched := this.mpr ⟨hka, hk⟩
      simp [h1, hka]
    · have h1 : k ∉ matched := fun hc => hka (this.mp hc).1
      simp [h1, hka]
  have hB := invB_fold as bs ra matched (fun r hr => (hkinds r hr).1) hmat' [] bs rfl (ra, 0)
    ⟨rfl, [], rfl, by simp, rfl⟩
  obtain ⟨⟨rf, jf⟩, hfoldB⟩ : ∃ t, bs.foldl (duStepB as.length matched) (ra, 0) = t := ⟨_, rfl⟩
  rw [hfoldB] at hB
  obtain ⟨_, rb, hsplit, hkb, hins⟩ := hB
  simp only at hsplit
  refine ⟨ra.reverse, rb.reverse, ?_, ?_, ?_, hdel, heq, hins⟩
  · unfold diffUnordered
    simp only [hfold, hfoldB, hsplit, List.reverse_append]
  · intro r hr; exact (hkinds r (List.mem_reverse.mp hr)).1
  · intro r hr; exact (hkb r (List.mem_reverse.mp hr)).1


/-! ## membership in the flattened results -/

theorem getD_cons_succ (k : String) (ks : List String) (t : Nat) : (k :: ks).getD (t + 1) "" = ks.getD t "" := by
  simp [List.getD_eq_getElem?_getD]

theorem mem_sDel {bs : List String} {i : Nat} {as : List String} {k : Nat} :
    k ∈ sDel bs i as ↔ ∃ t, t < as.length ∧ k = i + t ∧ lastIdx (as.getD t "") bs = none := by
  induction as generalizing i with
  | nil => simp [sDel]
  | cons a as ih =>
    simp only [sDel, List.mem_append, ih, List.length_cons]
    constructor
    · rintro (h | ⟨t, ht, rfl, hl⟩)
      · split at h
        · rename_i hn
          simp only [List.mem_singleton] at h
          exact ⟨0, by omega, by omega, by simpa using Option.isNone_iff_eq_none.mp hn⟩
        · cases h
      · exact ⟨t + 1, by omega, by omega, by rw [getD_cons_succ]; exact hl⟩
    · rintro ⟨t, ht, rfl, hl⟩
      cases t with
      | zero =>
        left
        have : (lastIdx a bs).isNone = true := by simpa using Option.isNone_iff_eq_none.mpr hl
        simp [this]
      | succ t =>
        right
        exact ⟨t, by omega, by omega, by rw [getD_cons_succ] at hl; exact hl⟩

theorem mem_sEq {bs : List String} {i : Nat} {as : List String} {k j : Nat} :
    (k, j) ∈ sEq bs i as ↔ ∃ t, t < as.length ∧ k = i + t ∧ lastIdx (as.getD t "") bs = some j := by
  induction as generalizing i with
  | nil => simp [sEq]
  | cons a as ih =>
    simp only [sEq, List.mem_append, ih, List.length_cons]
    constructor
    · rintro (h | ⟨t, ht, rfl, hl⟩)
      · split at h
        · rename_i j' hj
          simp only [List.mem_singleton, Prod.mk.injEq] at h
          obtain ⟨rfl, rfl⟩ := h
          exact ⟨0, by omega, by omega, by simpa using hj⟩
        · cases h
      · exact ⟨t + 1, by omega, by omega, by rw [getD_cons_succ]; exact hl⟩
    · rintro ⟨t, ht, rfl, hl⟩
      cases t with
      | zero =>
        left
        have : lastIdx a bs = some j := by simpa using hl
        simp [this]
      | succ t =>
        right
        exact ⟨t, by omega, by omega, by rw [getD_cons_succ] at hl; exact hl⟩

theorem mem_sIns {as : List String} {i : Nat} {bs : List String} {j : Nat} :
    j ∈ sIns as i bs ↔ ∃ t, t < bs.length ∧ j = i + t ∧ as.contains (bs.getD t "") = false := by
  induction bs generalizing i with
  | nil => simp [sIns]
  | cons b bs ih =>
    simp only [sIns, List.mem_append, ih, List.length_cons]
    constructor
    · rintro (h | ⟨t, ht, rfl, hl⟩)
      · split at h
        · cases h
        · rename_i hn
          simp only [List.mem_singleton] at h
          exact ⟨0, by omega, by omega, by simpa using hn⟩
      · exact ⟨t + 1, by omega, by omega, by rw [getD_cons_succ]; exact hl⟩
    · rintro ⟨t, ht, rfl, hl⟩
      cases t with
      | zero =>
        left
        have : as.contains b = false := by simpa using hl
        rw [if_neg (by rw [this]; simp)]
        simp
      | succ t =>
        right
        exact ⟨t, by omega, by omega, by rw [getD_cons_succ] at hl; exact hl⟩

theorem sDel_ge {bs : List String} {i : Nat} {as : List String} {k : Nat} (h : k ∈ sDel bs i as) : i ≤ k := by
  obtain ⟨t, _, rfl, _⟩ := mem_sDel.mp h; omega

theorem nodup_sDel (bs : List String) (i : Nat) (as : List String) : (sDel bs i as).Nodup := by
  induction as generalizing i with
  | nil => simp [sDel]
  | cons a as ih =>
    simp only [sDel]
    split
    · simp only [List.singleton_append, List.nodup_cons]
      exact ⟨fun h => by have := sDel_ge h; omega, ih (i + 1)⟩
    · simpa using ih (i + 1)

theorem sEq_fst_ge {bs : List String} {i : Nat} {as : List String} {k : Nat} (h : k ∈ (sEq bs i as).map (·.1)) : i ≤ k := by
  obtain ⟨p, hp, rfl⟩ := List.mem_map.mp h
  obtain ⟨t, _, h1, _⟩ := mem_sEq.mp (show (p.1, p.2) ∈ sEq bs i as from hp); omega

theorem nodup_sEq_fst (bs : List String) (i : Nat) (as : List String) : ((sEq bs i as).map (·.1)).Nodup := by
  induction as generalizing i with
  | nil => simp [sEq]
  | cons a as ih =>
    simp only [sEq]
    split
    · simp only [List.singleton_append, List.map_cons, List.nodup_cons]
      exact ⟨fun h => by have := sEq_fst_ge h; omega, ih (i + 1)⟩
    · simpa using ih (i + 1)

theorem sDel_sEq_disjoint {bs : List String} {i : Nat} {as : List String} {k : Nat}
    (h1 : k ∈ sDel bs i as) (h2 : k ∈ (sEq bs i as).map (·.1)) : False := by
  obtain ⟨t, _, rfl, hl⟩ := mem_sDel.mp h1
  obtain ⟨p, hp, hpk⟩ := List.mem_map.mp h2
  obtain ⟨t', _, h3, hl'⟩ := mem_sEq.mp (show (p.1, p.2) ∈ sEq bs i as from hp)
  have : t' = t := by omega
  subst this
  rw [hl] at hl'; cases hl'


/-! ## slices -/

theorem slice_eq_idxs {α : Type} [Inhabited α] (l : List α) (lo hi : Nat) (h : hi ≤ l.length) :
    NA.F1.slice l lo hi = (idxs lo hi).map fun t => l.getD t default := by
  unfold NA.F1.slice idxs
  apply List.ext_getElem
  · simp; omega
  · intro t h1 h2
    simp only [List.length_take, List.length_drop] at h1
    simp only [List.getElem_take, List.getElem_drop, List.map_map, List.getElem_map, List.getElem_range,
      Function.comp]
    rw [List.getD_eq_getElem?_getD, List.getElem?_eq_getElem (by omega), Option.getD_some]

theorem slice_range (n lo hi : Nat) (h : hi ≤ n) : NA.F1.slice (List.range n) lo hi = idxs lo hi := by
  rw [slice_eq_idxs _ _ _ (by simpa using h)]
  unfold idxs
  rw [List.map_map]
  apply List.map_congr_left
  intro t ht
  simp only [List.mem_range] at ht
  simp only [Function.comp]
  rw [List.getD_eq_getElem?_getD, List.getElem?_eq_getElem (by simp; omega), Option.getD_some, List.getElem_range]

theorem foldl_flatMap' {α β σ : Type} (l : List α) (g : α → List β) (f : σ → β → σ) (s : σ) :
    (l.flatMap g).foldl f s = l.foldl (fun s x => (g x).foldl f s) s := by
  induction l generalizing s with
  | nil => rfl
  | cons x xs ih => simp [List.flatMap_cons, List.foldl_append, ih]


theorem sIns_ge {as : List String} {i : Nat} {bs : List String} {k : Nat} (h : k ∈ sIns as i bs) : i ≤ k := by
  obtain ⟨t, _, rfl, _⟩ := mem_sIns.mp h; omega

theorem nodup_sIns (as : List String) (i : Nat) (bs : List String) : (sIns as i bs).Nodup := by
  induction bs generalizing i with
  | nil => simp [sIns]
  | cons b bs ih =>
    simp only [sIns]
    split
    · simpa using ih (i + 1)
    · simp only [List.singleton_append, List.nodup_cons]
      exact ⟨fun h => by have := sIns_ge h; omega, ih (i + 1)⟩

theorem fDel_append (a b : List Range) : fDel (a ++ b) = fDel a ++ fDel b := by simp [fDel]
theorem fIns_append (a b : List Range) : fIns (a ++ b) = fIns a ++ fIns b := by simp [fIns]
theorem fEq_append (a b : List Range) : fEq (a ++ b) = fEq a ++ fEq b := by simp [fEq]

theorem fDel_of_ins {n m : Nat} {rs : List Range} (h : ∀ r ∈ rs, kindOf n m r = some .ins) : fDel rs = [] := by
  simp only [fDel, List.flatMap_eq_nil_iff]
  intro r hr
  simp [(tests_ins (h r hr)).1]

theorem fIns_of_delEq {n m : Nat} {rs : List Range}
    (h : ∀ r ∈ rs, kindOf n m r = some .del ∨ kindOf n m r = some .eq) : fIns rs = [] := by
  simp only [fIns, List.flatMap_eq_nil_iff]
  intro r hr
  rcases h r hr with h1 | h1
  · simp [(tests_del h1).2.1]
  · simp [(tests_eq h1).2.1]

end NA.F2
