import NA.Proofs.F1RouteSafe
/-!
# F1: sub-commands are issued inside a configuration mode, and the engine's `subCmdOf` is that mode (C08)

`modeRun` replays a script on the mode of the command line only: `object-group network X` opens the sub-mode
of `X`, `network-object` / `no network-object` / `exit` are legal only inside a sub-mode, every other command
leaves it.  Invariant through every function of the engine model (all inputs): the script printed so far is
legal, and whenever the engine believes to be in the sub-mode of `X` (`st.mode = X ≠ ""`), the command line
IS in the sub-mode of `X`.  Member commands for a group `X` are emitted only right behind `setMode st X` or
`object-group network X`, so they reach their own parent.
-/
namespace NA.F1
open NA.Acl (Range)

def modeStep : Option Name → Chg → Option (Option Name)
  | _, .grp n => some (some n)
  | m, .mem _ => if m.isSome then some m else none
  | m, .noMem _ => if m.isSome then some m else none
  | m, .exit => if m.isSome then some none else none
  | m, .join a b => (modeStep m a).bind fun m' => modeStep m' b
  | m, .bad => some m
  | _, _ => some none

def modeRun : Option Name → List Chg → Option (Option Name)
  | m, [] => some m
  | m, c :: cs => (modeStep m c).bind fun m' => modeRun m' cs

theorem modeRun_append : ∀ (xs ys : List Chg) (m : Option Name),
    modeRun m (xs ++ ys) = (modeRun m xs).bind fun m' => modeRun m' ys := by
  intro xs
  induction xs with
  | nil => intro ys m; rfl
  | cons c cs ih =>
    intro ys m
    simp only [List.cons_append, modeRun]
    cases modeStep m c with
    | none => rfl
    | some m' => simp only [Option.bind_some]; exact ih ys m'

/-- Commands of the top level: legal in every mode, leave the sub-mode. -/
def TopCmd (c : Chg) : Prop := ∀ m, modeStep m c = some none

theorem top_acl (n : Name) (k : Option Nat) (l : RLine) : TopCmd (.acl n k l) := fun _ => rfl
theorem top_noAcl (n : Name) (k : Nat) (l : RLine) : TopCmd (.noAcl n k l) := fun _ => rfl
theorem top_bind (b : Bind) : TopCmd (.bind b) := fun _ => rfl
theorem top_noBind (b : Bind) : TopCmd (.noBind b) := fun _ => rfl
theorem top_route (r : String) : TopCmd (.route r) := fun _ => rfl
theorem top_noRoute (r : String) : TopCmd (.noRoute r) := fun _ => rfl
theorem top_clearAcl (n : Name) : TopCmd (.clearAcl n) := fun _ => rfl
theorem top_noGrp (n : Name) : TopCmd (.noGrp n) := fun _ => rfl
theorem top_join {a b : Chg} (ha : TopCmd a) (hb : TopCmd b) : TopCmd (.join a b) := fun m => by
  simp only [modeStep, ha m, Option.bind_some, hb none]

/-- The invariant. -/
def T (st : St) : Prop := ∃ m, modeRun none st.out = some m ∧ (st.mode ≠ "" → m = some st.mode)

theorem T.of_eq {st st' : St} (h : T st) (ho : st'.out = st.out) (hm : st'.mode = st.mode) : T st' := by
  obtain ⟨m, h1, h2⟩ := h
  exact ⟨m, by rw [ho]; exact h1, by rw [hm]; exact h2⟩

theorem T.hit {st : St} (h : T st) (x : String) : T (st.hit x) := h.of_eq rfl rfl

theorem T.top {st st' : St} (h : T st) (c : Chg) (hc : TopCmd c) (ho : st'.out = st.out ++ [c]) (hm : st'.mode = "") :
    T st' := by
  obtain ⟨m, h1, _⟩ := h
  refine ⟨none, ?_, fun hx => absurd hm hx⟩
  rw [ho, modeRun_append, h1]
  simp only [Option.bind_some, modeRun, hc m]

theorem T.bad {st : St} (h : T st) : T (st.emit .bad) := by
  obtain ⟨m, h1, h2⟩ := h
  refine ⟨m, ?_, h2⟩
  show modeRun none (st.out ++ [.bad]) = some m
  rw [modeRun_append, h1]
  rfl

theorem foldlT {α : Type} (f : St → α → St) (l : List α) (st : St) (h : ∀ s x, x ∈ l → T s → T (f s x)) (hs : T st) :
    T (l.foldl f st) := foldl_inv T f l st h hs

/-! ## Groups -/

theorem findGroup_T (e : Env) {st : St} (h : T st) (bN : Name) : T (findGroup e st bN) := by
  unfold findGroup
  split
  · exact h
  · split
    · exact h.of_eq rfl rfl
    · exact h

theorem modeRun_mems (n : Name) (ms : List String) : modeRun (some n) (ms.map Chg.mem) = some (some n) := by
  induction ms with
  | nil => rfl
  | cons m ms ih => simp only [List.map_cons, modeRun, modeStep, Option.isSome_some, if_true, Option.bind_some]; exact ih

theorem transferGroup_T (e : Env) {st : St} (h : T st) (bN : Name) : T (transferGroup e st bN) := by
  unfold transferGroup
  split
  · exact h
  · obtain ⟨m, h1, _⟩ := h
    refine ⟨some (st.gNameOf bN), ?_, fun _ => rfl⟩
    show modeRun none (st.out ++ (Chg.grp (st.gNameOf bN) :: (e.bMembers bN).map Chg.mem)) = _
    rw [modeRun_append, h1]
    simp only [Option.bind_some, modeRun, modeStep]
    exact modeRun_mems _ _

theorem setMode_T {st : St} (h : T st) (n : Name) : T (setMode st n) ∧ (setMode st n).mode = n := by
  unfold setMode
  by_cases hm : (st.mode == n) = true
  · simp only [hm, if_true]
    exact ⟨h, by simpa using hm⟩
  · simp only [hm, Bool.false_eq_true, if_false]
    obtain ⟨m, h1, h2⟩ := h
    by_cases he : (st.mode != "") = true
    · simp only [he, if_true]
      have hne : st.mode ≠ "" := by simpa using he
      refine ⟨⟨some n, ?_, fun _ => rfl⟩, trivial⟩
      show modeRun none (st.out ++ [.exit] ++ [.grp n]) = _
      rw [modeRun_append, modeRun_append, h1, h2 hne]
      rfl
    · simp only [he, Bool.false_eq_true, if_false]
      refine ⟨⟨some n, ?_, fun _ => rfl⟩, trivial⟩
      show modeRun none (st.out ++ [.grp n]) = _
      rw [modeRun_append, h1]
      rfl

/-- A member command right behind `setMode st n` (for a proper name `n`). -/
theorem memberCmd_T {st : St} (h : T st) (n : Name) (hn : n ≠ "") (c : Chg)
    (hc : ∀ x, modeStep (some x) c = some (some x)) : T ((setMode st n).emit c) := by
  obtain ⟨⟨m, h1, h2⟩, h3⟩ := setMode_T h n
  have hm : m = some n := by
    have := h2 (by rw [h3]; exact hn)
    rw [h3] at this; exact this
  refine ⟨some n, ?_, fun _ => by show some n = some (setMode st n).mode; rw [h3]⟩
  show modeRun none ((setMode st n).out ++ [c]) = _
  rw [modeRun_append, h1, hm]
  simp only [Option.bind_some, modeRun, hc n]

theorem delMembers_T {st : St} (h : T st) (aN : Name) (hn : aN ≠ "") (ms : List String) : T (delMembers st aN ms) := by
  unfold delMembers
  exact foldlT _ ms st (fun s m _ hs => memberCmd_T hs aN hn _ (fun _ => rfl)) h

theorem addMembers_T {st : St} (h : T st) (aN : Name) (hn : aN ≠ "") (ms : List String) : T (addMembers st aN ms) := by
  unfold addMembers
  exact foldlT _ ms st (fun s m _ hs => memberCmd_T hs aN hn _ (fun _ => rfl)) h

theorem editMembers_T (aN : Name) (hn : aN ≠ "") (la lb : List String) :
    ∀ (rs : List Range) (st : St), T st → T (editMembers st aN la lb rs) := by
  intro rs
  induction rs with
  | nil => intro st h; exact h
  | cons r rs ih =>
    intro st h
    unfold editMembers
    apply ih
    by_cases hd : r.isDelete = true
    · simp only [hd, if_true]; exact delMembers_T h aN hn _
    · by_cases hi : r.isInsert = true
      · simp only [hd, hi, if_true]; exact addMembers_T h aN hn _
      · simp only [hd, hi]; exact h

theorem equalizedGroups_T (e : Env) {st : St} (h : T st) (aN bN : Name) (hn : aN ≠ "") :
    T (equalizedGroups e st aN bN).1 := by
  unfold equalizedGroups
  split
  · split
    · exact h.of_eq rfl rfl
    · exact (findGroup_T e h bN).of_eq rfl rfl
  · simp only []
    generalize hident : isIdentity (lookupD e.sc.grp (aN, bN)) = ident
    have h1 : T (if ident = true then st else findGroup e st bN) := by
      cases ident
      · simp only [Bool.false_eq_true, ↓reduceIte]; exact findGroup_T e h bN
      · simp only [↓reduceIte]; exact h
    generalize (if ident = true then st else findGroup e st bN) = st1 at h1
    split
    · exact h1.of_eq rfl rfl
    · generalize scriptStat (lookupD e.sc.grp (aN, bN)) = stat
      obtain ⟨ins, del⟩ := stat
      simp only []
      split
      · exact h1.of_eq rfl rfl
      · have h2 : T { st1 with gNeeded := addSet aN st1.gNeeded, gName := (bN, aN) :: st1.gName } := h1.of_eq rfl rfl
        have h3 := editMembers_T aN hn (e.aMembers aN) (e.bMembers bN) (lookupD e.sc.grp (aN, bN)) _ h2
        exact (h3.of_eq rfl rfl).of_eq rfl rfl

/-! ## Access lists -/

theorem equalizePair_T (e : Env) {st : St} (h : T st) (a b : Line) (ha : ∀ g ∈ a.refs, g ≠ "") :
    T (equalizePair e st a b).1 := by
  unfold equalizePair
  have key : ∀ (l : List (Name × Name)) (s : St × Bool), (∀ p ∈ l, p.1 ≠ "") → T s.1 →
      T (l.foldl (fun (s : St × Bool) p =>
        let (st', ok) := equalizedGroups e s.1 p.1 p.2
        (st', s.2 && ok)) s).1 := by
    intro l
    induction l with
    | nil => intro s _ hs; exact hs
    | cons p ps ih =>
      intro s hl hs
      simp only [List.foldl_cons]
      exact ih _ (fun q hq => hl q (List.mem_cons_of_mem _ hq)) (equalizedGroups_T e hs p.1 p.2 (hl p List.mem_cons_self))
  apply key _ (st, true) _ h
  intro p hp
  exact ha p.1 (List.of_mem_zip hp).1

theorem equalizeRange_T (e : Env) (hA : RefsClosedA e) (hne : "" ∉ D0 e) (aN : Name) (bl : List Line) (lowA lowB : Nat) :
    ∀ (n : Nat) (st : St) (acc : List MCell), T st → T (equalizeRange e (e.aLines aN) bl lowA lowB n st acc).1 := by
  intro n
  induction n with
  | zero => intro st acc h; exact h
  | succ n ih =>
    intro st acc h
    have h1 := ih st acc h
    unfold equalizeRange
    generalize equalizeRange e (e.aLines aN) bl lowA lowB n st acc = r at h1
    obtain ⟨st1, acc1⟩ := r
    simp only at h1 ⊢
    have h2 := equalizePair_T e h1 ((e.aLines aN).getD (lowA + n) default) (bl.getD (lowB + n) default)
      (fun g hg e1 => hne (e1 ▸ aLines_getD_refs e hA aN _ g hg))
    generalize equalizePair e st1 ((e.aLines aN).getD (lowA + n) default) (bl.getD (lowB + n) default) = q at h2
    obtain ⟨st2, ok⟩ := q
    cases ok
    · exact h2.of_eq rfl rfl
    · exact h2

theorem cellsPhase_T (e : Env) (hA : RefsClosedA e) (hne : "" ∉ D0 e) (aN : Name) (bl : List Line) :
    ∀ (rs : List Range) (st : St) (acc : List MCell), T st → T (cellsPhase e (e.aLines aN) bl rs st acc).1 := by
  intro rs
  induction rs with
  | nil => intro st acc h; exact h
  | cons r rs ih =>
    intro st acc h
    unfold cellsPhase
    split
    · exact ih _ _ h
    · split
      · exact ih _ _ h
      · split
        · have h1 := equalizeRange_T e hA hne aN bl r.lowA r.lowB (r.highA - r.lowA) st acc h
          generalize equalizeRange e (e.aLines aN) bl r.lowA r.lowB (r.highA - r.lowA) st acc = q at h1
          obtain ⟨st1, acc1⟩ := q
          exact ih _ _ h1
        · exact ih _ _ h

theorem earlyFind_T (e : Env) (bl : List Line) (rs : List Range) {st : St} (h : T st) : T (earlyFind e bl rs st) := by
  unfold earlyFind
  apply foldlT _ rs st _ h
  intro s r _ hs
  split
  · exact foldlT _ _ s (fun s' g _ hs' => findGroup_T e hs' g) hs
  · exact hs

theorem emitLine_T (e : Env) {st : St} (h : T st) (mk : RLine → Chg) (hmk : ∀ r, TopCmd (mk r)) (l : Line) :
    T (emitLine e st mk l) := by
  unfold emitLine
  have h1 : T (l.refs.foldl (transferGroup e) st) := foldlT _ _ st (fun s g _ hs => transferGroup_T e hs g) h
  exact h1.top _ (hmk _) rfl rfl

theorem emitOp_T (e : Env) (aclName : Name) (al bl : List Line) (cells : List MCell) {st : St}
    (h : T st) (op : NA.Acl.Op) : T (emitOp e aclName al bl cells st op) := by
  unfold emitOp
  cases op with
  | add p l =>
    simp only
    split
    · exact (emitLine_T e h _ (fun r => top_acl _ _ r) _).of_eq rfl rfl
    · exact h.bad
  | del p l =>
    simp only
    split
    · exact h.top _ (top_noAcl _ _ _) rfl rfl
    · exact h.bad
  | move dp la ap lb =>
    simp only
    split
    · rename_i ai bi _ _
      exact (emitLine_T e (st := markDeletedLines st [al.getD ai default]) (h.of_eq rfl rfl) _
        (fun r => top_join (top_noAcl _ _ _) (top_acl _ _ r)) _).of_eq rfl rfl
    · exact h.bad
  | bad => exact h.bad.of_eq rfl rfl

theorem diffASAACLs_T (e : Env) (hA : RefsClosedA e) (hne : "" ∉ D0 e) {st : St} (h : T st) (aN bN : Name) (rs : List Range) :
    T (diffASAACLs e st aN bN rs) := by
  unfold diffASAACLs
  simp only []
  have h1 := earlyFind_T e (e.bLines bN) rs h
  have h2 := cellsPhase_T e hA hne aN (e.bLines bN) rs _ [] h1
  generalize cellsPhase e (e.aLines aN) (e.bLines bN) rs (earlyFind e (e.bLines bN) rs st) [] = q at h2
  obtain ⟨st1, cells⟩ := q
  exact foldlT _ _ st1 (fun s op _ hs => emitOp_T e aN _ _ cells hs op) h2

theorem transferAcl_T (e : Env) {st : St} (h : T st) (bN : Name) : T (transferAcl e st bN) := by
  unfold transferAcl
  split
  · exact h
  · exact foldlT _ _ _ (fun s l _ hs => emitLine_T e hs _ (fun r => top_acl _ _ r) l) (h.of_eq rfl rfl)

theorem markDeletedAcl_T (e : Env) {st : St} (h : T st) (aN : Name) : T (markDeletedAcl e st aN) := by
  unfold markDeletedAcl
  split
  · exact h
  · exact h.of_eq rfl rfl

theorem diffAcl_T (e : Env) (hA : RefsClosedA e) (hne : "" ∉ D0 e) {st : St} (h : T st) (aN bN : Name) :
    T (diffAcl e st aN bN).1 := by
  unfold diffAcl
  split
  · exact transferAcl_T e (h.hit "acl:device-acl-needed") bN
  · split
    · exact h.of_eq rfl rfl
    · simp only []
      split
      · exact transferAcl_T e (markDeletedAcl_T e (h.hit "acl:no-parts-equal") aN) bN
      · have h0 : T (({ st with aName := (bN, aN) :: st.aName }.hit "acl:incremental").hit (planCheck e st aN bN (lookupD e.sc.acl (aN, bN)))) :=
          h.of_eq rfl rfl
        exact (diffASAACLs_T e hA hne h0 aN bN (lookupD e.sc.acl (aN, bN))).of_eq rfl rfl

/-! ## Anchors -/

theorem markDeletedBinds_T (e : Env) {st : St} (h : T st) (idx : List Nat) : T (markDeletedBinds e st idx) := by
  unfold markDeletedBinds
  apply foldlT _ idx st _ h
  intro s i _ hs
  split
  · exact hs
  · exact markDeletedAcl_T e (st := { s with bToDel := i :: s.bToDel }) (hs.of_eq rfl rfl) _

theorem addBinds_T (e : Env) {st : St} (h : T st) (bs : List Bind) : T (addBinds e st bs) := by
  unfold addBinds
  apply foldlT _ bs st _ h
  intro s b _ hs
  exact ((transferAcl_T e hs b.acl).top _ (top_bind _) rfl rfl).of_eq rfl rfl

theorem delBinds_T (e : Env) {st : St} (h : T st) (idx : List Nat) : T (delBinds e st idx) := by
  unfold delBinds
  have h1 : T (idx.foldl (fun st i =>
      if st.bNeeded.contains i then st else
      { (st.emit (.noBind (e.a.binds.getD i default))) with mode := "", bNeeded := i :: st.bNeeded }.hit "bind:del") st) := by
    apply foldlT _ idx st _ h
    intro s i _ hs
    split
    · exact hs
    · exact (hs.top _ (top_noBind _) rfl rfl).of_eq rfl rfl
  simp only []
  split
  · exact h1
  · exact markDeletedBinds_T e h1 idx

theorem makeEqualBind_T (e : Env) (hA : RefsClosedA e) (hne : "" ∉ D0 e) {st : St} (h : T st) (i : Nat) (b : Bind) :
    T (makeEqualBind e st i b) := by
  unfold makeEqualBind
  simp only []
  have h1 := diffAcl_T e hA hne (st := { st with bNeeded := makeEqualBind.addSet' i st.bNeeded }) (h.of_eq rfl rfl)
    (e.a.binds.getD i default).acl b.acl
  generalize diffAcl e { st with bNeeded := makeEqualBind.addSet' i st.bNeeded } (e.a.binds.getD i default).acl b.acl = q at h1
  obtain ⟨st1, refName⟩ := q
  simp only at h1 ⊢
  split
  · exact (h1.top _ (top_bind _) rfl rfl).of_eq rfl rfl
  · exact h1

theorem diffBinds_T (e : Env) (hA : RefsClosedA e) (hne : "" ∉ D0 e) {st : St} (h : T st) (al : List Nat) (bl : List Bind) :
    T (diffBinds e st al bl) := by
  unfold diffBinds
  simp only []
  split
  · split
    · exact h
    · exact addBinds_T e (h.hit "bind:first-needed") bl
  · split
    · have h1 : T (if al.isEmpty then st else markDeletedBinds e (st.hit "bind:no-parts-equal") al) := by
        split
        · exact h
        · exact markDeletedBinds_T e (h.hit "bind:no-parts-equal") al
      split
      · exact h1
      · exact addBinds_T e h1 bl
    · apply foldlT
      · intro s r _ hs
        split
        · split
          · exact hs
          · exact addBinds_T e hs _
        · split
          · exact foldlT _ _ s (fun s' p _ hs' => makeEqualBind_T e hA hne hs' p.1 p.2) hs
          · exact hs
      · apply foldlT
        · intro s r _ hs
          split
          · exact delBinds_T e hs _
          · exact hs
        · exact h

theorem top_toChg (o : RO) : TopCmd o.toChg := by
  cases o with
  | add r => exact top_route _
  | repl o n => exact top_join (top_noRoute _) (top_route _)
  | del r => exact top_noRoute _

theorem modeRun_tops : ∀ (cs : List Chg), (∀ c ∈ cs, TopCmd c) → ∀ m,
    modeRun m cs = some (if cs.isEmpty then m else none) := by
  intro cs
  induction cs with
  | nil => intro _ m; rfl
  | cons c cs ih =>
    intro h m
    simp only [modeRun, h c List.mem_cons_self m, Option.bind_some, List.isEmpty_cons, Bool.false_eq_true, if_false]
    rw [ih (fun x hx => h x (List.mem_cons_of_mem _ hx)) none]
    split <;> rfl

theorem diffRoutes_T {st : St} (h : T st) (al bl : List Route) : T (diffRoutes st al bl) := by
  have hframe := diffRoutes_frame_ops st al bl
  obtain ⟨m, h1, h2⟩ := h
  have htops : ∀ c ∈ (routeOpsOf al bl).map RO.toChg, TopCmd c := by
    intro c hc
    obtain ⟨o, _, rfl⟩ := List.mem_map.mp hc
    exact top_toChg o
  generalize (routeOpsOf al bl).map RO.toChg = cs at hframe htops
  refine ⟨if cs.isEmpty then m else none, ?_, ?_⟩
  · rw [hframe.out, modeRun_append, h1]
    exact modeRun_tops cs htops m
  · rw [hframe.mode]
    split
    · exact h2
    · intro hx; exact absurd rfl hx

/-! ## `deleteUnused` and the whole engine -/

/-- Legal so far (the engine's belief about the mode is not tracked behind `deleteUnused`). -/
def Legal (st : St) : Prop := ∃ m, modeRun none st.out = some m

theorem T.legal {st : St} (h : T st) : Legal st := let ⟨m, h1, _⟩ := h; ⟨m, h1⟩

theorem Legal.top {st st' : St} (h : Legal st) (c : Chg) (hc : TopCmd c) (ho : st'.out = st.out ++ [c]) : Legal st' := by
  obtain ⟨m, h1⟩ := h
  refine ⟨none, ?_⟩
  rw [ho, modeRun_append, h1]
  simp only [Option.bind_some, modeRun, hc m]

theorem duRound_legal (e : Env) (st : St) (p : Pending) (h : Legal st) : Legal (duRound e st p).1 := by
  unfold duRound
  simp only []
  apply foldl_inv Legal
  · intro s n _ hs; exact (hs.top _ (top_noGrp n) rfl : Legal { (s.emit (.noGrp n)) with mode := "" })
  · apply foldl_inv Legal
    · intro s n _ hs; exact (hs.top _ (top_clearAcl n) rfl : Legal { (s.emit (.clearAcl n)) with mode := "" })
    · apply foldl_inv Legal
      · intro s i _ hs
        exact (hs.top _ (top_noBind _) rfl : Legal { (s.emit (.noBind (e.a.binds.getD i default))) with mode := "" })
      · exact h

theorem duRounds_legal (e : Env) : ∀ (n : Nat) (st : St) (p : Pending), Legal st → Legal (duRounds e n st p) := by
  intro n
  induction n with
  | zero => intro st p h; exact h
  | succ n ih =>
    intro st p h
    unfold duRounds
    split
    · exact h
    · have h1 := duRound_legal e st p h
      generalize duRound e st p = q at h1
      obtain ⟨st1, p1⟩ := q
      exact ih st1 p1 h1

theorem deleteUnused_legal (e : Env) (st : St) (managed : List Nat) (h : T st) : Legal (deleteUnused e st managed) := by
  unfold deleteUnused
  generalize duPending e st managed = q
  obtain ⟨p, sr⟩ := q
  simp only []
  have h1 : T (if sr = true then st.hit "du:still-referenced" else st) := by
    split
    · exact h.of_eq rfl rfl
    · exact h
  generalize (if sr = true then st.hit "du:still-referenced" else st) = st1 at h1
  split
  · exact h1.legal
  · apply duRounds_legal
    split
    · rename_i hm
      obtain ⟨m, r1, r2⟩ := h1
      have hne : st1.mode ≠ "" := by simpa using hm
      refine ⟨none, ?_⟩
      show modeRun none (st1.out ++ [.exit]) = some none
      rw [modeRun_append, r1, r2 hne]
      rfl
    · exact h1.legal

/-- **The whole script is legal for the mode of the command line** (all inputs). -/
theorem engine_modes (a b : Config) (sc : Scripts) (r : Result) (hA : RefsClosedA ⟨a, b, sc⟩)
    (hne : "" ∉ a.groups.map (·.1)) (h : engine a b sc = some r) : ∃ m, modeRun none r.script = some m := by
  unfold engine at h
  simp only [] at h
  split at h
  · exact absurd h (by simp)
  · rename_i st managed hci
    simp only [Option.some.injEq] at h
    obtain ⟨o1, _, _⟩ := checkInterfaces_init _ st managed hci
    have h0 : T (generateNames ⟨a, b, sc⟩ st) := by
      refine ⟨none, ?_, ?_⟩
      · show modeRun none st.out = some none
        rw [o1]; rfl
      · intro hx
        exfalso; apply hx
        have := (sem_init a b sc st managed hci).mode
        unfold ModeRel at this
        by_cases hm : (generateNames ⟨a, b, sc⟩ st).mode = ""
        · exact hm
        · rw [if_neg hm] at this; exact absurd this (by simp [NA.AsaDev.ofConfig])
    have h1 : T (if managed.isEmpty && b.binds.isEmpty then generateNames ⟨a, b, sc⟩ st
        else diffBinds ⟨a, b, sc⟩ (generateNames ⟨a, b, sc⟩ st) managed b.binds) := by
      split
      · exact h0
      · exact diffBinds_T _ hA hne h0 _ _
    generalize (if (managed.isEmpty && b.binds.isEmpty) = true then generateNames ⟨a, b, sc⟩ st
        else diffBinds ⟨a, b, sc⟩ (generateNames ⟨a, b, sc⟩ st) managed b.binds) = st1 at h h1
    have h2 := diffRoutes_T h1 (sortRoutes a.routes) (sortRoutes b.routes)
    generalize diffRoutes st1 (sortRoutes a.routes) (sortRoutes b.routes) = st2 at h h2
    have h3 := deleteUnused_legal ⟨a, b, sc⟩ st2 managed h2
    rw [← h]
    exact h3

end NA.F1
