import NA.Proofs.F1Tail
import NA.Proofs.F1Check
/-!
# F1: `deleteUnused` on the strict device with pending access-group commands

First round: `no access-group …` for every pending command, then the pending access lists that none of these
commands referenced, then the pending groups that no pending access list references; the remaining rounds are
those of `F1Tail` (no access-group command pending any more).
-/
namespace NA.F1
open NA.AsaDev
open NA.Acl (Range)

theorem noBinds_exec (e : Env) : ∀ (B : List Nat) (d : Dev), (B.map (keyOf e)).Nodup →
    (∀ i ∈ B, d.binds.lookup (keyOf e i) = some (aclOfI e i)) →
    exec d (B.map fun i => Chg.noBind (e.a.binds.getD i default)) =
      some { d with binds := d.binds.filter (fun p => !(B.map (keyOf e)).contains p.1),
                    mode := if B.isEmpty then d.mode else none } := by
  intro B
  induction B with
  | nil =>
    intro d _ _
    have : d.binds.filter (fun _ => true) = d.binds := List.filter_eq_self.mpr (fun _ _ => rfl)
    simp [exec_nil, this]
  | cons i is ih =>
    intro d hnd h
    simp only [List.map_cons, List.nodup_cons] at hnd
    obtain ⟨hn, hnd'⟩ := hnd
    have h1 := h i List.mem_cons_self
    have hex : exec1 d (.noBind (e.a.binds.getD i default)) = .ok { d with binds := delAssoc d.binds (keyOf e i), mode := none } := by
      have : d.binds.lookup ((e.a.binds.getD i default).dir, (e.a.binds.getD i default).intf) = some (e.a.binds.getD i default).acl := h1
      simp only [exec1, this, bne_self_eq_false, Bool.false_eq_true, if_false]
      rfl
    rw [List.map_cons, exec_cons]
    simp only [step, hex, Option.bind_some]
    rw [ih _ hnd']
    · simp only [List.isEmpty_cons, Bool.false_eq_true, if_false]
      congr 2
      · unfold delAssoc
        rw [List.filter_filter]
        apply List.filter_congr
        intro p _
        simp only [List.map_cons, List.contains_cons, Bool.not_or, Bool.and_comm]
      · split <;> rfl
    · intro j hj
      have hne : keyOf e j ≠ keyOf e i := fun e1 => hn (e1 ▸ List.mem_map.mpr ⟨j, hj, rfl⟩)
      show (delAssoc d.binds (keyOf e i)).lookup (keyOf e j) = _
      rw [lookup_delAssoc_ne _ _ hne]
      exact h j (List.mem_cons_of_mem _ hj)

theorem duRound_out2 (e : Env) (st : St) (p : Pending) :
    (duRound e st p).1.out = st.out ++ ((p.binds.map fun i => Chg.noBind (e.a.binds.getD i default)) ++
      ((p.acls.filter fun n => !(p.binds.map fun i => (e.a.binds.getD i default).acl).contains n).map Chg.clearAcl ++
       (p.grps.filter fun g => !(p.acls.flatMap fun n => (e.aLines n).flatMap (·.refs)).contains g).map Chg.noGrp)) ∧
    (duRound e st p).2 = ⟨[], p.acls.filter (p.binds.map fun i => (e.a.binds.getD i default).acl).contains,
      p.grps.filter (p.acls.flatMap fun n => (e.aLines n).flatMap (·.refs)).contains⟩ := by
  unfold duRound
  simp only [and_true]
  rw [foldl_emit_out _ Chg.noGrp (fun s x => rfl), foldl_emit_out _ Chg.clearAcl (fun s x => rfl),
    foldl_emit_out _ (fun i => Chg.noBind (e.a.binds.getD i default)) (fun s x => rfl)]
  simp [List.append_assoc]

theorem filter_filter_partition {α : Type} (l : List (Name × α)) (A : List Name) (R : Name → Bool) :
    (l.filter fun p => !(A.filter fun n => !R n).contains p.1).filter (fun p => !(A.filter R).contains p.1) =
      l.filter fun p => !A.contains p.1 := by
  rw [List.filter_filter]
  apply List.filter_congr
  intro p _
  by_cases h : p.1 ∈ A
  · by_cases hr : R p.1 = true
    · have h1 : p.1 ∈ A.filter R := List.mem_filter.mpr ⟨h, hr⟩
      simp [h, h1]
    · have h1 : p.1 ∈ A.filter fun n => !R n := List.mem_filter.mpr ⟨h, by simpa using hr⟩
      simp [h, h1]
  · have h1 : p.1 ∉ A.filter R := fun hx => h (List.mem_filter.mp hx).1
    have h2 : p.1 ∉ A.filter fun n => !R n := fun hx => h (List.mem_filter.mp hx).1
    simp [h, h1, h2]

/-- `deleteUnused` on the strict device, access-group commands pending or not. -/
theorem deleteUnused_exec (e : Env) (st : St) (managed : List Nat) (d : Dev) (hm : ModeRel st d)
    (hBk : ((duPending e st managed).1.binds.map (keyOf e)).Nodup)
    (hBorig : ∀ i ∈ (duPending e st managed).1.binds, d.binds.lookup (keyOf e i) = some (aclOfI e i))
    (hA : (duPending e st managed).1.acls.Nodup) (hG : (duPending e st managed).1.grps.Nodup)
    (hAok : ∀ m ∈ (duPending e st managed).1.acls, hasAcl d m = true ∧
      ∀ p ∈ d.binds, p.1 ∉ (duPending e st managed).1.binds.map (keyOf e) → p.2 ≠ m)
    (hAlines : ∀ p ∈ d.acls, p.1 ∈ (duPending e st managed).1.acls → p.2 = (e.aLines p.1).map resolveA)
    (hGok : ∀ g ∈ (duPending e st managed).1.grps, hasGroup d g = true ∧
      ∀ p ∈ d.acls, p.1 ∉ (duPending e st managed).1.acls → ∀ l ∈ p.2, g ∉ l.names)
    (hfuel : ((duPending e st managed).1.acls ≠ [] ∨ (duPending e st managed).1.grps ≠ []) →
      1 ≤ e.a.acls.length + e.a.groups.length) :
    ∃ tail d', (deleteUnused e st managed).out = st.out ++ tail ∧ exec d tail = some d' ∧
      d'.acls = d.acls.filter (fun p => !(duPending e st managed).1.acls.contains p.1) ∧
      (∀ g, g ∉ (duPending e st managed).1.grps → d'.groups.lookup g = d.groups.lookup g ∧
        d'.groups.any (·.1 == g) = d.groups.any (·.1 == g)) ∧
      d'.binds = d.binds.filter (fun p => !((duPending e st managed).1.binds.map (keyOf e)).contains p.1) ∧
      d'.routes = d.routes ∧ d'.intfs = d.intfs := by
  unfold deleteUnused
  generalize duPending e st managed = q at hBk hBorig hA hG hAok hAlines hGok hfuel
  obtain ⟨p, sr⟩ := q
  simp only at hBk hBorig hA hG hAok hAlines hGok hfuel ⊢
  obtain ⟨B, A, G⟩ := p
  simp only at hBk hBorig hA hG hAok hAlines hGok hfuel
  have h1 : (if sr = true then st.hit "du:still-referenced" else st).out = st.out := by split <;> rfl
  have h1m : (if sr = true then st.hit "du:still-referenced" else st).mode = st.mode := by split <;> rfl
  generalize (if sr = true then st.hit "du:still-referenced" else st) = st1 at h1 h1m
  split
  · rename_i hE
    have hB0 : B = [] := by simp [Pending.isEmpty] at hE; exact hE.1.1
    have hA0 : A = [] := by simp [Pending.isEmpty] at hE; exact hE.1.2
    have hG0 : G = [] := by simp [Pending.isEmpty] at hE; exact hE.2
    subst hB0 hA0 hG0
    refine ⟨[], d, by simp [h1], exec_nil d, ?_, fun _ _ => ⟨rfl, rfl⟩, ?_, rfl, rfl⟩
    · simp only [List.contains_nil, Bool.not_false]
      exact (List.filter_eq_self.mpr (fun _ _ => rfl)).symm
    · simp only [List.map_nil, List.contains_nil, Bool.not_false]
      exact (List.filter_eq_self.mpr (fun _ _ => rfl)).symm
  · rename_i hE
    -- the device after the optional `exit`
    have hexit : ∃ cs0 d0 st2, (if (st1.mode != "") = true then (st1.emit .exit).hit "du:exit" else st1) = st2 ∧
        st2.out = st.out ++ cs0 ∧ exec d cs0 = some d0 ∧ d0.acls = d.acls ∧ d0.groups = d.groups ∧ d0.binds = d.binds ∧
        d0.routes = d.routes ∧ d0.intfs = d.intfs := by
      by_cases hmode : (st1.mode != "") = true
      · have hne : st.mode ≠ "" := by rw [← h1m]; simpa using hmode
        have hdm : d.mode = some st.mode := by unfold ModeRel at hm; rw [if_neg hne] at hm; exact hm
        have e1 : exec1 d .exit = .ok { d with mode := none } := by simp [exec1, hdm]
        refine ⟨[.exit], _, _, rfl, ?_, exec_single e1, rfl, rfl, rfl, rfl, rfl⟩
        simp [hmode, St.emit, St.hit, h1]
      · refine ⟨[], d, _, rfl, ?_, exec_nil d, rfl, rfl, rfl, rfl, rfl⟩
        simp [hmode, h1]
    obtain ⟨cs0, d0, st2, hst2, ho2, he0, ha0, hg0, hb0, hr0, hi0⟩ := hexit
    simp only []
    rw [hst2]
    -- first round
    generalize hfu : e.a.acls.length + e.a.groups.length = k at hfuel
    have hround : duRounds e (k + 2) st2 ⟨B, A, G⟩ =
        duRounds e (k + 1) (duRound e st2 ⟨B, A, G⟩).1 (duRound e st2 ⟨B, A, G⟩).2 := by
      rw [duRounds, if_neg hE]
    rw [hround]
    obtain ⟨o1, p1⟩ := duRound_out2 e st2 ⟨B, A, G⟩
    rw [p1]
    simp only at o1 ⊢
    generalize (duRound e st2 ⟨B, A, G⟩).1 = st3 at o1 ⊢
    generalize hRA : (B.map fun i => (e.a.binds.getD i default).acl) = refAcls at o1 ⊢
    generalize hRG : (A.flatMap fun n => (e.aLines n).flatMap (·.refs)) = refGrps at o1 ⊢
    -- the device through the first round
    have e1 := noBinds_exec e B d0 hBk (fun i hi => by rw [hb0]; exact hBorig i hi)
    generalize hd1 : ({ d0 with binds := d0.binds.filter (fun p => !(B.map (keyOf e)).contains p.1), mode := if B.isEmpty then d0.mode else none } : Dev) = d1 at e1
    have hb1 : d1.binds = d.binds.filter (fun p => !(B.map (keyOf e)).contains p.1) := by rw [← hd1, hb0]
    have ha1 : d1.acls = d.acls := by rw [← hd1, ha0]
    have hg1 : d1.groups = d.groups := by rw [← hd1, hg0]
    have hunbound : ∀ (dd : Dev), dd.binds = d1.binds → ∀ m ∈ A, aclBound dd m = false := by
      intro dd hdd m hmA
      unfold aclBound
      rw [hdd, hb1]
      cases hh : (d.binds.filter (fun p => !(B.map (keyOf e)).contains p.1)).any (·.2 == m)
      · rfl
      · exfalso
        obtain ⟨p, hp, hpm⟩ := List.any_eq_true.mp hh
        obtain ⟨hp1, hp2⟩ := List.mem_filter.mp hp
        exact (hAok m hmA).2 p hp1 (by simpa using hp2) (by simpa using hpm)
    have hnowA : (A.filter fun n => !refAcls.contains n).Nodup := List.Nodup.sublist List.filter_sublist hA
    have e2 := clearAcls_exec (A.filter fun n => !refAcls.contains n) d1 hnowA (fun m hmm => by
      have hmA := (List.mem_filter.mp hmm).1
      exact ⟨by have := (hAok m hmA).1; simpa [hasAcl, ha1] using this, hunbound d1 rfl m hmA⟩)
    generalize hd2 : ({ d1 with acls := d1.acls.filter (fun p => !(A.filter fun n => !refAcls.contains n).contains p.1), mode := if (A.filter fun n => !refAcls.contains n).isEmpty then d1.mode else none } : Dev) = d2 at e2
    have ha2 : d2.acls = d.acls.filter (fun p => !(A.filter fun n => !refAcls.contains n).contains p.1) := by rw [← hd2, ha1]
    have hg2 : d2.groups = d.groups := by rw [← hd2, hg1]
    have hb2 : d2.binds = d1.binds := by rw [← hd2]
    have hnowG : (G.filter fun g => !refGrps.contains g).Nodup := List.Nodup.sublist List.filter_sublist hG
    -- a pending group is referenced by no access list that is still there, unless that list is pending and
    -- references it in the model
    have href : ∀ (dd : Dev), dd.acls = d2.acls → ∀ g ∈ G, g ∉ refGrps → groupReferenced dd g = false := by
      intro dd hdd g hgG hgr
      unfold groupReferenced
      rw [hdd, ha2]
      cases hh : (d.acls.filter (fun p => !(A.filter fun n => !refAcls.contains n).contains p.1)).any
          (fun a => a.2.any fun l => l.names.contains g)
      · rfl
      · exfalso
        obtain ⟨p, hp, hpl⟩ := List.any_eq_true.mp hh
        obtain ⟨hp1, _⟩ := List.mem_filter.mp hp
        obtain ⟨l, hl, hlg⟩ := List.any_eq_true.mp hpl
        have hlg' : g ∈ l.names := by simpa using hlg
        by_cases hpA : p.1 ∈ A
        · rw [hAlines p hp1 hpA] at hl
          obtain ⟨l0, hl0, rfl⟩ := List.mem_map.mp hl
          apply hgr
          rw [← hRG]
          exact List.mem_flatMap.mpr ⟨p.1, hpA, List.mem_flatMap.mpr ⟨l0, hl0, hlg'⟩⟩
        · exact (hGok g hgG).2 p hp1 hpA l hl hlg'
    have e3 := noGrps_exec (G.filter fun g => !refGrps.contains g) d2 hnowG (fun g hgg => by
      obtain ⟨hgG, hgr⟩ := List.mem_filter.mp hgg
      exact ⟨by have := (hGok g hgG).1; simpa [hasGroup, hg2] using this, href d2 rfl g hgG (by simpa using hgr)⟩)
    generalize hd3 : ({ d2 with groups := d2.groups.filter (fun p => !(G.filter fun g => !refGrps.contains g).contains p.1), mode := if (G.filter fun g => !refGrps.contains g).isEmpty then d2.mode else none } : Dev) = d3 at e3
    have ha3 : d3.acls = d2.acls := by rw [← hd3]
    have hg3 : d3.groups = d.groups.filter (fun p => !(G.filter fun g => !refGrps.contains g).contains p.1) := by rw [← hd3, hg2]
    have hb3 : d3.binds = d1.binds := by rw [← hd3, hb2]
    have hexec1 : exec d (cs0 ++ ((B.map fun i => Chg.noBind (e.a.binds.getD i default)) ++
        ((A.filter fun n => !refAcls.contains n).map Chg.clearAcl ++ (G.filter fun g => !refGrps.contains g).map Chg.noGrp))) = some d3 :=
      exec_append_some he0 (exec_append_some e1 (exec_append_some e2 e3))
    -- the remaining rounds
    generalize hA' : A.filter refAcls.contains = A' at *
    generalize hG' : G.filter refGrps.contains = G' at *
    have hA'n : A'.Nodup := by rw [← hA']; exact List.Nodup.sublist List.filter_sublist hA
    have hG'n : G'.Nodup := by rw [← hG']; exact List.Nodup.sublist List.filter_sublist hG
    have hA'sub : ∀ m ∈ A', m ∈ A := fun m hm' => by rw [← hA'] at hm'; exact (List.mem_filter.mp hm').1
    have hG'sub : ∀ g ∈ G', g ∈ G ∧ g ∈ refGrps := fun g hg' => by
      rw [← hG'] at hg'
      obtain ⟨x1, x2⟩ := List.mem_filter.mp hg'
      exact ⟨x1, by simpa using x2⟩
    -- the rest: either nothing or the rounds of `F1Tail`
    have hrest : ∃ tail2 d', (duRounds e (k + 1) st3 ⟨[], A', G'⟩).out = st3.out ++ tail2 ∧ exec d3 tail2 = some d' ∧
        d'.acls = d3.acls.filter (fun p => !A'.contains p.1) ∧
        (∀ g, g ∉ G' → d'.groups.lookup g = d3.groups.lookup g ∧ d'.groups.any (·.1 == g) = d3.groups.any (·.1 == g)) ∧
        d'.binds = d3.binds ∧ d'.routes = d3.routes ∧ d'.intfs = d3.intfs := by
      by_cases hE2 : (⟨[], A', G'⟩ : Pending).isEmpty = true
      · have hA0 : A' = [] := by simp [Pending.isEmpty] at hE2; exact hE2.1
        have hG0 : G' = [] := by simp [Pending.isEmpty] at hE2; exact hE2.2
        rw [hA0, hG0, duRounds_empty]
        refine ⟨[], d3, by simp, exec_nil d3, ?_, fun _ _ => ⟨rfl, rfl⟩, rfl, rfl, rfl⟩
        simp only [List.contains_nil, Bool.not_false]
        exact (List.filter_eq_self.mpr (fun _ _ => rfl)).symm
      · have hk : 1 ≤ k := by
          apply hfuel
          simp only [Pending.isEmpty, List.isEmpty_nil, Bool.true_and, Bool.and_eq_true, List.isEmpty_iff] at hE2
          by_cases hx : A' = []
          · right; intro h0; exact hE2 ⟨hx, by rw [← hG', h0]; rfl⟩
          · left; intro h0; apply hx; rw [← hA', h0]; rfl
        obtain ⟨k', rfl⟩ : ∃ k', k = k' + 1 := ⟨k - 1, by omega⟩
        have hR : ∀ (R : List Name), (G'.filter fun g => !R.contains g).Nodup ∧ (G'.filter R.contains).Nodup ∧
            (∀ g ∈ G'.filter R.contains, g ∉ G'.filter fun g => !R.contains g) := by
          intro R
          refine ⟨List.Nodup.sublist List.filter_sublist hG'n, List.Nodup.sublist List.filter_sublist hG'n, ?_⟩
          intro g hg hg'
          have h2 := (List.mem_filter.mp hg).2
          have h3 := (List.mem_filter.mp hg').2
          rw [h2] at h3; exact absurd h3 (by simp)
        obtain ⟨hn1, hn2, hdj⟩ := hR (A'.flatMap fun n => (e.aLines n).flatMap (·.refs))
        obtain ⟨d', he', hacl', hgrp', hb', hr', hi'⟩ := rounds_exec A' _ _ d3 hA'n hn1 hn2 hdj
          (fun m hmA' => by
            have hmA := hA'sub m hmA'
            refine ⟨?_, hunbound d3 hb3 m hmA⟩
            have hx := (hAok m hmA).1
            unfold hasAcl at hx ⊢
            rw [ha3, ha2]
            obtain ⟨p, hp, hpk⟩ := List.any_eq_true.mp hx
            refine List.any_eq_true.mpr ⟨p, List.mem_filter.mpr ⟨hp, ?_⟩, hpk⟩
            have hpm : p.1 = m := by simpa using hpk
            have : m ∉ A.filter fun n => !refAcls.contains n := by
              intro hx2
              have h5 := (List.mem_filter.mp hx2).2
              rw [← hA'] at hmA'
              have h6 := (List.mem_filter.mp hmA').2
              rw [h6] at h5; exact absurd h5 (by simp)
            rw [hpm, List.contains_eq_mem, decide_eq_false this]; rfl)
          (fun g hg => by
            have hgG' : g ∈ G' := by
              rcases hg with hg | hg
              · exact (List.mem_filter.mp hg).1
              · exact (List.mem_filter.mp hg).1
            obtain ⟨hgG, hgr⟩ := hG'sub g hgG'
            obtain ⟨x1, x2⟩ := hGok g hgG
            refine ⟨?_, ?_⟩
            · unfold hasGroup at x1 ⊢
              rw [hg3]
              obtain ⟨p, hp, hpk⟩ := List.any_eq_true.mp x1
              refine List.any_eq_true.mpr ⟨p, List.mem_filter.mpr ⟨hp, ?_⟩, hpk⟩
              have hpg : p.1 = g := by simpa using hpk
              have : g ∉ G.filter fun g => !refGrps.contains g := by
                intro hx2
                have h5 := (List.mem_filter.mp hx2).2
                simp [hgr] at h5
              rw [hpg, List.contains_eq_mem, decide_eq_false this]; rfl
            · intro p hp hpA' l hl
              rw [ha3, ha2] at hp
              obtain ⟨hp1, hp2⟩ := List.mem_filter.mp hp
              have hpA : p.1 ∉ A := by
                intro hx2
                by_cases hr : refAcls.contains p.1 = true
                · exact hpA' (by rw [← hA']; exact List.mem_filter.mpr ⟨hx2, hr⟩)
                · have : p.1 ∈ A.filter fun n => !refAcls.contains n := List.mem_filter.mpr ⟨hx2, by simpa using hr⟩
                  rw [List.contains_eq_mem, decide_eq_true this] at hp2
                  exact absurd hp2 (by decide)
              exact x2 p hp1 hpA l hl)
        refine ⟨_, d', duRounds_nobinds_out e k' st3 A' G', he', hacl', ?_, hb', hr', hi'⟩
        intro g hg
        rw [hgrp']
        generalize hG1 : (G'.filter fun g => !(A'.flatMap fun n => (e.aLines n).flatMap (·.refs)).contains g) = G1
        generalize hG2 : (G'.filter (A'.flatMap fun n => (e.aLines n).flatMap (·.refs)).contains) = G2
        have k1 : (fun (x : Name) => !G1.contains x) g = true := by
          simp only [Bool.not_eq_true', List.contains_eq_mem, decide_eq_false_iff_not]
          rw [← hG1]; exact fun hx => hg (List.mem_filter.mp hx).1
        have k2 : (fun (x : Name) => !G2.contains x) g = true := by
          simp only [Bool.not_eq_true', List.contains_eq_mem, decide_eq_false_iff_not]
          rw [← hG2]; exact fun hx => hg (List.mem_filter.mp hx).1
        constructor
        · rw [lookup_filter_keep (fun x => !G2.contains x) g k2, lookup_filter_keep (fun x => !G1.contains x) g k1]
        · rw [anyKey_filter_keep (fun x => !G2.contains x) g k2, anyKey_filter_keep (fun x => !G1.contains x) g k1]
    obtain ⟨tail2, d', ho', he', hacl', hgrp', hb', hr', hi'⟩ := hrest
    refine ⟨_, d', ?_, exec_append_some hexec1 he', ?_, ?_, ?_, ?_, ?_⟩
    · rw [ho', o1, ho2]
      simp only [List.append_assoc]
    · rw [hacl', ha3, ha2, ← hA']
      exact filter_filter_partition d.acls A (fun n => refAcls.contains n)
    · intro g hg
      have hgG' : g ∉ G' := fun hx => hg (hG'sub g hx).1
      obtain ⟨x1, x2⟩ := hgrp' g hgG'
      have k1 : (fun (x : Name) => !(G.filter fun g => !refGrps.contains g).contains x) g = true := by
        simp only [Bool.not_eq_true', List.contains_eq_mem, decide_eq_false_iff_not]
        exact fun hx => hg (List.mem_filter.mp hx).1
      rw [x1, x2, hg3]
      exact ⟨lookup_filter_keep (fun x => !(G.filter fun g => !refGrps.contains g).contains x) g k1 _,
        anyKey_filter_keep (fun x => !(G.filter fun g => !refGrps.contains g).contains x) g k1 _⟩
    · rw [hb', hb3, hb1]
    · rw [hr', ← hd3, ← hd2, ← hd1, hr0]
    · rw [hi', ← hd3, ← hd2, ← hd1, hi0]

end NA.F1
