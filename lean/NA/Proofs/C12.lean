import NA.Model.Lock
/-!
# C12 — helper lemmas: the invariant of the lock model and its preservation by every action

Core Lean only.
-/
namespace NA.Lock
open NA.Flock NA.LockSkel

/-! ## Facts about `safe`, `guarded`, `onError` -/

theorem safe_err_tail (l p : Bool) : safe l p [.printErr, .exit 1] = true := by
  simp [safe, Step.protected]

theorem safe_exit_tail (l p : Bool) : safe l p [.exit 1] = true := by
  simp [safe, Step.protected]

theorem safe_onError (l p : Bool) (rest : List Step) (h : safe l p rest = true) :
    safe l p (onError rest) = true := by
  unfold onError; split
  · exact safe_err_tail l p
  · exact h

theorem noflock_onError (rest : List Step) (h : rest.contains .flock = false) :
    (onError rest).contains .flock = false := by
  unfold onError; split
  · simp
  · exact h

/-- Without the lock, without a pinned lock file and without a `defer` ahead, a disciplined
program has neither a `flock` nor a protected step ahead: losing the lock to the finaliser is harmless. -/
theorem safe_unpinned (prog : List Step) (h : safe true false prog = true)
    (hd : prog.contains .deferClose = false) :
    prog.contains .flock = false ∧ safe false false prog = true := by
  induction prog with
  | nil => simp [safe]
  | cons s rest ih =>
    have hd' : rest.contains .deferClose = false := by
      simp at hd ⊢; exact hd.2
    cases s <;> simp [safe, Step.protected] at h hd ⊢ <;>
      first
        | exact ih h hd'
        | (obtain ⟨h1, h2⟩ := h; exact ih h2 hd')
        | skip
    all_goals simp_all


/-! ## Invariant of one process -/

structure Proc.OK (p : Proc) : Prop where
  safe : p.st = .running → safe p.holds p.pinned p.prog = true
  lostTail : p.st = .running → p.lost = true → p.prog = [.printErr, .exit 1] ∨ p.prog = [.exit 1]
  lostNever : p.lost = true → p.everHeld = false
  heldEver : p.holds = true → p.everHeld = true
  holdsRun : p.holds = true → p.st = .running
  noRelock : p.st = .running → p.everHeld = true → p.holds = false → p.prog.contains .flock = false
  lostExit : p.lost = true → ∀ c, p.st = .exited c → c = 1

theorem safe_plain (l p : Bool) (s : Step) (rest : List Step) (hs : s.plain = true) :
    safe l p (s :: rest) = ((!s.protected || (l && p)) && safe l p rest) := by
  cases s <;> simp_all [safe, Step.plain]

theorem onError_cases (rest : List Step) : onError rest = rest ∨ onError rest = [.printErr, .exit 1] := by
  unfold onError; split <;> simp

/-- A plain step of a disciplined program leaves the record unchanged except for the program, which
becomes the rest or the error exit. -/
theorem next_plain (p : Proc) (s : Step) (rest : List Step) (hp : p.prog = s :: rest)
    (hs : s.plain = true) (hsafe : safe p.holds p.pinned p.prog = true) (free fail : Bool) :
    ∃ X ok, (X = rest ∨ X = [.printErr, .exit 1]) ∧
      p.next free fail = ⟨{ p with prog := X }, .none, ok⟩ := by
  unfold Proc.next
  rw [hp]
  cases s <;> simp [Step.plain] at hs <;> simp only
  case openLock =>
    cases fail
    · exact ⟨rest, true, Or.inl rfl, by simp⟩
    · simp only [if_true]
      cases rest with
      | nil => exact ⟨_, false, onError_cases _, rfl⟩
      | cons t r =>
        by_cases ht : t = .flock
        · subst ht
          refine ⟨_, false, Or.inr ?_, rfl⟩
          rw [hp] at hsafe
          simp [safe, Step.protected] at hsafe
          simp [onError, skipFlock, hsafe.1.2]
        · have : skipFlock (t :: r) = t :: r := by
            cases t <;> simp_all [skipFlock]
          rw [this]
          exact ⟨_, false, onError_cases _, rfl⟩
  case errReturn =>
    cases fail
    · exact ⟨rest, true, Or.inl rfl, by simp⟩
    · exact ⟨[.printErr, .exit 1], false, Or.inr rfl, by simp⟩
  all_goals first
    | exact ⟨rest, true, Or.inl rfl, rfl⟩
    | (cases fail
       · exact ⟨rest, true, Or.inl rfl, by simp⟩
       · exact ⟨onError rest, false, onError_cases rest, by simp⟩)

/-- Everything the global invariant needs to know about one step of one process. -/
structure NextFacts (p : Proc) (o : Out) (free : Bool) : Prop where
  ok : o.proc.OK
  lockFile : o.proc.lockFile = p.lockFile
  acq : o.op = .acquire → free = true ∧ o.proc.holds = true
  nop : o.op = .none → o.proc.holds = p.holds
  rel : o.op = .release → o.proc.holds = false
  ever : p.everHeld = true → o.proc.everHeld = true
  pinned : p.pinned = true → o.proc.pinned = true
  keeps : p.holds = true → o.proc.st = .running → o.proc.holds = true
  prot : ∀ s rest, p.prog = s :: rest → s.protected = true →
    p.holds = true ∧ p.pinned = true ∧ o.proc.st = .running
  lostOld : p.lost = true → o.proc.lost = true
  lostNew : p.lost = false → o.proc.lost = true →
    o.proc.st = .running ∧ o.proc.prog = [.printErr, .exit 1]
  running : o.proc.st ≠ .running → o.op = .release

theorem next_facts (p : Proc) (h : p.OK) (hr : p.st = .running) (free fail : Bool) :
    NextFacts p (p.next free fail) free := by
  have hsafe := h.safe hr
  cases hp : p.prog with
  | nil =>
    obtain ⟨lf, prog, st, holds, pinned, lost, ever⟩ := p
    obtain ⟨h1, h2, h3, h4, h5, h6, h7⟩ := h
    simp only at hr hp h1 h2 h3 h4 h5 h6 h7 hsafe
    subst hr hp
    constructor
    · constructor <;> simp_all [Proc.next]
    all_goals simp_all [Proc.next]
  | cons s rest =>
    by_cases hs : s.plain = true
    · obtain ⟨X, ok, hX, hn⟩ := next_plain p s rest hp hs hsafe free fail
      rw [hn]
      have hsafe' : (!s.protected || (p.holds && p.pinned)) = true ∧ safe p.holds p.pinned rest = true := by
        rw [hp, safe_plain _ _ _ _ hs] at hsafe; simpa using hsafe
      have hXsafe : safe p.holds p.pinned X = true := by
        rcases hX with rfl | rfl
        · exact hsafe'.2
        · exact safe_err_tail _ _
      obtain ⟨lf, prog, st, holds, pinned, lost, ever⟩ := p
      obtain ⟨h1, h2, h3, h4, h5, h6, h7⟩ := h
      simp only at hr hp h1 h2 h3 h4 h5 h6 h7 hsafe hsafe' hXsafe
      subst hr hp
      constructor
      · constructor
        · intro _; exact hXsafe
        · intro _ hl
          have := h2 rfl hl
          rcases hX with rfl | rfl
          · rcases this with h | h
            · simp at h; right; exact h.2
            · simp at h; rw [h.1] at hs; simp [Step.plain] at hs
          · left; rfl
        · exact h3
        · exact h4
        · exact h5
        · intro _ he hh
          have := h6 rfl he hh
          rcases hX with rfl | rfl
          · simp at this ⊢; exact this.2
          · simp
        · exact h7
      · rfl
      · intro h; cases h
      · intro _; rfl
      · intro h; cases h
      · exact id
      · exact id
      · intro h _; exact h
      · intro s' rest' heq hprot
        simp at heq
        obtain ⟨rfl, rfl⟩ := heq
        simp [hprot] at hsafe'
        exact ⟨hsafe'.1.1, hsafe'.1.2, rfl⟩
      · exact id
      · intro h1 h2; rw [h1] at h2; cases h2
      · intro h; exact absurd rfl h
    · obtain ⟨lf, prog, st, holds, pinned, lost, ever⟩ := p
      obtain ⟨h1, h2, h3, h4, h5, h6, h7⟩ := h
      simp only at hr hp h1 h2 h3 h4 h5 h6 h7 hsafe
      subst hr hp
      cases s <;> simp [Step.plain] at hs
      case flock =>
        simp [safe] at hsafe
        obtain ⟨⟨hl, hg⟩, hs2⟩ := hsafe
        subst hl
        have hever : ever = false := by
          cases ever with
          | false => rfl
          | true => have := h6 rfl rfl rfl; simp at this
        have hlost : lost = false := by
          cases lost with
          | false => rfl
          | true =>
            rcases h2 rfl rfl with h | h <;> simp at h
        subst hever hlost
        by_cases hc : (free && !fail) = true
        · simp only [Proc.next, hc, if_true]
          constructor
          · constructor <;> simp_all
          all_goals simp_all [Step.protected]
        · simp only [Proc.next, hc]
          have hoe : onError rest = [.printErr, .exit 1] := by simp [onError, hg]
          constructor
          · constructor <;> simp_all [safe_err_tail]
          all_goals simp_all [Step.protected]
      case deferClose =>
        simp [safe] at hsafe
        simp only [Proc.next]
        constructor
        · constructor <;> simp_all
        all_goals simp_all [Step.protected]
      case closeLock =>
        simp [safe] at hsafe
      case exit c =>
        simp only [Proc.next]
        constructor
        · constructor <;> simp_all
        all_goals simp_all [Step.protected]
      case mayExit c =>
        simp [safe] at hsafe
        have hlost : lost = false := by
          cases lost with
          | false => rfl
          | true => rcases h2 rfl rfl with h | h <;> simp at h
        subst hlost
        cases fail
        · simp only [Proc.next]
          constructor
          · constructor <;> simp_all
          all_goals simp_all [Step.protected]
        · simp only [Proc.next]
          constructor
          · constructor <;> simp_all
          all_goals simp_all [Step.protected]

/-! ## Invariant of the world -/

theorem releaseOf_keeps (w : World) (i j : Pid) (g : String) (h : w.table g = some j) (hji : j ≠ i) :
    w.releaseOf i g = some j := by
  unfold World.releaseOf; split
  · exact h
  · rw [Table.release_eq_some]; exact ⟨h, hji⟩

theorem releaseOf_none (w : World) (i : Pid) (g : String) (h : w.table g = none) :
    w.releaseOf i g = none := by
  unfold World.releaseOf; split
  · exact h
  · exact Table.release_none _ _ _ h

/-- Closing the holder's descriptors frees the file — unless a live child has a descriptor of it. -/
theorem releaseOf_holder (w : World) (i : Pid) (g : String) (h : w.table g = some i)
    (hc : w.childHasFd i = false) : w.releaseOf i g = none := by
  unfold World.releaseOf
  rw [hc]; exact Table.release_of_holder _ _ _ h

/-- … and then nothing of `i` is left in the table at all. -/
theorem releaseOf_clears (w : World) (i : Pid) (g : String) (hc : w.childHasFd i = false) :
    w.releaseOf i g ≠ some i := by
  unfold World.releaseOf
  rw [hc]; intro h
  have := (Table.release_eq_some _ _ _ _).1 h
  exact this.2 rfl


structure Inv (w : World) : Prop where
  ok : ∀ i, (w.procs i).OK
  /-- whoever is past its flock step is the holder recorded in the kernel's table -/
  table : ∀ i, (w.procs i).holds = true → w.table (w.procs i).lockFile = some i
  /-- protected steps were executed only by processes that had acquired their lock file -/
  traceEver : ∀ ev ∈ w.trace, ev.step.protected = true →
    (w.procs ev.pid).everHeld = true ∧ ev.file = (w.procs ev.pid).lockFile
  /-- a process that has executed a protected step keeps the lock for as long as it lives -/
  writers : ∀ ev ∈ w.trace, ev.step.protected = true → (w.procs ev.pid).st = .running →
    (w.procs ev.pid).holds = true ∧ (w.procs ev.pid).pinned = true
  /-- a loser is about to print the error, or has printed it, or was killed before it could -/
  msg : ∀ i, (w.procs i).lost = true →
    ((w.procs i).st = .running ∧ (w.procs i).prog = [.printErr, .exit 1]) ∨ (w.procs i).st = .killed ∨
    ∃ ev ∈ w.trace, ev.pid = i ∧ ev.step = .printErr

theorem setProc_same (procs : Pid → Proc) (i : Pid) (p : Proc) : setProc procs i p i = p := by
  simp [setProc]

theorem setProc_other (procs : Pid → Proc) (i j : Pid) (p : Proc) (h : j ≠ i) :
    setProc procs i p j = procs j := by
  simp [setProc, h]

theorem inv_stepProc (w : World) (h : Inv w) (i : Pid) (fail : Bool) : Inv (stepProc w i fail) := by
  unfold stepProc
  by_cases hr : (w.procs i).st = .running
  · simp only [hr, if_true]
    have nf := next_facts (w.procs i) (h.ok i) hr (w.table.free (w.procs i).lockFile) fail
    generalize (w.procs i).next (w.table.free (w.procs i).lockFile) fail = o at nf
    constructor
    · intro j
      by_cases hji : j = i
      · subst hji; simp only [setProc_same]; exact nf.ok
      · simp only [setProc_other _ _ _ _ hji]; exact h.ok j
    · intro j hj
      by_cases hji : j = i
      · subst hji
        simp only [setProc_same] at hj ⊢
        rw [nf.lockFile]
        cases hop : o.op with
        | none => simp only [applyOp]; rw [nf.nop hop] at hj; exact h.table j hj
        | acquire => simp [applyOp]
        | release => rw [nf.rel hop] at hj; cases hj
      · simp only [setProc_other _ _ _ _ hji] at hj ⊢
        have hold := h.table j hj
        cases hop : o.op with
        | none => exact hold
        | acquire =>
          simp only [applyOp]
          have hfree := (nf.acq hop).1
          by_cases hf : (w.procs j).lockFile = (w.procs i).lockFile
          · rw [Table.free_iff, ← hf, hold] at hfree; cases hfree
          · rw [Table.acquire_other _ _ _ _ hf]; exact hold
        | release =>
          simp only [applyOp]
          exact releaseOf_keeps w i j _ hold hji
    · intro ev hev hprot
      simp only [List.mem_append] at hev
      rcases hev with hev | hev
      · -- the new event
        cases hp : (w.procs i).prog with
        | nil => simp [evOf, hp] at hev
        | cons s rest =>
          simp [evOf, hp] at hev
          subst hev
          simp only [setProc_same]
          have hprot' : s.protected = true := hprot
          obtain ⟨hh, _, _⟩ := nf.prot s rest hp hprot'
          exact ⟨nf.ever ((h.ok i).heldEver hh), nf.lockFile.symm⟩
      · obtain ⟨he, hf⟩ := h.traceEver ev hev hprot
        by_cases hji : ev.pid = i
        · rw [hji] at he hf ⊢
          simp only [setProc_same]
          exact ⟨nf.ever he, hf.trans nf.lockFile.symm⟩
        · simp only [setProc_other _ _ _ _ hji]; exact ⟨he, hf⟩
    · intro ev hev hprot hrun
      simp only [List.mem_append] at hev
      rcases hev with hev | hev
      · cases hp : (w.procs i).prog with
        | nil => simp [evOf, hp] at hev
        | cons s rest =>
          simp [evOf, hp] at hev
          subst hev
          simp only [setProc_same] at hrun ⊢
          have hprot' : s.protected = true := hprot
          obtain ⟨hh, hpin, hrun'⟩ := nf.prot s rest hp hprot'
          exact ⟨nf.keeps hh hrun', nf.pinned hpin⟩
      · by_cases hji : ev.pid = i
        · rw [hji] at hrun ⊢
          simp only [setProc_same] at hrun ⊢
          obtain ⟨hh, hpin⟩ := h.writers ev hev hprot (by rw [hji]; exact hr)
          rw [hji] at hh hpin
          exact ⟨nf.keeps hh hrun, nf.pinned hpin⟩
        · simp only [setProc_other _ _ _ _ hji] at hrun ⊢
          exact h.writers ev hev hprot hrun
    · intro j hl
      by_cases hji : j = i
      · subst hji
        simp only [setProc_same] at hl ⊢
        cases hpl : (w.procs j).lost with
        | false => exact Or.inl (nf.lostNew hpl hl)
        | true =>
          rcases h.msg j hpl with ⟨_, hp⟩ | hk | ⟨ev, hev, h1, h2⟩
          · right; right
            refine ⟨⟨j, (w.procs j).lockFile, .printErr, o.ok⟩, ?_, rfl, rfl⟩
            simp [evOf, hp]
          · rw [hk] at hr; cases hr
          · right; right; exact ⟨ev, List.mem_append_right _ hev, h1, h2⟩
      · simp only [setProc_other _ _ _ _ hji] at hl ⊢
        rcases h.msg j hl with h1 | h1 | ⟨ev, hev, h1, h2⟩
        · exact Or.inl h1
        · exact Or.inr (Or.inl h1)
        · right; right; exact ⟨ev, List.mem_append_right _ hev, h1, h2⟩
  · simp only [hr, if_false]; exact h

theorem ok_dead (p : Proc) (h : p.OK) : ({ p with st := .killed, holds := false } : Proc).OK := by
  obtain ⟨h1, h2, h3, h4, h5, h6, h7⟩ := h
  constructor <;> simp_all

theorem inv_kill (w : World) (h : Inv w) (i : Pid) : Inv (exec w (.kill i)) := by
  simp only [exec]
  by_cases hr : (w.procs i).st = .running
  · simp only [hr, if_true]
    constructor
    · intro j
      by_cases hji : j = i
      · subst hji; simp only [setProc_same]; exact ok_dead _ (h.ok j)
      · simp only [setProc_other _ _ _ _ hji]; exact h.ok j
    · intro j hj
      by_cases hji : j = i
      · subst hji; simp [setProc_same] at hj
      · simp only [setProc_other _ _ _ _ hji] at hj ⊢
        exact releaseOf_keeps w i j _ (h.table j hj) hji
    · intro ev hev hprot
      obtain ⟨he, hf⟩ := h.traceEver ev hev hprot
      by_cases hji : ev.pid = i
      · rw [hji] at he hf ⊢; simp only [setProc_same]; exact ⟨he, hf⟩
      · simp only [setProc_other _ _ _ _ hji]; exact ⟨he, hf⟩
    · intro ev hev hprot hrun
      by_cases hji : ev.pid = i
      · rw [hji] at hrun; simp [setProc_same] at hrun
      · simp only [setProc_other _ _ _ _ hji] at hrun ⊢
        exact h.writers ev hev hprot hrun
    · intro j hl
      by_cases hji : j = i
      · subst hji; simp only [setProc_same]; right; left; trivial
      · simp only [setProc_other _ _ _ _ hji] at hl ⊢
        exact h.msg j hl
  · simp only [hr, if_false]; exact h

theorem inv_gc (w : World) (h : Inv w) (i : Pid) : Inv (exec w (.gc i)) := by
  simp only [exec]
  by_cases hg : (w.procs i).gcable = true
  · simp only [hg, if_true]
    have hg' := hg
    simp only [Proc.gcable, Bool.and_eq_true, decide_eq_true_eq, Bool.not_eq_true'] at hg'
    obtain ⟨⟨⟨hr, hh⟩, hpin⟩, hd⟩ := hg'
    have hsafe := (h.ok i).safe hr
    rw [hh, hpin] at hsafe
    obtain ⟨hnf, hsf⟩ := safe_unpinned _ hsafe hd
    constructor
    · intro j
      by_cases hji : j = i
      · subst hji; simp only [setProc_same]
        obtain ⟨h1, h2, h3, h4, h5, h6, h7⟩ := h.ok j
        constructor <;> simp_all
      · simp only [setProc_other _ _ _ _ hji]; exact h.ok j
    · intro j hj
      by_cases hji : j = i
      · subst hji; simp [setProc_same] at hj
      · simp only [setProc_other _ _ _ _ hji] at hj ⊢
        exact releaseOf_keeps w i j _ (h.table j hj) hji
    · intro ev hev hprot
      obtain ⟨he, hf⟩ := h.traceEver ev hev hprot
      by_cases hji : ev.pid = i
      · rw [hji] at he hf ⊢; simp only [setProc_same]; exact ⟨he, hf⟩
      · simp only [setProc_other _ _ _ _ hji]; exact ⟨he, hf⟩
    · intro ev hev hprot hrun
      by_cases hji : ev.pid = i
      · -- a process that has written is pinned, so the finaliser cannot have struck it
        have := (h.writers ev hev hprot (by rw [hji]; exact hr)).2
        rw [hji, hpin] at this; cases this
      · simp only [setProc_other _ _ _ _ hji] at hrun ⊢
        exact h.writers ev hev hprot hrun
    · intro j hl
      by_cases hji : j = i
      · subst hji; simp only [setProc_same] at hl ⊢
        exact h.msg j hl
      · simp only [setProc_other _ _ _ _ hji] at hl ⊢
        exact h.msg j hl
  · simp only [hg]
    exact h

theorem inv_reap (w : World) (h : Inv w) (i : Pid) : Inv (exec w (.reap i)) := by
  simp only [exec]
  by_cases hk : w.kids i = true
  · simp only [hk, if_true]
    constructor
    · exact h.ok
    · intro j hj
      show (if (w.procs i).holds = true then w.table else w.table.release i) (w.procs j).lockFile = some j
      by_cases hh : (w.procs i).holds = true
      · rw [if_pos hh]; exact h.table j hj
      · rw [if_neg hh, Table.release_eq_some]
        refine ⟨h.table j hj, ?_⟩
        intro hji; subst hji; exact hh hj
    · exact h.traceEver
    · exact h.writers
    · exact h.msg
  · simp only [hk]; exact h

theorem inv_cexec (w : World) (h : Inv w) (i : Pid) : Inv (exec w (.cexec i)) := by
  simp only [exec]
  by_cases hk : (w.kids i && w.preExec i) = true
  · simp only [hk, if_true]
    constructor
    · exact h.ok
    · intro j hj
      show (if ((w.procs i).holds || !w.cloexec) = true then w.table else w.table.release i)
        (w.procs j).lockFile = some j
      by_cases hh : ((w.procs i).holds || !w.cloexec) = true
      · rw [if_pos hh]; exact h.table j hj
      · rw [if_neg hh, Table.release_eq_some]
        refine ⟨h.table j hj, ?_⟩
        intro hji; subst hji
        have hj' : (w.procs j).holds = true := hj
        simp [hj'] at hh
    · exact h.traceEver
    · exact h.writers
    · exact h.msg
  · simp only [hk]; exact h

theorem inv_exec (w : World) (h : Inv w) (a : Action) : Inv (exec w a) := by
  cases a with
  | step i => exact inv_stepProc w h i false
  | fail i => exact inv_stepProc w h i true
  | kill i => exact inv_kill w h i
  | gc i => exact inv_gc w h i
  | reap i => exact inv_reap w h i
  | cexec i => exact inv_cexec w h i

theorem inv_run (as : List Action) (w : World) (h : Inv w) : Inv (run as w) := by
  induction as generalizing w with
  | nil => exact h
  | cons a as ih => exact ih _ (inv_exec w h a)

/-- Start of a schedule: nobody holds anything, nothing has happened, and every process that exists
runs a disciplined program. -/
structure Init (w : World) : Prop where
  fresh : ∀ i, (w.procs i).holds = false ∧ (w.procs i).pinned = false ∧ (w.procs i).lost = false ∧
    (w.procs i).everHeld = false
  safe : ∀ i, (w.procs i).st = .running → safe false false (w.procs i).prog = true
  table : ∀ f, w.table f = none
  trace : w.trace = []

theorem inv_init (w : World) (h : Init w) : Inv w := by
  constructor
  · intro i
    obtain ⟨h1, h2, h3, h4⟩ := h.fresh i
    constructor <;> simp_all
    exact h.safe i
  · intro i hi; rw [(h.fresh i).1] at hi; cases hi
  · intro ev hev; rw [h.trace] at hev; cases hev
  · intro ev hev; rw [h.trace] at hev; cases hev
  · intro i hl; rw [(h.fresh i).2.2.1] at hl; cases hl

theorem spec_safe (s : Spec) : safe false false s.prog = true := by
  cases s with
  | mk front arg =>
    cases front
    · show safe false false drcProg = true; decide
    · show safe false false doApproveProg = true; decide

theorem init_mkWorld (specs : List Spec) : Init (mkWorld specs) := by
  constructor
  · intro i; simp only [mkWorld]; split <;> simp [mkProc]
  · intro i; simp only [mkWorld]; split
    · intro _; exact spec_safe _
    · intro h; cases h
  · intro f; rfl
  · rfl

/-! ## Things no action changes -/

theorem next_lockFile (p : Proc) (free fail : Bool) : (p.next free fail).proc.lockFile = p.lockFile := by
  unfold Proc.next
  cases p.prog with
  | nil => rfl
  | cons s rest => cases s <;> simp only <;> split <;> rfl

theorem next_dead (p : Proc) (free fail : Bool) : (p.next free fail).proc.st ≠ .running ∨
    (p.next free fail).proc.st = p.st := by
  unfold Proc.next
  cases p.prog with
  | nil => left; simp
  | cons s rest => cases s <;> simp only <;> (try split) <;> simp

theorem exec_procs_cases (w : World) (a : Action) (j : Pid) :
    (exec w a).procs j = w.procs j ∨
    ((w.procs j).st = .running ∧ ((exec w a).procs j).lockFile = (w.procs j).lockFile) := by
  cases a with
  | step i =>
    simp only [exec, stepProc]
    by_cases hr : (w.procs i).st = .running
    · simp only [hr, if_true]
      by_cases hji : j = i
      · subst hji; right; simp only [setProc_same]; exact ⟨hr, next_lockFile _ _ _⟩
      · left; exact setProc_other _ _ _ _ hji
    · simp [hr]
  | fail i =>
    simp only [exec, stepProc]
    by_cases hr : (w.procs i).st = .running
    · simp only [hr, if_true]
      by_cases hji : j = i
      · subst hji; right; simp only [setProc_same]; exact ⟨hr, next_lockFile _ _ _⟩
      · left; exact setProc_other _ _ _ _ hji
    · simp [hr]
  | kill i =>
    simp only [exec]
    by_cases hr : (w.procs i).st = .running
    · simp only [hr, if_true]
      by_cases hji : j = i
      · subst hji; right; simp only [setProc_same]; exact ⟨hr, trivial⟩
      · left; exact setProc_other _ _ _ _ hji
    · simp [hr]
  | gc i =>
    simp only [exec]
    by_cases hg : (w.procs i).gcable = true
    · simp only [hg, if_true]
      by_cases hji : j = i
      · subst hji; right; simp only [setProc_same]
        simp only [Proc.gcable, Bool.and_eq_true, decide_eq_true_eq] at hg
        exact ⟨hg.1.1.1, trivial⟩
      · left; exact setProc_other _ _ _ _ hji
    · simp [hg]
  | reap i => left; simp only [exec]; split <;> rfl
  | cexec i => left; simp only [exec]; split <;> rfl

theorem lockFile_exec (w : World) (a : Action) (j : Pid) :
    ((exec w a).procs j).lockFile = (w.procs j).lockFile := by
  rcases exec_procs_cases w a j with h | h
  · rw [h]
  · exact h.2

theorem lockFile_run (as : List Action) (w : World) (j : Pid) :
    ((run as w).procs j).lockFile = (w.procs j).lockFile := by
  induction as generalizing w with
  | nil => rfl
  | cons a as ih => exact (ih (exec w a)).trans (lockFile_exec w a j)

theorem exec_trace (w : World) (a : Action) : (exec w a).trace = newEvents w a ++ w.trace := by
  cases a with
  | step i => simp only [exec, stepProc, newEvents]; split <;> simp
  | fail i => simp only [exec, stepProc, newEvents]; split <;> simp
  | kill i => simp only [exec, newEvents]; split <;> simp
  | gc i => simp only [exec, newEvents]; split <;> simp
  | reap i => simp only [exec, newEvents]; split <;> simp
  | cexec i => simp only [exec, newEvents]; split <;> simp

/-- A process that has exited or was killed never comes back. -/
theorem dead_exec (w : World) (a : Action) (j : Pid) (h : (w.procs j).st ≠ .running) :
    (exec w a).procs j = w.procs j := by
  rcases exec_procs_cases w a j with h' | h'
  · exact h'
  · exact absurd h'.1 h

theorem dead_run (as : List Action) (w : World) (j : Pid) (h : (w.procs j).st ≠ .running) :
    (run as w).procs j = w.procs j := by
  induction as generalizing w with
  | nil => rfl
  | cons a as ih =>
    have := dead_exec w a j h
    show (run as (exec w a)).procs j = w.procs j
    rw [ih (exec w a) (by rw [this]; exact h), this]

/-- A new protected event: its author holds the lock of its file, pinned, and keeps running. -/
theorem new_protected (w : World) (h : Inv w) (a : Action) (ev : Ev) (hev : ev ∈ newEvents w a)
    (hprot : ev.step.protected = true) :
    (w.procs ev.pid).holds = true ∧ (w.procs ev.pid).pinned = true ∧
    ev.file = (w.procs ev.pid).lockFile ∧ (w.procs ev.pid).st = .running ∧
    w.table ev.file = some ev.pid := by
  have key : ∀ i fail, (w.procs i).st = .running →
      ev ∈ evOf (w.procs i) i ((w.procs i).next (w.table.free (w.procs i).lockFile) fail).ok →
      (w.procs ev.pid).holds = true ∧ (w.procs ev.pid).pinned = true ∧
      ev.file = (w.procs ev.pid).lockFile ∧ (w.procs ev.pid).st = .running ∧
      w.table ev.file = some ev.pid := by
    intro i fail hr hmem
    have nf := next_facts (w.procs i) (h.ok i) hr (w.table.free (w.procs i).lockFile) fail
    cases hp : (w.procs i).prog with
    | nil => simp [evOf, hp] at hmem
    | cons s rest =>
      simp [evOf, hp] at hmem
      subst hmem
      obtain ⟨hh, hpin, _⟩ := nf.prot s rest hp hprot
      exact ⟨hh, hpin, rfl, hr, h.table i hh⟩
  cases a with
  | step i =>
    simp only [newEvents] at hev
    by_cases hr : (w.procs i).st = .running
    · simp only [hr, if_true] at hev; exact key i false hr hev
    · simp [hr] at hev
  | fail i =>
    simp only [newEvents] at hev
    by_cases hr : (w.procs i).st = .running
    · simp only [hr, if_true] at hev; exact key i true hr hev
    · simp [hr] at hev
  | kill i => simp [newEvents] at hev
  | gc i => simp [newEvents] at hev
  | reap i => simp [newEvents] at hev
  | cexec i => simp [newEvents] at hev

/-! ## Block structure of the trace -/

/-- In a trace (newest first): whenever a protected step of one run is followed by a protected step
of another run for the same lock file, the earlier run never executes a protected step again.
So the protected steps of the runs for one device form disjoint consecutive blocks. -/
def Separated (t : List Ev) : Prop :=
  ∀ t1 e t2, t = t1 ++ e :: t2 → e.step.protected = true →
    ∀ e' ∈ t2, e'.step.protected = true → e'.file = e.file → e'.pid ≠ e.pid →
      ∀ e'' ∈ t1, e''.step.protected = true → e''.pid ≠ e'.pid

/-- … because at that moment the earlier run is already dead. -/
def EarlierDead (w : World) : Prop :=
  ∀ t1 e t2, w.trace = t1 ++ e :: t2 → e.step.protected = true →
    ∀ e' ∈ t2, e'.step.protected = true → e'.file = e.file → e'.pid ≠ e.pid →
      (w.procs e'.pid).st ≠ .running

theorem newEvents_cases (w : World) (a : Action) : newEvents w a = [] ∨ ∃ x, newEvents w a = [x] := by
  cases a <;> simp only [newEvents] <;> (try split) <;> (try (unfold evOf; split)) <;> simp

/-- When a protected step is executed, every other run that has a protected step for the same
lock file in the trace is dead. -/
theorem others_dead (w : World) (h : Inv w) (a : Action) (x : Ev) (hx : x ∈ newEvents w a)
    (hprot : x.step.protected = true) (e' : Ev) (he' : e' ∈ w.trace) (hp' : e'.step.protected = true)
    (hfile : e'.file = x.file) (hpid : e'.pid ≠ x.pid) : (w.procs e'.pid).st ≠ .running := by
  intro hrun
  obtain ⟨_, _, _, _, ht⟩ := new_protected w h a x hx hprot
  obtain ⟨hh', _⟩ := h.writers e' he' hp' hrun
  have ht' := h.table e'.pid hh'
  rw [← (h.traceEver e' he' hp').2, hfile, ht] at ht'
  exact hpid (Option.some.inj ht').symm

theorem sep_exec (w : World) (h : Inv w) (hd : EarlierDead w) (hs : Separated w.trace) (a : Action) :
    EarlierDead (exec w a) ∧ Separated (exec w a).trace := by
  have keep : ∀ j, (w.procs j).st ≠ .running → ((exec w a).procs j).st ≠ .running := by
    intro j hj; rw [dead_exec w a j hj]; exact hj
  rcases newEvents_cases w a with hn | ⟨x, hn⟩
  · have ht : (exec w a).trace = w.trace := by rw [exec_trace, hn]; rfl
    constructor
    · intro t1 e t2 heq hp e' he' hp' hf hpid
      rw [ht] at heq
      exact keep _ (hd t1 e t2 heq hp e' he' hp' hf hpid)
    · rw [ht]; exact hs
  · have ht : (exec w a).trace = x :: w.trace := by rw [exec_trace, hn]; rfl
    have hxmem : x ∈ newEvents w a := by rw [hn]; simp
    constructor
    · intro t1 e t2 heq hp e' he' hp' hf hpid
      rw [ht] at heq
      cases t1 with
      | nil =>
        simp at heq
        obtain ⟨rfl, rfl⟩ := heq
        exact keep _ (others_dead w h a _ hxmem hp e' he' hp' hf hpid)
      | cons y t1' =>
        simp at heq
        exact keep _ (hd t1' e t2 heq.2 hp e' he' hp' hf hpid)
    · rw [ht]
      intro t1 e t2 heq hp e' he' hp' hf hpid e'' he'' hp''
      cases t1 with
      | nil => cases he''
      | cons y t1' =>
        simp at heq
        obtain ⟨rfl, heq⟩ := heq
        have hdead := hd t1' e t2 heq hp e' he' hp' hf hpid
        rcases List.mem_cons.1 he'' with rfl | hmem
        · intro hEq
          have hrun := (new_protected w h a _ hxmem hp'').2.2.2.1
          rw [hEq] at hrun
          exact hdead hrun
        · exact hs t1' e t2 heq hp e' he' hp' hf hpid e'' hmem hp''

theorem sep_run (as : List Action) (w : World) (h : Inv w) (hd : EarlierDead w) (hs : Separated w.trace) :
    EarlierDead (run as w) ∧ Separated (run as w).trace := by
  induction as generalizing w with
  | nil => exact ⟨hd, hs⟩
  | cons a as ih =>
    obtain ⟨hd', hs'⟩ := sep_exec w h hd hs a
    exact ih (exec w a) (inv_exec w h a) hd' hs'

/-! ## Release and re-acquisition -/

theorem next_op_acquire (p : Proc) (free fail : Bool) (h : (p.next free fail).op = .acquire) :
    ∃ rest, p.prog = .flock :: rest := by
  unfold Proc.next at h
  cases hp : p.prog with
  | nil => simp [hp] at h
  | cons s rest =>
    rw [hp] at h
    cases s <;> simp only at h <;> (try split at h) <;> simp at h
    exact ⟨rest, rfl⟩

/-- `attempts w f a`: action `a` is a flock attempt on lock file `f`. -/
def attempts (w : World) (f : String) : Action → Prop
  | .step j | .fail j => (w.procs j).st = .running ∧ (w.procs j).lockFile = f ∧
      ∃ rest, (w.procs j).prog = .flock :: rest
  | _ => False

/-- No action of the schedule is a flock attempt on `f`. -/
def noAttempt (f : String) : World → List Action → Prop
  | _, [] => True
  | w, b :: bs => ¬ attempts w f b ∧ noAttempt f (exec w b) bs

theorem free_stepProc (w : World) (f : String) (hf : w.table f = none) (j : Pid) (fail : Bool)
    (hn : ¬ ((w.procs j).st = .running ∧ (w.procs j).lockFile = f ∧ ∃ rest, (w.procs j).prog = .flock :: rest)) :
    (stepProc w j fail).table f = none := by
  unfold stepProc
  by_cases hr : (w.procs j).st = .running
  · simp only [hr, if_true]
    cases hop : ((w.procs j).next (w.table.free (w.procs j).lockFile) fail).op with
    | none => simp only [applyOp]; exact hf
    | release => simp only [applyOp]; exact releaseOf_none _ _ _ hf
    | acquire =>
      simp only [applyOp]
      have hfl := next_op_acquire _ _ _ hop
      have hne : f ≠ (w.procs j).lockFile := fun h => hn ⟨hr, h.symm, hfl⟩
      rw [Table.acquire_other _ _ _ _ hne]; exact hf
  · simp only [hr, if_false]; exact hf

theorem free_exec (w : World) (f : String) (hf : w.table f = none) (b : Action)
    (hn : ¬ attempts w f b) : (exec w b).table f = none := by
  cases b with
  | step j => exact free_stepProc w f hf j false hn
  | fail j => exact free_stepProc w f hf j true hn
  | kill j => simp only [exec]; split <;> first | exact releaseOf_none _ _ _ hf | exact hf
  | gc j => simp only [exec]; split <;> first | exact releaseOf_none _ _ _ hf | exact hf
  | reap j =>
    simp only [exec]; split
    · show (if (w.procs j).holds = true then w.table else w.table.release j) f = none
      split
      · exact hf
      · exact Table.release_none _ _ _ hf
    · exact hf
  | cexec j =>
    simp only [exec]; split
    · show (if ((w.procs j).holds || !w.cloexec) = true then w.table else w.table.release j) f = none
      split
      · exact hf
      · exact Table.release_none _ _ _ hf
    · exact hf

theorem free_run (bs : List Action) (w : World) (f : String) (hf : w.table f = none)
    (hn : noAttempt f w bs) : (run bs w).table f = none := by
  induction bs generalizing w with
  | nil => exact hf
  | cons b bs ih => exact ih (exec w b) (free_exec w f hf b hn.1) hn.2

/-- A flock attempt on a free lock file succeeds. -/
theorem acquire_free (w : World) (j : Pid) (rest : List Step) (hr : (w.procs j).st = .running)
    (hp : (w.procs j).prog = .flock :: rest) (hf : w.table (w.procs j).lockFile = none) :
    ((exec w (.step j)).procs j).holds = true ∧
    (exec w (.step j)).table (w.procs j).lockFile = some j ∧
    ((exec w (.step j)).procs j).prog = rest := by
  have hfree : w.table.free (w.procs j).lockFile = true := (Table.free_iff _ _).2 hf
  simp [exec, stepProc, hr, setProc_same, Proc.next, hp, hfree, applyOp]

/-- A flock attempt on a held lock file fails at once: the process is a loser, its whole remaining
program is "print the error, exit 1", and the table is untouched. -/
theorem flock_busy (w : World) (h : Inv w) (j i : Pid) (rest : List Step)
    (hr : (w.procs j).st = .running) (hp : (w.procs j).prog = .flock :: rest)
    (hb : w.table (w.procs j).lockFile = some i) :
    ((exec w (.step j)).procs j).lost = true ∧ ((exec w (.step j)).procs j).holds = false ∧
    ((exec w (.step j)).procs j).prog = [.printErr, .exit 1] ∧
    (exec w (.step j)).table = w.table := by
  have hfree : w.table.free (w.procs j).lockFile = false := by
    cases hfr : w.table.free (w.procs j).lockFile with
    | false => rfl
    | true => rw [Table.free_iff, hb] at hfr; cases hfr
  have hsafe := (h.ok j).safe hr
  rw [hp] at hsafe
  simp [safe] at hsafe
  obtain ⟨⟨hh, hg⟩, _⟩ := hsafe
  simp [exec, stepProc, hr, setProc_same, Proc.next, hp, hfree, applyOp, onError, hg, hh]

/-- The step that process `p` is about to execute ends it: end of `Main`, an `exit`, or a
conditional early return that is taken. -/
def endsNow (p : Proc) (fail : Bool) : Prop :=
  p.prog = [] ∨ (∃ c rest, p.prog = .exit c :: rest) ∨ (fail = true ∧ ∃ c rest, p.prog = .mayExit c :: rest)

/-- Death of a holder frees its lock file — provided no live child has a descriptor of it (a child
that has not reached its `exec` yet has one; later only without close-on-exec). -/
theorem death_releases (w : World) (h : Inv w) (i : Pid) (hh : (w.procs i).holds = true)
    (hc : w.childHasFd i = false) :
    (exec w (.kill i)).table (w.procs i).lockFile = none ∧
    (∀ fail, endsNow (w.procs i) fail → (stepProc w i fail).table (w.procs i).lockFile = none) := by
  have hr := (h.ok i).holdsRun hh
  have ht := h.table i hh
  have hrel := releaseOf_holder w i _ ht hc
  constructor
  · simp only [exec, hr, if_true]; exact hrel
  · intro fail hprog
    simp only [stepProc, hr, if_true]
    rcases hprog with hp | ⟨c, rest, hp⟩ | ⟨hf, c, rest, hp⟩
    · simp only [Proc.next, hp, applyOp]; exact hrel
    · simp only [Proc.next, hp, applyOp]; exact hrel
    · subst hf; simp only [Proc.next, hp, applyOp, if_true]; exact hrel

theorem cloexec_exec (w : World) (a : Action) : (exec w a).cloexec = w.cloexec := by
  cases a <;> simp only [exec, stepProc] <;> split <;> rfl

theorem cloexec_run (as : List Action) (w : World) : (run as w).cloexec = w.cloexec := by
  induction as generalizing w with
  | nil => rfl
  | cons a as ih => exact (ih (exec w a)).trans (cloexec_exec w a)

/-! ## Every entry of the lock table is justified (round 3) -/

/-- The kernel's table never shows a holder without a reason: the process named there is past its
flock and alive, or a live child of it still has a descriptor of the lock file (it has not reached
`exec` yet, or the file was opened without close-on-exec). -/
def Justified (w : World) : Prop :=
  ∀ i f, w.table f = some i → (w.procs i).holds = true ∨ w.childHasFd i = true

theorem childHasFd_step (w : World) (i : Pid) (fail : Bool) (k : Pid)
    (h : w.childHasFd k = true) : (stepProc w i fail).childHasFd k = true := by
  unfold stepProc
  by_cases hr : (w.procs i).st = .running
  · simp only [hr, if_true]
    unfold World.childHasFd at h ⊢
    by_cases hs : spawns (w.procs i) = true
    · simp only [hs, if_true]
      by_cases hk : k = i
      · simp [hk]
      · simpa [hk] using h
    · simpa [hs] using h
  · simp only [hr, if_false]; exact h

theorem justified_stepProc (w : World) (h : Inv w) (hj : Justified w) (i : Pid) (fail : Bool) :
    Justified (stepProc w i fail) := by
  by_cases hr : (w.procs i).st = .running
  · intro k f hk
    have nf := next_facts (w.procs i) (h.ok i) hr (w.table.free (w.procs i).lockFile) fail
    have hprocs : ∀ k, k ≠ i → (stepProc w i fail).procs k = w.procs k := by
      intro k hki; simp [stepProc, hr, setProc_other _ _ _ _ hki]
    have hproci : (stepProc w i fail).procs i =
        ((w.procs i).next (w.table.free (w.procs i).lockFile) fail).proc := by
      simp [stepProc, hr, setProc_same]
    have htab : (stepProc w i fail).table = applyOp w.table (w.releaseOf i) (w.procs i).lockFile i
        ((w.procs i).next (w.table.free (w.procs i).lockFile) fail).op := by
      simp [stepProc, hr]
    -- an entry that was there before stays justified
    have old : w.table f = some k → ((stepProc w i fail).procs k).holds = true ∨
        (stepProc w i fail).childHasFd k = true ∨
        (k = i ∧ ((w.procs i).next (w.table.free (w.procs i).lockFile) fail).op = .release) := by
      intro hold
      rcases hj k f hold with hh | hc
      · by_cases hki : k = i
        · subst hki
          cases hop : ((w.procs k).next (w.table.free (w.procs k).lockFile) fail).op with
          | none => left; rw [hproci, nf.nop hop]; exact hh
          | acquire => left; rw [hproci]; exact (nf.acq hop).2
          | release => right; right; exact ⟨rfl, rfl⟩
        · left; rw [hprocs k hki]; exact hh
      · right; left; exact childHasFd_step w i fail k hc
    rw [htab] at hk
    cases hop : ((w.procs i).next (w.table.free (w.procs i).lockFile) fail).op with
    | none =>
      rw [hop] at hk; simp only [applyOp] at hk
      rcases old hk with h1 | h1 | ⟨_, h1⟩
      · exact Or.inl h1
      · exact Or.inr h1
      · rw [hop] at h1; cases h1
    | acquire =>
      rw [hop] at hk; simp only [applyOp] at hk
      by_cases hf : f = (w.procs i).lockFile
      · subst hf
        rw [Table.acquire_same] at hk
        have : k = i := (Option.some.inj hk).symm
        subst this
        left; rw [hproci]; exact (nf.acq hop).2
      · rw [Table.acquire_other _ _ _ _ hf] at hk
        rcases old hk with h1 | h1 | ⟨_, h1⟩
        · exact Or.inl h1
        · exact Or.inr h1
        · rw [hop] at h1; cases h1
    | release =>
      rw [hop] at hk; simp only [applyOp] at hk
      by_cases hc : w.childHasFd i = true
      · have hk' : w.table f = some k := by simpa [World.releaseOf, hc] using hk
        rcases old hk' with h1 | h1 | ⟨rfl, _⟩
        · exact Or.inl h1
        · exact Or.inr h1
        · right; exact childHasFd_step w k fail k hc
      · have hc' : w.childHasFd i = false := by simpa using hc
        have hk' : w.table.release i f = some k := by simpa [World.releaseOf, hc'] using hk
        obtain ⟨hold, hki⟩ := (Table.release_eq_some _ _ _ _).1 hk'
        rcases old hold with h1 | h1 | ⟨rfl, _⟩
        · exact Or.inl h1
        · exact Or.inr h1
        · exact absurd rfl hki
  · simp only [stepProc, hr, if_false]; exact hj

/-- `holds := false` together with `releaseOf`: kill, finaliser. -/
theorem justified_drop (w : World) (hj : Justified w) (i : Pid) (p' : Proc) (_hp : p'.holds = false) :
    ∀ k f, w.releaseOf i f = some k →
      (setProc w.procs i p' k).holds = true ∧ k ≠ i ∨ w.childHasFd k = true := by
  intro k f hk
  by_cases hc : w.childHasFd i = true
  · have hk' : w.table f = some k := by simpa [World.releaseOf, hc] using hk
    by_cases hki : k = i
    · subst hki; right; exact hc
    · rcases hj k f hk' with h1 | h1
      · left; rw [setProc_other _ _ _ _ hki]; exact ⟨h1, hki⟩
      · right; exact h1
  · have hc' : w.childHasFd i = false := by simpa using hc
    have hk' : w.table.release i f = some k := by simpa [World.releaseOf, hc'] using hk
    obtain ⟨hold, hki⟩ := (Table.release_eq_some _ _ _ _).1 hk'
    rcases hj k f hold with h1 | h1
    · left; rw [setProc_other _ _ _ _ hki]; exact ⟨h1, hki⟩
    · right; exact h1

theorem justified_exec (w : World) (h : Inv w) (hj : Justified w) (a : Action) : Justified (exec w a) := by
  cases a with
  | step i => exact justified_stepProc w h hj i false
  | fail i => exact justified_stepProc w h hj i true
  | kill i =>
    simp only [exec]; split
    · intro k f hk
      rcases justified_drop w hj i { w.procs i with st := .killed, holds := false } rfl k f hk with ⟨h1, _⟩ | h1
      · exact Or.inl h1
      · exact Or.inr h1
    · exact hj
  | gc i =>
    simp only [exec]; split
    · intro k f hk
      rcases justified_drop w hj i { w.procs i with holds := false } rfl k f hk with ⟨h1, _⟩ | h1
      · exact Or.inl h1
      · exact Or.inr h1
    · exact hj
  | reap i =>
    simp only [exec]; split
    · intro k f hk
      have hk' : (if (w.procs i).holds = true then w.table else w.table.release i) f = some k := hk
      by_cases hki : k = i
      · subst hki
        by_cases hh : (w.procs k).holds = true
        · exact Or.inl hh
        · rw [if_neg hh] at hk'
          exact absurd rfl ((Table.release_eq_some _ _ _ _).1 hk').2
      · have hold : w.table f = some k := by
          by_cases hh : (w.procs i).holds = true
          · rwa [if_pos hh] at hk'
          · rw [if_neg hh] at hk'; exact ((Table.release_eq_some _ _ _ _).1 hk').1
        rcases hj k f hold with h1 | h1
        · exact Or.inl h1
        · right; unfold World.childHasFd at h1 ⊢; simpa [hki] using h1
    · exact hj
  | cexec i =>
    simp only [exec]; split
    · intro k f hk
      have hk' : (if ((w.procs i).holds || !w.cloexec) = true then w.table else w.table.release i) f = some k := hk
      rename_i hen
      by_cases hki : k = i
      · subst hki
        by_cases hh : (w.procs k).holds = true
        · exact Or.inl hh
        · by_cases hcl : w.cloexec = true
          · have : ((w.procs k).holds || !w.cloexec) = false := by simp [hh, hcl]
            rw [this] at hk'
            exact absurd rfl ((Table.release_eq_some _ _ _ _).1 hk').2
          · right
            have hkids : w.kids k = true := by
              simp only [Bool.and_eq_true] at hen; exact hen.1
            unfold World.childHasFd
            simp [hkids, hcl]
      · have hold : w.table f = some k := by
          by_cases hh : ((w.procs i).holds || !w.cloexec) = true
          · rwa [if_pos hh] at hk'
          · rw [if_neg hh] at hk'; exact ((Table.release_eq_some _ _ _ _).1 hk').1
        rcases hj k f hold with h1 | h1
        · exact Or.inl h1
        · right; unfold World.childHasFd at h1 ⊢; simpa [hki] using h1
    · exact hj

theorem justified_run (as : List Action) (w : World) (h : Inv w) (hj : Justified w) : Justified (run as w) := by
  induction as generalizing w with
  | nil => exact hj
  | cons a as ih => exact ih (exec w a) (inv_exec w h a) (justified_exec w h hj a)

/-- **A lock never outlives its holder for longer than the holder's child needs to `exec`.** In any
reachable world, with the lock file opened close-on-exec: if process `i` is dead (exited or killed),
then once its child — if it has one that is still between fork and exec — has reached `exec` or has
ended, no lock file shows `i` as holder any more. -/
theorem stale_lock_ends (w : World) (h : Inv w) (hj : Justified w) (hc : w.cloexec = true) (i : Pid)
    (hdead : (w.procs i).st ≠ .running) (f : String) :
    (w.preExec i = false ∨ w.kids i = false → w.table f ≠ some i) ∧
    (exec w (.cexec i)).table f ≠ some i ∧ (exec w (.reap i)).table f ≠ some i := by
  have hnh : (w.procs i).holds = false := by
    cases hh : (w.procs i).holds with
    | false => rfl
    | true => exact absurd ((h.ok i).holdsRun hh) hdead
  have base : w.childHasFd i = false → w.table f ≠ some i := by
    intro hcf ht
    rcases hj i f ht with h1 | h1
    · rw [hnh] at h1; cases h1
    · rw [hcf] at h1; cases h1
  refine ⟨?_, ?_, ?_⟩
  · intro hpk; apply base
    unfold World.childHasFd; rcases hpk with h1 | h1 <;> simp [h1, hc]
  · simp only [exec]; split
    · show (if ((w.procs i).holds || !w.cloexec) = true then w.table else w.table.release i) f ≠ some i
      simp only [hnh, hc, Bool.false_or, Bool.not_true]
      intro ht; exact absurd rfl ((Table.release_eq_some _ _ _ _).1 ht).2
    · rename_i hen
      apply base
      unfold World.childHasFd
      cases hk : w.kids i <;> cases hp : w.preExec i <;> simp_all
  · simp only [exec]; split
    · show (if (w.procs i).holds = true then w.table else w.table.release i) f ≠ some i
      simp only [hnh]
      intro ht; exact absurd rfl ((Table.release_eq_some _ _ _ _).1 ht).2
    · rename_i hen
      apply base; unfold World.childHasFd; simp_all

/-! ## One holder against any number of contenders (round 3) -/

/-- A process that has held the lock and lost it (exit, kill, finaliser) never holds it again;
`everHeld` is never forgotten. -/
theorem held_once (w : World) (h : Inv w) (a : Action) (i : Pid) (he : (w.procs i).everHeld = true) :
    ((exec w a).procs i).everHeld = true ∧
    ((w.procs i).holds = false → ((exec w a).procs i).holds = false) := by
  have stepCase : ∀ k fail, ((stepProc w k fail).procs i).everHeld = true ∧
      ((w.procs i).holds = false → ((stepProc w k fail).procs i).holds = false) := by
    intro k fail
    unfold stepProc
    by_cases hr : (w.procs k).st = .running
    · simp only [hr, if_true]
      by_cases hik : i = k
      · subst hik
        simp only [setProc_same]
        have nf := next_facts (w.procs i) (h.ok i) hr (w.table.free (w.procs i).lockFile) fail
        refine ⟨nf.ever he, fun hh => ?_⟩
        cases hop : ((w.procs i).next (w.table.free (w.procs i).lockFile) fail).op with
        | none => rw [nf.nop hop]; exact hh
        | release => exact nf.rel hop
        | acquire =>
          obtain ⟨rest, hp⟩ := next_op_acquire _ _ _ hop
          have := (h.ok i).noRelock hr he hh
          rw [hp] at this; simp at this
      · simp only [setProc_other _ _ _ _ hik]; exact ⟨he, id⟩
    · simp only [hr, if_false]; exact ⟨he, id⟩
  cases a with
  | step k => exact stepCase k false
  | fail k => exact stepCase k true
  | kill k =>
    simp only [exec]; split
    · by_cases hik : i = k
      · subst hik; simp only [setProc_same]; exact ⟨he, fun _ => trivial⟩
      · simp only [setProc_other _ _ _ _ hik]; exact ⟨he, id⟩
    · exact ⟨he, id⟩
  | gc k =>
    simp only [exec]; split
    · by_cases hik : i = k
      · subst hik; simp only [setProc_same]; exact ⟨he, fun _ => trivial⟩
      · simp only [setProc_other _ _ _ _ hik]; exact ⟨he, id⟩
    · exact ⟨he, id⟩
  | reap k => simp only [exec]; split <;> exact ⟨he, id⟩
  | cexec k => simp only [exec]; split <;> exact ⟨he, id⟩

theorem held_once_run (bs : List Action) (w : World) (h : Inv w) (i : Pid)
    (he : (w.procs i).everHeld = true) (hh : (w.procs i).holds = false) :
    ((run bs w).procs i).holds = false := by
  induction bs generalizing w with
  | nil => exact hh
  | cons a bs ih =>
    obtain ⟨he', hh'⟩ := held_once w h a i he
    exact ih (exec w a) (inv_exec w h a) he' (hh' hh)

/-- **One holder, any number of contenders.** From any reachable world in which process `i` holds
its lock file, through ANY further schedule at whose end `i` still holds it (so `i` was neither
killed nor has exited): every protected step executed meanwhile for that lock file — history, log,
status, device — was executed by `i`.  Whatever the other processes are and wherever they stand
(before their flock, at it, behind it as losers), they leave all of that untouched. -/
theorem holder_excludes (bs : List Action) (w : World) (h : Inv w) (i : Pid)
    (hh : (w.procs i).holds = true) (hend : ((run bs w).procs i).holds = true) :
    ∃ np, (run bs w).trace = np ++ w.trace ∧
      ∀ ev ∈ np, ev.step.protected = true → ev.file = (w.procs i).lockFile → ev.pid = i := by
  induction bs generalizing w with
  | nil => exact ⟨[], rfl, fun ev hev => by cases hev⟩
  | cons a bs ih =>
    have he := (h.ok i).heldEver hh
    obtain ⟨he', _⟩ := held_once w h a i he
    have hh1 : ((exec w a).procs i).holds = true := by
      cases hc : ((exec w a).procs i).holds with
      | true => rfl
      | false =>
        have := held_once_run bs (exec w a) (inv_exec w h a) i he' hc
        have hend' : ((run bs (exec w a)).procs i).holds = true := hend
        rw [this] at hend'; cases hend'
    obtain ⟨np1, ht1, hp1⟩ := ih (exec w a) (inv_exec w h a) hh1 hend
    refine ⟨np1 ++ newEvents w a, ?_, ?_⟩
    · show (run bs (exec w a)).trace = _
      rw [ht1, exec_trace, List.append_assoc]
    · intro ev hev hprot hfile
      rcases List.mem_append.1 hev with hm | hm
      · exact hp1 ev hm hprot (by rw [lockFile_exec]; exact hfile)
      · obtain ⟨_, _, _, _, ht⟩ := new_protected w h a ev hm hprot
        have hti := h.table i hh
        rw [← hfile, ht] at hti
        exact Option.some.inj hti

end NA.Lock
