import NA.Model.AsaEngine
/-!
# F1: `generateNamesForTransfer` — freshness and injectivity of `<name>-DRC-<n>`
-/
namespace NA.F1

theorem toString_nat_inj {a b : Nat} (h : toString a = toString b) : a = b := by
  rw [Nat.toString_eq_repr, Nat.toString_eq_repr] at h
  have h' : a.repr.toList = b.repr.toList := by rw [h]
  rw [Nat.toList_repr, Nat.toList_repr] at h'
  have := congrArg (fun l => Nat.ofDigitChars 10 l 0) h'
  simpa [Nat.ofDigitChars_ten_toDigits] using this

theorem drcName_toList (base : Name) (n : Nat) :
    (drcName base n).toList = base.toList ++ ("-DRC-".toList ++ Nat.toDigits 10 n) := by
  simp [drcName, String.toList_append, Nat.toString_eq_repr, Nat.toList_repr]

theorem drcName_inj_idx (base : Name) {a b : Nat} (h : drcName base a = drcName base b) : a = b := by
  have h' := congrArg String.toList h
  rw [drcName_toList, drcName_toList] at h'
  have h2 := List.append_cancel_left (List.append_cancel_left h')
  have := congrArg (fun l => Nat.ofDigitChars 10 l 0) h2
  simpa [Nat.ofDigitChars_ten_toDigits] using this

/-- The tail of digits of a generated name determines where the base name ends: the last
character of `-DRC-` is not a digit. -/
theorem strip_digits (l : List Char) (ds : List Char) (hd : ∀ c ∈ ds, c.isDigit = true) :
    ((l ++ ("-DRC-".toList ++ ds)).reverse.dropWhile Char.isDigit) = "-CRD-".toList ++ l.reverse := by
  have hr : (l ++ ("-DRC-".toList ++ ds)).reverse = ds.reverse ++ ("-CRD-".toList ++ l.reverse) := by
    simp [List.reverse_append]
  rw [hr, List.dropWhile_append_of_pos (fun c hc => hd c (List.mem_reverse.mp hc))]
  rfl

/-- `drcName` is injective in the base name, whatever the bases contain. -/
theorem drcName_inj_base {b₁ b₂ : Name} {n₁ n₂ : Nat} (h : drcName b₁ n₁ = drcName b₂ n₂) : b₁ = b₂ := by
  have h' := congrArg String.toList h
  rw [drcName_toList, drcName_toList] at h'
  have hd : ∀ n, ∀ c ∈ Nat.toDigits 10 n, c.isDigit = true :=
    fun n c hc => Nat.isDigit_of_mem_toDigits (by decide) (by decide) hc
  have e1 := strip_digits b₁.toList _ (hd n₁)
  have e2 := strip_digits b₂.toList _ (hd n₂)
  rw [h'] at e1
  rw [e1] at e2
  have := List.append_cancel_left e2
  exact String.toList_inj.mp (List.reverse_inj.mp this)

theorem firstFree_fresh_aux (base : Name) : ∀ (fuel : Nat) (dev : List Name) (n : Nat) (orig : List Name),
    dev.length < fuel → (∀ k, n ≤ k → (drcName base k ∈ orig ↔ drcName base k ∈ dev)) →
    drcName base (firstFree base fuel dev n) ∉ orig := by
  intro fuel
  induction fuel with
  | zero => intro dev n orig h; omega
  | succ fuel ih =>
    intro dev n orig hl hk
    unfold firstFree
    by_cases hc : dev.contains (drcName base n) = true
    · simp only [hc, if_true]
      have hm : drcName base n ∈ dev := by simpa using hc
      apply ih
      · rw [List.length_erase_of_mem hm]
        have := List.length_pos_of_mem hm
        omega
      · intro k hk'
        rw [hk k (by omega)]
        have hne : drcName base k ≠ drcName base n := fun e => by
          have := drcName_inj_idx base e; omega
        exact (List.mem_erase_of_ne hne).symm
    · simp only [hc]
      have : drcName base n ∉ dev := by simpa using hc
      exact fun h => this ((hk n (Nat.le_refl n)).mp h)

/-- `names_fresh`, first half: the generated name is not a name present on the device. -/
theorem genName_fresh (base : Name) (dev : List Name) : genName base dev ∉ dev :=
  firstFree_fresh_aux base _ dev 0 dev (Nat.lt_succ_self _) (fun _ _ => Iff.rfl)

/-- `names_fresh`, second half: different target names get different generated names
(no hypothesis on `-DRC-` inside the target names is needed). -/
theorem genName_injective {b₁ b₂ : Name} {d₁ d₂ : List Name} (h : genName b₁ d₁ = genName b₂ d₂) : b₁ = b₂ :=
  drcName_inj_base h

/-- Every index below the chosen one is taken on the device (the chosen index is the first free one). -/
theorem firstFree_least_aux (base : Name) : ∀ (fuel : Nat) (dev : List Name) (n : Nat) (orig : List Name),
    (∀ k, n ≤ k → (drcName base k ∈ orig ↔ drcName base k ∈ dev)) →
    ∀ k, n ≤ k → k < firstFree base fuel dev n → drcName base k ∈ orig := by
  intro fuel
  induction fuel with
  | zero => intro dev n orig _ k h1 h2; simp [firstFree] at h2; omega
  | succ fuel ih =>
    intro dev n orig hk k h1 h2
    unfold firstFree at h2
    by_cases hc : dev.contains (drcName base n) = true
    · simp only [hc, if_true] at h2
      have hm : drcName base n ∈ dev := by simpa using hc
      by_cases hkn : k = n
      · subst hkn; exact (hk k (Nat.le_refl k)).mpr hm
      · apply ih (dev.erase (drcName base n)) (n + 1) orig _ k (by omega) h2
        intro j hj
        rw [hk j (by omega)]
        have hne : drcName base j ≠ drcName base n := fun e => by
          have := drcName_inj_idx base e; omega
        exact (List.mem_erase_of_ne hne).symm
    · rw [if_neg hc] at h2
      omega

theorem genName_least (base : Name) (dev : List Name) (k : Nat)
    (h : k < firstFree base (dev.length + 1) dev 0) : drcName base k ∈ dev :=
  firstFree_least_aux base _ dev 0 dev (fun _ _ => Iff.rfl) k (Nat.zero_le k) h

/-- Generated names carry the tag that `deleteUnused` looks for. -/
theorem isInfixL_append (p l r : List Char) : isInfixL p (l ++ (p ++ r)) = true := by
  induction l with
  | nil =>
    cases h : p ++ r with
    | nil => simp at h; simp [isInfixL, h.1]
    | cons c cs =>
      have : p.isPrefixOf (c :: cs) = true := by rw [← h]; simp
      simp [isInfixL, this]
  | cons c l ih => simp [isInfixL, ih]

theorem genName_tagged (base : Name) (dev : List Name) : isTagged (genName base dev) = true := by
  unfold isTagged genName
  rw [drcName_toList]
  exact isInfixL_append _ _ _

end NA.F1
