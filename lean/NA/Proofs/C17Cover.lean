import NA.Gen.Sinks
import NA.Model.MaskFlow
/-!
# C17: which lemma covers which sink call site

`NA.Gen.Sinks.sites` is regenerated from `/repo` on every run by `translate/sinks` (typed call
resolution; EVERY sink call of the module, with its sink kind).  The id of a site hashes its PACKAGE,
its sink kind, its taint CLASS (raw / masked secrets with the failure KIND they came through) and its
ordinal among the sites of that package with the same kind and class (interchangeable) — no function
name, no argument text, no local names, no positions, no ids of clean error sources.  The table below
is written by hand: it maps the id of every site (a hash of package, function, sink, argument text,
taint class and ordinal) to the reason why that site cannot reveal a secret — or to the known
finding F-C17.  A new sink call in scope of a secret, a changed argument, a changed taint class
(e.g. a mask removed) gives an id that is not in the table, and `all_sink_sites_covered`
(NA/Props/C17.lean) no longer checks.
-/
namespace NA.C17
open NA.Gen.Sinks

inductive Cover where
  /-- no secret flows into the arguments -/
  | clean
  /-- argument went through `passRE` (keygen URL): `mask_uri_independent` -/
  | maskUri
  /-- argument went through `keyRE` (keygen response): `mask_body_independent` -/
  | maskBody
  /-- error text went through `passRE`: `mask_error_independent` -/
  | maskError
  /-- NSX login form logged with `j_password=xxx`: `nsx_login_log_independent` -/
  | nsxLogin
  /-- `console.Conn`: device output / regex / command of the change script, never what `Send` got:
      `ssh_log_is_device_output_only` -/
  | deviceOutput
  /-- do-approve copies a run-log line to stdout / history: `allSinks` -/
  | copyOfRunLog
  /-- a primitive write inside a sink wrapper of the module (`errlog.*`, `logHistory`, `abort`, `warn`,
      `logString`): its arguments are the wrapper's parameters, accounted for at every call of the wrapper -/
  | wrapper
  /-- finding F-C17: the unmasked error of a PAN-OS request after login -/
  | fc17
  deriving DecidableEq, Repr

def cover : List (Nat × Cover) := [
  (2492921266, .maskUri),    -- panos, session, M:passRE            #1  (getAPIKey: DoLog(loggedURI))
  (797694342, .maskBody),    -- panos, session, M:keyRE             #1  (getAPIKey: DoLog(loggedBody))
  (3243825016, .maskError),  -- httpdevice, runlog, M:passRE@http.Client.Get[T:key+T:pass] #1 (TryReachableHTTPLogin: Warning(err))
  (3659553034, .fc17)        -- device, runlog, T:key@http.Client.Get[T:key+T:pass]        #1 (ApproveOrCompare: Abort(err))
]

def lookup (id : Nat) : List (Nat × Cover) → Option Cover
  | [] => none
  | (i, c) :: r => if i = id then some c else lookup id r

/-- Is the class the table gives compatible with the taint the translator computed? -/
def compatible (taintCode : Nat) : Cover → Bool
  | .fc17 => taintCode == 9
  | .maskUri | .maskBody | .maskError => taintCode == 1
  | .clean | .nsxLogin | .deviceOutput | .copyOfRunLog | .wrapper => taintCode == 0

/-- A site into which no secret flows (taintCode 0) needs no entry: whatever it writes — a new message,
a renamed local, device output — is independent of the secrets.  A site that receives a secret, raw or
through a redaction step, must be in the table with a compatible class. -/
def siteOk (s : Site) : Bool :=
  match lookup s.id cover with
  | none => s.taintCode == 0
  | some c => compatible s.taintCode c

/-- Sites without a (compatible) entry. -/
def uncovered : List Nat := (sites.filter fun s => !siteOk s).map (·.id)

/-- Sites into which a raw secret flows, as computed from the source. -/
def taintedSites : List Nat := (sites.filter fun s => s.taintCode == 9).map (·.id)

/-- Sites the table attributes to F-C17. -/
def fc17Sites : List Nat := (cover.filter fun p => p.2 == .fc17).map (·.1)

/-! ## failure kinds: calls whose error text embeds the request URL -/

/-- The failure kinds of the run model the generated error sources correspond to. -/
inductive FailureKind where
  /-- `panos.httpGet`: `Reply.terr` of the keygen request (`keygen`) and of every later request (`prefixGet`) -/
  | panosGet
  /-- `url.Parse(addr)` in `getAPIKey`: the device address of the info file, no secret -/
  | panosAddrParse
  /-- NSX session-create `PostForm`: `NsxLogin.terr` -/
  | nsxLoginPost
  /-- NSX `http.NewRequest` / `client.Do`: `Reply.terr` of `nsxReqErr` -/
  | nsxRequest
  deriving DecidableEq, Repr

/-- Hand-written: failure kinds whose URL carries secrets (id = hash of API and URL taint class).
A failure kind with a clean URL needs no entry, wherever the call stands. -/
def sourceKinds : List (Nat × FailureKind) := [
  (197749963, .panosGet)     -- http.Client.Get[T:key+T:pass]  (panos.State.httpGet)
]

def sourceKind (id : Nat) : List (Nat × FailureKind) → Option FailureKind
  | [] => none
  | (i, k) :: r => if i = id then some k else sourceKind id r

/-- Only the URL of the PAN-OS requests may carry secrets. -/
def sourceOk (s : ErrSource) : Bool :=
  s.urlCode == 0 || sourceKind s.id sourceKinds == some .panosGet

def unclassifiedSources : List Nat := (errSources.filter fun s => !sourceOk s).map (·.id)

/-- Flows whose error text still shows a secret at the sink. -/
def rawFlows : List (Nat × Nat) := (errFlows.filter fun f => f.raw).map fun f => (f.source, f.site)

/-! ## where a password can enter -/

/-- What enters at a place where the program reads from outside. -/
inductive InputKind
  | passwordTerminal  -- `term.ReadPassword` in `askPassword` (drc -u USER)
  | passwordFile      -- the credentials file read by `getSystemPassword`
  | flag              -- a command line flag: none takes a password
  | environment       -- an environment variable: none holds a password
  | arguments         -- `os.Args` (usage text, logging of the command line)
  | terminalHandle    -- `os.Stdin` as file descriptor for `term.ReadPassword`
  | dataFile          -- configuration, code, info, status files
  deriving DecidableEq, Repr

def InputKind.isPassword : InputKind → Bool
  | .passwordTerminal | .passwordFile => true
  | _ => false

/-- Hand-written: every regenerated input place (id = hash of package, API, literal name, ordinal). -/
def inputKinds : List (Nat × InputKind) := [
  (2880949429, .dataFile),   -- codefiles.LoadInfoFile: os.Open 
  (518516805, .environment),   -- mytime.Now: os.Getenv TEST_TIME
  (664981419, .dataFile),   -- program.LoadConfig: os.ReadFile 
  (2758447557, .terminalHandle),   -- program.Config.askPassword: os.Stdin 
  (3900004185, .passwordTerminal),   -- program.Config.askPassword: term.ReadPassword 
  (1574504650, .passwordFile),   -- program.Config.getSystemPassword: os.ReadFile 
  (566236935, .dataFile),   -- status.Read: os.ReadFile 
  (3486749826, .environment),   -- httpdevice.GetHTTPClient: os.Getenv SIMULATE_ROUTER
  (1643354683, .environment),   -- panos.State.ApplyCommands$commit: os.Getenv SIMULATE_ROUTER
  (755359375, .environment),   -- console.GetSSHConn: os.Getenv SIMULATE_ROUTER
  (854868184, .environment),   -- linux.State.putScp: os.Getenv SIMULATE_ROUTER
  (3452394867, .dataFile),   -- device.state.loadSpocFile: os.ReadFile 
  (40856948, .arguments),   -- doapprove.Main: os.Args 
  (91189805, .arguments),   -- doapprove.Main$lit1: os.Args 
  (2864344731, .flag),   -- doapprove.Main: flag.BoolP brief
  (299519941, .dataFile),   -- doapprove.Main: os.ReadFile 
  (4229746743, .arguments),   -- drc.Main: os.Args 
  (4246524362, .arguments),   -- drc.Main$lit1: os.Args 
  (963564687, .flag),   -- drc.Main: flag.BoolP compare
  (2287372896, .flag),   -- drc.Main: flag.StringP logdir
  (787952699, .flag),   -- drc.Main: flag.StringP LOGFILE
  (2729896706, .flag),   -- drc.Main: flag.StringP user
  (2186645204, .flag),   -- drc.Main: flag.BoolP quiet
  (391612072, .flag)   -- drc.Main: flag.BoolP version
]

def inputKind (id : Nat) : List (Nat × InputKind) → Option InputKind
  | [] => none
  | (i, k) :: r => if i = id then some k else inputKind id r

/-- Input places the table does not know: a new way for data (a password?) to enter. -/
def unclassifiedInputs : List Nat :=
  (inputs.filter fun i => (inputKind i.id inputKinds).isNone).map (·.id)

/-- Password inputs (by the table) that the taint analysis does not seed. -/
def unseededPasswordInputs : List Nat :=
  (inputs.filter fun i => ((inputKind i.id inputKinds).map (·.isPassword)) == some true && !i.seeded).map (·.id)

/-- Seeded inputs, as the translator sees them. -/
def seededInputs : List Nat := (inputs.filter (·.seeded)).map (·.id)

/-- Flags and environment variables by name. -/
def inputNames (api : String) : List String := (inputs.filter fun i => i.api == api).map (·.lit)

/-! ## runs derived from the regenerated steps -/

open NA.Mask in
/-- A regenerated event as a step of the derived run model: raw secrets keep their label, everything
else (configuration, device output, redacted values) is label 0. -/
def stepOf (e : Event) : NA.Mask.Step :=
  { isSink := e.kind == 0, site := e.site, deps := 0 :: e.secrets }

/-- The steps of a group of packages (1 nsx, 2 ssh back ends + console, 3 panos, 4 the rest). -/
def stepsOf (grp : Nat) : List NA.Mask.Step := (events.filter fun e => e.grp == grp).map stepOf

/-- Is a value carrying exactly these raw secrets transmitted to the device somewhere in the group? -/
def transmits (grp : Nat) (secrets : List Nat) : Bool :=
  events.any fun e => e.grp == grp && e.kind == 1 && e.secrets == secrets

/-- Sink kinds that occur (kindCode of `Site`). -/
def kindsPresent : List Nat := [1, 2, 3, 4, 5, 6].filter fun k => sites.any fun s => s.kindCode == k

end NA.C17
