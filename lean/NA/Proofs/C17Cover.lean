import NA.Gen.Sinks
import NA.Model.MaskFlow
/-!
# C17: which lemma covers which sink call site

`NA.Gen.Sinks.sites` is regenerated from `/repo` on every run by `translate/sinks` (typed call
resolution; EVERY sink call of the module, with its sink kind).  The table below
is written by hand: it maps the id of every site (a hash of package, function, sink, argument text,
taint class and ordinal) to the reason why that site cannot reveal a secret — or to the known
finding F-C17.  A new sink call in scope of a secret, a changed argument, a changed taint class
(e.g. a mask removed) gives an id that is not in the table, and `all_sink_sites_covered`
(NA/Props/C17.lean) no longer checks.
-/
namespace NA.C17
open NA.Gen.Sinks

inductive Cover where
  /-- no secret flows into the arguments -/
  | clean
  /-- argument went through `passRE` (keygen URL): `mask_uri_independent` -/
  | maskUri
  /-- argument went through `keyRE` (keygen response): `mask_body_independent` -/
  | maskBody
  /-- error text went through `passRE`: `mask_error_independent` -/
  | maskError
  /-- argument went through `apiRE` (request URL): `mask_api_uri_independent` -/
  | maskApi
  /-- NSX login form logged with `j_password=xxx`: `nsx_login_log_independent` -/
  | nsxLogin
  /-- `console.Conn`: device output / regex / command of the change script, never what `Send` got:
      `ssh_log_is_device_output_only` -/
  | deviceOutput
  /-- do-approve copies a run-log line to stdout / history: `allSinks` -/
  | copyOfRunLog
  /-- a primitive write inside a sink wrapper of the module (`errlog.*`, `logHistory`, `abort`, `warn`,
      `logString`): its arguments are the wrapper's parameters, accounted for at every call of the wrapper -/
  | wrapper
  /-- finding F-C17: the unmasked error of a PAN-OS request after login -/
  | fc17
  deriving DecidableEq, Repr

def cover : List (Nat × Cover) := [
  (1426961306, .clean),  -- stderr: program.LoadConfig$insert: program.warn("Ignoring key '%s' in %s", key, file)
  (1073036779, .clean),  -- stderr: program.LoadConfig: program.warn("Ignoring line '%s' in %s", line, file)
  (2983541576, .clean),  -- stderr: program.LoadConfig: program.warn("Ignoring duplicate key '%s' in %s", key, file)
  (3454247151, .wrapper),  -- stderr: program.warn: fmt.Fprintf("WARNING>>> " + f + "\n", l)
  (2216227620, .clean),  -- stdout: program.Config.askPassword: fmt.Printf("Enter password for %q: ", c.User)
  (3847446527, .clean),  -- status: status.write: os.WriteFile(data)
  (2977074346, .wrapper),  -- runlog: errlog.Abort: errlog.PrintWithMarker("ERROR>>> ", format, args)
  (1396502767, .wrapper),  -- runlog: errlog.Info: fmt.Fprintf(format + "\n", args)
  (1376859058, .wrapper),  -- runlog: errlog.Warning: errlog.PrintWithMarker("WARNING>>> ", format, args)
  (3576850227, .wrapper),  -- session: errlog.DoLog: fmt.Fprintln(s)
  (1920489586, .clean),  -- runlog: errlog.SetStderrLog: errlog.Abort("Can't %v", err)
  (3237979617, .wrapper),  -- runlog: errlog.PrintWithMarker: fmt.Fprintln(m + out)
  (700362208, .maskError),  -- runlog: httpdevice.TryReachableHTTPLogin: errlog.Warning("%v", err)
  (3227160347, .nsxLogin),  -- session: nsx.State.LoadDevice$lit1: errlog.DoLog("POST " + uri)
  (2387804195, .nsxLogin),  -- session: nsx.State.LoadDevice$lit1: errlog.DoLog(v.Encode())
  (511489133, .nsxLogin),  -- session: nsx.State.LoadDevice$lit1: errlog.DoLog(resp.Status)
  (1169988799, .clean),  -- session: nsx.State.LoadDevice: errlog.DoLog(string(out))
  (2052658711, .clean),  -- session: nsx.State.ApplyCommands: errlog.DoLog(fmt.Sprintf("URI: %s %s", c.method, c.url))
  (4288076833, .clean),  -- session: nsx.State.ApplyCommands: errlog.DoLog("DATA: " + string(c.postData))
  (3834011480, .clean),  -- session: nsx.State.ApplyCommands: errlog.DoLog("RESP: " + string(resp))
  (2577016526, .clean),  -- runlog: nsx.rulesPair.equalizeGroups$equalize: errlog.Abort("Rule %s references group %s not defined in Netspoc config", rb.)
  (1117039505, .clean),  -- runlog: panos.PanConfig.MergeSpoc: errlog.Abort("%v", err)
  (3803006649, .clean),  -- runlog: panos.checkNameClash$clash: errlog.Abort("Name clash for %s '%s' in vsys '%s'", typ, name, v2.Name)
  (4200236841, .maskUri),  -- session: panos.State.getAPIKey: errlog.DoLog(loggedURI)
  (2697921176, .maskBody),  -- session: panos.State.getAPIKey: errlog.DoLog(loggedBody)
  (3936129588, .maskApi),  -- session: panos.State.httpPrefixGetLog: errlog.DoLog(loggedURI)
  (2229408357, .clean),  -- session: panos.State.httpPrefixGetLog: errlog.DoLog(string(body))
  (1840648610, .clean),  -- runlog: panos.vsysInfo.checkGroupCycle$visit: errlog.Abort("Address-group %s of %s must not be member of itself", name, v.v)
  (1916444384, .wrapper),  -- session: console.Conn.logString: (*os.File).Write([]byte(s))
  (834731291, .deviceOutput),  -- session: console.Conn.expectLog: console.Conn.logString(out)
  (3330218861, .deviceOutput),  -- runlog: console.Conn.WaitLogin: errlog.Abort("while waiting for login prompt '%s': %v", prompt, err)
  (571890465, .deviceOutput),  -- runlog: console.Conn.WaitShort: errlog.Abort("while waiting for prompt '%s': %v", prompt, err)
  (3014076404, .deviceOutput),  -- runlog: console.Conn.waitPrompt: errlog.Abort("while waiting for prompt '%s': %v", re, err)
  (2975503333, .deviceOutput),  -- session: console.Conn.TryPrompt: console.Conn.logString(out)
  (1216371541, .deviceOutput),  -- runlog: console.Conn.StripStdPrompt: errlog.Abort("Missing prompt '%s' in response:\n'%v'", c.promptRE, s)
  (3433759965, .deviceOutput),  -- runlog: console.Conn.StripEcho: errlog.Abort("Got unexpected echo in response to '%s':\n%v", cShort, s)
  (1217757606, .clean),  -- runlog: linux.config.MergeSpoc: errlog.Info("Adding all chains of table %q", tName)
  (2896584212, .clean),  -- runlog: linux.config.MergeSpoc: errlog.Info("Adding chain %q of table %q", cName, tName)
  (138981777, .clean),  -- runlog: linux.config.MergeSpoc: errlog.Abort("Must not redefine chain %q of table %q from rawdata", cName, tN)
  (2544861981, .clean),  -- runlog: linux.State.loginEnable: errlog.Abort("Authentication failed")
  (2348113633, .clean),  -- runlog: linux.State.checkDeviceName: errlog.Abort("Wrong device name: %q, expected: %q", out, name)
  (357488966, .clean),  -- runlog: linux.State.ApplyCommands: errlog.Info("Changing iptables running config")
  (1227911293, .clean),  -- runlog: linux.State.cmd$check: errlog.Abort("Got unexpected output from '%s':\n%s", ci, out)
  (2540034090, .clean),  -- runlog: linux.State.cmd: errlog.Abort("%s failed (exit status)", strings.Replace(c, "\n", "\\N ", 1))
  (3687608776, .clean),  -- runlog: linux.State.findIPTablesRestoreCmd: errlog.Abort("Can't find path of 'iptables-restore'")
  (2521483344, .clean),  -- runlog: linux.createTemp: errlog.Abort("can't %v", err)
  (590331065, .clean),  -- tempfile: linux.State.writeStartup: fmt.Fprintln(entry)
  (650155503, .clean),  -- runlog: linux.State.putScp: errlog.Info("Executing %s", cmd)
  (3392866934, .clean),  -- runlog: linux.State.putScp: errlog.Abort("%s failed: %v", cmd, err)
  (2771926209, .clean),  -- runlog: linux.parseRoutes: errlog.Abort("Unexpected route: %s", line)
  (2721593352, .clean),  -- runlog: linux.parseRoutes: errlog.Abort("Unexpected route: %s", line)
  (2738370971, .clean),  -- runlog: linux.parseRoutes: errlog.Abort("Unexpected route: %s", line)
  (699153998, .clean),  -- runlog: linux.State.parseIPTables: errlog.Abort("Duplicate definition of table %q", name)
  (500415177, .clean),  -- runlog: linux.State.parseIPTables: errlog.Abort("Found chain policy outside of table: %q", line)
  (2053131115, .clean),  -- runlog: linux.State.parseIPTables: errlog.Abort("Duplicate definition of chain %q", name)
  (3575798326, .clean),  -- runlog: linux.State.parseIPTables: errlog.Abort("Found rule outside of table: %q", line)
  (558206277, .clean),  -- runlog: linux.State.parseIPTables: errlog.Abort("Unsupported command %q", words[0])
  (4036031923, .clean),  -- runlog: linux.State.parseIPTables: errlog.Abort("Incomplete command %q", line)
  (1952996750, .clean),  -- runlog: linux.State.parseIPTables: errlog.Abort("Must define policy before adding rules of chain %q", name)
  (2117441651, .clean),  -- runlog: linux.State.parseIPTables: errlog.Abort("Unexpected trailing '!' in line\n %s", line)
  (2696918469, .clean),  -- runlog: linux.State.parseIPTables: errlog.Abort("Unknown command: %q", line)
  (169398385, .clean),  -- runlog: cisco.Config.MergeSpoc: errlog.Abort("Command '%s' not supported in raw file", prefix)
  (3566671858, .clean),  -- runlog: cisco.Config.MergeSpoc: errlog.Warning(w)
  (4128988398, .clean),  -- runlog: cisco.mergeRefs: errlog.Abort("Name clash for '%s %s' from raw", prefix, bName)
  (2816566019, .clean),  -- runlog: cisco.mergeRefs: errlog.Abort("Must reference '%s %s' only once in raw", prefix, bName)
  (4112210779, .clean),  -- runlog: cisco.mergeRefs: errlog.Abort("Name clash for '%s %s' from raw", prefix, bName)
  (2833343638, .clean),  -- runlog: cisco.mergeRefs: errlog.Abort("Must reference '%s %s' only once in raw", prefix, bName)
  (3641969052, .clean),  -- runlog: cisco.State.LoginEnable: errlog.Abort("Authentication for enable mode failed")
  (2272147273, .clean),  -- runlog: cisco.State.LoginEnable: errlog.Abort("Authentication failed")
  (2472794488, .clean),  -- runlog: cisco.State.diffIOSACLs: errlog.Abort("Can't insert more than 9999 ACL lines at once")
  (975308388, .clean),  -- runlog: cisco.State.diffRoutes: errlog.Info("No %s routing specified%s, leaving untouched", ipv, forVRF)
  (3030466106, .clean),  -- runlog: cisco.State.addCmds$add: errlog.Abort("'%s %s' must be transferred manually", prefix, name)
  (3743337501, .clean),  -- runlog: cisco.matchCryptoMap$getPeer: errlog.Abort("Missing peer or dynamic in crypto map %s %d", name, seq)
  (2502471318, .clean),  -- runlog: cisco.dstOfRoute$need: errlog.Abort("Incomplete command: %s", c.orig)
  (263699527, .clean),  -- runlog: cisco.dstOfRoute: errlog.Abort("Missing IPv6 prefix in: %s", c.orig)
  (3118206848, .clean),  -- runlog: cisco.State.checkASAInterfaces: errlog.Warning("Interface '%s' on device is not known by Netspoc", name)
  (3467279565, .clean),  -- runlog: cisco.State.checkIOSInterfaces: errlog.Warning("Different address defined for interface %s:" + " Device: %q, Ne)
  (3326433818, .clean),  -- runlog: cisco.State.checkIOSInterfaces: errlog.Warning("Interface '%s' on device is not known by Netspoc", name)
  (1175934409, .clean),  -- runlog: cisco.State.alignVRFs$routeVRF: errlog.Abort("Incomplete command: %s", c.orig)
  (57027769, .clean),  -- runlog: cisco.State.alignVRFs: errlog.Info("Leaving VRF %s untouched", vrf)
  (698495856, .clean),  -- runlog: cisco.postprocessParsed$setTransRef: errlog.Abort("Too many names (max. 11) in: %s", c.orig)
  (2889098575, .clean),  -- runlog: cisco.postprocessParsed: errlog.Abort("Incomplete command: %s", c.orig)
  (3451097736, .clean),  -- runlog: cisco.postprocessParsed: errlog.Abort("aaa-server %s must not use different values" + " in 'ldap-attri)
  (873580146, .clean),  -- runlog: cisco.postprocessACLParts$need: errlog.Abort("Incomplete command: %s", c.orig)
  (4176661979, .clean),  -- runlog: ios.State.LoadDevice: errlog.Info("Requesting device config")
  (3049987104, .clean),  -- runlog: ios.State.LoadDevice: errlog.Info("Got device config")
  (919505617, .clean),  -- runlog: ios.State.LoadDevice: errlog.Info("Parsed device config")
  (4076438413, .clean),  -- runlog: ios.State.checkDeviceName: errlog.Abort("Wrong device name: %q, expected: %q", out, name)
  (4209456557, .clean),  -- runlog: ios.State.writeMem: errlog.Abort("write mem: startup-config open failed - giving up")
  (2112386411, .clean),  -- runlog: ios.State.writeMem: errlog.Abort("write mem: unexpected result: %s", out)
  (1015451057, .clean),  -- runlog: ios.State.cmd$check: errlog.Abort("Got unexpected output from '%s':\n%s", ci, out)
  (3282946265, .clean),  -- runlog: ios.isValidOutput: errlog.Warning("Got unexpected output from '%s':\n%s", cmd, line)
  (2290859593, .clean),  -- runlog: ios.State.stripReloadBanner: errlog.Info("Found banner before output, expecting another prompt")
  (1374261373, .clean),  -- runlog: ios.State.stripReloadBanner: errlog.Info("Found banner after output, checking another prompt")
  (1613414424, .clean),  -- runlog: ios.State.stripReloadBanner: errlog.Info("- Found prompt")
  (377219855, .clean),  -- runlog: asa.State.LoadDevice: errlog.Info("Requesting device config")
  (2824083316, .clean),  -- runlog: asa.State.LoadDevice: errlog.Info("Got device config")
  (2755228629, .clean),  -- runlog: asa.State.LoadDevice: errlog.Info("Parsed device config")
  (1279131209, .clean),  -- runlog: asa.State.checkDeviceName: errlog.Abort("Wrong device name: %q, expected: %q", out, name)
  (1723310009, .clean),  -- runlog: asa.State.ApplyCommands: errlog.Abort("Command 'write memory' failed, missing [OK] in output:\n%s", ou)
  (994375333, .clean),  -- runlog: asa.State.cmd$check: errlog.Abort("Got unexpected output from '%s':\n%s", ci, out)
  (3255740205, .clean),  -- runlog: asa.isValidOutput: errlog.Warning("Got unexpected output from '%s':\n%s", cmd, line)
  (2784897780, .clean),  -- runlog: device.getRealDevice: errlog.Abort("Unexpected model %q in file %s.info\n", info.Model, fname)
  (89461454, .fc17),  -- runlog: device.ApproveOrCompare$lit1: errlog.Abort("%v", err)
  (2232016160, .clean),  -- runlog: device.CompareFiles$lit1: errlog.Abort("%v", err)
  (2282349017, .clean),  -- runlog: device.CompareFiles$lit1: errlog.Abort("%v", err)
  (528105773, .clean),  -- stdout: device.CompareFiles$lit1: fmt.Print(s.ShowChanges())
  (2884083270, .clean),  -- runlog: device.state.compare: errlog.Warning("%v", w)
  (2575302032, .clean),  -- session: device.state.compare: fmt.Fprint(s.ShowChanges())
  (2701900043, .clean),  -- session: device.state.applyCommands: errlog.DoLog("No changes applied")
  (1255930830, .clean),  -- runlog: device.state.showCompareInfo: errlog.Info("comp: device unchanged")
  (749016665, .clean),  -- runlog: device.state.showCompareInfo: errlog.Info("comp: *** device changed ***")
  (608377184, .clean),  -- stderr: doapprove.Main$lit1: fmt.Fprintf("Usage: %s [options] approve|compare DEVICE\n%s", os.Args[0], fs)
  (1019141266, .clean),  -- stderr: doapprove.Main: fmt.Fprintf("Error: %v\n", err)
  (3993843838, .clean),  -- stderr: doapprove.Main: doapprove.abort("%v", err)
  (2490239823, .clean),  -- stderr: doapprove.Main: doapprove.abort("Can't get 'current' policy directory: %v", err)
  (3858590340, .clean),  -- stderr: doapprove.Main: doapprove.abort("unknown device %q", devName)
  (3977066219, .clean),  -- stderr: doapprove.Main: doapprove.abort("%v", err)
  (28087493, .clean),  -- stderr: doapprove.Main: doapprove.abort("can't %v", err)
  (3351421981, .clean),  -- history: doapprove.Main: doapprove.logHistory(hLog, "START:", strings.Join(os.Args[1:], " "))
  (923939698, .clean),  -- history: doapprove.Main: doapprove.logHistory(hLog, "POLICY:", policy)
  (4272721932, .clean),  -- stderr: doapprove.Main: doapprove.abort("can't %v", err)
  (4019692479, .copyOfRunLog),  -- stdout: doapprove.Main: fmt.Printf("%s:%s\n", devName, line)
  (3136646267, .copyOfRunLog),  -- stdout: doapprove.Main: fmt.Println(line)
  (3043593554, .copyOfRunLog),  -- history: doapprove.Main: doapprove.logHistory(hLog, "RES:", line)
  (1161963054, .clean),  -- stderr: doapprove.Main: fmt.Fprintf("%s, details in %s\n", okMsg, logFile)
  (3833772354, .clean),  -- history: doapprove.Main: doapprove.logHistory(hLog, "END:", okMsg)
  (1755246534, .wrapper),  -- history: doapprove.logHistory: fmt.Fprintln(slices.Concat([]any{prefix}, args))
  (3935597105, .wrapper),  -- stderr: doapprove.abort: fmt.Fprintf("Error: " + format + "\n", args)
  (1779343036, .clean),  -- stderr: drc.Main$lit1: fmt.Fprintf("Usage: %s [options] FILE1\n" + " : %s [-q] FILE1 FILE2\n", prog)
  (254340338, .clean),  -- stderr: drc.Main: fmt.Fprintf("Error: %v\n", err)
  (3357906566, .clean),  -- stderr: drc.Main: fmt.Fprintf("version %s\n", version)
  (1557844669, .clean),  -- stderr: drc.Main: drc.abort("%v", err)
  (1507511812, .clean),  -- stderr: drc.Main: drc.abort("%v", err)
  (1703673297, .wrapper)   -- stderr: drc.abort: fmt.Fprintf("Error: " + format + "\n", args)
]

def lookup (id : Nat) : List (Nat × Cover) → Option Cover
  | [] => none
  | (i, c) :: r => if i = id then some c else lookup id r

/-- Is the class the table gives compatible with the taint the translator computed? -/
def compatible (taintCode : Nat) : Cover → Bool
  | .fc17 => taintCode == 9
  | .maskUri | .maskBody | .maskError | .maskApi => taintCode == 1
  | .clean | .nsxLogin | .deviceOutput | .copyOfRunLog | .wrapper => taintCode == 0

def siteOk (s : Site) : Bool :=
  match lookup s.id cover with
  | none => false
  | some c => compatible s.taintCode c

/-- Sites without a (compatible) entry. -/
def uncovered : List Nat := (sites.filter fun s => !siteOk s).map (·.id)

/-- Sites into which a raw secret flows, as computed from the source. -/
def taintedSites : List Nat := (sites.filter fun s => s.taintCode == 9).map (·.id)

/-- Sites the table attributes to F-C17. -/
def fc17Sites : List Nat := (cover.filter fun p => p.2 == .fc17).map (·.1)

/-! ## failure kinds: calls whose error text embeds the request URL -/

/-- The failure kinds of the run model the generated error sources correspond to. -/
inductive FailureKind where
  /-- `panos.httpGet`: `Reply.terr` of the keygen request (`keygen`) and of every later request (`prefixGet`) -/
  | panosGet
  /-- `url.Parse(addr)` in `getAPIKey`: the device address of the info file, no secret -/
  | panosAddrParse
  /-- NSX session-create `PostForm`: `NsxLogin.terr` -/
  | nsxLoginPost
  /-- NSX `http.NewRequest` / `client.Do`: `Reply.terr` of `nsxReqErr` -/
  | nsxRequest
  deriving DecidableEq, Repr

/-- Hand-written: generated source id → failure kind of the model. -/
def sourceKinds : List (Nat × FailureKind) := [
  (31414, .panosGet),        -- panos.State.httpGet: s.client.Get(uri)
  (57134, .panosAddrParse),  -- panos.State.getAPIKey: url.Parse(addr)
  (8478, .nsxLoginPost),     -- nsx.State.LoadDevice$lit1: s.client.PostForm(uri, v)
  (67010, .nsxRequest),      -- nsx.State.sendRequest: http.NewRequest(method, s.prefix+path, body)
  (70132, .nsxRequest)       -- nsx.State.sendRequest: s.client.Do(req)
]

def sourceKind (id : Nat) : List (Nat × FailureKind) → Option FailureKind
  | [] => none
  | (i, k) :: r => if i = id then some k else sourceKind id r

/-- Only the URL of the PAN-OS requests carries secrets. -/
def sourceOk (s : ErrSource) : Bool :=
  match sourceKind s.id sourceKinds with
  | some .panosGet => s.urlCode == 9
  | some _ => s.urlCode == 0
  | none => false

def unclassifiedSources : List Nat := (errSources.filter fun s => !sourceOk s).map (·.id)

/-- Flows whose error text still shows a secret at the sink. -/
def rawFlows : List (Nat × Nat) := (errFlows.filter fun f => f.raw).map fun f => (f.source, f.site)

/-! ## runs derived from the regenerated steps -/

open NA.Mask in
/-- A regenerated event as a step of the derived run model: raw secrets keep their label, everything
else (configuration, device output, redacted values) is label 0. -/
def stepOf (e : Event) : NA.Mask.Step :=
  { isSink := e.kind == 0, site := e.site, deps := 0 :: e.secrets }

/-- The steps of a group of packages (1 nsx, 2 ssh back ends + console, 3 panos, 4 the rest). -/
def stepsOf (grp : Nat) : List NA.Mask.Step := (events.filter fun e => e.grp == grp).map stepOf

/-- Kind and raw secrets of the steps of one function, in source order. -/
def shapeOf (fnId : Nat) : List (Nat × List Nat) := (events.filter fun e => e.fnId == fnId).map fun e => (e.kind, e.secrets)

/-- Sink kinds that occur (kindCode of `Site`). -/
def kindsPresent : List Nat := [1, 2, 3, 4, 5, 6].filter fun k => sites.any fun s => s.kindCode == k

end NA.C17
