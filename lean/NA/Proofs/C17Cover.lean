import NA.Gen.Sinks
/-!
# C17: which lemma covers which sink call site

`NA.Gen.Sinks.sites` is regenerated from `/repo` on every run by `translate/sinks`.  The table below
is written by hand: it maps the id of every site (a hash of package, function, sink, argument text,
taint class and ordinal) to the reason why that site cannot reveal a secret — or to the known
finding F-C17.  A new sink call in scope of a secret, a changed argument, a changed taint class
(e.g. a mask removed) gives an id that is not in the table, and `all_sink_sites_covered`
(NA/Props/C17.lean) no longer checks.
-/
namespace NA.C17
open NA.Gen.Sinks

inductive Cover where
  /-- no secret flows into the arguments -/
  | clean
  /-- argument went through `passRE` (keygen URL): `mask_uri_independent` -/
  | maskUri
  /-- argument went through `keyRE` (keygen response): `mask_body_independent` -/
  | maskBody
  /-- error text went through `passRE`: `mask_error_independent` -/
  | maskError
  /-- argument went through `apiRE` (request URL): `mask_api_uri_independent` -/
  | maskApi
  /-- NSX login form logged with `j_password=xxx`: `nsx_login_log_independent` -/
  | nsxLogin
  /-- `console.Conn`: device output / regex / command of the change script, never what `Send` got:
      `ssh_log_is_device_output_only` -/
  | deviceOutput
  /-- do-approve copies a run-log line to stdout / history: `allSinks` -/
  | copyOfRunLog
  /-- finding F-C17: the unmasked error of a PAN-OS request after login -/
  | fc17
  deriving DecidableEq, Repr

def cover : List (Nat × Cover) := [
  (1097982418, .clean),  -- asa.State.LoadDevice: errlog.Info("Requesting device config")
  (1447683387, .clean),  -- asa.State.LoadDevice: errlog.Info("Got device config")
  (718889256, .clean),  -- asa.State.LoadDevice: errlog.Info("Parsed device config")
  (124531207, .clean),  -- cisco.State.LoginEnable: errlog.Abort("Authentication for enable mode failed")
  (2809980118, .clean),  -- cisco.State.LoginEnable: errlog.Abort("Authentication failed")
  (2553024031, .deviceOutput),  -- console.Conn.logString: fh.Write([]byte(s))
  (34728130, .deviceOutput),  -- console.Conn.WaitLogin: errlog.Abort("while waiting for login prompt '%s': %v", prompt, err)
  (2747855576, .deviceOutput),  -- console.Conn.WaitShort: errlog.Abort("while waiting for prompt '%s': %v", prompt, err)
  (1965117049, .deviceOutput),  -- console.Conn.waitPrompt: errlog.Abort("while waiting for prompt '%s': %v", re, err)
  (465501159, .deviceOutput),  -- console.Conn.StripStdPrompt: errlog.Abort("Missing prompt '%s' in response:\n'%v'", c.promptRE, s)
  (1995115835, .deviceOutput),  -- console.Conn.StripEcho: errlog.Abort("Got unexpected echo in response to '%s':\n%v", cShort, s)
  (1777840621, .fc17),  -- device.ApproveOrCompare$lit1: errlog.Abort("%v", err)
  (2637906826, .clean),  -- device.state.compare: errlog.Warning("%v", w)
  (1300919655, .clean),  -- device.state.compare: fmt.Fprint(logFH, s.ShowChanges())
  (1567929003, .clean),  -- device.state.applyCommands: errlog.DoLog(logFH, "No changes applied")
  (1979259152, .clean),  -- doapprove.Main$lit1: fmt.Fprintf(os.Stderr, "Usage: %s [options] approve|compare DEVICE\n%s", os.Args[0)
  (2795548354, .clean),  -- doapprove.Main: fmt.Fprintf(os.Stderr, "Error: %v\n", err)
  (1158433574, .clean),  -- doapprove.Main: abort("%v", err)
  (3036082519, .clean),  -- doapprove.Main: abort("Can't get 'current' policy directory: %v", err)
  (429582780, .clean),  -- doapprove.Main: abort("unknown device %q", devName)
  (1141655955, .clean),  -- doapprove.Main: abort("%v", err)
  (4279506205, .clean),  -- doapprove.Main: abort("can't %v", err)
  (1641851781, .clean),  -- doapprove.Main: logHistory(hLog, "START:", strings.Join(os.Args[1:], " "))
  (1374143802, .clean),  -- doapprove.Main: logHistory(hLog, "POLICY:", policy)
  (4229173348, .clean),  -- doapprove.Main: abort("can't %v", err)
  (3896769818, .copyOfRunLog),  -- doapprove.Main: fmt.Printf("%s:%s\n", devName, line)
  (1001486910, .copyOfRunLog),  -- doapprove.Main: fmt.Println(line)
  (3640568634, .copyOfRunLog),  -- doapprove.Main: logHistory(hLog, "RES:", line)
  (4278961598, .clean),  -- doapprove.Main: fmt.Fprintf(os.Stderr, "%s, details in %s\n", okMsg, logFile)
  (3847597962, .clean),  -- doapprove.Main: logHistory(hLog, "END:", okMsg)
  (543192318, .clean),  -- doapprove.logHistory: fmt.Fprintln(fh, slices.Concat([]any{prefix}, args))
  (486728807, .clean),  -- doapprove.abort: fmt.Fprintf(os.Stderr, "Error: " + format + "\n", args)
  (1926030319, .maskError),  -- httpdevice.TryReachableHTTPLogin: errlog.Warning("%v", err)
  (2067641478, .clean),  -- ios.State.LoadDevice: errlog.Info("Requesting device config")
  (498622143, .clean),  -- ios.State.LoadDevice: errlog.Info("Got device config")
  (4213378348, .clean),  -- ios.State.LoadDevice: errlog.Info("Parsed device config")
  (1538194706, .clean),  -- linux.State.loginEnable: errlog.Abort("Authentication failed")
  (2723757662, .nsxLogin),  -- nsx.State.LoadDevice$lit1: errlog.DoLog(logLogin, "POST " + uri)
  (1865173556, .nsxLogin),  -- nsx.State.LoadDevice$lit1: errlog.DoLog(logLogin, v.Encode())
  (2537087225, .nsxLogin),  -- nsx.State.LoadDevice$lit1: errlog.DoLog(logLogin, resp.Status)
  (3562657534, .clean),  -- nsx.State.LoadDevice: errlog.DoLog(logConfig, string(out))
  (1156911275, .maskUri),  -- panos.State.getAPIKey: errlog.DoLog(logFH, loggedURI)
  (1050534381, .maskBody),  -- panos.State.getAPIKey: errlog.DoLog(logFH, loggedBody)
  (2398201531, .maskApi),  -- panos.State.httpPrefixGetLog: errlog.DoLog(logFH, loggedURI)
  (1213084796, .clean),  -- panos.State.httpPrefixGetLog: errlog.DoLog(logFH, string(body))
  (3437439013, .clean)   -- program.Config.askPassword: fmt.Printf("Enter password for %q: ", c.User)
]

def lookup (id : Nat) : List (Nat × Cover) → Option Cover
  | [] => none
  | (i, c) :: r => if i = id then some c else lookup id r

/-- Is the class the table gives compatible with the taint the translator computed? -/
def compatible (taintCode : Nat) : Cover → Bool
  | .fc17 => taintCode == 9
  | .maskUri | .maskBody | .maskError | .maskApi => taintCode == 1
  | .clean | .nsxLogin | .deviceOutput | .copyOfRunLog => taintCode == 0

def siteOk (s : Site) : Bool :=
  match lookup s.id cover with
  | none => false
  | some c => compatible s.taintCode c

/-- Sites without a (compatible) entry. -/
def uncovered : List Nat := (sites.filter fun s => !siteOk s).map (·.id)

/-- Sites into which a raw secret flows, as computed from the source. -/
def taintedSites : List Nat := (sites.filter fun s => s.taintCode == 9).map (·.id)

/-- Sites the table attributes to F-C17. -/
def fc17Sites : List Nat := (cover.filter fun p => p.2 == .fc17).map (·.1)

end NA.C17
