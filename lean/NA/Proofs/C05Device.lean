import NA.Proofs.C05Whole
/-!
C05 (round 3): the device path.  `getDeviceRoutes` on the whole output of `ip route show` and
`getDeviceIPTables` on the whole output of `iptables-save`.
-/
namespace NA.C05
open NA.Linux NA.Linux.Spec

/-- lines, each terminated by a newline -/
def unlines (l : List Str) : Str := l.flatMap (· ++ ['\n'])

theorem unlines_join (l : List Str) : unlines l = joinWith ['\n'] (l ++ [[]]) := by
  induction l with
  | nil => rfl
  | cons x xs ih =>
    cases xs with
    | nil => simp [unlines, joinWith]
    | cons y ys =>
      have : unlines (x :: y :: ys) = x ++ ['\n'] ++ unlines (y :: ys) := by simp [unlines]
      rw [this, ih]; simp [joinWith]

theorem split_unlines (l : List Str) (h : ∀ x ∈ l, '\n' ∉ x) : splitChar (unlines l) '\n' = l ++ [[]] := by
  rw [unlines_join]
  exact splitChar_join '\n' _ (by simp) (by
    intro x hx
    rcases List.mem_append.mp hx with h1 | h1
    · exact h x h1
    · simp at h1; subst h1; simp)

/-- A route of the kernel table as the spec prints it. -/
structure RouteEntry where
  ip : Str
  n : Nat
  hop : Str
  dev : Option Str

def RouteEntry.ok (e : RouteEntry) : Prop :=
  ipTok e.ip = true ∧ ipTok e.hop = true ∧ e.n ≤ 32 ∧ ∀ d, e.dev = some d → Tok d

def RouteEntry.key (e : RouteEntry) : Spec.RKey := (e.ip, Int.ofNat e.n, e.hop)
def RouteEntry.show (e : RouteEntry) : Str := routeShow e.key e.dev

theorem tok_nonl {w : Str} (h : Tok w) : '\n' ∉ w := by
  intro hm; have := h.2 _ hm; simp [isSpace] at this

theorem show_nonl (e : RouteEntry) (h : e.ok) : '\n' ∉ e.show := by
  obtain ⟨h1, h2, h3, h4⟩ := h
  unfold RouteEntry.show RouteEntry.key
  rw [routeShow_eq]
  have hD : '\n' ∉ dstText e.ip (Int.ofNat e.n) := by
    unfold dstText
    split
    · exact tok_nonl (ipTok_tok h1)
    · split
      · decide
      · intro hm
        simp only [List.mem_append, List.mem_singleton] at hm
        rcases hm with (hm | hm) | hm
        · exact tok_nonl (ipTok_tok h1) hm
        · exact absurd hm (by decide)
        · have := (plen_digits e.n (by omega)).2 _ hm; simp [isSpace] at this
  intro hm
  simp only [rline, List.mem_append, List.mem_cons] at hm
  rcases hm with hm | hm | hm | hm | hm
  · exact hD hm
  · exact absurd hm (by decide)
  · exact absurd hm (by decide : '\n' ∉ s "via")
  · exact absurd hm (by decide)
  · rcases hm with hm | hm
    · exact tok_nonl (ipTok_tok h2) hm
    · cases hd : e.dev with
      | none => simp [hd, rtail] at hm
      | some d =>
        simp only [hd, rtail, List.mem_cons, List.mem_append] at hm
        rcases hm with hm | hm | hm | hm
        · exact absurd hm (by decide)
        · exact absurd hm (by decide : '\n' ∉ s "dev")
        · exact absurd hm (by decide)
        · exact tok_nonl (h4 d hd) hm

theorem parseRoutes_show : ∀ (l : List RouteEntry), (∀ e ∈ l, e.ok) →
    ∃ rs, parseRoutes (l.map fun e => s "ip route add " ++ e.show) = .ok rs ∧ rs.map Route.key = l.map RouteEntry.key := by
  intro l
  induction l with
  | nil => intro _; exact ⟨[], rfl, rfl⟩
  | cons e es ih =>
    intro h
    obtain ⟨rs, hrs, hk⟩ := ih (fun x hx => h x (by simp [hx]))
    obtain ⟨h1, h2, h3, h4⟩ := h e (by simp)
    obtain ⟨r, hr, hrk⟩ := parseRoute_routeShow e.ip e.hop e.n e.dev h1 h2 h3 h4
    refine ⟨r :: rs, ?_, ?_⟩
    · have hrs' : parseRoutes (List.map (fun e => s "ip route add " ++ routeShow (e.ip, Int.ofNat e.n, e.hop) e.dev) es) =
          .ok rs := hrs
      simp only [List.map_cons, parseRoutes, RouteEntry.show, RouteEntry.key, hr, hrs', bind, Except.bind, pure, Except.pure]
    · simp only [List.map_cons, hk, hrk, RouteEntry.key]

/-- **`getDeviceRoutes` reads the kernel table back.**  For every table of static routes the whole
output of `ip route show` (one line per route, each ended by a newline; nothing for the empty
table) is read to exactly the table's (destination, prefix length, next hop) list, in order. -/
theorem deviceRoutes_show (l : List RouteEntry) (h : ∀ e ∈ l, e.ok) :
    ∃ rs, deviceRoutes (unlines (l.map RouteEntry.show)) = .ok rs ∧ rs.map Route.key = l.map RouteEntry.key := by
  obtain ⟨rs, hrs, hk⟩ := parseRoutes_show l h
  refine ⟨rs, ?_, hk⟩
  unfold deviceRoutes
  rw [split_unlines _ (by
    intro x hx
    obtain ⟨e, he, rfl⟩ := List.mem_map.mp hx
    exact show_nonl e (h e he))]
  simp only [List.getLast?_append, List.getLast?_singleton, Option.some_or, ↓reduceIte, List.dropLast_concat,
    List.map_map]
  exact hrs

theorem nonl_join : ∀ (ws : List Str), (∀ w ∈ ws, Tok w) → '\n' ∉ joinWith [' '] ws := by
  intro ws
  induction ws with
  | nil => intro _; simp [joinWith]
  | cons x xs ih =>
    intro h
    cases xs with
    | nil => simpa [joinWith] using tok_nonl (h x (by simp))
    | cons y ys =>
      simp only [joinWith]
      intro hm
      simp only [List.mem_append, List.mem_singleton] at hm
      rcases hm with (hm | hm) | hm
      · exact tok_nonl (h x (by simp)) hm
      · exact absurd hm (by decide)
      · exact ih (fun w hw => h w (by simp [hw])) hm

/-- **`getDeviceIPTables` on the whole output of `iptables-save`** (comment lines, counters, the
final newline) gives the explicitly known rule set. -/
theorem deviceIPTables_save (cfg : KCfg) (a : AState) (h : AStateOK cfg a) :
    deviceIPTables (unlines (saveText cfg a)) = .ok (mkTables (kernelOpts cfg) a) := by
  unfold deviceIPTables
  have hK := stateOK_of cfg a h (kernelOpts cfg) (spell_kernel cfg)
  have hnl : ∀ x ∈ saveText cfg a, '\n' ∉ x := by
    intro x hx
    rw [saveText_eq] at hx
    simp only [List.mem_append, List.mem_singleton, List.mem_flatMap] at hx
    rcases hx with (hx | ⟨tbl, htbl, hx⟩) | hx
    · rw [hx]; decide
    · have hT := hK.tables tbl htbl
      simp only [blockLines, List.mem_append, List.mem_singleton, List.mem_map, List.mem_flatMap] at hx
      rcases hx with ((hx | ⟨c, hc, hx⟩) | ⟨c, hc, r, hr, hx⟩) | hx
      · rw [hx]; intro hm
        rcases List.mem_cons.mp hm with e | hm
        · exact absurd e (by decide)
        · exact tok_nonl hT.name hm
      · rw [← hx, chainLine]; intro hm
        rcases List.mem_cons.mp hm with e | hm
        · exact absurd e (by decide)
        · exact nonl_join _ (by
            intro w hw
            simp only [List.mem_cons, List.not_mem_nil, or_false] at hw
            rcases hw with e | e | e
            · rw [e]; exact (hT.chains c hc).1
            · rw [e]; exact (hT.chains c hc).2
            · rw [e]; decide) hm
      · rw [← hx, ruleText]
        exact nonl_join _ (ruleLine_toks (kernelOpts cfg) c.name r (hT.chains c hc).1 (hT.rules c hc r hr))
      · rw [hx]; decide
    · rw [hx]; decide
  rw [split_unlines _ hnl, saveText_eq, List.append_assoc]
  exact parse_file [s "[0:0]"] (by intro x hx; simp at hx; rw [hx]; decide) (kernelOpts cfg) a hK _ _
    (by intro x hx; simp at hx; rw [hx]
        exact Or.inl ⟨(s "# Generated by iptables-save v1.8.7 on Tue Sep 30 00:00:00 2026").tail, by decide⟩)
    (by intro x hx
        simp only [List.cons_append, List.nil_append, List.mem_cons, List.not_mem_nil, or_false] at hx
        rcases hx with e | e
        · rw [e]; exact Or.inl ⟨(s "# Completed on Tue Sep 30 00:00:00 2026").tail, by decide⟩
        · rw [e]; exact Or.inr rfl)

/-! ### no route change for a device that has exactly the target's routes -/

theorem loop_same (a : List Route) : ∀ (rest : List Route) (am : List Spec.RKey), (keys rest).Nodup →
    (∀ r ∈ rest, r.key ∈ am) →
    diffRoutesLoop a rest am = ([], am.filter (fun k => k ∉ keys rest)) := by
  intro rest
  induction rest with
  | nil =>
    intro am _ _
    simp only [diffRoutesLoop, keys, List.map_nil, List.not_mem_nil, not_false_eq_true, decide_true]
    congr 1
    exact (List.filter_eq_self.mpr (fun _ _ => rfl)).symm
  | cons r rest ih =>
    intro am hnd hall
    have hr : r.key ∈ am := hall r (by simp)
    simp only [keys, List.map_cons, List.nodup_cons] at hnd
    simp only [diffRoutesLoop, if_pos hr]
    rw [ih _ hnd.2 (by
      intro r' hr'
      refine mem_filter_ne.mpr ⟨hall r' (by simp [hr']), ?_⟩
      intro e; exact hnd.1 (by rw [← e]; exact List.mem_map_of_mem hr'))]
    simp only [List.filter_filter, keys, List.map_cons, List.mem_cons, not_or]
    congr 1
    apply List.filter_congr
    intro k _
    by_cases h1 : k = r.key <;> by_cases h2 : k ∈ List.map Route.key rest <;> simp [h1, h2]

/-- A device that has exactly the target's routes gets no route command. -/
theorem routes_same_no_change (a b : List Route) (h : ∀ k, k ∈ keys a ↔ k ∈ keys b) : diffRoutes a b = [] := by
  obtain ⟨hn, _, hk⟩ := target_spec b
  unfold diffRoutes diffRoutesCore
  rw [show a.map Route.key = keys a from rfl, loop_same a _ (keys a) hn (by
    intro r hr
    rw [h r.key, ← hk]
    exact List.mem_map_of_mem hr)]
  simp only [List.nil_append, List.map_eq_nil_iff, List.filter_eq_nil_iff, List.mem_filter, decide_eq_true_eq]
  intro r hr hc
  exact hc.2 ((hk r.key).mpr ((h r.key).mp (List.mem_map_of_mem hr)))

/-- **The second compare on the device path is empty.**  A device that holds the target's rule set
(chains in name order) and exactly the target's routes prints `iptables-save` and `ip route show`
output that `LoadDevice` reads without error, and `diffConfig` against the target finds neither a
route command nor an iptables difference. -/
theorem device_compare_unchanged (cfg : KCfg) (a : AState) (h : AStateOK cfg a) (l : List RouteEntry)
    (hl : ∀ e ∈ l, e.ok) (b : List Route) (hb : ∀ k, k ∈ l.map RouteEntry.key ↔ k ∈ keys b) :
    ∃ dc, loadDevice (unlines (saveText cfg (sortS a))) (unlines (l.map RouteEntry.show)) = .ok dc ∧
      (diffConfig dc { routes := b, iptables := mkTables userOpts a }).routes = [] ∧
      (diffConfig dc { routes := b, iptables := mkTables userOpts a }).ipt = .same := by
  have hs := aStateOK_sort cfg a h
  obtain ⟨rs, hrs, hk⟩ := deviceRoutes_show l hl
  refine ⟨{ routes := rs, iptables := mkTables (kernelOpts cfg) (sortS a) }, ?_, ?_, ?_⟩
  · simp only [loadDevice, deviceIPTables_save cfg (sortS a) hs, hrs, bind, Except.bind, pure, Except.pure]
  · simp only [diffConfig]
    exact routes_same_no_change rs b (by intro k; rw [← hb k]; simp only [keys, hk])
  · simp only [diffConfig]
    exact (diffIPTables_same _ _ (neTables_mk cfg (sortS a) hs (kernelOpts cfg) (spell_kernel cfg))
      (neTables_mk cfg a h userOpts (spell_user cfg))).mpr (tablesEq_roundtrip cfg a h)

end NA.C05
