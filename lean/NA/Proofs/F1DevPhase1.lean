import NA.Proofs.F1DevLines
/-!
# F1: the first phase of `diffASAACLs` (early `findGroupOnDevice`, `equalizeACLs`) on the strict device
-/
namespace NA.F1
open NA.AsaDev
open NA.Acl (Range)

/-- Device group `x` has the members of target group `bN` and will not be edited any more. -/
def GoodFrozen (e : Env) (st : St) (d : Dev) (x bN : Name) : Prop :=
  hasGroup d x = true ∧ (membersOf d x).Perm (lookupD e.b.groups bN) ∧ Frozen e st x

theorem GoodFrozen.gstep {e : Env} {st st' : St} {d d' : Dev} {x bN : Name} (h : GoodFrozen e st d x bN)
    (g : GStep e st d st' d') : GoodFrozen e st' d' x bN :=
  ⟨g.hasMono x h.1, by rw [g.stable x h.1 h.2.2]; exact h.2.1, h.2.2.mono g.grow⟩

theorem GoodFrozen.astep {e : Env} {st st' : St} {d d' : Dev} {x bN aN : Name} (h : GoodFrozen e st d x bN)
    (g : AStep e st d st' d' aN) : GoodFrozen e st' d' x bN :=
  ⟨g.hasMono x h.1, by rw [g.stable x h.1 h.2.2]; exact h.2.1, h.2.2.mono g.grow⟩

/-- Every referenced device group of `a` matches the corresponding target group of `b`. -/
def PairGood (e : Env) (st : St) (d : Dev) (a b : Line) : Prop :=
  ∀ p ∈ a.refs.zip b.refs, GoodFrozen e st d p.1 p.2

theorem earlyFind_gstep (e : Env) (bl : List Line) (rs : List Range) (st : St) (d : Dev) (h : Sem e st d) :
    GStep e st d (earlyFind e bl rs st) d := by
  unfold earlyFind
  have key : ∀ (gs : List Name) (s : St), GStep e st d s d → GStep e st d (gs.foldl (findGroup e) s) d := by
    intro gs
    induction gs with
    | nil => intro s hs; exact hs
    | cons g gs ih => intro s hs; exact ih _ (hs.trans (findGroup_gstep e s d hs.sem g))
  have key2 : ∀ (l : List Range) (s : St), GStep e st d s d →
      GStep e st d (l.foldl (fun st r => if r.isInsert then
        ((slice bl r.lowB r.highB).flatMap (·.refs)).foldl (findGroup e) st else st) s) d := by
    intro l
    induction l with
    | nil => intro s hs; exact hs
    | cons r rs ih =>
      intro s hs
      simp only [List.foldl_cons]
      apply ih
      split
      · exact key _ s hs
      · exact hs
  exact key2 rs st (GStep.refl h)

theorem equalizePair_gstep (e : Env) (hw : WF e) (st : St) (d : Dev) (h : Sem e st d) (a b : Line)
    (ha : ∀ g ∈ a.refs, g ∈ D0 e) (hb : ∀ g ∈ b.refs, g ∈ BNames e) :
    ∃ d', GStep e st d (equalizePair e st a b).1 d' ∧
      ((equalizePair e st a b).2 = true → PairGood e (equalizePair e st a b).1 d' a b) := by
  unfold equalizePair PairGood
  have key : ∀ (l : List (Name × Name)) (s : St × Bool) (ds : Dev), (∀ p ∈ l, p.1 ∈ D0 e ∧ p.2 ∈ BNames e) → GStep e st d s.1 ds →
      ∀ (done : List (Name × Name)), (s.2 = true → ∀ p ∈ done, GoodFrozen e s.1 ds p.1 p.2) →
      ∃ d', GStep e st d (l.foldl (fun (s : St × Bool) p =>
          let (st', ok) := equalizedGroups e s.1 p.1 p.2
          (st', s.2 && ok)) s).1 d' ∧
        ((l.foldl (fun (s : St × Bool) p =>
          let (st', ok) := equalizedGroups e s.1 p.1 p.2
          (st', s.2 && ok)) s).2 = true → ∀ p ∈ done ++ l, GoodFrozen e (l.foldl (fun (s : St × Bool) p =>
          let (st', ok) := equalizedGroups e s.1 p.1 p.2
          (st', s.2 && ok)) s).1 d' p.1 p.2) := by
    intro l
    induction l with
    | nil => intro s ds _ hs done hd; exact ⟨ds, hs, by simpa using hd⟩
    | cons p ps ih =>
      intro s ds hp hs done hd
      simp only [List.foldl_cons]
      obtain ⟨d1, g1, r1⟩ := equalizedGroups_gstep e hw s.1 ds hs.sem p.1 p.2 (hp p List.mem_cons_self).1
        (hp p List.mem_cons_self).2
      generalize hq : equalizedGroups e s.1 p.1 p.2 = q at g1 r1
      obtain ⟨st1, ok⟩ := q
      simp only at g1 r1 ⊢
      obtain ⟨d2, g2, r2⟩ := ih (st1, s.2 && ok) d1 (fun x hx => hp x (List.mem_cons_of_mem _ hx)) (hs.trans g1)
        (done ++ [p]) (by
          intro hok
          simp only [Bool.and_eq_true] at hok
          intro x hx
          rcases List.mem_append.mp hx with hx | hx
          · exact (hd hok.1 x hx).gstep g1
          · have hx' : x = p := by simpa using hx
            rw [hx']
            obtain ⟨rr1, rr2⟩ := r1 hok.2
            obtain ⟨q1, q2, q3⟩ := g1.sem.ready p.2 rr1
            rw [rr2] at q1 q2 q3
            exact ⟨q1, q2, q3⟩)
      refine ⟨d2, g2, ?_⟩
      intro hok x hx
      apply r2 hok x
      simpa using hx
  obtain ⟨d', g, r⟩ := key (a.refs.zip b.refs) (st, true) d
    (fun p hp => ⟨ha p.1 (List.of_mem_zip hp).1, hb p.2 (List.of_mem_zip hp).2⟩)
    (GStep.refl h) [] (fun _ _ hp => by simp at hp)
  exact ⟨d', g, fun hok p hp => r hok p (by simpa using hp)⟩

/-- Every kept pair recorded so far has matching groups. -/
def KeepGood (e : Env) (st : St) (d : Dev) (al bl : List Line) (cells : List MCell) : Prop :=
  ∀ ai bi, MCell.keep ai bi ∈ cells → PairGood e st d (al.getD ai default) (bl.getD bi default)

theorem KeepGood.gstep {e : Env} {st st' : St} {d d' : Dev} {al bl : List Line} {cells : List MCell}
    (h : KeepGood e st d al bl cells) (g : GStep e st d st' d') : KeepGood e st' d' al bl cells :=
  fun ai bi hm p hp => (h ai bi hm p hp).gstep g

theorem KeepGood.astep {e : Env} {st st' : St} {d d' : Dev} {al bl : List Line} {cells : List MCell} {aN : Name}
    (h : KeepGood e st d al bl cells) (g : AStep e st d st' d' aN) : KeepGood e st' d' al bl cells :=
  fun ai bi hm p hp => (h ai bi hm p hp).astep g

theorem equalizeRange_gstep (e : Env) (hw : WF e) (hA : RefsClosedA e) (aN : Name) (bl : List Line)
    (hbl : ∀ bi, ∀ g ∈ (bl.getD bi default).refs, g ∈ BNames e) (lowA lowB : Nat) :
    ∀ (n : Nat) (st : St) (acc : List MCell) (d : Dev), Sem e st d → KeepGood e st d (e.aLines aN) bl acc →
    ∃ d', GStep e st d (equalizeRange e (e.aLines aN) bl lowA lowB n st acc).1 d' ∧
      KeepGood e (equalizeRange e (e.aLines aN) bl lowA lowB n st acc).1 d' (e.aLines aN) bl
        (equalizeRange e (e.aLines aN) bl lowA lowB n st acc).2 := by
  intro n
  induction n with
  | zero => intro st acc d h hk; exact ⟨d, GStep.refl h, hk⟩
  | succ n ih =>
    intro st acc d h hk
    obtain ⟨d1, g1, k1⟩ := ih st acc d h hk
    unfold equalizeRange
    generalize equalizeRange e (e.aLines aN) bl lowA lowB n st acc = r at g1 k1
    obtain ⟨st1, acc1⟩ := r
    simp only at g1 k1 ⊢
    obtain ⟨d2, g2, r2⟩ := equalizePair_gstep e hw st1 d1 g1.sem ((e.aLines aN).getD (lowA + n) default)
      (bl.getD (lowB + n) default) (aLines_getD_refs e hA aN _) (hbl _)
    generalize equalizePair e st1 ((e.aLines aN).getD (lowA + n) default) (bl.getD (lowB + n) default) = q at g2 r2
    obtain ⟨st2, ok⟩ := q
    simp only at g2 r2
    cases ok with
    | true =>
      simp only [if_true]
      refine ⟨d2, g1.trans g2, ?_⟩
      intro ai bi hm
      rcases List.mem_append.mp hm with hm | hm
      · exact (k1.gstep g2) ai bi hm
      · simp only [List.mem_singleton, MCell.keep.injEq] at hm
        rw [hm.1, hm.2]; exact r2 rfl
    | false =>
      simp only [Bool.false_eq_true, if_false]
      refine ⟨d2, gstep_hit (g1.trans g2) _, ?_⟩
      intro ai bi hm
      rcases List.mem_append.mp hm with hm | hm
      · exact (k1.gstep g2) ai bi hm
      · simp at hm

theorem cellsPhase_gstep (e : Env) (hw : WF e) (hA : RefsClosedA e) (aN : Name) (bl : List Line)
    (hbl : ∀ bi, ∀ g ∈ (bl.getD bi default).refs, g ∈ BNames e) :
    ∀ (rs : List Range) (st : St) (acc : List MCell) (d : Dev), Sem e st d → KeepGood e st d (e.aLines aN) bl acc →
    ∃ d', GStep e st d (cellsPhase e (e.aLines aN) bl rs st acc).1 d' ∧
      KeepGood e (cellsPhase e (e.aLines aN) bl rs st acc).1 d' (e.aLines aN) bl (cellsPhase e (e.aLines aN) bl rs st acc).2 := by
  intro rs
  induction rs with
  | nil => intro st acc d h hk; exact ⟨d, GStep.refl h, hk⟩
  | cons r rs ih =>
    intro st acc d h hk
    unfold cellsPhase
    have hins : ∀ (l : List MCell), (∀ c ∈ l, ∀ ai bi, c ≠ MCell.keep ai bi) →
        KeepGood e st d (e.aLines aN) bl (acc ++ l) := by
      intro l hl ai bi hm
      rcases List.mem_append.mp hm with hm | hm
      · exact hk ai bi hm
      · exact absurd rfl (hl _ hm ai bi)
    split
    · exact ih st _ d h (hins _ (by
        intro c hc ai bi
        obtain ⟨i, _, rfl⟩ := List.mem_map.mp hc
        simp))
    · split
      · exact ih st _ d h (hins _ (by
          intro c hc ai bi
          obtain ⟨i, _, rfl⟩ := List.mem_map.mp hc
          simp))
      · split
        · obtain ⟨d1, g1, k1⟩ := equalizeRange_gstep e hw hA aN bl hbl r.lowA r.lowB (r.highA - r.lowA) st acc d h hk
          generalize equalizeRange e (e.aLines aN) bl r.lowA r.lowB (r.highA - r.lowA) st acc = q at g1 k1
          obtain ⟨st1, acc1⟩ := q
          simp only at g1 k1 ⊢
          obtain ⟨d2, g2, k2⟩ := ih st1 acc1 d1 g1.sem k1
          exact ⟨d2, g1.trans g2, k2⟩
        · exact ih st acc d h hk

end NA.F1
