import NA.Proofs.C03Order
/-
C03: which requests the parts of the planner model append to the output.
`equalize` (with `hasEqualizedLists` / `hasEqualizedGroups` inlined, any fuel, any differ) only
appends member-list requests; `adaptGroups` / `findGroupOnDevice` append nothing; hence the
order-relevant requests of `diffRules` are exactly `orderOps` of the script.  Core Lean only.
-/
namespace NA.PanOs

/-- Requests that change a member list (of a rule or of an address-group) and nothing else. -/
def Cmd.isMember : Cmd → Bool
  | .delMem .. | .addMem .. | .editList .. | .delGMem .. | .setGrp .. => true
  | _ => false

/-- `st'` extends the output of `st` by member-list requests only. -/
def Ext (st st' : St) : Prop := ∃ cs, st'.out = st.out ++ cs ∧ ∀ c ∈ cs, c.isMember = true

theorem Ext.refl (st : St) : Ext st st := ⟨[], by simp, by simp⟩

theorem Ext.trans {a b c : St} (h₁ : Ext a b) (h₂ : Ext b c) : Ext a c := by
  obtain ⟨c1, e1, m1⟩ := h₁
  obtain ⟨c2, e2, m2⟩ := h₂
  refine ⟨c1 ++ c2, by rw [e2, e1, List.append_assoc], ?_⟩
  intro x hx
  rcases List.mem_append.mp hx with h | h
  · exact m1 x h
  · exact m2 x h

theorem Ext.of_out_eq {a b : St} (h : b.out = a.out) : Ext a b := ⟨[], by simp [h], by simp⟩

theorem Ext.emit (st : St) (c : Cmd) (h : c.isMember = true) : Ext st (st.emit c) :=
  ⟨[c], rfl, by simpa using h⟩

theorem Ext.emitAll (st : St) (cs : List Cmd) (h : ∀ c ∈ cs, c.isMember = true) :
    Ext st (st.emitAll cs) := ⟨cs, rfl, h⟩

/-! ### `findGroupOnDevice`, `adaptGroups` leave the output alone -/

theorem findGroupOnDevice_out (st : St) (gbi : Nat) : (findGroupOnDevice st gbi).2.out = st.out := by
  unfold findGroupOnDevice
  dsimp only
  cases findGroupOnDeviceFrom ((Option.map (fun x => x.g.members) st.bGrp[gbi]?).getD []) st.aGrp 0 with
  | none => rfl
  | some p => rfl

theorem adaptStep_out (acc : List String × St) (adr : String) : (adaptStep acc adr).2.out = acc.2.out := by
  obtain ⟨res, s⟩ := acc
  unfold adaptStep
  simp only
  split
  · rfl
  · split
    · rfl
    · have := findGroupOnDevice_out s ‹Nat›
      split <;> simp_all

theorem adaptGroups_out (st : St) (lb : List String) : (adaptGroups st lb).2.out = st.out := by
  unfold adaptGroups
  suffices h : ∀ (l : List String) (acc : List String × St), (l.foldl adaptStep acc).2.out = acc.2.out by
    exact h lb ([], st)
  intro l
  induction l with
  | nil => intro acc; rfl
  | cons x xs ih => intro acc; simp only [List.foldl_cons]; rw [ih, adaptStep_out]

/-! ### `hasEqualizedLists` only appends member requests -/

theorem MPath.delCmd_isMember (p : MPath) (m : String) : (p.delCmd m).isMember = true := by
  cases p <;> rfl

theorem MPath.addCmd_isMember (p : MPath) (ms : List String) : (p.addCmd ms).isMember = true := by
  cases p <;> rfl

/-- A fold whose step keeps `Ext st₀ ·` on the state component keeps it. -/
theorem foldl_ext {β : Type} (st₀ : St) (f : Bool × St × List String → β → Bool × St × List String)
    (hf : ∀ acc x, Ext st₀ acc.2.1 → Ext st₀ (f acc x).2.1) :
    ∀ (l : List β) (acc : Bool × St × List String), Ext st₀ acc.2.1 → Ext st₀ (l.foldl f acc).2.1 := by
  intro l
  induction l with
  | nil => intro acc h; exact h
  | cons x xs ih => intro acc h; exact ih _ (hf acc x h)

theorem eqGroups_ext (recur : St → List String → List String → MPath → Bool × St)
    (hrec : ∀ s la lb p, Ext s (recur s la lb p).2) (st : St) (gai gbi : Nat) :
    Ext st (eqGroups recur st gai gbi).2 := by
  unfold eqGroups
  simp only
  split
  · exact Ext.refl st
  · split
    · exact Ext.refl st
    · have h := hrec st (st.aGrp[gai]?.getD default).g.members (st.bGrp[gbi]?.getD default).g.members
        (.group (st.aGrp[gai]?.getD default).g.name)
      revert h
      generalize recur st _ _ _ = res
      obtain ⟨b, s⟩ := res
      intro h
      simp only at h ⊢
      split
      · exact h.trans (Ext.of_out_eq rfl)
      · exact h

theorem pairStep_ext (recur : St → List String → List String → MPath → Bool × St)
    (hrec : ∀ s la lb p, Ext s (recur s la lb p).2) (st₀ : St) (la lb : List String) (r : Range)
    (acc : Bool × St × List String) (k : Nat) (h : Ext st₀ acc.2.1) :
    Ext st₀ (pairStep recur la lb r acc k).2.1 := by
  obtain ⟨ok, s, ins⟩ := acc
  unfold pairStep
  simp only at h ⊢
  split
  · exact h
  · split
    · exact h
    · split
      · exact h
      · exact h.trans (eqGroups_ext recur hrec s _ _)

theorem rangeStep_ext (recur : St → List String → List String → MPath → Bool × St)
    (hrec : ∀ s la lb p, Ext s (recur s la lb p).2) (st₀ : St) (la lb : List String) (path : MPath)
    (acc : Bool × St × List String) (r : Range) (h : Ext st₀ acc.2.1) :
    Ext st₀ (rangeStep recur la lb path acc r).2.1 := by
  obtain ⟨ok, s, ins⟩ := acc
  unfold rangeStep
  simp only at h ⊢
  split
  · exact h
  · split
    · exact h.trans (Ext.emitAll _ _ (by
        intro c hc
        obtain ⟨m, _, rfl⟩ := List.mem_map.mp hc
        exact MPath.delCmd_isMember _ _))
    · exact h.trans (Ext.of_out_eq (adaptGroups_out _ _))
    · exact foldl_ext st₀ _ (fun acc k hacc => pairStep_ext recur hrec st₀ la lb r acc k hacc) _ _ h

theorem hasEqLists_ext (diff : Differ) :
    ∀ (fuel : Nat) (st : St) (la lb : List String) (path : MPath),
      Ext st (hasEqLists diff fuel st la lb path).2 := by
  intro fuel
  induction fuel with
  | zero => intro st la lb path; simp only [hasEqLists]; exact Ext.refl st
  | succ fuel ih =>
    intro st la lb path
    rw [hasEqLists]
    split
    · exact Ext.refl st
    · have key := foldl_ext st _ (fun acc r hacc => rangeStep_ext (hasEqLists diff fuel) ih st la lb path acc r hacc)
        (diff la.length lb.length (fun i j => memberEq st (la.getD i "") (lb.getD j ""))) (true, st, []) (Ext.refl st)
      revert key
      generalize (List.foldl _ (true, st, []) _) = res
      intro key
      obtain ⟨ok, s, ins⟩ := res
      simp only at key ⊢
      split
      · exact key
      · split
        · exact key
        · exact key.trans (Ext.emit _ _ (MPath.addCmd_isMember _ _))

end NA.PanOs

namespace NA.PanOs

theorem equalizeList_ext (diff : Differ) (fuel : Nat) (st : St) (la lb : List String) (n : String) (f : Fld) :
    Ext st (equalizeList diff fuel st la lb n f) := by
  unfold equalizeList
  have h := hasEqLists_ext diff fuel st la lb (.rule n f)
  revert h
  generalize hasEqLists diff fuel st la lb (.rule n f) = res
  obtain ⟨ok, s⟩ := res
  intro h
  simp only at h ⊢
  split
  · exact h
  · have h2 := adaptGroups_out s lb
    revert h2
    generalize adaptGroups s lb = res2
    obtain ⟨lb', s'⟩ := res2
    intro h2
    simp only at h2 ⊢
    exact (h.trans (Ext.of_out_eq h2)).trans (Ext.emit _ _ rfl)

theorem equalize_ext (diff : Differ) (fuel : Nat) (st : St) (ra rb : Rule) :
    Ext st (equalize diff fuel st ra rb) := by
  unfold equalize
  have h1 := equalizeList_ext diff fuel st ra.src rb.src ra.name .src
  have h2 := equalizeList_ext diff fuel (equalizeList diff fuel st ra.src rb.src ra.name .src)
    ra.dst rb.dst ra.name .dst
  simp only
  split
  · exact (h1.trans h2).trans (Ext.emit _ _ rfl)
  · exact h1.trans h2

/-- Member requests do not touch the rule order. -/
theorem isMember_ordOf {c : Cmd} (h : c.isMember = true) : ordOf c = none := by
  cases c <;> simp_all [Cmd.isMember, ordOf]

theorem Ext.ord {st st' : St} (h : Ext st st') : st'.out.filterMap ordOf = st.out.filterMap ordOf := by
  obtain ⟨cs, e, m⟩ := h
  rw [e, List.filterMap_append]
  have : cs.filterMap ordOf = [] := by
    rw [List.filterMap_eq_nil_iff]
    intro c hc
    exact isMember_ordOf (m c hc)
  simp [this]

theorem extract_map_name (rs : List Rule) (lo hi : Nat) :
    (rs.extract lo hi).map (·.name) = (ruleNames rs).extract lo hi := by
  simp [List.extract, ruleNames, List.map_take, List.map_drop]

theorem filterMap_delRule (l : List Rule) :
    (l.map (fun ru => Cmd.delRule ru.name)).filterMap ordOf = (l.map (·.name)).map OrdOp.del := by
  induction l with
  | nil => rfl
  | cons x xs ih => simp [ordOf, ih]

theorem phase1Step_del (diff : Differ) (fuel : Nat) (aRules bRules : List Rule) (st : St) (d : Nat)
    (ins : List InsGroup) (r : Range) (hk : r.kind = .del) :
    phase1Step diff fuel aRules bRules (st, d, ins) r =
      (st.emitAll ((aRules.extract r.lowA r.highA).map (fun ru => Cmd.delRule ru.name)), r.highA, ins) := by
  unfold phase1Step; simp only [hk]

theorem phase1Step_ins (diff : Differ) (fuel : Nat) (aRules bRules : List Rule) (st : St) (d : Nat)
    (ins : List InsGroup) (r : Range) (hk : r.kind = .ins) :
    phase1Step diff fuel aRules bRules (st, d, ins) r =
      (st, d, ins ++ [⟨(aRules[max r.lowA d]?).map (·.name), r.lowB, r.highB⟩]) := by
  unfold phase1Step; simp only [hk]

theorem phase1Step_eq (diff : Differ) (fuel : Nat) (aRules bRules : List Rule) (st : St) (d : Nat)
    (ins : List InsGroup) (r : Range) (hk : r.kind = .eq) :
    phase1Step diff fuel aRules bRules (st, d, ins) r =
      ((List.range (r.highA - r.lowA)).foldl (fun st k =>
        equalize diff fuel st (aRules.getD (r.lowA + k) default) (bRules.getD (r.lowB + k) default)) st, d, ins) := by
  unfold phase1Step; simp only [hk]

/-- The order-relevant requests of the first loop, and the insert groups it collects. -/
theorem rulePhase1_ord (diff : Differ) (fuel : Nat) (a b : Vsys) (aRules bRules : List Rule) :
    ∀ (rs : List Range) (st : St) (d : Nat) (ins : List InsGroup),
      let res := rs.foldl (phase1Step diff fuel aRules bRules) (st, d, ins)
      res.1.out.filterMap ordOf =
          st.out.filterMap ordOf ++ (delNamesOf (ruleNames aRules) rs).map OrdOp.del ∧
        res.2.2 = ins ++ insGroupsFrom (ruleNames aRules) d rs := by
  intro rs
  induction rs with
  | nil => intro st d ins; simp [delNamesOf, insGroupsFrom]
  | cons r rs ih =>
    intro st d ins
    simp only [List.foldl_cons]
    cases hk : r.kind with
    | del =>
      simp only [delNamesOf, insGroupsFrom, hk]
      rw [phase1Step_del _ _ _ _ _ _ _ _ hk]
      have := ih (st.emitAll ((aRules.extract r.lowA r.highA).map (fun ru => Cmd.delRule ru.name))) r.highA ins
      simp only at this
      refine ⟨?_, this.2⟩
      rw [this.1]
      simp only [St.emitAll, List.filterMap_append, List.map_append, List.append_assoc]
      congr 1
      congr 1
      rw [filterMap_delRule, extract_map_name]
    | ins =>
      simp only [delNamesOf, insGroupsFrom, hk]
      rw [phase1Step_ins _ _ _ _ _ _ _ _ hk]
      have := ih st d (ins ++ [⟨(aRules[max r.lowA d]?).map (·.name), r.lowB, r.highB⟩])
      simp only at this
      refine ⟨this.1, ?_⟩
      rw [this.2]
      simp [ruleNames]
    | eq =>
      simp only [delNamesOf, insGroupsFrom, hk]
      rw [phase1Step_eq _ _ _ _ _ _ _ _ hk]
      have hext : Ext st ((List.range (r.highA - r.lowA)).foldl (fun st k =>
          equalize diff fuel st (aRules.getD (r.lowA + k) default) (bRules.getD (r.lowB + k) default)) st) := by
        generalize List.range (r.highA - r.lowA) = ks
        induction ks generalizing st with
        | nil => exact Ext.refl st
        | cons k ks ihk =>
          simp only [List.foldl_cons]
          exact (equalize_ext diff fuel st _ _).trans (ihk _)
      have := ih ((List.range (r.highA - r.lowA)).foldl (fun st k =>
          equalize diff fuel st (aRules.getD (r.lowA + k) default) (bRules.getD (r.lowB + k) default)) st) d ins
      simp only at this
      refine ⟨?_, this.2⟩
      rw [this.1, hext.ord]

theorem insertRule_out (anchor : Option String) (st : St) (ru : Rule) :
    ∃ src dst, (insertRule anchor st ru).out = st.out ++
      (Cmd.setRule { ru with src := src, dst := dst } ::
        (match anchor with | some d => [Cmd.move ru.name d] | none => [])) := by
  unfold insertRule
  have h1 := adaptGroups_out st ru.src
  revert h1
  generalize adaptGroups st ru.src = r1
  obtain ⟨src, s1⟩ := r1
  intro h1
  simp only at h1 ⊢
  have h2 := adaptGroups_out s1 ru.dst
  revert h2
  generalize adaptGroups s1 ru.dst = r2
  obtain ⟨dst, s2⟩ := r2
  intro h2
  simp only at h2 ⊢
  refine ⟨src, dst, ?_⟩
  cases anchor with
  | none => simp [St.emit, h2, h1]
  | some d => simp [St.emit, h2, h1]

theorem insertRule_ord (anchor : Option String) (st : St) (ru : Rule) :
    (insertRule anchor st ru).out.filterMap ordOf = st.out.filterMap ordOf ++
      (OrdOp.app ru.name :: (match anchor with | some d => [OrdOp.mv ru.name d] | none => [])) := by
  obtain ⟨src, dst, h⟩ := insertRule_out anchor st ru
  rw [h]
  cases anchor <;> simp [List.filterMap_append, ordOf]

/-- The order-relevant requests of the second loop. -/
theorem rulePhase2_ord (bRules : List Rule) :
    ∀ (inserts : List InsGroup) (st : St),
      (rulePhase2 st bRules inserts).out.filterMap ordOf =
        st.out.filterMap ordOf ++ insOps (ruleNames bRules) inserts := by
  intro inserts
  induction inserts with
  | nil => intro st; simp [rulePhase2, insOps]
  | cons g gs ih =>
    intro st
    unfold rulePhase2 at ih ⊢
    simp only [List.foldl_cons]
    rw [ih]
    simp only [insOps, List.flatMap_cons, insOpsOfGroup, ← List.append_assoc]
    congr 1
    rw [← extract_map_name]
    unfold insertGroup
    generalize bRules.extract g.lowB g.highB = l
    induction l generalizing st with
    | nil => simp
    | cons ru l ihl =>
      simp only [List.foldl_cons, List.map_cons, List.flatMap_cons]
      rw [ihl, insertRule_ord]
      cases g.anchor <;> simp [List.append_assoc]

/-- **The order-relevant requests of `diffRules` are `orderOps` of the script.** -/
theorem diffRules_ord (diff : Differ) (fuel : Nat) (st : St) (a b : Vsys) (aRules bRules : List Rule) :
    (diffRules diff fuel st a b aRules bRules).out.filterMap ordOf =
      st.out.filterMap ordOf ++
        orderOps (ruleNames aRules) (ruleNames bRules)
          (diff aRules.length bRules.length
            (fun i j => ruleEqual a b (aRules.getD i default) (bRules.getD j default))) := by
  unfold diffRules rulePhase1
  simp only
  generalize diff aRules.length bRules.length _ = rs
  have h1 := rulePhase1_ord diff fuel a b aRules bRules rs st 0 []
  simp only at h1
  revert h1
  generalize (rs.foldl _ (st, 0, [])) = res
  obtain ⟨s, d, ins⟩ := res
  intro h1
  simp only at h1 ⊢
  rw [rulePhase2_ord, h1.1, h1.2]
  simp [orderOps, List.append_assoc]

end NA.PanOs
