import NA.Proofs.VpnGraphTargets
/-!
Create-before-reference (C08), engine side: in the change list emitted before `deleteUnused` every
added sub-command that carries a reference names an object that exists at that point — it was on the
device from the start or an earlier command of the list created it — and nothing is deleted there.
-/
namespace NA.Vpn.G

/-- the objects that exist (in some form) after one more command -/
def stepDef (d : List Ref) : Chg → List Ref
  | .sec false k n _ _ => (k, n) :: d
  | .line n _ => (.acl, n) :: d
  | .pool false n _ => (.pool, n) :: d
  | .clear k n => d.filter fun x => x != (k, n)
  | .pool true n _ => d.filter fun x => x != (.pool, n)
  | _ => d

def definedAfter : List Ref → List Chg → List Ref
  | d, [] => d
  | d, c :: cs => definedAfter (stepDef d c) cs

/-- an added sub-command with a reference names an existing object -/
def refOK (d : List Ref) : Chg → Bool
  | .sub false _ (some x) _ _ => d.contains x
  | _ => true

def refsOK : List Ref → List Chg → Bool
  | _, [] => true
  | d, c :: cs => refOK d c && refsOK (stepDef d c) cs

def isDel : Chg → Bool
  | .clear _ _ => true
  | .pool true _ _ => true
  | _ => false

theorem definedAfter_snoc : ∀ (out : List Chg) (d : List Ref) (c : Chg),
    definedAfter d (out ++ [c]) = stepDef (definedAfter d out) c
  | [], _, _ => rfl
  | x :: xs, d, c => by simp only [List.cons_append, definedAfter]; exact definedAfter_snoc xs _ c

theorem refsOK_snoc : ∀ (out : List Chg) (d : List Ref) (c : Chg),
    refsOK d (out ++ [c]) = (refsOK d out && refOK (definedAfter d out) c)
  | [], d, c => by simp [refsOK, definedAfter]
  | x :: xs, d, c => by
    simp only [List.cons_append, refsOK, definedAfter, refsOK_snoc xs, Bool.and_assoc]

theorem stepDef_mono (d : List Ref) (c : Chg) (h : isDel c = false) (x : Ref) (hx : x ∈ d) : x ∈ stepDef d c := by
  cases c with
  | sec no k n hd md => cases no <;> simp [stepDef, hx]
  | sub no t r k b => exact hx
  | exit => exact hx
  | line n t => simp [stepDef, hx]
  | pool no n c => cases no <;> simp [stepDef, isDel, hx] at h ⊢
  | clear k n => simp [isDel] at h

/-- rank of the kinds: references go to strictly lower rank -/
def rk : Kind → Nat
  | .aaa => 0 | .acl => 0 | .pool => 0 | .gp => 1 | .tg => 2 | .user => 2 | .certmap => 1

structure J (A : List Ref) (a b : List Obj) (pend : List Ref) (st : St) : Prop where
  sa : st.a = a
  sb : st.b = b
  ok : refsOK A st.out = true
  nd : ∀ c ∈ st.out, isDel c = false
  df : ∀ p ∈ st.ready, p.1 ∉ pend → (p.1.1, p.2) ∈ definedAfter A st.out

variable {A : List Ref} {a b : List Obj}

theorem J.step {pend : List Ref} {st st' : St} (h : J A a b pend st) (c : Chg)
    (ha : st'.a = st.a) (hb : st'.b = st.b) (hr : st'.ready = st.ready) (ho : st'.out = st.out ++ [c])
    (hd : isDel c = false) (hc : refOK (definedAfter A st.out) c = true) : J A a b pend st' where
  sa := by rw [ha]; exact h.sa
  sb := by rw [hb]; exact h.sb
  ok := by rw [ho, refsOK_snoc, h.ok, hc]; rfl
  nd := by
    intro x hx
    rw [ho] at hx
    rcases List.mem_append.1 hx with h1 | h1
    · exact h.nd x h1
    · simp at h1; rw [h1]; exact hd
  df := by
    intro p hp hnp
    rw [hr] at hp
    rw [ho, definedAfter_snoc]
    exact stepDef_mono _ c hd _ (h.df p hp hnp)

theorem J.same {pend : List Ref} {st st' : St} (h : J A a b pend st)
    (ha : st'.a = st.a) (hb : st'.b = st.b) (hr : st'.ready = st.ready) (ho : st'.out = st.out) : J A a b pend st' where
  sa := by rw [ha]; exact h.sa
  sb := by rw [hb]; exact h.sb
  ok := by rw [ho]; exact h.ok
  nd := by rw [ho]; exact h.nd
  df := by rw [hr, ho]; exact h.df

/-- the name a ready object is printed with is the one recorded for it -/
theorem cur_mem_ready (st : St) (r : Ref) (h : st.isReady r = true) : (r, st.cur r) ∈ st.ready := by
  unfold St.isReady at h
  unfold St.cur
  cases hf : st.ready.find? (fun p => p.1 == r) with
  | none =>
    have := List.find?_eq_none.1 hf
    obtain ⟨p, hp, hpr⟩ := List.any_eq_true.1 h
    exact absurd hpr (this p hp)
  | some p =>
    have h1 := List.mem_of_find?_eq_some hf
    have h2 := List.find?_some hf
    have : p.1 = r := by simpa using h2
    simp only
    rw [← this]
    exact h1

theorem isReady_setReady_self (st : St) (r : Ref) (n : String) : (st.setReady r n).isReady r = true := by
  unfold St.setReady St.isReady; simp

theorem isReady_setReady_mono (st : St) (r y : Ref) (n : String) (h : st.isReady y = true) : (st.setReady r n).isReady y = true := by
  by_cases e : y = r
  · rw [e]; exact isReady_setReady_self st r n
  · rw [isReady_setReady_ne st r y n e]; exact h

theorem J.setReady {pend : List Ref} {st : St} (h : J A a b pend st) (r : Ref) (n : String)
    (hn : r ∈ pend ∨ (r.1, n) ∈ definedAfter A st.out) : J A a b pend (st.setReady r n) where
  sa := h.sa
  sb := h.sb
  ok := h.ok
  nd := h.nd
  df := by
    intro p hp hnp
    unfold St.setReady at hp
    simp only [List.mem_cons] at hp
    rcases hp with h1 | h1
    · rw [h1] at hnp ⊢
      rcases hn with h2 | h2
      · exact absurd h2 hnp
      · exact h2
    · exact h.df p (List.mem_filter.1 h1).1 hnp

theorem J.markNeeded {pend : List Ref} {st : St} (h : J A a b pend st) (r : Ref) : J A a b pend (st.markNeeded r) := by
  unfold St.markNeeded
  split
  · exact h
  · exact ⟨h.sa, h.sb, h.ok, h.nd, h.df⟩

/-- a finished object leaves the stack once it exists -/
theorem J.pop {pend : List Ref} {st : St} (r : Ref) (h : J A a b (r :: pend) st)
    (hr : ∀ n, (r, n) ∈ st.ready → (r.1, n) ∈ definedAfter A st.out) : J A a b pend st where
  sa := h.sa
  sb := h.sb
  ok := h.ok
  nd := h.nd
  df := by
    intro p hp hnp
    by_cases e : p.1 = r
    · have : p = (r, p.2) := by rw [← e]
      rw [this] at hp
      rw [e]; exact hr p.2 hp
    · exact h.df p hp (by
        intro hm
        cases hm with
        | head => exact e rfl
        | tail _ hm => exact hnp hm)

theorem J.push {pend : List Ref} {st : St} (r : Ref) (h : J A a b pend st) : J A a b (r :: pend) st :=
  ⟨h.sa, h.sb, h.ok, h.nd, fun p hp hnp => h.df p hp (fun hm => hnp (List.mem_cons_of_mem _ hm))⟩

/-! ## emissions -/

theorem J.emit {pend : List Ref} {st : St} (h : J A a b pend st) (c : Chg) (hd : isDel c = false)
    (hc : refOK (definedAfter A st.out) c = true) : J A a b pend (st.emit c) :=
  h.step c rfl rfl rfl rfl hd hc

theorem J.withMode {pend : List Ref} {st : St} (h : J A a b pend st) (m : Option (Kind × String × String)) :
    J A a b pend { st with mode := m } := h.same rfl rfl rfl rfl

theorem J.setMode {pend : List Ref} {st : St} (h : J A a b pend st) (k : Kind) (n hd : String) :
    J A a b pend (st.setMode k n hd) := by
  unfold St.setMode
  split
  · exact h
  · split
    · exact ((h.emit .exit rfl rfl).emit (.sec false k n hd true) rfl rfl).withMode _
    · exact (h.emit (.sec false k n hd true) rfl rfl).withMode _

theorem setMode_ready (st : St) (k : Kind) (n hd : String) : (st.setMode k n hd).ready = st.ready := by
  unfold St.setMode
  split
  · rfl
  · split <;> rfl

theorem setMode_out_defined (st : St) (k : Kind) (n hd : String) (x : Ref) (hx : x ∈ definedAfter A st.out) :
    x ∈ definedAfter A (st.setMode k n hd).out := by
  unfold St.setMode
  split
  · exact hx
  · split
    · show x ∈ definedAfter A ((st.out ++ [Chg.exit]) ++ [Chg.sec false k n hd true])
      rw [definedAfter_snoc, definedAfter_snoc]
      exact stepDef_mono _ _ rfl _ (stepDef_mono _ _ rfl _ hx)
    · show x ∈ definedAfter A (st.out ++ [Chg.sec false k n hd true])
      rw [definedAfter_snoc]
      exact stepDef_mono _ _ rfl _ hx

/-- the referenced target object is on the device under the name it is printed with -/
def Rdy (pend : List Ref) (st : St) (r : Ref) : Prop := st.isReady r = true ∧ r ∉ pend

theorem J.rdy_defined {pend : List Ref} {st : St} (h : J A a b pend st) (r : Ref) (hr : Rdy pend st r) :
    (r.1, st.cur r) ∈ definedAfter A st.out :=
  h.df (r, st.cur r) (cur_mem_ready st r hr.1) hr.2

/-- an added sub-command of the target whose reference (if any) is ready -/
theorem J.emitSub {pend : List Ref} {st : St} (h : J A a b pend st) (s : Sub)
    (hs : ∀ r, s.ref = some r → Rdy pend st r) :
    J A a b pend (st.emit (.sub false (st.subText s) (st.subRef s) s.key s.body)) := by
  apply h.emit _ rfl
  unfold St.subRef
  cases hr : s.ref with
  | none => rfl
  | some r =>
    simp only [Option.map_some, refOK]
    have := h.rdy_defined r (hs r hr)
    simpa using this

theorem J.addSec {pend : List Ref} {st : St} (h : J A a b pend st) (k : Kind) (n : String) (sec : Sec)
    (hs : ∀ s ∈ sec.subs, ∀ r, s.ref = some r → Rdy pend st r) :
    J A a b pend (addSec st k n sec) ∧ (addSec st k n sec).ready = st.ready ∧
      (k, n) ∈ definedAfter A (addSec st k n sec).out ∧
      (∀ x ∈ definedAfter A st.out, x ∈ definedAfter A (addSec st k n sec).out) := by
  unfold G.addSec
  have h1 : J A a b pend { (st.emit (.sec false k n sec.head sec.mode)) with
      mode := if sec.mode then some (k, n, sec.head) else none } :=
    (h.emit (.sec false k n sec.head sec.mode) rfl rfl).withMode _
  have hd1 : (k, n) ∈ definedAfter A (st.out ++ [Chg.sec false k n sec.head sec.mode]) := by
    rw [definedAfter_snoc]; simp [stepDef]
  have hm1 : ∀ x ∈ definedAfter A st.out, x ∈ definedAfter A (st.out ++ [Chg.sec false k n sec.head sec.mode]) := by
    intro x hx; rw [definedAfter_snoc]; exact stepDef_mono _ _ rfl _ hx
  generalize hst1 : ({ (st.emit (.sec false k n sec.head sec.mode)) with
      mode := if sec.mode then some (k, n, sec.head) else none } : St) = st1 at h1
  have hr1 : st1.ready = st.ready := by rw [← hst1]; rfl
  have ho1 : st1.out = st.out ++ [Chg.sec false k n sec.head sec.mode] := by rw [← hst1]; rfl
  rw [← ho1] at hd1 hm1
  clear hst1 ho1
  -- the sub-commands
  have key : ∀ (subs : List Sub) (st2 : St), J A a b pend st2 → st2.ready = st.ready →
      (∀ s ∈ subs, ∀ r, s.ref = some r → Rdy pend st r) →
      J A a b pend (subs.foldl (fun st s => st.emit (.sub false (st.subText s) (st.subRef s) s.key s.body)) st2) ∧
      (subs.foldl (fun st s => st.emit (.sub false (st.subText s) (st.subRef s) s.key s.body)) st2).ready = st.ready ∧
      (∀ x ∈ definedAfter A st2.out, x ∈ definedAfter A
        (subs.foldl (fun st s => st.emit (.sub false (st.subText s) (st.subRef s) s.key s.body)) st2).out) := by
    intro subs
    induction subs with
    | nil => intro st2 h2 hr2 _; exact ⟨h2, hr2, fun x hx => hx⟩
    | cons s ss ih =>
      intro st2 h2 hr2 hss
      rw [List.foldl_cons]
      have hsr : ∀ r, s.ref = some r → Rdy pend st2 r := by
        intro r hr
        have := hss s List.mem_cons_self r hr
        unfold Rdy St.isReady at this ⊢
        rw [hr2]; exact this
      have h3 := h2.emitSub s hsr
      have := ih _ h3 hr2 (fun s' hs' => hss s' (List.mem_cons_of_mem _ hs'))
      refine ⟨this.1, this.2.1, ?_⟩
      intro x hx
      apply this.2.2
      show x ∈ definedAfter A (st2.out ++ [_])
      rw [definedAfter_snoc]
      exact stepDef_mono _ _ rfl _ hx
  have := key sec.subs st1 h1 hr1 hs
  exact ⟨this.1, this.2.1, this.2.2 _ hd1, fun x hx => this.2.2 x (hm1 x hx)⟩

/-! ## well-formed graphs and the specifications of the higher-order pieces -/

/-- references resolve and go to kinds of strictly lower rank; new access-lists have lines, new sectioned objects have commands -/
structure WF (A : List Ref) (a b : List Obj) : Prop where
  bres : ∀ o ∈ b, ∀ x ∈ o.refs, (b.find? fun y => y.id == x).isSome = true ∧ rk x.1 < rk o.kind
  ares : ∀ o ∈ a, ∀ x ∈ o.refs, (a.find? fun y => y.id == x).isSome = true ∧ rk x.1 < rk o.kind
  bacl : ∀ o ∈ b, o.kind = .acl → o.lines ≠ []
  bsec : ∀ o ∈ b, rk o.kind ≠ 0 → o.secs ≠ []
  dev : ∀ o ∈ a, o.id ∈ A

/-- ready marks are never taken back, existing objects stay -/
def Mono (A : List Ref) (m : Nat) (st st' : St) : Prop :=
  (∀ y, st.isReady y = true → st'.isReady y = true) ∧ (∀ x ∈ definedAfter A st.out, x ∈ definedAfter A st'.out) ∧
  (∀ p ∈ st'.ready, p ∈ st.ready ∨ rk p.1.1 < m)     -- new ready marks only for objects of rank below `m`

theorem Mono.refl {m : Nat} (st : St) : Mono A m st st := ⟨fun _ h => h, fun _ h => h, fun _ h => Or.inl h⟩
theorem Mono.trans {m : Nat} {s1 s2 s3 : St} (h1 : Mono A m s1 s2) (h2 : Mono A m s2 s3) : Mono A m s1 s3 :=
  ⟨fun y h => h2.1 y (h1.1 y h), fun x h => h2.2.1 x (h1.2.1 x h), fun p hp => by
    rcases h2.2.2 p hp with h | h
    · exact h1.2.2 p h
    · exact Or.inr h⟩
theorem Mono.weaken {m m' : Nat} {st st' : St} (hm : m ≤ m') (h : Mono A m st st') : Mono A m' st st' :=
  ⟨h.1, h.2.1, fun p hp => by
    rcases h.2.2 p hp with h' | h'
    · exact Or.inl h'
    · exact Or.inr (by omega)⟩
theorem Mono.of_same {m : Nat} {st st' : St} (h : st'.ready = st.ready) (ho : st'.out = st.out) : Mono A m st st' := by
  refine ⟨?_, ?_, ?_⟩
  · intro y hy; unfold St.isReady at *; rw [h]; exact hy
  · intro x hx; rw [ho]; exact hx
  · intro p hp; rw [h] at hp; exact Or.inl hp

def AddJ (A : List Ref) (a b : List Obj) (f : Nat) (add : St → Ref → Option St) : Prop :=
  ∀ pend st x st', J A a b pend st → (b.find? fun y => y.id == x).isSome = true → rk x.1 < f →
    (∀ q ∈ pend, rk x.1 < rk q.1) → add st x = some st' →
    J A a b pend st' ∧ st'.isReady x = true ∧ Mono A (rk x.1 + 1) st st'

theorem not_mem_pend {pend : List Ref} {x : Ref} (h : ∀ q ∈ pend, rk x.1 < rk q.1) : x ∉ pend := by
  intro hm
  have := h x hm
  omega

/-- what the sub-commands of a command of the target reference: resolvable, of low enough rank -/
def SubsOK (b : List Obj) (f m : Nat) (pend : List Ref) (subs : List Sub) : Prop :=
  ∀ s ∈ subs, ∀ x, s.ref = some x →
    (b.find? fun y => y.id == x).isSome = true ∧ rk x.1 < f ∧ rk x.1 < m ∧ ∀ q ∈ pend, rk x.1 < rk q.1

theorem followSubs_J {f : Nat} {add : St → Ref → Option St} (hadd : AddJ A a b f add) (pend : List Ref) (m : Nat) :
    ∀ (subs : List Sub) (st st' : St), J A a b pend st → SubsOK b f m pend subs → followSubs add st subs = some st' →
      J A a b pend st' ∧ (∀ s ∈ subs, ∀ x, s.ref = some x → st'.isReady x = true) ∧ Mono A m st st'
  | [], st, st', h, _, he => by
    unfold followSubs at he; cases he
    exact ⟨h, ⟨fun s hs x _ => (by cases hs), Mono.refl _⟩⟩
  | s :: ss, st, st', h, hok, he => by
    unfold followSubs at he
    rw [List.foldl_cons] at he
    cases hr : s.ref with
    | none =>
      simp only [Option.bind_some, hr] at he
      have ih := followSubs_J hadd pend m ss st st' h (fun s' hs' => hok s' (List.mem_cons_of_mem _ hs')) he
      refine ⟨ih.1, ?_, ih.2.2⟩
      intro s' hs' x hx
      cases hs' with
      | head => rw [hr] at hx; cases hx
      | tail _ hs' => exact ih.2.1 s' hs' x hx
    | some x =>
      simp only [Option.bind_some, hr] at he
      cases ha : add st x with
      | none => rw [ha, foldl_opt_none] at he; cases he
      | some st1 =>
        rw [ha] at he
        have hx := hok s List.mem_cons_self x hr
        have h1 := hadd pend st x st1 h hx.1 hx.2.1 hx.2.2.2 ha
        have ih := followSubs_J hadd pend m ss st1 st' h1.1 (fun s' hs' => hok s' (List.mem_cons_of_mem _ hs')) he
        refine ⟨ih.1, ?_, (h1.2.2.weaken (by have := hx.2.2.1; omega)).trans ih.2.2⟩
        intro s' hs' y hy
        cases hs' with
        | head => rw [hr] at hy; cases hy; exact ih.2.2.1 x h1.2.1
        | tail _ hs' => exact ih.2.1 s' hs' y hy

/-- one top-level command of a new / edited object: its references first, then the command with its sub-commands -/
theorem addSec_step_J {f : Nat} {add : St → Ref → Option St} (hadd : AddJ A a b f add) (pend : List Ref) (m : Nat) (k : Kind) (n : String)
    (sec : Sec) (st st' : St) (h : J A a b pend st) (hok : SubsOK b f m pend sec.subs)
    (he : ((followSubs add st sec.subs).map fun st => addSec st k n sec) = some st') :
    J A a b pend st' ∧ Mono A m st st' ∧ (k, n) ∈ definedAfter A st'.out := by
  cases hf : followSubs add st sec.subs with
  | none => rw [hf] at he; cases he
  | some st1 =>
    rw [hf] at he
    cases he
    have h1 := followSubs_J hadd pend m sec.subs st st1 h hok hf
    have h2 := h1.1.addSec k n sec (fun s hs r hr => ⟨h1.2.1 s hs r hr, not_mem_pend (hok s hs r hr).2.2.2⟩)
    refine ⟨h2.1, h1.2.2.trans ⟨?_, h2.2.2.2, ?_⟩, h2.2.2.1⟩
    · intro y hy; unfold St.isReady at *; rw [h2.2.1]; exact hy
    · intro p hp; rw [h2.2.1] at hp; exact Or.inl hp

theorem addSecs_J {f : Nat} {add : St → Ref → Option St} (hadd : AddJ A a b f add) (pend : List Ref) (m : Nat) (k : Kind) (n : String) :
    ∀ (secs : List Sec) (st st' : St), J A a b pend st → (∀ sec ∈ secs, SubsOK b f m pend sec.subs) →
      addSecs add st k n secs = some st' →
      J A a b pend st' ∧ Mono A m st st' ∧ (secs ≠ [] → (k, n) ∈ definedAfter A st'.out)
  | [], st, st', h, _, he => by
    unfold addSecs at he; cases he
    exact ⟨h, Mono.refl _, fun hne => absurd rfl hne⟩
  | sec :: secs, st, st', h, hok, he => by
    unfold addSecs at he
    rw [List.foldl_cons] at he
    simp only [Option.bind_some] at he
    cases h1 : (followSubs add st sec.subs).map fun st => addSec st k n sec with
    | none => rw [h1, foldl_opt_none] at he; cases he
    | some st1 =>
      rw [h1] at he
      have i1 := addSec_step_J hadd pend m k n sec st st1 h (hok sec List.mem_cons_self) h1
      have i2 := addSecs_J hadd pend m k n secs st1 st' i1.1 (fun s hs => hok s (List.mem_cons_of_mem _ hs)) (by unfold addSecs; exact he)
      exact ⟨i2.1, i1.2.1.trans i2.2.1, fun _ => i2.2.1.2.1 _ i1.2.2⟩

/-! ## sub-commands of one section -/

def DiffJ (A : List Ref) (a b : List Obj) (f : Nat) (diff : St → Ref → Ref → Option (St × String)) : Prop :=
  ∀ pend st xa xb st' n, J A a b pend st → (a.find? fun y => y.id == xa).isSome = true →
    (b.find? fun y => y.id == xb).isSome = true → xa.1 = xb.1 → rk xb.1 < f →
    (∀ q ∈ pend, rk xb.1 < rk q.1) → diff st xa xb = some (st', n) →
    J A a b pend st' ∧ st'.isReady xb = true ∧ Mono A (rk xb.1 + 1) st st'

def MarkJ (A : List Ref) (a b : List Obj) (mark : St → Ref → St) : Prop :=
  ∀ (m : Nat) pend st x, J A a b pend st → J A a b pend (mark st x) ∧ Mono A m st (mark st x)

theorem Mono.emit {m : Nat} (st : St) (c : Chg) (hd : isDel c = false) : Mono A m st (st.emit c) := by
  refine ⟨fun _ h => h, ?_, fun _ h => Or.inl h⟩
  intro x hx
  show x ∈ definedAfter A (st.out ++ [c])
  rw [definedAfter_snoc]; exact stepDef_mono _ c hd x hx

theorem Mono.setMode {m : Nat} (st : St) (k : Kind) (n hd : String) : Mono A m st (st.setMode k n hd) := by
  refine ⟨?_, fun x hx => setMode_out_defined st k n hd x hx, ?_⟩
  · intro y hy; unfold St.isReady at *; rw [setMode_ready]; exact hy
  · intro p hp; rw [setMode_ready] at hp; exact Or.inl hp

theorem addSubs_J {f : Nat} {add : St → Ref → Option St} (hadd : AddJ A a b f add) (pend : List Ref) (m : Nat) (k : Kind) (n hd : String) :
    ∀ (l : List Sub) (st st' : St), J A a b pend st → SubsOK b f m pend l → addSubs add st k n hd l = some st' →
      J A a b pend st' ∧ Mono A m st st'
  | [], st, st', h, _, he => by unfold addSubs at he; cases he; exact ⟨h, Mono.refl _⟩
  | s :: ss, st, st', h, hok, he => by
    unfold addSubs at he
    rw [List.foldl_cons] at he
    simp only [Option.bind_some] at he
    -- the state after the reference of `s` is there
    have hstep : ∀ st1 : St, J A a b pend st1 → Mono A m st st1 → (∀ r, s.ref = some r → st1.isReady r = true) →
        ∀ st2, ((some st1).map fun (st : St) =>
            let st := st.setMode k n hd
            st.emit (.sub false (st.subText s) (st.subRef s) s.key s.body)) = some st2 →
          J A a b pend st2 ∧ Mono A m st st2 := by
      intro st1 h1 hm1 hr st2 h2
      simp only [Option.map_some, Option.some.injEq] at h2
      rw [← h2]
      have hj := h1.setMode k n hd
      have hrdy : ∀ r, s.ref = some r → Rdy pend (st1.setMode k n hd) r := by
        intro r hr'
        refine ⟨?_, not_mem_pend (hok s List.mem_cons_self r hr').2.2.2⟩
        exact (Mono.setMode (A := A) (m := m) st1 k n hd).1 r (hr r hr')
      exact ⟨hj.emitSub s hrdy, (hm1.trans (Mono.setMode st1 k n hd)).trans (Mono.emit _ _ rfl)⟩
    cases hr : s.ref with
    | none =>
      simp only [hr] at he
      cases h2 : ((some st).map fun (st : St) =>
            let st := st.setMode k n hd
            st.emit (.sub false (st.subText s) (st.subRef s) s.key s.body)) with
      | none => simp at h2
      | some st2 =>
        have i1 := hstep st h (Mono.refl _) (fun r hr' => by rw [hr] at hr'; cases hr') st2 h2
        rw [h2] at he
        have i2 := addSubs_J hadd pend m k n hd ss st2 st' i1.1 (fun s' hs' => hok s' (List.mem_cons_of_mem _ hs'))
          (by unfold addSubs; exact he)
        exact ⟨i2.1, i1.2.trans i2.2⟩
    | some x =>
      simp only [hr] at he
      cases ha : add st x with
      | none => rw [ha] at he; simp only [Option.map_none] at he; rw [foldl_opt_none] at he; cases he
      | some st1 =>
        rw [ha] at he
        have hx := hok s List.mem_cons_self x hr
        have h1 := hadd pend st x st1 h hx.1 hx.2.1 hx.2.2.2 ha
        cases h2 : ((some st1).map fun (st : St) =>
              let st := st.setMode k n hd
              st.emit (.sub false (st.subText s) (st.subRef s) s.key s.body)) with
        | none => simp at h2
        | some st2 =>
          have i1 := hstep st1 h1.1 (h1.2.2.weaken (by have := hx.2.2.1; omega)) (fun r hr' => by rw [hr] at hr'; cases hr'; exact h1.2.1) st2 h2
          rw [h2] at he
          have i2 := addSubs_J hadd pend m k n hd ss st2 st' i1.1 (fun s' hs' => hok s' (List.mem_cons_of_mem _ hs'))
            (by unfold addSubs; exact he)
          exact ⟨i2.1, i1.2.trans i2.2⟩

theorem foldl_J {α : Type} {m : Nat} (pend : List Ref) (g : St → α → St) : ∀ (l : List α) (st : St),
    (∀ st x, x ∈ l → J A a b pend st → J A a b pend (g st x) ∧ Mono A m st (g st x)) → J A a b pend st →
      J A a b pend (l.foldl g st) ∧ Mono A m st (l.foldl g st)
  | [], st, _, h => ⟨h, Mono.refl _⟩
  | x :: xs, st, hg, h => by
    rw [List.foldl_cons]
    have h1 := hg st x List.mem_cons_self h
    have h2 := foldl_J pend g xs (g st x) (fun st y hy => hg st y (List.mem_cons_of_mem _ hy)) h1.1
    exact ⟨h2.1, h1.2.trans h2.2⟩

theorem delSubs_J {mark : St → Ref → St} (hmark : MarkJ A a b mark) (pend : List Ref) (m : Nat) (k : Kind) (n hd : String)
    (l : List Sub) (st : St) (h : J A a b pend st) :
    J A a b pend (delSubs mark st k n hd l) ∧ Mono A m st (delSubs mark st k n hd l) := by
  unfold delSubs
  have h1 := foldl_J (m := m) pend (fun st (s : Sub) => (st.setMode k n hd).emit (.sub true s.orig s.ref s.key s.body)) l st
    (fun st s _ hj => ⟨(hj.setMode k n hd).emit _ rfl rfl, (Mono.setMode st k n hd).trans (Mono.emit _ _ rfl)⟩) h
  have h2 := foldl_J (m := m) pend mark (l.filterMap (·.ref)) _ (fun st x _ hj => hmark m pend st x hj) h1.1
  exact ⟨h2.1, h1.2.trans h2.2⟩

theorem foldl_opt_J {α : Type} {m : Nat} (pend : List Ref) (g : St → α → Option St) : ∀ (l : List α) (st st' : St),
    (∀ st x st', x ∈ l → J A a b pend st → g st x = some st' → J A a b pend st' ∧ Mono A m st st') →
    l.foldl (fun (acc : Option St) x => acc.bind fun st => g st x) (some st) = some st' → J A a b pend st →
      J A a b pend st' ∧ Mono A m st st'
  | [], st, st', _, he, h => by cases he; exact ⟨h, Mono.refl _⟩
  | x :: xs, st, st', hg, he, h => by
    rw [List.foldl_cons] at he
    simp only [Option.bind_some] at he
    cases hx : g st x with
    | none => rw [hx, foldl_opt_none] at he; cases he
    | some st1 =>
      rw [hx] at he
      have h1 := hg st x st1 List.mem_cons_self h hx
      have h2 := foldl_opt_J pend g xs st1 st' (fun st y st' hy => hg st y st' (List.mem_cons_of_mem _ hy)) he h1.1
      exact ⟨h2.1, h1.2.trans h2.2⟩

theorem equalSubs_J {f : Nat} {diff : St → Ref → Ref → Option (St × String)} (hdiff : DiffJ A a b f diff) (pend : List Ref) (m : Nat)
    (k : Kind) (n hd : String) (pairs : List (Sub × Sub))
    (hp : ∀ q ∈ pairs, ∀ xa xb, q.1.ref = some xa → q.2.ref = some xb →
      (a.find? fun y => y.id == xa).isSome = true ∧ (b.find? fun y => y.id == xb).isSome = true ∧ xa.1 = xb.1 ∧
        rk xb.1 < f ∧ rk xb.1 < m ∧ ∀ q ∈ pend, rk xb.1 < rk q.1)
    (st st' : St) (h : J A a b pend st) (he : equalSubs diff st k n hd pairs = some st') :
    J A a b pend st' ∧ Mono A m st st' := by
  unfold equalSubs at he
  refine foldl_opt_J pend (fun st (q : Sub × Sub) => match q.1.ref, q.2.ref with
      | some xa, some xb =>
        (diff st xa xb).map fun r =>
          if r.2 != xa.2 then
            let st := r.1.setMode k n hd
            st.emit (.sub false (st.subText q.2) (st.subRef q.2) q.2.key q.2.body)
          else r.1
      | _, _ => some st) pairs st st' ?_ he h
  intro st q st' hq hj hs
  cases h1 : q.1.ref with
  | none => simp only [h1] at hs; cases hs; exact ⟨hj, Mono.refl _⟩
  | some xa =>
    cases h2 : q.2.ref with
    | none => simp only [h1, h2] at hs; cases hs; exact ⟨hj, Mono.refl _⟩
    | some xb =>
      simp only [h1, h2] at hs
      cases hd' : diff st xa xb with
      | none => rw [hd'] at hs; cases hs
      | some r =>
        rw [hd'] at hs
        simp only [Option.map_some] at hs
        have hr := hp q hq xa xb h1 h2
        have hi := hdiff pend st xa xb r.1 r.2 hj hr.1 hr.2.1 hr.2.2.1 hr.2.2.2.1 hr.2.2.2.2.2 (by rw [hd'])
        have hmo : Mono A m st r.1 := hi.2.2.weaken (by have := hr.2.2.2.2.1; omega)
        split at hs
        · cases hs
          have hj2 := hi.1.setMode k n hd
          have hrdy : ∀ x, q.2.ref = some x → Rdy pend (r.1.setMode k n hd) x := by
            intro x hx
            rw [h2] at hx; cases hx
            exact ⟨(Mono.setMode (A := A) (m := m) r.1 k n hd).1 xb hi.2.1, not_mem_pend hr.2.2.2.2.2⟩
          exact ⟨hj2.emitSub q.2 hrdy, (hmo.trans (Mono.setMode r.1 k n hd)).trans (Mono.emit _ _ rfl)⟩
        · cases hs; exact ⟨hi.1, hmo⟩

theorem diffSubs_J {f : Nat} {add : St → Ref → Option St} {diff : St → Ref → Ref → Option (St × String)} {mark : St → Ref → St}
    (hadd : AddJ A a b f add) (hdiff : DiffJ A a b f diff) (hmark : MarkJ A a b mark) (pend : List Ref) (m : Nat)
    (k : Kind) (n hd : String) (sa sb : List Sub)
    (hsa : ∀ s ∈ sa, ∀ x, s.ref = some x → (a.find? fun y => y.id == x).isSome = true)
    (hsb : SubsOK b f m pend sb) (hkk : KindByKey sa sb) (st st' : St)
    (h : J A a b pend st) (he : diffSubs add diff mark st k n hd sa sb = some st') : J A a b pend st' ∧ Mono A m st st' := by
  unfold diffSubs at he
  by_cases h0 : (sa.isEmpty && sb.isEmpty) = true
  · rw [if_pos h0] at he; cases he; exact ⟨h, Mono.refl _⟩
  · rw [if_neg h0] at he
    dsimp only at he
    by_cases hv : (NA.Vpn.unorderedA (keysOf sb) (keysOf sa) 0 []).1.isEmpty = true
    · rw [if_pos hv] at he
      have h1 : J A a b pend (if sa.isEmpty then st else delSubs mark st k n hd sa) ∧
          Mono A m st (if sa.isEmpty then st else delSubs mark st k n hd sa) := by
        split
        · exact ⟨h, Mono.refl _⟩
        · exact delSubs_J hmark pend m k n hd sa st h
      by_cases hb : sb.isEmpty = true
      · rw [if_pos hb] at he; cases he; exact h1
      · rw [if_neg hb] at he
        have h2 := addSubs_J hadd pend m k n hd sb _ st' h1.1 hsb he
        exact ⟨h2.1, h1.2.trans h2.2⟩
    · rw [if_neg hv] at he
      have h1 := delSubs_J hmark pend m k n hd
        ((NA.Vpn.unorderedA (keysOf sb) (keysOf sa) 0 []).2.1.filterMap fun i => sa[i]?) st h
      generalize delSubs mark st k n hd _ = st1 at h1 he
      cases h2 : equalSubs diff st1 k n hd (pairsOf sa sb (NA.Vpn.unorderedA (keysOf sb) (keysOf sa) 0 []).1) with
      | none => rw [h2] at he; rw [foldl_opt_none] at he; cases he
      | some st2 =>
        rw [h2] at he
        have hi2 := equalSubs_J hdiff pend m k n hd _ (by
          intro q hq xa xb hxa hxb
          obtain ⟨p, hp, hqa, hqb⟩ := mem_pairsOf sa sb _ q hq
          obtain ⟨_, key, hka, hkb⟩ := unorderedA_pairs (keysOf sb) (keysOf sa) 0 [] p.1 p.2 hp
          have hma : q.1 ∈ sa := List.mem_of_getElem? hqa
          have hmb : q.2 ∈ sb := List.mem_of_getElem? hqb
          have e1 : q.1.key = key := by
            have : (keysOf sa)[p.1]? = some q.1.key := by unfold keysOf; rw [List.getElem?_map, hqa]; rfl
            rw [Nat.sub_zero] at hka
            rw [this] at hka; exact Option.some.inj hka
          have e2 : q.2.key = key := by
            have : (keysOf sb)[p.2]? = some q.2.key := by unfold keysOf; rw [List.getElem?_map, hqb]; rfl
            rw [this] at hkb; exact Option.some.inj hkb
          have hb' := hsb q.2 hmb xb hxb
          exact ⟨hsa q.1 hma xa hxa, hb'.1, hkk q.1 hma q.2 hmb (by rw [e1, e2]) xa xb hxa hxb, hb'.2.1, hb'.2.2.1, hb'.2.2.2⟩) st1 st2 h1.1 h2
        have hi3 := foldl_opt_J pend (fun st (run : List Nat) => addSubs add st k n hd (run.filterMap fun j => sb[j]?)) _ st2 st' (by
          intro st run st' _ hj hs
          exact addSubs_J hadd pend m k n hd _ st st' hj (by
            intro s hs' x hx
            obtain ⟨j, _, hj'⟩ := List.mem_filterMap.1 hs'
            exact hsb s (List.mem_of_getElem? hj') x hx) hs) he hi2.1
        exact ⟨hi3.1, (h1.2.trans hi2.2).trans hi3.2⟩

/-! ## top-level commands of one object -/

theorem delSecs_J {mark : St → Ref → St} (hmark : MarkJ A a b mark) (pend : List Ref) (m : Nat) (k : Kind) (n : String)
    (secs : List Sec) (st : St) (h : J A a b pend st) :
    J A a b pend (delSecs mark st k n secs) ∧ Mono A m st (delSecs mark st k n secs) := by
  unfold delSecs
  apply foldl_J (m := m) pend _ secs st _ h
  intro st sec _ hj
  have h1 : J A a b pend { (st.emit (.sec true k n sec.head sec.mode)) with mode := none } :=
    (hj.emit (.sec true k n sec.head sec.mode) rfl rfl).withMode _
  have m1 : Mono A m st { (st.emit (.sec true k n sec.head sec.mode)) with mode := none } := by
    refine ⟨fun _ hy => hy, ?_, fun _ hp => Or.inl hp⟩
    intro x hx
    show x ∈ definedAfter A (st.out ++ [_])
    rw [definedAfter_snoc]; exact stepDef_mono _ _ rfl x hx
  have h2 := foldl_J (m := m) pend mark (sec.subs.filterMap (·.ref)) _ (fun st x _ hj => hmark m pend st x hj) h1
  exact ⟨h2.1, m1.trans h2.2⟩

theorem diffSecs_J {f : Nat} {add : St → Ref → Option St} {diff : St → Ref → Ref → Option (St × String)} {mark : St → Ref → St}
    (hadd : AddJ A a b f add) (hdiff : DiffJ A a b f diff) (hmark : MarkJ A a b mark) (pend : List Ref) (m : Nat)
    (k : Kind) (n : String) (sa sb : List Sec)
    (hsa : ∀ sec ∈ sa, ∀ s ∈ sec.subs, ∀ x, s.ref = some x → (a.find? fun y => y.id == x).isSome = true)
    (hsb : ∀ sec ∈ sb, SubsOK b f m pend sec.subs)
    (hkk : ∀ x ∈ sa, ∀ y ∈ sb, KindByKey x.subs y.subs)
    (u : List (Nat × Nat) × List Nat × List String) (st st' : St)
    (h : J A a b pend st) (he : diffSecs add diff mark st k n sa sb u = some st') :
    J A a b pend st' ∧ Mono A m st st' := by
  unfold diffSecs at he
  dsimp only at he
  have h1 := delSecs_J hmark pend m k n (u.2.1.filterMap fun i => sa[i]?) st h
  generalize delSecs mark st k n _ = st1 at h1 he
  cases h2 : (pairsOf sa sb u.1).foldl (fun (acc : Option St) p =>
      acc.bind fun st => diffSubs add diff mark st k n p.2.head p.1.subs p.2.subs) (some st1) with
  | none => rw [h2] at he; cases he
  | some st2 =>
    rw [h2] at he
    simp only [Option.bind_some] at he
    have hi2 := foldl_opt_J pend (fun st (p : Sec × Sec) => diffSubs add diff mark st k n p.2.head p.1.subs p.2.subs) _ st1 st2 (by
      intro st p st' hp hj hs
      obtain ⟨q, _, hqa, hqb⟩ := mem_pairsOf sa sb _ p hp
      have hma : p.1 ∈ sa := List.mem_of_getElem? hqa
      have hmb : p.2 ∈ sb := List.mem_of_getElem? hqb
      exact diffSubs_J hadd hdiff hmark pend m k n p.2.head p.1.subs p.2.subs (hsa p.1 hma) (hsb p.2 hmb) (hkk p.1 hma p.2 hmb) st st' hj hs) h2 h1.1
    have hi3 := addSecs_J hadd pend m k n _ st2 st' hi2.1 (by
      intro sec hsec
      obtain ⟨j, _, hj⟩ := List.mem_filterMap.1 hsec
      exact hsb sec (List.mem_of_getElem? hj)) he
    exact ⟨hi3.1, (h1.2.trans hi2.2).trans hi3.2.1⟩

/-! ## marks -/

theorem markDel_fields : ∀ (f : Nat) (st : St) (r : Ref),
    (markDel f st r).a = st.a ∧ (markDel f st r).b = st.b ∧ (markDel f st r).ready = st.ready ∧ (markDel f st r).out = st.out
  | 0, _, _ => ⟨rfl, rfl, rfl, rfl⟩
  | f + 1, st, r => by
    unfold markDel
    split
    · exact ⟨rfl, rfl, rfl, rfl⟩
    · cases st.aObj r with
      | none => exact ⟨rfl, rfl, rfl, rfl⟩
      | some o =>
        simp only
        split
        · exact ⟨rfl, rfl, rfl, rfl⟩
        · have : ∀ (l : List Ref) (s0 : St),
              (l.foldl (markDel f) s0).a = s0.a ∧ (l.foldl (markDel f) s0).b = s0.b ∧
              (l.foldl (markDel f) s0).ready = s0.ready ∧ (l.foldl (markDel f) s0).out = s0.out := by
            intro l
            induction l with
            | nil => intro s0; exact ⟨rfl, rfl, rfl, rfl⟩
            | cons x xs ih =>
              intro s0
              rw [List.foldl_cons]
              have h1 := markDel_fields f s0 x
              have h2 := ih (markDel f s0 x)
              exact ⟨h2.1.trans h1.1, h2.2.1.trans h1.2.1, h2.2.2.1.trans h1.2.2.1, h2.2.2.2.trans h1.2.2.2⟩
          exact this o.refs _

theorem markDel_J (f : Nat) : MarkJ A a b (markDel f) := by
  intro m pend st x hj
  have h := markDel_fields f st x
  exact ⟨hj.same h.1 h.2.1 h.2.2.1 h.2.2.2, Mono.of_same h.2.2.1 h.2.2.2⟩

/-! ## transfer -/

theorem defined_init : ∀ (out : List Chg) (d : List Ref), (∀ c ∈ out, isDel c = false) → ∀ r ∈ d, r ∈ definedAfter d out
  | [], _, _, _, h => h
  | c :: cs, d, hn, r, h =>
    defined_init cs (stepDef d c) (fun x hx => hn x (List.mem_cons_of_mem _ hx)) r
      (stepDef_mono d c (hn c List.mem_cons_self) r h)

theorem find_id (l : List Obj) (x : Ref) (o : Obj) (h : l.find? (fun y => y.id == x) = some o) : o ∈ l ∧ o.id = x :=
  ⟨List.mem_of_find?_eq_some h, by simpa using List.find?_some h⟩

theorem J.dev_defined {pend : List Ref} {st : St} (hw : WF A a b) (h : J A a b pend st) (o : Obj) (ho : o ∈ a) :
    o.id ∈ definedAfter A st.out :=
  defined_init st.out A h.nd o.id (hw.dev o ho)

theorem setReady_entries (st : St) (x : Ref) (n n' : String) (h : (x, n') ∈ (st.setReady x n).ready) : n' = n := by
  unfold St.setReady at h
  simp only [List.mem_cons] at h
  rcases h with h | h
  · exact (Prod.mk.inj h).2
  · have := (List.mem_filter.1 h).2
    simp at this

theorem Mono.setReady {st : St} (x : Ref) (n : String) : Mono A (rk x.1 + 1) st (st.setReady x n) := by
  refine ⟨fun y hy => isReady_setReady_mono st x y n hy, fun _ h => h, ?_⟩
  intro p hp
  unfold St.setReady at hp
  simp only [List.mem_cons] at hp
  rcases hp with h | h
  · right; rw [h]; exact Nat.lt_succ_self _
  · exact Or.inl (List.mem_filter.1 h).1

theorem Mono.markNeeded {m : Nat} (st : St) (r : Ref) : Mono A m st (st.markNeeded r) := by
  unfold St.markNeeded
  split
  · exact Mono.refl _
  · exact Mono.of_same rfl rfl

theorem findPool_mem (st : St) (c dn : String) (h : findPool st c = some dn) : ∃ o ∈ st.a, o.id = (.pool, dn) := by
  unfold findPool at h
  have := List.find?_some h
  cases ho : st.aObj (.pool, dn) with
  | none => simp [ho] at this
  | some o => unfold St.aObj at ho; exact ⟨o, (find_id st.a _ o ho).1, (find_id st.a _ o ho).2⟩

/-- the sectioned case of `addAny` -/
theorem addAny_sec_J (hw : WF A a b) (f : Nat) (ih : AddJ A a b f (addAny f)) (pend : List Ref) (st st' : St) (x : Ref) (o : Obj)
    (hj : J A a b pend st) (hob : st.bObj x = some o) (hk : rk x.1 ≠ 0) (hf : rk x.1 < f + 1)
    (hp : ∀ q ∈ pend, rk x.1 < rk q.1)
    (he : (if st.isReady x then some st else
        addSecs (addAny f) (st.setReady x (st.cur x)) x.1 (st.cur x) o.secs) = some st') :
    J A a b pend st' ∧ st'.isReady x = true ∧ Mono A (rk x.1 + 1) st st' := by
  by_cases hr : st.isReady x = true
  · rw [if_pos hr] at he; cases he; exact ⟨hj, hr, Mono.refl _⟩
  · rw [if_neg hr] at he
    have hob' : o ∈ b ∧ o.id = x := by
      unfold St.bObj at hob; rw [hj.sb] at hob; exact find_id b x o hob
    have hkind : o.kind = x.1 := by have := hob'.2; unfold Obj.id at this; rw [← this]
    -- the object is pending while what it references is transferred
    have h1 : J A a b (x :: pend) (st.setReady x (st.cur x)) := (hj.push x).setReady x _ (Or.inl List.mem_cons_self)
    have hsub : ∀ sec ∈ o.secs, SubsOK b f (rk x.1) (x :: pend) sec.subs := by
      intro sec hsec s hs y hy
      have hy' := hw.bres o hob'.1 y (ref_mem_refs o sec s y hsec hs hy)
      rw [hkind] at hy'
      refine ⟨hy'.1, by omega, hy'.2, ?_⟩
      intro q hq
      cases hq with
      | head => exact hy'.2
      | tail _ hq => have := hp q hq; omega
    have h2 := addSecs_J ih (x :: pend) (rk x.1) x.1 (st.cur x) o.secs _ st' h1 hsub he
    have hsecs : o.secs ≠ [] := hw.bsec o hob'.1 (by rw [hkind]; exact hk)
    have hdef := h2.2.2 hsecs
    refine ⟨?_, h2.2.1.1 x (isReady_setReady_self st x _), (Mono.setReady x _).trans (h2.2.1.weaken (Nat.le_succ _))⟩
    apply h2.1.pop x
    intro n' hn'
    rcases h2.2.1.2.2 (x, n') hn' with h3 | h3
    · rw [setReady_entries st x _ n' h3]; exact hdef
    · exact absurd h3 (Nat.lt_irrefl _)

theorem lines_J (pend : List Ref) (n : String) : ∀ (ls : List String) (st : St), J A a b pend st →
    J A a b pend (ls.foldl (fun st l => st.emit (.line n l)) st) ∧
      (ls.foldl (fun st l => st.emit (.line n l)) st).ready = st.ready ∧
      (∀ x ∈ definedAfter A st.out, x ∈ definedAfter A (ls.foldl (fun st l => st.emit (.line n l)) st).out) ∧
      (ls ≠ [] → (Kind.acl, n) ∈ definedAfter A (ls.foldl (fun st l => st.emit (.line n l)) st).out)
  | [], st, h => ⟨h, rfl, fun _ hx => hx, fun hne => absurd rfl hne⟩
  | l :: ls, st, h => by
    rw [List.foldl_cons]
    have h1 := h.emit (.line n l) rfl rfl
    have ih := lines_J pend n ls _ h1
    have hd : (Kind.acl, n) ∈ definedAfter A (st.emit (.line n l)).out := by
      show _ ∈ definedAfter A (st.out ++ [_])
      rw [definedAfter_snoc]; simp [stepDef]
    refine ⟨ih.1, ih.2.1, ?_, fun _ => ih.2.2.1 _ hd⟩
    intro x hx
    apply ih.2.2.1
    show x ∈ definedAfter A (st.out ++ [_])
    rw [definedAfter_snoc]; exact stepDef_mono _ _ rfl x hx

theorem addAny_J (hw : WF A a b) : ∀ f, AddJ A a b f (addAny f)
  | 0 => by intro pend st x st' _ _ hf; omega
  | f + 1 => by
    intro pend st x st' hj hres hf hp he
    have ih : AddJ A a b f (addAny f) := addAny_J hw f
    unfold addAny at he
    obtain ⟨o, hob⟩ : ∃ o, st.bObj x = some o := by
      unfold St.bObj; rw [hj.sb]
      cases h : b.find? (fun y => y.id == x) with
      | none => rw [h] at hres; cases hres
      | some o => exact ⟨o, rfl⟩
    have hob' : o ∈ b ∧ o.id = x := by
      have := hob; unfold St.bObj at this; rw [hj.sb] at this; exact find_id b x o this
    have hkind : o.kind = x.1 := by have := hob'.2; unfold Obj.id at this; rw [← this]
    obtain ⟨k, hk⟩ : ∃ k, x.1 = k := ⟨_, rfl⟩
    cases k with
    | aaa =>
      simp only [hk] at he
      split at he
      · rename_i hex
        cases he
        obtain ⟨oa, hoa⟩ : ∃ oa, st.aObj x = some oa := by
          cases h : st.aObj x with
          | none => rw [h] at hex; cases hex
          | some oa => exact ⟨oa, rfl⟩
        have hoa' : oa ∈ a ∧ oa.id = x := by unfold St.aObj at hoa; rw [hj.sa] at hoa; exact find_id a x oa hoa
        have hdef : (x.1, x.2) ∈ definedAfter A (st.markNeeded x).out := by
          have := (hj.markNeeded x).dev_defined hw oa hoa'.1
          rw [hoa'.2] at this; exact this
        exact ⟨(hj.markNeeded x).setReady x x.2 (Or.inr hdef), isReady_setReady_self _ x _,
          (Mono.markNeeded st x).trans (Mono.setReady x x.2)⟩
      · cases he
    | acl =>
      simp only [hk, hob] at he
      by_cases hr : st.isReady x = true
      · rw [if_pos hr] at he; cases he; exact ⟨hj, hr, Mono.refl _⟩
      · rw [if_neg hr] at he
        cases he
        have hlines : o.lines ≠ [] := hw.bacl o hob'.1 (by rw [hkind, hk])
        have h1 : J A a b (x :: pend) (st.setReady x (st.cur x)) := (hj.push x).setReady x _ (Or.inl List.mem_cons_self)
        have h2 := lines_J (x :: pend) (st.cur x) o.lines _ h1
        have hdef : (x.1, st.cur x) ∈ definedAfter A (o.lines.foldl (fun s l => s.emit (.line (st.cur x) l)) (st.setReady x (st.cur x))).out := by
          rw [hk]; exact h2.2.2.2 hlines
        refine ⟨?_, ?_, ?_⟩
        · apply J.withMode
          apply h2.1.pop x
          intro n' hn'
          rw [h2.2.1] at hn'
          rw [setReady_entries st x _ n' hn']; exact hdef
        · show List.any (o.lines.foldl (fun s l => s.emit (.line (st.cur x) l)) (st.setReady x (st.cur x))).ready _ = true
          rw [h2.2.1]
          exact isReady_setReady_self st x _
        · have m2 : Mono A (rk x.1 + 1) (st.setReady x (st.cur x))
              { (o.lines.foldl (fun s l => s.emit (.line (st.cur x) l)) (st.setReady x (st.cur x))) with
                mode := if o.lines.isEmpty then (st.setReady x (st.cur x)).mode else none } := by
            refine ⟨?_, h2.2.2.1, ?_⟩
            · intro y hy
              show List.any (o.lines.foldl (fun s l => s.emit (.line (st.cur x) l)) (st.setReady x (st.cur x))).ready _ = true
              rw [h2.2.1]; exact hy
            · intro p hp'
              have : p ∈ (o.lines.foldl (fun s l => s.emit (.line (st.cur x) l)) (st.setReady x (st.cur x))).ready := hp'
              rw [h2.2.1] at this
              exact Or.inl this
          exact (Mono.setReady x (st.cur x)).trans m2
    | pool =>
      simp only [hk, hob] at he
      by_cases hr : st.isReady x = true
      · rw [if_pos hr] at he; cases he; exact ⟨hj, hr, Mono.refl _⟩
      · rw [if_neg hr] at he
        have h1 : J A a b (x :: pend) (st.setReady x (st.cur x)) := (hj.push x).setReady x _ (Or.inl List.mem_cons_self)
        split at he
        · rename_i dn hfound
          cases he
          obtain ⟨od, hod, hid⟩ := findPool_mem _ _ dn hfound
          have hod' : od ∈ a := by
            have : (st.setReady x (st.cur x)).a = a := h1.sa
            rw [← this]; exact hod
          have h2 := h1.markNeeded (.pool, dn)
          have hdef : (x.1, dn) ∈ definedAfter A ((st.setReady x (st.cur x)).markNeeded (.pool, dn)).out := by
            have := h2.dev_defined hw od hod'
            rw [hid] at this; rw [hk]; exact this
          refine ⟨?_, isReady_setReady_self _ x _, ?_⟩
          · apply (h2.setReady x dn (Or.inr hdef)).pop x
            intro n' hn'
            rw [setReady_entries _ x dn n' hn']; exact hdef
          · exact ((Mono.setReady x _).trans (Mono.markNeeded _ _)).trans (Mono.setReady x dn)
        · cases he
          have h2 := (h1.emit (.pool false (st.cur x) (o.lines.headD "")) rfl rfl)
          have hdef : (x.1, st.cur x) ∈ definedAfter A ((st.setReady x (st.cur x)).emit (.pool false (st.cur x) (o.lines.headD ""))).out := by
            show _ ∈ definedAfter A (_ ++ [_])
            rw [definedAfter_snoc, hk]; simp [stepDef]
          refine ⟨?_, isReady_setReady_self st x _, (Mono.setReady x _).trans ((Mono.emit _ _ rfl).trans (Mono.of_same rfl rfl))⟩
          apply J.withMode
          apply h2.pop x
          intro n' hn'
          rw [setReady_entries st x _ n' hn']; exact hdef
    | gp =>
      simp only [hk, hob] at he
      exact addAny_sec_J hw f ih pend st st' x o hj hob (by rw [hk]; decide) hf hp (by rw [hk]; exact he)
    | tg =>
      simp only [hk, hob] at he
      exact addAny_sec_J hw f ih pend st st' x o hj hob (by rw [hk]; decide) hf hp (by rw [hk]; exact he)
    | user =>
      simp only [hk, hob] at he
      exact addAny_sec_J hw f ih pend st st' x o hj hob (by rw [hk]; decide) hf hp (by rw [hk]; exact he)
    | certmap =>
      simp only [hk, hob] at he
      exact addAny_sec_J hw f ih pend st st' x o hj hob (by rw [hk]; decide) hf hp (by rw [hk]; exact he)

/-! ## comparison -/

theorem addAny_pair_J (hw : WF A a b) {pend : List Ref} {st : St} {xb : Ref} {g : St → String} {st' : St} {n : String} (f : Nat)
    (hj : J A a b pend st) (hres : (b.find? fun y => y.id == xb).isSome = true) (hf : rk xb.1 < f)
    (hp : ∀ q ∈ pend, rk xb.1 < rk q.1)
    (he : ((addAny f st xb).map fun st => (st, g st)) = some (st', n)) :
    J A a b pend st' ∧ st'.isReady xb = true ∧ Mono A (rk xb.1 + 1) st st' := by
  cases ha : addAny f st xb with
  | none => rw [ha] at he; cases he
  | some s1 =>
    rw [ha] at he
    simp only [Option.map_some, Option.some.injEq, Prod.mk.injEq] at he
    rw [← he.1]; exact addAny_J hw f pend st xb s1 hj hres hf hp ha

theorem diffAny_sec_J (hw : WF A a b)
    (hkk : ∀ x ∈ a, ∀ y ∈ b, ∀ sx ∈ x.secs, ∀ sy ∈ y.secs, KindByKey sx.subs sy.subs)
    (f : Nat) (ihd : DiffJ A a b f (diffAny f)) (pend : List Ref) (st st' : St) (xa xb : Ref) (n : String)
    (oa ob : Obj) (hoa : st.aObj xa = some oa) (hob : st.bObj xb = some ob)
    (hkind : xa.1 = xb.1) (hf : rk xb.1 < f + 1) (hp : ∀ q ∈ pend, rk xb.1 < rk q.1) (hj : J A a b pend st)
    (he : (if st.isNeeded xa then (addAny (f + 1) st xb).map fun st => (st, st.cur xb)
        else if st.isReady xb then some (st, st.cur xb)
        else
          let u := NA.Vpn.unorderedA (ob.secs.map (·.head)) (oa.secs.map (·.head)) 0 []
          if u.1.isEmpty then
            (addAny (f + 1) (markDel (f + 1) st xa) xb).map fun st => (st, st.cur xb)
          else
            (diffSecs (addAny f) (diffAny f) (markDel f) ((st.markNeeded xa).setReady xb xa.2) xa.1 xa.2 oa.secs ob.secs u).map
              fun st => (st, xa.2)) = some (st', n)) :
    J A a b pend st' ∧ st'.isReady xb = true ∧ Mono A (rk xb.1 + 1) st st' := by
  have hoa' : oa ∈ a ∧ oa.id = xa := by unfold St.aObj at hoa; rw [hj.sa] at hoa; exact find_id a xa oa hoa
  have hob' : ob ∈ b ∧ ob.id = xb := by unfold St.bObj at hob; rw [hj.sb] at hob; exact find_id b xb ob hob
  have hres : (b.find? fun y => y.id == xb).isSome = true := by
    unfold St.bObj at hob; rw [hj.sb] at hob; rw [hob]; rfl
  have hkb : ob.kind = xb.1 := by have := hob'.2; unfold Obj.id at this; rw [← this]
  by_cases h1 : st.isNeeded xa = true
  · rw [if_pos h1] at he
    exact addAny_pair_J hw (f + 1) hj hres hf hp he
  · rw [if_neg h1] at he
    by_cases h2 : st.isReady xb = true
    · rw [if_pos h2] at he
      simp only [Option.some.injEq, Prod.mk.injEq] at he
      rw [← he.1]; exact ⟨hj, h2, Mono.refl _⟩
    · rw [if_neg h2] at he
      dsimp only at he
      by_cases h3 : (NA.Vpn.unorderedA (ob.secs.map (·.head)) (oa.secs.map (·.head)) 0 []).1.isEmpty = true
      · rw [if_pos h3] at he
        have hm := markDel_J (A := A) (a := a) (b := b) (f + 1) (rk xb.1 + 1) pend st xa hj
        have := addAny_pair_J hw (f + 1) hm.1 hres hf hp he
        exact ⟨this.1, this.2.1, hm.2.trans this.2.2⟩
      · rw [if_neg h3] at he
        have hdef : (xb.1, xa.2) ∈ definedAfter A (st.markNeeded xa).out := by
          have := (hj.markNeeded xa).dev_defined hw oa hoa'.1
          rw [hoa'.2] at this
          rw [← hkind]; exact this
        have h0 : J A a b pend ((st.markNeeded xa).setReady xb xa.2) := (hj.markNeeded xa).setReady xb xa.2 (Or.inr hdef)
        have m0 : Mono A (rk xb.1 + 1) st ((st.markNeeded xa).setReady xb xa.2) :=
          (Mono.markNeeded st xa).trans (Mono.setReady xb xa.2)
        cases hd : diffSecs (addAny f) (diffAny f) (markDel f) ((st.markNeeded xa).setReady xb xa.2) xa.1 xa.2 oa.secs ob.secs
            (NA.Vpn.unorderedA (ob.secs.map (·.head)) (oa.secs.map (·.head)) 0 []) with
        | none => rw [hd] at he; cases he
        | some s1 =>
          rw [hd] at he
          simp only [Option.map_some, Option.some.injEq, Prod.mk.injEq] at he
          rw [← he.1]
          have hr := diffSecs_J (addAny_J hw f) ihd (markDel_J f) pend (rk xb.1) xa.1 xa.2 oa.secs ob.secs
            (fun sec hsec s hs y hy => (hw.ares oa hoa'.1 y (ref_mem_refs oa sec s y hsec hs hy)).1)
            (by
              intro sec hsec s hs y hy
              have hy' := hw.bres ob hob'.1 y (ref_mem_refs ob sec s y hsec hs hy)
              rw [hkb] at hy'
              exact ⟨hy'.1, by omega, hy'.2, fun q hq => by have := hp q hq; omega⟩)
            (fun x hx y hy => hkk oa hoa'.1 ob hob'.1 x hx y hy) _ _ s1 h0 hd
          exact ⟨hr.1, hr.2.1 xb (isReady_setReady_self _ xb _), m0.trans (hr.2.weaken (Nat.le_succ _))⟩

theorem diffAny_J (hw : WF A a b)
    (hkk : ∀ x ∈ a, ∀ y ∈ b, ∀ sx ∈ x.secs, ∀ sy ∈ y.secs, KindByKey sx.subs sy.subs) : ∀ f, DiffJ A a b f (diffAny f)
  | 0 => by intro pend st xa xb st' n _ _ _ _ hf; omega
  | f + 1 => by
    intro pend st xa xb st' n hj hra hrb hkind hf hp he
    have ih : DiffJ A a b f (diffAny f) := diffAny_J hw hkk f
    unfold diffAny at he
    obtain ⟨oa, hoa⟩ : ∃ o, st.aObj xa = some o := by
      unfold St.aObj; rw [hj.sa]
      cases h : a.find? (fun y => y.id == xa) with
      | none => rw [h] at hra; cases hra
      | some o => exact ⟨o, rfl⟩
    obtain ⟨ob, hob⟩ : ∃ o, st.bObj xb = some o := by
      unfold St.bObj; rw [hj.sb]
      cases h : b.find? (fun y => y.id == xb) with
      | none => rw [h] at hrb; cases hrb
      | some o => exact ⟨o, rfl⟩
    have hoa' : oa ∈ a ∧ oa.id = xa := by have := hoa; unfold St.aObj at this; rw [hj.sa] at this; exact find_id a xa oa this
    rw [hoa, hob] at he
    -- the device object `xa` under the kind of `xb` exists from the start
    have hdef : ∀ s : St, J A a b pend s → (xb.1, xa.2) ∈ definedAfter A s.out := by
      intro s hs
      have := hs.dev_defined hw oa hoa'.1
      rw [hoa'.2] at this
      rw [← hkind]; exact this
    have hkeep : ∀ {s : St}, J A a b pend s → Mono A (rk xb.1 + 1) st s →
        J A a b pend ((s.markNeeded xa).setReady xb xa.2) ∧ ((s.markNeeded xa).setReady xb xa.2).isReady xb = true ∧
          Mono A (rk xb.1 + 1) st ((s.markNeeded xa).setReady xb xa.2) := by
      intro s hs hm
      exact ⟨(hs.markNeeded xa).setReady xb xa.2 (Or.inr (hdef _ (hs.markNeeded xa))), isReady_setReady_self _ xb _,
        hm.trans ((Mono.markNeeded s xa).trans (Mono.setReady xb xa.2))⟩
    obtain ⟨k, hk⟩ : ∃ k, xa.1 = k := ⟨_, rfl⟩
    cases k with
    | aaa =>
      simp only [hk] at he
      split at he
      · cases ha : addAny (f + 1) st xb with
        | none => rw [ha] at he; cases he
        | some s1 =>
          rw [ha] at he
          simp only [Option.map_some, Option.some.injEq, Prod.mk.injEq] at he
          rw [← he.1]; exact addAny_J hw (f + 1) pend st xb s1 hj hrb hf hp ha
      · simp only [Option.some.injEq, Prod.mk.injEq] at he
        rw [← he.1]; exact hkeep hj (Mono.refl _)
    | acl =>
      simp only [hk] at he
      split at he
      · exact addAny_pair_J hw (f + 1) hj hrb hf hp he
      · split at he
        · rename_i hr
          simp only [Option.some.injEq, Prod.mk.injEq] at he; rw [← he.1]; exact ⟨hj, hr, Mono.refl _⟩
        · split at he
          · simp only [Option.some.injEq, Prod.mk.injEq] at he
            rw [← he.1]; exact hkeep hj (Mono.refl _)
          · have h0 : J A a b pend (if oa.lines.any (fun l => ob.lines.contains l) then { st with outside := true } else st) ∧
                Mono A (rk xb.1 + 1) st (if oa.lines.any (fun l => ob.lines.contains l) then { st with outside := true } else st) := by
              split
              · exact ⟨hj.same rfl rfl rfl rfl, Mono.of_same rfl rfl⟩
              · exact ⟨hj, Mono.refl _⟩
            have hm := markDel_J (A := A) (a := a) (b := b) (f + 1) (rk xb.1 + 1) pend _ xa h0.1
            have := addAny_pair_J hw (f + 1) hm.1 hrb hf hp he
            exact ⟨this.1, this.2.1, (h0.2.trans hm.2).trans this.2.2⟩
    | pool =>
      simp only [hk] at he
      split at he
      · exact addAny_pair_J hw (f + 1) hj hrb hf hp he
      · split at he
        · rename_i hr
          simp only [Option.some.injEq, Prod.mk.injEq] at he; rw [← he.1]; exact ⟨hj, hr, Mono.refl _⟩
        · split at he
          · simp only [Option.some.injEq, Prod.mk.injEq] at he
            rw [← he.1]; exact hkeep hj (Mono.refl _)
          · have hm := markDel_J (A := A) (a := a) (b := b) (f + 1) (rk xb.1 + 1) pend st xa hj
            split at he
            · rename_i dn hfound
              simp only [Option.some.injEq, Prod.mk.injEq] at he
              rw [← he.1]
              obtain ⟨od, hod, hid⟩ := findPool_mem _ _ dn hfound
              have hod' : od ∈ a := by rw [← hm.1.sa]; exact hod
              have h2 := hm.1.markNeeded (.pool, dn)
              have hd2 : (xb.1, dn) ∈ definedAfter A ((markDel (f + 1) st xa).markNeeded (.pool, dn)).out := by
                have := h2.dev_defined hw od hod'
                rw [hid] at this
                rw [← hkind, hk]; exact this
              exact ⟨h2.setReady xb dn (Or.inr hd2), isReady_setReady_self _ xb _,
                (hm.2.trans (Mono.markNeeded _ _)).trans (Mono.setReady xb dn)⟩
            · have := addAny_pair_J hw (f + 1) hm.1 hrb hf hp he
              exact ⟨this.1, this.2.1, hm.2.trans this.2.2⟩
    | gp =>
      simp only [hk] at he
      exact diffAny_sec_J hw hkk f ih pend st st' xa xb n oa ob hoa hob hkind hf hp hj (by rw [hk]; exact he)
    | tg =>
      simp only [hk] at he
      exact diffAny_sec_J hw hkk f ih pend st st' xa xb n oa ob hoa hob hkind hf hp hj (by rw [hk]; exact he)
    | user =>
      simp only [hk] at he
      exact diffAny_sec_J hw hkk f ih pend st st' xa xb n oa ob hoa hob hkind hf hp hj (by rw [hk]; exact he)
    | certmap =>
      simp only [hk] at he
      exact diffAny_sec_J hw hkk f ih pend st st' xa xb n oa ob hoa hob hkind hf hp hj (by rw [hk]; exact he)

/-! ## the anchors and the whole body -/

theorem mem_insertS (x y : String) : ∀ (zs : List String), x ∈ NA.Vpn.insertS y zs → x = y ∨ x ∈ zs
  | [], h => by simpa [NA.Vpn.insertS] using h
  | z :: zs, h => by
    unfold NA.Vpn.insertS at h
    split at h
    · simpa using h
    · cases h with
      | head => exact Or.inr List.mem_cons_self
      | tail _ h =>
        rcases mem_insertS x y zs h with e | e
        · exact Or.inl e
        · exact Or.inr (List.mem_cons_of_mem _ e)

theorem mem_sortS (x : String) : ∀ (l : List String), x ∈ sortS l → x ∈ l
  | [], h => by simpa [sortS] using h
  | y :: ys, h => by
    have : x ∈ NA.Vpn.insertS y (sortS ys) := by simpa [sortS] using h
    rcases mem_insertS x y _ this with e | e
    · rw [e]; exact List.mem_cons_self
    · exact List.mem_cons_of_mem _ (mem_sortS x ys e)

theorem find_isSome (l : List Obj) (o : Obj) (h : o ∈ l) : (l.find? fun y => y.id == o.id).isSome = true := by
  rw [List.find?_isSome]
  exact ⟨o, h, by simp⟩

theorem anchor_names (l : List Obj) (k : Kind) (n : String)
    (h : n ∈ sortS ((l.filter fun o => o.kind == k && o.anchor).map (·.name))) :
    (l.find? fun y => y.id == (k, n)).isSome = true := by
  obtain ⟨o, ho, hon⟩ := List.mem_map.1 (mem_sortS n _ h)
  have ho' := List.mem_filter.1 ho
  have hk : o.kind = k ∧ o.anchor = true := by simpa using ho'.2
  have := find_isSome l o ho'.1
  unfold Obj.id at this
  rw [hk.1, hon] at this
  exact this

theorem rk_lt_fuel (k : Kind) : rk k < fuel := by cases k <;> decide

theorem diffAnchors_J (hw : WF A a b)
    (hkk : ∀ x ∈ a, ∀ y ∈ b, ∀ sx ∈ x.secs, ∀ sy ∈ y.secs, KindByKey sx.subs sy.subs) (k : Kind) (st st' : St)
    (hj : J A a b [] st) (he : diffAnchors st k = some st') : J A a b [] st' := by
  unfold diffAnchors at he
  dsimp only at he
  have hbN : ∀ n ∈ sortS ((st.b.filter fun o => o.kind == k && o.anchor).map (·.name)),
      (b.find? fun y => y.id == (k, n)).isSome = true := by
    intro n hn; rw [← hj.sb]; exact anchor_names st.b k n hn
  have haN : ∀ n ∈ sortS ((st.a.filter fun o => o.kind == k && o.anchor).map (·.name)),
      (a.find? fun y => y.id == (k, n)).isSome = true := by
    intro n hn; rw [← hj.sa]; exact anchor_names st.a k n hn
  generalize sortS ((st.b.filter fun o => o.kind == k && o.anchor).map (·.name)) = bN at he hbN
  generalize sortS ((st.a.filter fun o => o.kind == k && o.anchor).map (·.name)) = aN at he haN
  cases h1 : aN.foldl (fun (acc : Option St) n =>
      acc.bind fun st => if bN.contains n then (diffAny fuel st (k, n) (k, n)).map (·.1) else some (markDel fuel st (k, n))) (some st) with
  | none => rw [h1, foldl_opt_none] at he; cases he
  | some st1 =>
    rw [h1] at he
    have hi1 := foldl_opt_J (m := fuel) [] (fun st n => if bN.contains n then (diffAny fuel st (k, n) (k, n)).map (·.1) else some (markDel fuel st (k, n))) aN st st1 (by
      intro st n st' hn hp hs
      split at hs
      · rename_i hc
        have hnb : n ∈ bN := by simpa using hc
        cases hd : diffAny fuel st (k, n) (k, n) with
        | none => rw [hd] at hs; cases hs
        | some r =>
          rw [hd] at hs
          cases hs
          have := diffAny_J hw hkk fuel [] st (k, n) (k, n) r.1 r.2 hp (haN n hn) (hbN n hnb) rfl (rk_lt_fuel k)
            (by intro q hq; cases hq) (by rw [hd])
          exact ⟨this.1, this.2.2.weaken (by have := rk_lt_fuel k; show rk k + 1 ≤ fuel; omega)⟩
      · cases hs
        exact markDel_J fuel fuel [] st (k, n) hp) h1 hj
    have hi2 := foldl_opt_J (m := fuel) [] (fun st n => if aN.contains n then some st else addAny fuel st (k, n)) bN st1 st' (by
      intro st n st' hn hp hs
      split at hs
      · cases hs; exact ⟨hp, Mono.refl _⟩
      · have := addAny_J hw fuel [] st (k, n) st' hp (hbN n hn) (rk_lt_fuel k) (by intro q hq; cases hq) hs
        exact ⟨this.1, this.2.2.weaken (by have := rk_lt_fuel k; show rk k + 1 ≤ fuel; omega)⟩) he hi1.1
    exact hi2.1

theorem init_J (a b : List Obj) : J A a b [] (initSt a b) where
  sa := rfl
  sb := rfl
  ok := rfl
  nd := by intro c hc; cases hc
  df := by intro p hp; cases hp

/-- **Create-before-reference** (C08, fragment G).  For well-formed graphs (references resolve and point to kinds of
strictly lower rank, new access-lists have lines, new sectioned objects have commands, sub-commands with equal keys
reference equal kinds): in the change list emitted before `deleteUnused` every added sub-command that carries a
reference names an object that exists at that point — on the device from the start, or created by an earlier
command of the list — and no command of that part deletes an object. -/
theorem body_refs_exist (a b : List Obj) (hw : WF (a.map (·.id)) a b)
    (hkk : ∀ x ∈ a, ∀ y ∈ b, ∀ sx ∈ x.secs, ∀ sy ∈ y.secs, KindByKey sx.subs sy.subs) (st : St)
    (he : ((diffAnchors (initSt a b) .tg).bind fun st => diffAnchors st .user) = some st) :
    refsOK (a.map (·.id)) st.out = true ∧ ∀ c ∈ st.out, isDel c = false := by
  cases h1 : diffAnchors (initSt a b) .tg with
  | none => rw [h1] at he; cases he
  | some st1 =>
    rw [h1] at he
    simp only [Option.bind_some] at he
    have i1 := diffAnchors_J hw hkk .tg _ st1 (init_J a b) h1
    have i2 := diffAnchors_J hw hkk .user st1 st i1 he
    exact ⟨i2.ok, i2.nd⟩

/-! ## decidable form of well-formedness -/

def wfB (a b : List Obj) : Bool :=
  (b.all fun o => o.refs.all fun x => (b.find? fun y => y.id == x).isSome && decide (rk x.1 < rk o.kind)) &&
  (a.all fun o => o.refs.all fun x => (a.find? fun y => y.id == x).isSome && decide (rk x.1 < rk o.kind)) &&
  (b.all fun o => !(o.kind == .acl) || !o.lines.isEmpty) &&
  (b.all fun o => rk o.kind == 0 || !o.secs.isEmpty)

theorem wf_of_wfB (a b : List Obj) (h : wfB a b = true) : WF (a.map (·.id)) a b := by
  unfold wfB at h
  simp only [Bool.and_eq_true] at h
  obtain ⟨⟨⟨h1, h2⟩, h3⟩, h4⟩ := h
  refine ⟨?_, ?_, ?_, ?_, ?_⟩
  · intro o ho x hx
    have := (List.all_eq_true.1 ((List.all_eq_true.1 h1) o ho)) x hx
    simpa using this
  · intro o ho x hx
    have := (List.all_eq_true.1 ((List.all_eq_true.1 h2) o ho)) x hx
    simpa using this
  · intro o ho hk
    have := (List.all_eq_true.1 h3) o ho
    rw [hk] at this
    intro he
    rw [he] at this
    simp at this
  · intro o ho hk
    have := (List.all_eq_true.1 h4) o ho
    intro he
    rw [he] at this
    simp at this
    exact hk this
  · intro o ho
    exact List.mem_map.2 ⟨o, ho, rfl⟩

end NA.Vpn.G
