import NA.Model.CryptoMapEngine
/-!
`diffUnordered` (model: `unorderedA` + `insertRuns`) is a set difference when the device's keys are
pairwise distinct: a device line is deleted iff its key does not occur in the target, it is paired
with a target line of the SAME key otherwise, and a target line is inserted iff its key does not
occur on the device.
-/
namespace NA.Vpn

/-! ## lastIdx -/

theorem lastIdxFrom_spec (k : String) : ∀ (keys : List String) (i : Nat) (acc : Option Nat) (j : Nat),
    lastIdxFrom k keys i acc = some j → acc = some j ∨ (i ≤ j ∧ keys[j - i]? = some k)
  | [], _, acc, j, h => Or.inl h
  | x :: xs, i, acc, j, h => by
    unfold lastIdxFrom at h
    rcases lastIdxFrom_spec k xs (i + 1) _ j h with h' | ⟨h1, h2⟩
    · by_cases hx : (x == k) = true
      · simp only [hx, if_true] at h'
        cases h'
        right
        refine ⟨Nat.le_refl _, ?_⟩
        simp only [Nat.sub_self, List.getElem?_cons_zero]
        have : x = k := by simpa using hx
        rw [this]
      · simp only [hx] at h'
        exact Or.inl h'
    · right
      refine ⟨by omega, ?_⟩
      have : j - i = (j - (i + 1)) + 1 := by omega
      rw [this, List.getElem?_cons_succ]
      exact h2

theorem lastIdx_spec (keys : List String) (k : String) (j : Nat) (h : lastIdx keys k = some j) : keys[j]? = some k := by
  unfold lastIdx at h
  rcases lastIdxFrom_spec k keys 0 none j h with h' | ⟨_, h2⟩
  · cases h'
  · simpa using h2

theorem lastIdxFrom_isSome' (k : String) : ∀ (keys : List String) (i : Nat) (acc : Option Nat),
    (acc.isSome = true ∨ k ∈ keys) → (lastIdxFrom k keys i acc).isSome = true
  | [], _, acc, h => by
    rcases h with h | h
    · exact h
    · cases h
  | x :: xs, i, acc, h => by
    unfold lastIdxFrom
    apply lastIdxFrom_isSome' k xs
    by_cases hx : (x == k) = true
    · left; simp [hx]
    · rcases h with h | h
      · left; simp [hx, h]
      · right
        cases h with
        | head => simp at hx
        | tail _ h => exact h

theorem lastIdxFrom_none (k : String) : ∀ (keys : List String) (i : Nat), k ∉ keys → lastIdxFrom k keys i none = none
  | [], _, _ => rfl
  | x :: xs, i, h => by
    unfold lastIdxFrom
    have hx : (x == k) = false := by
      have : x ≠ k := fun e => h (by rw [e]; exact List.mem_cons_self)
      simpa using this
    simp only [hx, Bool.false_eq_true, if_false]
    exact lastIdxFrom_none k xs (i + 1) (fun hm => h (List.mem_cons_of_mem _ hm))

theorem lastIdx_isSome_iff (keys : List String) (k : String) : (lastIdx keys k).isSome = true ↔ k ∈ keys := by
  constructor
  · intro h
    apply Classical.byContradiction
    intro hn
    unfold lastIdx at h
    rw [lastIdxFrom_none k keys 0 hn] at h
    cases h
  · intro h
    exact lastIdxFrom_isSome' k keys 0 none (Or.inr h)

/-! ## the device side -/

/-- With pairwise distinct device keys none of which was consumed before: position `p ≥ i` is deleted iff its
key is not a target key; otherwise it is paired with a target position of the same key; the consumed keys
are the earlier ones plus the device keys that occur in the target. -/
theorem unorderedA_spec (bKeys : List String) : ∀ (aKeys : List String) (i : Nat) (used : List String),
    aKeys.Nodup → (∀ k ∈ aKeys, k ∉ used) →
    (∀ p, p ∈ (unorderedA bKeys aKeys i used).2.1 ↔ i ≤ p ∧ ∃ k, aKeys[p - i]? = some k ∧ k ∉ bKeys) ∧
    (∀ p j, (p, j) ∈ (unorderedA bKeys aKeys i used).1 ↔ i ≤ p ∧ ∃ k, aKeys[p - i]? = some k ∧ lastIdx bKeys k = some j) ∧
    (∀ k, k ∈ (unorderedA bKeys aKeys i used).2.2 ↔ k ∈ used ∨ (k ∈ aKeys ∧ k ∈ bKeys))
  | [], i, used, _, _ => by
    simp [unorderedA]
  | x :: xs, i, used, hnd, hu => by
    have hnd' := (List.nodup_cons.1 hnd)
    have hxu : used.contains x = false := by
      have := hu x List.mem_cons_self
      simpa using this
    unfold unorderedA
    simp only [hxu, Bool.false_eq_true, if_false]
    cases hl : lastIdx bKeys x with
    | some j0 =>
      have hxb : x ∈ bKeys := (lastIdx_isSome_iff bKeys x).1 (by rw [hl]; rfl)
      have ih := unorderedA_spec bKeys xs (i + 1) (x :: used) hnd'.2 (by
        intro k hk hmem
        cases hmem with
        | head => exact hnd'.1 hk
        | tail _ hmem => exact hu k (List.mem_cons_of_mem _ hk) hmem)
      simp only
      refine ⟨?_, ?_, ?_⟩
      · intro p
        rw [ih.1 p]
        constructor
        · rintro ⟨h1, k, h2, h3⟩
          refine ⟨by omega, k, ?_, h3⟩
          have : p - i = (p - (i + 1)) + 1 := by omega
          rw [this, List.getElem?_cons_succ]; exact h2
        · rintro ⟨h1, k, h2, h3⟩
          by_cases hp : p = i
          · subst hp
            simp only [Nat.sub_self, List.getElem?_cons_zero] at h2
            cases h2
            exact absurd hxb h3
          · refine ⟨by omega, k, ?_, h3⟩
            have : p - i = (p - (i + 1)) + 1 := by omega
            rw [this, List.getElem?_cons_succ] at h2; exact h2
      · intro p j
        rw [List.mem_cons, ih.2.1 p j]
        constructor
        · rintro (h | ⟨h1, k, h2, h3⟩)
          · cases h
            exact ⟨Nat.le_refl _, x, by simp, hl⟩
          · refine ⟨by omega, k, ?_, h3⟩
            have : p - i = (p - (i + 1)) + 1 := by omega
            rw [this, List.getElem?_cons_succ]; exact h2
        · rintro ⟨h1, k, h2, h3⟩
          by_cases hp : p = i
          · subst hp
            simp only [Nat.sub_self, List.getElem?_cons_zero] at h2
            cases h2
            rw [hl] at h3
            cases h3
            exact Or.inl rfl
          · right
            refine ⟨by omega, k, ?_, h3⟩
            have : p - i = (p - (i + 1)) + 1 := by omega
            rw [this, List.getElem?_cons_succ] at h2; exact h2
      · intro k
        rw [ih.2.2 k]
        simp only [List.mem_cons]
        constructor
        · rintro ((h | h) | ⟨h1, h2⟩)
          · exact Or.inr ⟨Or.inl h, by rw [h]; exact hxb⟩
          · exact Or.inl h
          · exact Or.inr ⟨Or.inr h1, h2⟩
        · rintro (h | ⟨h1 | h1, h2⟩)
          · exact Or.inl (Or.inr h)
          · exact Or.inl (Or.inl h1)
          · exact Or.inr ⟨h1, h2⟩
    | none =>
      have hxb : x ∉ bKeys := by
        intro hm
        have := (lastIdx_isSome_iff bKeys x).2 hm
        rw [hl] at this; cases this
      have ih := unorderedA_spec bKeys xs (i + 1) used hnd'.2 (by
        intro k hk; exact hu k (List.mem_cons_of_mem _ hk))
      simp only
      refine ⟨?_, ?_, ?_⟩
      · intro p
        rw [List.mem_cons, ih.1 p]
        constructor
        · rintro (h | ⟨h1, k, h2, h3⟩)
          · subst h
            exact ⟨Nat.le_refl _, x, by simp, hxb⟩
          · refine ⟨by omega, k, ?_, h3⟩
            have : p - i = (p - (i + 1)) + 1 := by omega
            rw [this, List.getElem?_cons_succ]; exact h2
        · rintro ⟨h1, k, h2, h3⟩
          by_cases hp : p = i
          · exact Or.inl hp
          · right
            refine ⟨by omega, k, ?_, h3⟩
            have : p - i = (p - (i + 1)) + 1 := by omega
            rw [this, List.getElem?_cons_succ] at h2; exact h2
      · intro p j
        rw [ih.2.1 p j]
        constructor
        · rintro ⟨h1, k, h2, h3⟩
          refine ⟨by omega, k, ?_, h3⟩
          have : p - i = (p - (i + 1)) + 1 := by omega
          rw [this, List.getElem?_cons_succ]; exact h2
        · rintro ⟨h1, k, h2, h3⟩
          by_cases hp : p = i
          · subst hp
            simp only [Nat.sub_self, List.getElem?_cons_zero] at h2
            cases h2
            rw [hl] at h3; cases h3
          · refine ⟨by omega, k, ?_, h3⟩
            have : p - i = (p - (i + 1)) + 1 := by omega
            rw [this, List.getElem?_cons_succ] at h2; exact h2
      · intro k
        rw [ih.2.2 k]
        simp only [List.mem_cons]
        constructor
        · rintro (h | ⟨h1, h2⟩)
          · exact Or.inl h
          · exact Or.inr ⟨Or.inr h1, h2⟩
        · rintro (h | ⟨h1 | h1, h2⟩)
          · exact Or.inl h
          · rw [h1] at h2; exact absurd h2 hxb
          · exact Or.inr ⟨h1, h2⟩

/-! ## the target side -/

/-- the positions collected by `insertRuns` are `cur` plus the positions `≥ j` whose key was not consumed -/
theorem insertRuns_spec (used : List String) : ∀ (bKeys : List String) (j : Nat) (cur : List Nat) (q : Nat),
    q ∈ (insertRuns used bKeys j cur).flatten ↔ q ∈ cur ∨ (j ≤ q ∧ ∃ k, bKeys[q - j]? = some k ∧ used.contains k = false)
  | [], j, cur, q => by
    unfold insertRuns
    by_cases hc : cur.isEmpty = true
    · have : cur = [] := by simpa using hc
      subst this
      simp
    · simp [hc]
  | x :: xs, j, cur, q => by
    unfold insertRuns
    by_cases hx : used.contains x = true
    · simp only [hx, if_true, List.flatten_append, List.mem_append]
      rw [insertRuns_spec used xs (j + 1) [] q]
      have hcur : q ∈ (if cur.isEmpty = true then ([] : List (List Nat)) else [cur.reverse]).flatten ↔ q ∈ cur := by
        by_cases hc : cur.isEmpty = true
        · have : cur = [] := by simpa using hc
          subst this; simp
        · simp [hc]
      rw [hcur]
      constructor
      · rintro (h | h | ⟨h1, k, h2, h3⟩)
        · exact Or.inl h
        · cases h
        · right
          refine ⟨by omega, k, ?_, h3⟩
          have : q - j = (q - (j + 1)) + 1 := by omega
          rw [this, List.getElem?_cons_succ]; exact h2
      · rintro (h | ⟨h1, k, h2, h3⟩)
        · exact Or.inl h
        · by_cases hq : q = j
          · subst hq
            simp only [Nat.sub_self, List.getElem?_cons_zero] at h2
            cases h2
            rw [hx] at h3; cases h3
          · right; right
            refine ⟨by omega, k, ?_, h3⟩
            have : q - j = (q - (j + 1)) + 1 := by omega
            rw [this, List.getElem?_cons_succ] at h2; exact h2
    · have hx' : used.contains x = false := by simpa using hx
      simp only [hx', Bool.false_eq_true, if_false]
      rw [insertRuns_spec used xs (j + 1) (j :: cur) q]
      simp only [List.mem_cons]
      constructor
      · rintro ((h | h) | ⟨h1, k, h2, h3⟩)
        · subst h
          exact Or.inr ⟨Nat.le_refl _, x, by simp, hx'⟩
        · exact Or.inl h
        · right
          refine ⟨by omega, k, ?_, h3⟩
          have : q - j = (q - (j + 1)) + 1 := by omega
          rw [this, List.getElem?_cons_succ]; exact h2
      · rintro (h | ⟨h1, k, h2, h3⟩)
        · exact Or.inl (Or.inr h)
        · by_cases hq : q = j
          · exact Or.inl (Or.inl hq)
          · right
            refine ⟨by omega, k, ?_, h3⟩
            have : q - j = (q - (j + 1)) + 1 := by omega
            rw [this, List.getElem?_cons_succ] at h2; exact h2

end NA.Vpn
