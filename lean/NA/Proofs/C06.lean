import NA.Model.GateProgs
import NA.Spec.Gate
/-
Helper lemmas for C06 / C11: frame properties of `exec` that hold for every program, every
device and every state (by induction on the program), and the facts about the individual
backend programs that the property theorems combine.
-/
namespace NA.Gate
open NA.Gate.Spec

/-! ## generic: a stopped run stays as it is -/

theorem foldl_fix {α β : Type} (f : β → α → β) (l : List α) (b : β) (h : ∀ a, f b a = b) :
    l.foldl f b = b := by
  induction l with
  | nil => rfl
  | cons a l ih => simp [List.foldl, h a, ih]

theorem sendStep_nr (env : Env) (o : Out) (fm : FaultMode) (st : St)
    (h : st.status.isRunning = false) : sendStep env o fm st = st := by
  simp [sendStep, h]

theorem iter_nr (f : St → St) (again : St → Bool) (n : Nat) (st : St)
    (hf : ∀ s : St, s.status.isRunning = false → f s = s) (h : st.status.isRunning = false) :
    iter f again n st = st := by
  cases n with
  | zero => simp [iter, h]
  | succ n => simp [iter, hf st h, h]

theorem exec_nr (env : Env) (p : Prog) : ∀ st : St, st.status.isRunning = false → exec env p st = st := by
  induction p with
  | nop => intro st _; rfl
  | seq p q ihp ihq => intro st h; simp [exec, ihp st h, ihq st h]
  | send _ _ o fm => intro st h; simp [exec, sendStep_nr env o fm st h]
  | sendCur _ _ pre fm => intro st h; simp [exec, sendStep_nr env _ fm st h]
  | assign _ _ _ _ => intro st h; simp [exec, h]
  | collect _ => intro st h; simp [exec, h]
  | setName _ => intro st h; simp [exec, h]
  | setCur _ => intro st h; simp [exec, h]
  | check _ _ _ _ => intro st h; simp [exec, h]
  | record _ _ _ _ => intro st h; simp [exec, h]
  | crash _ _ => intro st h; simp [exec, h]
  | ite _ t e _ _ => intro st h; simp [exec, h]
  | early _ _ _ _ => intro st h; simp [exec, h]
  | ifChanges _ _ => intro st h; simp [exec, h]
  | call _ b ih => intro st h; simp [exec, ih st h]
  | defn _ _ _ => intro st _; rfl
  | note _ _ => intro st _; rfl
  | block p ih => intro st h; simp [exec, ih st h]
  | attempt _ _ _ _ => intro st h; simp [exec, h]
  | gate _ => intro st h; simp [exec, h]
  | warnU => intro st h; simp [exec, h]
  | forPlan fm b ih =>
    intro st h
    simp only [exec]
    apply foldl_fix
    intro c
    rw [sendStep_nr env _ fm st h]
    exact ih st h
  | loop _ _ _ _ => intro st h; simp [exec, h]
  | forIds _ keep b ih =>
    intro st h
    simp only [exec]
    split
    · apply foldl_fix
      intro id
      simp [h]
    · rfl

theorem exec_nr_status (env : Env) (p : Prog) (st : St) (h : st.status.isRunning = false) :
    (exec env p st).status.isRunning = false := by
  rw [exec_nr env p st h]; exact h

/-- If the run is still going after `p`, it was going before. -/
theorem running_before (env : Env) (p : Prog) (st : St)
    (h : (exec env p st).status.isRunning = true) : st.status.isRunning = true := by
  cases hs : st.status.isRunning with
  | true => rfl
  | false => rw [exec_nr env p st hs] at h; rw [hs] at h; exact h

/-! ## generic: invariants -/

/-- A predicate on states that every step of every program preserves is preserved by `exec`.
The hypotheses are the primitive state transformers. -/
structure StepInv (env : Env) (P : St → Prop) : Prop where
  send : ∀ st o fm, P st → P (sendStep env o fm st)
  collect : ∀ st s, P st → st.reply = .text s → P { st with banner := st.banner ++ [s] }
  setName : ∀ st n, P st → P { st with devName := n }
  status : ∀ st s, P st → P { st with status := s }
  errU : ∀ st l, P st → P { st with errU := l }
  warn : ∀ st w, P st → P { st with warnings := w }
  retry : ∀ st w, P st → P { st with status := .running, warnings := w }
  out : ∀ st o, P st → P { st with out := o }
  lines : ∀ st o, P st → P { st with lines := o }
  cursor : ∀ st c, P st → P { st with cursor := c }

theorem foldl_inv {α β : Type} (P : β → Prop) (f : β → α → β) (l : List α)
    (h : ∀ b a, P b → P (f b a)) : ∀ b, P b → P (l.foldl f b) := by
  induction l with
  | nil => intro b hb; exact hb
  | cons a l ih => intro b hb; exact ih _ (h b a hb)

theorem iter_inv (P : St → Prop) (f : St → St) (again : St → Bool)
    (hf : ∀ s, P s → P (f s)) (hu : ∀ s : St, P s → P { s with status := .unfinished }) :
    ∀ n st, P st → P (iter f again n st) := by
  intro n
  induction n with
  | zero => intro st h; simp only [iter]; split; exact hu st h; exact h
  | succ n ih =>
    intro st h
    simp only [iter]
    split
    · exact ih _ (hf st h)
    · exact hf st h

theorem exec_inv (env : Env) (P : St → Prop) (hP : StepInv env P) (p : Prog) :
    ∀ st, P st → P (exec env p st) := by
  induction p with
  | nop => intro st h; exact h
  | seq p q ihp ihq => intro st h; exact ihq _ (ihp st h)
  | send _ _ o fm => intro st h; exact hP.send st o fm h
  | sendCur _ _ pre fm => intro st h; exact hP.send st _ fm h
  | assign x _ _ e =>
    intro st h; simp only [exec]
    split
    · cases x
      · exact hP.out st _ h
      · exact hP.lines st _ h
    · exact h
  | collect _ =>
    intro st h; simp only [exec]
    split
    · split
      · rename_i s hs; exact hP.collect st s h hs
      · exact h
    · exact h
  | setName n => intro st h; simp only [exec]; split; exact hP.setName st n h; exact h
  | setCur f => intro st h; simp only [exec]; split; exact hP.cursor st _ h; exact h
  | check _ _ _ fl =>
    intro st h; simp only [exec]
    split
    · cases fl <;> exact hP.status st _ h
    · exact h
  | record _ _ m _ =>
    intro st h; simp only [exec]
    split
    · cases m <;> exact hP.errU st _ h
    · exact h
  | crash _ _ => intro st h; simp only [exec]; split; exact hP.status st _ h; exact h
  | ite _ t e iht ihe =>
    intro st h; simp only [exec]
    split
    · split
      · exact iht st h
      · exact ihe st h
    · exact h
  | early _ _ r ih =>
    intro st h; simp only [exec]
    split
    · split
      · exact h
      · exact ih st h
    · exact h
  | ifChanges r ih =>
    intro st h; simp only [exec]
    split
    · split
      · exact h
      · exact ih st h
    · exact h
  | call _ b ih => intro st h; exact ih st h
  | defn _ _ _ => intro st h; exact h
  | note _ _ => intro st h; exact h
  | block p ih => intro st h; exact ih st h
  | attempt b e ihb ihe =>
    intro st h; simp only [exec]
    split
    · have h1 := ihb st h
      split
      · apply ihe
        exact hP.retry _ _ h1
      · exact h1
    · exact h
  | gate _ =>
    intro st h; simp only [exec]
    split
    · split
      · exact h
      · exact hP.status st _ h
    · exact h
  | warnU => intro st h; simp only [exec]; split; exact hP.warn st _ h; exact h
  | forPlan fm b ih =>
    intro st h; simp only [exec]
    apply foldl_inv P _ _ _ st h
    intro s c hs
    exact ih _ (hP.send s (.plan c) fm hs)
  | loop _ b _ ih =>
    intro st h; simp only [exec]
    split
    · exact iter_inv P _ _ ih (fun s hs => hP.status s _ hs) _ st h
    · exact h
  | forIds _ keep b ih =>
    intro st h; simp only [exec]
    split
    · apply foldl_inv P _ _ _ st h
      intro s id hs
      split
      · exact ih _ (hP.cursor s id hs)
      · exact hs
    · exact h

/-! ## syntactic side conditions -/

/-- every request the program can put on the wire is harmless (no `forPlan`) -/
def safe (b : Backend) : Prog → Bool
  | .nop | .collect _ | .setName _ | .setCur _ | .assign _ _ _ _ | .check _ _ _ _ | .record _ _ _ _
  | .crash _ _ | .defn _ _ | .note _ _ | .gate _ | .warnU => true
  | .seq p q => safe b p && safe b q
  | .send _ _ o _ => harmless b o
  | .sendCur _ _ pre _ => harmless b (.litArg pre "")
  | .ite _ t e => safe b t && safe b e
  | .early _ _ r => safe b r
  | .ifChanges r => safe b r
  | .call _ p => safe b p
  | .block p => safe b p
  | .attempt p e => safe b p && safe b e
  | .forPlan _ _ => false
  | .loop _ p _ => safe b p
  | .forIds _ _ p => safe b p

/-- the program never assigns `errUnmanaged` -/
def noRecord : Prog → Bool
  | .record _ _ _ _ => false
  | .nop | .collect _ | .setName _ | .setCur _ | .assign _ _ _ _ | .check _ _ _ _ | .crash _ _
  | .send _ _ _ _ | .sendCur _ _ _ _ | .defn _ _ | .note _ _ | .gate _ | .warnU => true
  | .seq p q => noRecord p && noRecord q
  | .ite _ t e => noRecord t && noRecord e
  | .early _ _ r => noRecord r
  | .ifChanges r => noRecord r
  | .call _ p => noRecord p
  | .block p => noRecord p
  | .attempt p e => noRecord p && noRecord e
  | .forPlan _ p => noRecord p
  | .loop _ p _ => noRecord p
  | .forIds _ _ p => noRecord p

/-- the program contains neither a nil dereference nor an unbounded loop -/
def noCrash : Prog → Bool
  | .crash _ _ => false
  | .loop _ _ _ => false
  | .nop | .collect _ | .setName _ | .setCur _ | .assign _ _ _ _ | .check _ _ _ _ | .record _ _ _ _
  | .send _ _ _ _ | .sendCur _ _ _ _ | .defn _ _ | .note _ _ | .gate _ | .warnU => true
  | .seq p q => noCrash p && noCrash q
  | .ite _ t e => noCrash t && noCrash e
  | .early _ _ r => noCrash r
  | .ifChanges r => noCrash r
  | .call _ p => noCrash p
  | .block p => noCrash p
  | .attempt p e => noCrash p && noCrash e
  | .forPlan _ p => noCrash p
  | .forIds _ _ p => noCrash p

theorem noChange_append (b : Backend) (tr : List Out) (o : Out) (h : NoChange b tr)
    (ho : harmless b o = true) : NoChange b (tr ++ [o]) := by
  intro x hx
  simp at hx
  cases hx with
  | inl hx => exact h x hx
  | inr hx => rw [hx]; exact ho

theorem sendStep_trace (env : Env) (o : Out) (fm : FaultMode) (st : St) :
    (sendStep env o fm st).trace = st.trace ∨ (sendStep env o fm st).trace = st.trace ++ [o] := by
  unfold sendStep
  split
  · right; simp only; split <;> rfl
  · left; rfl

/-- whether a request with a run-time argument is harmless depends on its literal prefix only -/
theorem harmless_litArg (b : Backend) (p a a' : String) :
    harmless b (.litArg p a) = harmless b (.litArg p a') := rfl

theorem sendStep_noChange (env : Env) (b : Backend) (o : Out) (fm : FaultMode) (st : St)
    (ho : harmless b o = true) (h : NoChange b st.trace) : NoChange b (sendStep env o fm st).trace := by
  cases sendStep_trace env o fm st with
  | inl e => rw [e]; exact h
  | inr e => rw [e]; exact noChange_append b _ o h ho

/-- the state transformers that do not touch the trace -/
theorem noChange_stepInv (env : Env) (b : Backend) :
    ∀ (f : St → St), (∀ s, (f s).trace = s.trace) → ∀ st, NoChange b st.trace → NoChange b (f st).trace := by
  intro f hf st h; rw [hf]; exact h

theorem exec_noChange (env : Env) (b : Backend) (p : Prog) :
    safe b p = true → ∀ st, NoChange b st.trace → NoChange b (exec env p st).trace := by
  induction p with
  | nop => intro _ st h; exact h
  | seq p q ihp ihq =>
    intro hs st h; simp [safe] at hs; exact ihq hs.2 _ (ihp hs.1 st h)
  | send _ _ o fm =>
    intro hs st h; simp [safe] at hs; simp only [exec]
    exact sendStep_noChange env b o fm st hs h
  | sendCur _ _ pre fm =>
    intro hs st h; simp [safe] at hs; simp only [exec]
    exact sendStep_noChange env b _ fm st (by rw [harmless_litArg b pre _ ""]; exact hs) h
  | assign x _ _ _ =>
    intro _ st h; simp only [exec]; split
    · cases x <;> exact h
    · exact h
  | collect _ => intro _ st h; simp only [exec]; split; (split <;> exact h); exact h
  | setName _ => intro _ st h; simp only [exec]; split <;> exact h
  | setCur _ => intro _ st h; simp only [exec]; split <;> exact h
  | check _ _ _ fl => intro _ st h; simp only [exec]; split; (cases fl <;> exact h); exact h
  | record _ _ m _ => intro _ st h; simp only [exec]; split; (cases m <;> exact h); exact h
  | crash _ _ => intro _ st h; simp only [exec]; split <;> exact h
  | ite _ t e iht ihe =>
    intro hs st h; simp [safe] at hs; simp only [exec]
    split
    · split
      · exact iht hs.1 st h
      · exact ihe hs.2 st h
    · exact h
  | early _ _ r ih =>
    intro hs st h; simp [safe] at hs; simp only [exec]
    split
    · split
      · exact h
      · exact ih hs st h
    · exact h
  | ifChanges r ih =>
    intro hs st h; simp [safe] at hs; simp only [exec]
    split
    · split
      · exact h
      · exact ih hs st h
    · exact h
  | call _ p ih => intro hs st h; simp [safe] at hs; exact ih hs st h
  | defn _ _ _ => intro _ st h; exact h
  | note _ _ => intro _ st h; exact h
  | block p ih => intro hs st h; simp [safe] at hs; exact ih hs st h
  | attempt p e ihp ihe =>
    intro hs st h; simp [safe] at hs; simp only [exec]
    split
    · have h1 := ihp hs.1 st h
      split
      · exact ihe hs.2 _ h1
      · exact h1
    · exact h
  | gate _ => intro _ st h; simp only [exec]; split; (split <;> exact h); exact h
  | warnU => intro _ st h; simp only [exec]; split <;> exact h
  | forPlan _ _ _ => intro hs; simp [safe] at hs
  | loop _ p _ ih =>
    intro hs st h; simp [safe] at hs; simp only [exec]
    split
    · exact iter_inv (fun s => NoChange b s.trace) _ _ (ih hs) (fun s hs' => hs') _ st h
    · exact h
  | forIds _ keep p ih =>
    intro hs st h; simp [safe] at hs; simp only [exec]
    split
    · apply foldl_inv (fun s => NoChange b s.trace) _ _ _ st h
      intro s id hs'
      split
      · exact ih hs _ hs'
      · exact hs'
    · exact h

theorem sendStep_errU (env : Env) (o : Out) (fm : FaultMode) (st : St) :
    (sendStep env o fm st).errU = st.errU := by
  unfold sendStep
  split
  · dsimp only; split <;> rfl
  · rfl

/-- `errU` is only written by `record`. -/
theorem exec_errU (env : Env) (p : Prog) :
    noRecord p = true → ∀ st, (exec env p st).errU = st.errU := by
  induction p with
  | nop => intro _ st; rfl
  | seq p q ihp ihq =>
    intro hs st; simp [noRecord] at hs; simp only [exec]; rw [ihq hs.2, ihp hs.1]
  | send _ _ o fm => intro _ st; simp only [exec]; exact sendStep_errU env o fm st
  | sendCur _ _ pre fm => intro _ st; simp only [exec]; exact sendStep_errU env _ fm st
  | assign x _ _ _ =>
    intro _ st; simp only [exec]; split
    · cases x <;> rfl
    · rfl
  | collect _ => intro _ st; simp only [exec]; split; (split <;> rfl); rfl
  | setName _ => intro _ st; simp only [exec]; split <;> rfl
  | setCur _ => intro _ st; simp only [exec]; split <;> rfl
  | check _ _ _ fl => intro _ st; simp only [exec]; split; (cases fl <;> rfl); rfl
  | record _ _ _ _ => intro hs; simp [noRecord] at hs
  | crash _ _ => intro _ st; simp only [exec]; split <;> rfl
  | ite _ t e iht ihe =>
    intro hs st; simp [noRecord] at hs; simp only [exec]
    split
    · split
      · exact iht hs.1 st
      · exact ihe hs.2 st
    · rfl
  | early _ _ r ih =>
    intro hs st; simp [noRecord] at hs; simp only [exec]
    split
    · split
      · rfl
      · exact ih hs st
    · rfl
  | ifChanges r ih =>
    intro hs st; simp [noRecord] at hs; simp only [exec]
    split
    · split
      · rfl
      · exact ih hs st
    · rfl
  | call _ p ih => intro hs st; simp [noRecord] at hs; exact ih hs st
  | defn _ _ _ => intro _ st; rfl
  | note _ _ => intro _ st; rfl
  | block p ih => intro hs st; simp [noRecord] at hs; exact ih hs st
  | attempt p e ihp ihe =>
    intro hs st; simp [noRecord] at hs; simp only [exec]
    split
    · split
      · rw [ihe hs.2]; exact ihp hs.1 st
      · exact ihp hs.1 st
    · rfl
  | gate _ => intro _ st; simp only [exec]; split; (split <;> rfl); rfl
  | warnU => intro _ st; simp only [exec]; split <;> rfl
  | forPlan fm p ih =>
    intro hs st; simp [noRecord] at hs; simp only [exec]
    have : ∀ (l : List String) (s : St),
        (l.foldl (fun s c => exec env p (sendStep env (.plan c) fm s)) s).errU = s.errU := by
      intro l
      induction l with
      | nil => intro s; rfl
      | cons c l ihl =>
        intro s
        simp only [List.foldl]
        rw [ihl, ih hs]
        exact sendStep_errU env _ fm s
    exact this _ st
  | loop _ p _ ih =>
    intro hs st; simp [noRecord] at hs; simp only [exec]
    split
    · exact iter_inv (fun s => s.errU = st.errU) _ _ (fun s hs' => by rw [ih hs]; exact hs')
        (fun s hs' => hs') _ st rfl
    · rfl
  | forIds _ keep p ih =>
    intro hs st; simp [noRecord] at hs; simp only [exec]
    split
    · apply foldl_inv (fun s => s.errU = st.errU) _ _ _ st rfl
      intro s id hs'
      split
      · rw [ih hs]; exact hs'
      · exact hs'
    · rfl

/-- the run did not end in a Go panic and is not stuck in an unbounded loop -/
def notPanicked (st : St) : Prop := (∀ m, st.status ≠ .panicked m) ∧ st.status ≠ .unfinished

theorem notPanicked_of_status {st st' : St} (h : st'.status = st.status) (hp : notPanicked st) :
    notPanicked st' := by
  unfold notPanicked; rw [h]; exact hp

theorem sendStep_noPanic (env : Env) (o : Out) (fm : FaultMode) (st : St) (h : notPanicked st) :
    notPanicked (sendStep env o fm st) := by
  unfold sendStep
  split
  · dsimp only
    split
    · refine ⟨?_, ?_⟩
      · intro m; simp only [faultStatus]; cases fm <;> simp
      · simp only [faultStatus]; cases fm <;> simp
    · exact h
  · exact h

/-- Without a `crash` or `loop` node the run never ends in a Go panic or unfinished. -/
theorem exec_noPanic (env : Env) (p : Prog) :
    noCrash p = true → ∀ st, notPanicked st → notPanicked (exec env p st) := by
  induction p with
  | nop => intro _ st h; exact h
  | seq p q ihp ihq => intro hs st h; simp [noCrash] at hs; exact ihq hs.2 _ (ihp hs.1 st h)
  | send _ _ o fm => intro _ st h; simp only [exec]; exact sendStep_noPanic env o fm st h
  | sendCur _ _ pre fm => intro _ st h; simp only [exec]; exact sendStep_noPanic env _ fm st h
  | assign x _ _ _ =>
    intro _ st h; simp only [exec]; split
    · cases x <;> exact h
    · exact h
  | collect _ => intro _ st h; simp only [exec]; split; (split <;> exact h); exact h
  | setName _ => intro _ st h; simp only [exec]; split <;> exact h
  | setCur _ => intro _ st h; simp only [exec]; split <;> exact h
  | check _ _ _ fl =>
    intro _ st h; simp only [exec]
    split
    · cases fl <;> exact ⟨fun m => by simp, by simp⟩
    · exact h
  | record _ _ m _ => intro _ st h; simp only [exec]; split; (cases m <;> exact h); exact h
  | crash _ _ => intro hs; simp [noCrash] at hs
  | ite _ t e iht ihe =>
    intro hs st h; simp [noCrash] at hs; simp only [exec]
    split
    · split
      · exact iht hs.1 st h
      · exact ihe hs.2 st h
    · exact h
  | early _ _ r ih =>
    intro hs st h; simp [noCrash] at hs; simp only [exec]
    split
    · split
      · exact h
      · exact ih hs st h
    · exact h
  | ifChanges r ih =>
    intro hs st h; simp [noCrash] at hs; simp only [exec]
    split
    · split
      · exact h
      · exact ih hs st h
    · exact h
  | call _ p ih => intro hs st h; simp [noCrash] at hs; exact ih hs st h
  | defn _ _ _ => intro _ st h; exact h
  | note _ _ => intro _ st h; exact h
  | block p ih => intro hs st h; simp [noCrash] at hs; exact ih hs st h
  | attempt p e ihp ihe =>
    intro hs st h; simp [noCrash] at hs; simp only [exec]
    split
    · have h1 := ihp hs.1 st h
      split
      · apply ihe hs.2
        exact ⟨fun m => by simp, by simp⟩
      · exact h1
    · exact h
  | gate _ =>
    intro _ st h; simp only [exec]
    split
    · split
      · exact h
      · exact ⟨fun m => by simp, by simp⟩
    · exact h
  | warnU => intro _ st h; simp only [exec]; split <;> exact h
  | forPlan fm p ih =>
    intro hs st h; simp [noCrash] at hs; simp only [exec]
    apply foldl_inv notPanicked _ _ _ st h
    intro s c hs'
    apply ih hs
    exact sendStep_noPanic env _ fm s hs'
  | loop _ _ _ _ => intro hs; simp [noCrash] at hs
  | forIds _ keep p ih =>
    intro hs st h; simp [noCrash] at hs; simp only [exec]
    split
    · apply foldl_inv notPanicked _ _ _ st h
      intro s id hs'
      split
      · exact ih hs _ hs'
      · exact hs'
    · exact h

end NA.Gate
