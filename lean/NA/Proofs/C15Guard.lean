import NA.Proofs.C15
/-!
# C15 helper lemmas, part 2: the guard monitor along the trace of `ApplyCommands`
-/
namespace NA.Ios

variable {σ α β : Type}

/-- monitor state after a trace -/
def G (t : List Str) : Guard := Guard.run (linesOf t)

theorem linesOf_append (t l : List Str) : linesOf (t ++ l) = linesOf t ++ linesOf l := by
  simp [linesOf]

theorem G_append (t l : List Str) : G (t ++ l) = (linesOf l).foldl Guard.step (G t) := by
  simp [G, Guard.run, linesOf_append, List.foldl_append]

theorem mem_linesOf (x : Str) (l : List Str) : x ∈ linesOf l ↔ ∃ s ∈ l, x ∈ splitOnNL s := by
  simp [linesOf]

def Armed (g : Guard) : Prop := g.pending = true ∧ g.violated = false
def Idle (g : Guard) : Prop := g.pending = false ∧ g.violated = false ∧ g.asked = false

/-! ### single steps on the fixed vocabulary -/

theorem step_reload (g : Guard) : g.step reloadCmd = { g with asked := true } := by
  unfold Guard.step; rw [if_pos (by decide)]
theorem step_doReload (g : Guard) : g.step doReloadCmd = { g with asked := true } := by
  unfold Guard.step; rw [if_pos (by decide)]
theorem step_cancel (g : Guard) : g.step cancelCmd = { g with pending := false, asked := false } := by
  unfold Guard.step; rw [if_neg (by decide), if_pos (by decide)]
theorem step_write (g : Guard) :
    g.step writeCmd = { g with violated := g.violated || g.pending, asked := false } := by
  unfold Guard.step; rw [if_neg (by decide), if_neg (by decide), if_pos (by decide)]
theorem step_empty (g : Guard) :
    g.step [] = if g.asked then { g with pending := true, asked := false } else g := by
  unfold Guard.step; rw [if_neg (by decide), if_neg (by decide), if_neg (by decide), if_pos (by decide)]
theorem step_n (g : Guard) : g.step (lit "n") = g := by
  unfold Guard.step
  rw [if_neg (by decide), if_neg (by decide), if_neg (by decide), if_neg (by decide), if_pos (by decide)]

theorem step_prep (g : Guard) (c : Str) (hc : c ∈ prepCmds) : g.step c = { g with asked := false } := by
  have h1 : isReloadIn c = false := by
    revert c; decide
  have h2 : (c == cancelCmd) = false := by revert c; decide
  have h3 : (c == writeCmd) = false := by revert c; decide
  have h4 : c.isEmpty = false := by revert c; decide
  have h5 : (c == lit "n") = false := by revert c; decide
  have h6 : plainVocab c = true := by revert c; decide
  unfold Guard.step
  simp [h1, h2, h3, h4, h5, h6]

/-- every line except `reload cancel` and `write memory` keeps the guard armed -/
theorem armed_step (g : Guard) (l : Str) (h : Armed g) (h1 : l ≠ cancelCmd) (h2 : l ≠ writeCmd) :
    Armed (g.step l) := by
  obtain ⟨hp, hv⟩ := h
  have e1 : (l == cancelCmd) = false := by simpa using h1
  have e2 : (l == writeCmd) = false := by simpa using h2
  unfold Guard.step Armed
  simp only [e1, e2]
  split
  · exact ⟨hp, hv⟩
  · simp only [Bool.false_eq_true, if_false]
    split
    · split
      · exact ⟨rfl, hv⟩
      · exact ⟨hp, hv⟩
    · split
      · exact ⟨hp, hv⟩
      · split
        · exact ⟨hp, hv⟩
        · simp [hp, hv]

theorem armed_fold (g : Guard) (ls : List Str) (h : Armed g)
    (hl : ∀ x ∈ ls, x ≠ cancelCmd ∧ x ≠ writeCmd) : Armed (ls.foldl Guard.step g) := by
  induction ls generalizing g with
  | nil => exact h
  | cons x xs ih =>
    simp only [List.foldl_cons]
    exact ih _ (armed_step g x h (hl x (by simp)).1 (hl x (by simp)).2)
      (fun y hy => hl y (by simp [hy]))

/-- sends whose lines are neither `reload cancel` nor `write memory` -/
def OKsend (s : Str) : Prop := ∀ x ∈ splitOnNL s, x ≠ cancelCmd ∧ x ≠ writeCmd

theorem armed_sends (t l : List Str) (h : Armed (G t)) (hl : ∀ s ∈ l, OKsend s) : Armed (G (t ++ l)) := by
  rw [G_append]
  refine armed_fold _ _ h ?_
  intro x hx
  obtain ⟨s, hs, hxs⟩ := (mem_linesOf x l).1 hx
  exact hl s hs x hxs

theorem idle_prep (t l : List Str) (h : Idle (G t)) (hl : ∀ s ∈ l, s ∈ prepCmds) : Idle (G (t ++ l)) := by
  rw [G_append]
  generalize G t = g at h
  induction l generalizing g with
  | nil => simpa [linesOf] using h
  | cons s ss ih =>
    have hs : s ∈ prepCmds := hl s (by simp)
    have hsplit : splitOnNL s = [s] := (by decide : ∀ c ∈ prepCmds, splitOnNL c = [c]) s hs
    have : linesOf (s :: ss) = s :: linesOf ss := by simp [linesOf, hsplit]
    rw [this, List.foldl_cons]
    refine ih (fun y hy => hl y (by simp [hy])) _ ?_
    rw [step_prep g s hs]
    exact ⟨h.1, h.2.1, rfl⟩

theorem idle_write (t l : List Str) (h : Idle (G t)) (hl : ∀ s ∈ l, s = writeCmd ∨ s = []) :
    Idle (G (t ++ l)) := by
  rw [G_append]
  generalize G t = g at h
  induction l generalizing g with
  | nil => simpa [linesOf] using h
  | cons s ss ih =>
    have hs := hl s (by simp)
    have hsplit : splitOnNL s = [s] := by rcases hs with rfl | rfl <;> decide
    have : linesOf (s :: ss) = s :: linesOf ss := by simp [linesOf, hsplit]
    rw [this, List.foldl_cons]
    refine ih (fun y hy => hl y (by simp [hy])) _ ?_
    obtain ⟨hp, hv, ha⟩ := h
    rcases hs with rfl | rfl
    · rw [step_write]; exact ⟨hp, by simp [hv, hp], rfl⟩
    · rw [step_empty]; simp [ha]; exact ⟨hp, hv, ha⟩

/-! ### the ordered exchanges -/

variable (D : Device σ)

/-- what `sendReloadCmd` sends, in order; success ends with the confirmation -/
def ReloadShape (c : Str) (r : Res Unit) (l : List Str) : Prop :=
  (l = [c] ∨ l = [c, lit "n"] ∨ l = [c, []] ∨ l = [c, lit "n", []]) ∧
  (r = .ok () → l = [c, []] ∨ l = [c, lit "n", []])

theorem ext_sendReloadCmd (b : Bool) :
    Ext (sendReloadCmd D b) (ReloadShape (if b then doReloadCmd else reloadCmd)) := by
  unfold sendReloadCmd
  refine (ext_bind (ext_issueCmd D _ _ _) (fun out =>
    ext_bind (P := fun _ l => l = [] ∨ l = [lit "n"]) ?_ (fun _ =>
      ext_bind (silent_setActive true).ext (fun _ => ext_sendCmd D [])))).mono ?_
  · split
    · refine (ext_bind (ext_issueCmd D _ _ _) (fun _ => (silent_pure ()).ext)).mono ?_
      intro r l h
      rcases h with ⟨e, _, h⟩ | ⟨a, l1, l2, rfl, h1, h2⟩
      · exact .inr h
      · subst h1 h2; exact .inr rfl
    · exact (silent_pure ()).ext.mono (fun _ _ h => .inl h)
  · intro r l h
    rcases h with ⟨e, hr, hl⟩ | ⟨a, l1, l2, rfl, h1, h2⟩
    · subst hl hr; exact ⟨.inl rfl, by intro h; cases h⟩
    · subst h1
      rcases h2 with ⟨e, hr, hl⟩ | ⟨a2, l3, l4, rfl, h3, h4⟩
      · subst hr
        refine ⟨?_, by intro h; cases h⟩
        rcases hl with rfl | rfl
        · exact .inl rfl
        · exact .inr (.inl rfl)
      · rcases h4 with ⟨e, hr, hl⟩ | ⟨a3, l5, l6, rfl, h5, h6⟩
        · subst hl hr
          refine ⟨?_, by intro h; cases h⟩
          rcases h3 with rfl | rfl
          · exact .inl rfl
          · exact .inr (.inl rfl)
        · subst h5 h6
          rcases h3 with rfl | rfl
          · exact ⟨.inr (.inr (.inl rfl)), fun _ => .inl rfl⟩
          · exact ⟨.inr (.inr (.inr rfl)), fun _ => .inr rfl⟩

theorem ext_cancelReload :
    Ext (cancelReload D) (fun _ l => l = [cancelCmd] ∨ l = [cancelCmd, []]) := by
  unfold cancelReload
  refine (ext_bind (ext_issueCmd D _ _ _) (fun _ =>
    ext_bind silent_waitHashEnd.ext (fun _ =>
      ext_bind (ext_sendCmd D []) (fun _ => (silent_setActive false).ext)))).mono ?_
  intro r l h
  rcases h with ⟨e, _, hl⟩ | ⟨a, l1, l2, rfl, h1, h2⟩
  · exact .inl hl
  · subst h1
    rcases h2 with ⟨e, _, hl⟩ | ⟨a2, l3, l4, rfl, h3, h4⟩
    · subst hl; exact .inl rfl
    · subst h3
      rcases h4 with ⟨e, _, hl⟩ | ⟨a3, l5, l6, rfl, h5, h6⟩
      · subst hl; exact .inr rfl
      · subst h5 h6; exact .inr rfl

/-- effect of the schedule exchange on an idle monitor -/
theorem sched_effect (t l : List Str) (r : Res Unit) (c : Str) (hc : c = reloadCmd ∨ c = doReloadCmd)
    (h : Idle (G t)) (hs : ReloadShape c r l) :
    (G (t ++ l)).violated = false ∧ (r = .ok () → Armed (G (t ++ l))) := by
  rw [G_append]
  generalize G t = g at h
  obtain ⟨hp, hv, ha⟩ := h
  have hsplit : splitOnNL c = [c] := by rcases hc with rfl | rfl <;> decide
  have hstep : g.step c = { g with asked := true } := by
    rcases hc with rfl | rfl
    · exact step_reload g
    · exact step_doReload g
  have hn : splitOnNL (lit "n") = [lit "n"] := by decide
  have he : splitOnNL ([] : Str) = [[]] := by decide
  obtain ⟨hshape, hok⟩ := hs
  have key : ∀ l, (l = [c] ∨ l = [c, lit "n"]) →
      ((linesOf l).foldl Guard.step g).violated = false := by
    intro l hl
    rcases hl with rfl | rfl
    · simp [linesOf, hsplit, hstep, hv]
    · simp [linesOf, hsplit, hn, hstep, step_n, hv]
  have key2 : ∀ l, (l = [c, []] ∨ l = [c, lit "n", []]) →
      Armed ((linesOf l).foldl Guard.step g) := by
    intro l hl
    rcases hl with rfl | rfl
    · simp [linesOf, hsplit, he, hstep, step_empty, Armed, hv]
    · simp [linesOf, hsplit, hn, he, hstep, step_n, step_empty, Armed, hv]
  constructor
  · rcases hshape with h | h | h | h
    · exact key l (.inl h)
    · exact key l (.inr h)
    · exact (key2 l (.inl h)).2
    · exact (key2 l (.inr h)).2
  · intro hr; exact key2 l (hok hr)

/-- effect of the cancel exchange: the monitor is idle afterwards -/
theorem cancel_effect (t l : List Str) (hv : (G t).violated = false)
    (hl : l = [cancelCmd] ∨ l = [cancelCmd, []]) : Idle (G (t ++ l)) := by
  rw [G_append]
  generalize G t = g at hv
  have hc : splitOnNL cancelCmd = [cancelCmd] := by decide
  have he : splitOnNL ([] : Str) = [[]] := by decide
  rcases hl with rfl | rfl
  · simp [linesOf, hc, step_cancel, Idle, hv]
  · simp [linesOf, hc, he, step_cancel, step_empty, Idle, hv]

end NA.Ios
