import NA.Proofs.C20RefCount
/-!
C20 — "on rejection, a message naming the offending input", as theorems over the error values of
the models: every diagnostic that the parser model, the post-processing functions and
`checkReferences` can return CONTAINS the text of the offending line / command (and, for a
dangling reference, the prefix and name that are not defined).  The file name is added by
`device.loadSpocFile` ("While reading file %s: …"), outside the model.
-/
namespace NA.C20
open Res

/-- `x` occurs in `m`. -/
def Names (m x : Str) : Prop := x <:+: m

theorem names_mid (a x b : Str) : Names (a ++ x ++ b) x := ⟨a, b, rfl⟩
theorem names_end (a x : Str) : Names (a ++ x) x := ⟨a, [], by simp⟩

def NoDiag {α : Type} (r : Res α) : Prop := ∀ m, r ≠ .diag m

theorem matchTemplate_noDiag : ∀ (tmpl args : List Str) (acc : MatchAcc), NoDiag (matchTemplate tmpl args acc)
  | [], args, acc => by unfold matchTemplate; intro m h; cases h
  | tok :: ts, args, acc => by
    unfold matchTemplate
    split
    · intro m h; cases h
    · split
      · exact matchTemplate_noDiag ts _ _
      · split
        · split
          · intro m h; cases h
          · exact matchTemplate_noDiag ts _ _
        · split
          · exact matchTemplate_noDiag ts _ _
          · split
            · split
              · intro m h; cases h
              · split
                · split
                  · intro m h; cases h
                  · exact matchTemplate_noDiag ts _ _
                · exact matchTemplate_noDiag ts _ _
            · split
              · intro m h; cases h
              · split
                · intro m h; cases h
                · exact matchTemplate_noDiag ts _ _

theorem matchCmd_noDiag (pre : Str) (words : List Str) : ∀ ds : List (Nat × List Str × Bool),
    NoDiag (matchCmd pre words ds)
  | [] => by unfold matchCmd; intro m h; cases h
  | (i, tmpl, ign) :: ds => by
    unfold matchCmd
    split
    · intro m h; cases h
    · rename_i m' hm
      exact absurd hm (matchTemplate_noDiag tmpl words _ m')
    · exact matchCmd_noDiag pre words ds
    · split
      · exact matchCmd_noDiag pre words ds
      · split <;> (intro m h; cases h)

theorem lookupAux_noDiag (ds : List (Nat × Descr)) : ∀ (words pre : List Str), NoDiag (lookupAux ds pre words)
  | [], pre => by unfold lookupAux; intro m h; cases h
  | w :: rest, pre => by
    unfold lookupAux
    simp only
    split
    · intro m h; cases h
    · split
      · exact matchCmd_noDiag _ _ _
      · exact lookupAux_noDiag ds rest _

theorem subIndent_diag (st : LoopSt) (pc : Cmd) (line m : Str) (h : subIndent true st pc line = .diag m) :
    m = badIndent st.firstSub line := by
  unfold subIndent at h
  by_cases hf : st.isFirstSub = true
  · simp only [hf, if_true] at h
    cases hg : getIndent line with
    | none => rw [hg] at h; cases h
    | some k => rw [hg] at h; cases h
  · simp only [hf] at h
    cases hg : getIndent line with
    | none =>
      rw [hg] at h
      simp at h
      exact h.symm
    | some k =>
      rw [hg] at h
      simp at h
      split at h
      · cases h; rfl
      · cases h

/-- A rejection by the line loop of `ParseConfig` names the offending line: "Unexpected command"
and "Bad indentation in subcommands" both quote it. -/
theorem parseLine_diag_names_line (ds : List Descr) (isRaw : Bool) (st : LoopSt) (raw : Str) (m : Str)
    (h : parseLine true ds isRaw st raw = .diag m) : Names m (trimRight raw) := by
  unfold parseLine at h
  simp only at h
  split at h
  · cases h
  · rename_i c0 tl hline
    split at h
    · cases h
    · split at h
      · cases h
      · split at h
        · cases hl : lookupCmd ds (trimRight raw) with
          | panic p => rw [hl] at h; cases h
          | diag m' => exact absurd hl (by unfold lookupCmd; exact lookupAux_noDiag _ _ _ m')
          | ok oc =>
            rw [hl] at h
            simp only [Res.bind] at h
            split at h
            · split at h
              · cases h
                exact names_mid _ _ _
              · cases h
            · cases h
        · split at h
          · cases h
          · split at h
            · cases h
            · rename_i pc others _
              cases hsi : subIndent true st pc (trimRight raw) with
              | panic q => rw [hsi] at h; cases h
              | diag m' =>
                rw [hsi] at h
                cases h
                rw [subIndent_diag st pc _ m hsi]
                unfold badIndent
                exact names_mid _ _ _
              | ok r =>
                rw [hsi] at h
                simp only [Res.bind] at h
                unfold subBody at h
                split at h
                · split at h
                  · cases h
                  · split at h
                    · cases h
                    · dsimp only at h
                      cases hm : matchCmd [] (fields (_ :: _))
                          ((indexed (ds.getD pc.descr { pre := [], template := [], ignore := false }).sub).map
                            fun x => (x.1, x.2.1, x.2.2)) with
                      | diag m' => exact absurd hm (matchCmd_noDiag _ _ _ m')
                      | panic q => rw [hm] at h; cases h
                      | ok oc =>
                        rw [hm] at h
                        simp only [Res.bind] at h
                        split at h <;> cases h
                · cases h

theorem parseLines_diag_names_line (ds : List Descr) (isRaw : Bool) : ∀ (ls : List Str) (st : LoopSt) (m : Str),
    parseLines true ds isRaw st ls = .diag m → ∃ l ∈ ls, Names m (trimRight l)
  | [], st, m, h => by unfold parseLines at h; cases h
  | l :: ls, st, m, h => by
    unfold parseLines at h
    cases hl : parseLine true ds isRaw st l with
    | panic p => rw [hl] at h; cases h
    | diag m' =>
      rw [hl] at h
      cases h
      exact ⟨l, by simp, parseLine_diag_names_line ds isRaw st l m hl⟩
    | ok st1 =>
      rw [hl] at h
      obtain ⟨x, hx, hn⟩ := parseLines_diag_names_line ds isRaw ls st1 m h
      exact ⟨x, List.mem_cons_of_mem _ hx, hn⟩

/-- `ParseConfig`: every rejection quotes a line of the file. -/
theorem parseConfig_diag_names_line (ds : List Descr) (isRaw : Bool) (data : Str) (m : Str)
    (h : parseConfig true ds isRaw data = .diag m) : ∃ l ∈ splitLines data, Names m (trimRight l) := by
  unfold parseConfig at h
  cases hp : parseLines true ds isRaw initSt (splitLines data) with
  | panic p => rw [hp] at h; cases h
  | ok st => rw [hp] at h; cases h
  | diag m' =>
    rw [hp] at h
    cases h
    exact parseLines_diag_names_line ds isRaw _ _ _ hp

/-! ### post-processing and references -/

theorem failAt_diag {α : Type} (p : Panic) (msg m : Str) (h : (failAt true p msg : Res α) = .diag m) : m = msg := by
  simp [failAt] at h; exact h.symm

/-- a diagnostic of the state-passing ACL functions is `Incomplete command: <orig>`. -/
def DiagIs (orig : Str) (f : AclSt → Res AclSt) : Prop := ∀ s m, f s = .diag m → m = incomplete orig

theorem diagIs_convObjectGroup (orig : Str) : DiagIs orig (convObjectGroup true orig) := by
  intro s m h
  unfold convObjectGroup at h
  split at h
  · cases h
  · exact failAt_diag _ _ _ h

theorem diagIs_convObject (tb : Tables) (orig : Str) : DiagIs orig (convObject true tb orig) := by
  intro s m h
  unfold convObject at h
  split at h
  · cases h
  · split at h
    · exact diagIs_convObjectGroup orig s m h
    · split at h
      · split at h <;> cases h
      · split at h
        · split at h
          · cases h
          · exact failAt_diag _ _ _ h
        · split at h
          · cases h
          · split at h
            · cases h
            · split at h <;> cases h

theorem diagIs_convPortOrObject (tb : Tables) (orig : Str) : DiagIs orig (convPortOrObject true tb orig) := by
  intro s m h
  unfold convPortOrObject at h
  split at h
  · cases h
  · split at h
    · cases h
    · split at h
      · cases h
      · exact diagIs_convObject tb orig s m h

theorem diagIs_convProto (tb : Tables) (orig : Str) : DiagIs orig (convProto true tb orig) := by
  intro s m h
  unfold convProto at h
  split at h
  · exact failAt_diag _ _ _ h
  · split at h
    · exact diagIs_convObjectGroup orig s m h
    · split at h
      · split at h
        · cases h
        · exact failAt_diag _ _ _ h
      · cases h

theorem bind_diag {α β : Type} {x : Res α} {f : α → Res β} {m : Str} (h : x.bind f = .diag m) :
    x = .diag m ∨ ∃ a, x = .ok a ∧ f a = .diag m := by
  cases x with
  | ok a => exact Or.inr ⟨a, rfl, h⟩
  | diag m' => simp [Res.bind] at h; subst h; exact Or.inl rfl
  | panic p => cases h

/-- `postprocessACLParts`: the only diagnostic is "Incomplete command: <the command>". -/
theorem aclParts_diag (tb : Tables) (orig : Str) (parts : List Str) (m : Str)
    (h : aclParts true tb orig parts = .diag m) : m = incomplete orig := by
  unfold aclParts at h
  rcases bind_diag h with h | ⟨s1, _, h⟩
  · exact diagIs_convProto tb orig _ m h
  rcases bind_diag h with h | ⟨s2, _, h⟩
  · exact diagIs_convObject tb orig _ m h
  rcases bind_diag h with h | ⟨s3, _, h⟩
  · split at h
    · rcases bind_diag h with h | ⟨a, _, h⟩
      · exact diagIs_convPortOrObject tb orig _ m h
      rcases bind_diag h with h | ⟨b, _, h⟩
      · exact diagIs_convPortOrObject tb orig _ m h
      · exact diagIs_convPortOrObject tb orig _ m h
    · split at h
      · rcases bind_diag h with h | ⟨a, _, h⟩
        · exact diagIs_convObject tb orig _ m h
        · cases h
      · exact diagIs_convObject tb orig _ m h
  rcases bind_diag h with h | ⟨s4, _, h⟩
  · exact diagIs_convObject tb orig _ m h
  · cases h

theorem aclParts_diag_names (tb : Tables) (orig : Str) (parts : List Str) (m : Str)
    (h : aclParts true tb orig parts = .diag m) : Names m orig := by
  rw [aclParts_diag tb orig parts m h]
  exact names_end _ _

theorem aaaHost_diag_names (orig parsed m : Str) (h : aaaHost true orig parsed = .diag m) : Names m orig := by
  unfold aaaHost at h
  simp only [if_true] at h
  split at h
  · split at h
    · cases h
    · split at h
      · split at h
        · split at h
          · rw [failAt_diag _ _ _ h]; exact names_end _ _
          · cases h
        · cases h
      · cases h
  · cases h

theorem dstOfRoute_diag_names (isV6 : Bool) (orig parsed m : Str)
    (h : dstOfRoute true isV6 orig parsed = .diag m) : Names m orig := by
  unfold dstOfRoute at h
  simp only at h
  split at h
  · split at h
    · rw [failAt_diag _ _ _ h]; exact names_end _ _
    · cases h
  · split at h
    · split at h
      · split at h
        · cases h
        · rw [failAt_diag _ _ _ h]; exact names_end _ _
        · rw [failAt_diag _ _ _ h]; exact names_end _ _
        · rw [failAt_diag _ _ _ h]; exact names_end _ _
      · split at h
        · cases h
        · rw [failAt_diag _ _ _ h]; exact names_end _ _
    · rw [failAt_diag _ _ _ h]; exact names_end _ _

theorem routeVRF_diag_names (orig parsed m : Str) (h : routeVRF true orig parsed = .diag m) : Names m orig := by
  unfold routeVRF at h
  split at h
  · split at h
    · split at h
      · cases h
      · rw [failAt_diag _ _ _ h]; exact names_end _ _
    · cases h
  · cases h

theorem transRefs_diag_names (orig names m : Str) (h : transRefs true orig names = .diag m) : Names m orig := by
  unfold transRefs at h
  split at h
  · cases h
  · split at h
    · cases h; exact names_end _ _
    · cases h

/-- `checkReferences`: a dangling reference is reported with the command, the prefix and the name. -/
theorem checkRefs_diag_names (lk : Lookup) (isRaw : Bool) (orig : Str) : ∀ (typRef refs : List Str) (m : Str),
    checkRefs lk isRaw orig typRef refs = .diag m →
    Names m orig ∧ ∃ p ∈ typRef, ∃ n ∈ refs, Names m p ∧ Names m n
  | _, [], m, h => by unfold checkRefs at h; cases h
  | [], _ :: _, m, h => by unfold checkRefs at h; cases h
  | p :: ps, n :: ns, m, h => by
    unfold checkRefs at h
    split at h
    · obtain ⟨h1, q, hq, x, hx, h2⟩ := checkRefs_diag_names lk isRaw orig ps ns m h
      exact ⟨h1, q, List.mem_cons_of_mem _ hq, x, List.mem_cons_of_mem _ hx, h2⟩
    · split at h
      · cases h
      · cases h
        refine ⟨⟨lit "'", lit "' references unknown '" ++ p ++ lit " " ++ n ++ lit "'", by simp⟩,
          p, by simp, n, by simp, ?_, ?_⟩
        · exact ⟨lit "'" ++ orig ++ lit "' references unknown '", lit " " ++ n ++ lit "'", by simp⟩
        · exact ⟨lit "'" ++ orig ++ lit "' references unknown '" ++ p ++ lit " ", lit "'", by simp⟩

end NA.C20
