import NA.Proofs.C15Forms
import NA.Proofs.C15
/-!
# C15 helper lemmas, part 6: `cmd` and the change loop against the scripted device
-/
namespace NA.Ios

/-- the placement makes `stripReloadBanner` look for another prompt -/
def probing (ci : Str) (b : Behav) : Bool :=
  match b.form with
  | .before _ => true
  | .after => true
  | .afterLine _ _ => true
  | .inside off => decide (ci.length ≤ off) && blank b.out
  | _ => false

/-- the flag `check` hands to `cmd` -/
def needOf (b : Behav) : Bool :=
  match b.form with
  | .none => false
  | _ => oneMinute b.msg

structure CleanBehav (b : Behav) : Prop where
  out : CleanOut b.out
  msg : b.form ≠ .none → CleanMsg b.msg

theorem body_then_nl (ci out X : Str) (ho : CleanOut out) (hX : ∃ x, X = '\n' :: x) :
    ∃ z, dropLastNL (ci ++ '\n' :: out) ++ X = ci ++ '\n' :: z := by
  obtain ⟨x, rfl⟩ := hX
  rcases ho.endsNL with rfl | ⟨o', rfl⟩
  · have : dropLastNL (ci ++ ['\n']) = ci := dropLastNL_snoc ci
    rw [this]; exact ⟨x, rfl⟩
  · have : dropLastNL (ci ++ '\n' :: (o' ++ ['\n'])) = ci ++ '\n' :: o' := by
      have e : ci ++ '\n' :: (o' ++ ['\n']) = (ci ++ '\n' :: o') ++ ['\n'] := by simp
      rw [e]; exact dropLastNL_snoc _
    rw [this]; exact ⟨o' ++ '\n' :: x, by simp⟩

theorem bannerText_starts_nl (m w : Str) : ∃ x, bannerText m ++ w = '\n' :: x := by
  have : lit "\n\n\n\x07***\n***" = '\n' :: lit "\n\n\x07***\n***" := by decide
  unfold bannerText; rw [this]
  exact ⟨lit "\n\n\x07***\n***" ++ m ++ lit "\n***\n" ++ w, by simp⟩

theorem nls_banner_starts_nl (n : Nat) (m w : Str) : ∃ x, nls n ++ (bannerText m ++ w) = '\n' :: x := by
  cases n with
  | zero => simpa [nls] using bannerText_starts_nl m w
  | succ n => exact ⟨nls n ++ (bannerText m ++ w), by simp [nls, List.replicate_succ]⟩

/-- every answer of the scripted device starts with a `#`-free word followed by white space -/
theorem runNoHash_reply (ci : Str) (b : Behav) (hc : CleanCmd ci) (hb : CleanBehav b) (w : Str) :
    runNoHash (replyFor ci b ++ w) = true := by
  have hnl : ∀ w, runNoHash ('\n' :: w) = true := by intro w; simp [runNoHash, isReSpace]
  unfold replyFor
  cases hf : b.form with
  | none =>
    simp only [List.append_assoc, List.cons_append, List.nil_append]
    exact hc.runNoHash_append _
  | before pad =>
    simp only [List.append_assoc]
    obtain ⟨x, hx⟩ := nls_banner_starts_nl pad b.msg (['\n'] ++ (prompt ++ (ci ++ (['\n'] ++ (b.out ++ (prompt ++ w))))))
    rw [hx]; exact hnl x
  | inside off =>
    simp only [List.append_assoc]
    obtain ⟨x, hx⟩ := bannerText_starts_nl b.msg (ci.drop off ++ (['\n'] ++ (b.out ++ (prompt ++ w))))
    rw [hx]; exact runNoHash_take_append hc off _
  | afterPrompt pad =>
    simp only [List.append_assoc, List.cons_append, List.nil_append]
    obtain ⟨z, hz⟩ := body_then_nl ci b.out _ hb.out
      (nls_banner_starts_nl pad b.msg ('\n' :: (prompt ++ '\n' :: (prompt ++ w))))
    rw [hz]; exact hc.runNoHash_append _
  | after =>
    simp only [List.append_assoc, List.cons_append, List.nil_append]
    obtain ⟨z, hz⟩ := body_then_nl ci b.out _ hb.out
      (bannerText_starts_nl b.msg ('\n' :: (prompt ++ w)))
    rw [hz]; exact hc.runNoHash_append _
  | afterLine pre post =>
    simp only [List.append_assoc, List.cons_append, List.nil_append]
    exact hc.runNoHash_append _


variable {σ : Type}

/-- **one `check` on one answer of the scripted device, all forms.** -/
theorem check_reply (st : St σ) (ci : Str) (b : Behav) (rest : Str) (hc : CleanCmd ci) (hb : CleanBehav b)
    (hp : st.pend = replyFor ci b ++ rest) (ha : st.reloadActive = true)
    (hr : runNoHash rest = true) (hprobe : probing ci b = true → rest = []) :
    ∃ R, neLines R = neLines b.out ∧
      check ci st = (checkRes ci b.out R (needOf b), addWarns (setPend st rest) (warnsOf ci b.out)) := by
  unfold replyFor at hp
  cases hf : b.form with
  | none =>
    rw [hf] at hp
    refine ⟨b.out, rfl, ?_⟩
    have := check_none st ci b.out rest hc hb.out (by rw [hp]; simp) hr
    simpa [needOf, hf] using this
  | before pad =>
    rw [hf] at hp
    have hrest : rest = [] := hprobe (by simp [probing, hf])
    subst hrest
    refine ⟨b.out, rfl, ?_⟩
    have := check_before st ci b.out b.msg pad hc hb.out (hb.msg (by rw [hf]; simp))
      (by rw [hp]; simp) ha
    simpa [needOf, hf] using this
  | inside off =>
    rw [hf] at hp
    refine ⟨b.out, rfl, ?_⟩
    have := check_inside st ci b.out b.msg rest off hc hb.out (hb.msg (by rw [hf]; simp))
      (by rw [hp]; simp) ha hr (by
        intro h; apply hprobe; simp [probing, hf, h.1, h.2])
    simpa [needOf, hf] using this
  | afterPrompt pad =>
    rw [hf] at hp
    have := check_after st ci b.out b.msg (promptHead ++ '#' :: rest) rest pad hc hb.out
      (hb.msg (by rw [hf]; simp)) (by rw [hp, prompt_eq, promptHead_eq]; simp) ha (.inr ⟨rfl, hr⟩)
    simpa [needOf, hf] using this
  | after =>
    rw [hf] at hp
    have hrest : rest = [] := hprobe (by simp [probing, hf])
    subst hrest
    have := check_after st ci b.out b.msg [] [] 0 hc hb.out
      (hb.msg (by rw [hf]; simp)) (by rw [hp]; simp [nls]) ha (.inl ⟨rfl, rfl⟩)
    simpa [needOf, hf] using this
  | afterLine pre post =>
    rw [hf] at hp
    have hrest : rest = [] := hprobe (by simp [probing, hf])
    subst hrest
    have := check_afterLine st ci b.out b.msg pre post hc hb.out
      (hb.msg (by rw [hf]; simp)) (by rw [hp]; simp) ha
    simpa [needOf, hf] using this


/-! ### one exchange against any device -/

theorem issueCmd_eval (D : Device σ) (st : St σ) (l : Str) (name : String) (alts : List (Str × Bool))
    (reply : Str) (dev' : σ) (hstep : D.step st.dev l = (dev', reply)) (hpend : st.pend = [])
    (halt : altFind alts reply = some reply.length) :
    issueCmd D l name alts st =
      (.ok reply, { st with dev := dev', pend := [], trace := st.trace ++ [l] }) := by
  unfold issueCmd bindM send expectEnd
  simp [hstep, hpend, halt]

theorem sendCmd_eval (D : Device σ) (st : St σ) (l reply : Str) (dev' : σ) (a : Nat)
    (hstep : D.step st.dev l = (dev', reply)) (hpend : st.pend = [])
    (hprompt : promptFind reply = some (a, reply.length)) :
    sendCmd D l st = (.ok (), { st with dev := dev', pend := [], trace := st.trace ++ [l] }) := by
  unfold sendCmd bindM send waitPrompt expectEnd
  simp [hstep, hpend, hprompt, pureM]

/-! ### the scripted device, line by line -/

theorem simStep_std (na : Bool) (dev : SimSt) (l h : Str) (t : List Str) (hp : dev.parts = [])
    (hs : stdReplyV na l = some (h :: t)) (hsplit : splitOnNL l = [l]) :
    (simDevice [] na).step dev l = ({ dev with parts := t }, h) := by
  simp [simDevice, hsplit, simLines, simLine, hp, hs]

theorem simStep_part (na : Bool) (dev : SimSt) (l p : Str) (ps : List Str) (hp : dev.parts = p :: ps)
    (hsplit : splitOnNL l = [l]) :
    (simDevice [] na).step dev l = ({ dev with parts := ps }, l ++ ['\n'] ++ p) := by
  simp [simDevice, hsplit, simLines, simLine, hp]

theorem simStep_plain (na : Bool) (dev : SimSt) (l : Str) (hp : dev.parts = []) (hs : stdReplyV na l = none)
    (hc : isChange l = false) (hsplit : splitOnNL l = [l]) :
    (simDevice [] na).step dev l = (dev, l ++ ['\n'] ++ prompt) := by
  simp [simDevice, hsplit, simLines, simLine, hp, hs, hc]

theorem stdReply_change (c : Str) (h : isChange c = true) : stdReply c = none := by
  have hres : reserved c = false ∧ plainVocab c = false := by
    unfold isChange at h
    cases hr : reserved c <;> cases hv : plainVocab c <;> simp_all
  have h1 : (c == reloadCmd) = false ∧ (c == doReloadCmd) = false ∧ (c == cancelCmd) = false ∧
      (c == writeCmd) = false := by
    have := hres.1
    unfold reserved isReloadIn at this
    cases ha : (c == reloadCmd) <;> cases hb : (c == doReloadCmd) <;> cases hc : (c == cancelCmd) <;>
      cases hd : (c == writeCmd) <;> simp_all
  have h6 : (c == confCmd) = false := by
    cases hcc : (c == confCmd) with
    | false => rfl
    | true =>
      have : c = confCmd := by simpa using hcc
      have h5 := hres.2
      rw [this] at h5; revert h5; decide
  unfold stdReply
  simp [h1.1, h1.2.1, h1.2.2.1, h1.2.2.2, h6]

theorem stdReplyV_of_not_reload (na : Bool) (l : Str) (h : isReloadIn l = false) :
    stdReplyV na l = stdReply l := by
  unfold isReloadIn at h
  cases ha : (l == reloadCmd) <;> cases hb : (l == doReloadCmd) <;> simp_all [stdReplyV]

theorem stdReplyV_change (na : Bool) (c : Str) (h : isChange c = true) : stdReplyV na c = none := by
  have hr : isReloadIn c = false := by
    unfold isChange reserved at h
    cases hx : isReloadIn c <;> simp_all
  rw [stdReplyV_of_not_reload na c hr]; exact stdReply_change c h

theorem simLine_change (na : Bool) (dev : SimSt) (c : Str) (b : Behav) (q : List Behav) (hp : dev.parts = [])
    (hq : dev.queue = b :: q) (hch : isChange c = true) :
    simLine [] na dev c = ({ dev with queue := q }, replyFor c b) := by
  simp [simLine, hp, stdReplyV_change na c hch, hch, hq]

/-! ### the re-arm exchange -/

theorem sendReloadCmd_eval (D : Device σ) (st : St σ) (withDo : Bool) (r0 r1 r2 : Str) (d1 d2 d3 : σ) (k : Nat)
    (hp : st.pend = [])
    (h1 : D.step st.dev (if withDo then doReloadCmd else reloadCmd) = (d1, r0))
    (a1 : altFind [(lit "[yes/no]: ", false), (lit "[confirm]", false)] r0 = some r0.length)
    (hy : containsLit (lit "[yes/no]") r0 = true)
    (h2 : D.step d1 (lit "n") = (d2, r1))
    (a2 : altFind [(lit "[confirm]", false)] r1 = some r1.length)
    (h3 : D.step d2 [] = (d3, r2))
    (a3 : promptFind r2 = some (k, r2.length)) :
    sendReloadCmd D withDo st =
      (.ok (), { st with dev := d3, pend := [], reloadActive := true,
                         trace := st.trace ++ [if withDo then doReloadCmd else reloadCmd, lit "n", []] }) := by
  unfold sendReloadCmd issueCmd sendCmd bindM send expectEnd waitPrompt setActive pureM
  simp [expectEnd, hp, h1, a1, hy, h2, a2, h3, a3]

/-- the same exchange on a device that does not ask `Save? [yes/no]` -/
theorem sendReloadCmd_eval_noask (D : Device σ) (st : St σ) (withDo : Bool) (r0 r2 : Str) (d1 d3 : σ) (k : Nat)
    (hp : st.pend = [])
    (h1 : D.step st.dev (if withDo then doReloadCmd else reloadCmd) = (d1, r0))
    (a1 : altFind [(lit "[yes/no]: ", false), (lit "[confirm]", false)] r0 = some r0.length)
    (hy : containsLit (lit "[yes/no]") r0 = false)
    (h3 : D.step d1 [] = (d3, r2))
    (a3 : promptFind r2 = some (k, r2.length)) :
    sendReloadCmd D withDo st =
      (.ok (), { st with dev := d3, pend := [], reloadActive := true,
                         trace := st.trace ++ [if withDo then doReloadCmd else reloadCmd, []] }) := by
  unfold sendReloadCmd issueCmd sendCmd bindM send expectEnd waitPrompt setActive pureM
  simp [expectEnd, hp, h1, a1, hy, h3, a3]

/-- the lines of one re-arm exchange in the two dialogue variants -/
def rearmLines (na : Bool) : List Str := if na then [doReloadCmd, []] else [doReloadCmd, lit "n", []]

theorem extendReload_sim (na : Bool) (st : St SimSt) (hp : st.pend = []) (hparts : st.dev.parts = []) :
    extendReload (simDevice [] na) st =
      (.ok (), { st with pend := [], reloadActive := true, trace := st.trace ++ rearmLines na }) := by
  have hs0 : splitOnNL doReloadCmd = [doReloadCmd] := by decide
  have hsn : splitOnNL (lit "n") = [lit "n"] := by decide
  have hse : splitOnNL ([] : Str) = [[]] := by decide
  have hdev : ({ st.dev with parts := [] } : SimSt) = st.dev := by
    cases hd : st.dev with
    | mk pa qu oc => rw [hd] at hparts; simp at hparts; simp [hparts]
  cases na with
  | false =>
    have hstd : stdReplyV false doReloadCmd = some
        [(lit "do reload in 2\n\nSystem configuration has been modified. Save? [yes/no]: "),
         lit "Reload reason: Reload Command\nProceed with reload? [confirm]", prompt] := by decide
    have := sendReloadCmd_eval (simDevice [] false) st true _ _ _ _ _ _ 0 hp
      (simStep_std false st.dev doReloadCmd _ _ hparts hstd hs0) (by decide +kernel) (by decide +kernel)
      (simStep_part false _ (lit "n") _ _ rfl hsn) (by decide +kernel)
      (simStep_part false _ [] _ _ rfl hse) (by decide +kernel)
    unfold extendReload
    rw [this, hdev]
    rfl
  | true =>
    have hstd : stdReplyV true doReloadCmd = some
        [(lit "do reload in 2\nProceed with reload? [confirm]"), prompt] := by decide
    have := sendReloadCmd_eval_noask (simDevice [] true) st true _ _ _ _ 0 hp
      (simStep_std true st.dev doReloadCmd _ _ hparts hstd hs0) (by decide +kernel) (by decide +kernel)
      (simStep_part true _ [] _ _ rfl hse) (by decide +kernel)
    unfold extendReload
    rw [this, hdev]
    rfl

/-! ### `cmd` against the scripted device -/

structure ChangeCmd (c : Str) : Prop where
  clean : CleanCmd c
  change : isChange c = true

def validOut (o : Str) : Bool := (validOutput (splitOnNL o)).2

/-- the client is between two commands of the change loop -/
structure Ready (st : St SimSt) : Prop where
  pend : st.pend = []
  active : st.reloadActive = true
  parts : st.dev.parts = []

theorem cutNL_no_nl (c : Str) (h : '\n' ∉ c) : cutNL c = (c, []) := by
  induction c with
  | nil => rfl
  | cons x c ih =>
    have hx : (x == '\n') = false := by simp; exact fun e => h (by simp [e])
    rw [cutNL]; simp [hx, ih (fun e => h (by simp [e]))]

theorem cutNL_joined (c1 c2 : Str) (h : '\n' ∉ c1) : cutNL (c1 ++ '\n' :: c2) = (c1, c2) := by
  induction c1 with
  | nil => rw [List.nil_append, cutNL]; simp
  | cons x c ih =>
    have hx : (x == '\n') = false := by simp; exact fun e => h (by simp [e])
    rw [List.cons_append, cutNL]; simp [hx, ih (fun e => h (by simp [e]))]

theorem checkRes_valid (ci out R : Str) (need : Bool) (h : validOut out = true) :
    checkRes ci out R need = .ok need := by
  unfold checkRes; unfold validOut at h; rw [h]; rfl

theorem checkRes_invalid (ci out R : Str) (need : Bool) (h : validOut out = false) :
    checkRes ci out R need = .abort (.unexpectedOutput ci R) := by
  unfold checkRes; unfold validOut at h; rw [h]; rfl

/-- one single-line command -/
theorem cmd_one (na : Bool) (st : St SimSt) (c : Str) (b : Behav) (q : List Behav) (hr : Ready st)
    (hq : st.dev.queue = b :: q) (hc : ChangeCmd c) (hb : CleanBehav b) :
    let o := cmd (simDevice [] na) true c st
    o.2.trace = st.trace ++ c :: (if validOut b.out && needOf b then rearmLines na else []) ∧
    o.2.warns = st.warns ++ warnsOf c b.out ∧
    (validOut b.out = true → o.1 = .ok () ∧ Ready o.2 ∧ o.2.dev.queue = q) ∧
    (validOut b.out = false → ∃ R, o.1 = .abort (.unexpectedOutput c R) ∧ neLines R = neLines b.out) ∧
    (o.2.dev.parts = [] ∧ o.2.reloadActive = true ∧ o.2.dev.occ = st.dev.occ) := by
  intro o
  have hsplit : splitOnNL c = [c] := splitOnNL_no_nl c hc.clean.noNL
  have hstep : (simDevice [] na).step st.dev c = ({ st.dev with queue := q }, replyFor c b) := by
    simp [simDevice, hsplit, simLines, simLine_change na st.dev c b q hr.parts hq hc.change]
  let st1 : St SimSt := { st with dev := { st.dev with queue := q }, pend := replyFor c b, trace := st.trace ++ [c] }
  have hsend : send (simDevice [] na) c st = (.ok (), st1) := by
    unfold send; simp [hstep, hr.pend, st1]
  obtain ⟨R, hR, hck⟩ := check_reply st1 c b [] hc.clean hb (by simp [st1]) hr.active rfl (fun _ => rfl)
  have hcut := cutNL_no_nl c hc.clean.noNL
  have ho : o = bindM (send (simDevice [] na) c) (fun _ =>
      bindM (check (cutNL c).1) fun n1 =>
      bindM (if (cutNL c).2.isEmpty then pureM n1
             else bindM (check (cutNL c).2) fun n2 => pureM (if true then n1 || n2 else n2)) fun need =>
      if need then extendReload (simDevice [] na) else pureM ()) st := rfl
  rw [bindM_snd_of_ok _ _ _ () (by rw [hsend]), hsend, hcut] at ho
  simp only [List.isEmpty_nil, if_true] at ho
  cases hv : validOut b.out with
  | false =>
    have hres : (check c st1).1 = .abort (.unexpectedOutput c R) := by
      rw [hck, checkRes_invalid _ _ _ _ hv]
    rw [bindM_of_abort _ _ _ _ hres, hck] at ho
    rw [ho]
    refine ⟨?_, ?_, ?_, ?_, ?_⟩
    · simp [st1]
    · simp [st1]
    · intro h; cases h
    · intro _; exact ⟨R, rfl, hR⟩
    · refine ⟨?_, ?_, ?_⟩ <;> first | exact hr.parts | exact hr.active | rfl | (simp [st1, pureM] <;> first | exact hr.parts | exact hr.active) | (simp [st2, st1, pureM] <;> first | exact hr.parts | exact hr.active)
  | true =>
    have hres : (check c st1).1 = .ok (needOf b) := by rw [hck, checkRes_valid _ _ _ _ hv]
    rw [bindM_snd_of_ok _ _ _ _ hres, hck] at ho
    simp only [bindM, pureM] at ho
    cases hn : needOf b with
    | false =>
      rw [hn] at ho; simp only [Bool.false_eq_true, if_false] at ho
      rw [ho]
      refine ⟨?_, ?_, ?_, ?_, ?_⟩
      · simp [st1, pureM]
      · simp [st1, pureM]
      · intro _; exact ⟨rfl, ⟨rfl, hr.active, hr.parts⟩, rfl⟩
      · intro h; cases h
      · refine ⟨?_, ?_, ?_⟩ <;> first | exact hr.parts | exact hr.active | rfl | (simp [st1, pureM] <;> first | exact hr.parts | exact hr.active) | (simp [st2, st1, pureM] <;> first | exact hr.parts | exact hr.active)
    | true =>
      rw [hn] at ho; simp only [if_true] at ho
      rw [extendReload_sim na _ (by simp) (by simp [st1]; exact hr.parts)] at ho
      rw [ho]
      refine ⟨?_, ?_, ?_, ?_, ?_⟩
      · simp [st1]
      · simp [st1]
      · intro _; exact ⟨rfl, ⟨rfl, rfl, hr.parts⟩, rfl⟩
      · intro h; cases h
      · refine ⟨?_, ?_, ?_⟩ <;> first | exact hr.parts | exact hr.active | rfl | (simp [st1, pureM] <;> first | exact hr.parts | exact hr.active) | (simp [st2, st1, pureM] <;> first | exact hr.parts | exact hr.active)


/-- one joined two-command line; the first half carries no probing placement -/
theorem cmd_two (na : Bool) (st : St SimSt) (c1 c2 : Str) (b1 b2 : Behav) (q : List Behav) (hr : Ready st)
    (hq : st.dev.queue = b1 :: b2 :: q) (hc1 : ChangeCmd c1) (hc2 : ChangeCmd c2)
    (hb1 : CleanBehav b1) (hb2 : CleanBehav b2) (hnp : probing c1 b1 = false) :
    let o := cmd (simDevice [] na) true (c1 ++ '\n' :: c2) st
    o.2.trace = st.trace ++ (c1 ++ '\n' :: c2) ::
      (if validOut b1.out && validOut b2.out && (needOf b1 || needOf b2) then rearmLines na else []) ∧
    o.2.warns = st.warns ++ warnsOf c1 b1.out ++ (if validOut b1.out then warnsOf c2 b2.out else []) ∧
    (validOut b1.out = true → validOut b2.out = true → o.1 = .ok () ∧ Ready o.2 ∧ o.2.dev.queue = q) ∧
    (validOut b1.out = false → ∃ R, o.1 = .abort (.unexpectedOutput c1 R) ∧ neLines R = neLines b1.out) ∧
    (validOut b1.out = true → validOut b2.out = false →
      ∃ R, o.1 = .abort (.unexpectedOutput c2 R) ∧ neLines R = neLines b2.out) ∧
    (o.2.dev.parts = [] ∧ o.2.reloadActive = true ∧ o.2.dev.occ = st.dev.occ) := by
  intro o
  have hsplit : splitOnNL (c1 ++ '\n' :: c2) = [c1, c2] := by
    rw [splitOnNL_append_nl, splitOnNL_no_nl c1 hc1.clean.noNL, splitOnNL_no_nl c2 hc2.clean.noNL]; rfl
  have hl1 := simLine_change na st.dev c1 b1 (b2 :: q) hr.parts hq hc1.change
  have hl2 := simLine_change na { st.dev with queue := b2 :: q } c2 b2 q hr.parts rfl hc2.change
  have hstep : (simDevice [] na).step st.dev (c1 ++ '\n' :: c2) =
      ({ st.dev with queue := q }, replyFor c1 b1 ++ replyFor c2 b2) := by
    simp [simDevice, hsplit, simLines, hl1, hl2]
  let st1 : St SimSt := { st with dev := { st.dev with queue := q }, pend := replyFor c1 b1 ++ replyFor c2 b2,
                                  trace := st.trace ++ [c1 ++ '\n' :: c2] }
  have hsend : send (simDevice [] na) (c1 ++ '\n' :: c2) st = (.ok (), st1) := by
    unfold send; simp [hstep, hr.pend, st1]
  have hrun2 : runNoHash (replyFor c2 b2) = true := by
    have := runNoHash_reply c2 b2 hc2.clean hb2 []; simpa using this
  obtain ⟨R1, hR1, hck1⟩ := check_reply st1 c1 b1 (replyFor c2 b2) hc1.clean hb1 (by simp [st1]) hr.active
    hrun2 (fun h => by rw [hnp] at h; cases h)
  let st2 : St SimSt := addWarns (setPend st1 (replyFor c2 b2)) (warnsOf c1 b1.out)
  obtain ⟨R2, hR2, hck2⟩ := check_reply st2 c2 b2 [] hc2.clean hb2 (by simp [st2]) (by simpa [st2] using hr.active)
    rfl (fun _ => rfl)
  have hcut := cutNL_joined c1 c2 hc1.clean.noNL
  have hne2 : c2.isEmpty = false := by
    have := hc2.clean.ne
    cases c2 with
    | nil => exact absurd rfl this
    | cons _ _ => rfl
  have ho : o = bindM (send (simDevice [] na) (c1 ++ '\n' :: c2)) (fun _ =>
      bindM (check (cutNL (c1 ++ '\n' :: c2)).1) fun n1 =>
      bindM (if (cutNL (c1 ++ '\n' :: c2)).2.isEmpty then pureM n1
             else bindM (check (cutNL (c1 ++ '\n' :: c2)).2) fun n2 => pureM (if true then n1 || n2 else n2)) fun need =>
      if need then extendReload (simDevice [] na) else pureM ()) st := rfl
  rw [bindM_snd_of_ok _ _ _ () (by rw [hsend]), hsend, hcut] at ho
  simp only [hne2, Bool.false_eq_true, if_false, if_true] at ho
  cases hv1 : validOut b1.out with
  | false =>
    have hres : (check c1 st1).1 = .abort (.unexpectedOutput c1 R1) := by
      rw [hck1, checkRes_invalid _ _ _ _ hv1]
    rw [bindM_of_abort _ _ _ _ hres, hck1] at ho
    rw [ho]
    refine ⟨?_, ?_, ?_, ?_, ?_, ?_⟩
    · simp [st1]
    · simp [st1]
    · intro h; cases h
    · intro _; exact ⟨R1, rfl, hR1⟩
    · intro h; cases h
    · refine ⟨?_, ?_, ?_⟩ <;> first | exact hr.parts | exact hr.active | rfl | (simp [st1, pureM] <;> first | exact hr.parts | exact hr.active) | (simp [st2, st1, pureM] <;> first | exact hr.parts | exact hr.active)
  | true =>
    have hres : (check c1 st1).1 = .ok (needOf b1) := by rw [hck1, checkRes_valid _ _ _ _ hv1]
    rw [bindM_snd_of_ok _ _ _ _ hres, hck1] at ho
    simp only at ho
    cases hv2 : validOut b2.out with
    | false =>
      have hres2 : (check c2 st2).1 = .abort (.unexpectedOutput c2 R2) := by
        rw [hck2, checkRes_invalid _ _ _ _ hv2]
      have hin : (bindM (check c2) (fun n2 => pureM (needOf b1 || n2)) st2).1 = .abort (.unexpectedOutput c2 R2) := by
        rw [bindM_of_abort _ _ _ _ hres2]
      rw [bindM_of_abort _ _ _ _ hin, bindM_of_abort _ _ _ _ hres2, hck2] at ho
      rw [ho]
      refine ⟨?_, ?_, ?_, ?_, ?_, ?_⟩
      · simp [st2, st1]
      · simp [st2, st1]
      · intro _ h; cases h
      · intro h; cases h
      · intro _ _; exact ⟨R2, rfl, hR2⟩
      · refine ⟨?_, ?_, ?_⟩ <;> first | exact hr.parts | exact hr.active | rfl | (simp [st1, pureM] <;> first | exact hr.parts | exact hr.active) | (simp [st2, st1, pureM] <;> first | exact hr.parts | exact hr.active)
    | true =>
      have hres2 : (check c2 st2).1 = .ok (needOf b2) := by rw [hck2, checkRes_valid _ _ _ _ hv2]
      have hin : bindM (check c2) (fun n2 => pureM (needOf b1 || n2)) st2 =
          (.ok (needOf b1 || needOf b2), addWarns (setPend st2 []) (warnsOf c2 b2.out)) := by
        rw [bindM_snd_of_ok _ _ _ _ hres2, hck2]; rfl
      rw [bindM_snd_of_ok _ _ _ (needOf b1 || needOf b2) (by rw [hin]), hin] at ho
      simp only at ho
      cases hn : (needOf b1 || needOf b2) with
      | false =>
        rw [hn] at ho; simp only [Bool.false_eq_true, if_false] at ho
        rw [ho]
        refine ⟨?_, ?_, ?_, ?_, ?_, ?_⟩
        · simp [st2, st1, pureM]
        · simp [st2, st1, pureM]
        · intro _ _; exact ⟨rfl, ⟨rfl, hr.active, hr.parts⟩, rfl⟩
        · intro h; cases h
        · intro _ h; cases h
        · refine ⟨?_, ?_, ?_⟩ <;> first | exact hr.parts | exact hr.active | rfl | (simp [st1, pureM] <;> first | exact hr.parts | exact hr.active) | (simp [st2, st1, pureM] <;> first | exact hr.parts | exact hr.active)
      | true =>
        rw [hn] at ho; simp only [if_true] at ho
        rw [extendReload_sim na _ (by simp) (by simp [st2, st1]; exact hr.parts)] at ho
        rw [ho]
        refine ⟨?_, ?_, ?_, ?_, ?_, ?_⟩
        · simp [st2, st1]
        · simp [st2, st1]
        · intro _ _; exact ⟨rfl, ⟨rfl, rfl, hr.parts⟩, rfl⟩
        · intro h; cases h
        · intro _ h; cases h
        · refine ⟨?_, ?_, ?_⟩ <;> first | exact hr.parts | exact hr.active | rfl | (simp [st1, pureM] <;> first | exact hr.parts | exact hr.active) | (simp [st2, st1, pureM] <;> first | exact hr.parts | exact hr.active)

end NA.Ios
