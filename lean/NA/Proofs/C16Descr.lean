import NA.Proofs.C16
import NA.Model.MapSiteDescr
/-!
# C16 — a described body is insensitive to the iteration order, for every semantics
-/
set_option linter.unusedSimpArgs false
namespace NA.C16.D
open NA.PermFold NA.C16

theorem heapFootprint_disjoint {K V : Type} [DecidableEq K] (l : List Eff) (sem : Sem K V)
    {es : List (Entry K)} (hk : DistinctKeys es) (hs : SeparateEntries es) :
    (heapFootprint l sem).Disjoint es := by
  intro a ha b hb hab c hc
  cases c with
  | slot m k =>
    simp only [heapFootprint, owns, Bool.and_eq_true, decide_eq_true_eq] at hc
    exact hab (hk.eq_of_key_eq ha hb (hc.1.2.symm.trans hc.2.2))
  | field o f =>
    simp only [heapFootprint, owns, Bool.and_eq_true, List.contains_iff_mem] at hc
    exact hs a ha b hb hab o ⟨hc.1.2, hc.2.2⟩

theorem setsStep_rightComm {K V : Type} (l : List Eff) (sem : Sem K V) : RightComm (setsStep l sem) := by
  intro s x y
  funext n v
  simp only [setsStep, Bool.or_assoc]
  rw [Bool.or_comm (l.contains (Eff.setInsert n) && sem.items x n v)]

theorem sharedStep_rightComm {K V : Type} (l : List Eff) (sem : Sem K V) :
    RightComm (sharedStep l sem) := by
  intro s x y
  funext n
  simp only [sharedStep]
  cases l.contains (Eff.sharedConst n) <;> cases sem.stores x n <;> cases sem.stores y n <;> simp

/-- Iterations of a body made of `ownKey`, `ownField`, `setInsert` and `sharedConst` effects commute
on the entries of a map, whatever values are computed. -/
theorem effStep_commOn {K V : Type} [DecidableEq K] (l : List Eff) (sem : Sem K V)
    {es : List (Entry K)} (hk : DistinctKeys es) (hs : SeparateEntries es) :
    CommOn (effStep l sem) es :=
  CommOn.prod ((heapFootprint l sem).commOn (heapFootprint_disjoint l sem hk hs))
    (CommOn.prod (CommOn.of_rightComm (setsStep_rightComm l sem) es)
      (CommOn.of_rightComm (sharedStep_rightComm l sem) es))

/-- Without complaints a guarded body is its effects. -/
theorem guarded_quiet {K V : Type} [DecidableEq K] (l : List Eff) (sem : Sem K V) (sem2 : Sem2 K)
    (es : List (Entry K)) (hq : ∀ e, e ∈ es → sem2.complains e = false) (c : Cells K V) :
    es.foldl (guardedStep l sem sem2) (c, none) = (es.foldl (effStep l sem) c, none) := by
  induction es generalizing c with
  | nil => rfl
  | cons e es ih =>
    have he := hq e (by simp)
    simp only [List.foldl_cons, guardedStep, he]
    exact ih (fun x hx => hq x (List.mem_cons_of_mem _ hx)) _

/-- **A described body computes the same program state for every visiting order.** -/
theorem runBody_perm {K V C : Type} [DecidableEq K] (site : String) (b : Body) (sem : Sem K V)
    (sem2 : Sem2 K) (p : PState K V C) {es₁ es₂ : List (Entry K)} (hk : DistinctKeys es₁)
    (hs : SeparateEntries es₁) (ha : PayloadsAgree b sem2 es₁) (hq : NoComplaint b sem2 es₁)
    (perm : es₁.Perm es₂) :
    runBody site b sem sem2 p es₁ = runBody site b sem sem2 p es₂ := by
  cases b with
  | effects l =>
    simp only [runBody]
    rw [foldl_perm _ perm (effStep_commOn l sem hk hs)]
  | collectSorted n =>
    simp only [runBody]
    rw [collectSorted_perm strLe_lawful sem2.keep sem2.msg (p.slices n) perm]
  | anyHit =>
    simp only [runBody]
    have : firstIn (fun e => if sem2.hit e then some () else none) es₁
        = firstIn (fun e => if sem2.hit e then some () else none) es₂ :=
      findSome?_perm (fun _ _ _ _ _ _ _ _ => rfl) perm
    rw [this]
  | firstPayload t =>
    cases es₁ with
    | nil => rw [List.Perm.eq_nil (perm.symm)]
    | cons e₁ r₁ =>
      cases es₂ with
      | nil => exact absurd (List.Perm.eq_nil perm) (by simp)
      | cons e₂ r₂ =>
        have h := ha t rfl e₁ (by simp) e₂ (perm.mem_iff.mpr (by simp))
        simp only [runBody, h]
  | guarded l =>
    have q₁ := hq l rfl
    have q₂ : ∀ e, e ∈ es₂ → sem2.complains e = false := fun e he => q₁ e (perm.mem_iff.mpr he)
    simp only [runBody]
    rw [guarded_quiet l sem sem2 es₁ q₁, guarded_quiet l sem sem2 es₂ q₂,
      foldl_perm _ perm (effStep_commOn l sem hk hs)]
  | «opaque» w => rfl

end NA.C16.D
