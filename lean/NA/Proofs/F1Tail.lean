import NA.Proofs.F1Converge
/-!
# F1: `deleteUnused` on the strict device (case: no access-group command is pending)
-/
namespace NA.F1
open NA.AsaDev

theorem lookup_filter_keep {β : Type} (keep : Name → Bool) (k : Name) (hk : keep k = true) : ∀ (m : List (Name × β)),
    (m.filter fun p => keep p.1).lookup k = m.lookup k := by
  intro m
  induction m with
  | nil => rfl
  | cons p ps ih =>
    obtain ⟨k2, v2⟩ := p
    by_cases e : k = k2
    · subst e; simp [List.filter, hk, List.lookup]
    · have hb : (k == k2) = false := by simpa using e
      simp only [List.filter]
      split
      · simp only [List.lookup, hb]; exact ih
      · simp only [List.lookup, hb]; exact ih

theorem anyKey_filter_keep {β : Type} (keep : Name → Bool) (k : Name) (hk : keep k = true) (m : List (Name × β)) :
    (m.filter fun p => keep p.1).any (·.1 == k) = m.any (·.1 == k) := by
  induction m with
  | nil => rfl
  | cons p ps ih =>
    obtain ⟨k2, v2⟩ := p
    by_cases e : k2 = k
    · subst e; simp [List.filter, hk]
    · have hb : (k2 == k) = false := by simpa using e
      simp only [List.filter]
      split
      · simp only [List.any_cons, hb, Bool.false_or]; exact ih
      · simp only [List.any_cons, hb, Bool.false_or]; exact ih

theorem delAssoc_eq_filter {β : Type} (m : List (Name × β)) (k : Name) : delAssoc m k = m.filter (fun p => p.1 != k) := by
  unfold delAssoc
  apply List.filter_congr
  intro p _
  cases h : (p.1 == k) <;> simp [bne, h]

theorem exec1_clearAcl_ok (d : Dev) (n : Name) (h1 : hasAcl d n = true) (h2 : aclBound d n = false) :
    exec1 d (.clearAcl n) = .ok { d with acls := d.acls.filter (fun p => p.1 != n), mode := none } := by
  simp [exec1, h1, h2, delAssoc_eq_filter]

theorem exec1_noGrp_ok (d : Dev) (g : Name) (h1 : hasGroup d g = true) (h2 : groupReferenced d g = false) :
    exec1 d (.noGrp g) = .ok { d with groups := d.groups.filter (fun p => p.1 != g), mode := none } := by
  simp [exec1, h1, h2, delAssoc_eq_filter]

/-- Clearing a list of distinct, existing, unbound access lists. -/
theorem clearAcls_exec : ∀ (ns : List Name) (d : Dev), ns.Nodup → (∀ n ∈ ns, hasAcl d n = true ∧ aclBound d n = false) →
    exec d (ns.map Chg.clearAcl) =
      some { d with acls := d.acls.filter (fun p => !ns.contains p.1), mode := if ns.isEmpty then d.mode else none } := by
  intro ns
  induction ns with
  | nil =>
    intro d _ _
    have : d.acls.filter (fun _ => true) = d.acls := List.filter_eq_self.mpr (fun _ _ => rfl)
    simp [exec_nil, this]
  | cons n ns ih =>
    intro d hnd h
    obtain ⟨hn, hnd'⟩ := List.nodup_cons.mp hnd
    obtain ⟨h1, h2⟩ := h n List.mem_cons_self
    rw [List.map_cons, exec_cons]
    simp only [step, exec1_clearAcl_ok d n h1 h2, Option.bind_some]
    rw [ih _ hnd']
    · simp only [List.filter_filter, List.isEmpty_cons, Bool.false_eq_true, if_false]
      congr 2
      · apply List.filter_congr
        intro p _
        simp only [List.contains_cons, Bool.not_or, bne, Bool.and_comm]
      · split <;> rfl
    · intro m hm
      obtain ⟨m1, m2⟩ := h m (List.mem_cons_of_mem _ hm)
      have hne : m ≠ n := fun e => hn (e ▸ hm)
      refine ⟨?_, by simpa [aclBound] using m2⟩
      unfold hasAcl at m1 ⊢
      rw [List.any_eq_true] at m1 ⊢
      obtain ⟨p, hp, hpk⟩ := m1
      refine ⟨p, List.mem_filter.mpr ⟨hp, ?_⟩, hpk⟩
      have : p.1 = m := by simpa using hpk
      simp [bne, this, hne]

/-- Removing a list of distinct, existing object-groups that no access list references. -/
theorem noGrps_exec : ∀ (gs : List Name) (d : Dev), gs.Nodup → (∀ g ∈ gs, hasGroup d g = true ∧ groupReferenced d g = false) →
    exec d (gs.map Chg.noGrp) =
      some { d with groups := d.groups.filter (fun p => !gs.contains p.1), mode := if gs.isEmpty then d.mode else none } := by
  intro gs
  induction gs with
  | nil =>
    intro d _ _
    have : d.groups.filter (fun _ => true) = d.groups := List.filter_eq_self.mpr (fun _ _ => rfl)
    simp [exec_nil, this]
  | cons g gs ih =>
    intro d hnd h
    obtain ⟨hn, hnd'⟩ := List.nodup_cons.mp hnd
    obtain ⟨h1, h2⟩ := h g List.mem_cons_self
    rw [List.map_cons, exec_cons]
    simp only [step, exec1_noGrp_ok d g h1 h2, Option.bind_some]
    rw [ih _ hnd']
    · simp only [List.filter_filter, List.isEmpty_cons, Bool.false_eq_true, if_false]
      congr 2
      · apply List.filter_congr
        intro p _
        simp only [List.contains_cons, Bool.not_or, bne, Bool.and_comm]
      · split <;> rfl
    · intro m hm
      obtain ⟨m1, m2⟩ := h m (List.mem_cons_of_mem _ hm)
      have hne : m ≠ g := fun e => hn (e ▸ hm)
      refine ⟨?_, by simpa [groupReferenced] using m2⟩
      unfold hasGroup at m1 ⊢
      rw [List.any_eq_true] at m1 ⊢
      obtain ⟨p, hp, hpk⟩ := m1
      refine ⟨p, List.mem_filter.mpr ⟨hp, ?_⟩, hpk⟩
      have : p.1 = m := by simpa using hpk
      simp [bne, this, hne]

/-! ## The script of `deleteUnused` when no access-group command is pending -/

theorem duRounds_empty (e : Env) (n : Nat) (st : St) : duRounds e n st ⟨[], [], []⟩ = st := by
  cases n <;> simp [duRounds, Pending.isEmpty]

theorem filter_not_nil_contains (l : List Name) : l.filter (fun n => !([] : List Name).contains n) = l :=
  List.filter_eq_self.mpr (fun _ _ => by simp)

theorem filter_nil_contains (l : List Name) : l.filter ([] : List Name).contains = [] :=
  List.filter_eq_nil_iff.mpr (fun _ _ => by simp)

theorem duRound_nobinds (e : Env) (st : St) (A G : List Name) :
    (duRound e st ⟨[], A, G⟩).1.out = st.out ++ (A.map Chg.clearAcl ++
      (G.filter fun g => !(A.flatMap fun n => (e.aLines n).flatMap (·.refs)).contains g).map Chg.noGrp) ∧
    (duRound e st ⟨[], A, G⟩).2 = ⟨[], [], G.filter (A.flatMap fun n => (e.aLines n).flatMap (·.refs)).contains⟩ := by
  unfold duRound
  simp only [List.map_nil, List.foldl_nil, filter_not_nil_contains, filter_nil_contains, and_true]
  rw [foldl_emit_out _ Chg.noGrp (fun s x => rfl), foldl_emit_out _ Chg.clearAcl (fun s x => rfl)]
  simp [List.append_assoc]

theorem duRounds_nobinds_out (e : Env) (n : Nat) (st : St) (A G : List Name) :
    (duRounds e (n + 2) st ⟨[], A, G⟩).out = st.out ++ (A.map Chg.clearAcl ++
      ((G.filter fun g => !(A.flatMap fun n => (e.aLines n).flatMap (·.refs)).contains g).map Chg.noGrp ++
       (G.filter (A.flatMap fun n => (e.aLines n).flatMap (·.refs)).contains).map Chg.noGrp)) := by
  by_cases hE : (⟨[], A, G⟩ : Pending).isEmpty = true
  · have hA : A = [] := by simp [Pending.isEmpty] at hE; exact hE.1
    have hG : G = [] := by simp [Pending.isEmpty] at hE; exact hE.2
    subst hA hG
    simp [duRounds, Pending.isEmpty]
  · unfold duRounds
    rw [if_neg hE]
    obtain ⟨o1, p1⟩ := duRound_nobinds e st A G
    generalize duRound e st ⟨[], A, G⟩ = q at o1 p1
    obtain ⟨st1, pp⟩ := q
    simp only at o1 p1 ⊢
    subst p1
    generalize hG2 : G.filter (A.flatMap fun n => (e.aLines n).flatMap (·.refs)).contains = G2
    by_cases hE2 : (⟨[], [], G2⟩ : Pending).isEmpty = true
    · have : G2 = [] := by simpa [Pending.isEmpty] using hE2
      subst this
      rw [duRounds_empty, o1]
      simp
    · unfold duRounds
      rw [if_neg hE2]
      obtain ⟨o2, p2⟩ := duRound_nobinds e st1 [] G2
      generalize duRound e st1 ⟨[], [], G2⟩ = q2 at o2 p2
      obtain ⟨st2, pp2⟩ := q2
      simp only at o2 p2 ⊢
      subst p2
      simp only [List.flatMap_nil, filter_nil_contains, filter_not_nil_contains, List.map_nil, List.nil_append] at o2 ⊢
      rw [duRounds_empty, o2, o1]
      simp [List.append_assoc]

/-- The commands of the rounds are accepted: first the pending access lists (existing, not bound), then
the pending groups (existing, referenced by no access list that stays). -/
theorem rounds_exec (A G1 G2 : List Name) (d : Dev) (hA : A.Nodup) (hG1 : G1.Nodup) (hG2 : G2.Nodup)
    (hdisj : ∀ g ∈ G2, g ∉ G1)
    (hAok : ∀ m ∈ A, hasAcl d m = true ∧ aclBound d m = false)
    (hGok : ∀ g, g ∈ G1 ∨ g ∈ G2 → hasGroup d g = true ∧ ∀ p ∈ d.acls, p.1 ∉ A → ∀ l ∈ p.2, g ∉ l.names) :
    ∃ d', exec d (A.map Chg.clearAcl ++ (G1.map Chg.noGrp ++ G2.map Chg.noGrp)) = some d' ∧
      d'.acls = d.acls.filter (fun p => !A.contains p.1) ∧
      d'.groups = (d.groups.filter (fun p => !G1.contains p.1)).filter (fun p => !G2.contains p.1) ∧
      d'.binds = d.binds ∧ d'.routes = d.routes ∧ d'.intfs = d.intfs := by
  obtain ⟨d1, e1, hacls1, hgroups1, hb1, hr1, hi1⟩ : ∃ d1, exec d (A.map Chg.clearAcl) = some d1 ∧
      d1.acls = d.acls.filter (fun p => !A.contains p.1) ∧ d1.groups = d.groups ∧ d1.binds = d.binds ∧
      d1.routes = d.routes ∧ d1.intfs = d.intfs := ⟨_, clearAcls_exec A d hA hAok, rfl, rfl, rfl, rfl, rfl⟩
  have href : ∀ (dd : Dev), dd.acls = d1.acls → ∀ g, g ∈ G1 ∨ g ∈ G2 → groupReferenced dd g = false := by
    intro dd hdd g hg
    unfold groupReferenced
    rw [hdd, hacls1]
    cases hh : (d.acls.filter (fun p => !A.contains p.1)).any (fun a => a.2.any fun l => l.names.contains g) with
    | false => rfl
    | true =>
      exfalso
      obtain ⟨p, hp, hpl⟩ := List.any_eq_true.mp hh
      obtain ⟨hp1, hp2⟩ := List.mem_filter.mp hp
      obtain ⟨l, hl, hlg⟩ := List.any_eq_true.mp hpl
      have hnotA : p.1 ∉ A := by simpa using hp2
      exact (hGok g hg).2 p hp1 hnotA l hl (by simpa using hlg)
  obtain ⟨d2, e2, hacls2, hgroups2, hb2, hr2, hi2⟩ : ∃ d2, exec d1 (G1.map Chg.noGrp) = some d2 ∧
      d2.acls = d1.acls ∧ d2.groups = d1.groups.filter (fun p => !G1.contains p.1) ∧ d2.binds = d1.binds ∧
      d2.routes = d1.routes ∧ d2.intfs = d1.intfs :=
    ⟨_, noGrps_exec G1 d1 hG1 (fun g hg => ⟨by
      have := (hGok g (Or.inl hg)).1
      simpa [hasGroup, hgroups1] using this, href d1 rfl g (Or.inl hg)⟩), rfl, rfl, rfl, rfl, rfl⟩
  obtain ⟨d3, e3, hacls3, hgroups3, hb3, hr3, hi3⟩ : ∃ d3, exec d2 (G2.map Chg.noGrp) = some d3 ∧
      d3.acls = d2.acls ∧ d3.groups = d2.groups.filter (fun p => !G2.contains p.1) ∧ d3.binds = d2.binds ∧
      d3.routes = d2.routes ∧ d3.intfs = d2.intfs :=
    ⟨_, noGrps_exec G2 d2 hG2 (fun g hg => ⟨by
      have h0 := (hGok g (Or.inr hg)).1
      unfold hasGroup at h0 ⊢
      rw [hgroups2, hgroups1]
      obtain ⟨p, hp, hpk⟩ := List.any_eq_true.mp h0
      refine List.any_eq_true.mpr ⟨p, List.mem_filter.mpr ⟨hp, ?_⟩, hpk⟩
      have hpg : p.1 = g := by simpa using hpk
      have := hdisj g hg
      simp [hpg, this], href d2 hacls2 g (Or.inr hg)⟩), rfl, rfl, rfl, rfl, rfl⟩
  refine ⟨d3, exec_append_some e1 (exec_append_some e2 e3), ?_, ?_, ?_, ?_, ?_⟩
  · rw [hacls3, hacls2, hacls1]
  · rw [hgroups3, hgroups2, hgroups1]
  · rw [hb3, hb2, hb1]
  · rw [hr3, hr2, hr1]
  · rw [hi3, hi2, hi1]

/-- `deleteUnused` on the strict device when no access-group command is pending. -/
theorem deleteUnused_exec_nobinds (e : Env) (st : St) (managed : List Nat) (d : Dev) (hm : ModeRel st d)
    (hb : (duPending e st managed).1.binds = [])
    (hA : (duPending e st managed).1.acls.Nodup) (hG : (duPending e st managed).1.grps.Nodup)
    (hAok : ∀ m ∈ (duPending e st managed).1.acls, hasAcl d m = true ∧ aclBound d m = false)
    (hGok : ∀ g ∈ (duPending e st managed).1.grps, hasGroup d g = true ∧
      ∀ p ∈ d.acls, p.1 ∉ (duPending e st managed).1.acls → ∀ l ∈ p.2, g ∉ l.names) :
    ∃ tail d', (deleteUnused e st managed).out = st.out ++ tail ∧ exec d tail = some d' ∧
      d'.acls = d.acls.filter (fun p => !(duPending e st managed).1.acls.contains p.1) ∧
      (∀ g, g ∉ (duPending e st managed).1.grps → d'.groups.lookup g = d.groups.lookup g ∧
        d'.groups.any (·.1 == g) = d.groups.any (·.1 == g)) ∧
      d'.binds = d.binds ∧ d'.routes = d.routes ∧ d'.intfs = d.intfs := by
  unfold deleteUnused
  generalize duPending e st managed = q at hb hA hG hAok hGok
  obtain ⟨p, sr⟩ := q
  simp only at hb hA hG hAok hGok ⊢
  obtain ⟨pb, A, G⟩ := p
  simp only at hb hA hG hAok hGok
  subst hb
  have h1 : (if sr = true then st.hit "du:still-referenced" else st).out = st.out := by split <;> rfl
  have h1m : (if sr = true then st.hit "du:still-referenced" else st).mode = st.mode := by split <;> rfl
  generalize (if sr = true then st.hit "du:still-referenced" else st) = st1 at h1 h1m
  split
  · rename_i hE
    have hA0 : A = [] := by simp [Pending.isEmpty] at hE; exact hE.1
    have hG0 : G = [] := by simp [Pending.isEmpty] at hE; exact hE.2
    subst hA0 hG0
    refine ⟨[], d, by simp [h1], exec_nil d, ?_, fun _ _ => ⟨rfl, rfl⟩, rfl, rfl, rfl⟩
    simp only [List.contains_nil, Bool.not_false]
    exact (List.filter_eq_self.mpr (fun _ _ => rfl)).symm
  · -- the groups in the order of the rounds
    have hR : ∀ (R : List Name), (G.filter fun g => !R.contains g).Nodup ∧ (G.filter R.contains).Nodup ∧
        (∀ g ∈ G.filter R.contains, g ∉ G.filter fun g => !R.contains g) := by
      intro R
      refine ⟨List.Nodup.sublist List.filter_sublist hG, List.Nodup.sublist List.filter_sublist hG, ?_⟩
      intro g hg hg'
      have h2 := (List.mem_filter.mp hg).2
      have h3 := (List.mem_filter.mp hg').2
      rw [h2] at h3; exact absurd h3 (by simp)
    -- the device after the optional `exit`
    have hexit : ∃ cs0 d0 st2, (if (st1.mode != "") = true then (st1.emit .exit).hit "du:exit" else st1) = st2 ∧
        st2.out = st.out ++ cs0 ∧ exec d cs0 = some d0 ∧ d0.acls = d.acls ∧ d0.groups = d.groups ∧ d0.binds = d.binds ∧
        d0.routes = d.routes ∧ d0.intfs = d.intfs := by
      by_cases hmode : (st1.mode != "") = true
      · have hne : st.mode ≠ "" := by rw [← h1m]; simpa using hmode
        have hdm : d.mode = some st.mode := by unfold ModeRel at hm; rw [if_neg hne] at hm; exact hm
        have e1 : exec1 d .exit = .ok { d with mode := none } := by simp [exec1, hdm]
        refine ⟨[.exit], _, _, rfl, ?_, exec_single e1, rfl, rfl, rfl, rfl, rfl⟩
        simp [hmode, St.emit, St.hit, h1]
      · refine ⟨[], d, _, rfl, ?_, exec_nil d, rfl, rfl, rfl, rfl, rfl⟩
        simp [hmode, h1]
    obtain ⟨cs0, d0, st2, hst2, ho2, he0, ha0, hg0, hb0, hr0, hi0⟩ := hexit
    simp only []
    rw [hst2]
    obtain ⟨hn1, hn2, hdj⟩ := hR (A.flatMap fun n => (e.aLines n).flatMap (·.refs))
    obtain ⟨d', he', hacl', hgrp', hb', hr', hi'⟩ := rounds_exec A _ _ d0 hA hn1 hn2 hdj
      (fun m hmA => by
        obtain ⟨x1, x2⟩ := hAok m hmA
        exact ⟨by simpa [hasAcl, ha0] using x1, by simpa [aclBound, hb0] using x2⟩)
      (fun g hg => by
        have hgG : g ∈ G := by
          rcases hg with hg | hg
          · exact (List.mem_filter.mp hg).1
          · exact (List.mem_filter.mp hg).1
        obtain ⟨x1, x2⟩ := hGok g hgG
        exact ⟨by simpa [hasGroup, hg0] using x1, by rw [ha0]; exact x2⟩)
    refine ⟨cs0 ++ _, d', ?_, exec_append_some he0 he', by rw [hacl', ha0], ?_, by rw [hb', hb0], by rw [hr', hr0],
      by rw [hi', hi0]⟩
    · rw [duRounds_nobinds_out, ho2, List.append_assoc]
    · intro g hg
      rw [hgrp', hg0]
      generalize hG1 : (G.filter fun g => !(A.flatMap fun n => (e.aLines n).flatMap (·.refs)).contains g) = G1
      generalize hG2 : (G.filter (A.flatMap fun n => (e.aLines n).flatMap (·.refs)).contains) = G2
      have k1 : (fun (x : Name) => !G1.contains x) g = true := by
        simp only [Bool.not_eq_true', List.contains_eq_mem, decide_eq_false_iff_not]
        rw [← hG1]; exact fun hx => hg (List.mem_filter.mp hx).1
      have k2 : (fun (x : Name) => !G2.contains x) g = true := by
        simp only [Bool.not_eq_true', List.contains_eq_mem, decide_eq_false_iff_not]
        rw [← hG2]; exact fun hx => hg (List.mem_filter.mp hx).1
      constructor
      · rw [lookup_filter_keep (fun x => !G2.contains x) g k2, lookup_filter_keep (fun x => !G1.contains x) g k1]
      · rw [anyKey_filter_keep (fun x => !G2.contains x) g k2, anyKey_filter_keep (fun x => !G1.contains x) g k1]

end NA.F1
