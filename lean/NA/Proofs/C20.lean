import NA.Model.Cursor
/-!
Helper lemmas for C20: compositional `NoPanic`, and panic-freedom of the fixed token-cursor
functions of `pkg/cisco` for ALL inputs.
-/
namespace NA.C20
open Res

theorem noPanic_ok {α : Type} (a : α) : NoPanic (Res.ok a) := by intro p h; cases h
theorem noPanic_diag {α : Type} (m : Str) : NoPanic (Res.diag m : Res α) := by intro p h; cases h

theorem NoPanic.bind {α β : Type} {x : Res α} {f : α → Res β}
    (hx : NoPanic x) (hf : ∀ a, NoPanic (f a)) : NoPanic (x.bind f) := by
  intro p h
  cases x with
  | ok a => exact hf a p h
  | diag m => cases h
  | panic q => exact hx q rfl

theorem NoPanic.bind' {α β : Type} {x : Res α} {f : α → Res β}
    (hx : NoPanic x) (hf : ∀ a, x = .ok a → NoPanic (f a)) : NoPanic (x.bind f) := by
  intro p h
  cases x with
  | ok a => exact hf a rfl p h
  | diag m => cases h
  | panic q => exact hx q rfl

theorem noPanic_failAt_fixed {α : Type} (p : Panic) (m : Str) : NoPanic (failAt true p m : Res α) := by
  simp [failAt]; exact noPanic_diag m

theorem PanicOnly.bind {α β : Type} {q : Panic} {x : Res α} {f : α → Res β}
    (hx : PanicOnly q x) (hf : ∀ a, PanicOnly q (f a)) : PanicOnly q (x.bind f) := by
  intro p h
  cases x with
  | ok a => exact hf a p h
  | diag m => cases h
  | panic r =>
    simp [Res.bind] at h
    subst h
    exact hx r rfl

theorem NoPanic.panicOnly {α : Type} {q : Panic} {x : Res α} (h : NoPanic x) : PanicOnly q x := by
  intro p hp; exact absurd hp (h p)

/-! ### postprocessACLParts -/

theorem noPanic_convObjectGroup (orig : Str) (s : AclSt) : NoPanic (convObjectGroup true orig s) := by
  unfold convObjectGroup
  split
  · exact noPanic_ok _
  · exact noPanic_failAt_fixed _ _

theorem noPanic_convProto (tb : Tables) (orig : Str) (s : AclSt) : NoPanic (convProto true tb orig s) := by
  unfold convProto
  split
  · exact noPanic_failAt_fixed _ _
  · split
    · exact noPanic_convObjectGroup _ _
    · split
      · split
        · exact noPanic_ok _
        · exact noPanic_failAt_fixed _ _
      · exact noPanic_ok _

theorem noPanic_convObject (tb : Tables) (orig : Str) (s : AclSt) : NoPanic (convObject true tb orig s) := by
  unfold convObject
  split
  · exact noPanic_ok _
  · split
    · exact noPanic_convObjectGroup _ _
    · split
      · split <;> exact noPanic_ok _
      · split
        · split
          · exact noPanic_ok _
          · exact noPanic_failAt_fixed _ _
        · split
          · exact noPanic_ok _
          · split
            · exact noPanic_ok _
            · split <;> exact noPanic_ok _

theorem noPanic_convPortOrObject (tb : Tables) (orig : Str) (s : AclSt) :
    NoPanic (convPortOrObject true tb orig s) := by
  unfold convPortOrObject
  split
  · exact noPanic_ok _
  · split
    · exact noPanic_ok _
    · split
      · exact noPanic_ok _
      · exact noPanic_convObject _ _ _

/-- `postprocessACLParts` after the fix: no Go panic for ANY token list and ANY name tables. -/
theorem noPanic_aclParts (tb : Tables) (orig : Str) (parts : List Str) :
    NoPanic (aclParts true tb orig parts) := by
  unfold aclParts
  refine NoPanic.bind (noPanic_convProto tb orig _) fun s1 => ?_
  refine NoPanic.bind (noPanic_convObject tb orig _) fun s2 => ?_
  refine NoPanic.bind ?_ fun s3 => ?_
  · split
    · refine NoPanic.bind (noPanic_convPortOrObject tb orig _) fun a => ?_
      refine NoPanic.bind (noPanic_convPortOrObject tb orig _) fun b => ?_
      exact noPanic_convPortOrObject tb orig _
    · split
      · exact NoPanic.bind (noPanic_convObject tb orig _) fun a => noPanic_ok _
      · exact noPanic_convObject tb orig _
  · exact NoPanic.bind (noPanic_convObject tb orig _) fun s4 => noPanic_ok _


/-! ### strings -/

theorem fields_cons_ne_nil {c : Char} (cs : Str) (h : isSpace c = false) : fields (c :: cs) ≠ [] := by
  unfold fields
  rw [if_neg (by simp [h])]
  split
  · simp
  · split
    · simp
    · split <;> simp

theorem fields_mem_ne_nil : ∀ (s : Str) (w : Str), w ∈ fields s → w ≠ []
  | [], w, h => by simp [fields] at h
  | c :: cs, w, h => by
    unfold fields at h
    split at h
    · exact fields_mem_ne_nil cs w h
    · split at h
      · simp at h; subst h; simp
      · split at h
        · simp at h
          rcases h with h | h
          · subst h; simp
          · exact fields_mem_ne_nil _ w h
        · split at h
          · rename_i w' ws heq
            simp at h
            rcases h with h | h
            · subst h; simp
            · exact fields_mem_ne_nil _ w (by rw [heq]; simp [h])
          · simp at h; subst h; simp

theorem getIndent_of_mem : ∀ (l : Str), (∃ c ∈ l, c ≠ ' ') → ∃ k, getIndent l = some k ∧ k < l.length
  | [], h => by simp at h
  | c :: cs, h => by
    unfold getIndent
    by_cases hc : c = ' '
    · subst hc
      have : ∃ c ∈ cs, c ≠ ' ' := by
        obtain ⟨d, hd, hne⟩ := h
        simp at hd
        rcases hd with hd | hd
        · exact absurd hd hne
        · exact ⟨d, hd, hne⟩
      obtain ⟨k, hk, hlt⟩ := getIndent_of_mem cs this
      refine ⟨k + 1, ?_, ?_⟩
      · simp [hk]
      · simp; omega
    · exact ⟨0, by simp [hc], by simp⟩

theorem dropWhile_head_not {α : Type} (p : α → Bool) : ∀ (l : List α) (a : α) (t : List α),
    l.dropWhile p = a :: t → p a = false
  | [], a, t, h => by simp at h
  | x :: xs, a, t, h => by
    simp only [List.dropWhile_cons] at h
    split at h
    · exact dropWhile_head_not p xs a t h
    · simp at h
      rcases h with ⟨h1, _⟩
      subst h1
      simpa using ‹¬ p x = true›

/-- A right-trimmed non-empty line contains a character that is not white space. -/
theorem trimRight_exists (s : Str) (h : trimRight s ≠ []) : ∃ c ∈ trimRight s, isSpace c = false := by
  unfold trimRight at *
  cases hd : List.dropWhile isSpace s.reverse with
  | nil => simp [hd] at h
  | cons a t =>
    refine ⟨a, by simp, dropWhile_head_not isSpace _ a t hd⟩

theorem not_space_ne_blank {c : Char} (h : isSpace c = false) : c ≠ ' ' := by
  intro hc; subst hc; simp [isSpace] at h

/-- `getIndent` of a right-trimmed non-empty line: found, and inside the line. -/
theorem getIndent_trimRight (s : Str) (h : trimRight s ≠ []) :
    ∃ k, getIndent (trimRight s) = some k ∧ k < (trimRight s).length := by
  obtain ⟨c, hc, hs⟩ := trimRight_exists s h
  exact getIndent_of_mem _ ⟨c, hc, not_space_ne_blank hs⟩

/-! ### matchCmd -/

def incompleteString : Panic := .explicit "Incomplete string"

theorem mem_drop {α : Type} {a : α} : ∀ {n : Nat} {l : List α}, a ∈ l.drop n → a ∈ l
  | 0, l, h => by simpa using h
  | n + 1, [], h => by simp at h
  | n + 1, x :: xs, h => by
    simp at h
    exact List.mem_cons_of_mem _ (mem_drop h)

/-- With non-empty words (`strings.Fields`), the only panic of the template loop is the
explicit "Incomplete string". -/
theorem matchTemplate_panicOnly : ∀ (tmpl args : List Str) (acc : MatchAcc),
    (∀ w ∈ args, w ≠ []) → PanicOnly incompleteString (matchTemplate tmpl args acc)
  | [], args, acc, _ => by
    unfold matchTemplate; exact NoPanic.panicOnly (noPanic_ok _)
  | tok :: ts, args, acc, hne => by
    unfold matchTemplate
    split
    · exact NoPanic.panicOnly (noPanic_ok _)
    · rename_i w rest
      have hrest : ∀ x ∈ rest, x ≠ [] := fun x hx => hne x (List.mem_cons_of_mem _ hx)
      split
      · exact matchTemplate_panicOnly ts rest _ hrest
      · split
        · split
          · exact NoPanic.panicOnly (noPanic_ok _)
          · exact matchTemplate_panicOnly ts rest _ hrest
        · split
          · exact matchTemplate_panicOnly ts rest _ hrest
          · split
            · split
              · exact absurd rfl (hne [] (by simp))
              · split
                · split
                  · intro p hp; cases hp; rfl
                  · exact matchTemplate_panicOnly ts _ _ (fun x hx => hne x (mem_drop hx))
                · exact matchTemplate_panicOnly ts rest _ hrest
            · split
              · exact NoPanic.panicOnly (noPanic_ok _)
              · split
                · exact NoPanic.panicOnly (noPanic_ok _)
                · exact matchTemplate_panicOnly ts rest _ hrest

/-- A template without the `"` token never panics, for ANY words (also empty ones). -/
theorem matchTemplate_noPanic : ∀ (tmpl args : List Str) (acc : MatchAcc),
    lit "\"" ∉ tmpl → NoPanic (matchTemplate tmpl args acc)
  | [], args, acc, _ => by
    unfold matchTemplate; exact noPanic_ok _
  | tok :: ts, args, acc, hq => by
    have hts : lit "\"" ∉ ts := fun h => hq (List.mem_cons_of_mem _ h)
    have htok : tok ≠ lit "\"" := fun h => hq (by simp [h])
    unfold matchTemplate
    split
    · exact noPanic_ok _
    · rename_i w rest
      split
      · exact matchTemplate_noPanic ts rest _ hts
      · split
        · split
          · exact noPanic_ok _
          · exact matchTemplate_noPanic ts rest _ hts
        · split
          · exact matchTemplate_noPanic ts rest _ hts
          · split
            · exact noPanic_ok _
            · split
              · exact noPanic_ok _
              · exact matchTemplate_noPanic ts rest _ hts

theorem matchCmd_panicOnly (pre : Str) (words : List Str) (hne : ∀ w ∈ words, w ≠ []) :
    ∀ ds : List (Nat × List Str × Bool), PanicOnly incompleteString (matchCmd pre words ds)
  | [] => by unfold matchCmd; exact NoPanic.panicOnly (noPanic_ok _)
  | (i, tmpl, ign) :: ds => by
    unfold matchCmd
    have h := matchTemplate_panicOnly tmpl words { parsed := [], name := [], seq := 0, ref := [] } hne
    split
    · rename_i p hp
      intro q hq; cases hq; exact h p hp
    · exact NoPanic.panicOnly (noPanic_diag _)
    · exact matchCmd_panicOnly pre words hne ds
    · split
      · exact matchCmd_panicOnly pre words hne ds
      · split
        · exact NoPanic.panicOnly (noPanic_ok _)
        · exact NoPanic.panicOnly (noPanic_ok _)

theorem matchCmd_noPanic (pre : Str) (words : List Str) :
    ∀ ds : List (Nat × List Str × Bool), (∀ d ∈ ds, lit "\"" ∉ d.2.1) → NoPanic (matchCmd pre words ds)
  | [], _ => by unfold matchCmd; exact noPanic_ok _
  | (i, tmpl, ign) :: ds, hq => by
    unfold matchCmd
    have h := matchTemplate_noPanic tmpl words { parsed := [], name := [], seq := 0, ref := [] }
      (hq (i, tmpl, ign) (by simp))
    have hds : ∀ d ∈ ds, lit "\"" ∉ d.2.1 := fun d hd => hq d (List.mem_cons_of_mem _ hd)
    split
    · rename_i p hp
      exact absurd hp (h p)
    · exact noPanic_diag _
    · exact matchCmd_noPanic pre words ds hds
    · split
      · exact matchCmd_noPanic pre words ds hds
      · split
        · exact noPanic_ok _
        · exact noPanic_ok _

/-! ### lookupCmd and the line loop -/

/-- no top-level template contains the `"` token (a fact of the command tables). -/
def NoQuoteTop (ds : List Descr) : Prop := ∀ d ∈ ds, lit "\"" ∉ d.template

theorem mem_indexed {α : Type} {l : List α} {x : Nat × α} (h : x ∈ indexed l) : x.2 ∈ l := by
  unfold indexed at h
  exact (List.of_mem_zip h).2

theorem lookupAux_noPanic (ds : List (Nat × Descr)) (hq : ∀ d ∈ ds, lit "\"" ∉ d.2.template) :
    ∀ (words pre : List Str), NoPanic (lookupAux ds pre words)
  | [], pre => by unfold lookupAux; exact noPanic_ok _
  | w :: rest, pre => by
    unfold lookupAux
    simp only
    split
    · exact noPanic_ok _
    · split
      · apply matchCmd_noPanic
        intro d hd
        simp at hd
        obtain ⟨a, b, hab, rfl⟩ := hd
        exact hq (a, b) hab.1
      · exact lookupAux_noPanic ds hq rest _

theorem lookupCmd_noPanic (ds : List Descr) (hq : NoQuoteTop ds) (line : Str) :
    NoPanic (lookupCmd ds line) := by
  unfold lookupCmd
  exact lookupAux_noPanic _ (fun d hd => hq d.2 (mem_indexed hd)) _ _

/-- What `subIndent` returns lies inside the line. -/
theorem subIndent_ok (fixed : Bool) (st : LoopSt) (pc : Cmd) (s : Str) (h : trimRight s ≠ [])
    (i : Nat) (f : Str) (hr : subIndent fixed st pc (trimRight s) = .ok (i, f)) :
    i < (trimRight s).length := by
  obtain ⟨k, hk, hlt⟩ := getIndent_trimRight s h
  unfold subIndent at hr
  rw [hk] at hr
  split at hr
  · simp at hr; omega
  · simp only at hr
    split at hr
    · split at hr
      · cases hr
      · split at hr <;> cases hr
    · rename_i hbad
      simp at hr hbad
      omega

theorem subIndent_panicFree (st : LoopSt) (pc : Cmd) (s : Str) (h : trimRight s ≠ []) :
    NoPanic (subIndent true st pc (trimRight s)) := by
  obtain ⟨k, hk, _⟩ := getIndent_trimRight s h
  unfold subIndent
  rw [hk]
  split
  · exact noPanic_ok _
  · simp only
    split
    · simp; exact noPanic_diag _
    · exact noPanic_ok _

theorem subBody_panicOnly (ds : List Descr) (st : LoopSt) (pc : Cmd) (others : List Cmd) (line : Str)
    (i : Nat) (f : Str) (hi : i < line.length) :
    PanicOnly incompleteString (subBody ds st pc others line i f) := by
  unfold subBody
  have hle : i ≤ line.length := Nat.le_of_lt hi
  simp only [hle, if_true]
  split
  · rename_i hd
    have : (line.drop i).length = 0 := by rw [hd]; rfl
    simp at this
    omega
  · rename_i d body hd
    split
    · exact NoPanic.panicOnly (noPanic_ok _)
    · rename_i hdsp
      refine PanicOnly.bind ?_ ?_
      · apply matchCmd_panicOnly
        exact fun w hw => fields_mem_ne_nil _ w hw
      · intro oc
        split <;> exact NoPanic.panicOnly (noPanic_ok _)

/-- One iteration of the line loop of `ParseConfig` after the fix: for ANY bytes of the line,
ANY loop state and ANY command tables whose top-level templates have no `"` token, the only Go
panic left is the explicit "Incomplete string" of `matchCmd` (pinned by the suite). -/
theorem parseLine_panicOnly (ds : List Descr) (hq : NoQuoteTop ds) (isRaw : Bool) (st : LoopSt) (raw : Str) :
    PanicOnly incompleteString (parseLine true ds isRaw st raw) := by
  unfold parseLine
  simp only
  split
  · exact NoPanic.panicOnly (noPanic_ok _)
  · rename_i c0 tl hline
    have hne : trimRight raw ≠ [] := by rw [hline]; simp
    split
    · exact NoPanic.panicOnly (noPanic_ok _)
    · split
      · exact NoPanic.panicOnly (noPanic_ok _)
      · split
        · refine NoPanic.panicOnly (NoPanic.bind ?_ ?_)
          · exact lookupCmd_noPanic ds hq _
          · intro oc
            split
            · split
              · exact noPanic_diag _
              · exact noPanic_ok _
            · exact noPanic_ok _
        · split
          · exact NoPanic.panicOnly (noPanic_ok _)
          · split
            · exact NoPanic.panicOnly (noPanic_ok _)
            · rename_i pc others _
              intro p hp
              cases hsi : subIndent true st pc (trimRight raw) with
              | panic q => exact absurd hsi (subIndent_panicFree st pc raw hne q)
              | diag m => rw [hsi] at hp; cases hp
              | ok r =>
                obtain ⟨i, f⟩ := r
                rw [hsi] at hp
                exact subBody_panicOnly ds st pc others _ i f (subIndent_ok true st pc raw hne i f hsi) p hp

theorem parseLines_panicOnly (ds : List Descr) (hq : NoQuoteTop ds) (isRaw : Bool) :
    ∀ (ls : List Str) (st : LoopSt), PanicOnly incompleteString (parseLines true ds isRaw st ls)
  | [], st => by unfold parseLines; exact NoPanic.panicOnly (noPanic_ok _)
  | l :: ls, st => by
    unfold parseLines
    exact PanicOnly.bind (parseLine_panicOnly ds hq isRaw st l) (fun st' => parseLines_panicOnly ds hq isRaw ls st')

/-- `ParseConfig` up to `postprocessParsed`, for ANY file content. -/
theorem parseConfig_panicOnly (ds : List Descr) (hq : NoQuoteTop ds) (isRaw : Bool) (data : Str) :
    PanicOnly incompleteString (parseConfig true ds isRaw data) := by
  unfold parseConfig
  exact PanicOnly.bind (parseLines_panicOnly ds hq isRaw _ _) (fun st => NoPanic.panicOnly (noPanic_ok _))

/-! ### postprocessParsed: aaa-server, transform-set, metric; routes -/

theorem aaaHost_noPanic (orig parsed : Str) (h : 3 ≤ (fields parsed).length) :
    NoPanic (aaaHost true orig parsed) := by
  unfold aaaHost
  simp only [if_true]
  split
  · rename_i w0 w1 w2 rest hf
    have hw2 : w2 ≠ [] := fields_mem_ne_nil parsed w2 (by rw [hf]; simp)
    split
    · exact absurd rfl hw2
    · rename_i c tl
      split
      · rename_i h' tl' hws
        split
        · split
          · exact noPanic_failAt_fixed _ _
          · exact noPanic_ok _
        · exact noPanic_ok _
      · rename_i hws
        exfalso
        split at hws
        · split at hws
          · simp at hws
          · simp at hws
        · simp at hws
  · rename_i hf
    exfalso
    match hfp : fields parsed, h, hf with
    | [], h, _ => simp at h
    | [_], h, _ => simp at h
    | [_, _], h, _ => simp at h
    | a :: b :: c :: r, _, hf => exact hf a b c r rfl

theorem subRef_noPanic (c : Cmd) (h : ∀ s ∈ c.sub, s.ref ≠ []) : NoPanic (subRef c) := by
  unfold subRef
  split
  · exact noPanic_ok _
  · rename_i s0 _ hs
    split
    · exact noPanic_ok _
    · rename_i hr
      exact absurd hr (h s0 (by rw [hs]; simp))

theorem aaaRest_noPanic (name : Str) : ∀ (cs : List Cmd) (ldapMap : Str),
    (∀ c ∈ cs, 3 ≤ (fields c.parsed).length) → (∀ c ∈ cs, ∀ s ∈ c.sub, s.ref ≠ []) →
    NoPanic (aaaRest true name ldapMap cs)
  | [], _, _, _ => by unfold aaaRest; exact noPanic_ok _
  | c :: cs, ldapMap, h1, h2 => by
    have h1' : ∀ x ∈ cs, 3 ≤ (fields x.parsed).length := fun x hx => h1 x (List.mem_cons_of_mem _ hx)
    have h2' : ∀ x ∈ cs, ∀ s ∈ x.sub, s.ref ≠ [] := fun x hx => h2 x (List.mem_cons_of_mem _ hx)
    unfold aaaRest
    refine NoPanic.bind (aaaHost_noPanic _ _ (h1 c (by simp))) fun o => ?_
    split
    · exact NoPanic.bind (aaaRest_noPanic name cs _ h1' h2') fun r => noPanic_ok _
    · refine NoPanic.bind (subRef_noPanic c (h2 c (by simp))) fun ref => ?_
      split
      · exact noPanic_diag _
      · exact NoPanic.bind (aaaRest_noPanic name cs _ h1' h2') fun r => noPanic_ok _

/-- the aaa-server part of `postprocessParsed` for one name: the list stored in the lookup map is
never empty (entries are only created by `append`), every command has at least three words
(`aaa-server $NAME *`), the one sub command template has a `$REF`. -/
theorem aaaGroup_noPanic (name : Str) (l : List Cmd) (hne : l ≠ [])
    (h1 : ∀ c ∈ l, 3 ≤ (fields c.parsed).length) (h2 : ∀ c ∈ l, ∀ s ∈ c.sub, s.ref ≠ []) :
    NoPanic (aaaGroup true name l) := by
  unfold aaaGroup
  split
  · exact absurd rfl hne
  · rename_i c0 rest
    split
    · exact noPanic_ok _
    · split
      · exact noPanic_ok _
      · exact NoPanic.bind (aaaRest_noPanic name rest _
          (fun x hx => h1 x (List.mem_cons_of_mem _ hx)) (fun x hx => h2 x (List.mem_cons_of_mem _ hx)))
          fun r => noPanic_ok _

/-- `stripMetric` never panics: `tokens[2]` and `tokens[:5]` are guarded by `len(tokens) == 6`. -/
theorem stripMetric_noPanic (parsed : Str) : NoPanic (stripMetric parsed) := by
  unfold stripMetric
  simp only
  split
  · rename_i h
    split
    · rename_i hn
      rw [List.getElem?_eq_none_iff] at hn
      omega
    · split
      · rw [if_pos (by omega)]
        exact noPanic_ok _
      · exact noPanic_ok _
  · exact noPanic_ok _

/-- `setTransRef`: `strings.Repeat("$REF ", len(nl)-1)` cannot get a negative count when the text
behind `cmdPart` contains a character that is not white space. -/
theorem transRefs_noPanic (orig names : Str) (h : fields names ≠ []) : NoPanic (transRefs true orig names) := by
  unfold transRefs
  split
  · rename_i hf; exact absurd hf h
  · split
    · exact noPanic_diag _
    · exact noPanic_ok _

/-- after the fix at most 11 names are stored in `c.ref` (as many as `c.typ.ref` has entries). -/
theorem transRefs_le11 (orig names : Str) (r : List Str × Str) (h : transRefs true orig names = .ok r) :
    r.1.length ≤ 11 := by
  unfold transRefs at h
  split at h
  · cases h
  · split at h
    · cases h
    · rename_i hn
      cases h
      simp only [true_and, Nat.not_lt] at hn
      exact hn

/-- `dstOfRoute` after the fix: no Go panic for ANY command text. -/
theorem dstOfRoute_noPanic (isV6 : Bool) (orig parsed : Str) : NoPanic (dstOfRoute true isV6 orig parsed) := by
  unfold dstOfRoute
  simp only
  split
  · split
    · exact noPanic_failAt_fixed _ _
    · exact noPanic_ok _
  · split
    · split
      · split
        · exact noPanic_ok _
        · exact noPanic_failAt_fixed _ _
        · exact noPanic_failAt_fixed _ _
        · exact noPanic_failAt_fixed _ _
      · split
        · exact noPanic_ok _
        · exact noPanic_failAt_fixed _ _
    · exact noPanic_failAt_fixed _ _

/-- `routeVRF` (alignVRFs) after the fix, for a command with at least three words
(`ip route *`: prefix of two words, `*` matches at least one word). -/
theorem routeVRF_noPanic (orig parsed : Str) (h : 3 ≤ (fields parsed).length) :
    NoPanic (routeVRF true orig parsed) := by
  unfold routeVRF
  split
  · split
    · split
      · exact noPanic_ok _
      · exact noPanic_failAt_fixed _ _
    · exact noPanic_ok _
  · rename_i hf
    exfalso
    match hfp : fields parsed, h, hf with
    | [], h, _ => simp at h
    | [_], h, _ => simp at h
    | [_, _], h, _ => simp at h
    | a :: b :: c :: r, _, hf => exact hf a b c r rfl

/-- `postprocessASAACL` after the fix, for a command with at least four words
(`access-list $NAME extended *`). -/
theorem asaACL_noPanic (tb : Tables) (orig parsed : Str) (h : 4 ≤ (fields parsed).length) :
    NoPanic (asaACL true tb orig parsed) := by
  unfold asaACL
  simp only
  split
  · rename_i t0 t1 t2 rest hf
    split
    · exact noPanic_ok _
    · split
      · exact NoPanic.bind (noPanic_aclParts tb orig _) (fun r => noPanic_ok _)
      · rw [hf] at h
        simp at h
  · rename_i hf
    exfalso
    match hfp : fields parsed, h, hf with
    | [], h, _ => simp at h
    | [_], h, _ => simp at h
    | [_, _], h, _ => simp at h
    | a :: b :: c :: r, _, hf => exact hf a b c r rfl

/-- `postprocessIOSACL` after the fix, for a sub command `[$SEQ] permit|deny|remark *`. -/
theorem iosACL_noPanic (tb : Tables) (orig parsed : Str)
    (h : ∃ t0 t1 rest, fields parsed = t0 :: t1 :: rest) :
    NoPanic (iosACL true tb orig parsed) := by
  obtain ⟨t0, t1, rest, hf⟩ := h
  unfold iosACL
  rw [hf]
  simp only
  by_cases hs : t0 = lit "$SEQ"
  · simp only [hs, if_true]
    split
    · exact noPanic_ok _
    · exact NoPanic.bind (noPanic_aclParts tb _ _) (fun r => noPanic_ok _)
  · simp only [hs, if_false]
    split
    · exact noPanic_ok _
    · exact NoPanic.bind (noPanic_aclParts tb _ _) (fun r => noPanic_ok _)

/-! ### index arithmetic of the remaining sites -/

/-- in-place compaction `l[j] = c; j++` inside `for _, c := range l`, then `l[:j]`: `j` never
overtakes the loop index. -/
theorem compact_index_ok (i j n : Nat) (hj : j ≤ i) (hi : i < n) : j < n ∧ j + 1 ≤ n := by omega

/-- an index below the checked length is in range (`len(tokens) == 5` then `tokens[4]`,
`len(ipList) == 0` excluded then `ipList[0]`). -/
theorem guarded_index_ok {α : Type} (l : List α) (k : Nat) (h : k < l.length) : (l[k]?).isSome = true := by
  simp [h]

/-- `data[i+1:]` with `i = bytes.IndexByte(data, c)`: `-1 ≤ i < len(data)`. -/
theorem slice_from_index_ok (i : Int) (n : Nat) (h1 : -1 ≤ i) (h2 : i < n) : 0 ≤ i + 1 ∧ i + 1 ≤ n := by omega

/-- `aAddr[i]` for `i` ranging over `bAddr` after `len(aAddr) != len(bAddr)` was excluded. -/
theorem eqlen_index_ok {α : Type} (a b : List α) (i : Nat) (h : a.length = b.length) (hi : i < b.length) :
    i < a.length := by omega

/-- Contract of the third-party `myers.Diff` (trusted base, DESIGN.md section 4): `Equal(ai, bi)` is
called with `ai < LenA()`, `bi < LenB()`, and every range of the script lies inside the lists.
Under that contract the slices `l[r.LowA:r.HighA]` and indices `l[ai]` are in range. -/
theorem myers_range_ok (lo hi n : Nat) (h1 : lo ≤ hi) (h2 : hi ≤ n) : lo ≤ n ∧ hi - lo ≤ n := by omega

end NA.C20
