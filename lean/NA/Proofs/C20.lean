import NA.Model.Cursor
/-!
Helper lemmas for C20: compositional `NoPanic`, and panic-freedom of the fixed token-cursor
functions of `pkg/cisco` for ALL inputs.
-/
namespace NA.C20
open Res

theorem noPanic_ok {α : Type} (a : α) : NoPanic (Res.ok a) := by intro p h; cases h
theorem noPanic_diag {α : Type} (m : Str) : NoPanic (Res.diag m : Res α) := by intro p h; cases h

theorem NoPanic.bind {α β : Type} {x : Res α} {f : α → Res β}
    (hx : NoPanic x) (hf : ∀ a, NoPanic (f a)) : NoPanic (x.bind f) := by
  intro p h
  cases x with
  | ok a => exact hf a p h
  | diag m => cases h
  | panic q => exact hx q rfl

theorem noPanic_failAt_fixed {α : Type} (p : Panic) (m : Str) : NoPanic (failAt true p m : Res α) := by
  simp [failAt]; exact noPanic_diag m

theorem PanicOnly.bind {α β : Type} {q : Panic} {x : Res α} {f : α → Res β}
    (hx : PanicOnly q x) (hf : ∀ a, PanicOnly q (f a)) : PanicOnly q (x.bind f) := by
  intro p h
  cases x with
  | ok a => exact hf a p h
  | diag m => cases h
  | panic r =>
    simp [Res.bind] at h
    subst h
    exact hx r rfl

theorem NoPanic.panicOnly {α : Type} {q : Panic} {x : Res α} (h : NoPanic x) : PanicOnly q x := by
  intro p hp; exact absurd hp (h p)

/-! ### postprocessACLParts -/

theorem noPanic_convObjectGroup (orig : Str) (s : AclSt) : NoPanic (convObjectGroup true orig s) := by
  unfold convObjectGroup
  split
  · exact noPanic_ok _
  · exact noPanic_failAt_fixed _ _

theorem noPanic_convProto (tb : Tables) (orig : Str) (s : AclSt) : NoPanic (convProto true tb orig s) := by
  unfold convProto
  split
  · exact noPanic_failAt_fixed _ _
  · split
    · exact noPanic_convObjectGroup _ _
    · split
      · split
        · exact noPanic_ok _
        · exact noPanic_failAt_fixed _ _
      · exact noPanic_ok _

theorem noPanic_convObject (tb : Tables) (orig : Str) (s : AclSt) : NoPanic (convObject true tb orig s) := by
  unfold convObject
  split
  · exact noPanic_ok _
  · split
    · exact noPanic_convObjectGroup _ _
    · split
      · split <;> exact noPanic_ok _
      · split
        · split
          · exact noPanic_ok _
          · exact noPanic_failAt_fixed _ _
        · split
          · exact noPanic_ok _
          · split
            · exact noPanic_ok _
            · split <;> exact noPanic_ok _

theorem noPanic_convPortOrObject (tb : Tables) (orig : Str) (s : AclSt) :
    NoPanic (convPortOrObject true tb orig s) := by
  unfold convPortOrObject
  split
  · exact noPanic_ok _
  · split
    · exact noPanic_ok _
    · split
      · exact noPanic_ok _
      · exact noPanic_convObject _ _ _

/-- `postprocessACLParts` after the fix: no Go panic for ANY token list and ANY name tables. -/
theorem noPanic_aclParts (tb : Tables) (orig : Str) (parts : List Str) :
    NoPanic (aclParts true tb orig parts) := by
  unfold aclParts
  refine NoPanic.bind (noPanic_convProto tb orig _) fun s1 => ?_
  refine NoPanic.bind (noPanic_convObject tb orig _) fun s2 => ?_
  refine NoPanic.bind ?_ fun s3 => ?_
  · split
    · refine NoPanic.bind (noPanic_convPortOrObject tb orig _) fun a => ?_
      refine NoPanic.bind (noPanic_convPortOrObject tb orig _) fun b => ?_
      exact noPanic_convPortOrObject tb orig _
    · split
      · exact NoPanic.bind (noPanic_convObject tb orig _) fun a => noPanic_ok _
      · exact noPanic_convObject tb orig _
  · exact NoPanic.bind (noPanic_convObject tb orig _) fun s4 => noPanic_ok _

end NA.C20
