import NA.Model.DeleteUnused
namespace NA.DelUnused

theorem mem_insertSorted (x y : Nat) (l : List Nat) : y ∈ insertSorted x l ↔ y = x ∨ y ∈ l := by
  induction l with
  | nil => simp [insertSorted]
  | cons z zs ih =>
    simp only [insertSorted]
    split
    · simp
    · simp only [List.mem_cons, ih]
      constructor
      · rintro (h | h | h) <;> simp [h]
      · rintro (h | h | h) <;> simp [h]

theorem mem_sortIds (y : Nat) (l : List Nat) : y ∈ sortIds l ↔ y ∈ l := by
  induction l with
  | nil => simp [sortIds]
  | cons z zs ih =>
    have : sortIds (z :: zs) = insertSorted z (sortIds zs) := rfl
    rw [this, mem_insertSorted, ih]; simp

/-- Everything a run of the loop deletes comes from the start set, and when it is deleted no
object still waiting in the set references it. -/
theorem rounds_sound (n : Nat) (d : List Obj) (rs : List (List Nat)) (h : rounds n d = some rs) :
    (∀ r ∈ rs, ∀ x ∈ r, ∃ o ∈ d, o.id = x) ∧
    (∀ r ∈ rs, ∀ x ∈ r, ∀ o ∈ d, x ∈ o.refs → ∃ r' ∈ rs, o.id ∈ r') := by
  induction n generalizing d rs with
  | zero =>
    cases d with
    | nil => simp [rounds] at h; subst h; simp
    | cons o d => simp [rounds] at h
  | succ n ih =>
    cases d with
    | nil => simp [rounds] at h; subst h; simp
    | cons o0 d0 =>
      simp only [rounds] at h
      split at h
      · simp at h
      · rename_i hne
        simp only [Option.map_eq_some_iff] at h
        obtain ⟨rest, hrest, rfl⟩ := h
        obtain ⟨ih1, ih2⟩ := ih _ _ hrest
        constructor
        · intro r hr x hx
          simp only [List.mem_cons] at hr
          rcases hr with rfl | hr
          · rw [mem_sortIds] at hx
            simp only [List.mem_map, List.mem_filter] at hx
            obtain ⟨o, ⟨ho, _⟩, rfl⟩ := hx
            exact ⟨o, ho, rfl⟩
          · obtain ⟨o, ho, hid⟩ := ih1 r hr x hx
            exact ⟨o, (List.mem_filter.mp ho).1, hid⟩
        · intro r hr x hx o ho hxo
          simp only [List.mem_cons] at hr
          rcases hr with rfl | hr
          · -- x is deleted in this round: nobody in the set references it
            rw [mem_sortIds] at hx
            simp only [List.mem_map, List.mem_filter] at hx
            obtain ⟨ox, ⟨_, hnr⟩, rfl⟩ := hx
            exfalso
            have : ((o0 :: d0).flatMap (·.refs)).contains ox.id = true := by
              simp only [List.contains_eq_mem, List.mem_flatMap, decide_eq_true_eq]
              exact ⟨o, ho, hxo⟩
            rw [this] at hnr
            exact absurd hnr (by decide)
          · -- x is deleted later; o either goes now or stays in the set
            by_cases hro : ((o0 :: d0).flatMap (·.refs)).contains o.id = true
            · obtain ⟨r', hr', hor'⟩ := ih2 r hr x hx o (List.mem_filter.mpr ⟨ho, hro⟩) hxo
              exact ⟨r', List.mem_cons_of_mem _ hr', hor'⟩
            · refine ⟨_, List.mem_cons_self, ?_⟩
              rw [mem_sortIds]
              simp only [List.mem_map, List.mem_filter]
              exact ⟨o, ⟨ho, by simpa using hro⟩, rfl⟩

end NA.DelUnused
