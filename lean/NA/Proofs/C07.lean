import NA.Model.DeleteUnused
/-!
Lemmas for C07 (Cisco clean-up): the deletion rounds, and the closure `still` — every entry
reachable from a command "not created by Netspoc" through not-needed commands is protected.
-/
namespace NA.DelUnused

/-! ### sorting keeps the elements -/

theorem mem_insertItem (x y : Item) (l : List Item) : y ∈ insertItem x l ↔ y = x ∨ y ∈ l := by
  induction l with
  | nil => simp [insertItem]
  | cons z zs ih =>
    simp only [insertItem]
    split
    · simp
    · simp only [List.mem_cons, ih]
      constructor
      · rintro (h | h | h) <;> simp [h]
      · rintro (h | h | h) <;> simp [h]

theorem mem_sortItems (y : Item) (l : List Item) : y ∈ sortItems l ↔ y ∈ l := by
  induction l with
  | nil => simp [sortItems]
  | cons z zs ih =>
    have : sortItems (z :: zs) = insertItem z (sortItems zs) := rfl
    rw [this, mem_insertItem, ih]; simp

/-! ### the rounds -/

/-- What a terminating run of the loop does: (1) only entries of the start set are deleted, (2) every
entry of the start set is deleted, (3) when an entry is deleted, nothing deleted in the same or a
later round references it. -/
theorem rounds_sound (n : Nat) (d : List Item) (rs : List (List Item)) (h : rounds n d = some rs) :
    (∀ r ∈ rs, ∀ x ∈ r, x ∈ d) ∧
    (∀ x ∈ d, ∃ r ∈ rs, x ∈ r) ∧
    (∀ pre r post, rs = pre ++ r :: post → ∀ x ∈ r, ∀ y ∈ (r :: post).flatten, x.id ∉ y.refs) := by
  induction n generalizing d rs with
  | zero =>
    cases d with
    | nil =>
      simp [rounds] at h; subst h
      refine ⟨by simp, by simp, ?_⟩
      intro pre r post hp; cases pre <;> simp at hp
    | cons o d => simp [rounds] at h
  | succ n ih =>
    cases d with
    | nil =>
      simp [rounds] at h; subst h
      refine ⟨by simp, by simp, ?_⟩
      intro pre r post hp; cases pre <;> simp at hp
    | cons o0 d0 =>
      simp only [rounds] at h
      split at h
      · simp at h
      · rename_i hne
        simp only [Option.map_eq_some_iff] at h
        obtain ⟨rest, hrest, rfl⟩ := h
        obtain ⟨ih1, ih2, ih3⟩ := ih _ _ hrest
        have hnow : ∀ x, x ∈ sortItems ((o0 :: d0).filter fun it => !((o0 :: d0).flatMap Item.refs).contains it.id) →
            x ∈ (o0 :: d0) ∧ x.id ∉ (o0 :: d0).flatMap Item.refs := by
          intro x hx
          rw [mem_sortItems, List.mem_filter] at hx
          exact ⟨hx.1, by simpa using hx.2⟩
        refine ⟨?_, ?_, ?_⟩
        · intro r hr x hx
          simp only [List.mem_cons] at hr
          rcases hr with rfl | hr
          · exact (hnow x hx).1
          · exact (List.mem_filter.mp (ih1 r hr x hx)).1
        · intro x hx
          by_cases hro : ((o0 :: d0).flatMap Item.refs).contains x.id = true
          · obtain ⟨r, hr, hxr⟩ := ih2 x (List.mem_filter.mpr ⟨hx, hro⟩)
            exact ⟨r, List.mem_cons_of_mem _ hr, hxr⟩
          · refine ⟨_, List.mem_cons_self, ?_⟩
            rw [mem_sortItems, List.mem_filter]
            exact ⟨hx, by simpa using hro⟩
        · intro pre r post hp x hx y hy
          cases pre with
          | nil =>
            simp only [List.nil_append, List.cons.injEq] at hp
            obtain ⟨rfl, rfl⟩ := hp
            have hyd : y ∈ (o0 :: d0) := by
              simp only [List.flatten_cons, List.mem_append, List.mem_flatten] at hy
              rcases hy with hy | ⟨r', hr', hy⟩
              · exact (hnow y hy).1
              · exact (List.mem_filter.mp (ih1 r' hr' y hy)).1
            intro hxy
            exact (hnow x hx).2 (List.mem_flatMap.mpr ⟨y, hyd, hxy⟩)
          | cons p pre' =>
            simp only [List.cons_append, List.cons.injEq] at hp
            exact ih3 pre' r post hp.2 x hx y hy

/-! ### the start set -/

theorem mem_items0 (w : World) (it : Item) (h : it ∈ items0 w) :
    ∃ o ∈ w, it.id = o.id ∧ it.tagged = o.tagged ∧ it.clear = o.clear ∧
      it.del = (o.cmds.zipIdx.filter fun p => isDel o p.1) ∧ it.del ≠ [] ∧ o.id ∉ still w := by
  simp only [items0, List.mem_filterMap] at h
  obtain ⟨o, ho, hit⟩ := h
  split at hit
  · simp at hit
  · rename_i hc
    simp only [Option.some.injEq] at hit
    subst hit
    simp only [Bool.or_eq_true, List.isEmpty_iff, List.contains_eq_mem, decide_eq_true_eq, not_or] at hc
    exact ⟨o, ho, rfl, rfl, rfl, rfl, hc.1, hc.2⟩

/-! ### the closure `still` -/

/-- The entry has a command that is not needed. -/
def Live (w : World) (r : Nat) : Prop := ∃ t, find w r = some t ∧ t.live.isEmpty = false

/-- A not-needed command of entry `i` references entry `r` (directly or in a not-needed sub-command). -/
def Edge (w : World) (i r : Nat) : Prop := ∃ o c, find w i = some o ∧ c ∈ o.live ∧ r ∈ c.followRefs

/-- `Walk w r x l`: `l` lists the entries of a reference walk from `r` to `x`, all of them live. -/
inductive Walk (w : World) : Nat → Nat → List Nat → Prop
  | single {r : Nat} : Live w r → Walk w r r [r]
  | cons {r s x : Nat} {l : List Nat} : Live w r → Edge w r s → Walk w s x l → Walk w r x (r :: l)

theorem Walk.head {w : World} {r x : Nat} {l : List Nat} (h : Walk w r x l) : ∃ t, l = r :: t := by
  cases h with
  | single _ => exact ⟨[], rfl⟩
  | cons _ _ _ => exact ⟨_, rfl⟩

theorem followFrom_head (w : World) (n : Nat) (refs : List Nat) (r : Nat) (hr : r ∈ refs) (hl : Live w r) :
    r ∈ followFrom w (n + 1) refs := by
  obtain ⟨t, ht, hlive⟩ := hl
  simp only [followFrom, List.mem_flatMap]
  exact ⟨r, hr, by simp [ht, hlive]⟩

theorem followFrom_step (w : World) (n : Nat) (refs : List Nat) (r x : Nat) (t : Obj) (hr : r ∈ refs)
    (ht : find w r = some t) (hlive : t.live.isEmpty = false)
    (hx : x ∈ followFrom w n (t.live.flatMap Cmd.followRefs)) : x ∈ followFrom w (n + 1) refs := by
  simp only [followFrom, List.mem_flatMap]
  exact ⟨r, hr, by simp [ht, hlive, hx]⟩

/-- A walk of at most `n` entries that starts at one of `refs` ends inside `followFrom w n refs`. -/
theorem walk_reaches {w : World} {r x : Nat} {l : List Nat} (h : Walk w r x l) :
    ∀ (refs : List Nat) (n : Nat), r ∈ refs → l.length ≤ n → x ∈ followFrom w n refs := by
  induction h with
  | single hl =>
    intro refs n hr hn
    cases n with
    | zero => simp at hn
    | succ n => exact followFrom_head w n refs _ hr hl
  | cons hl he _ ih =>
    intro refs n hr hn
    cases n with
    | zero => simp at hn
    | succ n =>
      obtain ⟨t, ht, hlive⟩ := hl
      obtain ⟨o, c, ho, hc, hs⟩ := he
      rw [ht] at ho
      cases ho
      have hs' : _ ∈ t.live.flatMap Cmd.followRefs := List.mem_flatMap.mpr ⟨c, hc, hs⟩
      exact followFrom_step w n refs _ _ t hr ht hlive
        (ih _ n hs' (by simp only [List.length_cons] at hn; omega))

theorem walk_suffix_aux {w : World} {r x : Nat} {l : List Nat} (h : Walk w r x l) :
    ∀ (a : List Nat) (s : Nat) (b : List Nat), l = a ++ s :: b → Walk w s x (s :: b) := by
  induction h with
  | single hl =>
    intro a s b hab
    cases a with
    | nil => simp only [List.nil_append, List.cons.injEq] at hab; obtain ⟨rfl, rfl⟩ := hab; exact Walk.single hl
    | cons a0 a => simp at hab
  | @cons r s' x l hl he h' ih =>
    intro a s b hab
    cases a with
    | nil =>
      simp only [List.nil_append, List.cons.injEq] at hab
      obtain ⟨rfl, rfl⟩ := hab
      exact Walk.cons hl he h'
    | cons a0 a =>
      simp only [List.cons_append, List.cons.injEq] at hab
      exact ih a s b hab.2

theorem walk_suffix {w : World} {x : Nat} (a : List Nat) {r s : Nat} {b : List Nat}
    (h : Walk w r x (a ++ s :: b)) : Walk w s x (s :: b) := walk_suffix_aux h a s b rfl

theorem walk_mem_live {w : World} {r x : Nat} {l : List Nat} (h : Walk w r x l) : ∀ y ∈ l, Live w y := by
  induction h with
  | single hl => intro y hy; simp at hy; subst hy; exact hl
  | cons hl _ _ ih =>
    intro y hy
    simp only [List.mem_cons] at hy
    rcases hy with rfl | hy
    · exact hl
    · exact ih y hy

/-- Cycles can be cut out of a walk. -/
theorem walk_nodup {w : World} {r x : Nat} {l : List Nat} (h : Walk w r x l) :
    ∃ l', Walk w r x l' ∧ l'.Nodup := by
  induction h with
  | single hl => exact ⟨_, Walk.single hl, by simp⟩
  | @cons r s x l hl he _ ih =>
    obtain ⟨q, hq, hnd⟩ := ih
    by_cases hr : r ∈ q
    · obtain ⟨a, b, rfl⟩ := List.append_of_mem hr
      refine ⟨r :: b, walk_suffix a hq, ?_⟩
      exact List.Nodup.sublist (List.sublist_append_right a (r :: b)) hnd
    · exact ⟨r :: q, Walk.cons hl he hq, List.nodup_cons.mpr ⟨hr, hnd⟩⟩

theorem nodup_length_le : ∀ (l m : List Nat), l.Nodup → (∀ y ∈ l, y ∈ m) → l.length ≤ m.length := by
  intro l
  induction l with
  | nil => intro m _ _; simp
  | cons a t ih =>
    intro m hnd hsub
    obtain ⟨hat, hnt⟩ := List.nodup_cons.mp hnd
    have ham : a ∈ m := hsub a List.mem_cons_self
    have h1 : t.length ≤ (m.erase a).length := by
      apply ih _ hnt
      intro y hy
      have hya : y ≠ a := fun e => hat (e ▸ hy)
      exact (List.mem_erase_of_ne hya).mpr (hsub y (List.mem_cons_of_mem _ hy))
    rw [List.length_erase_of_mem ham] at h1
    have : 0 < m.length := List.length_pos_of_mem ham
    simp only [List.length_cons]; omega

theorem live_mem_ids {w : World} {y : Nat} (h : Live w y) : y ∈ w.map (·.id) := by
  obtain ⟨t, ht, _⟩ := h
  have hm := List.mem_of_find?_eq_some ht
  have hp := List.find?_some ht
  simp only [beq_iff_eq] at hp
  exact List.mem_map.mpr ⟨t, hm, hp⟩

/-- The `|w|+1` levels the model follows are the whole closure: whatever a walk of any length
reaches from a root is in `still w`. -/
theorem still_of_walk {w : World} {r x : Nat} {l : List Nat} (hr : r ∈ roots w) (h : Walk w r x l) :
    x ∈ still w := by
  obtain ⟨q, hq, hnd⟩ := walk_nodup h
  have hlen : q.length ≤ (w.map (·.id)).length :=
    nodup_length_le q _ hnd fun y hy => live_mem_ids (walk_mem_live hq y hy)
  simp only [List.length_map] at hlen
  exact walk_reaches hq (roots w) (w.length + 1) hr (by omega)

theorem mem_roots (w : World) (o : Obj) (c : Cmd) (r : Nat) (ho : o ∈ w) (hc : c ∈ o.cmds)
    (hu : isUntouched o c = true) (hr : r ∈ c.followRefs) : r ∈ roots w := by
  simp only [roots, List.mem_flatMap, List.mem_filter]
  exact ⟨o, ho, c, ⟨hc, hu⟩, hr⟩

end NA.DelUnused
