import NA.Proofs.F2RouteSteps
import NA.Proofs.F2Resume
/-!
# F2: the route commands of the printed script are the route plan; coverage after every printed command
-/
namespace NA.F2
open NA.IosDev2
open NA.F1 (genName lookupD addSet sortS isTagged)

def evRouteOp : Ev → List MA
  | .top c => chgRouteOp c
  | .exitTop c => chgRouteOp c
  | _ => []

/-- The route table of the device changes by the route commands only. -/
theorem exec1_routes (d d' : Dev) (c : Chg) (h : exec1 d c = .ok d') : rRun d.routes (chgRouteOp c) = some d'.routes := by
  unfold exec1 at h
  cases c with
  | exit =>
    simp only at h
    split at h
    · cases h
    · injection h with h; rw [← h]; rfl
  | bad => simp at h
  | bind a dir =>
    simp only [isEntryCmd, isBindCmd, Bool.false_eq_true, ↓reduceIte] at h
    split at h
    all_goals first
      | cases h
      | (split at h
         · injection h with h; rw [← h]; rfl
         · cases h)
  | noBind a dir =>
    simp only [isEntryCmd, isBindCmd, Bool.false_eq_true, ↓reduceIte] at h
    split at h
    all_goals first
      | cases h
      | (split at h
         · injection h with h; rw [← h]; rfl
         · cases h)
  | reseq n s t =>
    simp only [isEntryCmd, isBindCmd, Bool.false_eq_true, ↓reduceIte, execTop] at h
    split at h
    · injection h with h; rw [← h]; rfl
    · cases h
  | aclMode n =>
    simp only [isEntryCmd, isBindCmd, Bool.false_eq_true, ↓reduceIte, execTop] at h
    injection h with h; rw [← h]; rfl
  | intfMode n =>
    simp only [isEntryCmd, isBindCmd, Bool.false_eq_true, ↓reduceIte, execTop] at h
    split at h
    · injection h with h; rw [← h]; rfl
    · cases h
  | route r =>
    simp only [isEntryCmd, isBindCmd, Bool.false_eq_true, ↓reduceIte, execTop] at h
    split at h
    · cases h
    · rename_i hc
      injection h with h; rw [← h]
      simp only [chgRouteOp, rRun, List.foldlM_cons, List.foldlM_nil, rStep, hc, Bool.false_eq_true, ↓reduceIte]
      rfl
  | noRoute r =>
    simp only [isEntryCmd, isBindCmd, Bool.false_eq_true, ↓reduceIte, execTop] at h
    split at h
    · rename_i hc
      injection h with h; rw [← h]
      simp only [chgRouteOp, rRun, List.foldlM_cons, List.foldlM_nil, rStep, hc, ↓reduceIte]
      rfl
    · cases h
  | replRoute o n =>
    simp only [isEntryCmd, isBindCmd, Bool.false_eq_true, ↓reduceIte, execTop] at h
    split at h
    · cases h
    · rename_i hc
      split at h
      · cases h
      · rename_i hc2
        injection h with h; rw [← h]
        simp only [chgRouteOp, rRun, List.foldlM_cons, List.foldlM_nil, rStep, hc, hc2, Bool.false_eq_true, ↓reduceIte]
        rfl
  | noAcl n =>
    simp only [isEntryCmd, isBindCmd, Bool.false_eq_true, ↓reduceIte, execTop] at h
    split at h
    · cases h
    · split at h
      · cases h
      · injection h with h; rw [← h]; rfl
  | entry l =>
    simp only [isEntryCmd, ↓reduceIte] at h
    split at h
    · split at h
      · injection h with h; rw [← h]; rfl
      · cases h
    · cases h
  | numEntry k l =>
    simp only [isEntryCmd, ↓reduceIte] at h
    split at h
    · split at h
      · injection h with h; rw [← h]; rfl
      · cases h
    · cases h
  | noNum k =>
    simp only [isEntryCmd, ↓reduceIte] at h
    split at h
    · split at h
      · injection h with h; rw [← h]; rfl
      · cases h
    · cases h
  | noEntry l =>
    simp only [isEntryCmd, ↓reduceIte] at h
    split at h
    · split at h
      · injection h with h; rw [← h]; rfl
      · cases h
    · cases h
  | move dn an l =>
    simp only [isEntryCmd, ↓reduceIte] at h
    split at h
    · split at h
      · injection h with h; rw [← h]; rfl
      · cases h
    · cases h

theorem exec_routes (cs : List Chg) (d d' : Dev) (h : exec d cs = some d') :
    rRun d.routes (cs.flatMap chgRouteOp) = some d'.routes := by
  induction cs generalizing d with
  | nil =>
    rw [exec_nil] at h
    injection h with h
    rw [h]; rfl
  | cons c cs ih =>
    rw [exec_cons] at h
    cases h1 : exec1 d c with
    | error e => rw [h1] at h; simp [toOpt] at h
    | ok d1 =>
      rw [h1] at h
      simp only [toOpt, Option.bind_some] at h
      rw [List.flatMap_cons, rRun_append, exec1_routes d d1 c h1, Option.bind_some]
      exact ih d1 h

theorem flatMap_take_prefix {α β : Type} (f : α → List β) (l : List α) (k : Nat) :
    ∃ j, (l.take k).flatMap f = (l.flatMap f).take j := by
  induction l generalizing k with
  | nil => exact ⟨0, by simp⟩
  | cons x l ih =>
    cases k with
    | zero => exact ⟨0, by simp⟩
    | succ k =>
      obtain ⟨j, hj⟩ := ih k
      refine ⟨(f x).length + j, ?_⟩
      simp only [List.take_succ_cons, List.flatMap_cons, hj]
      rw [List.take_length_add_append]

/-! ## The route commands of the rendered script -/

theorem renderEv_routeOps (m : Option Mode) (ev : Ev) (hwf : wfEv ev = true) :
    (renderEv m ev).1.flatMap chgRouteOp = evRouteOp ev := by
  cases ev with
  | top c => simp [renderEv, evRouteOp]
  | openAcl n => simp [renderEv, evRouteOp, chgRouteOp]
  | reset => simp [renderEv, evRouteOp]
  | exitTop c =>
    simp only [renderEv, evRouteOp]
    cases m <;> simp [chgRouteOp]
  | sub p c =>
    have hc : chgRouteOp c = [] := by
      cases p with
      | acl n =>
        simp only [wfEv] at hwf
        cases c <;> simp [isEntryCmd] at hwf <;> rfl
      | intf i =>
        simp only [wfEv] at hwf
        cases c <;> simp [isBindCmd] at hwf <;> rfl
    have hp : chgRouteOp p.line = [] := by cases p <;> rfl
    simp only [renderEv, evRouteOp]
    split
    · simp [hc]
    · cases m
      · simp only [Option.isSome_none, Bool.false_eq_true, ↓reduceIte, List.nil_append, List.flatMap_cons, List.flatMap_nil,
          hc, hp, List.append_nil]
      · simp only [Option.isSome_some, ↓reduceIte, List.cons_append, List.nil_append, List.flatMap_cons, List.flatMap_nil,
          hc, hp, List.append_nil]
        rfl

theorem render_routeOps (evs : List Ev) (m : Option Mode) (hwf : ∀ e ∈ evs, wfEv e = true) :
    (render m evs).flatMap chgRouteOp = evs.flatMap evRouteOp := by
  induction evs generalizing m with
  | nil => rfl
  | cons e es ih =>
    simp only [render, List.flatMap_append, List.flatMap_cons]
    rw [renderEv_routeOps m e (hwf e (List.mem_cons_self ..)), ih _ (fun e' he' => hwf e' (List.mem_cons_of_mem _ he'))]

theorem expand_routeOps (act : MA) : (expand act).flatMap evRouteOp = if isRouteAct act then [act] else [] := by
  cases act with
  | transfer n ls =>
    simp only [expand, List.flatMap_cons, evRouteOp, List.nil_append, isRouteAct, Bool.false_eq_true, ↓reduceIte]
    rw [List.flatMap_eq_nil_iff]
    intro ev hev
    obtain ⟨l, _, rfl⟩ := List.mem_map.mp hev
    rfl
  | edit aN al bl rs =>
    simp only [isRouteAct, Bool.false_eq_true, ↓reduceIte, expand]
    rw [List.flatMap_eq_nil_iff]
    intro ev hev
    unfold editEvents at hev
    simp only at hev
    split at hev
    · obtain ⟨l, _, rfl⟩ := List.mem_map.mp hev; rfl
    · split at hev
      · simp only [List.mem_singleton] at hev; rw [hev]; rfl
      · split at hev
        · rcases List.mem_append.mp hev with k | k
          · obtain ⟨l, _, rfl⟩ := List.mem_map.mp k; rfl
          · obtain ⟨l, _, rfl⟩ := List.mem_map.mp k; rfl
        · split at hev
          · simp only [List.mem_singleton] at hev; rw [hev]; rfl
          · rcases List.mem_append.mp hev with k | k
            · rcases List.mem_append.mp k with k | k
              · simp only [List.mem_singleton] at k; rw [k]; rfl
              · obtain ⟨op, _, rfl⟩ := List.mem_map.mp k
                cases op <;> rfl
            · simp only [List.mem_singleton] at k; rw [k]; rfl
  | bind i a d => rfl
  | unbind i a d => rfl
  | route r => rfl
  | replRoute o n => rfl
  | noRoute r => rfl
  | cleanup ns =>
    cases ns with
    | nil => rfl
    | cons n ns =>
      simp only [expand, List.flatMap_cons, evRouteOp, chgRouteOp, List.nil_append, isRouteAct, Bool.false_eq_true, ↓reduceIte]
      rw [List.flatMap_eq_nil_iff]
      intro ev hev
      obtain ⟨l, _, rfl⟩ := List.mem_map.mp hev
      rfl

theorem acts_routeOps (acts : List MA) : (acts.flatMap expand).flatMap evRouteOp = acts.filter isRouteAct := by
  induction acts with
  | nil => rfl
  | cons a acts ih =>
    simp only [List.flatMap_cons, List.flatMap_append, ih, expand_routeOps, List.filter_cons]
    split <;> rfl

theorem script_routeOps (acts : List MA) : (scriptOf acts).flatMap chgRouteOp = acts.filter isRouteAct := by
  unfold scriptOf
  rw [render_routeOps _ none (acts_wf acts), acts_routeOps]

/-- The route commands of the script of the engine, in order, are the route plan. -/
theorem engine_routeOps (a0 b : Config) (sc : Scripts) (hw : WF a0 b sc) (hok : (engine a0 b sc).ok = true) :
    (engine a0 b sc).script.flatMap chgRouteOp = (routePlan (sortRoutes (aOf a0 b).routes) (sortRoutes b.routes)).1 := by
  obtain ⟨d1, σ1, π1, d3, p, hc⟩ := F2_core a0 b sc hw hok (ofConfig a0) (reads_ofConfig a0)
  obtain ⟨hninv, _⟩ := ninv_st3 hw hc
  obtain ⟨_, hacts, hscript⟩ := engine_unfold a0 b sc hok
  rw [hscript, script_routeOps, hacts]
  have hst4 : (diffRoutes (st3Of a0 b sc) (sortRoutes (aOf a0 b).routes) (sortRoutes b.routes)).acts =
      (st3Of a0 b sc).acts ++ (routePlan (sortRoutes (aOf a0 b).routes) (sortRoutes b.routes)).1 := rfl
  have hfilter : ((st3Of a0 b sc).acts ++ (routePlan (sortRoutes (aOf a0 b).routes) (sortRoutes b.routes)).1).filter isRouteAct =
      (routePlan (sortRoutes (aOf a0 b).routes) (sortRoutes b.routes)).1 := by
    rw [List.filter_append]
    have h1 : (st3Of a0 b sc).acts.filter isRouteAct = [] := by
      rw [List.filter_eq_nil_iff]
      intro a ha hc'
      rw [hninv.noRoute a ha] at hc'; cases hc'
    have h2 : (routePlan (sortRoutes (aOf a0 b).routes) (sortRoutes b.routes)).1.filter isRouteAct =
        (routePlan (sortRoutes (aOf a0 b).routes) (sortRoutes b.routes)).1 :=
      List.filter_eq_self.mpr (routePlan_isRoute _ _)
    rw [h1, h2, List.nil_append]
  show ((deleteUnused (envOf a0 b sc) (diffRoutes (st3Of a0 b sc) (sortRoutes (aOf a0 b).routes) (sortRoutes b.routes))).acts).filter
    isRouteAct = _
  unfold deleteUnused
  obtain ⟨⟨pp, sr⟩, hdp⟩ : ∃ r, duPending (envOf a0 b sc) (diffRoutes (st3Of a0 b sc) (sortRoutes (aOf a0 b).routes) (sortRoutes b.routes)) = r := ⟨_, rfl⟩
  rw [hdp]
  simp only
  have hacts4 : ∀ s4 : St, (if sr = true then s4.hit "du:still-referenced" else s4).acts = s4.acts := by
    intro s4; split <;> rfl
  by_cases hpe : pp.isEmpty = true
  · simp only [hpe, ↓reduceIte]
    rw [hacts4, hst4, hfilter]
  · simp only [hpe, Bool.false_eq_true, ↓reduceIte]
    show (((if sr = true then _ else _) : St).acts ++ [MA.cleanup pp]).filter isRouteAct = _
    rw [hacts4, hst4, List.filter_append, hfilter]
    simp [isRouteAct]

/-- The static hypotheses of the route phase, from `WF`. -/
theorem routesWF_of_WF {a0 b : Config} {sc : Scripts} (hw : WF a0 b sc) :
    RoutesWF (sortRoutes (aOf a0 b).routes) (sortRoutes b.routes) (a0.routes.map (·.text)) := by
  obtain ⟨_, _, _, _, ⟨pR, hpR⟩⟩ := alignVRFs_spec a0 b {} ⟨rfl, rfl, rfl, rfl, rfl, rfl⟩
  have hpR' : (aOf a0 b).routes = a0.routes.filter pR := hpR
  have hpa := perm_sortRoutes (aOf a0 b).routes
  have hpb := perm_sortRoutes b.routes
  refine ⟨?_, ?_, ?_, ?_⟩
  · rw [(hpa.map _).nodup_iff, hpR']; exact nodup_filter_map _ _ _ hw.aRoutes
  · rw [(hpb.map _).nodup_iff]; exact hw.bRoutes
  · intro r hr
    have := hpa.mem_iff.mp hr
    rw [hpR'] at this
    exact List.mem_map_of_mem (List.mem_filter.mp this).1
  · intro r hr hrR
    have hrb := hpb.mem_iff.mp hr
    obtain ⟨r0, hr0, hr0t⟩ := List.mem_map.mp hrR
    have hvrf : r0.vrf = r.vrf := hw.routeVrf r0 hr0 r hrb hr0t
    have hr0a' : r0 ∈ (aOf a0 b).routes := by
      unfold aOf alignVRFs
      simp only
      split
      · exact hr0
      · exact List.mem_filter.mpr ⟨hr0, by
          have : r0.vrf ∈ b.routes.map (·.vrf) := by rw [hvrf]; exact List.mem_map_of_mem hrb
          simp [this]⟩
    rw [← hr0t]
    exact (hpa.map _).mem_iff.mpr (List.mem_map_of_mem hr0a')

/-- **Coverage after every printed command** of the whole script (a joined replacement is one
command): every destination that has a route on the device before and after the script has one after
each command. -/
theorem script_routes_covered (a0 b : Config) (sc : Scripts) (hw : WF a0 b sc) (hok : (engine a0 b sc).ok = true)
    (keyOf : String → String × String) (hkey : ∀ r ∈ a0.routes ++ b.routes, keyOf r.text = r.key) :
    ∃ dfin, exec (ofConfig a0) (engine a0 b sc).script = some dfin ∧
      ∀ k, ∃ dk, exec (ofConfig a0) ((engine a0 b sc).script.take k) = some dk ∧
        ∀ t0 ∈ a0.routes.map (·.text), (∃ t ∈ dfin.routes, keyOf t = keyOf t0) → ∃ t ∈ dk.routes, keyOf t = keyOf t0 := by
  obtain ⟨dstrip, hfull, _⟩ := F2_end_to_end a0 b sc hw hok
  obtain ⟨dfin, hfin⟩ : ∃ x, exec (ofConfig a0) (engine a0 b sc).script = some x := by
    cases h : exec (ofConfig a0) (engine a0 b sc).script with
    | none => rw [h] at hfull; cases hfull
    | some x => exact ⟨x, rfl⟩
  have hrwf := routesWF_of_WF hw
  have hkey' : ∀ r ∈ sortRoutes (aOf a0 b).routes ++ sortRoutes b.routes, keyOf r.text = r.key := by
    intro r hr
    apply hkey
    rcases List.mem_append.mp hr with k | k
    · have := (perm_sortRoutes _).mem_iff.mp k
      obtain ⟨_, _, _, _, ⟨pR, hpR⟩⟩ := alignVRFs_spec a0 b {} ⟨rfl, rfl, rfl, rfl, rfl, rfl⟩
      have hpR' : (aOf a0 b).routes = a0.routes.filter pR := hpR
      rw [hpR'] at this
      exact List.mem_append_left _ (List.mem_filter.mp this).1
    · exact List.mem_append_right _ ((perm_sortRoutes _).mem_iff.mp k)
  obtain ⟨R', pa, pb, _, hrunR, _, _, _, hsteps⟩ := routes_covered_every_step _ _ _ keyOf hrwf hkey'
  have hops := engine_routeOps a0 b sc hw hok
  -- the final route table
  have hfinR : dfin.routes = R' := by
    have := exec_routes _ _ _ hfin
    rw [hops] at this
    have h0 : (ofConfig a0).routes = a0.routes.map (·.text) := rfl
    rw [h0, hrunR] at this
    exact (Option.some.inj this).symm
  refine ⟨dfin, hfin, ?_⟩
  intro k
  obtain ⟨dk, hdk⟩ := exec_take _ _ _ hfin k
  refine ⟨dk, hdk, ?_⟩
  obtain ⟨j, hj⟩ := flatMap_take_prefix chgRouteOp (engine a0 b sc).script k
  obtain ⟨Rj, hRj, hcov⟩ := hsteps j
  have hdkR : dk.routes = Rj := by
    have := exec_routes _ _ _ hdk
    rw [hj, hops] at this
    have h0 : (ofConfig a0).routes = a0.routes.map (·.text) := rfl
    rw [h0, hRj] at this
    exact (Option.some.inj this).symm
  rw [hdkR, hfinR]
  exact hcov

end NA.F2
