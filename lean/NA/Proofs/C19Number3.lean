import NA.Proofs.C19Number2
/-! # C19 — numbering: the transfer function is sound for every command (one lemma per command) -/
set_option linter.unusedVariables false
set_option linter.unnecessarySimpa false
namespace NA.C19
variable {a x : F2} {g : G} {p : Proc} {pc : Nat} {t : Bool}

theorem quiet_exec {c : Cmd} (hq : quiet (exec c g p).1) : quiet g :=
  ⟨fr_trouble c g p hq.1, fr_edited c g p hq.2⟩

theorem nextTree_eq {h : Nat} (hh : g.nextHead = some h) : g.nextTree = some (commitAt g.store h) := by
  simp [G.nextTree, hh]

@[simp] theorem exec_tpf_fst : (exec .testPolicyFile g p).1 = g := by simp only [exec]; split <;> rfl
@[simp] theorem exec_tpf_snd : (exec .testPolicyFile g p).2.1 = p := by simp only [exec]; split <;> rfl

theorem tpf_ok {h : Nat} (hh : g.nextHead = some h) :
    (exec .testPolicyFile g p).2.2 = (polOf g h).isSome := by
  simp [exec, nextTree_eq hh, polOf]

theorem pull_base (hq : (exec .gitPullMerge g p).1.trouble = false) (h2 : polOf g p.base = polOf g g.remote) :
    polOf (exec .gitPullMerge g p).1 (exec .gitPullMerge g p).2.1.base =
      polOf (exec .gitPullMerge g p).1 (exec .gitPullMerge g p).1.remote := by
  revert hq
  simp only [exec]
  (repeat' split) <;> simp_all [polOf]

theorem hl_of (c : Cmd) : g.lock = some p.pid → (exec c g p).1.lock = some (upd (exec c g p).2.1 pc t).pid := by
  intro h; simp [exec_pid]; exact exec_lock_own h

theorem own2_flock (hΓ : Γ2 a g p) (hN : N g) (hvg : VG g) (hvp : VP g p) (hq : quiet (exec (.flockNB) g p).1)
    (htf : tf2 (.flockNB) a (exec (.flockNB) g p).2.2 = some x) : Γ2 x (exec (.flockNB) g p).1 (upd (exec (.flockNB) g p).2.1 pc t) := by
  have hK := keep_all (.flockNB) (pc := pc) (t := t) hΓ hvg hvp
  have hl := hl_of (.flockNB) (g := g) (p := p) (pc := pc) (t := t)
  cases hok : (exec Cmd.flockNB g p).2.2 <;> simp [tf2, hok] at htf <;> subst htf
  · auto2 hK
  · auto2 hK
    simp [exec_pid]; exact flock_ok hok

theorem own2_clone (hΓ : Γ2 a g p) (hN : N g) (hvg : VG g) (hvp : VP g p) (hq : quiet (exec (.gitClone) g p).1)
    (htf : tf2 (.gitClone) a (exec (.gitClone) g p).2.2 = some x) : Γ2 x (exec (.gitClone) g p).1 (upd (exec (.gitClone) g p).2.1 pc t) := by
  have hK := keep_all (.gitClone) (pc := pc) (t := t) hΓ hvg hvp
  have hl := hl_of (.gitClone) (g := g) (p := p) (pc := pc) (t := t)
  simp [tf2] at htf; subst htf
  obtain ⟨f1, f2, f3, f4⟩ := clone_form hq.1
  auto2 hK
  · rename_i hf
    refine ⟨hl (hΓ.holds (by simpa using hf)), g.remote, f1, ?_⟩
    rw [f2]
  · rename_i hf
    refine ⟨hl (hΓ.holds (by simpa using hf)), ?_⟩
    show polOf _ (exec Cmd.gitClone g p).2.1.base = _
    rw [f3, f2]

theorem own2_tpf (hΓ : Γ2 a g p) (hN : N g) (hvg : VG g) (hvp : VP g p) (hq : quiet (exec (.testPolicyFile) g p).1)
    (htf : tf2 (.testPolicyFile) a (exec (.testPolicyFile) g p).2.2 = some x) : Γ2 x (exec (.testPolicyFile) g p).1 (upd (exec (.testPolicyFile) g p).2.1 pc t) := by
  have hK := keep_all (.testPolicyFile) (pc := pc) (t := t) hΓ hvg hvp
  have hl := hl_of (.testPolicyFile) (g := g) (p := p) (pc := pc) (t := t)
  cases hok : (exec Cmd.testPolicyFile g p).2.2 <;> simp [tf2, hok] at htf <;> subst htf
  · auto2 hK
    rename_i hf
    simp at hf
    obtain ⟨hL, h, hh, he⟩ := hΓ.hEqR hf
    refine ⟨hl hL, ?_⟩
    simp only [exec_tpf_fst, exec_tpf_snd]
    right
    rw [tpf_ok hh] at hok
    have : polOf g g.remote = none := by rw [← he]; simpa using hok
    simp [Rg, this]
  · auto2 hK
    rename_i hf
    simp at hf
    obtain ⟨hL, h, hh, he⟩ := hΓ.hEqR hf
    refine ⟨hl hL, ?_⟩
    simp only [exec_tpf_fst]
    rw [tpf_ok hh] at hok
    obtain ⟨r, hr⟩ := Option.isSome_iff_exists.mp hok
    exact ⟨h, r, hh, hr, by simp [Rg, ← he, hr]⟩

theorem own2_rpf (hΓ : Γ2 a g p) (hN : N g) (hvg : VG g) (hvp : VP g p) (hq : quiet (exec (.readPolicyFile) g p).1)
    (htf : tf2 (.readPolicyFile) a (exec (.readPolicyFile) g p).2.2 = some x) : Γ2 x (exec (.readPolicyFile) g p).1 (upd (exec (.readPolicyFile) g p).2.1 pc t) := by
  have hK := keep_all (.readPolicyFile) (pc := pc) (t := t) hΓ hvg hvp
  have hl := hl_of (.readPolicyFile) (g := g) (p := p) (pc := pc) (t := t)
  simp [tf2] at htf; subst htf
  auto2 hK
  · rename_i hf
    simp at hf
    obtain ⟨hL, h, r, hh, hr, hle⟩ := hΓ.pfP hf
    refine ⟨hl hL, Or.inl ⟨r, ?_, ?_⟩⟩
    · simp [exec, nextTree_eq hh]; exact hr
    · simpa [exec, Rg, polOf] using hle
  · rename_i hf
    simp at hf
    obtain ⟨hL, h, r, hh, hr, hle⟩ := hΓ.pfP hf
    refine ⟨hl hL, r, ?_, ?_⟩
    · simp [exec, nextTree_eq hh]; exact hr
    · simpa [exec, Rg, polOf] using hle

theorem own2_testFc (hΓ : Γ2 a g p) (hN : N g) (hvg : VG g) (hvp : VP g p) (hq : quiet (exec (.testReg .fcount) g p).1)
    (htf : tf2 (.testReg .fcount) a (exec (.testReg .fcount) g p).2.2 = some x) : Γ2 x (exec (.testReg .fcount) g p).1 (upd (exec (.testReg .fcount) g p).2.1 pc t) := by
  have hK := keep_all (.testReg .fcount) (pc := pc) (t := t) hΓ hvg hvp
  have hl := hl_of (.testReg .fcount) (g := g) (p := p) (pc := pc) (t := t)
  cases hok : (exec (Cmd.testReg Reg.fcount) g p).2.2 <;> simp [tf2, hok] at htf <;> subst htf
  · auto2 hK
    rename_i hf
    simp at hf
    obtain ⟨hL, he⟩ := hΓ.fcOk hf
    refine ⟨hl hL, ?_⟩
    simp [exec, Proc.reg] at hok
    rcases he with ⟨f, hf1, _⟩ | he
    · simp [hf1] at hok
    · simpa [exec, Rg, polOf] using he
  · auto2 hK
    rename_i hf
    simp at hf
    simp [exec, Proc.reg] at hok
    obtain ⟨f, hf1⟩ := Option.isSome_iff_exists.mp hok
    rcases hf with hf | hf
    · obtain ⟨hL, he⟩ := hΓ.fcGe hf
      exact ⟨hl hL, by simpa [exec, Rg, polOf] using he⟩
    · obtain ⟨hL, he⟩ := hΓ.fcOk hf
      refine ⟨hl hL, ?_⟩
      rcases he with he | he
      · simpa [exec, Rg, polOf] using he
      · refine ⟨f, by simpa [exec] using hf1, ?_⟩
        simp [exec, Rg, polOf] at he ⊢; omega

theorem own2_testLc (hΓ : Γ2 a g p) (hN : N g) (hvg : VG g) (hvp : VP g p) (hq : quiet (exec (.testReg .lcount) g p).1)
    (htf : tf2 (.testReg .lcount) a (exec (.testReg .lcount) g p).2.2 = some x) : Γ2 x (exec (.testReg .lcount) g p).1 (upd (exec (.testReg .lcount) g p).2.1 pc t) := by
  have hK := keep_all (.testReg .lcount) (pc := pc) (t := t) hΓ hvg hvp
  have hl := hl_of (.testReg .lcount) (g := g) (p := p) (pc := pc) (t := t)
  cases hok : (exec (Cmd.testReg Reg.lcount) g p).2.2 <;> simp [tf2, hok] at htf <;> subst htf
  · auto2 hK
    rename_i hf
    simp at hf
    obtain ⟨hL, he⟩ := hΓ.lcOk hf
    refine ⟨hl hL, ?_⟩
    simp [exec, Proc.reg] at hok
    rcases he with ⟨f, hf1, _⟩ | he
    · simp [hf1] at hok
    · simpa [exec, Lk] using he
  · auto2 hK
    rename_i hf
    simp at hf
    simp [exec, Proc.reg] at hok
    obtain ⟨f, hf1⟩ := Option.isSome_iff_exists.mp hok
    rcases hf with hf | hf
    · obtain ⟨hL, he⟩ := hΓ.lcGe hf
      exact ⟨hl hL, by simpa [exec, Lk] using he⟩
    · obtain ⟨hL, he⟩ := hΓ.lcOk hf
      refine ⟨hl hL, ?_⟩
      rcases he with he | he
      · simpa [exec, Lk] using he
      · refine ⟨f, by simpa [exec] using hf1, ?_⟩
        simp [exec, Lk] at he ⊢; omega

theorem own2_setFc {n : Nat} (hΓ : Γ2 a g p) (hN : N g) (hvg : VG g) (hvp : VP g p) (hq : quiet (exec (.setReg .fcount n) g p).1)
    (htf : tf2 (.setReg .fcount n) a (exec (.setReg .fcount n) g p).2.2 = some x) : Γ2 x (exec (.setReg .fcount n) g p).1 (upd (exec (.setReg .fcount n) g p).2.1 pc t) := by
  have hK := keep_all (.setReg .fcount n) (pc := pc) (t := t) hΓ hvg hvp
  have hl := hl_of (.setReg .fcount n) (g := g) (p := p) (pc := pc) (t := t)
  simp [tf2] at htf; subst htf
  auto2 hK
  · rename_i hf
    simp at hf
    obtain ⟨hL, he⟩ := hΓ.rZero hf
    exact ⟨hl hL, Or.inr (by simpa [exec, Rg, polOf, Proc.setReg] using he)⟩
  · rename_i hf
    simp at hf
    obtain ⟨hL, he⟩ := hΓ.rZero hf
    refine ⟨hl hL, n, by simp [exec, Proc.setReg], ?_⟩
    simp [exec, Rg, polOf, Proc.setReg] at he ⊢; omega

theorem own2_setLc {n : Nat} (hΓ : Γ2 a g p) (hN : N g) (hvg : VG g) (hvp : VP g p) (hq : quiet (exec (.setReg .lcount n) g p).1)
    (htf : tf2 (.setReg .lcount n) a (exec (.setReg .lcount n) g p).2.2 = some x) : Γ2 x (exec (.setReg .lcount n) g p).1 (upd (exec (.setReg .lcount n) g p).2.1 pc t) := by
  have hK := keep_all (.setReg .lcount n) (pc := pc) (t := t) hΓ hvg hvp
  have hl := hl_of (.setReg .lcount n) (g := g) (p := p) (pc := pc) (t := t)
  simp [tf2] at htf; subst htf
  auto2 hK
  · rename_i hf
    simp at hf
    obtain ⟨hL, he⟩ := hΓ.lkZero hf
    exact ⟨hl hL, Or.inr (by simpa [exec, Lk, Proc.setReg] using he)⟩
  · rename_i hf
    simp at hf
    obtain ⟨hL, he⟩ := hΓ.lkZero hf
    refine ⟨hl hL, n, by simp [exec, Proc.setReg], ?_⟩
    simp [exec, Lk, Proc.setReg] at he ⊢; omega

theorem own2_setCnt {n : Nat} (hΓ : Γ2 a g p) (hN : N g) (hvg : VG g) (hvp : VP g p) (hq : quiet (exec (.setReg .count n) g p).1)
    (htf : tf2 (.setReg .count n) a (exec (.setReg .count n) g p).2.2 = some x) : Γ2 x (exec (.setReg .count n) g p).1 (upd (exec (.setReg .count n) g p).2.1 pc t) := by
  have hK := keep_all (.setReg .count n) (pc := pc) (t := t) hΓ hvg hvp
  have hl := hl_of (.setReg .count n) (g := g) (p := p) (pc := pc) (t := t)
  simp [tf2] at htf; subst htf
  auto2 hK

theorem own2_readLink (hΓ : Γ2 a g p) (hN : N g) (hvg : VG g) (hvp : VP g p) (hq : quiet (exec (.readLink) g p).1)
    (htf : tf2 (.readLink) a (exec (.readLink) g p).2.2 = some x) : Γ2 x (exec (.readLink) g p).1 (upd (exec (.readLink) g p).2.1 pc t) := by
  have hK := keep_all (.readLink) (pc := pc) (t := t) hΓ hvg hvp
  have hl := hl_of (.readLink) (g := g) (p := p) (pc := pc) (t := t)
  simp [tf2] at htf; subst htf
  auto2 hK
  · rename_i hf
    simp at hf
    exact ⟨hl (hΓ.holds hf), by simp [exec]⟩
  · rename_i hf
    simp [exec] at hf ⊢
    exact hf

theorem own2_testPrev (hΓ : Γ2 a g p) (hN : N g) (hvg : VG g) (hvp : VP g p) (hq : quiet (exec (.testPrev) g p).1)
    (htf : tf2 (.testPrev) a (exec (.testPrev) g p).2.2 = some x) : Γ2 x (exec (.testPrev) g p).1 (upd (exec (.testPrev) g p).2.1 pc t) := by
  have hK := keep_all (.testPrev) (pc := pc) (t := t) hΓ hvg hvp
  have hl := hl_of (.testPrev) (g := g) (p := p) (pc := pc) (t := t)
  cases hok : (exec Cmd.testPrev g p).2.2 <;> simp [tf2, hok] at htf <;> subst htf
  · auto2 hK
    rename_i hf
    simp at hf
    rcases hf with hf | hf
    · exact hK.lcOk (by simpa [F2.kept, Cmd.wLcount, Cmd.wCurrent] using hf)
    · obtain ⟨hL, he⟩ := hΓ.prevEq hf
      refine ⟨hl hL, Or.inr ?_⟩
      simp [exec] at hok
      simp [exec, Lk, ← he, hok]
  · auto2 hK
    simpa [exec] using hok

theorem own2_linkCount (hΓ : Γ2 a g p) (hN : N g) (hvg : VG g) (hvp : VP g p) (hq : quiet (exec (.linkCount) g p).1)
    (htf : tf2 (.linkCount) a (exec (.linkCount) g p).2.2 = some x) : Γ2 x (exec (.linkCount) g p).1 (upd (exec (.linkCount) g p).2.1 pc t) := by
  have hK := keep_all (.linkCount) (pc := pc) (t := t) hΓ hvg hvp
  have hl := hl_of (.linkCount) (g := g) (p := p) (pc := pc) (t := t)
  simp [tf2] at htf; subst htf
  auto2 hK
  all_goals
    rename_i hf
    simp at hf
    obtain ⟨hL, he⟩ := hΓ.prevEq hf.1
    obtain ⟨k, hk⟩ := Option.isSome_iff_exists.mp (hΓ.prevSome hf.2)
    have hcur : g.current = some k := by rw [← he, hk]
    refine ⟨hl hL, ?_⟩
    first
    | exact Or.inl ⟨k, by simp [exec, hk], by simp [exec, Lk, hcur]⟩
    | exact ⟨k, by simp [exec, hk], by simp [exec, Lk, hcur]⟩

theorem own2_countPick {m : Bool} (hΓ : Γ2 a g p) (hN : N g) (hvg : VG g) (hvp : VP g p) (hq : quiet (exec (.countPick m) g p).1)
    (htf : tf2 (.countPick m) a (exec (.countPick m) g p).2.2 = some x) : Γ2 x (exec (.countPick m) g p).1 (upd (exec (.countPick m) g p).2.1 pc t) := by
  have hK := keep_all (.countPick m) (pc := pc) (t := t) hΓ hvg hvp
  have hl := hl_of (.countPick m) (g := g) (p := p) (pc := pc) (t := t)
  simp [tf2] at htf; subst htf
  auto2 hK
  rename_i hf
  simp at hf
  obtain ⟨⟨hm, hf1⟩, hf2⟩ := hf
  subst hm
  obtain ⟨hL, f, hfc, hfr⟩ := hΓ.fcGe hf1
  obtain ⟨_, l, hlc, hlr⟩ := hΓ.lcGe hf2
  refine ⟨hl hL, if f > l then f else l, ?_, ?_, ?_⟩
  · simp [exec, pickCount, hfc, hlc]; split <;> rfl
  · simp [exec, Rg, polOf] at hfr ⊢; split <;> omega
  · simp [exec, Lk] at hlr ⊢; split <;> omega

theorem own2_countAdd {n : Nat} (hΓ : Γ2 a g p) (hN : N g) (hvg : VG g) (hvp : VP g p) (hq : quiet (exec (.countAdd n) g p).1)
    (htf : tf2 (.countAdd n) a (exec (.countAdd n) g p).2.2 = some x) : Γ2 x (exec (.countAdd n) g p).1 (upd (exec (.countAdd n) g p).2.1 pc t) := by
  have hK := keep_all (.countAdd n) (pc := pc) (t := t) hΓ hvg hvp
  have hl := hl_of (.countAdd n) (g := g) (p := p) (pc := pc) (t := t)
  simp [tf2] at htf; subst htf
  auto2 hK
  · rename_i hf
    simp at hf
    obtain ⟨hL, c, hc, h1, h2⟩ := hΓ.cntGe hf
    refine ⟨hl hL, c + n, by simp [exec, hc], ?_, ?_⟩
    · simp [exec, Rg, polOf] at h1 ⊢; omega
    · simp [exec, Lk] at h2 ⊢; omega
  · rename_i hf
    simp at hf
    obtain ⟨hL, c, hc, h1, h2⟩ := hΓ.cntGe hf.1
    have hn := hf.2
    refine ⟨hl hL, c + n, by simp [exec, hc], ?_, ?_⟩
    · simp [exec, Rg, polOf] at h1 ⊢; omega
    · simp [exec, Lk] at h2 ⊢; omega

theorem own2_policyFromCount (hΓ : Γ2 a g p) (hN : N g) (hvg : VG g) (hvp : VP g p) (hq : quiet (exec (.policyFromCount) g p).1)
    (htf : tf2 (.policyFromCount) a (exec (.policyFromCount) g p).2.2 = some x) : Γ2 x (exec (.policyFromCount) g p).1 (upd (exec (.policyFromCount) g p).2.1 pc t) := by
  have hK := keep_all (.policyFromCount) (pc := pc) (t := t) hΓ hvg hvp
  have hl := hl_of (.policyFromCount) (g := g) (p := p) (pc := pc) (t := t)
  simp [tf2] at htf; subst htf
  auto2 hK
  · rename_i hf
    simp at hf
    obtain ⟨hL, c, hc, h1, h2⟩ := hΓ.cntGt hf
    refine ⟨hl hL, ?_, ?_⟩
    · simp [exec, Rg, polOf, hc] at h1 ⊢; exact h1
    · simp [exec, Lk, hc] at h2 ⊢; exact h2
  all_goals
    rename_i hf
    simp at hf
    obtain ⟨hL, c, hc, h1, h2⟩ := hΓ.cntGt hf
    refine ⟨hl hL, ?_⟩
    intro h hh
    simp [exec, hc] at hh ⊢
    have := hN.bound h hh
    have hmax : max (Rg g) (Lk g) < c := by
      rcases Nat.le_total (Rg g) (Lk g) with hle | hle
      · rw [Nat.max_eq_right hle]; exact h2
      · rw [Nat.max_eq_left hle]; exact h1
    omega

theorem own2_writePolicyFile (hΓ : Γ2 a g p) (hN : N g) (hvg : VG g) (hvp : VP g p) (hq : quiet (exec (.writePolicyFile) g p).1)
    (htf : tf2 (.writePolicyFile) a (exec (.writePolicyFile) g p).2.2 = some x) : Γ2 x (exec (.writePolicyFile) g p).1 (upd (exec (.writePolicyFile) g p).2.1 pc t) := by
  have hK := keep_all (.writePolicyFile) (pc := pc) (t := t) hΓ hvg hvp
  have hl := hl_of (.writePolicyFile) (g := g) (p := p) (pc := pc) (t := t)
  simp [tf2] at htf; subst htf
  auto2 hK
  · simp [exec]
  · rename_i hf
    simp at hf
    simpa [exec] using hΓ.sOk hf

theorem own2_gitAdd (hΓ : Γ2 a g p) (hN : N g) (hvg : VG g) (hvp : VP g p) (hq : quiet (exec (.gitAdd) g p).1)
    (htf : tf2 (.gitAdd) a (exec (.gitAdd) g p).2.2 = some x) : Γ2 x (exec (.gitAdd) g p).1 (upd (exec (.gitAdd) g p).2.1 pc t) := by
  have hK := keep_all (.gitAdd) (pc := pc) (t := t) hΓ hvg hvp
  have hl := hl_of (.gitAdd) (g := g) (p := p) (pc := pc) (t := t)
  simp [tf2] at htf; subst htf
  auto2 hK
  · rename_i hf
    simp at hf
    simpa [exec] using hΓ.wOk hf
  · rename_i hf
    simp at hf
    simpa [exec] using hΓ.wOk hf

theorem own2_commit (hΓ : Γ2 a g p) (hN : N g) (hvg : VG g) (hvp : VP g p) (hq : quiet (exec (.gitCommitPolicy) g p).1)
    (htf : tf2 (.gitCommitPolicy) a (exec (.gitCommitPolicy) g p).2.2 = some x) : Γ2 x (exec (.gitCommitPolicy) g p).1 (upd (exec (.gitCommitPolicy) g p).2.1 pc t) := by
  have hK := keep_all (.gitCommitPolicy) (pc := pc) (t := t) hΓ hvg hvp
  have hl := hl_of (.gitCommitPolicy) (g := g) (p := p) (pc := pc) (t := t)
  simp [tf2] at htf; subst htf
  obtain ⟨h, n, hh, hs, f1, f2⟩ := commit_form hq.1
  auto2 hK
  rename_i hf
  simp at hf
  have hn := hΓ.sOk hf.1
  rw [hs] at hn
  injection hn with hn
  refine ⟨hl (hΓ.holds hf.2), g.store.length + 1, f1, ?_⟩
  rw [f2, hn]
  show _ = some (exec Cmd.gitCommitPolicy g p).2.1.policy
  rw [fr_policy _ g p rfl]

theorem own2_pull (hΓ : Γ2 a g p) (hN : N g) (hvg : VG g) (hvp : VP g p) (hq : quiet (exec (.gitPullMerge) g p).1)
    (htf : tf2 (.gitPullMerge) a (exec (.gitPullMerge) g p).2.2 = some x) : Γ2 x (exec (.gitPullMerge) g p).1 (upd (exec (.gitPullMerge) g p).2.1 pc t) := by
  have hK := keep_all (.gitPullMerge) (pc := pc) (t := t) hΓ hvg hvp
  have hl := hl_of (.gitPullMerge) (g := g) (p := p) (pc := pc) (t := t)
  simp [tf2] at htf; subst htf
  auto2 hK
  · rename_i hf
    simp at hf
    obtain ⟨hL, he⟩ := hΓ.baseR hf
    exact ⟨hl hL, pull_base hq.1 he⟩
  · rename_i hf
    simp at hf
    obtain ⟨hL, h1⟩ := hΓ.hPol hf.1
    obtain ⟨_, h2⟩ := hΓ.baseR hf.2
    obtain ⟨h', f1, f2⟩ := (pull_form hq.1 hvg h1 h2).1
    refine ⟨hl hL, h', f1, ?_⟩
    rw [f2]
    show _ = some (exec Cmd.gitPullMerge g p).2.1.policy
    rw [fr_policy _ g p rfl]

theorem own2_push (hΓ : Γ2 a g p) (hN : N g) (hvg : VG g) (hvp : VP g p) (hq : quiet (exec (.gitPush) g p).1)
    (htf : tf2 (.gitPush) a (exec (.gitPush) g p).2.2 = some x) : Γ2 x (exec (.gitPush) g p).1 (upd (exec (.gitPush) g p).2.1 pc t) := by
  have hK := keep_all (.gitPush) (pc := pc) (t := t) hΓ hvg hvp
  have hl := hl_of (.gitPush) (g := g) (p := p) (pc := pc) (t := t)
  simp [tf2] at htf; subst htf
  obtain ⟨h, hh, f4, f3, f1, fok, ffail⟩ := push_form hq.1
  have hpol : ∀ i, polOf (exec Cmd.gitPush g p).1 i = polOf g i := fun i => by simp [polOf, f3]
  auto2 hK
  · rename_i hf
    simp at hf
    refine ⟨hl (hΓ.holds hf), h, f4, ?_⟩
    rw [hpol, hpol, f1]
  · rename_i hf
    cases hok : (exec Cmd.gitPush g p).2.2
    · simp [hok] at hf
      obtain ⟨hL, hb⟩ := hΓ.baseR hf
      obtain ⟨e1, e2⟩ := ffail hok
      refine ⟨hl hL, ?_⟩
      show polOf _ (exec Cmd.gitPush g p).2.1.base = _
      rw [hpol, hpol, e1, e2]; exact hb
    · simp [hok] at hf
      refine ⟨hl (hΓ.holds hf), ?_⟩
      show polOf _ (exec Cmd.gitPush g p).2.1.base = _
      rw [fok hok]
  · rename_i hf
    simp at hf
    obtain ⟨hL, h', hh', hp⟩ := hΓ.hPol hf
    rw [hh] at hh'
    injection hh' with hh'
    subst hh'
    refine ⟨hl hL, ?_⟩
    show (exec Cmd.gitPush g p).2.1.policy ≤ _
    rw [fr_policy _ g p rfl]
    simp only [Rg, hpol, f1, hp]
    simp

theorem own2_rmCurrent (hΓ : Γ2 a g p) (hN : N g) (hvg : VG g) (hvp : VP g p) (hq : quiet (exec (.rmCurrent) g p).1)
    (htf : tf2 (.rmCurrent) a (exec (.rmCurrent) g p).2.2 = some x) : Γ2 x (exec (.rmCurrent) g p).1 (upd (exec (.rmCurrent) g p).2.1 pc t) := by
  have hK := keep_all (.rmCurrent) (pc := pc) (t := t) hΓ hvg hvp
  have hl := hl_of (.rmCurrent) (g := g) (p := p) (pc := pc) (t := t)
  simp [tf2] at htf; subst htf
  auto2 hK
  rename_i hf
  simp at hf
  exact ⟨hl (hΓ.holds hf), by simp [exec, Lk]⟩

theorem own2_lnCurrent (hΓ : Γ2 a g p) (hN : N g) (hvg : VG g) (hvp : VP g p) (hq : quiet (exec (.lnCurrent) g p).1)
    (htf : tf2 (.lnCurrent) a (exec (.lnCurrent) g p).2.2 = some x) : Γ2 x (exec (.lnCurrent) g p).1 (upd (exec (.lnCurrent) g p).2.1 pc t) := by
  have hK := keep_all (.lnCurrent) (pc := pc) (t := t) hΓ hvg hvp
  have hl := hl_of (.lnCurrent) (g := g) (p := p) (pc := pc) (t := t)
  simp [tf2] at htf; subst htf
  auto2 hK

theorem own2_revert (hΓ : Γ2 a g p) (hN : N g) (hvg : VG g) (hvp : VP g p) (hq : quiet (exec (.gitRevert) g p).1)
    (htf : tf2 (.gitRevert) a (exec (.gitRevert) g p).2.2 = some x) : Γ2 x (exec (.gitRevert) g p).1 (upd (exec (.gitRevert) g p).2.1 pc t) := by
  have hK := keep_all (.gitRevert) (pc := pc) (t := t) hΓ hvg hvp
  have hl := hl_of (.gitRevert) (g := g) (p := p) (pc := pc) (t := t)
  simp [tf2] at htf; subst htf
  auto2 hK
  rename_i hf
  simp at hf
  obtain ⟨hL, h1⟩ := hΓ.hEqR hf
  exact ⟨hl hL, revert_form hq.2 hvg h1⟩

theorem own2_pullPlain (hΓ : Γ2 a g p) (hN : N g) (hvg : VG g) (hvp : VP g p) (hq : quiet (exec (.gitPullPlain) g p).1)
    (htf : tf2 (.gitPullPlain) a (exec (.gitPullPlain) g p).2.2 = some x) : Γ2 x (exec (.gitPullPlain) g p).1 (upd (exec (.gitPullPlain) g p).2.1 pc t) := by
  have hK := keep_all (.gitPullPlain) (pc := pc) (t := t) hΓ hvg hvp
  have hl := hl_of (.gitPullPlain) (g := g) (p := p) (pc := pc) (t := t)
  simp [tf2] at htf; subst htf
  auto2 hK
  · rename_i hf
    simp at hf
    obtain ⟨hL, h1⟩ := hΓ.hEqR hf
    exact ⟨hl hL, pullPlain_form hvg h1⟩
  · rename_i hf
    simp at hf
    obtain ⟨hL, h1⟩ := hΓ.baseR hf
    exact ⟨hl hL, pullPlain_base h1⟩

theorem own2_rmrfNext (hΓ : Γ2 a g p) (hN : N g) (hvg : VG g) (hvp : VP g p) (hq : quiet (exec (.rmrfNext) g p).1)
    (htf : tf2 (.rmrfNext) a (exec (.rmrfNext) g p).2.2 = some x) : Γ2 x (exec (.rmrfNext) g p).1 (upd (exec (.rmrfNext) g p).2.1 pc t) := by
  have hK := keep_all (.rmrfNext) (pc := pc) (t := t) hΓ hvg hvp
  have hl := hl_of (.rmrfNext) (g := g) (p := p) (pc := pc) (t := t)
  simp [tf2] at htf; subst htf
  auto2 hK

theorem own2_rmrfNextSrc (hΓ : Γ2 a g p) (hN : N g) (hvg : VG g) (hvp : VP g p) (hq : quiet (exec (.rmrfNextSrc) g p).1)
    (htf : tf2 (.rmrfNextSrc) a (exec (.rmrfNextSrc) g p).2.2 = some x) : Γ2 x (exec (.rmrfNextSrc) g p).1 (upd (exec (.rmrfNextSrc) g p).2.1 pc t) := by
  have hK := keep_all (.rmrfNextSrc) (pc := pc) (t := t) hΓ hvg hvp
  have hl := hl_of (.rmrfNextSrc) (g := g) (p := p) (pc := pc) (t := t)
  simp [tf2] at htf; subst htf
  auto2 hK

theorem own2_mkdirNextP (hΓ : Γ2 a g p) (hN : N g) (hvg : VG g) (hvp : VP g p) (hq : quiet (exec (.mkdirNextP) g p).1)
    (htf : tf2 (.mkdirNextP) a (exec (.mkdirNextP) g p).2.2 = some x) : Γ2 x (exec (.mkdirNextP) g p).1 (upd (exec (.mkdirNextP) g p).2.1 pc t) := by
  have hK := keep_all (.mkdirNextP) (pc := pc) (t := t) hΓ hvg hvp
  have hl := hl_of (.mkdirNextP) (g := g) (p := p) (pc := pc) (t := t)
  simp [tf2] at htf; subst htf
  auto2 hK

theorem own2_mkdirNext (hΓ : Γ2 a g p) (hN : N g) (hvg : VG g) (hvp : VP g p) (hq : quiet (exec (.mkdirNext) g p).1)
    (htf : tf2 (.mkdirNext) a (exec (.mkdirNext) g p).2.2 = some x) : Γ2 x (exec (.mkdirNext) g p).1 (upd (exec (.mkdirNext) g p).2.1 pc t) := by
  have hK := keep_all (.mkdirNext) (pc := pc) (t := t) hΓ hvg hvp
  have hl := hl_of (.mkdirNext) (g := g) (p := p) (pc := pc) (t := t)
  simp [tf2] at htf; subst htf
  auto2 hK

theorem own2_mvNextTo (hΓ : Γ2 a g p) (hN : N g) (hvg : VG g) (hvp : VP g p) (hq : quiet (exec (.mvNextTo) g p).1)
    (htf : tf2 (.mvNextTo) a (exec (.mvNextTo) g p).2.2 = some x) : Γ2 x (exec (.mvNextTo) g p).1 (upd (exec (.mvNextTo) g p).2.1 pc t) := by
  have hK := keep_all (.mvNextTo) (pc := pc) (t := t) hΓ hvg hvp
  have hl := hl_of (.mvNextTo) (g := g) (p := p) (pc := pc) (t := t)
  simp [tf2] at htf; subst htf
  auto2 hK
  rename_i hf
  simp [F2.clearNext] at hf
  obtain ⟨hL, he⟩ := hΓ.fresh hf
  refine ⟨hl hL, ?_⟩
  intro h hh
  show h ≤ (exec Cmd.mvNextTo g p).2.1.policy
  rw [fr_policy _ g p rfl]
  revert hh
  simp only [exec]
  (repeat' split) <;> simp <;> (try intro hh) <;>
    first
    | exact Nat.le_of_lt (he h hh)
    | (rcases hh with hh | hh
       · omega
       · exact Nat.le_of_lt (he h hh))

theorem own2_reset (hΓ : Γ2 a g p) (hN : N g) (hvg : VG g) (hvp : VP g p) (hq : quiet (exec (.gitResetHash) g p).1)
    (htf : tf2 (.gitResetHash) a (exec (.gitResetHash) g p).2.2 = some x) : Γ2 x (exec (.gitResetHash) g p).1 (upd (exec (.gitResetHash) g p).2.1 pc t) := by
  have hK := keep_all (.gitResetHash) (pc := pc) (t := t) hΓ hvg hvp
  have hl := hl_of (.gitResetHash) (g := g) (p := p) (pc := pc) (t := t)
  simp [tf2] at htf; subst htf
  auto2 hK

/-- Own step (numbering facts): whatever the command, the facts computed by `tf2` hold afterwards
(in states in which no git command has failed and nobody edited POLICY). -/
theorem own2 {c : Cmd} (hΓ : Γ2 a g p) (hN : N g) (hvg : VG g) (hvp : VP g p) (hq : quiet (exec c g p).1)
    (htf : tf2 c a (exec c g p).2.2 = some x) : Γ2 x (exec c g p).1 (upd (exec c g p).2.1 pc t) := by
  have dflt : ∀ c' : Cmd, tf2 c' a (exec c' g p).2.2 = some x → (∀ y b, tf2 c' y b = some y) →
      (c'.wHead = false ∧ c'.wRemote = false ∧ c'.wBase = false ∧ c'.wFcount = false ∧ c'.wPrev = false ∧
       c'.wCurrent = false ∧ c'.wLcount = false ∧ c'.wCount = false ∧ c'.wPolicy = false ∧ c'.wHist = false ∧
       c'.wStaged = false) → Γ2 x (exec c' g p).1 (upd (exec c' g p).2.1 pc t) := by
    intro c' h1 h2 h3
    rw [h2] at h1; injection h1 with h1; subst h1
    exact own2_default hΓ hvg hvp h3
  cases c with
  | flockNB => exact own2_flock hΓ hN hvg hvp hq htf
  | gitClone => exact own2_clone hΓ hN hvg hvp hq htf
  | testPolicyFile => exact own2_tpf hΓ hN hvg hvp hq htf
  | readPolicyFile => exact own2_rpf hΓ hN hvg hvp hq htf
  | testReg r =>
    cases r with
    | fcount => exact own2_testFc hΓ hN hvg hvp hq htf
    | lcount => exact own2_testLc hΓ hN hvg hvp hq htf
    | count => exact dflt _ htf (fun _ _ => rfl) ⟨rfl, rfl, rfl, rfl, rfl, rfl, rfl, rfl, rfl, rfl, rfl⟩
  | setReg r n =>
    cases r with
    | fcount => exact own2_setFc hΓ hN hvg hvp hq htf
    | lcount => exact own2_setLc hΓ hN hvg hvp hq htf
    | count => exact own2_setCnt hΓ hN hvg hvp hq htf
  | readLink => exact own2_readLink hΓ hN hvg hvp hq htf
  | testPrev => exact own2_testPrev hΓ hN hvg hvp hq htf
  | linkCount => exact own2_linkCount hΓ hN hvg hvp hq htf
  | countPick m => exact own2_countPick hΓ hN hvg hvp hq htf
  | countAdd n => exact own2_countAdd hΓ hN hvg hvp hq htf
  | policyFromCount => exact own2_policyFromCount hΓ hN hvg hvp hq htf
  | writePolicyFile => exact own2_writePolicyFile hΓ hN hvg hvp hq htf
  | gitAdd => exact own2_gitAdd hΓ hN hvg hvp hq htf
  | gitCommitPolicy => exact own2_commit hΓ hN hvg hvp hq htf
  | gitPullMerge => exact own2_pull hΓ hN hvg hvp hq htf
  | gitPush => exact own2_push hΓ hN hvg hvp hq htf
  | rmCurrent => exact own2_rmCurrent hΓ hN hvg hvp hq htf
  | lnCurrent => exact own2_lnCurrent hΓ hN hvg hvp hq htf
  | gitRevert => exact own2_revert hΓ hN hvg hvp hq htf
  | gitPullPlain => exact own2_pullPlain hΓ hN hvg hvp hq htf
  | rmrfNext => exact own2_rmrfNext hΓ hN hvg hvp hq htf
  | rmrfNextSrc => exact own2_rmrfNextSrc hΓ hN hvg hvp hq htf
  | mkdirNextP => exact own2_mkdirNextP hΓ hN hvg hvp hq htf
  | mkdirNext => exact own2_mkdirNext hΓ hN hvg hvp hq htf
  | mvNextTo => exact own2_mvNextTo hΓ hN hvg hvp hq htf
  | gitResetHash => exact own2_reset hΓ hN hvg hvp hq htf
  | nop w => exact dflt _ htf (fun _ _ => rfl) ⟨rfl, rfl, rfl, rfl, rfl, rfl, rfl, rfl, rfl, rfl, rfl⟩
  | openLock => exact dflt _ htf (fun _ _ => rfl) ⟨rfl, rfl, rfl, rfl, rfl, rfl, rfl, rfl, rfl, rfl, rfl⟩
  | exit n => exact dflt _ htf (fun _ _ => rfl) ⟨rfl, rfl, rfl, rfl, rfl, rfl, rfl, rfl, rfl, rfl, rfl⟩
  | ret n => exact dflt _ htf (fun _ _ => rfl) ⟨rfl, rfl, rfl, rfl, rfl, rfl, rfl, rfl, rfl, rfl, rfl⟩
  | uptodateCheck => exact dflt _ htf (fun _ _ => rfl) ⟨rfl, rfl, rfl, rfl, rfl, rfl, rfl, rfl, rfl, rfl, rfl⟩
  | logToFile => exact dflt _ htf (fun _ _ => rfl) ⟨rfl, rfl, rfl, rfl, rfl, rfl, rfl, rfl, rfl, rfl, rfl⟩
  | mkdirCode => exact dflt _ htf (fun _ _ => rfl) ⟨rfl, rfl, rfl, rfl, rfl, rfl, rfl, rfl, rfl, rfl, rfl⟩
  | mkPrevLink => exact dflt _ htf (fun _ _ => rfl) ⟨rfl, rfl, rfl, rfl, rfl, rfl, rfl, rfl, rfl, rfl, rfl⟩
  | compile => exact dflt _ htf (fun _ _ => rfl) ⟨rfl, rfl, rfl, rfl, rfl, rfl, rfl, rfl, rfl, rfl, rfl⟩
  | touchFailed => exact dflt _ htf (fun _ _ => rfl) ⟨rfl, rfl, rfl, rfl, rfl, rfl, rfl, rfl, rfl, rfl, rfl⟩
  | saveHash => exact dflt _ htf (fun _ _ => rfl) ⟨rfl, rfl, rfl, rfl, rfl, rfl, rfl, rfl, rfl, rfl, rfl⟩
  | rmFailed => exact dflt _ htf (fun _ _ => rfl) ⟨rfl, rfl, rfl, rfl, rfl, rfl, rfl, rfl, rfl, rfl, rfl⟩
  | cleanupFind => exact dflt _ htf (fun _ _ => rfl) ⟨rfl, rfl, rfl, rfl, rfl, rfl, rfl, rfl, rfl, rfl, rfl⟩
  | cleanupRm => exact dflt _ htf (fun _ _ => rfl) ⟨rfl, rfl, rfl, rfl, rfl, rfl, rfl, rfl, rfl, rfl, rfl⟩
  | readEmail => exact dflt _ htf (fun _ _ => rfl) ⟨rfl, rfl, rfl, rfl, rfl, rfl, rfl, rfl, rfl, rfl, rfl⟩
  | mail w => exact dflt _ htf (fun _ _ => rfl) ⟨rfl, rfl, rfl, rfl, rfl, rfl, rfl, rfl, rfl, rfl, rfl⟩
  | testEmail => exact dflt _ htf (fun _ _ => rfl) ⟨rfl, rfl, rfl, rfl, rfl, rfl, rfl, rfl, rfl, rfl, rfl⟩
  | testSysEmailEmpty => exact dflt _ htf (fun _ _ => rfl) ⟨rfl, rfl, rfl, rfl, rfl, rfl, rfl, rfl, rfl, rfl, rfl⟩
  | touchLock => exact dflt _ htf (fun _ _ => rfl) ⟨rfl, rfl, rfl, rfl, rfl, rfl, rfl, rfl, rfl, rfl, rfl⟩

end NA.C19
