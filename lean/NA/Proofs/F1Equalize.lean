import NA.Proofs.F1Order
/-!
# F1: `equalizedGroups` — when the in-place edit is taken, and what it emits
-/
namespace NA.F1
open NA.Acl (Range)

def chgMem : Chg → Option (Bool × String)
  | .mem m => some (true, m)
  | .noMem m => some (false, m)
  | _ => none

theorem setMode_mem (st : St) (n : Name) : (setMode st n).out.filterMap chgMem = st.out.filterMap chgMem := by
  unfold setMode
  split
  · rfl
  · split <;> simp [St.emit, St.hit, List.filterMap_append, chgMem]

theorem delMembers_mem (st : St) (aN : Name) (ms : List String) :
    (delMembers st aN ms).out.filterMap chgMem = st.out.filterMap chgMem ++ ms.map (false, ·) := by
  unfold delMembers
  induction ms generalizing st with
  | nil => simp
  | cons m ms ih =>
    rw [List.foldl_cons, ih]
    simp [St.emit, List.filterMap_append, chgMem, setMode_mem]

theorem addMembers_mem (st : St) (aN : Name) (ms : List String) :
    (addMembers st aN ms).out.filterMap chgMem = st.out.filterMap chgMem ++ ms.map (true, ·) := by
  unfold addMembers
  induction ms generalizing st with
  | nil => simp
  | cons m ms ih =>
    rw [List.foldl_cons, ih]
    simp [St.emit, List.filterMap_append, chgMem, setMode_mem]

/-- The member commands emitted by the edit loop are exactly `memOps` (in script order). -/
theorem editMembers_mem (aN : Name) (la lb : List String) : ∀ (rs : List Range) (st : St),
    (editMembers st aN la lb rs).out.filterMap chgMem = st.out.filterMap chgMem ++ memOps la lb rs := by
  intro rs
  induction rs with
  | nil => intro st; simp [editMembers, memOps]
  | cons r rs ih =>
    intro st
    unfold editMembers
    rw [ih]
    simp only [memOps]
    by_cases hd : r.isDelete = true
    · simp [hd, delMembers_mem, List.append_assoc]
    · by_cases hi : r.isInsert = true
      · simp [hd, hi, addMembers_mem, List.append_assoc]
      · simp [hd, hi]

theorem hit_out (st : St) (x : String) : (st.hit x).out = st.out := rfl

/-- Only the script, the open sub-mode and the ghost counters differ. -/
structure SameMarks (st st' : St) : Prop where
  gNeeded : st'.gNeeded = st.gNeeded
  gToDel : st'.gToDel = st.gToDel
  aNeeded : st'.aNeeded = st.aNeeded
  aToDel : st'.aToDel = st.aToDel
  bNeeded : st'.bNeeded = st.bNeeded
  bToDel : st'.bToDel = st.bToDel
  gReady : st'.gReady = st.gReady
  gName : st'.gName = st.gName
  aReady : st'.aReady = st.aReady
  aName : st'.aName = st.aName

theorem SameMarks.refl (st : St) : SameMarks st st := ⟨rfl, rfl, rfl, rfl, rfl, rfl, rfl, rfl, rfl, rfl⟩

theorem SameMarks.trans {s1 s2 s3 : St} (h1 : SameMarks s1 s2) (h2 : SameMarks s2 s3) : SameMarks s1 s3 :=
  ⟨h2.gNeeded.trans h1.gNeeded, h2.gToDel.trans h1.gToDel, h2.aNeeded.trans h1.aNeeded, h2.aToDel.trans h1.aToDel,
   h2.bNeeded.trans h1.bNeeded, h2.bToDel.trans h1.bToDel, h2.gReady.trans h1.gReady, h2.gName.trans h1.gName,
   h2.aReady.trans h1.aReady, h2.aName.trans h1.aName⟩

theorem SameMarks.foldl {α : Type} (f : St → α → St) (l : List α) (st : St) (h : ∀ s x, SameMarks s (f s x)) :
    SameMarks st (l.foldl f st) := by
  induction l generalizing st with
  | nil => exact SameMarks.refl st
  | cons x xs ih => exact (h st x).trans (ih (f st x))

theorem setMode_marks (st : St) (n : Name) : SameMarks st (setMode st n) := by
  unfold setMode
  split
  · exact SameMarks.refl st
  · split <;> exact ⟨rfl, rfl, rfl, rfl, rfl, rfl, rfl, rfl, rfl, rfl⟩

theorem emit_marks (st : St) (c : Chg) : SameMarks st (st.emit c) := ⟨rfl, rfl, rfl, rfl, rfl, rfl, rfl, rfl, rfl, rfl⟩

theorem delMembers_marks (st : St) (aN : Name) (ms : List String) : SameMarks st (delMembers st aN ms) :=
  SameMarks.foldl _ ms st (fun s _ => (setMode_marks s aN).trans (emit_marks _ _))

theorem addMembers_marks (st : St) (aN : Name) (ms : List String) : SameMarks st (addMembers st aN ms) :=
  SameMarks.foldl _ ms st (fun s _ => (setMode_marks s aN).trans (emit_marks _ _))

theorem editMembers_marks (aN : Name) (la lb : List String) : ∀ (rs : List Range) (st : St),
    SameMarks st (editMembers st aN la lb rs) := by
  intro rs
  induction rs with
  | nil => intro st; exact SameMarks.refl st
  | cons r rs ih =>
    intro st
    unfold editMembers
    refine SameMarks.trans ?_ (ih _)
    split
    · exact delMembers_marks st aN _
    · split
      · exact addMembers_marks st aN _
      · exact SameMarks.refl st

/-- A device group that is already `needed` is never edited (nothing is emitted). -/
theorem equalize_needed_never_edited (e : Env) (st : St) (aN bN : Name) (h : st.gNeeded.contains aN = true) :
    (equalizedGroups e st aN bN).1.out = st.out := by
  unfold equalizedGroups
  rw [if_pos h]
  split
  · rfl
  · exact findGroup_out e st bN

/-- Output is produced only by the edit branch, and that branch is taken only if the device group is
not `needed` and `ins + del ≤ |lb|`; afterwards the device group is `needed` and the target group is
`ready` under the device group's name. -/
theorem equalize_edit_only_if_small (e : Env) (st : St) (aN bN : Name)
    (h : (equalizedGroups e st aN bN).1.out ≠ st.out) :
    st.gNeeded.contains aN = false ∧
    (scriptStat (lookupD e.sc.grp (aN, bN))).1 + (scriptStat (lookupD e.sc.grp (aN, bN))).2 ≤ (e.bMembers bN).length ∧
    aN ∈ (equalizedGroups e st aN bN).1.gNeeded ∧ bN ∈ (equalizedGroups e st aN bN).1.gReady ∧
    (equalizedGroups e st aN bN).1.gNameOf bN = aN ∧ (equalizedGroups e st aN bN).2 = true := by
  by_cases hn : st.gNeeded.contains aN = true
  · exact absurd (equalize_needed_never_edited e st aN bN hn) h
  · have hn' : st.gNeeded.contains aN = false := by simpa using hn
    refine ⟨hn', ?_⟩
    unfold equalizedGroups at h ⊢
    rw [if_neg hn] at h ⊢
    simp only [] at h ⊢
    generalize hident : isIdentity (lookupD e.sc.grp (aN, bN)) = ident at h ⊢
    have h1 : (if ident = true then st else findGroup e st bN).out = st.out := by
      split
      · rfl
      · exact findGroup_out e st bN
    generalize (if ident = true then st else findGroup e st bN) = st1 at h h1 ⊢
    split at h
    · exact absurd (by rw [hit_out]; exact h1) h
    · rename_i hc
      rw [if_neg hc]
      generalize scriptStat (lookupD e.sc.grp (aN, bN)) = stat at h ⊢
      obtain ⟨ins, del⟩ := stat
      simp only [] at h ⊢
      split at h
      · exact absurd (by rw [hit_out]; exact h1) h
      · rename_i hbig
        rw [if_neg hbig]
        obtain ⟨r1, r2⟩ := editMembers_ready aN (e.aMembers aN) (e.bMembers bN) (lookupD e.sc.grp (aN, bN))
          { st1 with gNeeded := addSet aN st1.gNeeded, gName := (bN, aN) :: st1.gName }
        refine ⟨by omega, ?_, ?_, ?_, rfl⟩
        · simp only [St.hit]
          rw [(editMembers_marks aN (e.aMembers aN) (e.bMembers bN) (lookupD e.sc.grp (aN, bN)) _).gNeeded]
          exact mem_addSet.mpr (Or.inl rfl)
        · simp only [St.hit]; exact mem_addSet.mpr (Or.inl rfl)
        · simp only [St.hit, St.gNameOf]
          rw [r2]; simp [List.lookup]

end NA.F1
