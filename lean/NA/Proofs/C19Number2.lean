import NA.Proofs.C19Number
/-! # C19 — numbering: soundness of the transfer function, command by command -/
namespace NA.C19

/-- tactic: split `Γ2 x g' p'` into its facts; close the cleared ones and those that `keep_all`
justifies; leave the rest (with the fact bit introduced as `hf`). -/
syntax "auto2 " ident : tactic
macro_rules
  | `(tactic| auto2 $hK) => `(tactic|
    (constructor <;> intro hf <;>
      first
      | (simp at hf; done)
      | exact ($hK).holds (by simpa [F2.kept, F2.clearNext] using hf)
      | exact ($hK).hEqR (by simpa [F2.kept, F2.clearNext, Cmd.wHead, Cmd.wRemote] using hf)
      | exact ($hK).baseR (by simpa [F2.kept, F2.clearNext, Cmd.wBase, Cmd.wRemote] using hf)
      | exact ($hK).pfP (by simpa [F2.kept, F2.clearNext, Cmd.wHead, Cmd.wRemote] using hf)
      | exact ($hK).fcOk (by simpa [F2.kept, F2.clearNext, Cmd.wFcount, Cmd.wRemote] using hf)
      | exact ($hK).rZero (by simpa [F2.kept, F2.clearNext, Cmd.wRemote] using hf)
      | exact ($hK).fcGe (by simpa [F2.kept, F2.clearNext, Cmd.wFcount, Cmd.wRemote] using hf)
      | exact ($hK).prevEq (by simpa [F2.kept, F2.clearNext, Cmd.wPrev, Cmd.wCurrent] using hf)
      | exact ($hK).prevSome (by simpa [F2.kept, F2.clearNext, Cmd.wPrev] using hf)
      | exact ($hK).lcOk (by simpa [F2.kept, F2.clearNext, Cmd.wLcount, Cmd.wCurrent] using hf)
      | exact ($hK).lkZero (by simpa [F2.kept, F2.clearNext, Cmd.wCurrent] using hf)
      | exact ($hK).lcGe (by simpa [F2.kept, F2.clearNext, Cmd.wLcount, Cmd.wCurrent] using hf)
      | exact ($hK).cntGe (by simpa [F2.kept, F2.clearNext, Cmd.wCount, Cmd.wRemote, Cmd.wCurrent] using hf)
      | exact ($hK).cntGt (by simpa [F2.kept, F2.clearNext, Cmd.wCount, Cmd.wRemote, Cmd.wCurrent] using hf)
      | exact ($hK).polGt (by simpa [F2.kept, F2.clearNext, Cmd.wPolicy, Cmd.wRemote, Cmd.wCurrent] using hf)
      | exact ($hK).fresh (by simpa [F2.kept, F2.clearNext, Cmd.wPolicy, Cmd.wHist] using hf)
      | exact ($hK).histLe (by simpa [F2.kept, F2.clearNext, Cmd.wPolicy, Cmd.wHist] using hf)
      | exact ($hK).wOk (by simpa [F2.kept, F2.clearNext, Cmd.wStaged, Cmd.wPolicy] using hf)
      | exact ($hK).sOk (by simpa [F2.kept, F2.clearNext, Cmd.wStaged, Cmd.wPolicy] using hf)
      | exact ($hK).hPol (by simpa [F2.kept, F2.clearNext, Cmd.wHead, Cmd.wPolicy] using hf)
      | exact ($hK).pushed (by simpa [F2.kept, F2.clearNext, Cmd.wPolicy, Cmd.wRemote] using hf)
      | skip))

variable {a x : F2} {g : G} {p : Proc} {pc : Nat} {t : Bool}

/-- Commands whose transfer function is the identity and that write nothing the facts read. -/
theorem own2_default {c : Cmd} (hΓ : Γ2 a g p) (hvg : VG g) (hvp : VP g p)
    (hc : c.wHead = false ∧ c.wRemote = false ∧ c.wBase = false ∧ c.wFcount = false ∧ c.wPrev = false ∧
      c.wCurrent = false ∧ c.wLcount = false ∧ c.wCount = false ∧ c.wPolicy = false ∧ c.wHist = false ∧
      c.wStaged = false) :
    Γ2 a (exec c g p).1 (upd (exec c g p).2.1 pc t) := by
  have hK := keep_all c (pc := pc) (t := t) hΓ hvg hvp
  obtain ⟨h1, h2, h3, h4, h5, h6, h7, h8, h9, h10, h11⟩ := hc
  have : a.kept c = a := by
    simp [F2.kept, h1, h2, h3, h4, h5, h6, h7, h8, h9, h10, h11]
  rw [this] at hK; exact hK

end NA.C19

namespace NA.C19
variable {a x : F2} {g : G} {p : Proc} {pc : Nat} {t : Bool}

/-! ### What the git commands do when they do not fail -/

theorem nextHead_of_next {g : G} {d : Dir} {h : Nat} (hn : g.next = some d) (hh : d.head = some h) :
    g.nextHead = some h := by simp [G.nextHead, hn, hh]

theorem next_isSome_of_head {g : G} {h : Nat} (hh : g.nextHead = some h) : g.next.isSome = true := by
  unfold G.nextHead at hh
  cases hn : g.next <;> simp_all

theorem clone_form (hq : (exec .gitClone g p).1.trouble = false) :
    (exec .gitClone g p).1.nextHead = some g.remote ∧ (exec .gitClone g p).1.remote = g.remote ∧
    (exec .gitClone g p).2.1.base = g.remote ∧ (exec .gitClone g p).1.store = g.store := by
  revert hq
  simp only [exec]
  (repeat' split) <;> simp_all [G.nextHead]

theorem commit_form (hq : (exec .gitCommitPolicy g p).1.trouble = false) :
    ∃ h n, g.nextHead = some h ∧ p.spol = some n ∧
      (exec .gitCommitPolicy g p).1.nextHead = some (g.store.length + 1) ∧
      polOf (exec .gitCommitPolicy g p).1 (g.store.length + 1) = some n := by
  revert hq
  simp only [exec]
  split
  · next h n hh hs =>
    split
    · simp
    · intro _
      refine ⟨h, n, hh, hs, ?_, ?_⟩
      · rw [snh_head]; simp [next_isSome_of_head hh]
      · simp [polOf, commitAt_new]
  · simp

/-- `git push` without git trouble: either it succeeded, or it was rejected while HEAD carries the
same POLICY file as the remote head (nothing unpublished). -/
theorem push_form (hq : (exec .gitPush g p).1.trouble = false) :
    ∃ h, g.nextHead = some h ∧ (exec .gitPush g p).1.nextHead = some h ∧ (exec .gitPush g p).1.store = g.store ∧
      polOf g (exec .gitPush g p).1.remote = polOf g h ∧
      ((exec .gitPush g p).2.2 = true → (exec .gitPush g p).2.1.base = (exec .gitPush g p).1.remote) ∧
      ((exec .gitPush g p).2.2 = false → (exec .gitPush g p).2.1.base = p.base ∧ (exec .gitPush g p).1.remote = g.remote) := by
  revert hq
  simp only [exec]
  split
  · next h hh =>
    split
    · intro _; exact ⟨h, hh, by simpa [G.nextHead] using hh, rfl, rfl, fun _ => rfl, fun hf => by simp at hf⟩
    · intro hq
      simp at hq
      refine ⟨h, hh, by simpa [G.nextHead] using hh, rfl, ?_, fun hf => by simp at hf, fun _ => ⟨rfl, rfl⟩⟩
      simp [polOf, hq.2]
  · simp

end NA.C19

namespace NA.C19
variable {a x : F2} {g : G} {p : Proc} {pc : Nat} {t : Bool}

theorem pull_form (hq : (exec .gitPullMerge g p).1.trouble = false) (hvg : VG g) {n : Nat}
    (h1 : ∃ h, g.nextHead = some h ∧ polOf g h = some n) (h2 : polOf g p.base = polOf g g.remote) :
    (∃ h', (exec .gitPullMerge g p).1.nextHead = some h' ∧ polOf (exec .gitPullMerge g p).1 h' = some n) ∧
    polOf (exec .gitPullMerge g p).1 (exec .gitPullMerge g p).2.1.base =
      polOf (exec .gitPullMerge g p).1 (exec .gitPullMerge g p).1.remote := by
  obtain ⟨h, hh, hp⟩ := h1
  revert hq
  simp only [exec, hh]
  split
  · intro _; exact ⟨⟨h, hh, hp⟩, h2⟩
  · split
    · next hne hb =>
      intro _
      refine ⟨⟨g.remote, ?_, ?_⟩, ?_⟩
      · rw [snh_head]; simp [next_isSome_of_head hh]
      · simp only [polOf, snh_store] at *
        rw [← h2, ← hb]; exact hp
      · simp [polOf]
    · split
      · simp
      · next hne hnb hnc =>
        intro _
        refine ⟨⟨g.store.length + 1, ?_, ?_⟩, ?_⟩
        · rw [snh_head]; simp [next_isSome_of_head hh]
        · simp only [polOf, snh_store, commitAt_new]
          simp only [polOf] at hp h2
          split
          · exact hp
          · next hx =>
            simp at hx
            rw [← h2, ← hx]; exact hp
        · simp [polOf]

/-- `git pull --quiet` (no strategy): HEAD and origin/master stay in step with the remote's POLICY. -/
theorem pullPlain_form (hvg : VG g)
    (h1 : ∃ h, g.nextHead = some h ∧ polOf g h = polOf g g.remote) :
    ∃ h', (exec .gitPullPlain g p).1.nextHead = some h' ∧
      polOf (exec .gitPullPlain g p).1 h' = polOf (exec .gitPullPlain g p).1 (exec .gitPullPlain g p).1.remote := by
  obtain ⟨h, hh, hp⟩ := h1
  simp only [exec, hh]
  split
  · exact ⟨h, hh, hp⟩
  · split
    · refine ⟨g.remote, ?_, ?_⟩
      · rw [snh_head]; simp [next_isSome_of_head hh]
      · simp [polOf]
    · exact ⟨h, hh, hp⟩

theorem pullPlain_base (h2 : polOf g p.base = polOf g g.remote) :
    polOf (exec .gitPullPlain g p).1 (exec .gitPullPlain g p).2.1.base =
      polOf (exec .gitPullPlain g p).1 (exec .gitPullPlain g p).1.remote := by
  simp only [exec]
  (repeat' split) <;> simp_all [polOf]

theorem revert_form (hq : (exec .gitRevert g p).1.edited = false) (hvg : VG g)
    (h1 : ∃ h, g.nextHead = some h ∧ polOf g h = polOf g g.remote) :
    ∃ h', (exec .gitRevert g p).1.nextHead = some h' ∧
      polOf (exec .gitRevert g p).1 h' = polOf (exec .gitRevert g p).1 (exec .gitRevert g p).1.remote := by
  obtain ⟨h, hh, hp⟩ := h1
  revert hq
  simp only [exec, hh]
  split
  · intro _; exact ⟨h, hh, hp⟩
  · next hcond =>
    intro hq
    simp at hcond
    obtain ⟨⟨_, hhash⟩, _⟩ := hcond
    simp at hq
    refine ⟨g.store.length + 1, ?_, ?_⟩
    · rw [snh_head]; simp [next_isSome_of_head hh]
    · simp only [polOf, snh_store, snh_remote, commitAt_new]
      rw [commitAt_append hvg.remote]
      simp only [polOf] at hp
      rw [← hp, hhash, hq.2]

end NA.C19
