import NA.Proofs.C19Number
/-! # C19 — numbering: soundness of the transfer function, command by command -/
namespace NA.C19

/-- tactic: split `Γ2 x g' p'` into its facts; close the cleared ones and those that `keep_all`
justifies; leave the rest (with the fact bit introduced as `hf`). -/
syntax "auto2 " ident : tactic
macro_rules
  | `(tactic| auto2 $hK) => `(tactic|
    (constructor <;> intro hf <;>
      first
      | (simp at hf; done)
      | exact ($hK).holds (by simpa [F2.kept, F2.clearNext] using hf)
      | exact ($hK).hEqR (by simpa [F2.kept, F2.clearNext, Cmd.wHead, Cmd.wRemote] using hf)
      | exact ($hK).baseR (by simpa [F2.kept, F2.clearNext, Cmd.wBase, Cmd.wRemote] using hf)
      | exact ($hK).pfP (by simpa [F2.kept, F2.clearNext, Cmd.wHead, Cmd.wRemote] using hf)
      | exact ($hK).fcOk (by simpa [F2.kept, F2.clearNext, Cmd.wFcount, Cmd.wRemote] using hf)
      | exact ($hK).rZero (by simpa [F2.kept, F2.clearNext, Cmd.wRemote] using hf)
      | exact ($hK).fcGe (by simpa [F2.kept, F2.clearNext, Cmd.wFcount, Cmd.wRemote] using hf)
      | exact ($hK).prevEq (by simpa [F2.kept, F2.clearNext, Cmd.wPrev, Cmd.wCurrent] using hf)
      | exact ($hK).prevSome (by simpa [F2.kept, F2.clearNext, Cmd.wPrev] using hf)
      | exact ($hK).lcOk (by simpa [F2.kept, F2.clearNext, Cmd.wLcount, Cmd.wCurrent] using hf)
      | exact ($hK).lkZero (by simpa [F2.kept, F2.clearNext, Cmd.wCurrent] using hf)
      | exact ($hK).lcGe (by simpa [F2.kept, F2.clearNext, Cmd.wLcount, Cmd.wCurrent] using hf)
      | exact ($hK).cntGe (by simpa [F2.kept, F2.clearNext, Cmd.wCount, Cmd.wRemote, Cmd.wCurrent] using hf)
      | exact ($hK).cntGt (by simpa [F2.kept, F2.clearNext, Cmd.wCount, Cmd.wRemote, Cmd.wCurrent] using hf)
      | exact ($hK).polGt (by simpa [F2.kept, F2.clearNext, Cmd.wPolicy, Cmd.wRemote, Cmd.wCurrent] using hf)
      | exact ($hK).fresh (by simpa [F2.kept, F2.clearNext, Cmd.wPolicy, Cmd.wHist] using hf)
      | exact ($hK).wOk (by simpa [F2.kept, F2.clearNext, Cmd.wStaged, Cmd.wPolicy] using hf)
      | exact ($hK).sOk (by simpa [F2.kept, F2.clearNext, Cmd.wStaged, Cmd.wPolicy] using hf)
      | exact ($hK).hPol (by simpa [F2.kept, F2.clearNext, Cmd.wHead, Cmd.wPolicy] using hf)
      | exact ($hK).pushed (by simpa [F2.kept, F2.clearNext, Cmd.wPolicy, Cmd.wRemote] using hf)
      | skip))

variable {a x : F2} {g : G} {p : Proc} {pc : Nat} {t : Bool}

/-- Commands whose transfer function is the identity and that write nothing the facts read. -/
theorem own2_default {c : Cmd} (hΓ : Γ2 a g p) (hvg : VG g) (hvp : VP g p)
    (hc : c.wHead = false ∧ c.wRemote = false ∧ c.wBase = false ∧ c.wFcount = false ∧ c.wPrev = false ∧
      c.wCurrent = false ∧ c.wLcount = false ∧ c.wCount = false ∧ c.wPolicy = false ∧ c.wHist = false ∧
      c.wStaged = false) :
    Γ2 a (exec c g p).1 (upd (exec c g p).2.1 pc t) := by
  have hK := keep_all c (pc := pc) (t := t) hΓ hvg hvp
  obtain ⟨h1, h2, h3, h4, h5, h6, h7, h8, h9, h10, h11⟩ := hc
  have : a.kept c = a := by
    simp [F2.kept, h1, h2, h3, h4, h5, h6, h7, h8, h9, h10, h11]
  rw [this] at hK; exact hK

end NA.C19
