import NA.Proofs.C19Calm2
/-! # C19 — calm domain: an undisturbed run from a good start ends with the newest revision current -/
set_option linter.unusedVariables false
set_option linter.unnecessarySimpa false
namespace NA.C19

/-- Own step in the calm domain: the branch taken is one the transfer function foresees, and its
facts hold afterwards. -/
theorem own3 {i : Instr} {a : F3} {g : G} {p : Proc}
    (hΓ : Γ3 a g p) (hgi : GI1 g) (hgi4 : GI4 g) (hdh : DirsInHist g) (hvg : VG g) (hvp : VP g p)
    (hN : quiet g → N g) (hreq : req3 i.cmd a = true) :
    ∃ x, tf3 i.cmd a (exec i.cmd g p).2.2 = some x ∧ Γ3 x (exec i.cmd g p).1 (after i g p) := by
  have hc := okc_all i.cmd hΓ hvg hgi hgi4 hdh
    (pc := if (exec i.cmd g p).2.2 then i.ok else i.fail) (t := (exec i.cmd g p).2.1.touched || i.cmd.mutating)
  unfold OkC at hc
  cases htc : tfc i.cmd a (exec i.cmd g p).2.2 with
  | none => rw [htc] at hc; exact hc.elim
  | some xc =>
    rw [htc] at hc
    obtain ⟨xn, hxn⟩ := tf2_total i.cmd a.n (exec i.cmd g p).2.2
    have hx1 : ∃ xs, tf1 i.cmd a.s (exec i.cmd g p).2.2 = some xs := by simp [tf1]
    obtain ⟨xs, hxs⟩ := hx1
    have hr1 : req1 i.cmd a.s = true := by
      simp only [req3, Bool.and_eq_true] at hreq; exact hreq.1
    obtain ⟨xk, hxk⟩ := tf4_feasible (c := i.cmd) hΓ.k
    refine ⟨⟨xn, xs, xk, xc⟩, by simp [tf3, hxn, hxs, hxk, htc], ?_, ?_, own4 hΓ.k hvg hvp hgi4.hpos hxk, hc⟩
    · exact own1 hΓ.s hr1 hxs
    · intro hq
      have haq := tfc_quiet htc hq
      have hq' : quiet (exec i.cmd g p).1 := hc.quietF hq
      exact own2 (hΓ.n haq) (hN (quiet_exec hq')) hvg hvp hq' hxn

/-! ### The lock is held by a live process or by nobody -/

def LockOK (s : State) : Prop := ∀ pid, s.g.lock = some pid → ∃ p ∈ s.procs, p.pid = pid ∧ p.alive = true

theorem lockOK_init (se : Bool) : LockOK (init se) := by intro pid h; simp [init] at h

theorem mem_replaceProc_of {ps : List Proc} {q p' : Proc} (hq : q ∈ ps) :
    (if q.pid = p'.pid then p' else q) ∈ replaceProc ps p' := by
  unfold replaceProc
  exact List.mem_map.mpr ⟨q, hq, rfl⟩

theorem lockOK_stepCore {prog : Prog} {s : State} (h : LockOK s) (e : Event) : LockOK (stepCore prog s e) := by
  cases e with
  | commit good pol email => intro pid hl; exact h pid (by simpa [stepCore, applyCommit] using hl)
  | spawn =>
    intro pid hl
    obtain ⟨p, hp, h1, h2⟩ := h pid (by simpa [stepCore] using hl)
    exact ⟨p, by simp [stepCore, hp], h1, h2⟩
  | kill pid0 =>
    simp only [stepCore]
    cases hf : findProc s.procs pid0 with
    | none => exact h
    | some p =>
      obtain ⟨hpm, hpp⟩ := findProc_some hf
      by_cases hal : p.alive = true
      · simp only [hal, if_true]
        intro pid hl
        simp only [release] at hl
        split at hl
        · simp at hl
        · next hne =>
          obtain ⟨q, hq, h1, h2⟩ := h pid hl
          have hqp : q.pid ≠ pid0 := by
            intro heq; apply hne; rw [hl, ← h1, heq]
          have hqp' : q.pid ≠ p.pid := by rw [hpp]; exact hqp
          have := mem_replaceProc_of (p' := { p with alive := false, exit := none }) hq
          simp [hqp'] at this
          exact ⟨q, this, h1, h2⟩
      · simp [hal]; exact h
  | step pid0 =>
    simp only [stepCore]
    cases hf : findProc s.procs pid0 with
    | none => exact h
    | some p =>
      obtain ⟨hpm, hpp⟩ := findProc_some hf
      by_cases hal : p.alive = true
      · simp only [hal, if_true]
        cases hi : instrAt prog p.pc with
        | none =>
          have : stepProc prog s.g p = (release s.g p.pid, { p with alive := false, exit := some 0 }) := by
            simp [stepProc, hi]
          rw [this]
          intro pid hl
          simp only [release] at hl
          split at hl
          · simp at hl
          · next hne =>
            obtain ⟨q, hq, h1, h2⟩ := h pid hl
            have hqp : q.pid ≠ p.pid := by
              intro heq; apply hne; rw [hl, ← h1, heq]
            have := mem_replaceProc_of (p' := { p with alive := false, exit := some 0 }) hq
            simp [hqp] at this
            exact ⟨q, this, h1, h2⟩
        | some i =>
          by_cases hex : ∃ n, i.cmd = .exit n
          · obtain ⟨n, hn⟩ := hex
            rw [stepProc_exit hi hn]
            intro pid hl
            simp only [release] at hl
            split at hl
            · simp at hl
            · next hne =>
              obtain ⟨q, hq, h1, h2⟩ := h pid hl
              have hqp : q.pid ≠ p.pid := by
                intro heq; apply hne; rw [hl, ← h1, heq]
              have := mem_replaceProc_of (p' := { p with alive := false, exit := some n }) hq
              simp [hqp] at this
              exact ⟨q, this, h1, h2⟩
          · have hne : ∀ n, i.cmd ≠ .exit n := fun n h => hex ⟨n, h⟩
            rw [stepProc_nonexit hi hne]
            intro pid hl
            have hal' : (after i s.g p).alive = true := by rw [after_alive, exec_alive]; exact hal
            rcases exec_lock i.cmd s.g p with h1 | ⟨h0, h1⟩
            · rw [h1] at hl
              obtain ⟨q, hq, h2, h3⟩ := h pid hl
              have := mem_replaceProc_of (p' := after i s.g p) hq
              by_cases hqp : q.pid = (after i s.g p).pid
              · simp [hqp] at this
                exact ⟨_, this, by rw [← hqp]; exact h2, hal'⟩
              · simp [hqp] at this
                exact ⟨q, this, h2, h3⟩
            · rw [h1] at hl
              injection hl with hl
              have := mem_replaceProc_of (p' := after i s.g p) hpm
              simp [after_pid] at this
              exact ⟨_, this, by rw [after_pid]; exact hl, hal'⟩
      · simp [hal]; exact h
  | killDuring pid => exact h

theorem lockOK_step {prog : Prog} (hinh : inhOK prog = true) {s : State} (h : LockOK s) (e : Event) :
    LockOK (step prog s e) :=
  step_lift hinh (P := LockOK) (fun _ e h => lockOK_stepCore h e) (fun _ _ h => h) s e h

theorem lockOK_run {prog : Prog} (hinh : inhOK prog = true) (se : Bool) (es : List Event) :
    LockOK (run prog se es) := by
  unfold run
  have h0 := lockOK_init se
  generalize init se = s0 at h0
  induction es generalizing s0 with
  | nil => exact h0
  | cons e es ih => exact ih _ (lockOK_step hinh h0 e)

theorem lock_none_of_quiescent {s : State} (h : LockOK s) (hq : quiescent s = true) : s.g.lock = none := by
  cases hl : s.g.lock with
  | none => rfl
  | some pid =>
    obtain ⟨p, hp, _, ha⟩ := h pid hl
    simp only [quiescent, List.all_eq_true] at hq
    have := hq p hp
    simp [ha] at this

end NA.C19

namespace NA.C19

/-- Every edge the analysis considers possible goes forward (so a run that follows them terminates). -/
def forward (D : Dom) (prog : Prog) (ann : Ann D) : Bool :=
  (List.range prog.length).all fun pc =>
    match prog[pc]?, D.at ann pc with
    | some i, some a =>
      (match i.cmd with
       | .exit _ => true
       | _ => false) ||
      (((D.tf i.cmd a true).isNone || decide (pc < i.ok)) && ((D.tf i.cmd a false).isNone || decide (pc < i.fail)))
    | _, _ => true

theorem forward_at {D : Dom} {prog : Prog} {ann : Ann D} (h : forward D prog ann = true) {pc : Nat} {i : Instr}
    {a : D.F} (hi : prog[pc]? = some i) (ha : D.at ann pc = some a) (hne : ∀ n, i.cmd ≠ .exit n) :
    (∀ x, D.tf i.cmd a true = some x → pc < i.ok) ∧ (∀ x, D.tf i.cmd a false = some x → pc < i.fail) := by
  simp only [forward, List.all_eq_true, List.mem_range] at h
  have hlt : pc < prog.length := by
    rcases Nat.lt_or_ge pc prog.length with h1 | h1
    · exact h1
    · have := List.getElem?_eq_none h1; simp [this] at hi
  have := h pc hlt
  simp only [hi, ha, Bool.and_eq_true, Bool.or_eq_true, decide_eq_true_eq] at this
  simp only [Bool.false_eq_true, false_or] at this
  constructor
  · intro x hx; rcases this.1 with h1 | h1
    · simp [hx] at h1
    · exact h1
  · intro x hx; rcases this.2 with h1 | h1
    · simp [hx] at h1
    · exact h1

theorem findProc_replace {ps : List Proc} {pid : Nat} {p p' : Proc} (hf : findProc ps pid = some p)
    (hp : p'.pid = pid) : findProc (replaceProc ps p') pid = some p' := by
  unfold findProc replaceProc at *
  induction ps with
  | nil => simp at hf
  | cons q qs ih =>
    simp only [List.map_cons, List.find?_cons] at hf ⊢
    by_cases hq : q.pid = pid
    · simp [hq, hp]
    · have hq' : (q.pid == pid) = false := by simpa using hq
      rw [hq'] at hf
      have hne : ¬ q.pid = p'.pid := by rw [hp]; exact hq
      simp only [hne, if_false, hq']
      exact ih hf

/-- State of an invocation that runs alone. -/
structure CalmSt (ann : Ann calm) (s : State) (pid : Nat) : Prop where
  others : ∀ q ∈ s.procs, q.pid ≠ pid → q.alive = false
  me : ∃ p, findProc s.procs pid = some p ∧
        ((p.alive = true ∧ ∃ a, calm.at ann p.pc = some a ∧ Γ3 a s.g p) ∨
         (p.alive = false ∧ p.exit = some 0 ∧ s.g.newest = true))

theorem newest_release {g : G} {pid : Nat} : (release g pid).newest = g.newest := by
  unfold release; split <;> rfl

/-- `runAlone` without the orphan mechanism (the invocation that runs alone was never hit by `killDuring`). -/
def runAloneC (prog : Prog) : Nat → State → Nat → State
  | 0, s, _ => s
  | fuel + 1, s, pid =>
    match findProc s.procs pid with
    | some p => if p.alive then runAloneC prog fuel (stepCore prog s (.step pid)) pid else s
    | none => s

theorem stepCore_step_dying {prog : Prog} (s : State) (pid : Nat) : (stepCore prog s (.step pid)).dying = s.dying := by
  simp only [stepCore]
  split
  · split <;> rfl
  · rfl

theorem runAlone_eq {prog : Prog} (pid : Nat) : ∀ (n : Nat) (s : State), s.dying.contains pid = false →
    runAlone prog n s pid = runAloneC prog n s pid := by
  intro n
  induction n with
  | zero => intro s _; rfl
  | succ n ih =>
    intro s hd
    have hst : step prog s (.step pid) = stepCore prog s (.step pid) := by
      simp only [step, hd]; rfl
    cases hf : findProc s.procs pid with
    | none => simp [runAlone, runAloneC, hf]
    | some p =>
      by_cases hal : p.alive = true
      · simp only [runAlone, runAloneC, hf, hal, if_true, hst]
        exact ih _ (by rw [stepCore_step_dying]; exact hd)
      · simp [runAlone, runAloneC, hf, hal]

/-- One step of the invocation that runs alone. -/
theorem calm_step {prog : Prog} {ann1 : Ann safety} {ann2 : Ann numbering} {ann : Ann calm}
    (hc : check calm prog ann = true) (hfw : forward calm prog ann = true)
    {ann4 : Ann code} {s : State} {pid : Nat} (h1 : Inv1 ann1 s) (h2 : Inv2 ann2 s) (h4 : Inv4 ann4 s) (hcs : CalmSt ann s pid)
    {p : Proc} (hf : findProc s.procs pid = some p) (hal : p.alive = true) :
    CalmSt ann (stepCore prog s (.step pid)) pid ∧
    ∃ p', findProc (stepCore prog s (.step pid)).procs pid = some p' ∧ (p'.alive = true → p.pc < p'.pc) := by
  obtain ⟨hoth, p0, hf0, hme⟩ := hcs
  rw [hf] at hf0; injection hf0 with hf0; subst hf0
  obtain ⟨hpm, hpp⟩ := findProc_some hf
  have hme' : ∃ a, calm.at ann p.pc = some a ∧ Γ3 a s.g p := by
    rcases hme with ⟨_, a, ha, hΓ⟩ | ⟨hd, _⟩
    · exact ⟨a, ha, hΓ⟩
    · rw [hal] at hd; cases hd
  obtain ⟨a, ha, hΓ⟩ := hme'
  have hlt : p.pc < prog.length := by rw [← check_len hc]; exact at_some_lt ha
  have hi : instrAt prog p.pc = some prog[p.pc] := by simp [instrAt, hlt]
  generalize prog[p.pc] = i at hi
  obtain ⟨hreq, _, _, hedge1, hedge2⟩ := check_step hc (by simpa [instrAt] using hi) ha
  have hoth' : ∀ p' : Proc, p'.pid = pid → ∀ q ∈ replaceProc s.procs p', q.pid ≠ pid → q.alive = false := by
    intro p' hp' q hq hqp
    rcases mem_replaceProc hq with ⟨rfl, _⟩ | ⟨hq1, _⟩
    · exact absurd hp' hqp
    · exact hoth q hq1 hqp
  simp only [stepCore, hf, hal, if_true]
  by_cases hex : ∃ n, i.cmd = .exit n
  · obtain ⟨n, hn⟩ := hex
    rw [stepProc_exit hi hn]
    have hr : req3 i.cmd a = true := hreq
    rw [hn] at hr
    have hn0 : n = 0 ∧ a.c.newestF = true := by
      cases n with
      | zero => simp [req3] at hr; exact ⟨rfl, hr.2⟩
      | succ m => simp [req3] at hr
    obtain ⟨hn0, hnew⟩ := hn0
    subst hn0
    have hfp := findProc_replace (p' := { p with alive := false, exit := some 0 }) hf hpp
    refine ⟨⟨hoth' _ hpp, _, hfp, Or.inr ⟨rfl, rfl, ?_⟩⟩, _, hfp, fun h => by simp at h⟩
    rw [newest_release]; exact hΓ.c.newestF hnew
  · have hne : ∀ n, i.cmd ≠ .exit n := fun n h => hex ⟨n, h⟩
    obtain ⟨hfw1, hfw2⟩ := forward_at hfw (by simpa [instrAt] using hi) ha hne
    rw [stepProc_nonexit hi hne]
    obtain ⟨x, hx, hΓ'⟩ := own3 (i := i) hΓ h1.gi h4.gi h2.dh h2.vg (h2.vp p hpm) h2.n hreq
    have hpid : (after i s.g p).pid = pid := by rw [after_pid]; exact hpp
    have hfp := findProc_replace (p' := after i s.g p) hf hpid
    have hal' : (after i s.g p).alive = true := by rw [after_alive, exec_alive]; exact hal
    cases hok : (exec i.cmd s.g p).2.2
    · rw [hok] at hx
      obtain ⟨b, hb1, hb2⟩ := hedge2 x hx
      have hpc : (after i s.g p).pc = i.fail := by simp [after, hok]
      refine ⟨⟨hoth' _ hpid, _, hfp, Or.inl ⟨hal', b, by rw [hpc]; exact hb1, hΓ'.mono hb2⟩⟩, _, hfp, fun _ => ?_⟩
      rw [hpc]; exact hfw2 x hx
    · rw [hok] at hx
      obtain ⟨b, hb1, hb2⟩ := hedge1 x hx
      have hpc : (after i s.g p).pc = i.ok := by simp [after, hok]
      refine ⟨⟨hoth' _ hpid, _, hfp, Or.inl ⟨hal', b, by rw [hpc]; exact hb1, hΓ'.mono hb2⟩⟩, _, hfp, fun _ => ?_⟩
      rw [hpc]; exact hfw1 x hx

/-- The invocation that runs alone terminates with exit status 0 and the newest revision current. -/
theorem calm_run {prog : Prog} {ann1 : Ann safety} {ann2 : Ann numbering} {ann : Ann calm}
    {ann4 : Ann code} (hc1 : check safety prog ann1 = true) (hc2 : check numbering prog ann2 = true)
    (hc4 : check code prog ann4 = true)
    (hc : check calm prog ann = true) (hfw : forward calm prog ann = true) (pid : Nat) :
    ∀ (m : Nat) (s : State), Inv1 ann1 s → Inv2 ann2 s → Inv4 ann4 s → CalmSt ann s pid →
      (∀ p, findProc s.procs pid = some p → p.alive = true → prog.length - p.pc ≤ m) →
      ∃ p, findProc (runAloneC prog (m + 1) s pid).procs pid = some p ∧ p.alive = false ∧ p.exit = some 0 ∧
        (runAloneC prog (m + 1) s pid).g.newest = true ∧
        (∀ q ∈ (runAloneC prog (m + 1) s pid).procs, q.pid ≠ pid → q.alive = false) := by
  intro m
  induction m with
  | zero =>
    intro s h1 h2 h4 hcs hm
    obtain ⟨hoth, p, hf, hme⟩ := hcs
    rcases hme with ⟨hal, a, ha, _⟩ | ⟨hd, he, hn⟩
    · have hlt : p.pc < prog.length := by rw [← check_len hc]; exact at_some_lt ha
      have := hm p hf hal
      omega
    · refine ⟨p, ?_, hd, he, ?_, ?_⟩ <;> simp [runAloneC, hf, hd] <;> first | exact hn | exact hoth
  | succ m ih =>
    intro s h1 h2 h4 hcs hm
    obtain ⟨hoth, p, hf, hme⟩ := hcs
    by_cases hal : p.alive = true
    · obtain ⟨hcs', p', hf', hpc⟩ := calm_step hc hfw h1 h2 h4 ⟨hoth, p, hf, hme⟩ hf hal
      have e : runAloneC prog (m + 1 + 1) s pid = runAloneC prog (m + 1) (stepCore prog s (.step pid)) pid := by
        simp [runAloneC, hf, hal]
      rw [e]
      apply ih _ (inv1_stepCore hc1 h1 _) (inv2_stepCore hc1 hc2 h1 h2 _) (inv4_stepCore hc1 hc4 h1 h2 h4 _) hcs'
      intro q hq hqa
      rw [hf'] at hq; injection hq with hq; subst hq
      have := hpc hqa
      have := hm p hf hal
      omega
    · have hd : p.alive = false := by simpa using hal
      rcases hme with ⟨hal', _⟩ | ⟨_, he, hn⟩
      · rw [hd] at hal'; cases hal'
      · refine ⟨p, ?_, hd, he, ?_, ?_⟩ <;> simp [runAloneC, hf, hd] <;> first | exact hn | exact hoth

end NA.C19

namespace NA.C19

theorem inv1_runAlone {prog : Prog} {ann1 : Ann safety} (hc1 : check safety prog ann1 = true) (pid : Nat) :
    ∀ (n : Nat) (s : State), Inv1 ann1 s → Inv1 ann1 (runAloneC prog n s pid) := by
  intro n
  induction n with
  | zero => intro s h; exact h
  | succ n ih =>
    intro s h
    simp only [runAloneC]
    split
    · split
      · exact ih _ (inv1_stepCore hc1 h _)
      · exact h
    · exact h

theorem findProc_append_new {ps : List Proc} {n : Nat} {p : Proc} (hfresh : ∀ q ∈ ps, q.pid < n) (hp : p.pid = n) :
    findProc (ps ++ [p]) n = some p := by
  unfold findProc
  induction ps with
  | nil => simp [hp]
  | cons q qs ih =>
    have hq := hfresh q (by simp)
    have : (q.pid == n) = false := by simp; omega
    simp only [List.cons_append, List.find?_cons, this]
    exact ih (fun r hr => hfresh r (by simp [hr]))

/-- Exit status of invocation `pid` (none = still running, killed or unknown). -/
def exitOf (s : State) (pid : Nat) : Option Nat := (findProc s.procs pid).bind (·.exit)

/-! ### `dying` only names invocations that exist -/

def DyingOK (s : State) : Prop := ∀ pid ∈ s.dying, pid < s.npid

theorem dyingOK_step {prog : Prog} {ann1 : Ann safety} {s : State} (h1 : Inv1 ann1 s) (h : DyingOK s) (e : Event) :
    DyingOK (step prog s e) := by
  have core : ∀ (s : State) (e : Event), DyingOK s → DyingOK (stepCore prog s e) := by
    intro s e h pid hp
    cases e with
    | commit g po em => exact h pid hp
    | spawn => have := h pid hp; show pid < s.npid + 1; omega
    | killDuring q => exact h pid hp
    | step q =>
      have e1 : (stepCore prog s (.step q)).dying = s.dying := stepCore_step_dying s q
      have e2 : (stepCore prog s (.step q)).npid = s.npid := by
        simp only [stepCore]; split
        · split <;> rfl
        · rfl
      rw [e1] at hp; rw [e2]; exact h pid hp
    | kill q =>
      have e1 : (stepCore prog s (.kill q)).dying = s.dying := by
        simp only [stepCore]; split
        · split <;> rfl
        · rfl
      have e2 : (stepCore prog s (.kill q)).npid = s.npid := by
        simp only [stepCore]; split
        · split <;> rfl
        · rfl
      rw [e1] at hp; rw [e2]; exact h pid hp
  cases e with
  | killDuring q =>
    cases hf : findProc s.procs q with
    | none => simp only [step, hf]; exact h
    | some p =>
      have hlt : q < s.npid := by
        obtain ⟨hpm, hpp⟩ := findProc_some hf
        rw [← hpp]; exact h1.fresh p hpm
      have hadd : ∀ g : G, DyingOK { s with g := g, dying := q :: s.dying } := by
        intro g pid hp
        simp only [List.mem_cons] at hp
        rcases hp with hp | hp
        · rw [hp]; exact hlt
        · exact h pid hp
      cases hi : instrAt prog p.pc with
      | none => simp only [step, hf, hi]; exact core s _ h
      | some i =>
        simp only [step, hf, hi]
        split
        · split
          · exact hadd s.g
          · exact hadd _
        · exact core s _ h
  | step q =>
    simp only [step]
    split
    · apply core
      intro pid hp
      have hp' : pid ∈ (stepCore prog s (.step q)).dying := by
        simp only [List.mem_filter] at hp; exact hp.1
      exact core s (.step q) h pid hp'
    · exact core s _ h
  | commit g po em => exact core s (.commit g po em) h
  | spawn => exact core s .spawn h
  | kill q => exact core s (.kill q) h

theorem dyingOK_run {prog : Prog} {ann1 : Ann safety} (hinh : inhOK prog = true)
    (hc1 : check safety prog ann1 = true) (se : Bool)
    (es : List Event) : DyingOK (run prog se es) := by
  unfold run
  have h0 : Inv1 ann1 (init se) ∧ DyingOK (init se) := ⟨inv1_init hc1 se, fun pid hp => by simp [init] at hp⟩
  generalize init se = s0 at h0
  induction es generalizing s0 with
  | nil => exact h0.2
  | cons e es ih => exact ih _ ⟨inv1_step hinh hc1 h0.1 e, dyingOK_step h0.1 h0.2 e⟩

/-! ### The ghosts do not influence the run -/

/-- A state with the ghost components (`hist`, `trouble`, `edited`, `raced`) blanked. -/
def G.core (g : G) : G := { g with hist := [], trouble := false, edited := false, raced := false }

@[simp] theorem core_store (g : G) : g.core.store = g.store := rfl
@[simp] theorem core_remote (g : G) : g.core.remote = g.remote := rfl
@[simp] theorem core_next (g : G) : g.core.next = g.next := rfl
@[simp] theorem core_dirs (g : G) : g.core.dirs = g.dirs := rfl
@[simp] theorem core_current (g : G) : g.core.current = g.current := rfl
@[simp] theorem core_lock (g : G) : g.core.lock = g.lock := rfl
@[simp] theorem core_sysEmail (g : G) : g.core.sysEmail = g.sysEmail := rfl
@[simp] theorem core_nextHead (g : G) : g.core.nextHead = g.nextHead := rfl
@[simp] theorem core_nextTree (g : G) : g.core.nextTree = g.nextTree := rfl
@[simp] theorem core_uptodateDir (g : G) : g.core.uptodateDir = g.uptodateDir := rfl
theorem core_snh (g : G) (h : Nat) : (g.setNextHead h).core = g.core.setNextHead h := by
  unfold G.setNextHead; cases hn : g.next <;> simp [hn, G.core]

theorem exec_core_pull (g : G) (p : Proc) :
    (exec .gitPullMerge g p).1.core = (exec .gitPullMerge g.core p).1.core ∧
    (exec .gitPullMerge g p).2 = (exec .gitPullMerge g.core p).2 := by
  simp only [exec, core_store, core_remote, core_sysEmail, core_nextHead]
  cases hh : g.nextHead with
  | none => exact ⟨rfl, rfl⟩
  | some h =>
    by_cases h1 : g.remote = p.base
    · simp [h1]; rfl
    · by_cases h2 : h = p.base
      · simp [h1, h2, core_snh]; rfl
      · by_cases h3 : ((commitAt g.store g.remote).pol != (commitAt g.store p.base).pol &&
            (commitAt g.store h).pol != (commitAt g.store p.base).pol &&
            (commitAt g.store g.remote).pol != (commitAt g.store h).pol) = true
        · simp [h1, h2, h3]; rfl
        · simp [h1, h2, h3, core_snh]; rfl

theorem exec_core (c : Cmd) (g : G) (p : Proc) :
    (exec c g p).1.core = (exec c g.core p).1.core ∧ (exec c g p).2 = (exec c g.core p).2 := by
  by_cases hc : c = .gitPullMerge
  · subst hc; exact exec_core_pull g p
  cases c <;> (try (exact absurd rfl hc)) <;>
    simp only [exec, core_store, core_remote, core_next, core_dirs, core_current, core_lock, core_sysEmail,
      core_nextHead, core_nextTree, core_uptodateDir] <;>
    (repeat' split) <;> first | exact ⟨rfl, rfl⟩ | (simp_all [G.core, G.setNextHead]; done) | skip
  all_goals (simp only [*, if_false, if_true, ite_false, ite_true, core_snh, Bool.false_eq_true]; first | exact ⟨rfl, rfl⟩ | (simp [G.core, G.setNextHead]; done) | skip)

theorem core_release (g : G) (pid : Nat) : (release g pid).core = (release g.core pid).core := by
  by_cases h : g.lock = some pid <;> simp [release, G.core, h]

theorem exec_sim {c : Cmd} {g1 g2 : G} {p : Proc} (h : g1.core = g2.core) :
    (exec c g1 p).1.core = (exec c g2 p).1.core ∧ (exec c g1 p).2 = (exec c g2 p).2 := by
  obtain ⟨a1, a2⟩ := exec_core c g1 p
  obtain ⟨b1, b2⟩ := exec_core c g2 p
  rw [a1, a2, b1, b2, h]; exact ⟨rfl, rfl⟩

theorem stepProc_sim {prog : Prog} {g1 g2 : G} {p : Proc} (h : g1.core = g2.core) :
    (stepProc prog g1 p).1.core = (stepProc prog g2 p).1.core ∧ (stepProc prog g1 p).2 = (stepProc prog g2 p).2 := by
  have hrel : (release g1 p.pid).core = (release g2 p.pid).core := by
    rw [core_release g1, core_release g2, h]
  cases hi : instrAt prog p.pc with
  | none =>
    have e : ∀ g, stepProc prog g p = (release g p.pid, { p with alive := false, exit := some 0 }) := by
      intro g; simp [stepProc, hi]
    rw [e g1, e g2]; exact ⟨hrel, rfl⟩
  | some i =>
    by_cases hex : ∃ n, i.cmd = .exit n
    · obtain ⟨n, hn⟩ := hex
      rw [stepProc_exit (g := g1) hi hn, stepProc_exit (g := g2) hi hn]; exact ⟨hrel, rfl⟩
    · have hne : ∀ n, i.cmd ≠ .exit n := fun n h => hex ⟨n, h⟩
      obtain ⟨e1, e2⟩ := exec_sim (c := i.cmd) (p := p) h
      rw [stepProc_nonexit (g := g1) hi hne, stepProc_nonexit (g := g2) hi hne]
      refine ⟨e1, ?_⟩
      simp only [after]; rw [e2]

/-- Two states that differ only in the ghosts. -/
def Sim (s t : State) : Prop := s.g.core = t.g.core ∧ s.procs = t.procs ∧ s.npid = t.npid

theorem sim_stepCore {prog : Prog} {s t : State} (h : Sim s t) (pid : Nat) :
    Sim (stepCore prog s (.step pid)) (stepCore prog t (.step pid)) := by
  obtain ⟨hg, hp, hn⟩ := h
  simp only [stepCore, ← hp]
  cases hf : findProc s.procs pid with
  | none => exact ⟨hg, hp, hn⟩
  | some p =>
    by_cases hal : p.alive = true
    · simp only [hal, if_true]
      obtain ⟨e1, e2⟩ := stepProc_sim (prog := prog) (p := p) hg
      exact ⟨e1, by simp only [e2], hn⟩
    · simp only [hal]; exact ⟨hg, hp, hn⟩

theorem sim_runAloneC {prog : Prog} (pid : Nat) : ∀ (n : Nat) (s t : State), Sim s t →
    Sim (runAloneC prog n s pid) (runAloneC prog n t pid) := by
  intro n
  induction n with
  | zero => intro s t h; exact h
  | succ n ih =>
    intro s t h
    simp only [runAloneC, ← h.2.1]
    cases hf : findProc s.procs pid with
    | none => exact h
    | some p =>
      by_cases hal : p.alive = true
      · simp only [hal, if_true]; exact ih _ _ (sim_stepCore h pid)
      · simp only [hal]; exact h

theorem newest_core (g : G) : g.newest = g.core.newest := rfl

/-- The ghosts replaced by values that make the numbering invariant true: every number up to
max(POLICY file, link), newest first. -/
def G.reset (g : G) : G :=
  { g with trouble := false, edited := false, raced := false, hist := (List.range (max (Rg g) (Lk g) + 1)).reverse }

theorem reset_core (g : G) : g.reset.core = g.core := rfl

theorem lookupDir_mem {ds : List (Nat × Dir)} {n : Nat} {d : Dir} (h : lookupDir ds n = some d) : (n, d) ∈ ds := by
  induction ds with
  | nil => simp [lookupDir] at h
  | cons x xs ih =>
    obtain ⟨k, e⟩ := x
    by_cases hk : k = n
    · simp [lookupDir, hk] at h; subst h; subst hk; simp
    · simp [lookupDir, hk] at h; exact List.mem_cons_of_mem _ (ih h)

/-- The `_partial` promotion theorem, generic in the program. -/
theorem promotes_of_checks {prog : Prog} {ann1 : Ann safety} {ann2 : Ann numbering} {ann4 : Ann code} {ann : Ann calm}
    (hinh : inhOK prog = true)
    (hc1 : check safety prog ann1 = true) (hc2 : check numbering prog ann2 = true)
    (hc4 : check code prog ann4 = true)
    (hc : check calm prog ann = true) (hfw : forward calm prog ann = true)
    (se : Bool) (es : List Event)
    (hq : quiescent (run prog se es) = true)
    (hgood : (commitAt (run prog se es).g.store (run prog se es).g.remote).good = true)
    (hstale : (run prog se es).g.staleNext = false)
    (hcov : (run prog se es).g.numbersCovered = true) :
    quiescent (runNew prog (prog.length + 1) (run prog se es)) = true ∧
    exitOf (runNew prog (prog.length + 1) (run prog se es)) (run prog se es).npid = some 0 ∧
    (runNew prog (prog.length + 1) (run prog se es)).g.newest = true := by
  obtain ⟨h1, h2, h4⟩ := inv124_run hinh hc1 hc2 hc4 se es
  have hlk := lock_none_of_quiescent (lockOK_run (prog := prog) hinh se es) hq
  have hdy := dyingOK_run (prog := prog) hinh hc1 se es
  generalize run prog se es = s at *
  have hdead : ∀ q ∈ s.procs, q.alive = false := by
    intro q hq'
    simp only [quiescent, List.all_eq_true] at hq
    simpa using hq q hq'
  -- the same state with harmless ghosts
  let t : State := { s with g := s.g.reset }
  have hM : ∀ x, x ∈ (List.range (max (Rg s.g) (Lk s.g) + 1)).reverse ↔ x ≤ max (Rg s.g) (Lk s.g) := by
    intro x; rw [List.mem_reverse, List.mem_range]; omega
  have t1 : Inv1 ann1 t :=
    ⟨⟨h1.gi.dirs, h1.gi.cur⟩, h1.uniq, h1.fresh, fun p hp ha => by rw [hdead p hp] at ha; cases ha⟩
  have t2 : Inv2 ann2 t := by
    refine ⟨?_, ⟨h2.vg.remote, h2.vg.head⟩, fun p hp => ⟨(h2.vp p hp).base, (h2.vp p hp).hash⟩, fun _ => ⟨?_, ?_⟩,
      fun _ p hp ha => by rw [hdead p hp] at ha; cases ha⟩
    · intro n d hd
      show n ∈ (List.range (max (Rg s.g) (Lk s.g) + 1)).reverse
      rw [hM]
      have := lookupDir_mem hd
      simp only [G.numbersCovered, List.all_eq_true] at hcov
      simpa [Rg, polOf, Lk] using hcov (n, d) this
    · intro x hx
      exact (hM x).mp hx
    · show ((List.range (max (Rg s.g) (Lk s.g) + 1)).reverse).Pairwise (· > ·)
      rw [List.pairwise_reverse]; exact List.pairwise_lt_range
  have t4 : Inv4 ann4 t :=
    ⟨⟨h4.gi.dirs, h4.gi.rpos, h4.gi.hpos⟩, fun p hp ha => by rw [hdead p hp] at ha; cases ha⟩
  have t1' := inv1_stepCore (prog := prog) hc1 t1 .spawn
  have t2' := inv2_stepCore (prog := prog) hc1 hc2 t1 t2 .spawn
  have t4' := inv4_stepCore (prog := prog) hc1 hc4 t1 t2 t4 .spawn
  have hfnew : findProc (stepCore prog t .spawn).procs s.npid = some { pid := s.npid } := by
    simp only [stepCore]; exact findProc_append_new h1.fresh rfl
  obtain ⟨a, ha, hle⟩ := check_entry hc
  have hΓ0 : Γ3 calm.entry t.g { pid := s.npid } := by
    refine ⟨Γ1_entry _ _ rfl, fun _ => Γ2_entry _ _, ?_, ?_⟩
    · exact ⟨fun h => by simp [calm, code] at h, fun h => by simp [calm, code] at h, fun h => by simp [calm, code] at h,
        fun h => by simp [calm, code] at h, fun h => by simp [calm, code] at h, fun h => by simp [calm, code] at h⟩
    · constructor <;> intro hf <;> simp [calm] at hf
      · exact Or.inl hlk
      · exact hstale
      · exact hgood
      · exact ⟨rfl, rfl⟩
  have hcs : CalmSt ann (stepCore prog t .spawn) s.npid := by
    refine ⟨?_, _, hfnew, Or.inl ⟨rfl, a, ha, ?_⟩⟩
    · intro q hq' hqp
      simp only [stepCore, List.mem_append, List.mem_singleton] at hq'
      rcases hq' with hq' | hq'
      · exact hdead q hq'
      · subst hq'; exact absurd rfl hqp
    · exact (by simpa [stepCore] using hΓ0 : Γ3 calm.entry (stepCore prog t .spawn).g _).mono hle
  obtain ⟨p, hfp, hd, hex, hnew, hoth⟩ :=
    calm_run hc1 hc2 hc4 hc hfw s.npid prog.length _ t1' t2' t4' hcs (by intro p _ _; omega)
  have hinvF := inv1_runAlone hc1 s.npid (prog.length + 1) _ t1'
  -- back to the real state: same processes, same database
  have hsim : Sim (runAloneC prog (prog.length + 1) (stepCore prog s .spawn) s.npid)
      (runAloneC prog (prog.length + 1) (stepCore prog t .spawn) s.npid) :=
    sim_runAloneC s.npid _ _ _ ⟨rfl, rfl, rfl⟩
  have hrun : runNew prog (prog.length + 1) s = runAloneC prog (prog.length + 1) (stepCore prog s .spawn) s.npid := by
    unfold runNew
    have : step prog s .spawn = stepCore prog s .spawn := rfl
    rw [this]
    apply runAlone_eq
    show s.dying.contains s.npid = false
    cases hcn : s.dying.contains s.npid with
    | false => rfl
    | true =>
      have := hdy s.npid (by simpa using hcn)
      omega
  rw [hrun]
  obtain ⟨sg, sp, _⟩ := hsim
  refine ⟨?_, ?_, ?_⟩
  · simp only [quiescent, List.all_eq_true, sp]
    intro q hq'
    by_cases hqp : q.pid = s.npid
    · obtain ⟨hpm, hpp⟩ := findProc_some hfp
      have : q = p := hinvF.uniq q hq' p hpm (by rw [hqp, hpp])
      simp [this, hd]
    · simp [hoth q hq' hqp]
  · simp [exitOf, sp, hfp, hex]
  · rw [newest_core, sg, ← newest_core]; exact hnew

end NA.C19
