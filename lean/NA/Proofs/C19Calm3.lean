import NA.Proofs.C19Calm2
/-! # C19 — calm domain: an undisturbed run from a good start ends with the newest revision current -/
set_option linter.unusedVariables false
set_option linter.unnecessarySimpa false
namespace NA.C19

theorem tf2_total (c : Cmd) (a : F2) (ok : Bool) : ∃ x, tf2 c a ok = some x := by
  cases c <;> simp [tf2] <;> (try split) <;> simp <;> (try split) <;> simp

/-- Own step in the calm domain: the branch taken is one the transfer function foresees, and its
facts hold afterwards. -/
theorem own3 {i : Instr} {a : F3} {g : G} {p : Proc}
    (hΓ : Γ3 a g p) (hgi : GI1 g) (hdh : DirsInHist g) (hvg : VG g) (hvp : VP g p) (hN : quiet g → N g)
    (hreq : req3 i.cmd a = true) :
    ∃ x, tf3 i.cmd a (exec i.cmd g p).2.2 = some x ∧ Γ3 x (exec i.cmd g p).1 (after i g p) := by
  have hc := okc_all i.cmd hΓ hvg hgi hdh
    (pc := if (exec i.cmd g p).2.2 then i.ok else i.fail) (t := (exec i.cmd g p).2.1.touched || i.cmd.mutating)
  unfold OkC at hc
  cases htc : tfc i.cmd a (exec i.cmd g p).2.2 with
  | none => rw [htc] at hc; exact hc.elim
  | some xc =>
    rw [htc] at hc
    obtain ⟨xn, hxn⟩ := tf2_total i.cmd a.n (exec i.cmd g p).2.2
    have hx1 : ∃ xs, tf1 i.cmd a.s (exec i.cmd g p).2.2 = some xs := by simp [tf1]
    obtain ⟨xs, hxs⟩ := hx1
    have hr1 : req1 i.cmd a.s = true := by
      simp only [req3, Bool.and_eq_true] at hreq; exact hreq.1
    refine ⟨⟨xn, xs, xc⟩, by simp [tf3, hxn, hxs, htc], ?_, ?_, hc⟩
    · exact own1 hΓ.s hr1 hxs
    · intro hq
      have haq := tfc_quiet htc hq
      have hq' : quiet (exec i.cmd g p).1 := hc.quietF hq
      exact own2 (hΓ.n haq) (hN (quiet_exec hq')) hvg hvp hq' hxn

/-! ### The lock is held by a live process or by nobody -/

def LockOK (s : State) : Prop := ∀ pid, s.g.lock = some pid → ∃ p ∈ s.procs, p.pid = pid ∧ p.alive = true

theorem lockOK_init (se : Bool) : LockOK (init se) := by intro pid h; simp [init] at h

theorem mem_replaceProc_of {ps : List Proc} {q p' : Proc} (hq : q ∈ ps) :
    (if q.pid = p'.pid then p' else q) ∈ replaceProc ps p' := by
  unfold replaceProc
  exact List.mem_map.mpr ⟨q, hq, rfl⟩

theorem lockOK_step {prog : Prog} {s : State} (h : LockOK s) (e : Event) : LockOK (step prog s e) := by
  cases e with
  | commit good pol email => intro pid hl; exact h pid (by simpa [step, applyCommit] using hl)
  | spawn =>
    intro pid hl
    obtain ⟨p, hp, h1, h2⟩ := h pid (by simpa [step] using hl)
    exact ⟨p, by simp [step, hp], h1, h2⟩
  | kill pid0 =>
    simp only [step]
    cases hf : findProc s.procs pid0 with
    | none => exact h
    | some p =>
      obtain ⟨hpm, hpp⟩ := findProc_some hf
      by_cases hal : p.alive = true
      · simp only [hal, if_true]
        intro pid hl
        simp only [release] at hl
        split at hl
        · simp at hl
        · next hne =>
          obtain ⟨q, hq, h1, h2⟩ := h pid hl
          have hqp : q.pid ≠ pid0 := by
            intro heq; apply hne; rw [hl, ← h1, heq]
          have hqp' : q.pid ≠ p.pid := by rw [hpp]; exact hqp
          have := mem_replaceProc_of (p' := { p with alive := false, exit := none }) hq
          simp [hqp'] at this
          exact ⟨q, this, h1, h2⟩
      · simp [hal]; exact h
  | step pid0 =>
    simp only [step]
    cases hf : findProc s.procs pid0 with
    | none => exact h
    | some p =>
      obtain ⟨hpm, hpp⟩ := findProc_some hf
      by_cases hal : p.alive = true
      · simp only [hal, if_true]
        cases hi : instrAt prog p.pc with
        | none =>
          have : stepProc prog s.g p = (release s.g p.pid, { p with alive := false, exit := some 0 }) := by
            simp [stepProc, hi]
          rw [this]
          intro pid hl
          simp only [release] at hl
          split at hl
          · simp at hl
          · next hne =>
            obtain ⟨q, hq, h1, h2⟩ := h pid hl
            have hqp : q.pid ≠ p.pid := by
              intro heq; apply hne; rw [hl, ← h1, heq]
            have := mem_replaceProc_of (p' := { p with alive := false, exit := some 0 }) hq
            simp [hqp] at this
            exact ⟨q, this, h1, h2⟩
        | some i =>
          by_cases hex : ∃ n, i.cmd = .exit n
          · obtain ⟨n, hn⟩ := hex
            rw [stepProc_exit hi hn]
            intro pid hl
            simp only [release] at hl
            split at hl
            · simp at hl
            · next hne =>
              obtain ⟨q, hq, h1, h2⟩ := h pid hl
              have hqp : q.pid ≠ p.pid := by
                intro heq; apply hne; rw [hl, ← h1, heq]
              have := mem_replaceProc_of (p' := { p with alive := false, exit := some n }) hq
              simp [hqp] at this
              exact ⟨q, this, h1, h2⟩
          · have hne : ∀ n, i.cmd ≠ .exit n := fun n h => hex ⟨n, h⟩
            rw [stepProc_nonexit hi hne]
            intro pid hl
            have hal' : (after i s.g p).alive = true := by rw [after_alive, exec_alive]; exact hal
            rcases exec_lock i.cmd s.g p with h1 | ⟨h0, h1⟩
            · rw [h1] at hl
              obtain ⟨q, hq, h2, h3⟩ := h pid hl
              have := mem_replaceProc_of (p' := after i s.g p) hq
              by_cases hqp : q.pid = (after i s.g p).pid
              · simp [hqp] at this
                exact ⟨_, this, by rw [← hqp]; exact h2, hal'⟩
              · simp [hqp] at this
                exact ⟨q, this, h2, h3⟩
            · rw [h1] at hl
              injection hl with hl
              have := mem_replaceProc_of (p' := after i s.g p) hpm
              simp [after_pid] at this
              exact ⟨_, this, by rw [after_pid]; exact hl, hal'⟩
      · simp [hal]; exact h

theorem lockOK_run {prog : Prog} (se : Bool) (es : List Event) : LockOK (run prog se es) := by
  unfold run
  have h0 := lockOK_init se
  generalize init se = s0 at h0
  induction es generalizing s0 with
  | nil => exact h0
  | cons e es ih => exact ih _ (lockOK_step h0 e)

theorem lock_none_of_quiescent {s : State} (h : LockOK s) (hq : quiescent s = true) : s.g.lock = none := by
  cases hl : s.g.lock with
  | none => rfl
  | some pid =>
    obtain ⟨p, hp, _, ha⟩ := h pid hl
    simp only [quiescent, List.all_eq_true] at hq
    have := hq p hp
    simp [ha] at this

end NA.C19

namespace NA.C19

/-- Every edge the analysis considers possible goes forward (so a run that follows them terminates). -/
def forward (D : Dom) (prog : Prog) (ann : Ann D) : Bool :=
  (List.range prog.length).all fun pc =>
    match prog[pc]?, D.at ann pc with
    | some i, some a =>
      (match i.cmd with
       | .exit _ => true
       | _ => false) ||
      (((D.tf i.cmd a true).isNone || decide (pc < i.ok)) && ((D.tf i.cmd a false).isNone || decide (pc < i.fail)))
    | _, _ => true

theorem forward_at {D : Dom} {prog : Prog} {ann : Ann D} (h : forward D prog ann = true) {pc : Nat} {i : Instr}
    {a : D.F} (hi : prog[pc]? = some i) (ha : D.at ann pc = some a) (hne : ∀ n, i.cmd ≠ .exit n) :
    (∀ x, D.tf i.cmd a true = some x → pc < i.ok) ∧ (∀ x, D.tf i.cmd a false = some x → pc < i.fail) := by
  simp only [forward, List.all_eq_true, List.mem_range] at h
  have hlt : pc < prog.length := by
    rcases Nat.lt_or_ge pc prog.length with h1 | h1
    · exact h1
    · have := List.getElem?_eq_none h1; simp [this] at hi
  have := h pc hlt
  simp only [hi, ha, Bool.and_eq_true, Bool.or_eq_true, decide_eq_true_eq] at this
  simp only [Bool.false_eq_true, false_or] at this
  constructor
  · intro x hx; rcases this.1 with h1 | h1
    · simp [hx] at h1
    · exact h1
  · intro x hx; rcases this.2 with h1 | h1
    · simp [hx] at h1
    · exact h1

theorem findProc_replace {ps : List Proc} {pid : Nat} {p p' : Proc} (hf : findProc ps pid = some p)
    (hp : p'.pid = pid) : findProc (replaceProc ps p') pid = some p' := by
  unfold findProc replaceProc at *
  induction ps with
  | nil => simp at hf
  | cons q qs ih =>
    simp only [List.map_cons, List.find?_cons] at hf ⊢
    by_cases hq : q.pid = pid
    · simp [hq, hp]
    · have hq' : (q.pid == pid) = false := by simpa using hq
      rw [hq'] at hf
      have hne : ¬ q.pid = p'.pid := by rw [hp]; exact hq
      simp only [hne, if_false, hq']
      exact ih hf

/-- State of an invocation that runs alone. -/
structure CalmSt (ann : Ann calm) (s : State) (pid : Nat) : Prop where
  others : ∀ q ∈ s.procs, q.pid ≠ pid → q.alive = false
  me : ∃ p, findProc s.procs pid = some p ∧
        ((p.alive = true ∧ ∃ a, calm.at ann p.pc = some a ∧ Γ3 a s.g p) ∨
         (p.alive = false ∧ p.exit = some 0 ∧ s.g.newest = true))

theorem newest_release {g : G} {pid : Nat} : (release g pid).newest = g.newest := by
  unfold release; split <;> rfl

/-- One step of the invocation that runs alone. -/
theorem calm_step {prog : Prog} {ann1 : Ann safety} {ann2 : Ann numbering} {ann : Ann calm}
    (hc : check calm prog ann = true) (hfw : forward calm prog ann = true)
    {s : State} {pid : Nat} (h1 : Inv1 ann1 s) (h2 : Inv2 ann2 s) (hcs : CalmSt ann s pid)
    {p : Proc} (hf : findProc s.procs pid = some p) (hal : p.alive = true) :
    CalmSt ann (step prog s (.step pid)) pid ∧
    ∃ p', findProc (step prog s (.step pid)).procs pid = some p' ∧ (p'.alive = true → p.pc < p'.pc) := by
  obtain ⟨hoth, p0, hf0, hme⟩ := hcs
  rw [hf] at hf0; injection hf0 with hf0; subst hf0
  obtain ⟨hpm, hpp⟩ := findProc_some hf
  have hme' : ∃ a, calm.at ann p.pc = some a ∧ Γ3 a s.g p := by
    rcases hme with ⟨_, a, ha, hΓ⟩ | ⟨hd, _⟩
    · exact ⟨a, ha, hΓ⟩
    · rw [hal] at hd; cases hd
  obtain ⟨a, ha, hΓ⟩ := hme'
  have hlt : p.pc < prog.length := by rw [← check_len hc]; exact at_some_lt ha
  have hi : instrAt prog p.pc = some prog[p.pc] := by simp [instrAt, hlt]
  generalize prog[p.pc] = i at hi
  obtain ⟨hreq, _, _, hedge1, hedge2⟩ := check_step hc (by simpa [instrAt] using hi) ha
  have hoth' : ∀ p' : Proc, p'.pid = pid → ∀ q ∈ replaceProc s.procs p', q.pid ≠ pid → q.alive = false := by
    intro p' hp' q hq hqp
    rcases mem_replaceProc hq with ⟨rfl, _⟩ | ⟨hq1, _⟩
    · exact absurd hp' hqp
    · exact hoth q hq1 hqp
  simp only [step, hf, hal, if_true]
  by_cases hex : ∃ n, i.cmd = .exit n
  · obtain ⟨n, hn⟩ := hex
    rw [stepProc_exit hi hn]
    have hr : req3 i.cmd a = true := hreq
    rw [hn] at hr
    have hn0 : n = 0 ∧ a.c.newestF = true := by
      cases n with
      | zero => simp [req3] at hr; exact ⟨rfl, hr.2⟩
      | succ m => simp [req3] at hr
    obtain ⟨hn0, hnew⟩ := hn0
    subst hn0
    have hfp := findProc_replace (p' := { p with alive := false, exit := some 0 }) hf hpp
    refine ⟨⟨hoth' _ hpp, _, hfp, Or.inr ⟨rfl, rfl, ?_⟩⟩, _, hfp, fun h => by simp at h⟩
    rw [newest_release]; exact hΓ.c.newestF hnew
  · have hne : ∀ n, i.cmd ≠ .exit n := fun n h => hex ⟨n, h⟩
    obtain ⟨hfw1, hfw2⟩ := forward_at hfw (by simpa [instrAt] using hi) ha hne
    rw [stepProc_nonexit hi hne]
    obtain ⟨x, hx, hΓ'⟩ := own3 (i := i) hΓ h1.gi h2.dh h2.vg (h2.vp p hpm) h2.n hreq
    have hpid : (after i s.g p).pid = pid := by rw [after_pid]; exact hpp
    have hfp := findProc_replace (p' := after i s.g p) hf hpid
    have hal' : (after i s.g p).alive = true := by rw [after_alive, exec_alive]; exact hal
    cases hok : (exec i.cmd s.g p).2.2
    · rw [hok] at hx
      obtain ⟨b, hb1, hb2⟩ := hedge2 x hx
      have hpc : (after i s.g p).pc = i.fail := by simp [after, hok]
      refine ⟨⟨hoth' _ hpid, _, hfp, Or.inl ⟨hal', b, by rw [hpc]; exact hb1, hΓ'.mono hb2⟩⟩, _, hfp, fun _ => ?_⟩
      rw [hpc]; exact hfw2 x hx
    · rw [hok] at hx
      obtain ⟨b, hb1, hb2⟩ := hedge1 x hx
      have hpc : (after i s.g p).pc = i.ok := by simp [after, hok]
      refine ⟨⟨hoth' _ hpid, _, hfp, Or.inl ⟨hal', b, by rw [hpc]; exact hb1, hΓ'.mono hb2⟩⟩, _, hfp, fun _ => ?_⟩
      rw [hpc]; exact hfw1 x hx

/-- The invocation that runs alone terminates with exit status 0 and the newest revision current. -/
theorem calm_run {prog : Prog} {ann1 : Ann safety} {ann2 : Ann numbering} {ann : Ann calm}
    (hc1 : check safety prog ann1 = true) (hc2 : check numbering prog ann2 = true)
    (hc : check calm prog ann = true) (hfw : forward calm prog ann = true) (pid : Nat) :
    ∀ (m : Nat) (s : State), Inv1 ann1 s → Inv2 ann2 s → CalmSt ann s pid →
      (∀ p, findProc s.procs pid = some p → p.alive = true → prog.length - p.pc ≤ m) →
      ∃ p, findProc (runAlone prog (m + 1) s pid).procs pid = some p ∧ p.alive = false ∧ p.exit = some 0 ∧
        (runAlone prog (m + 1) s pid).g.newest = true ∧
        (∀ q ∈ (runAlone prog (m + 1) s pid).procs, q.pid ≠ pid → q.alive = false) := by
  intro m
  induction m with
  | zero =>
    intro s h1 h2 hcs hm
    obtain ⟨hoth, p, hf, hme⟩ := hcs
    rcases hme with ⟨hal, a, ha, _⟩ | ⟨hd, he, hn⟩
    · have hlt : p.pc < prog.length := by rw [← check_len hc]; exact at_some_lt ha
      have := hm p hf hal
      omega
    · refine ⟨p, ?_, hd, he, ?_, ?_⟩ <;> simp [runAlone, hf, hd] <;> first | exact hn | exact hoth
  | succ m ih =>
    intro s h1 h2 hcs hm
    obtain ⟨hoth, p, hf, hme⟩ := hcs
    by_cases hal : p.alive = true
    · obtain ⟨hcs', p', hf', hpc⟩ := calm_step hc hfw h1 h2 ⟨hoth, p, hf, hme⟩ hf hal
      have e : runAlone prog (m + 1 + 1) s pid = runAlone prog (m + 1) (step prog s (.step pid)) pid := by
        simp [runAlone, hf, hal]
      rw [e]
      apply ih _ (inv1_step hc1 h1 _) (inv2_step hc1 hc2 h1 h2 _) hcs'
      intro q hq hqa
      rw [hf'] at hq; injection hq with hq; subst hq
      have := hpc hqa
      have := hm p hf hal
      omega
    · have hd : p.alive = false := by simpa using hal
      rcases hme with ⟨hal', _⟩ | ⟨_, he, hn⟩
      · rw [hd] at hal'; cases hal'
      · refine ⟨p, ?_, hd, he, ?_, ?_⟩ <;> simp [runAlone, hf, hd] <;> first | exact hn | exact hoth

end NA.C19

namespace NA.C19

theorem inv1_runAlone {prog : Prog} {ann1 : Ann safety} (hc1 : check safety prog ann1 = true) (pid : Nat) :
    ∀ (n : Nat) (s : State), Inv1 ann1 s → Inv1 ann1 (runAlone prog n s pid) := by
  intro n
  induction n with
  | zero => intro s h; exact h
  | succ n ih =>
    intro s h
    simp only [runAlone]
    split
    · split
      · exact ih _ (inv1_step hc1 h _)
      · exact h
    · exact h

theorem findProc_append_new {ps : List Proc} {n : Nat} {p : Proc} (hfresh : ∀ q ∈ ps, q.pid < n) (hp : p.pid = n) :
    findProc (ps ++ [p]) n = some p := by
  unfold findProc
  induction ps with
  | nil => simp [hp]
  | cons q qs ih =>
    have hq := hfresh q (by simp)
    have : (q.pid == n) = false := by simp; omega
    simp only [List.cons_append, List.find?_cons, this]
    exact ih (fun r hr => hfresh r (by simp [hr]))

/-- Exit status of invocation `pid` (none = still running, killed or unknown). -/
def exitOf (s : State) (pid : Nat) : Option Nat := (findProc s.procs pid).bind (·.exit)

/-- The `_partial` promotion theorem, generic in the program. -/
theorem promotes_of_checks {prog : Prog} {ann1 : Ann safety} {ann2 : Ann numbering} {ann : Ann calm}
    (hc1 : check safety prog ann1 = true) (hc2 : check numbering prog ann2 = true)
    (hc : check calm prog ann = true) (hfw : forward calm prog ann = true)
    (se : Bool) (es : List Event)
    (hq : quiescent (run prog se es) = true)
    (hgood : (commitAt (run prog se es).g.store (run prog se es).g.remote).good = true)
    (hstale : (run prog se es).g.staleNext = false)
    (ht : (run prog se es).g.trouble = false) (he : (run prog se es).g.edited = false) :
    quiescent (runNew prog (prog.length + 1) (run prog se es)) = true ∧
    exitOf (runNew prog (prog.length + 1) (run prog se es)) (run prog se es).npid = some 0 ∧
    (runNew prog (prog.length + 1) (run prog se es)).g.newest = true := by
  obtain ⟨h1, h2⟩ := inv2_run hc1 hc2 se es
  have hlk := lock_none_of_quiescent (lockOK_run (prog := prog) se es) hq
  generalize run prog se es = s at *
  have h1' := inv1_step hc1 h1 .spawn
  have h2' := inv2_step hc1 hc2 h1 h2 .spawn
  have hfnew : findProc (step prog s .spawn).procs s.npid = some { pid := s.npid } := by
    simp only [step]; exact findProc_append_new h1.fresh rfl
  obtain ⟨a, ha, hle⟩ := check_entry hc
  have hΓ0 : Γ3 calm.entry s.g { pid := s.npid } := by
    refine ⟨Γ1_entry _ _ rfl, fun _ => Γ2_entry _ _, ?_⟩
    constructor <;> intro hf <;> simp [calm] at hf
    · exact Or.inl hlk
    · exact hstale
    · exact hgood
    · exact ⟨ht, he⟩
  have hcs : CalmSt ann (step prog s .spawn) s.npid := by
    refine ⟨?_, _, hfnew, Or.inl ⟨rfl, a, ha, ?_⟩⟩
    · intro q hq' hqp
      simp only [step, List.mem_append, List.mem_singleton] at hq'
      rcases hq' with hq' | hq'
      · simp only [quiescent, List.all_eq_true] at hq
        simpa using hq q hq'
      · subst hq'; exact absurd rfl hqp
    · exact (by simpa [step] using hΓ0 : Γ3 calm.entry (step prog s .spawn).g _).mono hle
  obtain ⟨p, hfp, hd, hex, hnew, hoth⟩ := calm_run hc1 hc2 hc hfw s.npid prog.length _ h1' h2' hcs (by
    intro p _ _; omega)
  have hinvF := inv1_runAlone hc1 s.npid (prog.length + 1) _ h1'
  refine ⟨?_, ?_, hnew⟩
  · simp only [runNew, quiescent, List.all_eq_true]
    intro q hq'
    by_cases hqp : q.pid = s.npid
    · obtain ⟨hpm, hpp⟩ := findProc_some hfp
      have : q = p := hinvF.uniq q hq' p hpm (by rw [hqp, hpp])
      simp [this, hd]
    · simp [hoth q hq' hqp]
  · simp [runNew, exitOf, hfp, hex]

end NA.C19
