import NA.Proofs.C03Whole
/-
C03, whole-vsys theorems, generic rule phase: the rule requests `plainRuleCmds diff A B rs` for
ANY target rule list `B` (not only the planner's copy of the target) whose names are fresh, on a
device whose rules `D` have `A` as sorted copy.  Used for targets with address-groups, where `B`
is the target with every group called by its name on the device.  Core Lean only.
-/
namespace NA.PanOs

theorem sortedCopy_names {D A : List Rule} (h : SortedCopy D A) : ruleNames A = ruleNames D := by
  unfold ruleNames
  apply List.ext_getElem?
  intro i
  simp only [List.getElem?_map]
  by_cases hi : i < D.length
  · have hiA : i < A.length := by rw [h.1]; exact hi
    rw [getElem?_of_lt A i hiA, getElem?_of_lt D i hi]
    simp only [Option.map_some]
    rw [(h.2 i hi).1]
  · rw [List.getElem?_eq_none (by rw [h.1]; omega), List.getElem?_eq_none (by omega)]

/-- **Rule phase, for any list of target rules with fresh names.** -/
theorem rulePhase_generic (sh : Shared) (diff : Differ) (hd : GoodDiffer diff) (D A B : List Rule) (rs : List Range)
    (eq : Nat → Nat → Bool) (v : Vsys) (hrules : v.rules = D)
    (hsc : SortedCopy D A) (hnAB : (ruleNames A ++ ruleNames B).Nodup)
    (hv : validScript eq A.length B.length rs = true) (hn : normalised rs = true)
    (heqhdr : ∀ i j, i < A.length → j < B.length → eq i j = true → (A.getD i default).hdr = (B.getD j default).hdr)
    (htg : TargetOk sh v B)
    (hord : (plainRuleCmds diff A B rs).filterMap ordOf = orderOps (ruleNames A) (ruleNames B) rs) :
    ∃ w2, Runs sh v (plainRuleCmds diff A B rs) w2 ∧
      w2.addrs = v.addrs ∧ w2.svcs = v.svcs ∧ w2.groups = v.groups ∧ w2.sgroups = v.sgroups ∧
      w2.name = v.name ∧ w2.rules.length = B.length ∧ (ruleNames w2.rules).Nodup ∧
      ∀ (t : Nat) (r : Rule), w2.rules[t]? = some r → RuleLike r (B.getD t default) := by
  obtain ⟨hvf, hnf⟩ := walkScript_valid hv hn
  obtain ⟨hsame1, hsame2⟩ := walkScript_same diff A B rs
  have hnamesA : ruleNames A = ruleNames D := sortedCopy_names hsc
  have hlenA : A.length = D.length := hsc.1
  have hndA : (ruleNames A).Nodup := (List.sublist_append_left _ _).nodup hnAB
  have hndB : (ruleNames B).Nodup := (List.sublist_append_right _ _).nodup hnAB
  have hndD : (ruleNames D).Nodup := by rw [← hnamesA]; exact hndA
  have nameA : ∀ i, i < A.length → (A.getD i default).name ∈ ruleNames A := by
    intro i hi
    exact List.mem_map_of_mem (List.mem_of_getElem? (getElem?_of_lt _ i hi))
  have nameB : ∀ j, j < B.length → (B.getD j default).name ∈ ruleNames B := by
    intro j hj
    exact List.mem_map_of_mem (List.mem_of_getElem? (getElem?_of_lt _ j hj))
  have hdisj : ∀ i j, i < A.length → j < B.length → (A.getD i default).name ≠ (B.getD j default).name := by
    intro i j hi hj e
    have := (List.nodup_append.mp hnAB).2.2 _ (nameA i hi) _ (nameB j hj)
    exact this e
  have hlook0 : ∀ i, 0 ≤ i → i < A.length →
      findRule v.rules (A.getD i default).name = some (D.getD i default) := by
    intro i _ hi
    rw [hrules, (hsc.2 i (by omega)).1]
    exact findRule_of_getElem? hndD (getElem?_of_lt D i (by omega))
  have hnone0 : ∀ j, j < B.length → findRule v.rules (B.getD j default).name = none := by
    intro j hj
    rw [hrules, findRule_none_iff]
    have hnot : (B.getD j default).name ∉ ruleNames D := by
      intro hm
      have hm' : (B.getD j default).name ∈ ruleNames A := by rw [hnamesA]; exact hm
      exact (List.nodup_append.mp hnAB).2.2 _ hm' _ (nameB j hj) rfl
    simpa using hnot
  -- first loop
  obtain ⟨w1, hw1, e1, d1, f1, b1, c1, s1, s2, s3, s4, s5⟩ := runs_phase1 sh diff hd D A B hsc hndA eq heqhdr
    (walkScript A.length B.length rs) 0 0 v hvf htg hlook0
  -- second loop
  obtain ⟨w2, hw2, p1, p2, p3, t1, t2, t3, t4, t5⟩ := runs_phase2 sh A B hndB hdisj eq
    (walkScript A.length B.length rs) 0 0 0 w1 hvf hnf (Nat.le_refl _)
    (by
      intro rb hrb
      obtain ⟨_, _, x, y, z⟩ := htg rb hrb
      exact ⟨fun m hm => by rw [refOk_congr sh s1 s2 s3 s4]; exact x m hm,
        fun m hm => by rw [refOk_congr sh s1 s2 s3 s4]; exact y m hm,
        fun m hm => by rw [refOk_congr sh s1 s2 s3 s4]; exact z m hm⟩)
    (by
      intro j _ hj
      rw [f1 _ (fun i _ hi => (hdisj i j hi hj).symm)]
      exact hnone0 j hj)
    (by
      intro p hp
      obtain ⟨r', hr', _⟩ := e1 p hp
      rw [hr']; rfl)
  have hruns : Runs sh v (plainRuleCmds diff A B rs) w2 := by
    rw [← hsame1]
    exact hw1.append hw2
  -- the order of the names
  have hordx := execAll_ord sh (plainRuleCmds diff A B rs) v
  unfold Runs at hruns
  rw [hruns] at hordx
  simp only [List.take_length] at hordx
  rw [hord] at hordx
  have hv' : validScript eq (ruleNames A).length (ruleNames B).length rs = true := by simpa [ruleNames] using hv
  have hconv := order_converges (ruleNames A) (ruleNames B) rs hv' hn hnAB
  have hvrn : ruleNames v.rules = ruleNames A := by rw [hrules, hnamesA]
  have hnames2 : ruleNames w2.rules = targetOrder (ruleNames A) (ruleNames B) (walkScript A.length B.length rs) := by
    rw [hsame2]
    rw [hvrn, hconv] at hordx
    exact (Option.some.inj hordx).symm
  have hnd2 : (ruleNames w2.rules).Nodup := by
    have hrun : runOrd (ruleNames A) (orderOps (ruleNames A) (ruleNames B) rs) = some (ruleNames w2.rules) := by
      rw [hconv, hnames2, hsame2]
    exact runOrd_nodup _ _ _ hrun hndA
  have hvf' : validFrom eq (ruleNames A).length (ruleNames B).length 0 0 (walkScript A.length B.length rs) = true := by
    simpa [ruleNames] using hvf
  have hlen2 : w2.rules.length = B.length := by
    have := targetOrder_length (ruleNames A) (ruleNames B) _ 0 0 hvf'
    rw [← hnames2] at this
    simpa [ruleNames] using this
  refine ⟨w2, hruns, t1.trans s1, t2.trans s2, t3.trans s3, t4.trans s4, t5.trans s5, hlen2, hnd2, ?_⟩
  intro t r hr
  have htlt : t < B.length := by
    rw [← hlen2]; exact (List.getElem?_eq_some_iff.mp hr).1
  have hname : (ruleNames w2.rules)[t]? = some r.name := by
    rw [ruleNames, List.getElem?_map, hr]; rfl
  have hfind : findRule w2.rules r.name = some r := findRule_of_getElem? hnd2 hr
  rcases targetOrder_spec (ruleNames A) (ruleNames B) _ 0 0 hvf' t (Nat.zero_le _)
      (by simpa [ruleNames] using htlt) with ⟨i, hi, he⟩ | ⟨hi, he⟩
  · obtain ⟨_, hiA, _, _⟩ := eqPairs_bounds _ _ 0 0 hvf (i, t) hi
    obtain ⟨r', hr', hg⟩ := e1 (i, t) hi
    simp only at hr' hg hiA
    have hnm : r.name = (A.getD i default).name := by
      rw [← hnames2, Nat.sub_zero, hname] at he
      rw [ruleNames, List.getElem?_map, getElem?_of_lt _ i hiA] at he
      simpa using he
    have hfind2 : findRule w2.rules r.name = some r' := by
      rw [hnm, p2 _ (fun j _ hj => hdisj i j hiA hj)]
      exact hr'
    rw [hfind] at hfind2
    cases hfind2
    obtain ⟨_, q2, q3, q4, q5⟩ := hg
    exact ⟨q2, q3, q4, q5⟩
  · have hnm : r.name = (B.getD t default).name := by
      rw [← hnames2, Nat.sub_zero, hname] at he
      rw [ruleNames, List.getElem?_map, getElem?_of_lt _ t htlt] at he
      simpa using he
    have hfind2 : findRule w2.rules r.name = some (B.getD t default) := by
      rw [hnm]; exact p1 t hi
    rw [hfind] at hfind2
    cases hfind2
    exact ⟨rfl, SameMem.refl _, SameMem.refl _, SameMem.refl _⟩

end NA.PanOs
