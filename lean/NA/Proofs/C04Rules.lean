import NA.Proofs.C04Inv
/-!
Helper lemmas for C04, level 2: the rules of one policy while `stepItems` walks the edit script —
every DELETE / PUT / PATCH of a rule is accepted by the strict store, and at the end the policy
holds exactly one rule per target rule, each realising it (`RuleReal`).
-/
namespace NA.Nsx

/-! ### compact JSON is idempotent -/

/-- non-accumulating form of the scanner inside `compactJSON` -/
def compactGo : List Char → Bool → Bool → List Char
  | [], _, _ => []
  | c :: rest, inStr, esc =>
    if inStr then
      if esc then c :: compactGo rest true false
      else if c == '\\' then c :: compactGo rest true true
      else if c == '"' then c :: compactGo rest false false
      else c :: compactGo rest true false
    else if c == ' ' || c == '\t' || c == '\n' || c == '\r' then compactGo rest false false
    else if c == '"' then c :: compactGo rest true false
    else c :: compactGo rest false false

theorem compactJSON_go_eq (l : List Char) (i e : Bool) (acc : List Char) :
    compactJSON.go l i e acc = acc.reverse ++ compactGo l i e := by
  induction l generalizing i e acc with
  | nil => simp [compactJSON.go, compactGo]
  | cons c rest ih =>
    unfold compactJSON.go compactGo
    cases i <;> cases e <;> simp only [Bool.false_eq_true, if_false, if_true] <;>
      (repeat' split) <;> simp [ih]

theorem compactJSON_eq (s : String) : compactJSON s = String.ofList (compactGo s.toList false false) := by
  unfold compactJSON
  rw [compactJSON_go_eq]; simp

theorem compactGo_idem (l : List Char) (i e : Bool) (he : i = false → e = false) :
    compactGo (compactGo l i e) i e = compactGo l i e := by
  induction l generalizing i e with
  | nil => simp [compactGo]
  | cons c rest ih =>
    cases i with
    | true =>
      cases e with
      | true =>
        simp only [compactGo, if_true]
        rw [ih true false (by simp)]
      | false =>
        by_cases h1 : c = '\\'
        · subst h1
          simp only [compactGo, if_true, Bool.false_eq_true, if_false, beq_self_eq_true]
          rw [ih true true (by simp)]
        · have h1' : (c == '\\') = false := by simpa using h1
          by_cases h2 : c = '"'
          · subst h2
            simp only [compactGo, if_true, Bool.false_eq_true, if_false, h1', beq_self_eq_true]
            rw [ih false false (by simp)]
          · have h2' : (c == '"') = false := by simpa using h2
            simp only [compactGo, if_true, Bool.false_eq_true, if_false, h1', h2']
            rw [ih true false (by simp)]
    | false =>
      have : e = false := he rfl
      subst this
      by_cases hw : (c == ' ' || c == '\t' || c == '\n' || c == '\r') = true
      · simp only [compactGo, Bool.false_eq_true, if_false, hw, if_true]
        exact ih false false (by simp)
      · have hw' : (c == ' ' || c == '\t' || c == '\n' || c == '\r') = false := Bool.eq_false_iff.mpr hw
        by_cases h2 : c = '"'
        · subst h2
          simp only [compactGo, Bool.false_eq_true, if_false, hw', beq_self_eq_true, if_true]
          rw [ih true false (by simp)]
        · have h2' : (c == '"') = false := by simpa using h2
          simp only [compactGo, Bool.false_eq_true, if_false, hw', h2']
          rw [ih false false (by simp)]

theorem compactJSON_idem (s : String) : compactJSON (compactJSON s) = compactJSON s := by
  rw [compactJSON_eq, compactJSON_eq, String.toList_ofList, compactGo_idem _ _ _ (fun _ => rfl)]

theorem compactAttrs_idem (a : Attrs) : compactAttrs (compactAttrs a) = compactAttrs a := by
  simp [compactAttrs, compactJSON_idem]

/-! ### Pointwise relation of two lists -/

theorem Forall2.imp {α β : Type} {R Q : α → β → Prop} (h : ∀ a b, R a b → Q a b) {l : List α} {m : List β}
    (hf : Forall2 R l m) : Forall2 Q l m := by
  induction hf with
  | nil => exact .nil
  | cons hab _ ih => exact .cons (h _ _ hab) ih

theorem Forall2.append {α β : Type} {R : α → β → Prop} {l1 l2 : List α} {m1 m2 : List β}
    (h1 : Forall2 R l1 m1) (h2 : Forall2 R l2 m2) : Forall2 R (l1 ++ l2) (m1 ++ m2) := by
  induction h1 with
  | nil => exact h2
  | cons hab _ ih => exact .cons hab ih

/-! ### Policies of a store after a rule call -/

def rids (L : List Rule) : List String := L.map (·.id)

theorem findPolicy_setRules (ps : List Policy) (pid : String) (f : List Rule → List Rule) :
    findPolicy (setRules ps pid f) pid = (findPolicy ps pid).map fun p => { p with rules := f p.rules } := by
  unfold findPolicy setRules
  rw [List.find?_map]
  have hp : ((fun x : Policy => x.id == pid) ∘ fun p => if p.id == pid then { p with rules := f p.rules } else p) =
      fun x => x.id == pid := by
    funext p
    simp only [Function.comp]
    by_cases h : p.id = pid <;> simp [h]
  rw [hp]
  cases hfind : List.find? (fun x : Policy => x.id == pid) ps with
  | none => rfl
  | some p =>
    have hid : p.id = pid := by simpa using List.find?_some hfind
    simp [hid]

theorem findPolicy_setRules_ne (ps : List Policy) (pid id : String) (f : List Rule → List Rule) (hne : id ≠ pid) :
    findPolicy (setRules ps pid f) id = findPolicy ps id := by
  unfold findPolicy setRules
  rw [List.find?_map]
  have hp : ((fun x : Policy => x.id == id) ∘ fun p => if p.id == pid then { p with rules := f p.rules } else p) =
      fun x => x.id == id := by
    funext p
    simp only [Function.comp]
    by_cases h : p.id = pid <;> simp [h]
  rw [hp]
  cases hfind : List.find? (fun x : Policy => x.id == id) ps with
  | none => rfl
  | some p =>
    have hid : p.id = id := by simpa using List.find?_some hfind
    have hne' : p.id ≠ pid := by rw [hid]; exact hne
    simp
    intro h; exact absurd h hne'

theorem setRules_comp (ps : List Policy) (pid : String) (f g : List Rule → List Rule) :
    setRules (setRules ps pid f) pid g = setRules ps pid (g ∘ f) := by
  simp only [setRules, List.map_map]
  apply List.map_congr_left
  intro p _
  by_cases h : p.id = pid <;> simp [h]

theorem rule_any_id {L : List Rule} {rid : String} : (L.any (·.id == rid)) = true ↔ rid ∈ rids L := by
  unfold rids
  rw [List.any_eq_true]
  constructor
  · rintro ⟨r, hr, he⟩; exact List.mem_map.mpr ⟨r, hr, by simpa using he⟩
  · intro h
    obtain ⟨r, hr, he⟩ := List.mem_map.mp h
    exact ⟨r, hr, by simpa using he⟩

theorem exec_deleteRule (S : Store) (pid rid : String) (p : Policy) (hp : findPolicy S.policies pid = some p)
    (hin : rid ∈ rids p.rules) :
    exec S (.deleteRule pid rid) =
      .ok { S with policies := setRules S.policies pid fun rs => rs.filter (·.id != rid) } := by
  have := rule_any_id.mpr hin
  simp [exec, hp, this]

theorem exec_putRule (S : Store) (pid rid : String) (r : Rule) (p : Policy)
    (hp : findPolicy S.policies pid = some p) (hnin : rid ∉ rids p.rules) (hrefs : refsOk S r = true) :
    exec S (.putRule pid rid r) =
      .ok { S with policies := setRules S.policies pid fun rs => rs ++ [{ r with id := rid, rev := 0 }] } := by
  have : (p.rules.any (·.id == rid)) = false := Bool.eq_false_iff.mpr fun h => hnin (rule_any_id.mp h)
  simp [exec, hp, this, hrefs]

theorem exec_patchRule (S : Store) (pid rid : String) (r : Rule) (p : Policy)
    (hp : findPolicy S.policies pid = some p) (hin : rid ∈ rids p.rules) (hrefs : refsOk S r = true) :
    exec S (.patchRule pid rid r) =
      .ok { S with policies := setRules S.policies pid fun rs =>
              rs.map fun x => if x.id == rid then { r with id := rid, rev := x.rev + 1 } else x } := by
  have := rule_any_id.mpr hin
  simp [exec, hp, this, hrefs]

theorem filter_ne_of_not_mem (L : List Rule) (rid : String) (h : rid ∉ rids L) : L.filter (·.id != rid) = L := by
  rw [List.filter_eq_self]
  intro r hr
  have : r.id ≠ rid := fun e => h (e ▸ List.mem_map_of_mem (f := (·.id)) hr)
  simpa using this

theorem map_if_of_not_mem (L : List Rule) (rid : String) (f : Rule → Rule) (h : rid ∉ rids L) :
    L.map (fun x => if x.id == rid then f x else x) = L := by
  conv => rhs; rw [← List.map_id L]
  apply List.map_congr_left
  intro r hr
  have : r.id ≠ rid := fun e => h (e ▸ List.mem_map_of_mem (f := (·.id)) hr)
  simp [this]


/-! ### One policy under `stepItems` -/

/-- A rule on the manager realises a target rule: same attributes (inline service entries up to
white space), same service, and each entry realises the target's entry. -/
def RuleReal (ctx : Ctx) (nod : List (String × String)) (rS rB : Rule) : Prop :=
  compactAttrs rS.attrs = compactAttrs rB.attrs ∧ rS.service = rB.service ∧
  EPreal ctx nod rS.src rB.src ∧ EPreal ctx nod rS.dst rB.dst

theorem RuleReal.mono {ctx : Ctx} {st st' : PSt} (hm : Mono st st') {rS rB : Rule}
    (h : RuleReal ctx st.nod rS rB) : RuleReal ctx st'.nod rS rB :=
  ⟨h.1, h.2.1, h.2.2.1.mono hm, h.2.2.2.mono hm⟩

/-- How the items of an edit script consume the device rules and the target rules. -/
def Walk (ctx : Ctx) : List Item → List Rule → List Rule → Prop
  | [], a, b => a = [] ∧ b = []
  | .del ra :: its, a, b => ∃ a', a = ra :: a' ∧ Walk ctx its a' b
  | .ins rb :: its, a, b => ∃ b', b = rb :: b' ∧ Walk ctx its a b'
  | .eq ra rb :: its, a, b =>
    ∃ a' b', a = ra :: a' ∧ b = rb :: b' ∧ ruleEqual ctx.gma ctx.gmb ra rb = true ∧ Walk ctx its a' b'

/-- What a target rule may refer to besides groups the target defines. -/
def BRefs (ctx : Ctx) (S : Store) (rb : Rule) : Prop :=
  svcOk S rb.service = true ∧ (ctx.gmb rb.src = none → epOk S rb.src = true) ∧
  (ctx.gmb rb.dst = none → epOk S rb.dst = true)

/-- An entry of a device rule that is not a loaded group is not a target group either. -/
def AExt (ctx : Ctx) (ra : Rule) : Prop :=
  (ctx.gma ra.src = none → ctx.gmb ra.src = none) ∧ (ctx.gma ra.dst = none → ctx.gmb ra.dst = none)

structure PInv (ctx : Ctx) (G0 : List Group) (S : Store) (st : PSt) (K I BK BI aRest bRest : List Rule) : Prop where
  ginv : GInv ctx G0 S.groups st
  /-- the manager lists the rules in its own order -/
  pol : ∃ p, findPolicy S.policies ctx.pid = some p ∧ p.rules.Perm (K ++ aRest ++ I)
  realK : Forall2 (RuleReal ctx st.nod) K BK
  realI : Forall2 (RuleReal ctx st.nod) I BI
  ids : (rids (K ++ aRest ++ I) ++ rids bRest).Nodup
  aRefs : ∀ ra ∈ aRest, refsOk S ra = true ∧ AExt ctx ra
  bRefs : ∀ rb ∈ bRest, BRefs ctx S rb

theorem svcOk_of_services {S S' : Store} (h : S'.services = S.services) (p : String) : svcOk S' p = svcOk S p := by
  unfold svcOk hasService; rw [h]

theorem BRefs.mono {ctx : Ctx} {S S' : Store} {rb : Rule} (hs : S'.services = S.services) (hg : GroupsLE S S')
    (h : BRefs ctx S rb) : BRefs ctx S' rb :=
  ⟨by rw [svcOk_of_services hs]; exact h.1, fun hn => epOk_mono hg (h.2.1 hn), fun hn => epOk_mono hg (h.2.2 hn)⟩

theorem refsOk_mono {S S' : Store} {r : Rule} (hs : S'.services = S.services) (hg : GroupsLE S S')
    (h : refsOk S r = true) : refsOk S' r = true := by
  unfold refsOk at *
  simp only [Bool.and_eq_true] at h ⊢
  exact ⟨⟨epOk_mono hg h.1.1, epOk_mono hg h.1.2⟩, by rw [svcOk_of_services hs]; exact h.2⟩

theorem refsOk_mono' {S S' : Store} {r : Rule} (hs : ∀ id, hasService S id = true → hasService S' id = true)
    (hg : GroupsLE S S') (h : refsOk S r = true) : refsOk S' r = true := by
  unfold refsOk at *
  simp only [Bool.and_eq_true] at h ⊢
  refine ⟨⟨epOk_mono hg h.1.1, epOk_mono hg h.1.2⟩, ?_⟩
  have h3 := h.2
  unfold svcOk at h3 ⊢
  cases hr : serviceRef r.service with
  | none => rfl
  | some x =>
    simp only [hr] at h3 ⊢
    exact hs x h3

theorem refsOk_intro {S : Store} {r : Rule} (h1 : epOk S r.src = true) (h2 : epOk S r.dst = true)
    (h3 : svcOk S r.service = true) : refsOk S r = true := by
  simp [refsOk, h1, h2, h3]

/-- The effect of one step on a store: services untouched, only policy `pid` rewritten, groups grow. -/
structure StepFrame (pid : String) (S S' : Store) : Prop where
  services : S'.services = S.services
  policies : ∃ F, S'.policies = setRules S.policies pid F
  groups : GroupsLE S S'

theorem StepFrame.refl (pid : String) (S : Store) : StepFrame pid S S :=
  ⟨rfl, ⟨fun rs => rs, by simp [setRules]⟩, GroupsLE.refl _⟩

theorem StepFrame.trans {pid : String} {a b c : Store} (h1 : StepFrame pid a b) (h2 : StepFrame pid b c) :
    StepFrame pid a c := by
  obtain ⟨F1, hF1⟩ := h1.policies
  obtain ⟨F2, hF2⟩ := h2.policies
  exact ⟨h2.services.trans h1.services, ⟨F2 ∘ F1, by rw [hF2, hF1, setRules_comp]⟩, h1.groups.trans h2.groups⟩

theorem StepFrame.of_groups_only {pid : String} {S S' : Store} (hp : S'.policies = S.policies)
    (hs : S'.services = S.services) (hg : GroupsLE S S') : StepFrame pid S S' :=
  ⟨hs, ⟨fun rs => rs, by rw [hp]; simp [setRules]⟩, hg⟩


/-! ### The three kinds of items -/

theorem filter_mid (K R I : List Rule) (ra : Rule) (h : (rids (K ++ ra :: R ++ I)).Nodup) :
    (K ++ ra :: R ++ I).filter (·.id != ra.id) = K ++ R ++ I := by
  have h' : (rids K ++ ra.id :: (rids R ++ rids I)).Nodup := by simpa [rids] using h
  obtain ⟨_, h2, h3⟩ := List.nodup_append.mp h'
  obtain ⟨h4, h5⟩ := List.nodup_cons.mp h2
  have hK : ra.id ∉ rids K := fun hm => h3 _ hm _ List.mem_cons_self rfl
  have hR : ra.id ∉ rids R := fun hm => h4 (List.mem_append.mpr (Or.inl hm))
  have hI : ra.id ∉ rids I := fun hm => h4 (List.mem_append.mpr (Or.inr hm))
  simp only [List.filter_append, List.filter_cons, bne_self_eq_false, Bool.false_eq_true, if_false,
    List.append_assoc, List.cons_append]
  rw [filter_ne_of_not_mem K _ hK, filter_ne_of_not_mem R _ hR, filter_ne_of_not_mem I _ hI]

theorem map_mid (K R I : List Rule) (ra : Rule) (f : Rule → Rule) (h : (rids (K ++ ra :: R ++ I)).Nodup) :
    (K ++ ra :: R ++ I).map (fun x => if x.id == ra.id then f x else x) = K ++ f ra :: R ++ I := by
  have h' : (rids K ++ ra.id :: (rids R ++ rids I)).Nodup := by simpa [rids] using h
  obtain ⟨_, h2, h3⟩ := List.nodup_append.mp h'
  obtain ⟨h4, h5⟩ := List.nodup_cons.mp h2
  have hK : ra.id ∉ rids K := fun hm => h3 _ hm _ List.mem_cons_self rfl
  have hR : ra.id ∉ rids R := fun hm => h4 (List.mem_append.mpr (Or.inl hm))
  have hI : ra.id ∉ rids I := fun hm => h4 (List.mem_append.mpr (Or.inr hm))
  simp only [List.map_append, List.map_cons, beq_self_eq_true, if_true]
  rw [map_if_of_not_mem K _ f hK, map_if_of_not_mem R _ f hR, map_if_of_not_mem I _ f hI]

theorem nodup_left_of_append {l m : List String} (h : (l ++ m).Nodup) : l.Nodup := (List.nodup_append.mp h).1

theorem step_del {ctx : Ctx} {G0 : List Group} {S : Store} {st : PSt} {K I BK BI a' b : List Rule} {ra : Rule}
    (h : PInv ctx G0 S st K I BK BI (ra :: a') b) :
    ∃ S', exec S (.deleteRule ctx.pid ra.id) = .ok S' ∧ PInv ctx G0 S' st K I BK BI a' b ∧
      StepFrame ctx.pid S S' := by
  obtain ⟨p, hp, hrules⟩ := h.pol
  have hin : ra.id ∈ rids p.rules := by
    rw [rids, (hrules.map (·.id)).mem_iff]; simp
  have hnd : (rids (K ++ ra :: a' ++ I)).Nodup := nodup_left_of_append h.ids
  refine ⟨_, exec_deleteRule S ctx.pid ra.id p hp hin, ?_, ⟨rfl, ⟨_, rfl⟩, GroupsLE.refl _⟩⟩
  refine { ginv := h.ginv, pol := ?_, realK := h.realK, realI := h.realI, ids := ?_, aRefs := ?_, bRefs := ?_ }
  · refine ⟨{ p with rules := p.rules.filter (·.id != ra.id) }, ?_, ?_⟩
    · show findPolicy (setRules S.policies ctx.pid _) ctx.pid = _
      rw [findPolicy_setRules, hp]; rfl
    · show (p.rules.filter (·.id != ra.id)).Perm _
      rw [← filter_mid K a' I ra hnd]
      exact hrules.filter _
  · have hids := h.ids
    simp only [rids, List.map_append, List.map_cons, List.append_assoc, List.cons_append] at hids ⊢
    have hsub : List.Sublist (List.map (·.id) K ++ (List.map (·.id) a' ++ (List.map (·.id) I ++ List.map (·.id) b)))
        (List.map (·.id) K ++ ra.id :: (List.map (·.id) a' ++ (List.map (·.id) I ++ List.map (·.id) b))) :=
      List.Sublist.append_left (List.sublist_cons_self _ _) _
    exact hsub.nodup hids
  · intro r hr
    obtain ⟨h1, h2⟩ := h.aRefs r (List.mem_cons_of_mem _ hr)
    exact ⟨refsOk_mono rfl (GroupsLE.refl _) h1, h2⟩
  · intro r hr
    exact (h.bRefs r hr).mono rfl (GroupsLE.refl _)

theorem adaptGroup_abort (ctx : Ctx) (st : PSt) (p : String) : (adaptGroup ctx st p).1.abort = st.abort := by
  unfold adaptGroup
  repeat' split
  all_goals rfl

theorem equalize_abort {ctx : Ctx} {st : PSt} {la lb : String} (h : (equalize ctx st la lb).1.abort = none) :
    st.abort = none := by
  unfold equalize at h
  split at h
  · exact h
  · split at h
    · simp at h
    · split at h
      · simp at h
      · simp only at h
        split at h
        · exact h
        · split at h
          · split at h <;> exact h
          · exact h

theorem EPreal_of_gmb_none {ctx : Ctx} {nod : List (String × String)} {pS pB : String}
    (h : ctx.gmb pB = none) (he : pS = pB) : EPreal ctx nod pS pB := by
  unfold EPreal
  unfold Ctx.gmb at h
  cases hr : groupRef pB with
  | none => exact he
  | some k =>
    simp only [hr] at h ⊢
    rw [h]; exact he


theorem policies_findPolicy {S S' : Store} (h : S'.policies = S.policies) (pid : String) :
    findPolicy S'.policies pid = findPolicy S.policies pid := by rw [h]

theorem step_ins {ctx : Ctx} {G0 : List Group} (hc : CtxOK ctx G0) {S : Store} {st : PSt}
    {K I BK BI a b' : List Rule} {rb : Rule} (h : PInv ctx G0 S st K I BK BI a (rb :: b')) :
    ∃ S' r', run S (stepItem ctx st (.ins rb)).2 = some S' ∧
      PInv ctx G0 S' (stepItem ctx st (.ins rb)).1 K (I ++ [r']) BK (BI ++ [rb]) a b' ∧
      StepFrame ctx.pid S S' ∧ Mono st (stepItem ctx st (.ins rb)).1 := by
  obtain ⟨p, hp, hrules⟩ := h.pol
  obtain ⟨hsvc, hsrc, hdst⟩ := h.bRefs rb List.mem_cons_self
  -- source
  obtain ⟨S1, hrun1, hpol1, hsv1, hinv1, hmono1, hreal1, hle1, hep1⟩ := adaptGroup_spec hc S st rb.src h.ginv hsrc
  -- destination
  obtain ⟨S2, hrun2, hpol2, hsv2, hinv2, hmono2, hreal2, hle2, hep2⟩ :=
    adaptGroup_spec hc S1 (adaptGroup ctx st rb.src).1 rb.dst hinv1 (fun hn => epOk_mono hle1 (hdst hn))
  -- name the pieces
  generalize hA1 : adaptGroup ctx st rb.src = A1 at *
  obtain ⟨st1, src, c1⟩ := A1
  generalize hA2 : adaptGroup ctx st1 rb.dst = A2 at *
  obtain ⟨st2, dst, c2⟩ := A2
  simp only at hrun1 hinv1 hmono1 hreal1 hep1 hrun2 hinv2 hmono2 hreal2 hep2
  have hstep : stepItem ctx st (.ins rb) = (st2, c1 ++ c2 ++ [.putRule ctx.pid rb.id (ruleBody rb src dst)]) := by
    simp [stepItem, hA1, hA2]
  rw [hstep]
  simp only
  have hp2 : findPolicy S2.policies ctx.pid = some p := by rw [hpol2, hpol1]; exact hp
  have hidn : rb.id ∉ rids p.rules := by
    rw [rids, (hrules.map (·.id)).mem_iff]
    intro hm
    exact (List.nodup_append.mp h.ids).2.2 _ hm _ (by simp [rids]) rfl
  have hrefs : refsOk S2 (ruleBody rb src dst) = true :=
    refsOk_intro (epOk_mono hle2 hep1) hep2 (by
      show svcOk S2 rb.service = true
      rw [svcOk_of_services hsv2, svcOk_of_services hsv1]; exact hsvc)
  have hex := exec_putRule S2 ctx.pid rb.id (ruleBody rb src dst) p hp2 hidn hrefs
  let r' : Rule := { ruleBody rb src dst with id := rb.id, rev := 0 }
  let S3 : Store := { S2 with policies := setRules S2.policies ctx.pid fun rs => rs ++ [r'] }
  have hS3 : S3.policies = setRules S2.policies ctx.pid fun rs => rs ++ [r'] := rfl
  have hle : GroupsLE S S3 := hle1.trans hle2
  have hsv : S3.services = S.services := hsv2.trans hsv1
  have hmono : Mono st st2 := hmono1.trans hmono2
  refine ⟨S3, r', ?_, ?_, ?_, hmono⟩
  · rw [List.append_assoc, run_append hrun1, run_append hrun2]
    exact run_single hex
  · refine { ginv := hinv2, pol := ?_, realK := ?_, realI := ?_, ids := ?_, aRefs := ?_, bRefs := ?_ }
    · refine ⟨{ p with rules := p.rules ++ [r'] }, ?_, ?_⟩
      · rw [hS3, findPolicy_setRules, hp2]; rfl
      · show (p.rules ++ [r']).Perm _
        rw [show K ++ a ++ (I ++ [r']) = (K ++ a ++ I) ++ [r'] by simp]
        exact hrules.append_right _
    · exact h.realK.imp fun _ _ hr => hr.mono hmono
    · refine (h.realI.imp fun _ _ hr => hr.mono hmono).append (.cons ?_ .nil)
      exact ⟨compactAttrs_idem _, rfl, hreal1.mono hmono2, hreal2⟩
    · have hids := h.ids
      have e1 : rids (K ++ a ++ (I ++ [r'])) ++ rids b' = rids (K ++ a ++ I) ++ rids (rb :: b') := by
        simp [rids, r', ruleBody]
      rw [e1]; exact hids
    · intro r hr
      obtain ⟨h1, h2⟩ := h.aRefs r hr
      exact ⟨refsOk_mono hsv hle h1, h2⟩
    · intro r hr
      exact (h.bRefs r (List.mem_cons_of_mem _ hr)).mono hsv hle
  · exact ⟨hsv, ⟨fun rs => rs ++ [r'], by rw [hS3, hpol2, hpol1]⟩, hle⟩


theorem ruleEqual_facts {gma gmb : String → Option Group} {ra rb : Rule} (h : ruleEqual gma gmb ra rb = true) :
    ra.attrs = rb.attrs ∧ ra.service = rb.service ∧ (gma ra.src = none → ra.src = rb.src) ∧
    (gma ra.dst = none → ra.dst = rb.dst) := by
  unfold ruleEqual at h
  simp only [Bool.and_eq_true, beq_iff_eq] at h
  obtain ⟨⟨⟨h1, h2⟩, h3⟩, h4⟩ := h
  refine ⟨h1, h2, ?_, ?_⟩
  · intro hn; simpa [hn] using h3
  · intro hn; simpa [hn] using h4

theorem step_eq {ctx : Ctx} {G0 : List Group} (hc : CtxOK ctx G0)
    (hdiff : ∀ n m eq, validScript n m eq (ctx.diff n m eq) = true) {S : Store} {st : PSt}
    {K I BK BI a' b' : List Rule} {ra rb : Rule} (h : PInv ctx G0 S st K I BK BI (ra :: a') (rb :: b'))
    (heq : ruleEqual ctx.gma ctx.gmb ra rb = true) (habort : (stepItem ctx st (.eq ra rb)).1.abort = none) :
    ∃ S' ra', run S (stepItem ctx st (.eq ra rb)).2 = some S' ∧
      PInv ctx G0 S' (stepItem ctx st (.eq ra rb)).1 (K ++ [ra']) I (BK ++ [rb]) BI a' b' ∧
      StepFrame ctx.pid S S' ∧ Mono st (stepItem ctx st (.eq ra rb)).1 := by
  obtain ⟨p, hp, hrules⟩ := h.pol
  obtain ⟨hrefsA, hext⟩ := h.aRefs ra List.mem_cons_self
  obtain ⟨hattrs, hsvcEq, hsrcEq, hdstEq⟩ := ruleEqual_facts heq
  have hrefsA' : (epOk S ra.src = true ∧ epOk S ra.dst = true) ∧ svcOk S ra.service = true := by
    simpa [refsOk, Bool.and_eq_true] using hrefsA
  -- abort flags
  have hab2 : (equalize ctx (equalize ctx st ra.src rb.src).1 ra.dst rb.dst).1.abort = none := by
    simpa [stepItem] using habort
  have hab1 : (equalize ctx st ra.src rb.src).1.abort = none := equalize_abort hab2
  obtain ⟨S1, hrun1, hpol1, hsv1, hinv1, hmono1, hreal1, hkeep1, hsame1, hle1, hep1⟩ :=
    equalize_spec hc hdiff S st ra.src rb.src h.ginv hab1 hrefsA'.1.1
  obtain ⟨S2, hrun2, hpol2, hsv2, hinv2, hmono2, hreal2, hkeep2, hsame2, hle2, hep2⟩ :=
    equalize_spec hc hdiff S1 (equalize ctx st ra.src rb.src).1 ra.dst rb.dst hinv1 hab2 (epOk_mono hle1 hrefsA'.1.2)
  generalize hE1 : equalize ctx st ra.src rb.src = E1 at *
  obtain ⟨st1, src, ch1, c1⟩ := E1
  generalize hE2 : equalize ctx st1 ra.dst rb.dst = E2 at *
  obtain ⟨st2, dst, ch2, c2⟩ := E2
  simp only at hrun1 hinv1 hmono1 hreal1 hkeep1 hsame1 hep1 hrun2 hinv2 hmono2 hreal2 hkeep2 hsame2 hep2
  have hstep : stepItem ctx st (.eq ra rb) =
      (st2, c1 ++ c2 ++ if ch1 || ch2 then [.patchRule ctx.pid ra.id (ruleBody ra src dst)] else []) := by
    simp [stepItem, hE1, hE2]
  rw [hstep]
  simp only
  have hle : GroupsLE S S2 := hle1.trans hle2
  have hsv : S2.services = S.services := hsv2.trans hsv1
  have hmono : Mono st st2 := hmono1.trans hmono2
  have hp2 : findPolicy S2.policies ctx.pid = some p := by rw [hpol2, hpol1]; exact hp
  have hnd : (rids (K ++ ra :: a' ++ I)).Nodup := nodup_left_of_append h.ids
  -- the entries of the (possibly rewritten) device rule realise the target's
  have hrealS : EPreal ctx st2.nod src rb.src := by
    cases hg : ctx.gma ra.src with
    | some ga => exact (hreal1 (by simp [hg])).mono hmono2
    | none =>
      have e1 : src = ra.src := hkeep1 hg
      exact EPreal_of_gmb_none (by rw [← hsrcEq hg]; exact hext.1 hg) (by rw [e1]; exact hsrcEq hg)
  have hrealD : EPreal ctx st2.nod dst rb.dst := by
    cases hg : ctx.gma ra.dst with
    | some ga => exact hreal2 (by simp [hg])
    | none =>
      have e1 : dst = ra.dst := hkeep2 hg
      exact EPreal_of_gmb_none (by rw [← hdstEq hg]; exact hext.2 hg) (by rw [e1]; exact hdstEq hg)
  have hidsNew : ∀ r : Rule, r.id = ra.id →
      (rids (K ++ [r] ++ a' ++ I) ++ rids b').Nodup := by
    intro r hr
    have hids := h.ids
    simp only [rids, List.map_append, List.map_cons, List.append_assoc, List.cons_append, List.map_nil,
      List.nil_append, hr] at hids ⊢
    have hsub : List.Sublist
        (List.map (·.id) K ++ ra.id :: (List.map (·.id) a' ++ (List.map (·.id) I ++ List.map (·.id) b')))
        (List.map (·.id) K ++ ra.id :: (List.map (·.id) a' ++ (List.map (·.id) I ++ rb.id :: List.map (·.id) b'))) :=
      List.Sublist.append_left (List.Sublist.cons_cons _ (List.Sublist.append_left
        (List.Sublist.append_left (List.sublist_cons_self _ _) _) _)) _
    exact hsub.nodup hids
  have haRefs : ∀ S' : Store, S'.services = S.services → GroupsLE S S' →
      ∀ r ∈ a', refsOk S' r = true ∧ AExt ctx r := by
    intro S' hs hg r hr
    obtain ⟨h1, h2⟩ := h.aRefs r (List.mem_cons_of_mem _ hr)
    exact ⟨refsOk_mono hs hg h1, h2⟩
  have hbRefs : ∀ S' : Store, S'.services = S.services → GroupsLE S S' → ∀ r ∈ b', BRefs ctx S' r :=
    fun S' hs hg r hr => (h.bRefs r (List.mem_cons_of_mem _ hr)).mono hs hg
  cases hch : (ch1 || ch2) with
  | false =>
    -- the rule itself is not touched
    rw [Bool.or_eq_false_iff] at hch
    have e1 : src = ra.src := hsame1 hch.1
    have e2 : dst = ra.dst := hsame2 hch.2
    refine ⟨S2, ra, ?_, ?_, ⟨hsv, ⟨fun rs => rs, by rw [hpol2, hpol1]; simp [setRules]⟩, hle⟩, hmono⟩
    · simp only [Bool.false_eq_true, if_false, List.append_nil]
      rw [run_append hrun1]; exact hrun2
    · refine { ginv := hinv2, pol := ⟨p, hp2, by simpa using hrules⟩, realK := ?_,
               realI := h.realI.imp fun _ _ hr => hr.mono hmono, ids := hidsNew ra rfl,
               aRefs := haRefs S2 hsv hle, bRefs := hbRefs S2 hsv hle }
      refine (h.realK.imp fun _ _ hr => hr.mono hmono).append (.cons ?_ .nil)
      exact ⟨by rw [hattrs], hsvcEq, e1 ▸ hrealS, e2 ▸ hrealD⟩
  | true =>
    have hrefs : refsOk S2 (ruleBody ra src dst) = true :=
      refsOk_intro (epOk_mono hle2 hep1) hep2 (by
        show svcOk S2 ra.service = true
        rw [svcOk_of_services hsv]; exact hrefsA'.2)
    have hin : ra.id ∈ rids p.rules := by
      rw [rids, (hrules.map (·.id)).mem_iff]; simp
    have hex := exec_patchRule S2 ctx.pid ra.id (ruleBody ra src dst) p hp2 hin hrefs
    let ra' : Rule := { ruleBody ra src dst with id := ra.id, rev := ra.rev + 1 }
    let fp : List Rule → List Rule := fun rs =>
      rs.map (fun x => if x.id == ra.id then { ruleBody ra src dst with id := ra.id, rev := x.rev + 1 } else x)
    let S3 : Store := { S2 with policies := setRules S2.policies ctx.pid fp }
    have hS3 : S3.policies = setRules S2.policies ctx.pid fp := rfl
    refine ⟨S3, ra', ?_, ?_, ⟨hsv, ⟨_, by rw [hS3, hpol2, hpol1]⟩, hle⟩, hmono⟩
    · simp only [if_true]
      rw [List.append_assoc, run_append hrun1, run_append hrun2]
      exact run_single hex
    · refine { ginv := hinv2, pol := ?_, realK := ?_, realI := h.realI.imp fun _ _ hr => hr.mono hmono,
               ids := hidsNew ra' rfl, aRefs := haRefs S3 hsv hle, bRefs := hbRefs S3 hsv hle }
      · refine ⟨_, by rw [hS3, findPolicy_setRules, hp2]; rfl, ?_⟩
        show (p.rules.map (fun x => if x.id == ra.id then
          { ruleBody ra src dst with id := ra.id, rev := x.rev + 1 } else x)).Perm _
        refine (hrules.map _).trans (List.Perm.of_eq ?_)
        rw [map_mid K a' I ra _ hnd]
        simp [ra']
      · refine (h.realK.imp fun _ _ hr => hr.mono hmono).append (.cons ?_ .nil)
        refine ⟨?_, hsvcEq, hrealS, hrealD⟩
        show compactAttrs (compactAttrs ra.attrs) = _
        rw [compactAttrs_idem, hattrs]


theorem stepItem_abort {ctx : Ctx} {st : PSt} {it : Item} (h : (stepItem ctx st it).1.abort = none) :
    st.abort = none := by
  cases it with
  | del ra => simpa [stepItem] using h
  | ins rb =>
    simp only [stepItem] at h
    rw [adaptGroup_abort, adaptGroup_abort] at h
    exact h
  | eq ra rb =>
    simp only [stepItem] at h
    exact equalize_abort (equalize_abort h)

theorem stepItems_abort {ctx : Ctx} {st : PSt} {items : List Item} (h : (stepItems ctx st items).1.abort = none) :
    st.abort = none := by
  induction items generalizing st with
  | nil => simpa [stepItems] using h
  | cons it rest ih =>
    simp only [stepItems] at h
    exact stepItem_abort (ih h)

/-- Walking a whole script over one policy: every call is accepted and at the end the policy
consists of one rule per target rule, each realising it. -/
theorem stepItems_spec {ctx : Ctx} {G0 : List Group} (hc : CtxOK ctx G0)
    (hdiff : ∀ n m eq, validScript n m eq (ctx.diff n m eq) = true) :
    ∀ (items : List Item) (S : Store) (st : PSt) (K I BK BI a b : List Rule),
      Walk ctx items a b → PInv ctx G0 S st K I BK BI a b → (stepItems ctx st items).1.abort = none →
      ∃ S' K' I' BK' BI', run S (stepItems ctx st items).2 = some S' ∧
        PInv ctx G0 S' (stepItems ctx st items).1 K' I' BK' BI' [] [] ∧
        (BK' ++ BI').Perm (BK ++ BI ++ b) ∧ StepFrame ctx.pid S S' ∧ Mono st (stepItems ctx st items).1 := by
  intro items
  induction items with
  | nil =>
    intro S st K I BK BI a b hw hinv _
    obtain ⟨ha, hb⟩ := hw
    subst ha; subst hb
    exact ⟨S, K, I, BK, BI, rfl, hinv, by simp, StepFrame.refl _ _, Mono.refl _⟩
  | cons it rest ih =>
    intro S st K I BK BI a b hw hinv habort
    have hab1 : (stepItem ctx st it).1.abort = none := by
      simp only [stepItems] at habort
      exact stepItems_abort habort
    cases it with
    | del ra =>
      obtain ⟨a', ha, hw'⟩ := hw
      subst ha
      obtain ⟨S1, hex, hinv1, hfr1⟩ := step_del hinv
      have hst : (stepItem ctx st (.del ra)) = (st, [.deleteRule ctx.pid ra.id]) := rfl
      obtain ⟨S', K', I', BK', BI', hrun, hinv', hperm, hfr, hmono⟩ :=
        ih S1 st K I BK BI a' b hw' hinv1 (by simpa [stepItems, hst] using habort)
      refine ⟨S', K', I', BK', BI', ?_, ?_, hperm, hfr1.trans hfr, ?_⟩
      · simp only [stepItems, hst, List.singleton_append, run, hex]
        exact hrun
      · simpa [stepItems, hst] using hinv'
      · simpa [stepItems, hst] using hmono
    | ins rb =>
      obtain ⟨b', hb, hw'⟩ := hw
      subst hb
      obtain ⟨S1, r', hrun1, hinv1, hfr1, hmono1⟩ := step_ins hc hinv
      generalize hst : stepItem ctx st (.ins rb) = X at *
      obtain ⟨st1, c1⟩ := X
      simp only at hrun1 hinv1 hmono1
      obtain ⟨S', K', I', BK', BI', hrun, hinv', hperm, hfr, hmono⟩ :=
        ih S1 st1 K (I ++ [r']) BK (BI ++ [rb]) a b' hw' hinv1 (by simpa [stepItems, hst] using habort)
      refine ⟨S', K', I', BK', BI', ?_, ?_, ?_, hfr1.trans hfr, ?_⟩
      · simp only [stepItems, hst]
        rw [run_append hrun1]; exact hrun
      · simpa [stepItems, hst] using hinv'
      · refine hperm.trans (List.Perm.of_eq ?_); simp
      · simp only [stepItems, hst]; exact hmono1.trans hmono
    | eq ra rb =>
      obtain ⟨a', b', ha, hb, heq, hw'⟩ := hw
      subst ha; subst hb
      obtain ⟨S1, ra', hrun1, hinv1, hfr1, hmono1⟩ := step_eq hc hdiff hinv heq hab1
      generalize hst : stepItem ctx st (.eq ra rb) = X at *
      obtain ⟨st1, c1⟩ := X
      simp only at hrun1 hinv1 hmono1
      obtain ⟨S', K', I', BK', BI', hrun, hinv', hperm, hfr, hmono⟩ :=
        ih S1 st1 (K ++ [ra']) I (BK ++ [rb]) BI a' b' hw' hinv1 (by simpa [stepItems, hst] using habort)
      refine ⟨S', K', I', BK', BI', ?_, ?_, ?_, hfr1.trans hfr, ?_⟩
      · simp only [stepItems, hst]
        rw [run_append hrun1]; exact hrun
      · simpa [stepItems, hst] using hinv'
      · refine hperm.trans ?_
        simp only [List.append_assoc]
        refine List.Perm.append_left BK ?_
        have e : BI ++ rb :: b' = (BI ++ [rb]) ++ b' := by simp
        rw [e, ← List.append_assoc]
        exact List.Perm.append_right b' List.perm_append_comm
      · simp only [stepItems, hst]; exact hmono1.trans hmono

end NA.Nsx
