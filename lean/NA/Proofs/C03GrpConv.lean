import NA.Proofs.C03GrpFinal
/-
C03, whole-vsys theorems with address-groups, part 14: **convergence and executability for pairs
with address-groups** (`GrpPair`).  Core Lean only.
-/
namespace NA.PanOs

/-- Flags of addresses and services of the final planner state, by name. -/
theorem grp_summaries (sh : Shared) (diff : Differ) (a b : Vsys) (hP : GrpPair sh a b) :
    AddrSumR (RefAddrN b) a b (planState diff a b) ∧ SvcSummary a b (planState diff a b) ∧
    (planState diff a b).aSG = [] ∧ (planState diff a b).bSG = [] := by
  obtain ⟨has, hbs, _, _, haan, _, hasn, _, _, hbgn, _, _, _, _, _, _, _, _, _⟩ := hP
  have hobjs := planState_objs diff a b
  obtain ⟨e1, e2, e3, e4, e5, e6⟩ := objs_fields hobjs
  obtain ⟨af1, af2, af3, af4⟩ := stM_addrFlags a b hbgn
  obtain ⟨sf1, sf2, sf3, sf4⟩ := stM_svcFlags a b hbs
  refine ⟨?_, ?_, by rw [e5]; exact (stM_sg_nil a b has hbs).1, by rw [e6]; exact (stM_sg_nil a b has hbs).2⟩
  · exact addrSumR_of (RefAddrN b) (by rw [e2]; exact af3) (by rw [e1]; exact af2) (af1.of_objs hobjs)
      (fun x hx hxb => by
        obtain ⟨c, m⟩ := af4 x hx.1 hx.2 hxb
        exact ⟨c.of_objs hobjs, m.of_objs hobjs⟩) haan
  · exact svcSummary_direct (by rw [e4]; exact sf3) (by rw [e3]; exact sf2) (sf1.of_objs hobjs)
      (fun x hx hxb => by
        obtain ⟨c, m⟩ := sf4 x hx hxb
        exact ⟨c.of_objs hobjs, m.of_objs hobjs⟩) hasn

/-- The groups of the final planner state, in terms of the two configurations. -/
theorem fin_groups (sh : Shared) (diff : Differ) (hd : GoodDiffer diff) (hid : IdentityDiffer diff) (a b : Vsys)
    (hP : GrpPair sh a b) :
    (planState diff a b).aGrp.map (·.g.name) = a.groups.map (·.name) ∧
    (∀ ga ∈ (planState diff a b).aGrp, ∃ gr ∈ a.groups, ga.g = { gr with members := sortStrings gr.members }) ∧
    (∀ gb ∈ (planState diff a b).bGrp, ∃ gr ∈ b.groups, gb.g = { gr with members := sortStrings gr.members } ∧
      gb.newName ∈ newGroupNames a b) ∧
    (∀ gb ∈ (planState diff a b).bGrp, gb.needed = true → RefG b gb.g.name) := by
  obtain ⟨hmono, _⟩ := grp_fin_facts sh diff hd hid a b hP
  have hprov := stM_gprov sh a b hP
  refine ⟨by rw [hmono.anames, stM_aGrp_names], ?_, ?_, ?_⟩
  · intro ga hga
    obtain ⟨ga0, hga0, e⟩ := hmono.amem hga
    obtain ⟨gr, hgr, e0, _⟩ := stM_aGrp_mem a b hga0
    exact ⟨gr, hgr, by rw [← e, e0]⟩
  · intro gb hgb
    obtain ⟨gb0, hgb0, e, en⟩ := hmono.bmem hgb
    obtain ⟨gr, hgr, e0, hn, _⟩ := stM_bGrp_mem a b hgb0
    exact ⟨gr, hgr, by rw [← e, e0], by rw [← en]; exact hn⟩
  · intro gb hgb hn
    obtain ⟨i, hi⟩ := List.getElem?_of_mem hgb
    obtain ⟨gb0, hgb0, eg, _⟩ := hmono.bget' hi
    have hn0 : gb0.needed = true := hmono.bn i gb0 gb hgb0 hi hn
    rw [eg]
    exact hprov gb0 (List.mem_of_getElem? hgb0) hn0

/-- Members of a target group the rules name: addresses of the target that the transfer phase
gets right. -/
theorem ref_group_members (sh : Shared) (a b : Vsys) (hP : GrpPair sh a b) (gr : Grp) (hgr : gr ∈ b.groups)
    (href : RefG b gr.name) : ∀ m ∈ gr.members, m ∈ b.addrs.map (·.name) ∧ RefAddrN b m := by
  obtain ⟨_, _, _, _, _, _, _, _, _, _, _, hbgm, hnames, _, _, _, _, _, _⟩ := hP
  obtain ⟨r, hr, hx⟩ := href
  intro m hm
  have hmb := (hbgm gr hgr).2 m hm
  refine ⟨hmb, ⟨r, hr, Or.inr ⟨gr, hgr, hx, hm⟩⟩, ?_⟩
  intro h
  exact (hnames m (by simp [h])).2.2.2.2 hmb

/-- **The whole plan on the strict device, for pairs with address-groups** (`GrpPair`): every
request is accepted, and the vsys reached is equivalent to the target. -/
theorem grp_converges (sh : Shared) (diff : Differ) (hd : GoodDiffer diff) (hid : IdentityDiffer diff)
    (a b : Vsys) (hP : GrpPair sh a b) :
    ∃ w, Runs sh a (planVsys diff a b) w ∧ equiv w b = true ∧ w.name = a.name ∧
      w.rules.length = b.rules.length := by
  have hP' := hP
  obtain ⟨hmono, hI⟩ := grp_fin_facts sh diff hd hid a b hP
  obtain ⟨a1, ha1, hT⟩ := grp_transfer sh diff hd hid a b hP
  obtain ⟨w2, vg', hw2, s1, s2, s3, s4, s5, hgn, hvaddr, hS, hother, hlen, hnd, hlike, hset⟩ :=
    grp_rulePhase sh diff hd hid a b hP a1 hT
  obtain ⟨hA, hSv, haSG, hbSG⟩ := grp_summaries sh diff a b hP
  obtain ⟨hfa, hfaG, hfbG, hfprov⟩ := fin_groups sh diff hd hid a b hP
  have hrefmem := ref_group_members sh a b hP
  obtain ⟨has, hbs, han, hbn, haan, hban, hasn, hbsn, hagn, hbgn, hagm, hbgm, hnames, hal, hbl, har, hbr, hres, hsres⟩ := hP
  have hname_a : ∀ x ∈ a.groups.map (·.name), x ≠ "" ∧ x ≠ "any" ∧ x ∉ sh ∧ x ∉ a.addrs.map (·.name) ∧
      x ∉ b.addrs.map (·.name) := fun x hx => hnames x (by simp [hx])
  have hname_b : ∀ x ∈ b.groups.map (·.name), x ≠ "" ∧ x ≠ "any" ∧ x ∉ sh ∧ x ∉ a.addrs.map (·.name) ∧
      x ∉ b.addrs.map (·.name) := fun x hx => hnames x (by simp [hx])
  have hname_n : ∀ x ∈ newGroupNames a b, x ≠ "" ∧ x ≠ "any" ∧ x ∉ sh ∧ x ∉ a.addrs.map (·.name) ∧
      x ∉ b.addrs.map (·.name) := fun x hx => hnames x (by simp [hx])
  -- names of the groups on the device after the rule phase
  have hnewnd : (((planState diff a b).bGrp.filter (·.needed)).map (·.newName)).Nodup := by
    have hnn : ∀ gb ∈ (planState diff a b).bGrp, gb.newName ∈ newGroupNames a b := fun gb hgb => (hfbG gb hgb).choose_spec.2.2
    obtain ⟨_, hnnd, _, _⟩ := groupNamesFor_spec suffixInj (sortVsys a) (sortVsys b)
      (by rw [sortVsys_groups_names]; exact hbgn)
    have h1 := congrArg (List.map (fun p : Grp × String => p.2)) hmono.bg
    have h2 := congrArg (List.map (fun p : Grp × String × String => p.2.1)) (stM_gmark a b).bg
    simp only [List.map_map, Function.comp_def] at h1 h2
    have hall : (planState diff a b).bGrp.map (·.newName) = newGroupNames a b := by rw [h1, h2, st0_newNames]
    exact (List.Sublist.map _ List.filter_sublist).nodup (by rw [hall]; exact hnnd)
  have hvgnames : vg'.groups.map (·.name) =
      a.groups.map (·.name) ++ ((planState diff a b).bGrp.filter (·.needed)).map (·.newName) := by
    rw [hgn, hT.groups]
    simp [newGroups, List.map_map, Function.comp_def]
  have hvgnd : (vg'.groups.map (·.name)).Nodup := by
    rw [hvgnames, List.nodup_append]
    refine ⟨hagn, hnewnd, ?_⟩
    intro x hx y hy e
    obtain ⟨gb, hgb, rfl⟩ := List.mem_map.mp hy
    have := (hI.fresh gb (List.mem_filter.mp hgb).1).2
    rw [hfa] at this
    exact this (e ▸ hx)
  -- what the groups of the device hold after the rule phase
  have hvgmem : ∀ g ∈ vg'.groups,
      (g.name ∈ a.groups.map (·.name) ∧ (∃ ga ∈ (planState diff a b).aGrp, ga.g.name = g.name ∧ ga.needed = false) ∧
        ∀ m ∈ g.members, m ∈ a.addrs.map (·.name)) ∨
      (∃ gb ∈ (planState diff a b).bGrp, RefG b gb.g.name ∧ SameMem g.members gb.g.members ∧
        (gb.onDev = g.name ∨ (gb.newName = g.name ∧ gb.needed = true)) ∧
        ((∃ ga ∈ (planState diff a b).aGrp, ga.g.name = g.name ∧ ga.needed = true) ∨
          g.name ∉ a.groups.map (·.name))) := by
    intro g hg
    have hlk := lookupGrp_of_mem hvgnd hg
    by_cases hna : g.name ∈ a.groups.map (·.name)
    · rw [← hfa] at hna
      obtain ⟨ga, hga, hgan⟩ := List.mem_map.mp hna
      cases hn : ga.needed with
      | false =>
        left
        obtain ⟨ms, hms, hsame, _⟩ := hS.U ga hga hn
        rw [hgan, hlk] at hms
        cases hms
        obtain ⟨gr, hgr, e⟩ := hfaG ga hga
        refine ⟨by rw [← hfa]; exact hna, ⟨ga, hga, hgan, hn⟩, ?_⟩
        intro m hm
        have := (hsame m).mp hm
        rw [e] at this
        exact (hagm gr hgr).2 m ((mem_sortStrings m _).mp this)
      | true =>
        right
        obtain ⟨gb, hgb, hon⟩ := hI.c4 ga hga hn
        obtain ⟨ms, hms, hsame⟩ := hS.K gb hgb ga hga hon
        rw [hgan, hlk] at hms
        cases hms
        have hne : gb.onDev ≠ "" := by rw [hon]; exact hI.ane ga hga
        exact ⟨gb, hgb, hI.c5 gb hgb hne, hsame, Or.inl (hon.trans hgan), Or.inl ⟨ga, hga, hgan, hn⟩⟩
    · right
      have h1 := hother g.name hna
      rw [hlk, hT.groups, lookupGrp_append_right hna] at h1
      obtain ⟨gb, hgb, hn, hnm, hmm⟩ := lookupGrp_newGroups h1.symm
      exact ⟨gb, hgb, hfprov gb hgb hn, by rw [hmm]; exact SameMem.refl _, Or.inr ⟨hnm, hn⟩, Or.inr hna⟩
  -- members of the groups that stay are addresses of the target which the transfer got right
  have hkeepmem : ∀ gb ∈ (planState diff a b).bGrp, RefG b gb.g.name → ∀ m ∈ gb.g.members,
      m ∈ b.addrs.map (·.name) ∧ RefAddrN b m := by
    intro gb hgb href m hm
    obtain ⟨gr, hgr, e, _⟩ := hfbG gb hgb
    rw [e] at hm href
    exact hrefmem gr hgr href m ((mem_sortStrings m _).mp hm)
  -- what the lists of the final rules name
  have hadapt : ∀ rb ∈ bRulesOf a b, ∀ (l : List String), (l = rb.src ∨ l = rb.dst) →
      ∀ y ∈ adaptL (planState diff a b) l,
        (y ∈ l ∧ (planState diff a b).bGrpIdx y = none) ∨
        (∃ z ∈ l, ∃ gb ∈ (planState diff a b).bGrp, gb.g.name = z ∧ gb.onDev = y ∧ y ≠ "") := by
    intro rb hrb l hl y hy
    simp only [adaptL, List.mem_map] at hy
    obtain ⟨z, hz, rfl⟩ := hy
    cases hidx : (planState diff a b).bGrpIdx z with
    | none => exact Or.inl ⟨by simp [adapt1, hidx]; exact hz, by simp [adapt1, hidx]⟩
    | some gbi =>
      right
      have hsetl : GSettled (planState diff a b) l := by
        rcases hl with rfl | rfl
        · exact (hset rb hrb).1
        · exact (hset rb hrb).2
      obtain ⟨gb, hgb, hne⟩ := hsetl z hz gbi hidx
      obtain ⟨gb', hgb', hnm⟩ := bGrp_of_idx hidx
      rw [hgb] at hgb'; cases hgb'
      refine ⟨z, hz, gb, List.mem_of_getElem? hgb, hnm, ?_, ?_⟩
      · simp [adapt1, hidx, hgb]
      · simp only [adapt1, hidx, hgb, Option.map_some, Option.getD_some]; exact hne
  -- a plain member of a target list is not a group name of the device
  have hplain_not_grp : ∀ rb ∈ bRulesOf a b, ∀ (l : List String), (l = rb.src ∨ l = rb.dst) →
      ∀ y ∈ l, (planState diff a b).bGrpIdx y = none → y ∉ vg'.groups.map (·.name) := by
    intro rb hrb l hl y hy hidx hmem
    obtain ⟨r, hr, es, ed, _, _⟩ := bRulesOf_mem a b hrb
    have hyr : y ∈ r.src ++ r.dst := by
      rcases hl with rfl | rfl
      · rw [es] at hy; simp [(mem_sortStrings y _).mp hy]
      · rw [ed] at hy; simp [(mem_sortStrings y _).mp hy]
    have hres' := (hbr r hr).1 y hyr
    rw [hvgnames, List.mem_append] at hmem
    have hprops : y ≠ "any" ∧ y ∉ sh ∧ y ∉ b.addrs.map (·.name) := by
      rcases hmem with h | h
      · obtain ⟨_, p2, p3, _, p5⟩ := hname_a y h
        exact ⟨p2, p3, p5⟩
      · obtain ⟨gb, hgb, rfl⟩ := List.mem_map.mp h
        obtain ⟨_, p2, p3, _, p5⟩ := hname_n _ (hfbG gb (List.mem_filter.mp hgb).1).choose_spec.2.2
        exact ⟨p2, p3, p5⟩
    rcases hres' with h | h | h | h
    · exact hprops.1 h
    · exact hprops.2.1 h
    · exact hprops.2.2 h
    · -- a group of the target: then it has an index
      have hsome := lastIdx_isSome_of_mem (names := (planState diff a b).bGrp.map (·.g.name)) (n := y)
        (by rw [hmono.bnames, stM_bGrp_names]; exact h)
      unfold St.bGrpIdx at hidx
      rw [hidx] at hsome; cases hsome
  -- the rule of the device at position t
  have hrule : ∀ (t : Nat) (d : Rule), w2.rules[t]? = some d → ∃ rb r0, rb ∈ bRulesOf a b ∧ r0 ∈ b.rules ∧
      b.rules[t]? = some r0 ∧ rb.src = sortStrings r0.src ∧ rb.dst = sortStrings r0.dst ∧
      rb.srv = sortStrings r0.srv ∧ d.hdr = r0.hdr ∧
      SameMem d.src (adaptL (planState diff a b) rb.src) ∧ SameMem d.dst (adaptL (planState diff a b) rb.dst) ∧
      SameMem d.srv rb.srv := by
    intro t d hd'
    have htlt : t < b.rules.length := by rw [← hlen]; exact (List.getElem?_eq_some_iff.mp hd').1
    obtain ⟨l0, l1, l2, l3⟩ := hlike t d hd'
    obtain ⟨g1, g2, g3, g4⟩ := bRulesOf_getD a b t htlt
    have hr0 := getElem?_of_lt b.rules t htlt
    have hrbmem : (bRulesOf a b).getD t default ∈ bRulesOf a b :=
      List.mem_of_getElem? (getElem?_of_lt _ t (by rw [bRulesOf_length]; exact htlt))
    exact ⟨_, _, hrbmem, List.mem_of_getElem? hr0, hr0, g2, g3, g4, by rw [l0, adaptRule_hdr, g1], l1, l2, l3⟩
  -- REMOVAL 1: the device groups that are not needed
  have hrm := removeCmds_grp (planState diff a b) haSG
  have xsG_nd : (((planState diff a b).aGrp.filter (fun g => !g.needed)).map (·.g.name)).Nodup :=
    (List.Sublist.map _ List.filter_sublist).nodup (by rw [hfa]; exact hagn)
  obtain ⟨w3, hw3, u1, u2, u3, u4, u5, ulook, ugrps⟩ := runs_delGrps sh
    (((planState diff a b).aGrp.filter (fun g => !g.needed)).map (·.g.name)) w2 xsG_nd
    (by
      intro x hx
      obtain ⟨ga, hga, rfl⟩ := List.mem_map.mp hx
      rw [s5, hvgnames, ← hfa]
      exact List.mem_append_left _ (List.mem_map_of_mem (List.mem_filter.mp hga).1))
    (by
      intro x hx r hr
      obtain ⟨ga, hga, rfl⟩ := List.mem_map.mp hx
      obtain ⟨hgam, hgan⟩ := List.mem_filter.mp hga
      have hgan' : ga.needed = false := by simpa using hgan
      obtain ⟨t, ht⟩ := List.getElem?_of_mem hr
      obtain ⟨rb, r0, hrb, _, _, _, _, _, _, q1, q2, _⟩ := hrule t r ht
      have no : ∀ (l : List String), (l = rb.src ∨ l = rb.dst) → ga.g.name ∉ adaptL (planState diff a b) l := by
        intro l hl hmem
        rcases hadapt rb hrb l hl _ hmem with ⟨hy, hidx⟩ | ⟨z, _, gb, hgb, _, hon, _⟩
        · apply hplain_not_grp rb hrb l hl _ hy hidx
          rw [hvgnames, ← hfa]
          exact List.mem_append_left _ (List.mem_map_of_mem hgam)
        · have := hI.c2 gb hgb ga hgam hon
          rw [hgan'] at this; cases this
      exact ⟨fun h => no rb.src (Or.inl rfl) ((q1 _).mp h), fun h => no rb.dst (Or.inr rfl) ((q2 _).mp h)⟩)
    (by
      intro x hx g hg hmem
      obtain ⟨ga, hga, rfl⟩ := List.mem_map.mp hx
      have hxa : ga.g.name ∈ a.groups.map (·.name) := by
        rw [← hfa]; exact List.mem_map_of_mem (List.mem_filter.mp hga).1
      obtain ⟨_, _, _, p4, p5⟩ := hname_a _ hxa
      rw [s5] at hg
      rcases hvgmem g hg with ⟨_, _, hm⟩ | ⟨gb, hgb, href, hsame, _, _⟩
      · exact p4 (hm _ hmem)
      · exact p5 (hkeepmem gb hgb href _ ((hsame _).mp hmem)).1)
  -- the groups that stay
  have hw3grp : ∀ g ∈ w3.groups, ∃ gb ∈ (planState diff a b).bGrp, RefG b gb.g.name ∧ SameMem g.members gb.g.members ∧
      (gb.onDev = g.name ∨ (gb.newName = g.name ∧ gb.needed = true)) := by
    intro g hg
    obtain ⟨hg2, hnx⟩ := ugrps g hg
    rw [s5] at hg2
    rcases hvgmem g hg2 with ⟨_, ⟨ga, hga, hgan, hn⟩, _⟩ | ⟨gb, hgb, href, hsame, hnm, _⟩
    · exfalso
      apply hnx
      exact List.mem_map.mpr ⟨ga, List.mem_filter.mpr ⟨hga, by simp [hn]⟩, hgan⟩
    · exact ⟨gb, hgb, href, hsame, hnm⟩
  -- REMOVAL 2: addresses
  have hanames := map_o_name_a hA.adefs
  have hsnames := map_o_name_a hSv.adefs
  have xsA_mem : ∀ x, x ∈ ((planState diff a b).aAddr.filter (fun o => !o.needed)).map (·.o.name) →
      x ∈ a.addrs.map (·.name) ∧ ∃ oa ∈ (planState diff a b).aAddr, oa.o.name = x ∧ oa.needed = false := by
    intro x hx
    obtain ⟨oa, hoa, rfl⟩ := List.mem_map.mp hx
    obtain ⟨h1, h2⟩ := List.mem_filter.mp hoa
    exact ⟨by rw [← hanames]; exact List.mem_map_of_mem h1, oa, h1, rfl, by simpa using h2⟩
  have xsS_mem : ∀ x, x ∈ ((planState diff a b).aSvc.filter (fun o => !o.needed)).map (·.o.name) →
      x ∈ a.svcs.map (·.name) ∧ ∃ oa ∈ (planState diff a b).aSvc, oa.o.name = x ∧ oa.needed = false := by
    intro x hx
    obtain ⟨oa, hoa, rfl⟩ := List.mem_map.mp hx
    obtain ⟨h1, h2⟩ := List.mem_filter.mp hoa
    exact ⟨by rw [← hsnames]; exact List.mem_map_of_mem h1, oa, h1, rfl, by simpa using h2⟩
  -- a removed address is not one the transfer had to get right
  have notRefA : ∀ x, x ∈ ((planState diff a b).aAddr.filter (fun o => !o.needed)).map (·.o.name) →
      RefAddrN b x → x ∈ b.addrs.map (·.name) → False := by
    intro x hx href hxb
    obtain ⟨_, oa, hoa, hname, hneed⟩ := xsA_mem x hx
    have := hA.marked x href hxb oa hoa hname
    rw [hneed] at this; cases this
  obtain ⟨w4, hw4, v1, v2, v3, v4, v5, vlook, vgone⟩ := runs_delAddrs sh
    (((planState diff a b).aAddr.filter (fun o => !o.needed)).map (·.o.name)) w3
    (sublist_filter_map_nodup (by rw [hanames]; exact haan) _)
    (by
      intro x hx
      rw [u2, s1]
      exact hT.addrKeep x (xsA_mem x hx).1)
    (by
      intro x hx
      obtain ⟨hxa, _⟩ := xsA_mem x hx
      obtain ⟨r1, r2⟩ := hres x hxa
      unfold addrUsed
      rw [Bool.eq_false_iff]
      intro hany
      simp only [Bool.or_eq_true, List.any_eq_true, List.contains_iff_mem] at hany
      rcases hany with ⟨r, hr, hxr⟩ | ⟨g, hg, hxg⟩
      · rw [u1] at hr
        obtain ⟨t, ht⟩ := List.getElem?_of_mem hr
        obtain ⟨rb, r0, hrb, hr0, _, es, ed, _, _, q1, q2, _⟩ := hrule t r ht
        have no : ∀ (l l0 : List String), (l = rb.src ∨ l = rb.dst) → l = sortStrings l0 → (l0 = r0.src ∨ l0 = r0.dst) →
            x ∉ adaptL (planState diff a b) l := by
          intro l l0 hl el hl0 hmem
          rcases hadapt rb hrb l hl _ hmem with ⟨hy, hidx⟩ | ⟨z, _, gb, hgb, _, hon, hne⟩
          · -- a plain member: an address of the target that the rules use
            rw [el] at hy
            have hy0 : x ∈ l0 := (mem_sortStrings x _).mp hy
            have hxr0 : x ∈ r0.src ++ r0.dst := by rcases hl0 with rfl | rfl <;> simp [hy0]
            have hng : x ∉ b.groups.map (·.name) := by
              intro h
              have hsome := lastIdx_isSome_of_mem (names := (planState diff a b).bGrp.map (·.g.name)) (n := x)
                (by rw [hmono.bnames, stM_bGrp_names]; exact h)
              unfold St.bGrpIdx at hidx
              rw [hidx] at hsome; cases hsome
            rcases (hbr r0 hr0).1 x hxr0 with h | h | h | h
            · exact r1 h
            · exact r2 h
            · exact notRefA x hx ⟨⟨r0, hr0, Or.inl (by rcases hl0 with rfl | rfl; exact Or.inl hy0; exact Or.inr hy0)⟩, hng⟩ h
            · exact hng h
          · -- a name of a group: not an address name
            rcases hI.c3 gb hgb with h | h | h
            · rw [hon] at h; exact hne h
            · rw [hon] at h
              exact (hname_n x (by rw [h]; exact (hfbG gb hgb).choose_spec.2.2)).2.2.2.1 hxa
            · rw [hon, hfa] at h
              exact (hname_a x h).2.2.2.1 hxa
        rcases hxr with hxr | hxr
        · exact no rb.src r0.src (Or.inl rfl) es (Or.inl rfl) ((q1 x).mp hxr)
        · exact no rb.dst r0.dst (Or.inr rfl) ed (Or.inr rfl) ((q2 x).mp hxr)
      · obtain ⟨gb, hgb, href, hsame, _⟩ := hw3grp g hg
        obtain ⟨hxb, hR⟩ := hkeepmem gb hgb href x ((hsame x).mp hxg)
        exact notRefA x hx hR hxb)
  -- REMOVAL 3: services
  have notRefS : ∀ x, x ∈ ((planState diff a b).aSvc.filter (fun o => !o.needed)).map (·.o.name) →
      RefSvc b x → x ∈ b.svcs.map (·.name) → False := by
    intro x hx href hxb
    obtain ⟨_, oa, hoa, hname, hneed⟩ := xsS_mem x hx
    have := hSv.marked x href hxb oa hoa hname
    rw [hneed] at this; cases this
  obtain ⟨w, hw, z1, z2, z3, z4, z5, zlook, zgone⟩ := runs_delSvcs sh
    (((planState diff a b).aSvc.filter (fun o => !o.needed)).map (·.o.name)) w4
    (sublist_filter_map_nodup (by rw [hsnames]; exact hasn) _)
    (by
      intro x hx
      rw [v2, u3, s2]
      exact hT.svcKeep x (xsS_mem x hx).1)
    (by
      intro x hx
      obtain ⟨hxa, _⟩ := xsS_mem x hx
      obtain ⟨r1, r2, r3⟩ := hsres x hxa
      unfold srvUsed
      rw [v4, u4, s3, hT.sgroups, has, v1, u1]
      simp only [List.any_nil, Bool.or_false]
      rw [Bool.eq_false_iff]
      intro hany
      simp only [List.any_eq_true, List.contains_iff_mem] at hany
      obtain ⟨r, hr, hxr⟩ := hany
      obtain ⟨t, ht⟩ := List.getElem?_of_mem hr
      obtain ⟨rb, r0, _, hr0, _, _, _, ev, _, _, _, q3⟩ := hrule t r ht
      have hx0 : x ∈ r0.srv := by
        have := (q3 x).mp hxr
        rw [ev] at this
        exact (mem_sortStrings x _).mp this
      rcases (hbr r0 hr0).2 x hx0 with h | h | h | h
      · exact r1 h
      · exact r2 h
      · exact r3 h
      · exact notRefS x hx ⟨r0, hr0, hx0⟩ h)
  -- the whole run
  have hruns : Runs sh a (planVsys diff a b) w := by
    unfold planVsys
    simp only
    rw [hrm]
    have e0 : ((planState diff a b).aGrp.filter (fun g => !g.needed)).map (fun g => Cmd.delGrp g.g.name) =
        (((planState diff a b).aGrp.filter (fun g => !g.needed)).map (·.g.name)).map Cmd.delGrp := by
      simp [List.map_map, Function.comp_def]
    have e1 : ((planState diff a b).aAddr.filter (fun o => !o.needed)).map (fun o => Cmd.delAddr o.o.name) =
        (((planState diff a b).aAddr.filter (fun o => !o.needed)).map (·.o.name)).map Cmd.delAddr := by
      simp [List.map_map, Function.comp_def]
    have e2 : ((planState diff a b).aSvc.filter (fun o => !o.needed)).map (fun o => Cmd.delSvc o.o.name) =
        (((planState diff a b).aSvc.filter (fun o => !o.needed)).map (·.o.name)).map Cmd.delSvc := by
      simp [List.map_map, Function.comp_def]
    rw [e0, e1, e2]
    exact (ha1.append hw2).append ((hw3.append hw4).append hw)
  have hwrules : w.rules = w2.rules := z1.trans (v1.trans u1)
  have hwgroups : w.groups = w3.groups := z3.trans v3
  have hwsg : w.sgroups = [] := by rw [z4, v4, u4, s3, hT.sgroups, has]
  refine ⟨w, hruns, ?_, by rw [z5, v5, u5, s4, hT.name], by rw [hwrules]; exact hlen⟩
  -- lookups of addresses in the final state
  have lookA : ∀ x, RefAddrN b x → x ∈ b.addrs.map (·.name) → lookupObj w.addrs x = lookupObj b.addrs x := by
    intro x href hxb
    have hnotrm : x ∉ ((planState diff a b).aAddr.filter (fun o => !o.needed)).map (·.o.name) :=
      fun hx => notRefA x hx href hxb
    rw [z2, vlook x hnotrm, u2, s1]
    exact hT.addrRef x href hxb
  have lookA_none : ∀ x, (x = "any" ∨ x ∈ sh) → x ∉ b.addrs.map (·.name) → lookupObj w.addrs x = none := by
    intro x hx hxb
    rw [lookupObj_none_iff]
    intro hmem
    have hm4 : x ∈ w4.addrs.map (·.name) := by rw [← z2]; exact hmem
    have hne : lookupObj w4.addrs x ≠ none := fun h => (lookupObj_none_iff _ _).mp h hm4
    have hnx : x ∉ ((planState diff a b).aAddr.filter (fun o => !o.needed)).map (·.o.name) :=
      fun h => hne (vgone x h)
    rw [vlook x hnx, u2, s1, hT.addrOther x hxb] at hne
    have hxa : x ∈ a.addrs.map (·.name) := by
      apply Decidable.byContradiction
      intro h; exact hne ((lookupObj_none_iff _ _).mpr h)
    obtain ⟨r1, r2⟩ := hres x hxa
    rcases hx with h | h
    · exact r1 h
    · exact r2 h
  have lookS : ∀ x, RefSvc b x → (x = "any" ∨ x = "application-default" ∨ x ∈ sh ∨ x ∈ b.svcs.map (·.name)) →
      lookupObj w.svcs x = lookupObj b.svcs x := by
    intro x href hcase
    by_cases hxb : x ∈ b.svcs.map (·.name)
    · have hnotrm : x ∉ ((planState diff a b).aSvc.filter (fun o => !o.needed)).map (·.o.name) :=
        fun hx => notRefS x hx href hxb
      rw [zlook x hnotrm, v2, u3, s2]
      exact hT.svcRef x href hxb
    · rw [(lookupObj_none_iff b.svcs x).mpr hxb, lookupObj_none_iff]
      intro hmem
      have hne : lookupObj w.svcs x ≠ none := fun h => (lookupObj_none_iff _ _).mp h hmem
      have hnx : x ∉ ((planState diff a b).aSvc.filter (fun o => !o.needed)).map (·.o.name) :=
        fun h => hne (zgone x h)
      rw [zlook x hnx, v2, u3, s2, hT.svcOther x hxb] at hne
      have hxa : x ∈ a.svcs.map (·.name) := by
        apply Decidable.byContradiction
        intro h; exact hne ((lookupObj_none_iff _ _).mpr h)
      obtain ⟨r1, r2, r3⟩ := hsres x hxa
      rcases hcase with h | h | h | h
      · exact r1 h
      · exact r2 h
      · exact r3 h
      · exact hxb h
  -- names of the groups of the final state
  have hwgn : ∀ g ∈ w.groups, g.name ∈ vg'.groups.map (·.name) := by
    intro g hg
    rw [hwgroups] at hg
    have := (ugrps g hg).1
    rw [s5] at this
    exact List.mem_map_of_mem this
  have hwgnames_sub : ∀ n ∈ w.groups.map (·.name), n ∈ vg'.groups.map (·.name) := by
    intro n hn
    obtain ⟨g, hg, rfl⟩ := List.mem_map.mp hn
    exact hwgn g hg
  -- the content of one source / destination list
  have hfield : ∀ (t : Nat) (d rb r0 : Rule) (ld lb l0 : List String), rb ∈ bRulesOf a b → r0 ∈ b.rules →
      (lb = rb.src ∨ lb = rb.dst) → (l0 = r0.src ∨ l0 = r0.dst) → lb = sortStrings l0 → ListShape b l0 →
      SameMem ld (adaptL (planState diff a b) lb) →
      sameSet (addrContent w ld) (addrContent b l0) = true := by
    intro t d rb r0 ld lb l0 hrb hr0 hlb hl0 el hshape hsame
    have hl0sub : ∀ x ∈ l0, x ∈ r0.src ++ r0.dst := by
      intro x hx; rcases hl0 with rfl | rfl <;> simp [hx]
    rcases hshape.2 with ⟨hng, _⟩ | hsg
    · -- addresses only
      have hidx : ∀ y ∈ lb, (planState diff a b).bGrpIdx y = none := by
        intro y hy
        rw [el] at hy
        have := hng y ((mem_sortStrings y _).mp hy)
        unfold St.bGrpIdx
        apply lastIdx_none_of_not_mem
        rw [hmono.bnames, stM_bGrp_names]
        intro h
        rw [(isGrpOf_iff b y).mpr h] at this; cases this
      rw [adaptL_plain _ _ hidx, el] at hsame
      unfold addrContent
      apply sameSet_of _ _ _ _ (hsame.trans (sortStrings_sameMem l0).symm)
      intro x hx
      have hxng : x ∉ b.groups.map (·.name) := by
        intro h
        have := hng x hx
        rw [(isGrpOf_iff b x).mpr h] at this; cases this
      have hxnw : x ∉ w.groups.map (·.name) := by
        intro h
        exact hplain_not_grp rb hrb lb hlb x (by rw [el]; exact (mem_sortStrings x _).mpr hx)
          (hidx x (by rw [el]; exact (mem_sortStrings x _).mpr hx)) (hwgnames_sub x h)
      rw [expandAddr_plain w _ x hxnw, expandAddr_plain b _ x hxng]
      rcases (hbr r0 hr0).1 x (hl0sub x hx) with h | h | h | h
      · by_cases hxb : x ∈ b.addrs.map (·.name)
        · rw [lookA x ⟨⟨r0, hr0, Or.inl (by rcases hl0 with rfl | rfl; exact Or.inl hx; exact Or.inr hx)⟩, hxng⟩ hxb]
        · rw [lookA_none x (Or.inl h) hxb, (lookupObj_none_iff b.addrs x).mpr hxb]
      · by_cases hxb : x ∈ b.addrs.map (·.name)
        · rw [lookA x ⟨⟨r0, hr0, Or.inl (by rcases hl0 with rfl | rfl; exact Or.inl hx; exact Or.inr hx)⟩, hxng⟩ hxb]
        · rw [lookA_none x (Or.inr h) hxb, (lookupObj_none_iff b.addrs x).mpr hxb]
      · rw [lookA x ⟨⟨r0, hr0, Or.inl (by rcases hl0 with rfl | rfl; exact Or.inl hx; exact Or.inr hx)⟩, hxng⟩ h]
      · exact absurd h hxng
    · -- exactly one group
      obtain ⟨g, rfl, hg⟩ := singleGrp_spec hsg
      rw [sortStrings_single] at el
      subst el
      have hgb : g ∈ b.groups.map (·.name) := (isGrpOf_iff b g).mp hg
      obtain ⟨gr, hgr, hgrn⟩ := List.mem_map.mp hgb
      -- the group of the final planner state and its name on the device
      obtain ⟨y, hy⟩ : ∃ y, adaptL (planState diff a b) [g] = [y] := ⟨_, rfl⟩
      rw [hy] at hsame
      have hymem : y ∈ adaptL (planState diff a b) [g] := by rw [hy]; simp
      rcases hadapt rb hrb [g] hlb y hymem with ⟨hyl, hidx⟩ | ⟨z, hz, gb, hgbm, hgbn, hon, hne⟩
      · exfalso
        simp only [List.mem_singleton] at hyl
        subst hyl
        have hsome := lastIdx_isSome_of_mem (names := (planState diff a b).bGrp.map (·.g.name)) (n := y)
          (by rw [hmono.bnames, stM_bGrp_names]; exact hgb)
        unfold St.bGrpIdx at hidx
        rw [hidx] at hsome; cases hsome
      · simp only [List.mem_singleton] at hz
        rw [hz] at hgbn
        -- the group named y on the device
        have href : RefG b gb.g.name := hI.c5 gb hgbm (by rw [hon]; exact hne)
        have hylook : ∃ ms, lookupGrp w.groups y = some ms ∧ SameMem ms gb.g.members := by
          rcases hI.c3 gb hgbm with h | h | h
          · rw [hon] at h; exact absurd h hne
          · -- transferred under its new name
            have hneeded := hI.c1 gb hgbm h
            have hya : y ∉ a.groups.map (·.name) := by
              rw [← hon, h]
              have := (hI.fresh gb hgbm).2
              rw [hfa] at this; exact this
            have hnx : y ∉ ((planState diff a b).aGrp.filter (fun g => !g.needed)).map (·.g.name) := by
              intro hx
              obtain ⟨ga, hga, e⟩ := List.mem_map.mp hx
              exact hya (by rw [← e, ← hfa]; exact List.mem_map_of_mem (List.mem_filter.mp hga).1)
            refine ⟨gb.g.members, ?_, SameMem.refl _⟩
            rw [hwgroups, ulook y hnx, s5, hother y hya, hT.groups, lookupGrp_append_right hya, ← hon, h]
            exact lookupGrp_newGroups_of hnewnd hgbm hneeded
          · -- a claimed device group
            rw [hon] at h
            obtain ⟨ga, hga, hgan⟩ := List.mem_map.mp h
            have hgan' : ga.g.name = y := hgan
            have hneeded := hI.c2 gb hgbm ga hga (by rw [hon, hgan'])
            obtain ⟨ms, hms, hsm⟩ := hS.K gb hgbm ga hga (by rw [hon, hgan'])
            have hnx : y ∉ ((planState diff a b).aGrp.filter (fun g => !g.needed)).map (·.g.name) := by
              intro hx
              obtain ⟨ga', hga', e⟩ := List.mem_map.mp hx
              obtain ⟨hgam', hn'⟩ := List.mem_filter.mp hga'
              have : ga' = ga := agrp_eq_of_name hI.anodup hgam' hga (e.trans hgan'.symm)
              subst this
              rw [hneeded] at hn'; cases hn'
            exact ⟨ms, by rw [hwgroups, ulook y hnx, s5, ← hgan']; exact hms, hsm⟩
        obtain ⟨ms, hms, hsm⟩ := hylook
        obtain ⟨grb, hgrb, egb, _⟩ := hfbG gb hgbm
        have hgrb_eq : grb = gr := by
          have hn1 : grb.name = gr.name := by
            have : gb.g.name = grb.name := by rw [egb]
            rw [← this, hgbn, hgrn]
          obtain ⟨i, hi⟩ := List.getElem?_of_mem hgrb
          obtain ⟨j, hj⟩ := List.getElem?_of_mem hgr
          have h1 : (b.groups.map (·.name))[i]? = some gr.name := by rw [List.getElem?_map, hi]; simp [hn1]
          have h2 : (b.groups.map (·.name))[j]? = some gr.name := by rw [List.getElem?_map, hj]; rfl
          have := nodup_getElem?_inj hbgn h1 h2
          subst this
          rw [hi] at hj; exact Option.some.inj hj
        subst hgrb_eq
        have hmem_ok := hkeepmem gb hgbm href
        have hsm' : SameMem ms grb.members := by
          rw [egb] at hsm
          exact hsm.trans (sortStrings_sameMem grb.members).symm
        -- members are no group names
        have hms_plain_w : ∀ m ∈ ms, m ∉ w.groups.map (·.name) := by
          intro m hm hmw
          have hmb := (hmem_ok m ((hsm m).mp hm)).1
          have := hwgnames_sub m hmw
          rw [hvgnames, List.mem_append] at this
          rcases this with h | h
          · exact (hname_a m h).2.2.2.2 hmb
          · obtain ⟨gb', hgb', rfl⟩ := List.mem_map.mp h
            exact (hname_n _ (hfbG gb' (List.mem_filter.mp hgb').1).choose_spec.2.2).2.2.2.2 hmb
        have hms_plain_b : ∀ m ∈ grb.members, m ∉ b.groups.map (·.name) := by
          intro m hm hmg
          exact (hname_b m hmg).2.2.2.2 ((hbgm grb hgr).2 m hm)
        -- fuel: the device has at least one group, the target too
        have hwpos : 0 < w.groups.length := by
          obtain ⟨gx, hfx, _⟩ := lookupGrp_some hms
          exact List.length_pos_of_mem (List.mem_of_find?_eq_some hfx)
        have hbpos : 0 < b.groups.length := List.length_pos_of_mem hgr
        have hlkb : lookupGrp b.groups g = some grb.members := by
          rw [← hgrn]; exact lookupGrp_of_mem hbgn hgr
        unfold addrContent
        have e1 : ([g] : List String).flatMap (expandAddr b (b.groups.length + 1)) = grb.members.flatMap (fun m =>
            match lookupObj b.addrs m with
            | some val => [.val val]
            | none => [.ext m]) := by
          simp only [List.flatMap_cons, List.flatMap_nil, List.append_nil]
          obtain ⟨k, hk⟩ : ∃ k, b.groups.length = k + 1 := ⟨b.groups.length - 1, by omega⟩
          rw [hk]
          exact expandAddr_group b k g grb.members hlkb hms_plain_b
        have e2 : expandAddr w (w.groups.length + 1) y = ms.flatMap (fun m =>
            match lookupObj w.addrs m with
            | some val => [.val val]
            | none => [.ext m]) := by
          obtain ⟨k, hk⟩ : ∃ k, w.groups.length = k + 1 := ⟨w.groups.length - 1, by omega⟩
          rw [hk]
          exact expandAddr_group w k y ms hms hms_plain_w
        rw [e1]
        have step1 : sameSet (ld.flatMap (expandAddr w (w.groups.length + 1)))
            (([y] : List String).flatMap (expandAddr w (w.groups.length + 1))) = true :=
          sameSet_of _ _ _ _ hsame (fun _ _ => rfl)
        simp only [List.flatMap_cons, List.flatMap_nil, List.append_nil] at step1
        rw [e2] at step1
        refine sameSet_trans step1 ?_
        apply sameSet_of _ _ _ _ hsm'
        intro m hm
        obtain ⟨hmb, hR⟩ := hmem_ok m (by rw [egb]; exact (mem_sortStrings m _).mpr hm)
        rw [lookA m hR hmb]
  -- equivalence
  unfold equiv
  apply rulesEquiv_of_forall
  · rw [hwrules]; exact hlen
  · intro t d r0' hd' hr0'
    rw [hwrules] at hd'
    obtain ⟨rb, r0, hrb, hr0, hr0t, es, ed, ev, h0, q1, q2, q3⟩ := hrule t d hd'
    rw [hr0t] at hr0'
    have hEq := Option.some.inj hr0'
    rw [← hEq]
    unfold ruleEquiv
    simp only [Bool.and_eq_true, beq_iff_eq]
    refine ⟨⟨⟨h0, ?_⟩, ?_⟩, ?_⟩
    · exact hfield t d rb r0 d.src rb.src r0.src hrb hr0 (Or.inl rfl) (Or.inl rfl) es (hbl r0 hr0).1 q1
    · exact hfield t d rb r0 d.dst rb.dst r0.dst hrb hr0 (Or.inr rfl) (Or.inr rfl) ed (hbl r0 hr0).2 q2
    · unfold srvContent
      apply sameSet_of _ _ _ _ (by rw [ev] at q3; exact q3.trans (sortStrings_sameMem r0.srv).symm)
      intro x hx
      rw [expandSrv_noGroups w hwsg, expandSrv_noGroups b hbs, lookS x ⟨r0, hr0, hx⟩ ((hbr r0 hr0).2 x hx)]

end NA.PanOs
