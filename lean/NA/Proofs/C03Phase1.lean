import NA.Proofs.C03RuleBlock
/-
C03, whole-vsys theorems, part 9: executing the first loop of `diffRules` (`phase1Cmds`) on
the strict device, for every valid script: afterwards every device rule of a delete range is
gone, every device rule of an equal range carries the lists of its target rule, all later
rules and all object tables are untouched.  Core Lean only.
-/
namespace NA.PanOs

theorem mem_extract_iff {α : Type} (l : List α) (lo hi : Nat) (x : α) :
    x ∈ l.extract lo hi ↔ ∃ i, lo ≤ i ∧ i < hi ∧ l[i]? = some x := by
  simp only [List.extract, List.mem_iff_getElem?, List.getElem?_take, List.getElem?_drop]
  constructor
  · rintro ⟨k, hk⟩
    split at hk
    · rename_i hlt
      exact ⟨lo + k, by omega, by omega, hk⟩
    · cases hk
  · rintro ⟨i, h1, h2, h3⟩
    refine ⟨i - lo, ?_⟩
    have : i - lo < hi - lo := by omega
    simp only [this, if_true]
    rw [show lo + (i - lo) = i by omega]
    exact h3

theorem getD_of_getElem? {l : List Rule} {i : Nat} {r : Rule} (h : l[i]? = some r) : l.getD i default = r := by
  simp [List.getD_eq_getElem?_getD, h]

theorem getElem?_of_lt (l : List Rule) (i : Nat) (h : i < l.length) : l[i]? = some (l.getD i default) := by
  simp [List.getD_eq_getElem?_getD, List.getElem?_eq_getElem h]

/-- Distinct names at distinct positions. -/
theorem name_ne_of_idx_ne {l : List Rule} (hnd : (ruleNames l).Nodup) {i j : Nat} (hi : i < l.length)
    (hj : j < l.length) (hne : i ≠ j) : (l.getD i default).name ≠ (l.getD j default).name := by
  intro e
  apply hne
  have h1 : (ruleNames l)[i]? = some (l.getD i default).name := by
    rw [ruleNames, List.getElem?_map, getElem?_of_lt l i hi]; rfl
  have h2 : (ruleNames l)[j]? = some (l.getD i default).name := by
    rw [ruleNames, List.getElem?_map, getElem?_of_lt l j hj, e]; rfl
  exact nodup_getElem?_inj hnd h1 h2

/-- Deleting rules by name, one after the other. -/
theorem runs_delRules (sh : Shared) : ∀ (names : List String) (v : Vsys), names.Nodup →
    (∀ n ∈ names, (findRule v.rules n).isSome) →
    ∃ w, Runs sh v (names.map Cmd.delRule) w ∧ (∀ n ∈ names, findRule w.rules n = none) ∧
      (∀ m, m ∉ names → findRule w.rules m = findRule v.rules m) ∧
      w.addrs = v.addrs ∧ w.svcs = v.svcs ∧ w.groups = v.groups ∧ w.sgroups = v.sgroups ∧ w.name = v.name := by
  intro names
  induction names with
  | nil => intro v _ _; exact ⟨v, Runs.nil sh v, by simp, by simp, rfl, rfl, rfl, rfl, rfl⟩
  | cons n ns ih =>
    intro v hnd hs
    rw [List.nodup_cons] at hnd
    obtain ⟨v1, hv1⟩ := exec_delRule_ok sh v n (hs n (by simp))
    obtain ⟨s1, s2, s3, s4, s5⟩ := exec_onRules_static hv1 rfl
    have hl : ∀ m, findRule v1.rules m = if m == n then none else findRule v.rules m := by
      intro m; rw [exec_findRule hv1 m]; rfl
    obtain ⟨w, hw, p1, p2, t1, t2, t3, t4, t5⟩ := ih v1 hnd.2 (by
      intro m hm
      rw [hl m]
      have : (m == n) = false := by
        have : m ≠ n := fun e => hnd.1 (e ▸ hm)
        simpa using this
      simp only [this, Bool.false_eq_true, if_false]
      exact hs m (List.mem_cons_of_mem _ hm))
    refine ⟨w, Runs.cons hv1 hw, ?_, ?_, t1.trans s1, t2.trans s2, t3.trans s3, t4.trans s4, t5.trans s5⟩
    · intro m hm
      rcases List.mem_cons.mp hm with rfl | hm
      · rw [p2 m hnd.1, hl m]; simp
      · exact p1 m hm
    · intro m hm
      simp only [List.mem_cons, not_or] at hm
      rw [p2 m hm.2, hl m]
      have : (m == n) = false := by simpa using hm.1
      simp [this]

/-- The planner's copy `A` of the device rules `D`: same names and headers, same lists up to
order, no member twice. -/
def SortedCopy (D A : List Rule) : Prop :=
  A.length = D.length ∧ ∀ i, i < D.length →
    (A.getD i default).name = (D.getD i default).name ∧ (A.getD i default).hdr = (D.getD i default).hdr ∧
    SameMem (D.getD i default).src (A.getD i default).src ∧ SameMem (D.getD i default).dst (A.getD i default).dst ∧
    SameMem (D.getD i default).srv (A.getD i default).srv ∧
    (A.getD i default).src.Nodup ∧ (A.getD i default).dst.Nodup

/-- Pairs (device index, target index) of the equal ranges. -/
def eqPairs : List Range → List (Nat × Nat)
  | [] => []
  | r :: rs =>
    (match r.kind with
     | .eq => (List.range (r.highA - r.lowA)).map (fun k => (r.lowA + k, r.lowB + k))
     | _ => []) ++ eqPairs rs

/-- Device indices of the delete ranges. -/
def delIdxs : List Range → List Nat
  | [] => []
  | r :: rs =>
    (match r.kind with
     | .del => (List.range (r.highA - r.lowA)).map (fun k => r.lowA + k)
     | _ => []) ++ delIdxs rs

/-- What the first loop needs to know about the target rules: lists without repetition, every
member resolves on the device. -/
def TargetOk (sh : Shared) (v : Vsys) (B : List Rule) : Prop :=
  ∀ rb ∈ B, rb.src.Nodup ∧ rb.dst.Nodup ∧ (∀ m ∈ rb.src, refOk sh v .src m = true) ∧
    (∀ m ∈ rb.dst, refOk sh v .dst m = true) ∧ (∀ m ∈ rb.srv, refOk sh v .srv m = true)

theorem TargetOk.congr {sh : Shared} {v v' : Vsys} {B : List Rule} (h : TargetOk sh v B)
    (h1 : v'.addrs = v.addrs) (h2 : v'.svcs = v.svcs) (h3 : v'.groups = v.groups) (h4 : v'.sgroups = v.sgroups) :
    TargetOk sh v' B := by
  intro rb hrb
  obtain ⟨a, b, c, d, e⟩ := h rb hrb
  exact ⟨a, b, fun m hm => by rw [refOk_congr sh h1 h2 h3 h4]; exact c m hm,
    fun m hm => by rw [refOk_congr sh h1 h2 h3 h4]; exact d m hm,
    fun m hm => by rw [refOk_congr sh h1 h2 h3 h4]; exact e m hm⟩

/-- The pairs of one equal range, `k` at a time. -/
theorem runs_eqRange (sh : Shared) (diff : Differ) (hd : GoodDiffer diff) (D A B : List Rule)
    (hsc : SortedCopy D A) (hnd : (ruleNames A).Nodup) (lowA lowB : Nat) :
    ∀ (ks : List Nat) (v : Vsys), ks.Nodup → (∀ k ∈ ks, lowA + k < A.length ∧ lowB + k < B.length) →
      (∀ k ∈ ks, (A.getD (lowA + k) default).hdr = (B.getD (lowB + k) default).hdr) →
      TargetOk sh v B →
      (∀ k ∈ ks, findRule v.rules (A.getD (lowA + k) default).name = some (D.getD (lowA + k) default)) →
      ∃ w, Runs sh v (ks.flatMap (fun k => eqCmds diff (A.getD (lowA + k) default) (B.getD (lowB + k) default))) w ∧
        (∀ k ∈ ks, ∃ r', findRule w.rules (A.getD (lowA + k) default).name = some r' ∧
          GoodRule r' (A.getD (lowA + k) default).name (B.getD (lowB + k) default)) ∧
        (∀ m, (∀ k ∈ ks, m ≠ (A.getD (lowA + k) default).name) → findRule w.rules m = findRule v.rules m) ∧
        w.addrs = v.addrs ∧ w.svcs = v.svcs ∧ w.groups = v.groups ∧ w.sgroups = v.sgroups ∧ w.name = v.name := by
  intro ks
  induction ks with
  | nil => intro v _ _ _ _ _; exact ⟨v, Runs.nil sh v, by simp, by simp, rfl, rfl, rfl, rfl, rfl⟩
  | cons k ks ih =>
    intro v hks hb hhdr htg hlook
    rw [List.nodup_cons] at hks
    obtain ⟨hbA, hbB⟩ := hb k (by simp)
    have hiD : lowA + k < D.length := by rw [← hsc.1]; exact hbA
    obtain ⟨c1, c2, c3, c4, c5, c6, c7⟩ := hsc.2 (lowA + k) hiD
    have hrb : B.getD (lowB + k) default ∈ B := by
      have := getElem?_of_lt B (lowB + k) hbB
      exact List.mem_of_getElem? this
    obtain ⟨t1, t2, t3, t4, t5⟩ := htg _ hrb
    obtain ⟨w1, r', hw1, hf1, hg1, ho1, s1, s2, s3, s4, s5⟩ := runs_eqCmds sh diff hd (A.getD (lowA + k) default)
      (B.getD (lowB + k) default) v (D.getD (lowA + k) default) (hlook k (by simp))
      (by rw [← c2]; exact hhdr k (by simp)) c3 c4 c5 ⟨c6, c7⟩ ⟨t1, t2⟩ t3 t4 t5
    obtain ⟨w, hw, p1, p2, u1, u2, u3, u4, u5⟩ := ih w1 hks.2
      (fun k' hk' => hb k' (List.mem_cons_of_mem _ hk')) (fun k' hk' => hhdr k' (List.mem_cons_of_mem _ hk'))
      (htg.congr s1 s2 s3 s4) (by
        intro k' hk'
        rw [ho1 _ ?_]
        · exact hlook k' (List.mem_cons_of_mem _ hk')
        · have hbk' := (hb k' (List.mem_cons_of_mem _ hk')).1
          exact name_ne_of_idx_ne hnd hbk' hbA (by
            intro e
            have : k' = k := by omega
            exact hks.1 (this ▸ hk')))
    refine ⟨w, by simp only [List.flatMap_cons]; exact hw1.append hw, ?_, ?_, u1.trans s1, u2.trans s2, u3.trans s3,
      u4.trans s4, u5.trans s5⟩
    · intro k' hk'
      rcases List.mem_cons.mp hk' with rfl | hk'
      · refine ⟨r', ?_, hg1⟩
        rw [p2 _ ?_]
        · exact hf1
        · intro k'' hk''
          have hbk'' := (hb k'' (List.mem_cons_of_mem _ hk'')).1
          exact name_ne_of_idx_ne hnd hbA hbk'' (by
            intro e
            have : k'' = k' := by omega
            exact hks.1 (this ▸ hk''))
      · exact p1 k' hk'
    · intro m hm
      rw [p2 m (fun k' hk' => hm k' (List.mem_cons_of_mem _ hk')), ho1 m (hm k (by simp))]

end NA.PanOs

namespace NA.PanOs

theorem pairsEq_get (eq : Nat → Nat → Bool) : ∀ (len lowA lowB k : Nat), pairsEq eq lowA lowB len = true →
    k < len → eq (lowA + k) (lowB + k) = true := by
  intro len
  induction len with
  | zero => intro _ _ k _ hk; omega
  | succ len ih =>
    intro lowA lowB k h hk
    simp only [pairsEq, Bool.and_eq_true] at h
    cases k with
    | zero => simpa using h.1
    | succ k =>
      have := ih (lowA + 1) (lowB + 1) k h.2 (by omega)
      rw [show lowA + (k + 1) = lowA + 1 + k by omega, show lowB + (k + 1) = lowB + 1 + k by omega]
      exact this

theorem kind_del_lowB {r : Range} (hk : r.kind = .del) : r.lowB = r.highB := by
  unfold Range.kind at hk
  split at hk
  · rename_i hd; simpa [Range.isDelete] using hd
  · split at hk <;> cases hk

/-- **First loop of `diffRules` on the device.** -/
theorem runs_phase1 (sh : Shared) (diff : Differ) (hd : GoodDiffer diff) (D A B : List Rule)
    (hsc : SortedCopy D A) (hnd : (ruleNames A).Nodup) (eq : Nat → Nat → Bool)
    (heqhdr : ∀ i j, i < A.length → j < B.length → eq i j = true →
      (A.getD i default).hdr = (B.getD j default).hdr) :
    ∀ (rs : List Range) (x y : Nat) (v : Vsys), validFrom eq A.length B.length x y rs = true →
      TargetOk sh v B →
      (∀ i, x ≤ i → i < A.length → findRule v.rules (A.getD i default).name = some (D.getD i default)) →
      ∃ w, Runs sh v (phase1Cmds diff A B rs) w ∧
        (∀ p ∈ eqPairs rs, ∃ r', findRule w.rules (A.getD p.1 default).name = some r' ∧
          GoodRule r' (A.getD p.1 default).name (B.getD p.2 default)) ∧
        (∀ i ∈ delIdxs rs, findRule w.rules (A.getD i default).name = none) ∧
        (∀ m, (∀ i, x ≤ i → i < A.length → m ≠ (A.getD i default).name) →
          findRule w.rules m = findRule v.rules m) ∧
        (∀ p ∈ eqPairs rs, x ≤ p.1 ∧ p.1 < A.length ∧ p.2 < B.length) ∧
        (∀ i ∈ delIdxs rs, x ≤ i ∧ i < A.length) ∧
        w.addrs = v.addrs ∧ w.svcs = v.svcs ∧ w.groups = v.groups ∧ w.sgroups = v.sgroups ∧ w.name = v.name := by
  intro rs
  induction rs with
  | nil =>
    intro x y v _ _ _
    exact ⟨v, Runs.nil sh v, by simp [eqPairs], by simp [delIdxs], fun _ _ => rfl, by simp [eqPairs],
      by simp [delIdxs], rfl, rfl, rfl, rfl, rfl⟩
  | cons r rs ih =>
    intro x y v hv htg hlook
    have hfull := hv
    obtain ⟨h1, h2, h3, h4, h5, h6, h7⟩ := validFrom_cons hv
    subst h1; subst h2
    -- the step for range r: a state w1 with the facts for r's indices and a frame for all other names
    have step : ∃ w1, Runs sh v (match r.kind with
          | .del => (A.extract r.lowA r.highA).map (fun ru => Cmd.delRule ru.name)
          | .ins => []
          | .eq => (List.range (r.highA - r.lowA)).flatMap (fun k =>
              eqCmds diff (A.getD (r.lowA + k) default) (B.getD (r.lowB + k) default))) w1 ∧
        (r.kind = .eq → ∀ k, k < r.highA - r.lowA → r.lowB + k < B.length ∧
          ∃ r', findRule w1.rules (A.getD (r.lowA + k) default).name = some r' ∧
            GoodRule r' (A.getD (r.lowA + k) default).name (B.getD (r.lowB + k) default)) ∧
        (r.kind = .del → ∀ k, k < r.highA - r.lowA →
          findRule w1.rules (A.getD (r.lowA + k) default).name = none) ∧
        (∀ m, (∀ i, r.lowA ≤ i → i < r.highA → m ≠ (A.getD i default).name) →
          findRule w1.rules m = findRule v.rules m) ∧
        w1.addrs = v.addrs ∧ w1.svcs = v.svcs ∧ w1.groups = v.groups ∧ w1.sgroups = v.sgroups ∧ w1.name = v.name := by
      cases hk : r.kind with
      | ins =>
        exact ⟨v, Runs.nil sh v, (fun h => by cases h), (fun h => by cases h), fun _ _ => rfl, rfl, rfl, rfl, rfl, rfl⟩
      | del =>
        have hmm : (A.extract r.lowA r.highA).map (fun ru => Cmd.delRule ru.name) =
            ((A.extract r.lowA r.highA).map (·.name)).map Cmd.delRule := by
          simp [List.map_map, Function.comp_def]
        have hnames : ∀ n, n ∈ (A.extract r.lowA r.highA).map (·.name) ↔
            ∃ i, r.lowA ≤ i ∧ i < r.highA ∧ n = (A.getD i default).name := by
          intro n
          simp only [List.mem_map, mem_extract_iff]
          constructor
          · rintro ⟨ru, ⟨i, a, b, c⟩, rfl⟩
            exact ⟨i, a, b, by rw [getD_of_getElem? c]⟩
          · rintro ⟨i, a, b, rfl⟩
            exact ⟨_, ⟨i, a, b, getElem?_of_lt A i (by omega)⟩, rfl⟩
        obtain ⟨w1, hw1, p1, p2, s1, s2, s3, s4, s5⟩ := runs_delRules sh ((A.extract r.lowA r.highA).map (·.name)) v
          (by
            rw [extract_map_name]
            exact (List.Sublist.nodup (by
              simp only [List.extract]
              exact (List.take_sublist _ _).trans (List.drop_sublist _ _)) hnd))
          (by
            intro n hn
            obtain ⟨i, a, b, rfl⟩ := (hnames n).mp hn
            rw [hlook i a (by omega)]; rfl)
        refine ⟨w1, (by rw [hmm]; exact hw1), (fun h => by cases h), ?_, ?_, s1, s2, s3, s4, s5⟩
        · intro _ k hk'
          exact p1 _ ((hnames _).mpr ⟨r.lowA + k, by omega, by omega, rfl⟩)
        · intro m hm
          exact p2 m (fun hmem => by
            obtain ⟨i, a, b, e⟩ := (hnames m).mp hmem
            exact hm i a b e)
      | eq =>
        obtain ⟨hlen, hp⟩ := kind_eq_len hfull hk
        obtain ⟨w1, hw1, p1, p2, s1, s2, s3, s4, s5⟩ := runs_eqRange sh diff hd D A B hsc hnd r.lowA r.lowB
          (List.range (r.highA - r.lowA)) v List.nodup_range
          (fun k hk' => by
            simp only [List.mem_range] at hk'
            exact ⟨by omega, by omega⟩)
          (fun k hk' => by
            simp only [List.mem_range] at hk'
            exact heqhdr _ _ (by omega) (by omega) (pairsEq_get eq _ _ _ k hp hk'))
          htg
          (fun k hk' => by
            simp only [List.mem_range] at hk'
            exact hlook (r.lowA + k) (by omega) (by omega))
        refine ⟨w1, hw1, ?_, (fun h => by cases h), ?_, s1, s2, s3, s4, s5⟩
        · intro _ k hk'
          exact ⟨by omega, p1 k (by simpa using hk')⟩
        · intro m hm
          exact p2 m (fun k hk' => by
            simp only [List.mem_range] at hk'
            exact hm (r.lowA + k) (by omega) (by omega))
    obtain ⟨w1, hw1, e1, d1, f1, s1, s2, s3, s4, s5⟩ := step
    -- the rest
    obtain ⟨w, hw, e2, d2, f2, b2, c2, t1, t2, t3, t4, t5⟩ := ih r.highA r.highB w1 h7 (htg.congr s1 s2 s3 s4) (by
      intro i hi hiA
      rw [f1 _ ?_]
      · exact hlook i (by omega) hiA
      · intro i' a b
        exact name_ne_of_idx_ne hnd hiA (by omega) (by omega))
    refine ⟨w, by simp only [phase1Cmds]; exact hw1.append hw, ?_, ?_, ?_, ?_, ?_, t1.trans s1, t2.trans s2,
      t3.trans s3, t4.trans s4, t5.trans s5⟩
    · intro p hp
      simp only [eqPairs, List.mem_append] at hp
      rcases hp with hp | hp
      · cases hk : r.kind with
        | eq =>
          simp only [hk, List.mem_map, List.mem_range] at hp
          obtain ⟨k, hk', rfl⟩ := hp
          obtain ⟨_, r', hr', hg⟩ := e1 hk k hk'
          refine ⟨r', ?_, hg⟩
          rw [f2 _ ?_]
          · exact hr'
          · intro i hi hiA
            exact name_ne_of_idx_ne hnd (by omega) hiA (by omega)
        | del => simp [hk] at hp
        | ins => simp [hk] at hp
      · exact e2 p hp
    · intro i hi
      simp only [delIdxs, List.mem_append] at hi
      rcases hi with hi | hi
      · cases hk : r.kind with
        | del =>
          simp only [hk, List.mem_map, List.mem_range] at hi
          obtain ⟨k, hk', rfl⟩ := hi
          rw [f2 _ ?_]
          · exact d1 hk k hk'
          · intro i' hi' hiA
            exact name_ne_of_idx_ne hnd (by omega) hiA (by omega)
        | eq => simp [hk] at hi
        | ins => simp [hk] at hi
      · exact d2 i hi
    · intro m hm
      rw [f2 m (fun i hi hiA => hm i (by omega) hiA), f1 m (fun i hi hiA => hm i hi (by omega))]
    · intro p hp
      simp only [eqPairs, List.mem_append] at hp
      rcases hp with hp | hp
      · cases hk : r.kind with
        | eq =>
          simp only [hk, List.mem_map, List.mem_range] at hp
          obtain ⟨k, hk', rfl⟩ := hp
          obtain ⟨hB, _⟩ := e1 hk k hk'
          exact ⟨by simp, by simp only; omega, hB⟩
        | del => simp [hk] at hp
        | ins => simp [hk] at hp
      · obtain ⟨a, b, c⟩ := b2 p hp
        exact ⟨by omega, b, c⟩
    · intro i hi
      simp only [delIdxs, List.mem_append] at hi
      rcases hi with hi | hi
      · cases hk : r.kind with
        | del =>
          simp only [hk, List.mem_map, List.mem_range] at hi
          obtain ⟨k, hk', rfl⟩ := hi
          exact ⟨by omega, by omega⟩
        | eq => simp [hk] at hi
        | ins => simp [hk] at hi
      · obtain ⟨a, b⟩ := c2 i hi
        exact ⟨by omega, b⟩

end NA.PanOs

namespace NA.PanOs

theorem eqPairs_bounds (eq : Nat → Nat → Bool) {n m : Nat} :
    ∀ (rs : List Range) (x y : Nat), validFrom eq n m x y rs = true →
      ∀ p ∈ eqPairs rs, x ≤ p.1 ∧ p.1 < n ∧ y ≤ p.2 ∧ p.2 < m := by
  intro rs
  induction rs with
  | nil => intro x y _ p hp; simp [eqPairs] at hp
  | cons r rs ih =>
    intro x y hv p hp
    obtain ⟨h1, h2, h3, h4, h5, h6, h7⟩ := validFrom_cons hv
    subst h1; subst h2
    simp only [eqPairs, List.mem_append] at hp
    rcases hp with hp | hp
    · cases hk : r.kind with
      | eq =>
        obtain ⟨hlen, _⟩ := kind_eq_len hv hk
        simp only [hk, List.mem_map, List.mem_range] at hp
        obtain ⟨k, hk', rfl⟩ := hp
        exact ⟨by simp, by simp only; omega, by simp, by simp only; omega⟩
      | del => simp [hk] at hp
      | ins => simp [hk] at hp
    · obtain ⟨a, b, c, d⟩ := ih r.highA r.highB h7 p hp
      exact ⟨by omega, b, by omega, d⟩

end NA.PanOs
