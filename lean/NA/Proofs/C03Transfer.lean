import NA.Proofs.C03Sim
import NA.Model.PanOs
/-
C03, whole-vsys theorems, part 7: executing `transferNeededObjects` (addresses and services) on
the strict device.  Core Lean only.
-/
namespace NA.PanOs

/-- Value found under a name in an object table. -/
def lookupObj (l : List Obj) (n : String) : Option String := (l.find? (·.name == n)).map (·.val)

theorem lookupObj_append_single (l : List Obj) (o : Obj) (n : String) :
    lookupObj (l ++ [o]) n = match lookupObj l n with
      | some v => some v
      | none => if o.name == n then some o.val else none := by
  unfold lookupObj
  rw [List.find?_append]
  cases h : l.find? (·.name == n) with
  | some x => simp
  | none => cases hb : (o.name == n) <;> simp [List.find?_cons, hb]

theorem lookupObj_setVal (l : List Obj) (m v n : String) :
    lookupObj (setVal l m v) n = if n == m then (lookupObj l n).map (fun _ => v) else lookupObj l n := by
  unfold lookupObj setVal
  induction l with
  | nil => simp
  | cons x xs ih =>
    simp only [List.map_cons, List.find?_cons]
    by_cases hxm : x.name = m
    · have h1 : (x.name == m) = true := by simpa using hxm
      simp only [h1, if_true]
      by_cases hxn : x.name = n
      · have h2 : (x.name == n) = true := by simpa using hxn
        have h3 : (n == m) = true := by simpa using (hxn ▸ hxm)
        simp [h2, h3]
      · have h2 : (x.name == n) = false := by simpa using hxn
        simp only [h2]
        exact ih
    · have h1 : (x.name == m) = false := by simpa using hxm
      simp only [h1, Bool.false_eq_true, if_false]
      by_cases hxn : x.name = n
      · have h2 : (x.name == n) = true := by simpa using hxn
        have h3 : (n == m) = false := by
          have : n ≠ m := fun e => hxm (hxn ▸ e)
          simpa using this
        simp [h2, h3]
      · have h2 : (x.name == n) = false := by simpa using hxn
        simp only [h2]
        exact ih

theorem setVal_names (l : List Obj) (m v : String) : (setVal l m v).map (·.name) = l.map (·.name) := by
  unfold setVal
  induction l with
  | nil => rfl
  | cons x xs ih =>
    simp only [List.map_cons, ih]
    split <;> rfl

theorem lookupObj_none_iff (l : List Obj) (n : String) : lookupObj l n = none ↔ n ∉ l.map (·.name) := by
  unfold lookupObj
  simp only [Option.map_eq_none_iff, List.find?_eq_none, List.mem_map, not_exists, not_and]
  constructor
  · intro h o ho hn; exact h o ho (by simp [hn])
  · intro h o ho hn; exact h o ho (by simpa using hn)

theorem lookupObj_of_mem {l : List Obj} (hnd : (l.map (·.name)).Nodup) {o : Obj} (ho : o ∈ l) :
    lookupObj l o.name = some o.val := by
  unfold lookupObj
  induction l with
  | nil => cases ho
  | cons x xs ih =>
    simp only [List.map_cons, List.nodup_cons] at hnd
    rcases List.mem_cons.mp ho with rfl | ho
    · simp
    · have : (x.name == o.name) = false := by
        have : x.name ≠ o.name := fun e => hnd.1 (e ▸ List.mem_map_of_mem ho)
        simpa using this
      simp only [List.find?_cons, this]
      exact ih hnd.2 ho

/-- The address requests of `transferNeededObjects`. -/
def addrTransfer (bs : List BObj) : List Cmd :=
  bs.filterMap (fun o =>
    if o.edit then some (.editAddr o.o.name o.o.val)
    else if o.needed then some (.setAddr o.o.name o.o.val) else none)

def svcTransfer (bs : List BObj) : List Cmd :=
  bs.filterMap (fun o =>
    if o.edit then some (.editSvc o.o.name o.o.val)
    else if o.needed then some (.setSvc o.o.name o.o.val) else none)

/-- An entry that causes a request. -/
def BObj.flagged (o : BObj) : Bool := o.edit || o.needed

/-- **Addresses are transferred.**  If every `edit` names an address the device has and every
`set` one it lacks (and the target's names are distinct), all requests are accepted; afterwards
every flagged address is on the device with the target's value, all other names are as before,
and nothing but the address table has changed. -/
theorem runs_addrTransfer (sh : Shared) : ∀ (bs : List BObj) (v : Vsys),
    (bs.map (·.o.name)).Nodup →
    (∀ o ∈ bs, o.edit = true → o.o.name ∈ v.addrs.map (·.name)) →
    (∀ o ∈ bs, o.edit = false → o.needed = true → o.o.name ∉ v.addrs.map (·.name)) →
    ∃ w, Runs sh v (addrTransfer bs) w ∧ w.rules = v.rules ∧ w.svcs = v.svcs ∧ w.groups = v.groups ∧
      w.sgroups = v.sgroups ∧ w.name = v.name ∧
      (∀ o ∈ bs, o.flagged = true → lookupObj w.addrs o.o.name = some o.o.val) ∧
      (∀ n, (∀ o ∈ bs, o.flagged = true → o.o.name ≠ n) → lookupObj w.addrs n = lookupObj v.addrs n) ∧
      (∀ n, n ∈ w.addrs.map (·.name) ↔
        n ∈ v.addrs.map (·.name) ∨ ∃ o ∈ bs, o.flagged = true ∧ o.o.name = n) := by
  intro bs
  induction bs with
  | nil =>
    intro v _ _ _
    exact ⟨v, Runs.nil sh v, rfl, rfl, rfl, rfl, rfl, by simp, by simp, by simp⟩
  | cons o bs ih =>
    intro v hnd he hs
    simp only [List.map_cons, List.nodup_cons] at hnd
    have hne : ∀ o' ∈ bs, o'.o.name ≠ o.o.name := fun o' ho' e => hnd.1 (e ▸ List.mem_map_of_mem ho')
    by_cases hedit : o.edit = true
    · -- edit
      have hex := he o (by simp) hedit
      have hany : v.addrs.any (·.name == o.o.name) = true := by
        simp only [List.any_eq_true, beq_iff_eq]
        obtain ⟨x, hx, hxn⟩ := List.mem_map.mp hex
        exact ⟨x, hx, hxn⟩
      have hexec : exec sh v (.editAddr o.o.name o.o.val) =
          .ok { v with addrs := setVal v.addrs o.o.name o.o.val } := by
        simp only [exec, hany, if_true]
      obtain ⟨w, hw, r1, r2, r3, r4, r5, p1, p2, p3⟩ := ih { v with addrs := setVal v.addrs o.o.name o.o.val } hnd.2
        (fun o' ho' h' => by
          simp only [setVal_names]
          exact he o' (List.mem_cons_of_mem _ ho') h')
        (fun o' ho' h1 h2 => by
          simp only [setVal_names]
          exact hs o' (List.mem_cons_of_mem _ ho') h1 h2)
      have hcmds : addrTransfer (o :: bs) = .editAddr o.o.name o.o.val :: addrTransfer bs := by
        simp [addrTransfer, hedit]
      refine ⟨w, by rw [hcmds]; exact Runs.cons hexec hw, r1, r2, r3, r4, r5, ?_, ?_, ?_⟩
      · intro o' ho' hf
        rcases List.mem_cons.mp ho' with rfl | ho'
        · rw [p2 _ (fun o'' ho'' _ => hne o'' ho'')]
          simp only [lookupObj_setVal, beq_self_eq_true, if_true]
          have : lookupObj v.addrs o'.o.name ≠ none := by
            rw [Ne, lookupObj_none_iff]; exact fun h => h hex
          cases hl : lookupObj v.addrs o'.o.name with
          | none => exact absurd hl this
          | some x => rfl
        · exact p1 o' ho' hf
      · intro n hn
        rw [p2 n (fun o' ho' hf => hn o' (List.mem_cons_of_mem _ ho') hf)]
        have : o.o.name ≠ n := hn o (by simp) (by simp [BObj.flagged, hedit])
        have hb : (n == o.o.name) = false := by simpa using (Ne.symm this)
        simp [lookupObj_setVal, hb]
      · intro n
        rw [p3 n]
        simp only [setVal_names, List.mem_cons, exists_eq_or_imp]
        constructor
        · rintro (h | ⟨o', ho', hf, hn⟩)
          · exact Or.inl h
          · exact Or.inr (Or.inr ⟨o', ho', hf, hn⟩)
        · rintro (h | ⟨_, hn⟩ | ⟨o', ho', hf, hn⟩)
          · exact Or.inl h
          · exact Or.inl (hn ▸ hex)
          · exact Or.inr ⟨o', ho', hf, hn⟩
    · have hedit' : o.edit = false := by simpa using hedit
      by_cases hneed : o.needed = true
      · -- set
        have hnot := hs o (by simp) hedit' hneed
        have hfind : v.addrs.find? (·.name == o.o.name) = none := by
          rw [List.find?_eq_none]
          intro x hx hxn
          exact hnot (List.mem_map.mpr ⟨x, hx, by simpa using hxn⟩)
        have hexec : exec sh v (.setAddr o.o.name o.o.val) =
            .ok { v with addrs := v.addrs ++ [⟨o.o.name, o.o.val⟩] } := by
          simp only [exec, hfind]
        obtain ⟨w, hw, r1, r2, r3, r4, r5, p1, p2, p3⟩ := ih { v with addrs := v.addrs ++ [⟨o.o.name, o.o.val⟩] } hnd.2
          (fun o' ho' h' => by
            simp only [List.map_append, List.mem_append]
            exact Or.inl (he o' (List.mem_cons_of_mem _ ho') h'))
          (fun o' ho' h1 h2 => by
            simp only [List.map_append, List.mem_append, List.map_cons, List.map_nil, List.mem_cons,
              List.not_mem_nil, or_false, not_or]
            exact ⟨hs o' (List.mem_cons_of_mem _ ho') h1 h2, hne o' ho'⟩)
        have hcmds : addrTransfer (o :: bs) = .setAddr o.o.name o.o.val :: addrTransfer bs := by
          simp [addrTransfer, hedit', hneed]
        refine ⟨w, by rw [hcmds]; exact Runs.cons hexec hw, r1, r2, r3, r4, r5, ?_, ?_, ?_⟩
        · intro o' ho' hf
          rcases List.mem_cons.mp ho' with rfl | ho'
          · rw [p2 _ (fun o'' ho'' _ => hne o'' ho'')]
            simp only [lookupObj_append_single]
            have : lookupObj v.addrs o'.o.name = none := (lookupObj_none_iff _ _).mpr hnot
            simp [this]
          · exact p1 o' ho' hf
        · intro n hn
          rw [p2 n (fun o' ho' hf => hn o' (List.mem_cons_of_mem _ ho') hf)]
          have : o.o.name ≠ n := hn o (by simp) (by simp [BObj.flagged, hneed])
          have hb : (o.o.name == n) = false := by simpa using this
          simp only [lookupObj_append_single, hb, Bool.false_eq_true, if_false]
          cases lookupObj v.addrs n <;> rfl
        · intro n
          rw [p3 n]
          simp only [List.map_append, List.mem_append, List.map_cons, List.map_nil, List.mem_cons,
            List.not_mem_nil, or_false, exists_eq_or_imp]
          constructor
          · rintro ((h | h) | ⟨o', ho', hf, hn⟩)
            · exact Or.inl h
            · exact Or.inr (Or.inl ⟨by simp [BObj.flagged, hneed], h.symm⟩)
            · exact Or.inr (Or.inr ⟨o', ho', hf, hn⟩)
          · rintro (h | ⟨_, hn⟩ | ⟨o', ho', hf, hn⟩)
            · exact Or.inl (Or.inl h)
            · exact Or.inl (Or.inr hn.symm)
            · exact Or.inr ⟨o', ho', hf, hn⟩
      · -- nothing to do for this entry
        have hneed' : o.needed = false := by simpa using hneed
        obtain ⟨w, hw, r1, r2, r3, r4, r5, p1, p2, p3⟩ := ih v hnd.2
          (fun o' ho' h' => he o' (List.mem_cons_of_mem _ ho') h')
          (fun o' ho' h1 h2 => hs o' (List.mem_cons_of_mem _ ho') h1 h2)
        have hcmds : addrTransfer (o :: bs) = addrTransfer bs := by
          simp [addrTransfer, hedit', hneed']
        have hnf : o.flagged = false := by simp [BObj.flagged, hedit', hneed']
        refine ⟨w, by rw [hcmds]; exact hw, r1, r2, r3, r4, r5, ?_, ?_, ?_⟩
        · intro o' ho' hf
          rcases List.mem_cons.mp ho' with rfl | ho'
          · rw [hnf] at hf; cases hf
          · exact p1 o' ho' hf
        · intro n hn
          exact p2 n (fun o' ho' hf => hn o' (List.mem_cons_of_mem _ ho') hf)
        · intro n
          rw [p3 n]
          simp only [List.mem_cons, exists_eq_or_imp, hnf, Bool.false_eq_true, false_and, false_or]

/-- **Services are transferred** (same as for addresses).  If every `edit` names a service the device has and every
`set` one it lacks (and the target's names are distinct), all requests are accepted; afterwards
every flagged service is on the device with the target's value, all other names are as before,
and nothing but the service table has changed. -/
theorem runs_svcTransfer (sh : Shared) : ∀ (bs : List BObj) (v : Vsys),
    (bs.map (·.o.name)).Nodup →
    (∀ o ∈ bs, o.edit = true → o.o.name ∈ v.svcs.map (·.name)) →
    (∀ o ∈ bs, o.edit = false → o.needed = true → o.o.name ∉ v.svcs.map (·.name)) →
    ∃ w, Runs sh v (svcTransfer bs) w ∧ w.rules = v.rules ∧ w.addrs = v.addrs ∧ w.groups = v.groups ∧
      w.sgroups = v.sgroups ∧ w.name = v.name ∧
      (∀ o ∈ bs, o.flagged = true → lookupObj w.svcs o.o.name = some o.o.val) ∧
      (∀ n, (∀ o ∈ bs, o.flagged = true → o.o.name ≠ n) → lookupObj w.svcs n = lookupObj v.svcs n) ∧
      (∀ n, n ∈ w.svcs.map (·.name) ↔
        n ∈ v.svcs.map (·.name) ∨ ∃ o ∈ bs, o.flagged = true ∧ o.o.name = n) := by
  intro bs
  induction bs with
  | nil =>
    intro v _ _ _
    exact ⟨v, Runs.nil sh v, rfl, rfl, rfl, rfl, rfl, by simp, by simp, by simp⟩
  | cons o bs ih =>
    intro v hnd he hs
    simp only [List.map_cons, List.nodup_cons] at hnd
    have hne : ∀ o' ∈ bs, o'.o.name ≠ o.o.name := fun o' ho' e => hnd.1 (e ▸ List.mem_map_of_mem ho')
    by_cases hedit : o.edit = true
    · -- edit
      have hex := he o (by simp) hedit
      have hany : v.svcs.any (·.name == o.o.name) = true := by
        simp only [List.any_eq_true, beq_iff_eq]
        obtain ⟨x, hx, hxn⟩ := List.mem_map.mp hex
        exact ⟨x, hx, hxn⟩
      have hexec : exec sh v (.editSvc o.o.name o.o.val) =
          .ok { v with svcs := setVal v.svcs o.o.name o.o.val } := by
        simp only [exec, hany, if_true]
      obtain ⟨w, hw, r1, r2, r3, r4, r5, p1, p2, p3⟩ := ih { v with svcs := setVal v.svcs o.o.name o.o.val } hnd.2
        (fun o' ho' h' => by
          simp only [setVal_names]
          exact he o' (List.mem_cons_of_mem _ ho') h')
        (fun o' ho' h1 h2 => by
          simp only [setVal_names]
          exact hs o' (List.mem_cons_of_mem _ ho') h1 h2)
      have hcmds : svcTransfer (o :: bs) = .editSvc o.o.name o.o.val :: svcTransfer bs := by
        simp [svcTransfer, hedit]
      refine ⟨w, by rw [hcmds]; exact Runs.cons hexec hw, r1, r2, r3, r4, r5, ?_, ?_, ?_⟩
      · intro o' ho' hf
        rcases List.mem_cons.mp ho' with rfl | ho'
        · rw [p2 _ (fun o'' ho'' _ => hne o'' ho'')]
          simp only [lookupObj_setVal, beq_self_eq_true, if_true]
          have : lookupObj v.svcs o'.o.name ≠ none := by
            rw [Ne, lookupObj_none_iff]; exact fun h => h hex
          cases hl : lookupObj v.svcs o'.o.name with
          | none => exact absurd hl this
          | some x => rfl
        · exact p1 o' ho' hf
      · intro n hn
        rw [p2 n (fun o' ho' hf => hn o' (List.mem_cons_of_mem _ ho') hf)]
        have : o.o.name ≠ n := hn o (by simp) (by simp [BObj.flagged, hedit])
        have hb : (n == o.o.name) = false := by simpa using (Ne.symm this)
        simp [lookupObj_setVal, hb]
      · intro n
        rw [p3 n]
        simp only [setVal_names, List.mem_cons, exists_eq_or_imp]
        constructor
        · rintro (h | ⟨o', ho', hf, hn⟩)
          · exact Or.inl h
          · exact Or.inr (Or.inr ⟨o', ho', hf, hn⟩)
        · rintro (h | ⟨_, hn⟩ | ⟨o', ho', hf, hn⟩)
          · exact Or.inl h
          · exact Or.inl (hn ▸ hex)
          · exact Or.inr ⟨o', ho', hf, hn⟩
    · have hedit' : o.edit = false := by simpa using hedit
      by_cases hneed : o.needed = true
      · -- set
        have hnot := hs o (by simp) hedit' hneed
        have hfind : v.svcs.find? (·.name == o.o.name) = none := by
          rw [List.find?_eq_none]
          intro x hx hxn
          exact hnot (List.mem_map.mpr ⟨x, hx, by simpa using hxn⟩)
        have hexec : exec sh v (.setSvc o.o.name o.o.val) =
            .ok { v with svcs := v.svcs ++ [⟨o.o.name, o.o.val⟩] } := by
          simp only [exec, hfind]
        obtain ⟨w, hw, r1, r2, r3, r4, r5, p1, p2, p3⟩ := ih { v with svcs := v.svcs ++ [⟨o.o.name, o.o.val⟩] } hnd.2
          (fun o' ho' h' => by
            simp only [List.map_append, List.mem_append]
            exact Or.inl (he o' (List.mem_cons_of_mem _ ho') h'))
          (fun o' ho' h1 h2 => by
            simp only [List.map_append, List.mem_append, List.map_cons, List.map_nil, List.mem_cons,
              List.not_mem_nil, or_false, not_or]
            exact ⟨hs o' (List.mem_cons_of_mem _ ho') h1 h2, hne o' ho'⟩)
        have hcmds : svcTransfer (o :: bs) = .setSvc o.o.name o.o.val :: svcTransfer bs := by
          simp [svcTransfer, hedit', hneed]
        refine ⟨w, by rw [hcmds]; exact Runs.cons hexec hw, r1, r2, r3, r4, r5, ?_, ?_, ?_⟩
        · intro o' ho' hf
          rcases List.mem_cons.mp ho' with rfl | ho'
          · rw [p2 _ (fun o'' ho'' _ => hne o'' ho'')]
            simp only [lookupObj_append_single]
            have : lookupObj v.svcs o'.o.name = none := (lookupObj_none_iff _ _).mpr hnot
            simp [this]
          · exact p1 o' ho' hf
        · intro n hn
          rw [p2 n (fun o' ho' hf => hn o' (List.mem_cons_of_mem _ ho') hf)]
          have : o.o.name ≠ n := hn o (by simp) (by simp [BObj.flagged, hneed])
          have hb : (o.o.name == n) = false := by simpa using this
          simp only [lookupObj_append_single, hb, Bool.false_eq_true, if_false]
          cases lookupObj v.svcs n <;> rfl
        · intro n
          rw [p3 n]
          simp only [List.map_append, List.mem_append, List.map_cons, List.map_nil, List.mem_cons,
            List.not_mem_nil, or_false, exists_eq_or_imp]
          constructor
          · rintro ((h | h) | ⟨o', ho', hf, hn⟩)
            · exact Or.inl h
            · exact Or.inr (Or.inl ⟨by simp [BObj.flagged, hneed], h.symm⟩)
            · exact Or.inr (Or.inr ⟨o', ho', hf, hn⟩)
          · rintro (h | ⟨_, hn⟩ | ⟨o', ho', hf, hn⟩)
            · exact Or.inl (Or.inl h)
            · exact Or.inl (Or.inr hn.symm)
            · exact Or.inr ⟨o', ho', hf, hn⟩
      · -- nothing to do for this entry
        have hneed' : o.needed = false := by simpa using hneed
        obtain ⟨w, hw, r1, r2, r3, r4, r5, p1, p2, p3⟩ := ih v hnd.2
          (fun o' ho' h' => he o' (List.mem_cons_of_mem _ ho') h')
          (fun o' ho' h1 h2 => hs o' (List.mem_cons_of_mem _ ho') h1 h2)
        have hcmds : svcTransfer (o :: bs) = svcTransfer bs := by
          simp [svcTransfer, hedit', hneed']
        have hnf : o.flagged = false := by simp [BObj.flagged, hedit', hneed']
        refine ⟨w, by rw [hcmds]; exact hw, r1, r2, r3, r4, r5, ?_, ?_, ?_⟩
        · intro o' ho' hf
          rcases List.mem_cons.mp ho' with rfl | ho'
          · rw [hnf] at hf; cases hf
          · exact p1 o' ho' hf
        · intro n hn
          exact p2 n (fun o' ho' hf => hn o' (List.mem_cons_of_mem _ ho') hf)
        · intro n
          rw [p3 n]
          simp only [List.mem_cons, exists_eq_or_imp, hnf, Bool.false_eq_true, false_and, false_or]


end NA.PanOs
