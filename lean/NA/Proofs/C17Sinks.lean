import NA.Proofs.C17
/-!
# Lemmas for C17 at the level of functions and runs

`keygen` (model of `getAPIKey`) and `prefixGet` (model of `httpPrefixGetLog`) as a whole, the request
loop of a PAN-OS run, and the SSH session trace.
-/
namespace NA.Mask

/-- The body of a successful keygen response: anything around one `<key>K</key>` element. -/
def keyBody (pre k post : Str) : Str := pre ++ (litOpen ++ (k ++ (litClose ++ post)))

theorem Safe.noNl {k : Str} (h : Safe k) : NoNl k := by
  intro c hc
  have := (h c hc).2
  simp [notNl, this]

theorem safe_litPass : Safe litPass := by unfold Safe litPass; decide

theorem keygenUri_shape (addr user pass : Str) :
    keygenUri addr user pass =
      (addr ++ "/api?".toList) ++ (litPass ++ (queryEscape pass ++ '&' :: kgTail user)) := by
  unfold keygenUri
  rw [keygen_query, List.append_assoc]

/-- `passRE` applied to the keygen URI. -/
theorem maskPass_keygenUri (addr user p1 p2 : Str) :
    maskPass (keygenUri addr user p1) = maskPass (keygenUri addr user p2) := by
  rw [keygenUri_shape, keygenUri_shape]
  exact maskLazy_independent litPass true safe_litPass (queryEscape_safe p1) (queryEscape_safe p2) _ _

theorem goQuote_litPass : goQuote litPass = litPass := by decide

/-- `passRE` applied to the text of a transport error of the keygen request. -/
theorem maskPass_urlError (op addr user p1 p2 msg : Str) :
    maskPass (urlError op (keygenUri addr user p1) msg) = maskPass (urlError op (keygenUri addr user p2) msg) := by
  have shape : ∀ p : Str, urlError op (keygenUri addr user p) msg =
      (op ++ ' ' :: '"' :: goQuote (addr ++ "/api?".toList)) ++
        (litPass ++ (queryEscape p ++ '&' :: (goQuote (kgTail user) ++ '"' :: ':' :: ' ' :: msg))) := by
    intro p
    unfold urlError
    rw [keygenUri_shape]
    simp only [goQuote_append, goQuote_litPass, goQuote_queryEscape, goQuote_cons_amp, List.append_assoc,
      List.cons_append]
  rw [shape p1, shape p2]
  exact maskLazy_independent litPass true safe_litPass (queryEscape_safe p1) (queryEscape_safe p2) _ _

/-- `getAPIKey` as a whole (both `.login` entries and the returned error) does not depend on the
password, whatever the device answers. -/
theorem keygen_pass_independent (addr user p1 p2 : Str) (r : Reply) :
    keygen addr user p1 r = keygen addr user p2 r := by
  unfold keygen
  simp only [maskPass_keygenUri addr user p1 p2]
  cases r with
  | terr m => simp only [maskPass_urlError sGet addr user p1 p2 m]
  | status c b => rfl
  | ok b => rfl
  | fail b m => rfl
  | trunc b m => rfl

/-- … nor on the key inside a successful response. -/
theorem keygen_key_independent (addr user pass pre post k1 k2 : Str) :
    keygen addr user pass (.ok (keyBody pre k1 post)) = keygen addr user pass (.ok (keyBody pre k2 post)) := by
  unfold keygen keyBody
  simp only [Reply.body, maskKey_independent k1 k2 pre post]

/-- The `.login` entries of `getAPIKey` do not depend on the key either when the request fails
after the `<key>` element has arrived (body cut off by an I/O error, or a status other than 200). -/
theorem keygen_log_key_independent_trunc (addr user pass pre post m k1 k2 : Str) :
    keygen addr user pass (.trunc (keyBody pre k1 post) m) = keygen addr user pass (.trunc (keyBody pre k2 post) m) := by
  unfold keygen keyBody
  simp only [Reply.body, maskKey_independent k1 k2 pre post]

theorem keygen_log_key_independent_status (addr user pass pre post : Str) (c : Nat) (k1 k2 : Str) :
    (keygen addr user pass (.status c (keyBody pre k1 post))).1 =
      (keygen addr user pass (.status c (keyBody pre k2 post))).1 := by
  unfold keygen keyBody
  simp only [Reply.body, maskKey_independent k1 k2 pre post]

/-- `httpPrefixGetLog` logs the URL with the masked prefix: the log entries do not depend on the key at
all — for EVERY key (fix c4a38c5; before, `apiRE` left what stands behind an `&` of the key). -/
theorem prefixGet_log (addr uri k1 k2 : Str) (r : Reply) :
    (prefixGet (logPrefix addr) (urlPrefix addr k1) uri r).1 = (prefixGet (logPrefix addr) (urlPrefix addr k2) uri r).1 := rfl

def Reply.isTerr : Reply → Bool
  | .terr _ => true
  | _ => false

theorem prefixGet_err (addr uri : Str) (k1 k2 : Str) (r : Reply) (hr : r.isTerr = false) :
    (prefixGet (logPrefix addr) (urlPrefix addr k1) uri r).2 = (prefixGet (logPrefix addr) (urlPrefix addr k2) uri r).2 := by
  cases r <;> simp_all [prefixGet, Reply.isTerr]

theorem prefixGet_eq (addr uri k1 k2 : Str) (r : Reply) (hr : r.isTerr = false) :
    prefixGet (logPrefix addr) (urlPrefix addr k1) uri r = prefixGet (logPrefix addr) (urlPrefix addr k2) uri r :=
  Prod.ext (prefixGet_log addr uri k1 k2 r) (prefixGet_err addr uri k1 k2 r hr)

/-- The request loop reaches a transport error (before any other failure). -/
def hitsTerr : List Req → List Reply → Bool
  | [], _ => false
  | _ :: _, [] => false
  | _ :: qs, r :: rs =>
    match r with
    | .terr _ => true
    | .ok _ => hitsTerr qs rs
    | _ => false

/-- **The path of finding F-C17**: login and HA check succeeded and a later request ends in a
transport error. -/
def leakPath (kg : Reply) (reqs : List Req) (reps : List Reply) : Bool :=
  match kg, reps with
  | .ok _, .ok _ :: rest => hitsTerr reqs rest
  | _, _ => false

theorem panosReqs_independent (addr k1 k2 : Str) :
    ∀ (reqs : List Req) (reps : List Reply) (s : Sinks), hitsTerr reqs reps = false →
      panosReqs (logPrefix addr) (urlPrefix addr k1) reqs reps s = panosReqs (logPrefix addr) (urlPrefix addr k2) reqs reps s := by
  intro reqs
  induction reqs with
  | nil => intro reps s _; simp [panosReqs]
  | cons q qs ih =>
    intro reps s hh
    cases reps with
    | nil => simp [panosReqs]
    | cons r rs =>
      have hr : r.isTerr = false := by
        cases r <;> simp_all [hitsTerr, Reply.isTerr]
      simp only [panosReqs, prefixGet_eq addr q.uri k1 k2 r hr]
      cases r with
      | terr m => simp [Reply.isTerr] at hr
      | ok b =>
        have : hitsTerr qs rs = false := by simpa [hitsTerr] using hh
        simp only [prefixGet, ih rs _ this]
      | status c b => simp [prefixGet]
      | fail b m => simp [prefixGet]
      | trunc b m => simp [prefixGet]

/-! ## SSH -/

/-- Forget what was sent. -/
def Op.erase : Op → Op
  | .send _ => .send []
  | o => o

theorem sshStep_erase (st : SshState) (o : Op) : sshStep st o.erase = sshStep st o := by
  cases o <;> rfl

theorem sshRun_erase (ops : List Op) : sshRun (ops.map Op.erase) = sshRun ops := by
  unfold sshRun
  suffices H : ∀ st : SshState, (ops.map Op.erase).foldl sshStep st = ops.foldl sshStep st by rw [H]
  induction ops with
  | nil => intro st; rfl
  | cons o os ih => intro st; simp only [List.map_cons, List.foldl_cons, sshStep_erase, ih]

/-- The expected chunks of a trace. -/
def expects : List Op → List Str
  | [] => []
  | .expect o :: r => o :: expects r
  | _ :: r => expects r

def noSetLog : List Op → Bool
  | [] => true
  | .setLog _ :: _ => false
  | _ :: r => noSetLog r

theorem sshRun_login_aux (ops : List Op) (h : noSetLog ops = true) (st : SshState) (hc : st.cur = some .login) :
    (ops.foldl sshStep st).sinks.login = st.sinks.login ++ (expects ops).map crlf2lf ∧
    (ops.foldl sshStep st).sinks.config = st.sinks.config ∧
    (ops.foldl sshStep st).sinks.change = st.sinks.change := by
  induction ops generalizing st with
  | nil => simp [expects]
  | cons o os ih =>
    cases o with
    | send c =>
      have := ih (by simpa [noSetLog] using h) (sshStep st (.send c)) (by simpa [sshStep] using hc)
      simpa [List.foldl_cons, expects, sshStep] using this
    | expect out =>
      have := ih (by simpa [noSetLog] using h) (sshStep st (.expect out)) (by simp [sshStep, hc])
      simp only [List.foldl_cons, expects, List.map_cons]
      rw [this.1, this.2.1, this.2.2]
      simp [sshStep, hc, Sinks.add]
    | setLog l => simp [noSetLog] at h
    | abort m =>
      have := ih (by simpa [noSetLog] using h) (sshStep st (.abort m)) (by simpa [sshStep] using hc)
      simp only [List.foldl_cons, expects]
      rw [this.1, this.2.1, this.2.2]
      simp [sshStep, Sinks.err]

end NA.Mask
