import NA.Proofs.C03Out
/-
C03, member lists: both branches of the heuristic of `hasEqualizedLists` reach the target list.
Incremental branch: one `delete` per dropped member, then one `set` with all new members
(merge) — the list ends as kept ++ inserted, a permutation of the target list.  Replace branch:
one `edit` with the target list.  For every valid script, any length.  Core Lean only.
-/
namespace NA.PanOs

/-- Effect of a request on the member list it addresses. -/
inductive MemOp
  | del (m : String)
  | add (ms : List String)
  | edit (ms : List String)
  deriving DecidableEq, Repr

/-- `none`: refused (`delete` of a member that is not there). -/
def applyMem (l : List String) : MemOp → Option (List String)
  | .del m => if l.contains m then some (l.filter (· != m)) else none
  | .add ms => some (mergeMembers l ms)
  | .edit ms => some ms

def runMem (l : List String) : List MemOp → Option (List String)
  | [] => some l
  | o :: os => (applyMem l o).bind (fun l' => runMem l' os)

/-- The member operation of a request (whatever list it addresses). -/
def memOf : Cmd → Option MemOp
  | .delMem _ _ m => some (.del m)
  | .addMem _ _ ms => some (.add ms)
  | .editList _ _ ms => some (.edit ms)
  | .delGMem _ m => some (.del m)
  | .setGrp _ ms => some (.add ms)
  | _ => none

theorem runMem_append (l : List String) (o₁ o₂ : List MemOp) :
    runMem l (o₁ ++ o₂) = (runMem l o₁).bind (fun l' => runMem l' o₂) := by
  induction o₁ generalizing l with
  | nil => simp [runMem]
  | cons o os ih =>
    simp only [List.cons_append, runMem]
    cases applyMem l o with
    | none => simp
    | some l' => simp [ih]

theorem runMem_dels_eq_runOrd (l ms : List String) :
    runMem l (ms.map MemOp.del) = runOrd l (ms.map OrdOp.del) := by
  induction ms generalizing l with
  | nil => rfl
  | cons m ms ih =>
    simp only [List.map_cons, runMem, runOrd, applyMem, applyOrd]
    split
    · simp [ih]
    · simp

theorem mergeMembers_disjoint (old new : List String) (h : (old ++ new).Nodup) :
    mergeMembers old new = old ++ new := by
  unfold mergeMembers
  induction new generalizing old with
  | nil => simp
  | cons x xs ih =>
    have hx : old.contains x = false := by
      rw [List.nodup_append] at h
      have : x ∉ old := fun hm => h.2.2 x hm x (by simp) rfl
      simpa using this
    simp only [List.foldl_cons, hx, Bool.false_eq_true, if_false]
    rw [ih (old ++ [x]) (by simpa [List.append_assoc] using h)]
    simp [List.append_assoc]

/-! ### Name equality: equal ranges carry the same names on both sides -/

/-- `Equal` of the list pair when no group is involved. -/
def nameEq (la lb : List String) (i j : Nat) : Bool := la.getD i "" == lb.getD j ""

theorem pairsEq_slices (la lb : List String) (eq : Nat → Nat → Bool)
    (heq : ∀ i j, i < la.length → j < lb.length → eq i j = true → la.getD i "" = lb.getD j "") :
    ∀ (k lowA lowB : Nat), lowA + k ≤ la.length → lowB + k ≤ lb.length →
      pairsEq eq lowA lowB k = true → (la.drop lowA).take k = (lb.drop lowB).take k := by
  intro k
  induction k with
  | zero => intro lowA lowB _ _ _; simp
  | succ k ih =>
    intro lowA lowB hA hB h
    simp only [pairsEq, Bool.and_eq_true] at h
    have hA' : lowA < la.length := by omega
    have hB' : lowB < lb.length := by omega
    rw [List.drop_eq_getElem_cons hA', List.drop_eq_getElem_cons hB', List.take_succ_cons, List.take_succ_cons]
    have h1 := heq lowA lowB hA' hB' h.1
    simp only [List.getD_eq_getElem?_getD, List.getElem?_eq_getElem hA', List.getElem?_eq_getElem hB',
      Option.getD_some] at h1
    rw [h1, ih (lowA + 1) (lowB + 1) (by omega) (by omega) h.2]

theorem kind_eq_len {eq : Nat → Nat → Bool} {n m x y : Nat} {r : Range} {rs : List Range}
    (h : validFrom eq n m x y (r :: rs) = true) (hk : r.kind = .eq) :
    r.highB - r.lowB = r.highA - r.lowA ∧ pairsEq eq r.lowA r.lowB (r.highA - r.lowA) = true := by
  simp only [validFrom, Bool.and_eq_true, Bool.or_eq_true, beq_iff_eq, decide_eq_true_eq] at h
  have hkind := h.1.2
  unfold Range.kind at hk
  split at hk
  · cases hk
  · rename_i hd
    split at hk
    · cases hk
    · rename_i hi
      rcases hkind with (hkind | hkind) | hkind
      · exact absurd hkind hi
      · exact absurd hkind hd
      · exact hkind

/-- Kept members followed by inserted members are a permutation of the target list. -/
theorem kept_inserted_perm (la lb : List String) (eq : Nat → Nat → Bool)
    (heq : ∀ i j, i < la.length → j < lb.length → eq i j = true → la.getD i "" = lb.getD j "") :
    ∀ (rs : List Range) (x y : Nat), validFrom eq la.length lb.length x y rs = true →
      (survivors la rs ++ insertedOf lb rs).Perm (lb.drop y) := by
  intro rs
  induction rs with
  | nil =>
    intro x y h
    obtain ⟨_, hy⟩ := validFrom_nil h
    simp [survivors, insertedOf, hy]
  | cons r rs ih =>
    intro x y h
    obtain ⟨h1, h2, h3, h4, h5, h6, h7⟩ := validFrom_cons h
    subst h1
    subst h2
    have ih' := ih r.highA r.highB h7
    have hsplit := drop_split lb r.lowB r.highB (by omega)
    cases hk : r.kind with
    | del =>
      have : r.lowB = r.highB := by
        unfold Range.kind at hk
        split at hk
        · rename_i hd; simpa [Range.isDelete] using hd
        · split at hk <;> cases hk
      simp only [survivors, insertedOf, hk]
      rw [this]; exact ih'
    | ins =>
      simp only [survivors, insertedOf, hk]
      rw [hsplit]
      exact (List.perm_append_comm_assoc _ _ _).trans (List.Perm.append_left _ ih')
    | eq =>
      obtain ⟨hlen, hp⟩ := kind_eq_len h hk
      have hs := pairsEq_slices la lb eq heq (r.highA - r.lowA) r.lowA r.lowB (by omega) (by omega) hp
      simp only [survivors, insertedOf, hk]
      rw [hsplit, List.append_assoc]
      have : la.extract r.lowA r.highA = lb.extract r.lowB r.highB := by
        simp only [List.extract, hlen]; exact hs
      rw [this]
      exact List.Perm.append_left _ ih'

/-- **Incremental branch.**  For a valid script whose equal ranges pair equal names: deleting
the members of the delete ranges one by one and then merging the members of the insert ranges
with one `set` is accepted and leaves kept ++ inserted, a permutation of the target list. -/
theorem members_incremental (la lb : List String) (eq : Nat → Nat → Bool)
    (heq : ∀ i j, i < la.length → j < lb.length → eq i j = true → la.getD i "" = lb.getD j "")
    (rs : List Range) (hv : validFrom eq la.length lb.length 0 0 rs = true)
    (hla : la.Nodup) (hlb : lb.Nodup) :
    runMem la ((delNamesOf la rs).map MemOp.del ++
        (if (insertedOf lb rs).isEmpty then [] else [MemOp.add (insertedOf lb rs)])) =
      some (survivors la rs ++ insertedOf lb rs) ∧
    (survivors la rs ++ insertedOf lb rs).Perm lb := by
  have hperm := kept_inserted_perm la lb eq heq rs 0 0 hv
  simp only [List.drop_zero] at hperm
  refine ⟨?_, hperm⟩
  rw [runMem_append, runMem_dels_eq_runOrd]
  have h1 := phase1_deletes (eq := eq) la rs 0 0 [] hv (by simpa using hla)
  simp only [List.drop_zero, List.nil_append] at h1
  rw [h1]
  simp only [Option.bind_some]
  split
  · rename_i he
    have : insertedOf lb rs = [] := by simpa using he
    simp [runMem, this]
  · simp only [runMem, applyMem, Option.bind_some]
    rw [mergeMembers_disjoint _ _ (hperm.nodup_iff.mpr hlb)]

/-- **Replace branch.**  One `edit` gives exactly the list sent. -/
theorem members_replace (la ms : List String) : runMem la [MemOp.edit ms] = some ms := rfl

end NA.PanOs

namespace NA.PanOs

/-! ### The model on lists without groups -/

theorem emitAll_emitAll (s : St) (xs ys : List Cmd) : (s.emitAll xs).emitAll ys = s.emitAll (xs ++ ys) := by
  simp [St.emitAll, List.append_assoc]

theorem emitAll_nil (s : St) : s.emitAll [] = s := by simp [St.emitAll]

theorem adaptGroups_plain (st : St) : ∀ (l : List String), (∀ y ∈ l, st.bGrpIdx y = none) →
    adaptGroups st l = (l, st) := by
  intro l h
  unfold adaptGroups
  suffices hs : ∀ (l res : List String), (∀ y ∈ l, st.bGrpIdx y = none) →
      l.foldl adaptStep (res, st) = (res ++ l, st) by
    have := hs l [] h
    rw [List.nil_append] at this
    exact this
  intro l
  induction l with
  | nil => intro res _; simp
  | cons x xs ih =>
    intro res h
    have hx := h x (by simp)
    have hstep : adaptStep (res, st) x = (res ++ [x], st) := by
      unfold adaptStep; simp only [hx]
    simp only [List.foldl_cons, hstep]
    rw [ih (res ++ [x]) (fun y hy => h y (List.mem_cons_of_mem _ hy))]
    simp

/-- The member-list requests of the incremental branch. -/
def listCmds (path : MPath) (la lb : List String) (rs : List Range) : List Cmd :=
  (delNamesOf la rs).map path.delCmd ++
    (if (insertedOf lb rs).isEmpty then [] else [path.addCmd (insertedOf lb rs)])

theorem mem_extract {l : List String} {lo hi : Nat} {x : String} (h : x ∈ l.extract lo hi) : x ∈ l := by
  simp only [List.extract] at h
  exact List.mem_of_mem_drop (List.mem_of_mem_take h)

theorem getD_mem {l : List String} {i : Nat} (h : i < l.length) : l.getD i "" ∈ l := by
  simp only [List.getD_eq_getElem?_getD, List.getElem?_eq_getElem h, Option.getD_some]
  exact List.getElem_mem h

theorem pairStep_plain (recur : St → List String → List String → MPath → Bool × St)
    (la lb : List String) (r : Range) (s : St) (ins : List String)
    (hsA : ∀ x ∈ la, s.aGrpIdx x = none) :
    ∀ (ks : List Nat), (∀ k ∈ ks, r.lowA + k < la.length) →
      ks.foldl (pairStep recur la lb r) (true, s, ins) = (true, s, ins) := by
  intro ks
  induction ks with
  | nil => intro _; rfl
  | cons k ks ih =>
    intro hks
    have hk0 := hsA _ (getD_mem (hks k (by simp)))
    have hstep : pairStep recur la lb r (true, s, ins) k = (true, s, ins) := by
      unfold pairStep; simp only [hk0, Bool.not_true, Bool.false_eq_true, if_false]
    simp only [List.foldl_cons, hstep]
    exact ih (fun k' hk' => hks k' (List.mem_cons_of_mem _ hk'))

theorem rangeStep_plain (recur : St → List String → List String → MPath → Bool × St)
    (la lb : List String) (path : MPath) :
    ∀ (rs : List Range) (s : St) (ins : List String),
      (∀ r ∈ rs, r.highA ≤ la.length) →
      (∀ x ∈ la, s.aGrpIdx x = none) → (∀ y ∈ lb, s.bGrpIdx y = none) →
      rs.foldl (rangeStep recur la lb path) (true, s, ins) =
        (true, s.emitAll ((delNamesOf la rs).map path.delCmd), ins ++ insertedOf lb rs) := by
  intro rs
  induction rs with
  | nil => intro s ins _ _ _; simp [delNamesOf, insertedOf, emitAll_nil]
  | cons r rs ih =>
    intro s ins hb hsA hsB
    simp only [List.foldl_cons]
    cases hk : r.kind with
    | del =>
      have hstep : rangeStep recur la lb path (true, s, ins) r =
          (true, s.emitAll ((la.extract r.lowA r.highA).map path.delCmd), ins) := by
        unfold rangeStep; simp only [hk, Bool.not_true, Bool.false_eq_true, if_false]
      rw [hstep, ih (s.emitAll ((la.extract r.lowA r.highA).map path.delCmd)) ins
        (fun r' hr' => hb r' (List.mem_cons_of_mem _ hr')) hsA hsB]
      simp [delNamesOf, insertedOf, hk, emitAll_emitAll]
    | ins =>
      have hstep : rangeStep recur la lb path (true, s, ins) r =
          (true, s, ins ++ lb.extract r.lowB r.highB) := by
        unfold rangeStep
        simp only [hk, Bool.not_true, Bool.false_eq_true, if_false,
          adaptGroups_plain s _ (fun y hy => hsB y (mem_extract hy))]
      rw [hstep, ih _ _ (fun r' hr' => hb r' (List.mem_cons_of_mem _ hr')) hsA hsB]
      simp [delNamesOf, insertedOf, hk, List.append_assoc]
    | eq =>
      have hstep : rangeStep recur la lb path (true, s, ins) r = (true, s, ins) := by
        unfold rangeStep
        simp only [hk, Bool.not_true, Bool.false_eq_true, if_false]
        exact pairStep_plain recur la lb r s ins hsA _ (by
          intro k hk'
          have := hb r (by simp)
          simp only [List.mem_range] at hk'
          omega)
      rw [hstep, ih _ _ (fun r' hr' => hb r' (List.mem_cons_of_mem _ hr')) hsA hsB]
      simp [delNamesOf, insertedOf, hk]

/-- On lists that contain no group of either side, `hasEqualizedLists` is the heuristic
followed by the plain incremental requests; the planner state changes in nothing but the
output. -/
theorem hasEqLists_plain (diff : Differ) (fuel : Nat) (st : St) (la lb : List String) (path : MPath)
    (hA : ∀ x ∈ la, st.aGrpIdx x = none) (hB : ∀ y ∈ lb, st.bGrpIdx y = none)
    (hbound : ∀ r ∈ diff la.length lb.length (fun i j => memberEq st (la.getD i "") (lb.getD j "")),
      r.highA ≤ la.length) :
    hasEqLists diff (fuel + 1) st la lb path =
       if replaceInstead la.length (deletedCount
           (diff la.length lb.length (fun i j => memberEq st (la.getD i "") (lb.getD j ""))))
       then (false, st)
       else (true, st.emitAll (listCmds path la lb
           (diff la.length lb.length (fun i j => memberEq st (la.getD i "") (lb.getD j ""))))) := by
  rw [hasEqLists]
  generalize diff la.length lb.length (fun i j => memberEq st (la.getD i "") (lb.getD j "")) = rs at hbound ⊢
  split
  · rfl
  · rw [rangeStep_plain (hasEqLists diff fuel) la lb path rs st [] hbound hA hB]
    simp only [List.nil_append]
    split
    · rename_i he
      simp at he
    · split
      · rename_i he
        simp [listCmds, he, emitAll_nil]
      · rename_i he
        simp only [Bool.not_eq_true] at he
        simp [listCmds, he, St.emit, St.emitAll, List.append_assoc]

end NA.PanOs

namespace NA.PanOs

theorem validFrom_bounds {eq : Nat → Nat → Bool} {n m : Nat} :
    ∀ (rs : List Range) (x y : Nat), validFrom eq n m x y rs = true → ∀ r ∈ rs, r.highA ≤ n := by
  intro rs
  induction rs with
  | nil => intro x y _ r hr; cases hr
  | cons r0 rs ih =>
    intro x y h r hr
    obtain ⟨_, _, _, _, h5, _, h7⟩ := validFrom_cons h
    rcases List.mem_cons.mp hr with rfl | hr
    · exact h5
    · exact ih _ _ h7 r hr

theorem validScript_bounds {eq : Nat → Nat → Bool} {n m : Nat} {rs : List Range}
    (h : validScript eq n m rs = true) : ∀ r ∈ rs, r.highA ≤ n := by
  unfold validScript at h
  rw [Bool.or_eq_true] at h
  rcases h with h | h
  · exact validFrom_bounds rs 0 0 h
  · simp only [Bool.and_eq_true, decide_eq_true_eq, beq_iff_eq] at h
    obtain ⟨_, hrs⟩ := h
    subst hrs
    intro r hr
    simp only [nothingCommon, List.mem_cons, List.not_mem_nil, or_false] at hr
    rcases hr with rfl | rfl <;> simp

/-- The nothing-in-common script always takes the replace branch. -/
theorem nothingCommon_replace (n m : Nat) (hn : 0 < n) (hm : 0 < m) :
    replaceInstead n (deletedCount (nothingCommon n m)) = true := by
  have h2 : (0 == m) = false := by
    have : 0 ≠ m := by omega
    simpa using this
  simp [nothingCommon, deletedCount, Range.isDelete, h2, replaceInstead]
  omega

theorem validScript_incremental {eq : Nat → Nat → Bool} {n m : Nat} {rs : List Range}
    (h : validScript eq n m rs = true) (hr : replaceInstead n (deletedCount rs) = false) :
    validFrom eq n m 0 0 rs = true := by
  unfold validScript at h
  rw [Bool.or_eq_true] at h
  rcases h with h | h
  · exact h
  · simp only [Bool.and_eq_true, decide_eq_true_eq, beq_iff_eq] at h
    obtain ⟨⟨hn, hm⟩, hrs⟩ := h
    subst hrs
    rw [nothingCommon_replace n m hn hm] at hr
    cases hr

theorem memberEq_plain (st : St) (la lb : List String)
    (hA : ∀ x ∈ la, st.aGrpIdx x = none) (hB : ∀ y ∈ lb, st.bGrpIdx y = none) :
    ∀ i j, i < la.length → j < lb.length →
      memberEq st (la.getD i "") (lb.getD j "") = true → la.getD i "" = lb.getD j "" := by
  intro i j hi hj h
  unfold memberEq at h
  rw [hA _ (getD_mem hi), hB _ (getD_mem hj)] at h
  simpa using h

theorem memOf_delCmd (p : MPath) (m : String) : memOf (p.delCmd m) = some (.del m) := by
  cases p <;> rfl

theorem memOf_addCmd (p : MPath) (ms : List String) : memOf (p.addCmd ms) = some (.add ms) := by
  cases p <;> rfl

theorem listCmds_memOf (path : MPath) (la lb : List String) (rs : List Range) :
    (listCmds path la lb rs).filterMap memOf =
      (delNamesOf la rs).map MemOp.del ++
        (if (insertedOf lb rs).isEmpty then [] else [MemOp.add (insertedOf lb rs)]) := by
  unfold listCmds
  rw [List.filterMap_append]
  congr 1
  · generalize delNamesOf la rs = l
    induction l with
    | nil => rfl
    | cons x xs ih => simp [memOf_delCmd, ih]
  · split <;> simp [memOf_addCmd]

end NA.PanOs

namespace NA.PanOs

/-! ### Idempotence on member lists -/

/-- `myers.Diff` on two sides of the same length whose elements are equal position by
position returns the identity script (one equal range). -/
def IdentityDiffer (diff : Differ) : Prop :=
  ∀ n eq, (∀ i, i < n → eq i i = true) → diff n n eq = [⟨0, n, 0, n⟩]

theorem identity_listCmds (path : MPath) (la : List String) :
    listCmds path la la [⟨0, la.length, 0, la.length⟩] = [] ∧
      deletedCount [⟨0, la.length, 0, la.length⟩] = 0 := by
  cases hl : la.length with
  | zero =>
    have : la = [] := List.eq_nil_of_length_eq_zero hl
    subst this
    simp [listCmds, delNamesOf, insertedOf, Range.kind, Range.isDelete, deletedCount, List.extract]
  | succ n =>
    have h1 : (0 == n + 1) = false := by simp
    simp [listCmds, delNamesOf, insertedOf, Range.kind, Range.isDelete, Range.isInsert, deletedCount, h1]

/-- A member list that already equals the target list (no groups involved) produces no request
and no change of the planner state. -/
theorem equalizeList_same (diff : Differ) (hid : IdentityDiffer diff) (fuel : Nat) (st : St)
    (la : List String) (n : String) (f : Fld)
    (hA : ∀ x ∈ la, st.aGrpIdx x = none) (hB : ∀ y ∈ la, st.bGrpIdx y = none) :
    equalizeList diff (fuel + 1) st la la n f = st := by
  have hd : diff la.length la.length (fun i j => memberEq st (la.getD i "") (la.getD j "")) =
      [⟨0, la.length, 0, la.length⟩] := by
    apply hid
    intro i hi
    unfold memberEq
    rw [hA _ (getD_mem hi), hB _ (getD_mem hi)]
    simp
  unfold equalizeList
  rw [hasEqLists_plain diff fuel st la la (.rule n f) hA hB (by rw [hd]; simp)]
  obtain ⟨h1, h2⟩ := identity_listCmds (.rule n f) la
  rw [hd, h1, h2]
  simp [replaceInstead, emitAll_nil]

end NA.PanOs
