import NA.Proofs.C03Flags
/-
C03, whole-vsys theorems, part 5: the marks and flags of SERVICES after `markObjects` — the same
facts as for addresses (`C03Marks`, `C03Flags`), for `markServices`.  Core Lean only.
-/
namespace NA.PanOs

/-! ### `markObjects` marks what the target's rules name -/

/-- Definitions stay, `needed` flags of device addresses only go up. -/
def SMarkInv (st st' : St) : Prop :=
  st'.aSvc.map (·.o) = st.aSvc.map (·.o) ∧ st'.bSvc.map (·.o) = st.bSvc.map (·.o) ∧
  st'.bSG.map (·.g) = st.bSG.map (·.g) ∧
  ∀ (i : Nat) (o : AObj), st.aSvc[i]? = some o → o.needed = true →
    ∃ o' : AObj, st'.aSvc[i]? = some o' ∧ o'.needed = true

theorem SMarkInv.refl (st : St) : SMarkInv st st := ⟨rfl, rfl, rfl, fun _ o h hn => ⟨o, h, hn⟩⟩

theorem SMarkInv.trans {a b c : St} (h₁ : SMarkInv a b) (h₂ : SMarkInv b c) : SMarkInv a c := by
  obtain ⟨a1, a2, a3, a4⟩ := h₁
  obtain ⟨b1, b2, b3, b4⟩ := h₂
  refine ⟨b1.trans a1, b2.trans a2, b3.trans a3, ?_⟩
  intro i o h hn
  obtain ⟨o', h', hn'⟩ := a4 i o h hn
  exact b4 i o' h' hn'

theorem SMarkInv.idx {st st' : St} (h : SMarkInv st st') (x : String) :
    st'.aSvcIdx x = st.aSvcIdx x ∧ st'.bSvcIdx x = st.bSvcIdx x ∧ st'.bSGIdx x = st.bSGIdx x := by
  obtain ⟨h1, h2, h3, _⟩ := h
  refine ⟨?_, ?_, ?_⟩
  · unfold St.aSvcIdx
    have : st'.aSvc.map (·.o.name) = st.aSvc.map (·.o.name) := by
      have := congrArg (List.map (·.name)) h1
      simpa [List.map_map, Function.comp_def] using this
    rw [this]
  · unfold St.bSvcIdx
    have : st'.bSvc.map (·.o.name) = st.bSvc.map (·.o.name) := by
      have := congrArg (List.map (·.name)) h2
      simpa [List.map_map, Function.comp_def] using this
    rw [this]
  · unfold St.bSGIdx
    have : st'.bSG.map (·.g.name) = st.bSG.map (·.g.name) := by
      have := congrArg (List.map (·.name)) h3
      simpa [List.map_map, Function.comp_def] using this
    rw [this]

theorem sMarkInv_setA (st : St) (ai : Nat) :
    SMarkInv st { st with aSvc := modAt st.aSvc ai (fun o => { o with needed := true }) } := by
  refine ⟨modAt_map _ _ _ _ (fun _ => rfl), rfl, rfl, ?_⟩
  intro i o h hn
  simp only [modAt_getElem?]
  split
  · exact ⟨{ o with needed := true }, by simp [h], rfl⟩
  · exact ⟨o, h, hn⟩

theorem sMarkInv_bSvc (st : St) (bi : Nat) (f : BObj → BObj) (hf : ∀ x, (f x).o = x.o) :
    SMarkInv st { st with bSvc := modAt st.bSvc bi f } :=
  ⟨rfl, modAt_map _ _ _ _ hf, rfl, fun _ o h hn => ⟨o, h, hn⟩⟩

theorem sMarkInv_bSG (st : St) (gi : Nat) (f : AGrp → AGrp) (hf : ∀ x, (f x).g = x.g) :
    SMarkInv st { st with bSG := modAt st.bSG gi f } :=
  ⟨rfl, rfl, modAt_map _ _ _ _ hf, fun _ o h hn => ⟨o, h, hn⟩⟩

theorem sMarkInv_aSG (st : St) (ai : Nat) (f : AGrp → AGrp) :
    SMarkInv st { st with aSG := modAt st.aSG ai f } :=
  ⟨rfl, rfl, rfl, fun _ o h hn => ⟨o, h, hn⟩⟩

theorem foldl_sMarkInv {β : Type} (f : St → β → St) (hf : ∀ s x, SMarkInv s (f s x)) :
    ∀ (l : List β) (s : St), SMarkInv s (l.foldl f s) := by
  intro l
  induction l with
  | nil => intro s; exact SMarkInv.refl s
  | cons x xs ih => intro s; exact (hf s x).trans (ih _)

/-- One element of the loop of `markServices`. -/
def markSrvStep (fuel : Nat) (st : St) (name : String) : St :=
  match st.bSGIdx name with
  | some gi =>
    let st := { st with bSG := modAt st.bSG gi (fun g => { g with needed := true }) }
    let ms := (st.bSG[gi]?.map (·.g.members)).getD []
    let st := markSrvs fuel st ms
    match st.aSGIdx name with
    | some ai =>
      let st := { st with aSG := modAt st.aSG ai (fun g => { g with needed := true }) }
      let msA := (st.aSG[ai]?.map (·.g.members)).getD []
      if servicesEq (st.aSvc.map (·.o)) (st.bSvc.map (·.o)) ms msA then
        { st with bSG := modAt st.bSG gi (fun g => { g with needed := false }) }
      else st
    | none => st
  | none =>
    match st.bSvcIdx name with
    | none => st
    | some bi =>
      match st.aSvcIdx name with
      | some ai =>
        let st := { st with aSvc := modAt st.aSvc ai (fun o => { o with needed := true }) }
        let va := (st.aSvc[ai]?.map (·.o.val)).getD ""
        let vb := (st.bSvc[bi]?.map (·.o.val)).getD ""
        if va != vb then { st with bSvc := modAt st.bSvc bi (fun o => { o with edit := true }) }
        else st
      | none => { st with bSvc := modAt st.bSvc bi (fun o => { o with needed := true }) }

theorem markSrvs_succ (fuel : Nat) (st : St) (l : List String) :
    markSrvs (fuel + 1) st l = l.foldl (markSrvStep fuel) st := by
  rw [markSrvs]; rfl

theorem markSrvs_sinv : ∀ (fuel : Nat) (st : St) (l : List String), SMarkInv st (markSrvs fuel st l) := by
  intro fuel
  induction fuel with
  | zero => intro st l; exact SMarkInv.refl st
  | succ fuel ih =>
    intro st l
    rw [markSrvs_succ]
    apply foldl_sMarkInv
    intro s name
    unfold markSrvStep
    split
    · rename_i gi _
      dsimp only
      have h0 := (sMarkInv_bSG s gi (fun g => { g with needed := true }) (fun _ => rfl)).trans (ih
        { s with bSG := modAt s.bSG gi (fun g => { g with needed := true }) }
        ((Option.map (fun x => x.g.members) (modAt s.bSG gi (fun g => { g with needed := true }))[gi]?).getD []))
      split
      · rename_i ai _
        split
        · exact (h0.trans (sMarkInv_aSG _ ai _)).trans (sMarkInv_bSG _ gi (fun g => { g with needed := false }) (fun _ => rfl))
        · exact h0.trans (sMarkInv_aSG _ ai _)
      · exact h0
    · split
      · exact SMarkInv.refl s
      · rename_i bi _
        split
        · rename_i ai _
          dsimp only
          split
          · exact (sMarkInv_setA s ai).trans (sMarkInv_bSvc _ bi (fun o => { o with edit := true }) (fun _ => rfl))
          · exact sMarkInv_setA s ai
        · exact sMarkInv_bSvc s bi (fun o => { o with needed := true }) (fun _ => rfl)

/-- The device address named `x` (if there is one) is marked `needed`. -/
def SMarked (st : St) (x : String) : Prop :=
  ∀ ai, st.aSvcIdx x = some ai → ∃ o, st.aSvc[ai]? = some o ∧ o.needed = true

theorem SMarked.mono {st st' : St} {x : String} (h : SMarkInv st st') (hm : SMarked st x) : SMarked st' x := by
  intro ai hai
  rw [(h.idx x).1] at hai
  obtain ⟨o, ho, hn⟩ := hm ai hai
  exact h.2.2.2 ai o ho hn

theorem markSrvStep_marks (fuel : Nat) (s : St) (x : String)
    (hg : s.bSGIdx x = none) (hb : (s.bSvcIdx x).isSome) : SMarked (markSrvStep fuel s x) x := by
  unfold markSrvStep
  rw [hg]
  cases hbi : s.bSvcIdx x with
  | none => simp [hbi] at hb
  | some bi =>
    simp only
    cases hai : s.aSvcIdx x with
    | none =>
      intro ai h
      have : (({ s with bSvc := modAt s.bSvc bi (fun o => { o with needed := true }) } : St).aSvcIdx x) =
          s.aSvcIdx x := rfl
      simp only at h
      rw [this, hai] at h
      cases h
    | some ai =>
      simp only
      have hin : ∃ o, s.aSvc[ai]? = some o := by
        have := lastIdx_spec hai
        rw [List.getElem?_map] at this
        cases h : s.aSvc[ai]? with
        | none => simp [h] at this
        | some o => exact ⟨o, rfl⟩
      obtain ⟨o, ho⟩ := hin
      have hset : SMarked { s with aSvc := modAt s.aSvc ai (fun o => { o with needed := true }) } x := by
        intro ai' h'
        have hidx := ((sMarkInv_setA s ai).idx x).1
        rw [hidx, hai] at h'
        cases h'
        exact ⟨{ o with needed := true }, by simp [modAt_getElem?, ho], rfl⟩
      split
      · exact hset.mono (sMarkInv_bSvc _ bi (fun o => { o with edit := true }) (fun _ => rfl))
      · exact hset

theorem markSrvs_marks (fuel : Nat) : ∀ (l : List String) (st : St) (x : String), x ∈ l →
    st.bSGIdx x = none → (st.bSvcIdx x).isSome → SMarked (markSrvs (fuel + 1) st l) x := by
  intro l
  induction l with
  | nil => intro st x hx; cases hx
  | cons y ys ih =>
    intro st x hx hg hb
    rw [markSrvs_succ, List.foldl_cons, ← markSrvs_succ]
    have hstep : SMarkInv st (markSrvStep fuel st y) := by
      have := markSrvs_sinv (fuel + 1) st [y]
      rw [markSrvs_succ] at this
      simpa using this
    rcases List.mem_cons.mp hx with rfl | hx
    · exact (markSrvStep_marks fuel st x hg hb).mono (markSrvs_sinv _ _ _)
    · apply ih _ x hx
      · rw [(hstep.idx x).2.2]; exact hg
      · rw [(hstep.idx x).2.1]; exact hb

/-- `markAddresses` leaves services and service-groups alone. -/
theorem markAddrs_svc : ∀ (fuel : Nat) (st : St) (l : List String),
    (markAddrs fuel st l).aSvc = st.aSvc ∧ (markAddrs fuel st l).bSvc = st.bSvc ∧
      (markAddrs fuel st l).bSG = st.bSG := by
  intro fuel
  induction fuel with
  | zero => intro st l; exact ⟨rfl, rfl, rfl⟩
  | succ fuel ih =>
    intro st l
    rw [markAddrs_succ]
    suffices h : ∀ (l : List String) (s : St),
        (l.foldl (markAddrStep fuel) s).aSvc = s.aSvc ∧ (l.foldl (markAddrStep fuel) s).bSvc = s.bSvc ∧
          (l.foldl (markAddrStep fuel) s).bSG = s.bSG from h l st
    intro l
    induction l with
    | nil => intro s; exact ⟨rfl, rfl, rfl⟩
    | cons x xs ihl =>
      intro s
      simp only [List.foldl_cons]
      obtain ⟨h1, h2, h3⟩ := ihl (markAddrStep fuel s x)
      have hstep : (markAddrStep fuel s x).aSvc = s.aSvc ∧ (markAddrStep fuel s x).bSvc = s.bSvc ∧
          (markAddrStep fuel s x).bSG = s.bSG := by
        unfold markAddrStep
        split
        · dsimp only
          simp only [ih]; exact ⟨trivial, trivial, trivial⟩
        · split
          · exact ⟨rfl, rfl, rfl⟩
          · split
            · dsimp only
              split <;> exact ⟨rfl, rfl, rfl⟩
            · exact ⟨rfl, rfl, rfl⟩
      exact ⟨h1.trans hstep.1, h2.trans hstep.2.1, h3.trans hstep.2.2⟩

theorem markAddrs_sinv (fuel : Nat) (st : St) (l : List String) : SMarkInv st (markAddrs fuel st l) := by
  obtain ⟨h1, h2, h3⟩ := markAddrs_svc fuel st l
  refine ⟨by rw [h1], by rw [h2], by rw [h3], ?_⟩
  intro i o h hn
  exact ⟨o, by rw [h1]; exact h, hn⟩

/-- After `markObjects`, every device service that a rule names — as a service of the target, not
as a service-group — is `needed`. -/
theorem markObjects_smarks (fuel : Nat) : ∀ (rules : List Rule) (st : St) (r : Rule) (x : String),
    r ∈ rules → x ∈ r.srv → st.bSGIdx x = none → (st.bSvcIdx x).isSome →
    SMarked (markObjects (fuel + 1) st rules) x := by
  intro rules
  induction rules with
  | nil => intro st r x hr; cases hr
  | cons r0 rs ih =>
    intro st r x hr hx hg hb
    unfold markObjects at ih ⊢
    simp only [List.foldl_cons]
    have h1 := markAddrs_sinv (fuel + 1) st r0.src
    have h2 := markAddrs_sinv (fuel + 1) (markAddrs (fuel + 1) st r0.src) r0.dst
    have h3 := markSrvs_sinv (fuel + 1) (markAddrs (fuel + 1) (markAddrs (fuel + 1) st r0.src) r0.dst) r0.srv
    have hall := (h1.trans h2).trans h3
    have hrest : SMarkInv (markSrvs (fuel + 1) (markAddrs (fuel + 1) (markAddrs (fuel + 1) st r0.src) r0.dst) r0.srv)
        (rs.foldl (fun st r => markSrvs (fuel + 1) (markAddrs (fuel + 1) (markAddrs (fuel + 1) st r.src) r.dst) r.srv)
          (markSrvs (fuel + 1) (markAddrs (fuel + 1) (markAddrs (fuel + 1) st r0.src) r0.dst) r0.srv)) :=
      foldl_sMarkInv _ (fun s (r' : Rule) =>
        ((markAddrs_sinv (fuel + 1) s r'.src).trans (markAddrs_sinv (fuel + 1) _ r'.dst)).trans
          (markSrvs_sinv (fuel + 1) _ r'.srv)) _ _
    rcases List.mem_cons.mp hr with rfl | hr
    · refine (markSrvs_marks fuel _ _ x hx ?_ ?_).mono hrest
      · rw [((h1.trans h2).idx x).2.2]; exact hg
      · rw [((h1.trans h2).idx x).2.1]; exact hb
    · apply ih _ r x hr hx
      · rw [(hall.idx x).2.2]; exact hg
      · rw [(hall.idx x).2.1]; exact hb

theorem markObjects_sinv (fuel : Nat) (st : St) (rules : List Rule) : SMarkInv st (markObjects fuel st rules) := by
  unfold markObjects
  exact foldl_sMarkInv _ (fun s (r' : Rule) =>
    ((markAddrs_sinv fuel s r'.src).trans (markAddrs_sinv fuel _ r'.dst)).trans (markSrvs_sinv fuel _ r'.srv)) _ _

end NA.PanOs

namespace NA.PanOs


/-- Flags of the target's addresses only go up; names and values stay. -/
def SBMono (st st' : St) : Prop :=
  ∀ (i : Nat) (o : BObj), st.bSvc[i]? = some o →
    ∃ o' : BObj, st'.bSvc[i]? = some o' ∧ o'.o = o.o ∧ (o.needed = true → o'.needed = true) ∧
      (o.edit = true → o'.edit = true)

theorem SBMono.refl (st : St) : SBMono st st := fun _ o h => ⟨o, h, rfl, id, id⟩

theorem SBMono.trans {a b c : St} (h₁ : SBMono a b) (h₂ : SBMono b c) : SBMono a c := by
  intro i o h
  obtain ⟨o1, g1, e1, n1, d1⟩ := h₁ i o h
  obtain ⟨o2, g2, e2, n2, d2⟩ := h₂ i o1 g1
  exact ⟨o2, g2, e2.trans e1, fun x => n2 (n1 x), fun x => d2 (d1 x)⟩

theorem SBMono.of_eq {st st' : St} (h : st'.bSvc = st.bSvc) : SBMono st st' :=
  fun _ o ho => ⟨o, by rw [h]; exact ho, rfl, id, id⟩

theorem sbMono_mod (st : St) (bi : Nat) (f : BObj → BObj) (hf : ∀ x, (f x).o = x.o)
    (hn : ∀ x, x.needed = true → (f x).needed = true) (he : ∀ x, x.edit = true → (f x).edit = true) :
    SBMono st { st with bSvc := modAt st.bSvc bi f } := by
  intro i o h
  simp only [modAt_getElem?]
  split
  · exact ⟨f o, by simp [h], hf o, hn o, he o⟩
  · exact ⟨o, h, rfl, id, id⟩

/-- What the flags of the target's addresses say is true. -/
def SFlagSound (st : St) : Prop :=
  ∀ (bi : Nat) (ob : BObj), st.bSvc[bi]? = some ob →
    (ob.needed = true → st.aSvcIdx ob.o.name = none) ∧
    (ob.edit = true → ∃ (ai : Nat) (oa : AObj), st.aSvcIdx ob.o.name = some ai ∧ st.aSvc[ai]? = some oa ∧
      oa.o.val ≠ ob.o.val)

/-- Name `x` (if the target defines it as an address) is taken care of. -/
def SCovered (st : St) (x : String) : Prop :=
  ∀ bi, st.bSvcIdx x = some bi → ∃ ob : BObj, st.bSvc[bi]? = some ob ∧
    ((∃ (ai : Nat) (oa : AObj), st.aSvcIdx x = some ai ∧ st.aSvc[ai]? = some oa ∧
        (oa.o.val = ob.o.val ∨ ob.edit = true)) ∨
      (st.aSvcIdx x = none ∧ ob.needed = true))

theorem aSvc_val_stable {st st' : St} (h : SMarkInv st st') (ai : Nat) (oa : AObj) (ho : st.aSvc[ai]? = some oa) :
    ∃ oa' : AObj, st'.aSvc[ai]? = some oa' ∧ oa'.o = oa.o := by
  have h1 := congrArg (fun l => l[ai]?) h.1
  simp only [List.getElem?_map, ho, Option.map_some] at h1
  cases hx : st'.aSvc[ai]? with
  | none => simp [hx] at h1
  | some oa' => exact ⟨oa', rfl, by simpa [hx] using h1⟩

theorem SFlagSound.mono {st st' : St} (hs : SFlagSound st') : SFlagSound st' := hs

theorem SCovered.mono {st st' : St} {x : String} (hi : SMarkInv st st') (hb : SBMono st st')
    (hc : SCovered st x) : SCovered st' x := by
  intro bi hbi
  rw [(hi.idx x).2.1] at hbi
  obtain ⟨ob, hob, hcase⟩ := hc bi hbi
  obtain ⟨ob', hob', heq, hn, he⟩ := hb bi ob hob
  refine ⟨ob', hob', ?_⟩
  rcases hcase with ⟨ai, oa, hai, hoa, hv⟩ | ⟨hnone, hneed⟩
  · left
    obtain ⟨oa', hoa', heqa⟩ := aSvc_val_stable hi ai oa hoa
    refine ⟨ai, oa', by rw [(hi.idx x).1]; exact hai, hoa', ?_⟩
    rcases hv with hv | hv
    · left; rw [heqa, heq]; exact hv
    · right; exact he hv
  · right
    exact ⟨by rw [(hi.idx x).1]; exact hnone, hn hneed⟩

/-- One element of `markAddresses`: flags stay sound, go up only, and the element is covered. -/
theorem markSrvs_flags : ∀ (fuel : Nat) (st : St) (l : List String), SFlagSound st →
    SFlagSound (markSrvs fuel st l) ∧ SBMono st (markSrvs fuel st l) := by
  intro fuel
  induction fuel with
  | zero => intro st l h; exact ⟨h, SBMono.refl st⟩
  | succ fuel ih =>
    intro st l
    rw [markSrvs_succ]
    suffices hs : ∀ (l : List String) (s : St), SFlagSound s →
        SFlagSound (l.foldl (markSrvStep fuel) s) ∧ SBMono s (l.foldl (markSrvStep fuel) s) from hs l st
    intro l
    induction l with
    | nil => intro s h; exact ⟨h, SBMono.refl s⟩
    | cons x xs ihl =>
      intro s hs
      simp only [List.foldl_cons]
      have step : SFlagSound (markSrvStep fuel s x) ∧ SBMono s (markSrvStep fuel s x) := by
        unfold markSrvStep
        split
        · rename_i gi _
          dsimp only
          have h1 : SFlagSound { s with bSG := modAt s.bSG gi (fun g => { g with needed := true }) } := hs
          obtain ⟨a1, a2⟩ := ih { s with bSG := modAt s.bSG gi (fun g => { g with needed := true }) }
            ((Option.map (fun x => x.g.members) (modAt s.bSG gi (fun g => { g with needed := true }))[gi]?).getD []) h1
          have a2' : SBMono s (markSrvs fuel { s with bSG := modAt s.bSG gi (fun g => { g with needed := true }) }
              ((Option.map (fun x => x.g.members) (modAt s.bSG gi (fun g => { g with needed := true }))[gi]?).getD [])) :=
            (SBMono.of_eq rfl).trans a2
          split
          · split
            · exact ⟨a1, a2'.trans (SBMono.of_eq rfl)⟩
            · exact ⟨a1, a2'.trans (SBMono.of_eq rfl)⟩
          · exact ⟨a1, a2'⟩
        · split
          · exact ⟨hs, SBMono.refl s⟩
          · rename_i bi hbi
            split
            · rename_i ai hai
              dsimp only
              -- needed of the device address: the target's flags are not touched
              have hsA : SFlagSound { s with aSvc := modAt s.aSvc ai (fun o => { o with needed := true }) } := by
                intro bi' ob hob
                obtain ⟨p1, p2⟩ := hs bi' ob hob
                have hidx := ((sMarkInv_setA s ai).idx ob.o.name).1
                refine ⟨fun hn => by rw [hidx]; exact p1 hn, fun he => ?_⟩
                obtain ⟨ai', oa, q1, q2, q3⟩ := p2 he
                obtain ⟨oa', r1, r2⟩ := aSvc_val_stable (sMarkInv_setA s ai) ai' oa q2
                exact ⟨ai', oa', by rw [hidx]; exact q1, r1, by rw [r2]; exact q3⟩
              split
              · rename_i hne
                refine ⟨?_, sbMono_mod _ bi _ (fun _ => rfl) (fun _ h => h) (fun _ _ => rfl)⟩
                intro bi' ob' hob'
                simp only [modAt_getElem?] at hob'
                split at hob'
                · rename_i hbb
                  subst hbb
                  cases hb0 : s.bSvc[bi']? with
                  | none => simp [hb0] at hob'
                  | some ob0 =>
                    simp only [hb0, Option.map_some, Option.some.injEq] at hob'
                    subst hob'
                    obtain ⟨p1, p2⟩ := hsA bi' ob0 hb0
                    refine ⟨p1, fun _ => ?_⟩
                    -- the name at index bi is x
                    have hname : ob0.o.name = x := by
                      have := lastIdx_spec hbi
                      rw [List.getElem?_map, hb0] at this
                      simpa using this
                    have hidx := ((sMarkInv_setA s ai).idx x).1
                    have hin : ∃ oa, s.aSvc[ai]? = some oa := by
                      have := lastIdx_spec hai
                      rw [List.getElem?_map] at this
                      cases h : s.aSvc[ai]? with
                      | none => simp [h] at this
                      | some o => exact ⟨o, rfl⟩
                    obtain ⟨oa, hoa⟩ := hin
                    refine ⟨ai, { oa with needed := true }, ?_, by simp [modAt_getElem?, hoa], ?_⟩
                    · rw [hname]
                      show St.aSvcIdx { s with aSvc := modAt s.aSvc ai (fun o => { o with needed := true }) } x = some ai
                      rw [hidx]; exact hai
                    simp only [modAt_getElem?, if_true, hoa, Option.map_some, Option.getD_some, hb0] at hne
                    simpa using hne
                · exact hsA bi' ob' hob'
              · exact ⟨hsA, SBMono.of_eq rfl⟩
            · rename_i hai
              refine ⟨?_, sbMono_mod _ bi _ (fun _ => rfl) (fun _ _ => rfl) (fun _ h => h)⟩
              intro bi' ob' hob'
              simp only [modAt_getElem?] at hob'
              split at hob'
              · rename_i hbb
                subst hbb
                cases hb0 : s.bSvc[bi']? with
                | none => simp [hb0] at hob'
                | some ob0 =>
                  simp only [hb0, Option.map_some, Option.some.injEq] at hob'
                  subst hob'
                  obtain ⟨p1, p2⟩ := hs bi' ob0 hb0
                  have hname : ob0.o.name = x := by
                    have := lastIdx_spec hbi
                    rw [List.getElem?_map, hb0] at this
                    simpa using this
                  refine ⟨fun _ => ?_, p2⟩
                  show St.aSvcIdx _ ob0.o.name = none
                  rw [hname]
                  exact hai
              · exact hs bi' ob' hob'
      obtain ⟨f1, m1⟩ := step
      obtain ⟨f2, m2⟩ := ihl _ f1
      exact ⟨f2, m1.trans m2⟩


theorem markSrvStep_covers (fuel : Nat) (s : St) (x : String) (hg : s.bSGIdx x = none) :
    SCovered (markSrvStep fuel s x) x := by
  unfold markSrvStep
  rw [hg]
  cases hbi : s.bSvcIdx x with
  | none =>
    simp only
    intro bi h
    rw [hbi] at h
    cases h
  | some bi =>
    simp only
    have hinb : ∃ ob, s.bSvc[bi]? = some ob := by
      have := lastIdx_spec hbi
      rw [List.getElem?_map] at this
      cases h : s.bSvc[bi]? with
      | none => simp [h] at this
      | some o => exact ⟨o, rfl⟩
    obtain ⟨ob, hob⟩ := hinb
    cases hai : s.aSvcIdx x with
    | none =>
      simp only
      intro bi' h'
      have : St.bSvcIdx { s with bSvc := modAt s.bSvc bi (fun o => { o with needed := true }) } x = s.bSvcIdx x := by
        unfold St.bSvcIdx
        rw [modAt_map s.bSvc bi (fun o => { o with needed := true }) (fun x => x.o.name) (fun _ => rfl)]
      rw [this, hbi] at h'
      cases h'
      refine ⟨{ ob with needed := true }, by simp [modAt_getElem?, hob], Or.inr ⟨?_, rfl⟩⟩
      show s.aSvcIdx x = none
      exact hai
    | some ai =>
      simp only
      have hina : ∃ oa, s.aSvc[ai]? = some oa := by
        have := lastIdx_spec hai
        rw [List.getElem?_map] at this
        cases h : s.aSvc[ai]? with
        | none => simp [h] at this
        | some o => exact ⟨o, rfl⟩
      obtain ⟨oa, hoa⟩ := hina
      have hidxA : St.aSvcIdx { s with aSvc := modAt s.aSvc ai (fun o => { o with needed := true }) } x = some ai := by
        rw [((sMarkInv_setA s ai).idx x).1]; exact hai
      split
      · -- values differ: edit
        intro bi' h'
        have : (modAt s.bSvc bi (fun o => { o with edit := true })).map (fun x => x.o.name) =
            s.bSvc.map (fun x => x.o.name) :=
          modAt_map s.bSvc bi (fun o => { o with edit := true }) (fun x => x.o.name) (fun _ => rfl)
        unfold St.bSvcIdx at h'
        simp only [this] at h'
        have hbi' : lastIdx (s.bSvc.map (fun x => x.o.name)) x = some bi := hbi
        rw [hbi'] at h'
        cases h'
        refine ⟨{ ob with edit := true }, by simp [modAt_getElem?, hob], Or.inl ⟨ai, { oa with needed := true }, ?_,
          by simp [modAt_getElem?, hoa], Or.inr rfl⟩⟩
        exact hidxA
      · rename_i heq
        intro bi' h'
        have : St.bSvcIdx { s with aSvc := modAt s.aSvc ai (fun o => { o with needed := true }) } x = s.bSvcIdx x := rfl
        rw [this, hbi] at h'
        cases h'
        refine ⟨ob, hob, Or.inl ⟨ai, { oa with needed := true }, hidxA, by simp [modAt_getElem?, hoa], Or.inl ?_⟩⟩
        simp only [modAt_getElem?, if_true, hoa, Option.map_some, Option.getD_some, hob] at heq
        simpa using heq

theorem markSrvStep_inv (fuel : Nat) (s : St) (x : String) : SMarkInv s (markSrvStep fuel s x) := by
  have := markSrvs_sinv (fuel + 1) s [x]
  rw [markSrvs_succ] at this
  simpa using this

theorem markSrvStep_flags (fuel : Nat) (s : St) (x : String) (h : SFlagSound s) :
    SFlagSound (markSrvStep fuel s x) ∧ SBMono s (markSrvStep fuel s x) := by
  have := markSrvs_flags (fuel + 1) s [x] h
  rw [markSrvs_succ] at this
  simpa using this

theorem markSrvs_covers (fuel : Nat) : ∀ (l : List String) (st : St) (x : String), SFlagSound st → x ∈ l →
    st.bSGIdx x = none → SCovered (markSrvs (fuel + 1) st l) x := by
  intro l
  induction l with
  | nil => intro st x _ hx; cases hx
  | cons y ys ih =>
    intro st x hfs hx hg
    rw [markSrvs_succ, List.foldl_cons, ← markSrvs_succ]
    have hinv := markSrvStep_inv fuel st y
    obtain ⟨hfs', hmono⟩ := markSrvStep_flags fuel st y hfs
    rcases List.mem_cons.mp hx with rfl | hx
    · exact (markSrvStep_covers fuel st x hg).mono (markSrvs_sinv _ _ _) (markSrvs_flags _ _ _ hfs').2
    · exact ih _ x hfs' hx (by rw [(hinv.idx x).2.2]; exact hg)

theorem markAddrs_bmono (fuel : Nat) (st : St) (l : List String) : SBMono st (markAddrs fuel st l) :=
  SBMono.of_eq (markAddrs_svc fuel st l).2.1

theorem markAddrs_flagSound (fuel : Nat) (st : St) (l : List String) (h : SFlagSound st) :
    SFlagSound (markAddrs fuel st l) := by
  obtain ⟨h1, h2, _⟩ := markAddrs_svc fuel st l
  intro bi ob hob
  rw [h2] at hob
  obtain ⟨p1, p2⟩ := h bi ob hob
  have hidx : ∀ x, (markAddrs fuel st l).aSvcIdx x = st.aSvcIdx x := by
    intro x; unfold St.aSvcIdx; rw [h1]
  refine ⟨fun hn => by rw [hidx]; exact p1 hn, fun he => ?_⟩
  obtain ⟨ai, oa, q1, q2, q3⟩ := p2 he
  exact ⟨ai, oa, by rw [hidx]; exact q1, by rw [h1]; exact q2, q3⟩

/-- After `markObjects`: the service flags are sound, and every name a rule uses as service (not as
a service-group) is covered. -/
theorem markObjects_sflags (fuel : Nat) : ∀ (rules : List Rule) (st : St), SFlagSound st →
    SFlagSound (markObjects (fuel + 1) st rules) ∧ SBMono st (markObjects (fuel + 1) st rules) ∧
    ∀ (r : Rule) (x : String), r ∈ rules → x ∈ r.srv → st.bSGIdx x = none →
      SCovered (markObjects (fuel + 1) st rules) x := by
  intro rules
  induction rules with
  | nil => intro st h; exact ⟨h, SBMono.refl st, fun r x hr => by cases hr⟩
  | cons r0 rs ih =>
    intro st hfs
    unfold markObjects at ih ⊢
    simp only [List.foldl_cons]
    have f1 := markAddrs_flagSound (fuel + 1) st r0.src hfs
    have m1 := markAddrs_bmono (fuel + 1) st r0.src
    have f2 := markAddrs_flagSound (fuel + 1) _ r0.dst f1
    have m2 := markAddrs_bmono (fuel + 1) (markAddrs (fuel + 1) st r0.src) r0.dst
    obtain ⟨f3, m3⟩ := markSrvs_flags (fuel + 1) _ r0.srv f2
    have i1 := markAddrs_sinv (fuel + 1) st r0.src
    have i2 := markAddrs_sinv (fuel + 1) (markAddrs (fuel + 1) st r0.src) r0.dst
    have i3 := markSrvs_sinv (fuel + 1) (markAddrs (fuel + 1) (markAddrs (fuel + 1) st r0.src) r0.dst) r0.srv
    obtain ⟨g1, g2, g3⟩ := ih _ f3
    have irest : SMarkInv (markSrvs (fuel + 1) (markAddrs (fuel + 1) (markAddrs (fuel + 1) st r0.src) r0.dst) r0.srv)
        (rs.foldl (fun st r => markSrvs (fuel + 1) (markAddrs (fuel + 1) (markAddrs (fuel + 1) st r.src) r.dst) r.srv)
          (markSrvs (fuel + 1) (markAddrs (fuel + 1) (markAddrs (fuel + 1) st r0.src) r0.dst) r0.srv)) :=
      markObjects_sinv (fuel + 1) _ rs
    refine ⟨g1, ((m1.trans m2).trans m3).trans g2, ?_⟩
    intro r x hr hx hg
    rcases List.mem_cons.mp hr with rfl | hr
    · exact (markSrvs_covers fuel _ _ x f2 hx (by rw [((i1.trans i2).idx x).2.2]; exact hg)).mono irest g2
    · exact g3 r x hr hx (by rw [(((i1.trans i2).trans i3).idx x).2.2]; exact hg)

end NA.PanOs
