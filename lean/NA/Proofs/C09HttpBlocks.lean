import NA.Proofs.C09Cls
/-!
# C09: the exchanges of the HTTP backends, each with the checks that follow it
-/
namespace NA.C09
open NA.Sess NA.Apply NA.Spec.C09

variable (bad : Role → Reply → Bool)

theorem J_of_nonrun_exec (p : Sess) (env : Env) (s : St) (hj : J bad s) (hm : s.mode ≠ .run) : J bad (exec p env s) := by
  rw [exec_nonrun _ _ _ hm]; exact hj

/-- an error return with the error pending -/
theorem j_ret_err {s1 : St} (hs : safe bad s1.tr = true) (m : Mode) (hm : m ≠ .run ∧ m ≠ .cont) :
    J bad { s1 with mode := m, errv := true } :=
  ⟨hs, fun h => absurd h hm.1, fun h => absurd h hm.2, fun _ _ => rfl⟩

/-- a state without bad replies satisfies the invariant whatever its mode and error value -/
theorem j_clean_any {s1 : St} (hc : safe bad s1.tr = true ∧ faulted bad s1.tr = false) (m : Mode) (e : Bool) :
    J bad { s1 with mode := m, errv := e } :=
  ⟨hc.1, fun _ => hc.2, fun _ => hc.2, fun _ hf => by rw [hc.2] at hf; cases hf⟩

/-- `X ;; if err != nil { return … }` where `X` establishes everything the role requires -/
theorem http_then_check (X : Sess) (ρ : Role) (K : Reply → Prop)
    (hX : ∀ env s, J bad s → s.mode = .run → HttpOut bad ρ K (exec X env s))
    (hK : ∀ r, K r → bad ρ r = false) (lbl : String) (v : RetV) (hv : v ≠ .nil) (lits : List String) :
    ∀ env s, J bad s → J bad (exec (X ;; .ite .err lbl (.ret v lits) .skip) env s) := by
  intro env s hj
  by_cases hm : s.mode = .run
  · have h1 := hX env s hj hm
    rw [exec_seq]
    generalize exec X env s = s1 at h1
    cases h1 with
    | ok h hk he =>
      simp [exec, h.mode, evalCond, he]
      exact (jv_of_clean bad (h.clean bad (hK _ hk))).toJ
    | err hs he hm1 =>
      simp only [exec, hm1, evalCond, he, if_true]
      refine ⟨hs, by simp, by simp, fun _ _ => ?_⟩
      cases v <;> simp_all
  · exact J_of_nonrun_exec bad _ env s hj hm


/-! ## PAN-OS -/

theorem panosRep : PanosRep (badChecked .panos) := by
  intro ρ r h
  have hp : promptArrives r = false := by simp [promptArrives, h]
  simp [badChecked, hp, replayed, h, Backend.isConsole]

theorem panos_good (ρ : Role) (hρ : ρ = .change ∨ ρ = .login ∨ ρ = .read) (r : Reply)
    (h : r.arr = .full ∧ r.status200 = true ∧ r.parses = true) : badChecked .panos ρ r = false := by
  have hp := arr_full_arrives r h.1
  rcases hρ with rfl | rfl | rfl <;> simp [badChecked, hp, h.2.1, h.2.2, Backend.isConsole]

theorem panos_good_save (r : Reply) (h : r.arr = .full ∧ r.status200 = true ∧ r.parses = true) (hc : saveContent r = true) :
    badChecked .panos .save r = false := by
  have hp := arr_full_arrives r h.1
  simp [badChecked, hp, h.2.1, h.2.2, Backend.isConsole, hc]

/-- a change command: request, status, well-formed `success` -/
theorem panos_change_block :
    ∀ env s, J (badChecked .panos) s →
      J (badChecked .panos) (exec (panosDoCmd .change .cur ;; .ite .err "err != nil" (.ret .err ["_"]) .skip) env s) :=
  http_then_check _ _ .change _ (panosDoCmd_spec _ panosRep .change .cur)
    (fun r h => panos_good .change (Or.inl rfl) r h) _ _ (by decide) _

/-- the commit request and the inspection of its answer -/
theorem panos_commit_block :
    ∀ env s, J (badChecked .panos) s →
      J (badChecked .panos) (exec (
        panosDoCmd .save (.lit "commit") ;;
        .ite .err "err != nil" (.ret .keep ["err"]) .skip ;;
        .ite (.flag .noChanges)
          "strings.Contains($doCmd.1, \"There are no changes to commit\") || strings.Contains($doCmd.1, \"The result of this commit would be the same\")"
          (.ret .nil ["nil"]) .skip ;;
        .ite (.not (.flag .msgEmpty)) "$doCmd.1 != \"\"" (.ret .err ["_"]) .skip) env s) := by
  intro env s hj
  by_cases hm : s.mode = .run
  · have h1 := panosDoCmd_spec _ panosRep .save (.lit "commit") env s hj hm
    rw [exec_seq]
    generalize exec (panosDoCmd .save (.lit "commit")) env s = s1 at h1
    cases h1 with
    | ok h hk he =>
      have hm1 := h.mode
      by_cases hn : Flag.noChanges ∈ s1.last.flags
      · simp [exec, hm1, evalCond, he, hn]
        exact j_clean_any _ (h.clean _ (panos_good_save _ hk
          (saveContent_of_flag .asa rfl _ .noChanges (by simp) hn))) _ _
      · by_cases hme : Flag.msgEmpty ∈ s1.last.flags
        · simp [exec, hm1, evalCond, he, hn, hme]
          exact (jv_of_clean _ (h.clean _ (panos_good_save _ hk
            (saveContent_of_flag .asa rfl _ .msgEmpty (by simp) hme)))).toJ
        · simp [exec, hm1, evalCond, he, hn, hme]
          exact j_ret_err _ h.safe .ret (by decide)
    | err hs he hm1 =>
      simp [exec, hm1, evalCond, he]
      exact j_ret_err _ hs .ret (by decide)
  · exact J_of_nonrun_exec _ _ env s hj hm

/-- one round of the job poll -/
theorem panos_poll_block :
    ∀ env s, J (badChecked .panos) s →
      J (badChecked .panos) (exec (
        panosDoCmd .save (.lit "show jobs") ;;
        .ite .err "err != nil" (.ret .keep ["err"]) .skip ;;
        xmlUnmarshal ;;
        .ite .err "err != nil" (.ret .keep ["err"]) .skip ;;
        .ite (.flag .pend) "¬$v.Result != \"PEND\"" .cont
          (.ite (.flag .jobOk) "¬$v.Result != \"OK\"" (.ret .nil ["nil"]) (.ret .err ["_"]))) env s) := by
  intro env s hj
  by_cases hm : s.mode = .run
  · have h1 := panosDoCmd_spec _ panosRep .save (.lit "show jobs") env s hj hm
    rw [exec_seq]
    generalize exec (panosDoCmd .save (.lit "show jobs")) env s = s1 at h1
    cases h1 with
    | ok h hk he =>
      have hm1 := h.mode
      by_cases hw : Flag.wellFormed ∈ s1.last.flags
      · by_cases hp : Flag.pend ∈ s1.last.flags
        · simp [xmlUnmarshal, exec, hm1, evalCond, he, hw, hp]
          exact j_clean_any _ (h.clean _ (panos_good_save _ hk (saveContent_of_flag .asa rfl _ .pend (by simp) hp))) _ _
        · by_cases hok : Flag.jobOk ∈ s1.last.flags
          · simp [xmlUnmarshal, exec, hm1, evalCond, he, hw, hp, hok]
            exact j_clean_any _ (h.clean _ (panos_good_save _ hk (saveContent_of_flag .asa rfl _ .jobOk (by simp) hok))) _ _
          · simp [xmlUnmarshal, exec, hm1, evalCond, he, hw, hp, hok]
            exact j_ret_err _ h.safe .ret (by decide)
      · simp [xmlUnmarshal, exec, hm1, evalCond, he, hw]
        exact j_ret_err _ h.safe .ret (by decide)
    | err hs he hm1 =>
      simp [exec, hm1, evalCond, he]
      exact j_ret_err _ hs .ret (by decide)
  · exact J_of_nonrun_exec _ _ env s hj hm


/-- key generation (`getAPIKey`): request, status, well-formed `success`, key present -/
theorem panos_apikey_block :
    ∀ env s, J (badChecked .panos) s → J (badChecked .panos) (exec panosGetAPIKeyBody env s) := by
  intro env s hj
  by_cases hm : s.mode = .run
  · have h1 := panosHttpGet_spec _ panosRep .login (.lit "keygen") env s hj hm
    unfold panosGetAPIKeyBody
    rw [exec_seq, exec_ite _ _ _ _ _ _ hm]
    simp only [evalCond, Bool.false_eq_true, if_false, exec_skip]
    rw [exec_seq]
    generalize exec (panosHttpGet .login (.lit "keygen")) env s = s1 at h1
    cases h1 with
    | ok h hk he =>
      have hm1 := h.mode
      cases hp : s1.last.parses with
      | true =>
        have hc := h.clean _ (panos_good .login (by simp) _ ⟨hk.1, hk.2, hp⟩)
        by_cases hkey : Flag.keyOk ∈ s1.last.flags
        · simp [panosParseResponse, exec, hm1, evalCond, he, hp, hkey]
          exact j_clean_any _ hc _ _
        · simp [panosParseResponse, exec, hm1, evalCond, he, hp, hkey]
          exact j_clean_any _ hc _ _
      | false =>
        simp [panosParseResponse, exec, hm1, evalCond, he, hp]
        exact j_ret_err _ h.safe .ret (by decide)
    | err hs he hm1 =>
      simp [exec, hm1, evalCond, he]
      exact j_ret_err _ hs .ret (by decide)
  · exact J_of_nonrun_exec _ _ env s hj hm

/-- `checkHA`: request, status, well-formed `success`; then the HA state decides -/
theorem panos_checkha_block :
    ∀ env s, J (badChecked .panos) s → J (badChecked .panos) (exec panosCheckHABody env s) := by
  intro env s hj
  by_cases hm : s.mode = .run
  · have h1 := panosHttpPrefixGetLog_spec _ panosRep .login (.lit "show ha") env s hj hm panosHaLits
    unfold panosCheckHABody
    rw [exec_seq]
    generalize exec (panosHttpPrefixGetLog .login (.lit "show ha") panosHaLits) env s = s1 at h1
    cases h1 with
    | ok h hk he =>
      have hm1 := h.mode
      cases hp : s1.last.parses with
      | true =>
        have hc := h.clean _ (panos_good .login (by simp) _ ⟨hk.1, hk.2, hp⟩)
        by_cases hha : Flag.haActive ∈ s1.last.flags
        · simp [panosParseResponse, op, exec, hm1, evalCond, he, hp, hha]
          exact j_clean_any _ hc _ _
        · simp [panosParseResponse, op, exec, hm1, evalCond, he, hp, hha]
          exact j_clean_any _ hc _ _
      | false =>
        simp [panosParseResponse, op, exec, hm1, evalCond, he, hp]
        exact j_ret_err _ h.safe .ret (by decide)
    | err hs he hm1 =>
      simp [exec, hm1, evalCond, he]
      exact j_ret_err _ hs .ret (by decide)
  · exact J_of_nonrun_exec _ _ env s hj hm

theorem panos_config_block :
    ∀ env s, J (badChecked .panos) s →
      J (badChecked .panos) (exec (
        panosHttpPrefixGetLog .read (.lit "get config") panosConfigLits ;;
        .ite .err "err != nil" (.ret .keep ["nil", "err"]) .skip ;;
        .call "parseResponseConfig" ["_"] (
          panosParseResponse ;;
          .ite .err "err != nil" (.ret .keep ["nil", "err"]) .skip ;;
          .ite (.not (.flag .cfgParses)) "err != nil" (.ret .err ["nil", "err"]) (.ret .nil ["_", "nil"])) ;;
        .ite .err "err != nil" (.ret .err ["_", "_"]) .skip) env s) := by
  intro env s hj
  by_cases hm : s.mode = .run
  · have h1 := panosHttpPrefixGetLog_spec _ panosRep .read (.lit "get config") env s hj hm panosConfigLits
    rw [exec_seq]
    generalize exec (panosHttpPrefixGetLog .read (.lit "get config") panosConfigLits) env s = s1 at h1
    cases h1 with
    | ok h hk he =>
      have hm1 := h.mode
      cases hp : s1.last.parses with
      | true =>
        have hc := h.clean _ (panos_good .read (by simp) _ ⟨hk.1, hk.2, hp⟩)
        by_cases hcfg : Flag.cfgParses ∈ s1.last.flags
        · simp [panosParseResponse, exec, hm1, evalCond, he, hp, hcfg]
          exact j_clean_any _ hc _ _
        · simp [panosParseResponse, exec, hm1, evalCond, he, hp, hcfg]
          exact j_clean_any _ hc _ _
      | false =>
        simp [panosParseResponse, exec, hm1, evalCond, he, hp]
        exact j_ret_err _ h.safe .ret (by decide)
    | err hs he hm1 =>
      simp [exec, hm1, evalCond, he]
      exact j_ret_err _ hs .ret (by decide)
  · exact J_of_nonrun_exec _ _ env s hj hm

/-! ## NSX -/

theorem nsxSendRequest_spec (ρ : Role) (hρ : ρ = .change ∨ ρ = .read) (t : Txt) (lits : List String) (env : Env) (s : St)
    (hj : J (badChecked .nsx) s) (hm : s.mode = .run) :
    HttpOut (badChecked .nsx) ρ (fun r => r.arr = .full ∧ r.status200 = true) (exec (nsxSendRequest ρ t lits) env s) := by
  have hrep : (ρ != .change) = true → ∀ r : Reply, r.arr = .closed → badChecked .nsx ρ r = false := by
    intro hne r h
    rcases hρ with rfl | rfl
    · simp at hne
    · have hp : promptArrives r = false := by simp [promptArrives, h]
      simp [badChecked, hp, replayed, h, Backend.isConsole]
  have h1 := roundTrip_spec (badChecked .nsx) ρ t (ρ != .change) hrep env s hj hm
  simp only [nsxSendRequest, nsxSendRequestBody, exec_call _ _ _ _ _ hm, exec_seq, exec_op]
  have hmn : evalCond .never env s = false := rfl
  rw [exec_ite _ _ _ _ _ _ hm]
  simp only [evalCond, Bool.false_eq_true, if_false, exec_skip]
  generalize exec (.roundTrip ρ t (ρ != .change)) env s = s1 at h1
  cases h1 with
  | ok h harr he =>
    have hm1 := h.mode
    obtain ⟨tr0, hsplit, hs0, hf0⟩ := h.split
    cases h200 : s1.last.status200 with
    | true =>
      simp [exec_defer_op, isOpCall, isSkip, op, exec, hm1, evalCond, he, h200]
      exact .ok ⟨rfl, tr0, hsplit, hs0, hf0⟩ ⟨harr, h200⟩ rfl
    | false =>
      simp [exec_defer_op, isOpCall, isSkip, op, exec, hm1, evalCond, he, h200]
      exact .err h.safe rfl rfl
  | err hs he hm1 =>
    simp [exec, hm1, evalCond, he]
    exact .err hs rfl rfl

theorem nsx_good (ρ : Role) (hρ : ρ = .change ∨ ρ = .login) (r : Reply) (h : r.arr = .full ∧ r.status200 = true) :
    badChecked .nsx ρ r = false := by
  have hp := arr_full_arrives r h.1
  rcases hρ with rfl | rfl <;> simp [badChecked, hp, h.2, Backend.isConsole, bodyMatters]

theorem nsx_good_read (r : Reply) (h : r.arr = .full ∧ r.status200 = true) (hp' : r.parses = true) :
    badChecked .nsx .read r = false := by
  have hp := arr_full_arrives r h.1
  simp [badChecked, hp, h.2, hp', Backend.isConsole]

theorem nsx_change_block :
    ∀ env s, J (badChecked .nsx) s →
      J (badChecked .nsx) (exec (nsxSendRequest .change .cur ;; .ite .err "err != nil" (.ret .keep ["err"]) .skip) env s) :=
  http_then_check _ _ .change _ (nsxSendRequest_spec .change (Or.inl rfl) .cur _)
    (fun r h => nsx_good .change (Or.inl rfl) r h) _ _ (by decide) _

/-- a GET whose JSON body is decoded; `tail` is what follows a successful decode -/
theorem nsx_read_block (t : Txt) (lits lits1 lits2 : List String) (tail : Sess) (htail : tail = .skip ∨ ∃ l, tail = .ret .nil l) :
    ∀ env s, J (badChecked .nsx) s →
      J (badChecked .nsx) (exec (
        nsxSendRequest .read t lits ;;
        .ite .err "err != nil" (.ret .keep lits1) .skip ;;
        jsonUnmarshal ;;
        .ite .err "err != nil" (.ret .err lits2) tail) env s) := by
  intro env s hj
  by_cases hm : s.mode = .run
  · have h1 := nsxSendRequest_spec .read (Or.inr rfl) t lits env s hj hm
    rw [exec_seq]
    generalize exec (nsxSendRequest .read t lits) env s = s1 at h1
    cases h1 with
    | ok h hk he =>
      have hm1 := h.mode
      cases hp : s1.last.parses with
      | true =>
        have hc := h.clean _ (nsx_good_read _ hk hp)
        rcases htail with rfl | ⟨l, rfl⟩
        · simp [jsonUnmarshal, exec, hm1, evalCond, he, hp]
          exact j_clean_any _ hc _ _
        · simp [jsonUnmarshal, exec, hm1, evalCond, he, hp]
          exact j_clean_any _ hc _ _
      | false =>
        simp [jsonUnmarshal, exec, hm1, evalCond, he, hp]
        exact j_ret_err _ h.safe .ret (by decide)
    | err hs he hm1 =>
      simp [exec, hm1, evalCond, he]
      exact j_ret_err _ hs .ret (by decide)
  · exact J_of_nonrun_exec _ _ env s hj hm

theorem nsx_login_block :
    ∀ env s, J (badChecked .nsx) s →
      J (badChecked .nsx) (exec (
        .roundTrip .login (.lit "session create") false ;;
        .ite .err "err != nil" (.ret .keep ["err"]) .skip ;;
        .ite .not200 "$PostForm.1.StatusCode != http.StatusOK" (.ret .err ["_"]) .skip) env s) := by
  intro env s hj
  by_cases hm : s.mode = .run
  · have h1 := roundTrip_spec (badChecked .nsx) .login (.lit "session create") false (by simp) env s hj hm
    rw [exec_seq]
    generalize exec (.roundTrip .login (.lit "session create") false) env s = s1 at h1
    cases h1 with
    | ok h harr he =>
      have hm1 := h.mode
      cases h200 : s1.last.status200 with
      | true =>
        simp [exec, hm1, evalCond, he, h200]
        exact (jv_of_clean _ (h.clean _ (nsx_good .login (Or.inr rfl) _ ⟨harr, h200⟩))).toJ
      | false =>
        simp [exec, hm1, evalCond, he, h200]
        exact j_ret_err _ h.safe .ret (by decide)
    | err hs he hm1 =>
      simp [exec, hm1, evalCond, he]
      exact j_ret_err _ hs .ret (by decide)
  · exact J_of_nonrun_exec _ _ env s hj hm

end NA.C09
