import NA.Proofs.C09Flow
/-!
# C09: what holds when a run ends normally — an analysis of the session programs, proved sound

`ana sim cmp p a`: started in a running state where the facts `a` hold (`a.f0` if no error value is
pending, `a.f1` if one is), program `p` ends in normal mode with the facts `(…).run` and returns with
the facts `(…).ret`.  Facts are established by a few blocks (the loop over the change script, the
save steps) proved separately, and by tests that show there is nothing to do.
-/
namespace NA.C09
open NA.Sess NA.Apply NA.Spec.C09

structure AS where
  f0 : Facts
  f1 : Facts
  deriving DecidableEq, Repr

def AS.top : AS := ⟨.top, .top⟩
def AS.bot : AS := ⟨.bot, .bot⟩
def AS.meet (a b : AS) : AS := ⟨a.f0.meet b.f0, a.f1.meet b.f1⟩
/-- what is known whatever the error value is -/
def AS.kill (a : AS) : AS := ⟨a.f0.meet a.f1, a.f0.meet a.f1⟩
def AS.gain (x : Facts) (a : AS) : AS := ⟨a.f0.join x, a.f1.join x⟩

structure Res where
  run : AS
  ret : AS
  deriving DecidableEq, Repr

/-- the facts `a` hold of `s` -/
structure Sat (a : AS) (s : St) : Prop where
  h0 : s.errv = false → Holds a.f0 s
  h1 : s.errv = true → Holds a.f1 s

theorem Sat.meet_left {a b : AS} {s : St} (h : Sat a s) : Sat (a.meet b) s :=
  ⟨fun e => (h.h0 e).meet_left, fun e => (h.h1 e).meet_left⟩
theorem Sat.meet_right {a b : AS} {s : St} (h : Sat b s) : Sat (a.meet b) s :=
  ⟨fun e => (h.h0 e).meet_right, fun e => (h.h1 e).meet_right⟩

theorem Sat.killed {a : AS} {s : St} (h : Sat a s) : Holds (a.f0.meet a.f1) s := by
  cases he : s.errv with
  | false => exact (h.h0 he).meet_left
  | true => exact (h.h1 he).meet_right

theorem Sat.of_holds {g : Facts} {s : St} (h : Holds g s) : Sat ⟨g, g⟩ s := ⟨fun _ => h, fun _ => h⟩

/-- the state moved on (same script, longer trace): whatever was known regardless of the error value still is -/
theorem Sat.kill_stable {a : AS} {s s' : St} (h : Sat a s) (hx : SExt s s') : Sat a.kill s' :=
  Sat.of_holds (h.killed.stable hx)

theorem Sat.stable_errv {a : AS} {s s' : St} (h : Sat a s) (hx : SExt s s') (he : s'.errv = s.errv) : Sat a s' :=
  ⟨fun e => (h.h0 (he ▸ e)).stable hx, fun e => (h.h1 (he ▸ e)).stable hx⟩

theorem Sat.gain {a : AS} {x : Facts} {s : St} (h : Sat a s) (hx : Holds x s) : Sat (a.gain x) s :=
  ⟨fun e => (h.h0 e).join hx, fun e => (h.h1 e).join hx⟩

/-! ## tests -/

def fR : Facts := ⟨false, false, true, false, false, false⟩
def fT : Facts := ⟨false, false, false, true, false, false⟩
def fS : Facts := ⟨true, false, false, false, false, false⟩
def fV : Facts := ⟨false, true, false, false, false, false⟩
def fC : Facts := ⟨false, false, false, false, true, false⟩
def fM : Facts := ⟨false, false, false, false, false, true⟩
/-- what the absence of an iptables change gives -/
def fTM : Facts := ⟨false, false, false, true, false, true⟩

/-- facts in the then- and in the else-branch of a test; `sim`, `cmp`: the values of
`env.simulated` and `env.compare` -/
def split (sim cmp : Bool) : Cond → AS → Option AS × Option AS
  | .err, a => (some ⟨.top, a.f1⟩, some ⟨a.f0, .top⟩)
  | .not c, a => ((split sim cmp c a).2, (split sim cmp c a).1)
  | .hasChanges, a => (some a, some (a.gain .top))
  | .planNonEmpty, a => (some a, some (a.gain fR))
  | .ipt, a => (some a, some (a.gain fTM))
  | .simulated, a => if sim then (some a, none) else (none, some a)
  | .isCompare, a => if cmp then (some a, none) else (none, some a)
  | .never, a => (none, some a)
  | _, a => (some a, some a)

/-- `none`: the branch is not taken -/
def SatO (o : Option AS) (s : St) : Prop := ∃ x, o = some x ∧ Sat x s

theorem split_sound (sim cmp : Bool) (env : Env) (hs : env.simulated = sim) (hc : env.compare = cmp) (s : St) :
    ∀ (c : Cond) (a : AS), Sat a s →
      (evalCond c env s = true → SatO (split sim cmp c a).1 s) ∧ (evalCond c env s = false → SatO (split sim cmp c a).2 s) := by
  intro c
  induction c with
  | err =>
    intro a h
    simp only [evalCond, split]
    exact ⟨fun e => ⟨_, rfl, ⟨fun e0 => (by rw [e] at e0; cases e0), h.h1⟩⟩,
           fun e => ⟨_, rfl, ⟨h.h0, fun e1 => (by rw [e] at e1; cases e1)⟩⟩⟩
  | not c ih =>
    intro a h
    simp only [evalCond, split, Bool.not_eq_true', Bool.not_eq_false']
    exact ⟨(ih a h).2, (ih a h).1⟩
  | hasChanges =>
    intro a h
    simp only [evalCond, split]
    refine ⟨fun _ => ⟨_, rfl, h⟩, fun e => ⟨_, rfl, h.gain ?_⟩⟩
    simp only [Bool.or_eq_false_iff, Bool.not_eq_false'] at e
    exact Holds.nothing _ s e.1 e.2
  | planNonEmpty =>
    intro a h
    simp only [evalCond, split]
    refine ⟨fun _ => ⟨_, rfl, h⟩, fun e => ⟨_, rfl, h.gain ?_⟩⟩
    simp only [Bool.not_eq_false'] at e
    exact ⟨by simp [fR], by simp [fR], fun _ => by unfold SavedR; rw [e]; simp, by simp [fR], by simp [fR], by simp [fR]⟩
  | ipt =>
    intro a h
    simp only [evalCond, split]
    refine ⟨fun _ => ⟨_, rfl, h⟩, fun e => ⟨_, rfl, h.gain ?_⟩⟩
    exact ⟨by simp [fTM], by simp [fTM], by simp [fTM], fun _ => by unfold SavedT; rw [e]; simp, by simp [fTM],
      fun _ => by unfold MvSent; rw [e]; simp⟩
  | simulated =>
    intro a h
    simp only [evalCond, split, hs]
    cases sim
    · exact ⟨fun e => (by cases e), fun _ => ⟨_, rfl, h⟩⟩
    · exact ⟨fun _ => ⟨_, rfl, h⟩, fun e => (by cases e)⟩
  | isCompare =>
    intro a h
    simp only [evalCond, split, hc]
    cases cmp
    · exact ⟨fun e => (by cases e), fun _ => ⟨_, rfl, h⟩⟩
    · exact ⟨fun _ => ⟨_, rfl, h⟩, fun e => (by cases e)⟩
  | never =>
    intro a h
    simp only [evalCond, split]
    exact ⟨fun e => (by cases e), fun _ => ⟨_, rfl, h⟩⟩
  | _ =>
    intro a h
    simp only [split]
    exact ⟨fun _ => ⟨_, rfl, h⟩, fun _ => ⟨_, rfl, h⟩⟩

theorem Sat.bot (s : St) : Sat AS.bot s := ⟨fun _ => Holds.bot s, fun _ => Holds.bot s⟩

theorem Sat.congr {a : AS} {s s' : St} (h : Sat a s) (ht : s'.tr = s.tr) (hp : s'.plan = s.plan) (hi : s'.ipt = s.ipt)
    (he : s'.errv = s.errv) : Sat a s' :=
  h.stable_errv ⟨hp, hi, [], by simp [ht]⟩ he

/-! ## blocks that establish a fact -/

inductive Blk
  | gainRun (x : Facts)   -- ends in normal mode only with the fact
  | gainF0 (x : Facts)    -- ends in normal mode without a pending error only with the fact
  deriving DecidableEq, Repr

def asaSaveBlock : Sess :=
  GetCmdOutput .save (.lit "write memory") ["write memory"] ;;
  .ite (.not (.flag .okMark)) "¬strings.Contains($GetCmdOutput, \"[OK]\")"
    (.abort ["Command 'write memory' failed, missing [OK] in output:\n%s", "_"]) .skip

def saveBlocks : List (Sess × Blk) := [
  (asaSaveBlock, .gainRun fV), (iosWriteMem, .gainRun fV), (panosCommit, .gainF0 fV),
  (scpBlock "iptables", .gainRun fT), (scpBlock "routing", .gainRun fR),
  (.ite .hasChanges "" (.mark .logChanged) .skip, .gainRun fC),
  (linuxCmd .change (.lit "mv -f /etc/network/packet-filter.new /etc/network/packet-filter") ["_"], .gainRun fM) ]

def sendLoops : List Sess := [
  .forEach (asaCmd .change .cur ["_"]), .forEach (iosCmd .change .cur ["_"]), .forEach (linuxCmd .change .cur ["_"]),
  .forEach (nsxSendRequest .change .cur ;; .ite .err "err != nil" (.ret .keep ["err"]) .skip),
  .forEach (panosDoCmd .change .cur ;; .ite .err "err != nil" (.ret .err ["_"]) .skip) ]

def lookupBlk (p : Sess) : Option Blk := (saveBlocks.find? (fun x => x.1 == p)).map (·.2)

def Blk.res (k : Blk) (a : AS) : Res :=
  match k with
  | .gainRun x => ⟨a.kill.gain x, .top⟩
  | .gainF0 x => ⟨⟨(a.f0.meet a.f1).join x, a.f0.meet a.f1⟩, .top⟩

def ana (sim cmp : Bool) : Sess → AS → Res
  | .skip, a | .send _ _, a | .warn _, a | .mark _, a | .setCtr _, a | .decCtr, a | .assumeBanner, a => ⟨a, .top⟩
  | .setPlan, _ => ⟨.bot, .top⟩
  | .abort _, _ => ⟨.top, .top⟩
  | .cont, _ => ⟨.top, .top⟩
  | .recv _ _, a | .recvMore _, a | .roundTrip _ _ _, a => ⟨a.kill, .top⟩
  | .ret v _, a =>
    ⟨.top, match v with
      | .nil => ⟨a.f0.meet a.f1, .top⟩
      | .err => ⟨.top, a.f0.meet a.f1⟩
      | _ => a⟩
  | .ite c l t e, a =>
    match lookupBlk (.ite c l t e) with
    | some k => k.res a
    | none =>
    let rt : Res := match (split sim cmp c a).1 with | some x => ana sim cmp t x | none => ⟨.top, .top⟩
    let re : Res := match (split sim cmp c a).2 with | some x => ana sim cmp e x | none => ⟨.top, .top⟩
    ⟨rt.run.meet re.run, rt.ret.meet re.ret⟩
  | .seq x y, a =>
    match lookupBlk (.seq x y) with
    | some k => k.res a
    | none =>
      let r1 := ana sim cmp x a
      let r2 := ana sim cmp y r1.run
      ⟨r2.run, r1.ret.meet r2.ret⟩
  | .forEach b, a =>
    if noSetPlan b then
      ⟨if sendLoops.contains (.forEach b) then a.kill.gain fS else a.kill, (ana sim cmp b a.kill).ret⟩
    else ⟨.bot, .bot⟩
  | .loopN _ b, a => if noSetPlan b then ⟨.top, (ana sim cmp b a.kill).ret⟩ else ⟨.bot, .bot⟩
  | .loopFuel b, a => if noSetPlan b then ⟨.top, (ana sim cmp b a.kill).ret⟩ else ⟨.bot, .bot⟩
  | .call n l b, a =>
    match lookupBlk (.call n l b) with
    | some k => k.res a
    | none => ⟨(ana sim cmp b a).run.meet (ana sim cmp b a).ret, .top⟩
  | .defer c b, a =>
    if noSetPlan c && noRet c then ⟨(ana sim cmp b a).run.kill, (ana sim cmp b a).ret.kill⟩ else ⟨.bot, .bot⟩
  | .scope _ b, a => ana sim cmp b a
  | .when c b, a =>
    let rt : Res := match (split sim cmp c a).1 with | some x => ana sim cmp b x | none => ⟨.top, .top⟩
    ⟨rt.run.meet ((split sim cmp c a).2.getD .top), rt.ret⟩

/-- what a block must satisfy -/
structure BlkOK (q : Sess) (k : Blk) : Prop where
  nsp : noSetPlan q = true
  nret : noRet q = true
  est : ∀ env s, s.mode = .run → (exec q env s).mode = .run →
    match k with
    | .gainRun x => Holds x (exec q env s)
    | .gainF0 x => (exec q env s).errv = false → Holds x (exec q env s)

theorem holds_fV {s : St} (h : saveConfirmed s.tr = true) : Holds fV s :=
  ⟨by simp [fV], fun _ _ => h, by simp [fV], by simp [fV], by simp [fV], by simp [fV]⟩

/-- the scp of a start-up file ends in normal mode only after the copy succeeded -/
theorem scp_confirmed_if_completes (w : String) (env : Env) (s : St) (hm : s.mode = .run)
    (hend : (exec (scpBlock w) env s).mode = .run) : scpConfirmed w (exec (scpBlock w) env s).tr := by
  unfold scpBlock at *
  simp only [exec, hm, if_true] at hend ⊢
  generalize (linesSent (s.tr ++ [Ev.sent .save (Txt.lines (.lit ("scp " ++ w)) env)]) + 1 -
      repliesRead (s.tr ++ [Ev.sent .save (Txt.lines (.lit ("scp " ++ w)) env)])) = n at hend ⊢
  cases n with
  | zero => simp [recvLoop, evalCond] at hend
  | succ n =>
    simp only [recvLoop, Pat.matches, Pat.skips, Bool.false_and, Bool.false_eq_true, if_false, beq_iff_eq] at hend ⊢
    by_cases ha : (env.dev (s.tr ++ [Ev.sent .save (Txt.lines (.lit ("scp " ++ w)) env)])).arr = .full
    · simp only [ha, if_true, evalCond] at hend ⊢
      simp
      exact ⟨s.tr, _, [], by simp [Txt.lines], ha⟩
    · simp [ha, evalCond] at hend

theorem saveBlocks_ok : ∀ q k, (q, k) ∈ saveBlocks → BlkOK q k := by
  intro q k h
  simp only [saveBlocks, List.mem_cons, List.mem_nil_iff, or_false, Prod.mk.injEq] at h
  rcases h with ⟨rfl, rfl⟩ | ⟨rfl, rfl⟩ | ⟨rfl, rfl⟩ | ⟨rfl, rfl⟩ | ⟨rfl, rfl⟩ | ⟨rfl, rfl⟩ | ⟨rfl, rfl⟩
  · exact ⟨by decide, by decide, fun env s hm he => holds_fV (asa_saved_if_completes env s hm he)⟩
  · exact ⟨by decide, by decide, fun env s hm he => holds_fV (ios_saved_if_completes env s hm he)⟩
  · exact ⟨by decide, by decide, fun env s hm he herr => holds_fV (panos_saved_if_commit_returns_nil env s hm he herr)⟩
  · exact ⟨by decide, by decide, fun env s hm he =>
      ⟨by simp [fT], by simp [fT], by simp [fT], fun _ _ => scp_confirmed_if_completes "iptables" env s hm he, by simp [fT], by simp [fT]⟩⟩
  · exact ⟨by decide, by decide, fun env s hm he =>
      ⟨by simp [fR], by simp [fR], fun _ _ => scp_confirmed_if_completes "routing" env s hm he, by simp [fR], by simp [fR], by simp [fR]⟩⟩
  · refine ⟨by decide, by decide, fun env s hm _ => ⟨by simp [fC], by simp [fC], by simp [fC], by simp [fC], fun _ => ?_, by simp [fC]⟩⟩
    unfold ChangedLogged
    by_cases hc : (!s.plan.isEmpty || s.ipt) = true
    · simp [exec, hm, evalCond, hc]
    · simp [exec, hm, evalCond, hc]
  · refine ⟨by decide, by decide, fun env s hm _ => ⟨by simp [fM], by simp [fM], by simp [fM], by simp [fM], by simp [fM], fun _ _ => ?_⟩⟩
    have := cs_console_cmd_txt "cmd" ["_"] (.lit "mv -f /etc/network/packet-filter.new /etc/network/packet-filter")
      (linuxCheck .change ;; .ite .joined "$v.2 != \"\"" (linuxCheck .change) .skip ;;
       GetCmdOutput .probe (.lit "echo $?") ["echo $?"] ;;
       .ite (.not (.flag .status0)) "$r.conn.GetCmdOutput(\"echo $?\") != \"0\\n\""
         (.abort ["%s failed (exit status)", "_"]) .skip) (by decide) env s hm
    rw [show exec (linuxCmd .change (.lit "mv -f /etc/network/packet-filter.new /etc/network/packet-filter") ["_"]) env s
        = exec (.call "cmd" ["_"] (Send .change (.lit "mv -f /etc/network/packet-filter.new /etc/network/packet-filter") ;;
            (linuxCheck .change ;; .ite .joined "$v.2 != \"\"" (linuxCheck .change) .skip ;;
             GetCmdOutput .probe (.lit "echo $?") ["echo $?"] ;;
             .ite (.not (.flag .status0)) "$r.conn.GetCmdOutput(\"echo $?\") != \"0\\n\""
               (.abort ["%s failed (exit status)", "_"]) .skip))) env s from rfl, this]
    simp [Txt.lines]

theorem lookupBlk_ok {p : Sess} {k : Blk} (h : lookupBlk p = some k) : BlkOK p k := by
  simp only [lookupBlk, Option.map_eq_some_iff] at h
  obtain ⟨x, hx, rfl⟩ := h
  have hmem := List.mem_of_find?_eq_some hx
  have hp := List.find?_some hx
  simp only [beq_iff_eq] at hp
  obtain ⟨q, k⟩ := x
  simp only at hp
  subst hp
  exact saveBlocks_ok _ _ hmem

/-- the loops over the change script: ending in normal mode means everything was sent -/
theorem sendLoops_ok : ∀ q ∈ sendLoops, ∀ env s, s.mode = .run → (exec q env s).mode = .run →
    Holds fS (exec q env s) := by
  intro q hq env s hm he
  have key : ∀ (h : (exec q env s).plan = s.plan),
      (∃ new, changeSends (exec q env s).tr = changeSends s.tr ++ new ∧ s.plan.Sublist new) → Holds fS (exec q env s) := by
    intro hp ⟨new, hc, hsub⟩
    refine ⟨fun _ => ?_, by simp [fS], by simp [fS], by simp [fS], by simp [fS], by simp [fS]⟩
    unfold SentAll
    rw [hp, hc]
    exact hsub.trans (List.sublist_append_right _ _)
  simp only [sendLoops, List.mem_cons, List.mem_nil_iff, or_false] at hq
  rcases hq with rfl | rfl | rfl | rfl | rfl
  · exact key (exec_stable _ (by decide) env s).1 ⟨_, foreach_sends_all_asa env s hm he, List.Sublist.refl _⟩
  · exact key (exec_stable _ (by decide) env s).1 ⟨_, foreach_sends_all_ios env s hm he, List.Sublist.refl _⟩
  · exact key (exec_stable _ (by decide) env s).1 ⟨_, foreach_sends_all_linux env s hm he, List.Sublist.refl _⟩
  · exact key (exec_stable _ (by decide) env s).1 ⟨_, foreach_sends_all_nsx env s hm he, List.Sublist.refl _⟩
  · exact key (exec_stable _ (by decide) env s).1 (foreach_sends_all_panos env s hm he)


/-! ## soundness of the analysis -/

theorem Holds.moved {f : Facts} (s s' : St) (h : Holds f s) (ht : s'.tr = s.tr) (hp : s'.plan = s.plan)
    (hi : s'.ipt = s.ipt) : Holds f s' :=
  h.stable ⟨hp, hi, [], by simp [ht]⟩


/-- the claim about one execution -/
def Post (r : Res) (s' : St) : Prop := (s'.mode = .run → Sat r.run s') ∧ (s'.mode = .ret → Sat r.ret s')

theorem Post.of_run {r : Res} {s' : St} (hm : s'.mode = .run) (h : Sat r.run s') : Post r s' :=
  ⟨fun _ => h, fun h' => by rw [hm] at h'; cases h'⟩

theorem Post.of_other {r : Res} {s' : St} (h1 : s'.mode ≠ .run) (h2 : s'.mode ≠ .ret) : Post r s' :=
  ⟨fun h => absurd h h1, fun h => absurd h h2⟩

theorem blk_post (q : Sess) (k : Blk) (hk : BlkOK q k) (a : AS) (env : Env) (s : St) (hm : s.mode = .run) (ha : Sat a s) :
    Post (k.res a) (exec q env s) := by
  have hx := exec_stable q hk.nsp env s
  have hnr := noRet_mode q hk.nret env s (by rw [hm]; decide)
  refine ⟨fun hr => ?_, fun hr => absurd hr hnr⟩
  have hkill := ha.killed.stable hx
  cases k with
  | gainRun x =>
    exact (Sat.of_holds hkill).gain (hk.est env s hm hr)
  | gainF0 x =>
    exact ⟨fun e => hkill.join (hk.est env s hm hr e), fun _ => hkill⟩

theorem iter_post (f : St → St) (g : Facts) (R : AS)
    (hf : ∀ st, st.mode = .run → Holds g st → SExt st (f st) ∧ ((f st).mode = .ret → Sat R (f st))) :
    ∀ (n : Nat) (st : St), st.mode = .run → Holds g st →
      (iter n f st).mode ≠ .run ∧ ((iter n f st).mode = .ret → Sat R (iter n f st)) := by
  intro n
  induction n with
  | zero => intro st hm _; simp [iter, hm]
  | succ n ih =>
    intro st hm hg
    obtain ⟨hx, hr⟩ := hf st hm hg
    simp only [iter, hm, if_true]
    split
    · exact ih { f st with mode := Mode.run } rfl
        (Holds.stable (s' := { f st with mode := Mode.run }) ⟨rfl, rfl, [], by simp⟩ (hg.stable hx))
    · rename_i hrun; exact ih _ hrun (hg.stable hx)
    · rename_i h1 h2; exact ⟨h2, hr⟩

theorem ana_sound (sim cmp : Bool) (p : Sess) :
    ∀ (a : AS) (env : Env) (s : St), env.simulated = sim → env.compare = cmp → s.mode = .run → Sat a s →
      Post (ana sim cmp p a) (exec p env s) := by
  induction p with
  | skip => intro a env s _ _ hm ha; simp only [exec, ana]; exact Post.of_run hm ha
  | send ρ t =>
    intro a env s _ _ hm ha
    simp only [exec, hm, if_true, ana]
    exact Post.of_run rfl (ha.stable_errv ⟨rfl, rfl, _, rfl⟩ rfl)
  | warn l =>
    intro a env s _ _ hm ha
    simp only [exec, hm, if_true, ana]
    exact Post.of_run rfl (ha.stable_errv ⟨rfl, rfl, _, rfl⟩ rfl)
  | mark e =>
    intro a env s _ _ hm ha
    simp only [exec, hm, if_true, ana]
    exact Post.of_run rfl (ha.stable_errv ⟨rfl, rfl, _, rfl⟩ rfl)
  | setCtr n =>
    intro a env s _ _ hm ha
    simp only [exec, hm, if_true, ana]
    exact Post.of_run rfl (ha.congr rfl rfl rfl rfl)
  | decCtr =>
    intro a env s _ _ hm ha
    simp only [exec, hm, if_true, ana]
    exact Post.of_run rfl (ha.congr rfl rfl rfl rfl)
  | assumeBanner =>
    intro a env s _ _ hm ha
    simp only [exec, hm, if_true, ana]
    exact Post.of_run rfl (ha.congr rfl rfl rfl rfl)
  | setPlan =>
    intro a env s _ _ hm ha
    simp only [exec, hm, if_true, ana]
    exact Post.of_run rfl (Sat.bot _)
  | abort l =>
    intro a env s _ _ hm ha
    simp only [exec, hm, if_true, ana]
    exact ⟨fun h => (by cases h), fun h => (by cases h)⟩
  | cont =>
    intro a env s _ _ hm ha
    simp only [exec, hm, if_true, ana]
    exact ⟨fun h => (by cases h), fun h => (by cases h)⟩
  | recv ρ p =>
    intro a env s _ _ hm ha
    have hx := exec_stable (.recv ρ p) rfl env s
    have hmode : (exec (.recv ρ p) env s).mode = .run := by simp only [exec, hm, if_true]; rw [recvLoop_mode]; exact hm
    simp only [ana]
    exact Post.of_run hmode (ha.kill_stable hx)
  | recvMore p =>
    intro a env s _ _ hm ha
    simp only [exec, hm, if_true, ana]
    exact Post.of_run rfl (ha.kill_stable ⟨rfl, rfl, [], by simp⟩)
  | roundTrip ρ t r =>
    intro a env s _ _ hm ha
    have hx := exec_stable (.roundTrip ρ t r) rfl env s
    have hmode : (exec (.roundTrip ρ t r) env s).mode = .run := by
      simp only [exec, hm, if_true]
      split <;> simp [recvLoop_mode]
    simp only [ana]
    exact Post.of_run hmode (ha.kill_stable hx)
  | ret v l =>
    intro a env s _ _ hm ha
    cases v with
    | nil =>
      simp only [exec, hm, if_true, ana]
      exact ⟨fun h => (by cases h), fun _ => ⟨fun _ => Holds.moved s _ ha.killed rfl rfl rfl, fun e => (by cases e)⟩⟩
    | err =>
      simp only [exec, hm, if_true, ana]
      exact ⟨fun h => (by cases h), fun _ => ⟨fun e => (by cases e), fun _ => Holds.moved s _ ha.killed rfl rfl rfl⟩⟩
    | none =>
      simp only [exec, hm, if_true, ana]
      exact ⟨fun h => (by cases h), fun _ => ha.congr rfl rfl rfl rfl⟩
    | keep =>
      simp only [exec, hm, if_true, ana]
      exact ⟨fun h => (by cases h), fun _ => ha.congr rfl rfl rfl rfl⟩
  | ite c l t e iht ihe =>
    intro a env s hs hc hm ha
    simp only [ana]
    split
    · rename_i k hk
      exact blk_post _ k (lookupBlk_ok hk) a env s hm ha
    have hsp := split_sound sim cmp env hs hc s c a ha
    simp only [exec, hm, if_true]
    by_cases hcond : evalCond c env s = true
    · obtain ⟨x, hx, hsat⟩ := hsp.1 hcond
      have := iht x env s hs hc hm hsat
      simp only [hcond, if_true, hx]
      exact ⟨fun h => (this.1 h).meet_left, fun h => (this.2 h).meet_left⟩
    · have hcf : evalCond c env s = false := by simpa using hcond
      obtain ⟨x, hx, hsat⟩ := hsp.2 hcf
      have := ihe x env s hs hc hm hsat
      simp only [hcf, Bool.false_eq_true, if_false, hx]
      exact ⟨fun h => (this.1 h).meet_right, fun h => (this.2 h).meet_right⟩
  | seq x y ihx ihy =>
    intro a env s hs hc hm ha
    simp only [ana]
    split
    · rename_i k hk
      exact blk_post _ k (lookupBlk_ok hk) a env s hm ha
    · have h1 := ihx a env s hs hc hm ha
      simp only [exec]
      by_cases hm1 : (exec x env s).mode = .run
      · have h2 := ihy _ env _ hs hc hm1 (h1.1 hm1)
        exact ⟨h2.1, fun h => (h2.2 h).meet_right⟩
      · rw [exec_nonrun _ _ _ hm1]
        exact ⟨fun h => absurd h hm1, fun h => (h1.2 h).meet_left⟩
  | forEach b ih =>
    intro a env s hs hc hm ha
    simp only [ana]
    split
    · rename_i hnsp
      have hg : Holds (a.f0.meet a.f1) s := ha.killed
      -- every round starts in a state where the error-insensitive facts hold
      have key : ∀ (l : List (List String)) (st : St),
          (st.mode = .run → Holds (a.f0.meet a.f1) st) → (st.mode = .ret → Sat (ana sim cmp b a.kill).ret st) →
          (let r := each (fun pk st => exec b { env with cur := pk } st) l st
           (r.mode = .run → Holds (a.f0.meet a.f1) r) ∧ (r.mode = .ret → Sat (ana sim cmp b a.kill).ret r)) := by
        intro l
        induction l with
        | nil => intro st h1 h2; exact ⟨h1, h2⟩
        | cons pk rest ihl =>
          intro st h1 h2
          simp only [each]
          by_cases hst : st.mode = .run
          · have hb := ih a.kill { env with cur := pk } st hs hc hst (Sat.of_holds (h1 hst))
            have hx := exec_stable b hnsp { env with cur := pk } st
            exact ihl _ (fun _ => (h1 hst).stable hx) hb.2
          · rw [exec_nonrun _ _ _ hst]
            exact ihl st h1 h2
      have hfin := key s.plan s (fun _ => hg) (fun h => (by rw [hm] at h; cases h))
      have hexec : exec (.forEach b) env s = each (fun pk st => exec b { env with cur := pk } st) s.plan s :=
        exec_forEach b env s hm
      rw [hexec]
      refine ⟨fun hr => ?_, hfin.2⟩
      split
      · rename_i hloop
        have hS := sendLoops_ok _ (by simpa using hloop) env s hm (by rw [hexec]; exact hr)
        rw [hexec] at hS
        exact (Sat.of_holds (hfin.1 hr)).gain hS
      · exact Sat.of_holds (hfin.1 hr)
    · exact ⟨fun _ => Sat.bot _, fun _ => Sat.bot _⟩
  | loopN n b ih =>
    intro a env s hs hc hm ha
    simp only [ana]
    split
    · rename_i hnsp
      have := iter_post (exec b env) (a.f0.meet a.f1) (ana sim cmp b a.kill).ret
        (fun st hst hg => ⟨exec_stable b hnsp env st, (ih a.kill env st hs hc hst (Sat.of_holds hg)).2⟩) n s hm ha.killed
      simp only [exec]
      exact ⟨fun h => absurd h this.1, this.2⟩
    · exact ⟨fun _ => Sat.bot _, fun _ => Sat.bot _⟩
  | loopFuel b ih =>
    intro a env s hs hc hm ha
    simp only [ana]
    split
    · rename_i hnsp
      have := iter_post (exec b env) (a.f0.meet a.f1) (ana sim cmp b a.kill).ret
        (fun st hst hg => ⟨exec_stable b hnsp env st, (ih a.kill env st hs hc hst (Sat.of_holds hg)).2⟩) env.fuel s hm ha.killed
      simp only [exec]
      exact ⟨fun h => absurd h this.1, this.2⟩
    · exact ⟨fun _ => Sat.bot _, fun _ => Sat.bot _⟩
  | call n l b ih =>
    intro a env s hs hc hm ha
    simp only [ana]
    split
    · rename_i k hk
      exact blk_post _ k (lookupBlk_ok hk) a env s hm ha
    · have h1 := ih a env s hs hc hm ha
      simp only [exec, hm, if_true]
      split
      · rename_i hr
        refine ⟨fun _ => ?_, fun h => (by cases h)⟩
        show Sat ((ana sim cmp b a).run.meet (ana sim cmp b a).ret) _
        exact Sat.meet_right ((h1.2 hr).congr rfl rfl rfl rfl)
      · rename_i hr
        exact ⟨fun h => (h1.1 h).meet_left, fun h => absurd h hr⟩
  | defer c b _ ihb =>
    intro a env s hs hc hm ha
    simp only [ana]
    split
    · rename_i hcond
      simp only [Bool.and_eq_true] at hcond
      have h1 := ihb a env s hs hc hm ha
      simp only [exec, hm, if_true]
      split
      · rename_i hd
        exact Post.of_other (by rw [hd]; decide) (by rw [hd]; decide)
      · have hx := exec_stable c hcond.1 env { exec b env s with mode := Mode.run }
        have hnr := noRet_mode c hcond.2 env { exec b env s with mode := Mode.run } (by simp)
        split
        · -- the clean-up ran through: the mode of the body is restored
          refine ⟨fun hr => ?_, fun hr => ?_⟩
          · have hk := (h1.1 hr).killed
            have h2 := Holds.stable hx (Holds.moved (exec b env s) { exec b env s with mode := Mode.run } hk rfl rfl rfl)
            exact Sat.of_holds (Holds.moved _ _ h2 rfl rfl rfl)
          · have hk := (h1.2 hr).killed
            have h2 := Holds.stable hx (Holds.moved (exec b env s) { exec b env s with mode := Mode.run } hk rfl rfl rfl)
            exact Sat.of_holds (Holds.moved _ _ h2 rfl rfl rfl)
        · rename_i hnrun
          exact Post.of_other hnrun hnr
    · exact ⟨fun _ => Sat.bot _, fun _ => Sat.bot _⟩
  | scope x b ih =>
    intro a env s hs hc hm ha
    simp only [exec, ana]
    exact ih a env s hs hc hm ha
  | «when» c b ih =>
    intro a env s hs hc hm ha
    have hsp := split_sound sim cmp env hs hc s c a ha
    simp only [exec, hm, if_true, ana]
    by_cases hcond : evalCond c env s = true
    · obtain ⟨x, hx, hsat⟩ := hsp.1 hcond
      have := ih x env s hs hc hm hsat
      simp only [hcond, if_true, hx]
      exact ⟨fun h => (this.1 h).meet_left, this.2⟩
    · have hcf : evalCond c env s = false := by simpa using hcond
      obtain ⟨x, hx, hsat⟩ := hsp.2 hcf
      simp only [hcf, Bool.false_eq_true, if_false, hx, Option.getD_some]
      exact ⟨fun _ => hsat.meet_right, fun h => (by rw [hm] at h; cases h)⟩

end NA.C09
