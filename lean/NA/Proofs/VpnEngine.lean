import NA.Model.CryptoMapEngine
/-!
Engine-level facts: what one `diffCmds` call for a matched crypto map entry can print (every
`crypto map NAME SEQ …` line is addressed to the device's name and sequence number), soundness of the
reuse of transform-sets found on the device, existence of an equal line when both entries carry the
same key.
-/
namespace NA.Vpn

/-! ## "st' = st plus some emitted lines with property P" -/

def Emits (P : Chg → Prop) (st st' : St) : Prop := ∃ e, st'.out = st.out ++ e ∧ ∀ c ∈ e, P c

theorem Emits.refl (P : Chg → Prop) (st : St) : Emits P st st := ⟨[], by simp, by intro c h; cases h⟩

theorem Emits.of_out_eq {P : Chg → Prop} {st st' : St} (h : st'.out = st.out) : Emits P st st' :=
  ⟨[], by simp [h], by intro c h; cases h⟩

theorem Emits.trans {P : Chg → Prop} {s1 s2 s3 : St} (h1 : Emits P s1 s2) (h2 : Emits P s2 s3) : Emits P s1 s3 := by
  obtain ⟨e1, h11, h12⟩ := h1
  obtain ⟨e2, h21, h22⟩ := h2
  refine ⟨e1 ++ e2, by rw [h21, h11, List.append_assoc], ?_⟩
  intro c hc
  rcases List.mem_append.1 hc with h | h
  · exact h12 c h
  · exact h22 c h

theorem Emits.mono {P Q : Chg → Prop} {s1 s2 : St} (hpq : ∀ c, P c → Q c) (h : Emits P s1 s2) : Emits Q s1 s2 := by
  obtain ⟨e, h1, h2⟩ := h
  exact ⟨e, h1, fun c hc => hpq c (h2 c hc)⟩

theorem Emits.emit {P : Chg → Prop} (st : St) (c : Chg) (h : P c) : Emits P st (st.emit c) :=
  ⟨[c], rfl, by intro c' hc'; cases hc' with | head => exact h | tail _ h' => cases h'⟩

theorem Emits.foldl {α : Type} {P : Chg → Prop} (f : St → α → St) (h : ∀ st x, Emits P st (f st x)) :
    ∀ (l : List α) (st : St), Emits P st (l.foldl f st)
  | [], st => Emits.refl P st
  | x :: xs, st => (h st x).trans (Emits.foldl f h xs (f st x))

theorem Emits.foldl_mem {α : Type} {P : Chg → Prop} (f : St → α → St) :
    ∀ (l : List α), (∀ st x, x ∈ l → Emits P st (f st x)) → ∀ (st : St), Emits P st (l.foldl f st)
  | [], _, st => Emits.refl P st
  | x :: xs, h, st =>
    (h st x List.mem_cons_self).trans
      (Emits.foldl_mem f xs (fun st y hy => h st y (List.mem_cons_of_mem _ hy)) (f st x))

/-! ## transform-sets -/

def IsTS : Chg → Prop
  | .ts _ _ _ => True
  | _ => False

theorem addTS_emits (st : St) (b : String) : Emits IsTS st (addTS st b) := by
  unfold addTS
  cases st.bts.find? (fun t => t.name == b) with
  | none => exact Emits.refl _ _
  | some t =>
    simp only
    by_cases hr : t.ready = true
    · simp [hr]; exact Emits.refl _ _
    · simp only [hr]
      cases findSimple (st.modBTS b fun t => { t with ready := true }).ats t.content with
      | some n => exact Emits.of_out_eq rfl
      | none => exact (Emits.of_out_eq (st' := st.modBTS b fun t => { t with ready := true }) rfl).trans (Emits.emit _ _ trivial)

theorem diffTS_emits (st : St) (a b : String) : Emits IsTS st (diffTS st a b).1 := by
  unfold diffTS
  cases st.ats.find? (fun t => t.name == a) with
  | none => exact Emits.refl _ _
  | some ta =>
    cases st.bts.find? (fun t => t.name == b) with
    | none => exact Emits.refl _ _
    | some tb =>
      simp only
      by_cases h1 : ta.needed = true
      · simp only [h1, if_true]; exact addTS_emits st b
      · simp only [h1]
        by_cases h2 : tb.ready = true
        · simp only [h2, if_true]; exact Emits.refl _ _
        · simp only [h2]
          by_cases h3 : (ta.content == tb.content) = true
          · simp only [h3, if_true]; exact Emits.of_out_eq rfl
          · simp only [h3]
            cases findSimple (st.modATS a fun t => { t with toDelete := true }).ats tb.content with
            | some n => exact Emits.of_out_eq rfl
            | none =>
              exact (Emits.of_out_eq (st' := st.modATS a fun t => { t with toDelete := true }) rfl).trans (addTS_emits _ b)

/-- A transform-set found on the device has the content asked for. -/
theorem findSimple_sound (ats : List DevTS) (content n : String) (h : findSimple ats content = some n) :
    ∃ t ∈ ats, t.name = n ∧ t.content = content := by
  unfold findSimple at h
  have hp := List.find?_some h
  cases hf : ats.find? (fun t => t.name == n) with
  | none => simp [hf] at hp
  | some t =>
    simp only [hf] at hp
    refine ⟨t, List.mem_of_find?_eq_some hf, ?_, by simpa using hp⟩
    have := List.find?_some hf
    simpa using this

/-! ## crypto map lines -/

/-- the command addresses entry (name `n`, sequence number `s`), or is no `crypto map NAME SEQ` line -/
def AddrOK (n : String) (s : Int) : Chg → Prop
  | .add c _ => c.name = n ∧ c.seq = s
  | .del c _ => c.name = n ∧ c.seq = s
  | _ => True

theorem IsTS.addrOK {n : String} {s : Int} : ∀ c, IsTS c → AddrOK n s c
  | .ts _ _ _, _ => trivial
  | .add _ _, h => by cases h
  | .del _ _, h => by cases h
  | .bind _ _ _, h => by cases h

theorem addOne_emits (st : St) (m : String) (n : String) (s : Int) (id : Nat) :
    Emits (AddrOK n s) st (addOne st m (some (n, s)) id) := by
  unfold addOne
  cases st.bCmd m id with
  | none => exact Emits.refl _ _
  | some b =>
    simp only
    refine Emits.trans (Emits.mono IsTS.addrOK (Emits.foldl addTS addTS_emits b.c.refs st)) ?_
    exact Emits.emit _ _ ⟨rfl, rfl⟩

theorem addEntry_emits (st : St) (m : String) (ids : List Nat) (n : String) (s : Int) :
    Emits (AddrOK n s) st (addEntry st m ids (some (n, s))) := by
  unfold addEntry
  cases ids with
  | nil => exact Emits.refl _ _
  | cons i0 is =>
    simp only
    cases st.bCmd m i0 with
    | none => exact Emits.refl _ _
    | some b0 =>
      simp only
      by_cases hr : b0.ready = true
      · simp [hr]; exact Emits.refl _ _
      · simp only [hr]
        exact (Emits.of_out_eq (st' := st.modB m i0 fun b => { b with ready := true }) rfl).trans
          (Emits.foldl _ (fun st i => addOne_emits st m n s i) _ _)

theorem foldl_out {α : Type} (f : St → α → St) (h : ∀ st x, (f st x).out = st.out) :
    ∀ (l : List α) (st : St), (l.foldl f st).out = st.out
  | [], _ => rfl
  | x :: xs, st => by rw [List.foldl_cons, foldl_out f h xs, h]

theorem Emits.of_foldl_out {α : Type} {P : Chg → Prop} (f : St → α → St) (h : ∀ st x, (f st x).out = st.out)
    (l : List α) (st : St) : Emits P st (l.foldl f st) := Emits.of_out_eq (foldl_out f h l st)

theorem markDelA_out (st : St) (m : String) (ids : List Nat) : (markDelA st m ids).out = st.out := by
  unfold markDelA
  apply foldl_out
  intro st i
  cases st.aCmd m i with
  | none => rfl
  | some a =>
    simp only
    cases a.toDelete with
    | true => rfl
    | false =>
      simp only [Bool.false_eq_true, if_false]
      rw [foldl_out]
      · rfl
      · intro st r; rfl

theorem delOne_emits (st : St) (m : String) (a0 : ACmd) :
    Emits (AddrOK a0.c.name a0.c.seq) st (delOne st m a0) := by
  unfold delOne
  cases st.aCmd m a0.c.id with
  | none => exact Emits.refl _ _
  | some a =>
    simp only
    by_cases hn : a.needed = true
    · simp [hn]; exact Emits.refl _ _
    · simp only [hn]
      exact (Emits.of_out_eq (st' := st.modA m a0.c.id fun a => { a with needed := true }) rfl).trans
        (Emits.emit _ _ ⟨rfl, rfl⟩)

theorem makeEqualOne_emits (st : St) (ma mb : String) (a : ACmd) (ib : Nat) :
    Emits (AddrOK a.c.name a.c.seq) st (makeEqualOne st ma mb a ib) := by
  unfold makeEqualOne
  cases st.bCmd mb ib with
  | none => exact Emits.refl _ _
  | some b =>
    simp only
    generalize hst1 : ((st.modA ma a.c.id fun x => { x with needed := true }).modB mb ib fun x =>
      { x with ready := true, c := { x.c with name := a.c.name, seq := a.c.seq } }) = st1
    have h01 : Emits (AddrOK a.c.name a.c.seq) st st1 := Emits.of_out_eq (by rw [← hst1]; rfl)
    -- the fold over the references only prints transform-set lines
    have hfold : ∀ (l : List (String × String)) (acc : St × Bool),
        Emits (AddrOK a.c.name a.c.seq) acc.1
          (l.foldl (fun (acc : St × Bool) p => ((diffTS acc.1 p.1 p.2).1, acc.2 || (diffTS acc.1 p.1 p.2).2 != p.1)) acc).1 := by
      intro l
      induction l with
      | nil => intro acc; exact Emits.refl _ _
      | cons p ps ih =>
        intro acc
        rw [List.foldl_cons]
        exact (Emits.mono IsTS.addrOK (diffTS_emits acc.1 p.1 p.2)).trans (ih _)
    have h12 := hfold (a.c.refs.zip b.c.refs) (st1, false)
    refine h01.trans ?_
    generalize ((a.c.refs.zip b.c.refs).foldl (fun (acc : St × Bool) p =>
      ((diffTS acc.1 p.1 p.2).1, acc.2 || (diffTS acc.1 p.1 p.2).2 != p.1)) (st1, false)) = r at h12 ⊢
    refine h12.trans ?_
    by_cases hr : r.2 = true
    · simp only [hr, if_true]
      by_cases hk : (a.c.key.startsWith "set ikev") = true
      · simp only [hk, if_true]
        exact (Emits.emit _ _ ⟨rfl, rfl⟩).trans (Emits.emit _ _ ⟨rfl, rfl⟩)
      · simp only [hk]
        exact Emits.emit _ _ ⟨rfl, rfl⟩
    · simp only [hr]
      exact Emits.refl _ _

/-- **What `diffCmds` prints for a crypto map entry of the device that is compared with a target entry.**
`aL` = the device entry's commands (all with the device's name `n` and sequence number `s`, the first not
`needed`), and the unordered diff finds an equal line (for entries matched by peer: the `set peer` line).
Then every `crypto map NAME SEQ …` / `no crypto map NAME SEQ …` line printed by this call carries `n` and `s`
— whatever name and sequence number the target's commands had. -/
theorem diffEntry_addresses_device (st : St) (ma mb : String) (aIds bIds : List Nat) (a0 : ACmd) (rest : List ACmd)
    (hA : aIds.filterMap (st.aCmd ma) = a0 :: rest)
    (hsame : ∀ a ∈ a0 :: rest, a.c.name = a0.c.name ∧ a.c.seq = a0.c.seq)
    (hn : a0.needed = false)
    (hEq : (unorderedA ((bIds.filterMap (st.bCmd mb)).map (·.c.key)) ((a0 :: rest).map (·.c.key)) 0 []).1.isEmpty = false) :
    Emits (AddrOK a0.c.name a0.c.seq) st (diffEntry st ma mb aIds bIds) := by
  unfold diffEntry
  simp only [hA, hn, Bool.false_eq_true, if_false]
  cases firstReady (bIds.filterMap (st.bCmd mb)) with
  | true => exact Emits.refl _ _
  | false =>
    rw [hEq]
    simp only [Bool.false_eq_true, if_false]
    -- adoption, deletes, equal pairs, inserts
    refine Emits.trans ?_ (Emits.foldl _ (fun st run => addEntry_emits st mb _ a0.c.name a0.c.seq) _ _)
    refine Emits.trans ?_ (Emits.foldl_mem _ _ ?_ _)
    · refine Emits.trans ?_ (Emits.of_out_eq (markDelA_out _ _ _))
      refine Emits.trans ?_ (Emits.foldl_mem _ _ ?_ _)
      · apply Emits.of_foldl_out
        intro st j; rfl
      intro st' a ha
      have hmem : a ∈ a0 :: rest := by
        obtain ⟨i, _, hi⟩ := List.mem_filterMap.1 ha
        exact List.mem_of_getElem? hi
      have := hsame a hmem
      rw [← this.1, ← this.2]
      exact delOne_emits st' ma a
    · intro st' p hp
      obtain ⟨q, _, hq⟩ := List.mem_filterMap.1 hp
      cases hg : (a0 :: rest)[q.1]? with
      | none => simp [hg] at hq
      | some a =>
        simp only [hg, Option.map_some] at hq
        have hmem : a ∈ a0 :: rest := List.mem_of_getElem? hg
        have := hsame a hmem
        cases hq
        rw [← this.1, ← this.2]
        exact makeEqualOne_emits st' ma mb a _

/-! ## an equal line exists when both entries carry a common key -/

theorem lastIdxFrom_isSome (k : String) : ∀ (keys : List String) (i : Nat) (acc : Option Nat),
    (acc.isSome = true ∨ k ∈ keys) → (lastIdxFrom k keys i acc).isSome = true
  | [], _, acc, h => by
    rcases h with h | h
    · exact h
    · cases h
  | x :: xs, i, acc, h => by
    unfold lastIdxFrom
    apply lastIdxFrom_isSome k xs
    by_cases hx : (x == k) = true
    · left; simp [hx]
    · rcases h with h | h
      · left; simp [hx, h]
      · right
        cases h with
        | head => simp at hx
        | tail _ h => exact h

/-- If some key of the device entry occurs among the target entry's keys, `diffUnordered` finds an equal pair. -/
theorem unorderedA_hasEq (bKeys : List String) : ∀ (aKeys : List String) (i : Nat) (used : List String),
    (∃ k ∈ aKeys, k ∈ bKeys ∧ used.contains k = false) → (unorderedA bKeys aKeys i used).1.isEmpty = false
  | [], _, _, h => by obtain ⟨k, hk, _⟩ := h; cases hk
  | x :: xs, i, used, h => by
    unfold unorderedA
    cases hm : (if used.contains x then none else lastIdx bKeys x) with
    | some j => simp
    | none =>
      simp only
      apply unorderedA_hasEq bKeys xs
      obtain ⟨k, hk, hkb, hku⟩ := h
      cases hk with
      | head =>
        rw [hku] at hm
        simp only [Bool.false_eq_true, if_false] at hm
        have := lastIdxFrom_isSome x bKeys 0 none (Or.inr hkb)
        unfold lastIdx at hm
        rw [hm] at this
        cases this
      | tail _ hk => exact ⟨k, hk, hkb, hku⟩

end NA.Vpn
