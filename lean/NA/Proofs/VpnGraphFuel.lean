import NA.Proofs.VpnGraphRefs
/-!
# The recursion bound `fuel` = 4 of the graph model is no restriction for graphs whose references respect the kind rank

`addAny`, `diffAny`, `markDel` recurse along references; the Go code recurses without a bound.  The command templates fix
the kind a reference goes to (username / tunnel-group → group-policy / aaa-server → access-list / pool), so a chain of
references has at most three objects.  Here: for graphs with that property (`Ranked`, part of `WF`) every bound above the
rank of the object gives the same result, hence the whole run is the same for every bound ≥ `fuel`.
-/
namespace NA.Vpn.G

/-- references go to kinds of strictly lower rank -/
def Ranked (objs : List Obj) : Prop := ∀ o ∈ objs, ∀ x ∈ o.refs, rk x.1 < rk o.kind

/-- decidable form -/
def Ranked.decB (objs : List Obj) : Bool := objs.all fun o => o.refs.all fun x => decide (rk x.1 < rk o.kind)

theorem ranked_of_decB (objs : List Obj) (h : Ranked.decB objs = true) : Ranked objs := by
  intro o ho x hx
  have := (List.all_eq_true.1 ((List.all_eq_true.1 h) o ho)) x hx
  simpa using this

/-- the two configurations are never changed -/
def AB (a b : List Obj) (st : St) : Prop := st.a = a ∧ st.b = b

variable {a b : List Obj}

theorem AB.emit {st : St} (h : AB a b st) (c : Chg) : AB a b (st.emit c) := h
theorem AB.setMode {st : St} (h : AB a b st) (k : Kind) (n hd : String) : AB a b (st.setMode k n hd) := by
  unfold St.setMode
  split
  · exact h
  · dsimp only
    split <;> exact h
theorem AB.markNeeded {st : St} (h : AB a b st) (r : Ref) : AB a b (st.markNeeded r) := by
  unfold St.markNeeded
  split <;> exact h
theorem AB.setReady {st : St} (h : AB a b st) (r : Ref) (n : String) : AB a b (st.setReady r n) := h

/-! ## folds -/

theorem foldl_opt_congr {α : Type} (P : St → Prop) (g g' : St → α → Option St) : ∀ (l : List α) (st : St),
    (∀ x ∈ l, ∀ st, P st → g st x = g' st x ∧ ∀ st', g st x = some st' → P st') → P st →
    l.foldl (fun (acc : Option St) x => acc.bind fun st => g st x) (some st) =
      l.foldl (fun (acc : Option St) x => acc.bind fun st => g' st x) (some st) ∧
    ∀ st', l.foldl (fun (acc : Option St) x => acc.bind fun st => g st x) (some st) = some st' → P st'
  | [], st, _, hp => ⟨rfl, by intro st' e; cases e; exact hp⟩
  | x :: xs, st, hg, hp => by
    have hx := hg x List.mem_cons_self st hp
    simp only [List.foldl_cons, Option.bind_some]
    rw [← hx.1]
    cases hgx : g st x with
    | none => simp only [foldl_opt_none]; exact ⟨trivial, by intro st' e; cases e⟩
    | some st1 =>
      exact foldl_opt_congr P g g' xs st1 (fun y hy => hg y (List.mem_cons_of_mem _ hy)) (hx.2 st1 hgx)

theorem foldl_congr {α : Type} (P : St → Prop) (g g' : St → α → St) : ∀ (l : List α) (st : St),
    (∀ x ∈ l, ∀ st, P st → g st x = g' st x ∧ P (g st x)) → P st →
    l.foldl g st = l.foldl g' st ∧ P (l.foldl g st)
  | [], _, _, hp => ⟨rfl, hp⟩
  | x :: xs, st, hg, hp => by
    have hx := hg x List.mem_cons_self st hp
    simp only [List.foldl_cons]
    rw [← hx.1]
    exact foldl_congr P g g' xs (g st x) (fun y hy => hg y (List.mem_cons_of_mem _ hy)) hx.2

/-! ## the higher-order pieces: same result for functions that agree on references of rank below `m` -/

def AddEq (a b : List Obj) (m : Nat) (add add' : St → Ref → Option St) : Prop :=
  ∀ st x, AB a b st → rk x.1 < m → add st x = add' st x ∧ ∀ st', add st x = some st' → AB a b st'
def DiffEq (a b : List Obj) (m : Nat) (diff diff' : St → Ref → Ref → Option (St × String)) : Prop :=
  ∀ st xa xb, AB a b st → rk xa.1 < m → rk xb.1 < m →
    diff st xa xb = diff' st xa xb ∧ ∀ r, diff st xa xb = some r → AB a b r.1
def MarkEq (a b : List Obj) (m : Nat) (mark mark' : St → Ref → St) : Prop :=
  ∀ st x, AB a b st → rk x.1 < m → mark st x = mark' st x ∧ AB a b (mark st x)
def SubsLt (m : Nat) (subs : List Sub) : Prop := ∀ s ∈ subs, ∀ x, s.ref = some x → rk x.1 < m

theorem SubsLt.sub {m : Nat} {l l' : List Sub} (h : SubsLt m l) (hs : ∀ s ∈ l', s ∈ l) : SubsLt m l' :=
  fun s hm x hx => h s (hs s hm) x hx

theorem followSubs_eq {add add' : St → Ref → Option St} {m : Nat} (hadd : AddEq a b m add add') (subs : List Sub)
    (hs : SubsLt m subs) (st : St) (h : AB a b st) :
    followSubs add st subs = followSubs add' st subs ∧ ∀ st', followSubs add st subs = some st' → AB a b st' := by
  unfold followSubs
  refine foldl_opt_congr (AB a b) (fun st s => match s.ref with | some x => add st x | none => some st)
    (fun st s => match s.ref with | some x => add' st x | none => some st) subs st ?_ h
  intro s hsm st hp
  cases hr : s.ref with
  | none => exact ⟨rfl, by intro st' e; cases e; exact hp⟩
  | some x => exact hadd st x hp (hs s hsm x hr)

theorem addSec_AB {st : St} (h : AB a b st) (k : Kind) (n : String) (sec : Sec) : AB a b (addSec st k n sec) := by
  unfold addSec
  exact foldl_inv (AB a b) _ sec.subs _ (fun st s _ hp => hp.emit _) h

theorem addSecs_eq {add add' : St → Ref → Option St} {m : Nat} (hadd : AddEq a b m add add') (k : Kind) (n : String)
    (secs : List Sec) (hs : ∀ sec ∈ secs, SubsLt m sec.subs) (st : St) (h : AB a b st) :
    addSecs add st k n secs = addSecs add' st k n secs ∧ ∀ st', addSecs add st k n secs = some st' → AB a b st' := by
  unfold addSecs
  refine foldl_opt_congr (AB a b) (fun st sec => (followSubs add st sec.subs).map fun st => addSec st k n sec)
    (fun st sec => (followSubs add' st sec.subs).map fun st => addSec st k n sec) secs st ?_ h
  intro sec hsec st hp
  have hf := followSubs_eq hadd sec.subs (hs sec hsec) st hp
  refine ⟨by rw [hf.1], ?_⟩
  intro st' he
  cases hfs : followSubs add st sec.subs with
  | none => rw [hfs] at he; cases he
  | some s1 =>
    rw [hfs] at he
    simp only [Option.map_some, Option.some.injEq] at he
    rw [← he]
    exact addSec_AB (hf.2 s1 hfs) k n sec

theorem addSubs_eq {add add' : St → Ref → Option St} {m : Nat} (hadd : AddEq a b m add add') (k : Kind) (n hd : String)
    (l : List Sub) (hs : SubsLt m l) (st : St) (h : AB a b st) :
    addSubs add st k n hd l = addSubs add' st k n hd l ∧ ∀ st', addSubs add st k n hd l = some st' → AB a b st' := by
  unfold addSubs
  refine foldl_opt_congr (AB a b)
    (fun st s => (match s.ref with | some x => add st x | none => some st).map fun (st : St) =>
        let st := st.setMode k n hd
        st.emit (.sub false (st.subText s) (st.subRef s) s.key s.body))
    (fun st s => (match s.ref with | some x => add' st x | none => some st).map fun (st : St) =>
        let st := st.setMode k n hd
        st.emit (.sub false (st.subText s) (st.subRef s) s.key s.body)) l st ?_ h
  intro s hsm st hp
  cases hr : s.ref with
  | none =>
    refine ⟨rfl, ?_⟩
    intro st' he
    simp only [Option.map_some, Option.some.injEq] at he
    rw [← he]
    exact (hp.setMode k n hd).emit _
  | some x =>
    have hx := hadd st x hp (hs s hsm x hr)
    refine ⟨by simp only [hx.1], ?_⟩
    intro st' he
    simp only at he
    cases ha : add st x with
    | none => rw [ha] at he; cases he
    | some s1 =>
      rw [ha] at he
      simp only [Option.map_some, Option.some.injEq] at he
      rw [← he]
      exact ((hx.2 s1 ha).setMode k n hd).emit _

theorem delSubs_eq {mark mark' : St → Ref → St} {m : Nat} (hmark : MarkEq a b m mark mark') (k : Kind) (n hd : String)
    (l : List Sub) (hs : SubsLt m l) (st : St) (h : AB a b st) :
    delSubs mark st k n hd l = delSubs mark' st k n hd l ∧ AB a b (delSubs mark st k n hd l) := by
  unfold delSubs
  have h1 : AB a b (l.foldl (fun st s => (st.setMode k n hd).emit (.sub true s.orig s.ref s.key s.body)) st) :=
    foldl_inv (AB a b) _ l st (fun st s _ hp => (hp.setMode k n hd).emit _) h
  refine foldl_congr (AB a b) mark mark' (l.filterMap (·.ref)) _ ?_ h1
  intro x hx st hp
  obtain ⟨s, hsm, hsr⟩ := List.mem_filterMap.1 hx
  exact hmark st x hp (hs s hsm x hsr)

theorem mem_of_filterMap_get {α : Type} (l : List α) (idx : List Nat) (x : α) (h : x ∈ idx.filterMap fun i => l[i]?) : x ∈ l := by
  obtain ⟨i, _, hi⟩ := List.mem_filterMap.1 h
  exact List.mem_of_getElem? hi

theorem equalSubs_eq {diff diff' : St → Ref → Ref → Option (St × String)} {m : Nat} (hdiff : DiffEq a b m diff diff')
    (k : Kind) (n hd : String) (pairs : List (Sub × Sub))
    (hs : ∀ q ∈ pairs, (∀ x, q.1.ref = some x → rk x.1 < m) ∧ (∀ x, q.2.ref = some x → rk x.1 < m)) (st : St) (h : AB a b st) :
    equalSubs diff st k n hd pairs = equalSubs diff' st k n hd pairs ∧
      ∀ st', equalSubs diff st k n hd pairs = some st' → AB a b st' := by
  unfold equalSubs
  refine foldl_opt_congr (AB a b)
    (fun st q => match q.1.ref, q.2.ref with
      | some xa, some xb =>
        (diff st xa xb).map fun r =>
          if r.2 != xa.2 then
            let st := r.1.setMode k n hd
            st.emit (.sub false (st.subText q.2) (st.subRef q.2) q.2.key q.2.body)
          else r.1
      | _, _ => some st)
    (fun st q => match q.1.ref, q.2.ref with
      | some xa, some xb =>
        (diff' st xa xb).map fun r =>
          if r.2 != xa.2 then
            let st := r.1.setMode k n hd
            st.emit (.sub false (st.subText q.2) (st.subRef q.2) q.2.key q.2.body)
          else r.1
      | _, _ => some st) pairs st ?_ h
  intro q hq st hp
  cases h1 : q.1.ref with
  | none => exact ⟨rfl, by intro st' e; cases e; exact hp⟩
  | some xa =>
    cases h2 : q.2.ref with
    | none => exact ⟨rfl, by intro st' e; cases e; exact hp⟩
    | some xb =>
      have hx := hdiff st xa xb hp ((hs q hq).1 xa h1) ((hs q hq).2 xb h2)
      refine ⟨by simp only [hx.1], ?_⟩
      intro st' he
      simp only at he
      cases hd' : diff st xa xb with
      | none => rw [hd'] at he; cases he
      | some r =>
        rw [hd'] at he
        simp only [Option.map_some, Option.some.injEq] at he
        rw [← he]
        have hr := hx.2 r hd'
        split
        · exact (hr.setMode k n hd).emit _
        · exact hr

theorem diffSubs_eq {add add' : St → Ref → Option St} {diff diff' : St → Ref → Ref → Option (St × String)}
    {mark mark' : St → Ref → St} {m : Nat}
    (hadd : AddEq a b m add add') (hdiff : DiffEq a b m diff diff') (hmark : MarkEq a b m mark mark')
    (k : Kind) (n hd : String) (sa sb : List Sub) (hsa : SubsLt m sa) (hsb : SubsLt m sb) (st : St) (h : AB a b st) :
    diffSubs add diff mark st k n hd sa sb = diffSubs add' diff' mark' st k n hd sa sb ∧
      ∀ st', diffSubs add diff mark st k n hd sa sb = some st' → AB a b st' := by
  unfold diffSubs
  split
  · exact ⟨rfl, by intro st' e; cases e; exact h⟩
  · dsimp only
    split
    · -- no sub-command in common
      have hd1 : (if sa.isEmpty = true then st else delSubs mark st k n hd sa) =
          (if sa.isEmpty = true then st else delSubs mark' st k n hd sa) ∧
          AB a b (if sa.isEmpty = true then st else delSubs mark st k n hd sa) := by
        split
        · exact ⟨rfl, h⟩
        · exact delSubs_eq hmark k n hd sa hsa st h
      rw [← hd1.1]
      split
      · exact ⟨rfl, by intro st' e; cases e; exact hd1.2⟩
      · exact addSubs_eq hadd k n hd sb hsb _ hd1.2
    · have hd1 := delSubs_eq hmark k n hd ((NA.Vpn.unorderedA (keysOf sb) (keysOf sa) 0 []).2.1.filterMap fun i => sa[i]?)
        (hsa.sub fun s hs => mem_of_filterMap_get sa _ s hs) st h
      rw [← hd1.1]
      have he1 := equalSubs_eq hdiff k n hd (pairsOf sa sb (NA.Vpn.unorderedA (keysOf sb) (keysOf sa) 0 []).1) (by
        intro q hq
        obtain ⟨p, _, hp1, hp2⟩ := mem_pairsOf sa sb _ q hq
        exact ⟨fun x hx => hsa q.1 (List.mem_of_getElem? hp1) x hx, fun x hx => hsb q.2 (List.mem_of_getElem? hp2) x hx⟩) _ hd1.2
      rw [← he1.1]
      cases hes : equalSubs diff (delSubs mark st k n hd
          ((NA.Vpn.unorderedA (keysOf sb) (keysOf sa) 0 []).2.1.filterMap fun i => sa[i]?)) k n hd
          (pairsOf sa sb (NA.Vpn.unorderedA (keysOf sb) (keysOf sa) 0 []).1) with
      | none => simp only [foldl_opt_none]; exact ⟨trivial, by intro st' e; cases e⟩
      | some s1 =>
        refine foldl_opt_congr (AB a b) (fun st (run : List Nat) => addSubs add st k n hd (run.filterMap fun j => sb[j]?))
          (fun st (run : List Nat) => addSubs add' st k n hd (run.filterMap fun j => sb[j]?)) _ s1 ?_ (he1.2 s1 hes)
        intro run _ st hp
        exact addSubs_eq hadd k n hd _ (hsb.sub fun s hs => mem_of_filterMap_get sb _ s hs) st hp

theorem delSecs_eq {mark mark' : St → Ref → St} {m : Nat} (hmark : MarkEq a b m mark mark') (k : Kind) (n : String)
    (secs : List Sec) (hs : ∀ sec ∈ secs, SubsLt m sec.subs) (st : St) (h : AB a b st) :
    delSecs mark st k n secs = delSecs mark' st k n secs ∧ AB a b (delSecs mark st k n secs) := by
  unfold delSecs
  refine foldl_congr (AB a b) _ _ secs st ?_ h
  intro sec hsec st hp
  dsimp only
  refine foldl_congr (AB a b) mark mark' (sec.subs.filterMap (·.ref)) _ ?_ ?_
  · intro x hx st hp
    obtain ⟨s, hsm, hsr⟩ := List.mem_filterMap.1 hx
    exact hmark st x hp (hs sec hsec s hsm x hsr)
  · exact hp

theorem diffSecs_eq {add add' : St → Ref → Option St} {diff diff' : St → Ref → Ref → Option (St × String)}
    {mark mark' : St → Ref → St} {m : Nat}
    (hadd : AddEq a b m add add') (hdiff : DiffEq a b m diff diff') (hmark : MarkEq a b m mark mark')
    (k : Kind) (n : String) (sa sb : List Sec) (hsa : ∀ sec ∈ sa, SubsLt m sec.subs) (hsb : ∀ sec ∈ sb, SubsLt m sec.subs)
    (u : List (Nat × Nat) × List Nat × List String) (st : St) (h : AB a b st) :
    diffSecs add diff mark st k n sa sb u = diffSecs add' diff' mark' st k n sa sb u ∧
      ∀ st', diffSecs add diff mark st k n sa sb u = some st' → AB a b st' := by
  unfold diffSecs
  dsimp only
  have hd1 := delSecs_eq hmark k n (u.2.1.filterMap fun i => sa[i]?)
    (fun sec hsec => hsa sec (mem_of_filterMap_get sa _ sec hsec)) st h
  rw [← hd1.1]
  have hf := foldl_opt_congr (AB a b) (fun st (p : Sec × Sec) => diffSubs add diff mark st k n p.2.head p.1.subs p.2.subs)
    (fun st (p : Sec × Sec) => diffSubs add' diff' mark' st k n p.2.head p.1.subs p.2.subs) (pairsOf sa sb u.1) _ (by
      intro p hp st hst
      obtain ⟨i, _, hp1, hp2⟩ := mem_pairsOf sa sb _ p hp
      exact diffSubs_eq hadd hdiff hmark k n p.2.head p.1.subs p.2.subs (hsa p.1 (List.mem_of_getElem? hp1))
        (hsb p.2 (List.mem_of_getElem? hp2)) st hst) hd1.2
  rw [← hf.1]
  cases hfs : (pairsOf sa sb u.1).foldl (fun (acc : Option St) p =>
      acc.bind fun st => diffSubs add diff mark st k n p.2.head p.1.subs p.2.subs)
      (some (delSecs mark st k n (u.2.1.filterMap fun i => sa[i]?))) with
  | none => exact ⟨rfl, by intro st' e; cases e⟩
  | some s1 =>
    simp only [Option.bind_some]
    exact addSecs_eq hadd k n _ (fun sec hsec => hsb sec (mem_of_filterMap_get sb _ sec hsec)) s1 (hf.2 s1 hfs)

/-! ## the three recursions: every bound above the rank gives the same result -/

theorem aObj_mem {st : St} (h : AB a b st) {r : Ref} {o : Obj} (ho : st.aObj r = some o) : o ∈ a ∧ o.kind = r.1 := by
  have := find_id st.a r o ho
  rw [h.1] at this
  exact ⟨this.1, by rw [← this.2]; rfl⟩

theorem bObj_mem {st : St} (h : AB a b st) {r : Ref} {o : Obj} (ho : st.bObj r = some o) : o ∈ b ∧ o.kind = r.1 := by
  have := find_id st.b r o ho
  rw [h.2] at this
  exact ⟨this.1, by rw [← this.2]; rfl⟩

theorem markDel_fuel (hra : Ranked a) : ∀ (f g : Nat) (st : St) (r : Ref), AB a b st → rk r.1 < f → rk r.1 < g →
    markDel f st r = markDel g st r ∧ AB a b (markDel f st r)
  | 0, _, _, _, _, hf, _ => by omega
  | _ + 1, 0, _, _, _, _, hg => by omega
  | f + 1, g + 1, st, r, hab, hf, hg => by
    unfold markDel
    split
    · exact ⟨rfl, hab⟩
    · cases ho : st.aObj r with
      | none => exact ⟨rfl, hab⟩
      | some o =>
        simp only
        split
        · exact ⟨rfl, hab⟩
        · have hom := aObj_mem hab ho
          refine foldl_congr (AB a b) (markDel f) (markDel g) o.refs _ ?_ ?_
          · intro x hx st hp
            have := hra o hom.1 x hx
            rw [hom.2] at this
            exact markDel_fuel hra f g st x hp (by omega) (by omega)
          · exact hab

theorem map_pair_AB {o : Option St} {F : St → St × String} (hF : ∀ s, (F s).1 = s) (h : ∀ st', o = some st' → AB a b st') :
    ∀ r, o.map F = some r → AB a b r.1 := by
  intro r he
  cases ho : o with
  | none => rw [ho] at he; cases he
  | some s1 =>
    rw [ho] at he
    simp only [Option.map_some, Option.some.injEq] at he
    rw [← he, hF]
    exact h s1 ho

theorem secs_subsLt {objs : List Obj} (hr : Ranked objs) {o : Obj} (ho : o ∈ objs) {m : Nat} (hm : rk o.kind ≤ m) :
    ∀ sec ∈ o.secs, SubsLt m sec.subs := by
  intro sec hsec s hs x hx
  have := hr o ho x (ref_mem_refs o sec s x hsec hs hx)
  omega

theorem addAny_fuel (hrb : Ranked b) : ∀ (f g : Nat) (st : St) (r : Ref), AB a b st → rk r.1 < f → rk r.1 < g →
    addAny f st r = addAny g st r ∧ ∀ st', addAny f st r = some st' → AB a b st'
  | 0, _, _, _, _, hf, _ => by omega
  | _ + 1, 0, _, _, _, _, hg => by omega
  | f + 1, g + 1, st, r, hab, hf, hg => by
    have sec : r.1 ≠ .aaa → r.1 ≠ .acl → r.1 ≠ .pool →
        (match st.bObj r with
          | none => some st
          | some o => if st.isReady r then some st else addSecs (addAny f) (st.setReady r (st.cur r)) r.1 (st.cur r) o.secs) =
        (match st.bObj r with
          | none => some st
          | some o => if st.isReady r then some st else addSecs (addAny g) (st.setReady r (st.cur r)) r.1 (st.cur r) o.secs) ∧
        ∀ st', (match st.bObj r with
          | none => some st
          | some o => if st.isReady r then some st else addSecs (addAny f) (st.setReady r (st.cur r)) r.1 (st.cur r) o.secs) = some st' →
          AB a b st' := by
      intro _ _ _
      cases ho : st.bObj r with
      | none => exact ⟨rfl, by intro st' e; cases e; exact hab⟩
      | some o =>
        dsimp only
        split
        · exact ⟨rfl, by intro st' e; cases e; exact hab⟩
        · have hom := bObj_mem hab ho
          have hadd : AddEq a b (rk r.1) (addAny f) (addAny g) := fun st x hp hx =>
            addAny_fuel hrb f g st x hp (by omega) (by omega)
          exact addSecs_eq hadd r.1 (st.cur r) o.secs (secs_subsLt hrb hom.1 (by rw [hom.2]; exact Nat.le_refl _)) _ (hab.setReady r _)
    unfold addAny
    cases hk : r.1 with
    | aaa =>
      simp only
      refine ⟨trivial, ?_⟩
      intro st' he
      split at he
      · cases he; exact (hab.markNeeded r).setReady r r.2
      · cases he
    | acl =>
      simp only
      refine ⟨trivial, ?_⟩
      intro st' he
      cases ho : st.bObj r with
      | none => rw [ho] at he; cases he; exact hab
      | some o =>
        rw [ho] at he
        dsimp only at he
        split at he
        · cases he; exact hab
        · cases he
          exact foldl_inv (AB a b) _ o.lines _ (fun st l _ hp => hp.emit _) (hab.setReady r _)
    | pool =>
      simp only
      refine ⟨trivial, ?_⟩
      intro st' he
      cases ho : st.bObj r with
      | none => rw [ho] at he; cases he; exact hab
      | some o =>
        rw [ho] at he
        dsimp only at he
        split at he
        · cases he; exact hab
        · split at he
          · cases he; exact ((hab.setReady r _).markNeeded _).setReady r _
          · cases he; exact hab
    | gp => simp only; have := sec (by rw [hk]; decide) (by rw [hk]; decide) (by rw [hk]; decide); rw [hk] at this; exact this
    | tg => simp only; have := sec (by rw [hk]; decide) (by rw [hk]; decide) (by rw [hk]; decide); rw [hk] at this; exact this
    | user => simp only; have := sec (by rw [hk]; decide) (by rw [hk]; decide) (by rw [hk]; decide); rw [hk] at this; exact this
    | certmap => simp only; have := sec (by rw [hk]; decide) (by rw [hk]; decide) (by rw [hk]; decide); rw [hk] at this; exact this

theorem addAny_pair_fuel (hrb : Ranked b) (f g : Nat) (st : St) (rb : Ref) (F : St → St × String) (hF : ∀ s, (F s).1 = s)
    (hab : AB a b st) (hf : rk rb.1 < f) (hg : rk rb.1 < g) :
    (addAny f st rb).map F = (addAny g st rb).map F ∧ ∀ r, (addAny f st rb).map F = some r → AB a b r.1 := by
  have hx := addAny_fuel hrb f g st rb hab hf hg
  exact ⟨by rw [hx.1], map_pair_AB hF hx.2⟩

theorem diffAny_fuel (hra : Ranked a) (hrb : Ranked b) : ∀ (f g : Nat) (st : St) (ra rb : Ref), AB a b st →
    rk ra.1 < f → rk rb.1 < f → rk ra.1 < g → rk rb.1 < g →
    diffAny f st ra rb = diffAny g st ra rb ∧ ∀ r, diffAny f st ra rb = some r → AB a b r.1
  | 0, _, _, _, _, _, hf, _, _, _ => by omega
  | _ + 1, 0, _, _, _, _, _, _, hg, _ => by omega
  | f + 1, g + 1, st, ra, rb, hab, hfa, hfb, hga, hgb => by
    have leaf : ∀ (oa ob : Obj) (pre : St → St)
        (last : St → Option (St × String) → Option (St × String)),
        (∀ s, AB a b s → AB a b (pre s)) →
        (∀ s o o', AB a b s → (o = o' ∧ ∀ r, o = some r → AB a b r.1) → last s o = last s o' ∧ ∀ r, last s o = some r → AB a b r.1) →
        (if st.isNeeded ra then (addAny (f + 1) st rb).map fun st => (st, st.cur rb)
          else if st.isReady rb then some (st, st.cur rb)
          else if oa.lines == ob.lines then some ((st.markNeeded ra).setReady rb ra.2, ra.2)
          else last (markDel (f + 1) (pre st) ra) ((addAny (f + 1) (markDel (f + 1) (pre st) ra) rb).map fun st => (st, st.cur rb))) =
        (if st.isNeeded ra then (addAny (g + 1) st rb).map fun st => (st, st.cur rb)
          else if st.isReady rb then some (st, st.cur rb)
          else if oa.lines == ob.lines then some ((st.markNeeded ra).setReady rb ra.2, ra.2)
          else last (markDel (g + 1) (pre st) ra) ((addAny (g + 1) (markDel (g + 1) (pre st) ra) rb).map fun st => (st, st.cur rb))) ∧
        ∀ r, (if st.isNeeded ra then (addAny (f + 1) st rb).map fun st => (st, st.cur rb)
          else if st.isReady rb then some (st, st.cur rb)
          else if oa.lines == ob.lines then some ((st.markNeeded ra).setReady rb ra.2, ra.2)
          else last (markDel (f + 1) (pre st) ra) ((addAny (f + 1) (markDel (f + 1) (pre st) ra) rb).map fun st => (st, st.cur rb))) = some r →
          AB a b r.1 := by
      intro oa ob pre last hpre hlast
      split
      · exact addAny_pair_fuel hrb _ _ st rb _ (fun _ => rfl) hab hfb hgb
      · split
        · exact ⟨rfl, by intro r e; cases e; exact hab⟩
        · split
          · exact ⟨rfl, by intro r e; cases e; exact (hab.markNeeded ra).setReady rb ra.2⟩
          · have hm := markDel_fuel (b := b) hra (f + 1) (g + 1) (pre st) ra (hpre st hab) hfa hga
            rw [← hm.1]
            exact hlast _ _ _ hm.2 (addAny_pair_fuel hrb _ _ _ rb _ (fun _ => rfl) hm.2 hfb hgb)
    unfold diffAny
    cases hoa : st.aObj ra with
    | none => exact ⟨rfl, by intro r e; cases e; exact hab⟩
    | some oa =>
      cases hob : st.bObj rb with
      | none => exact ⟨rfl, by intro r e; cases e; exact hab⟩
      | some ob =>
        simp only
        have sec : ra.1 ≠ .aaa → ra.1 ≠ .acl → ra.1 ≠ .pool →
            (if st.isNeeded ra then (addAny (f + 1) st rb).map fun st => (st, st.cur rb)
              else if st.isReady rb then some (st, st.cur rb)
              else
                let u := NA.Vpn.unorderedA (ob.secs.map (·.head)) (oa.secs.map (·.head)) 0 []
                if u.1.isEmpty then (addAny (f + 1) (markDel (f + 1) st ra) rb).map fun st => (st, st.cur rb)
                else (diffSecs (addAny f) (diffAny f) (markDel f) ((st.markNeeded ra).setReady rb ra.2) ra.1 ra.2 oa.secs ob.secs u).map
                  fun st => (st, ra.2)) =
            (if st.isNeeded ra then (addAny (g + 1) st rb).map fun st => (st, st.cur rb)
              else if st.isReady rb then some (st, st.cur rb)
              else
                let u := NA.Vpn.unorderedA (ob.secs.map (·.head)) (oa.secs.map (·.head)) 0 []
                if u.1.isEmpty then (addAny (g + 1) (markDel (g + 1) st ra) rb).map fun st => (st, st.cur rb)
                else (diffSecs (addAny g) (diffAny g) (markDel g) ((st.markNeeded ra).setReady rb ra.2) ra.1 ra.2 oa.secs ob.secs u).map
                  fun st => (st, ra.2)) ∧
            ∀ r, (if st.isNeeded ra then (addAny (f + 1) st rb).map fun st => (st, st.cur rb)
              else if st.isReady rb then some (st, st.cur rb)
              else
                let u := NA.Vpn.unorderedA (ob.secs.map (·.head)) (oa.secs.map (·.head)) 0 []
                if u.1.isEmpty then (addAny (f + 1) (markDel (f + 1) st ra) rb).map fun st => (st, st.cur rb)
                else (diffSecs (addAny f) (diffAny f) (markDel f) ((st.markNeeded ra).setReady rb ra.2) ra.1 ra.2 oa.secs ob.secs u).map
                  fun st => (st, ra.2)) = some r → AB a b r.1 := by
          intro _ _ _
          split
          · exact addAny_pair_fuel hrb _ _ st rb _ (fun _ => rfl) hab hfb hgb
          · split
            · exact ⟨rfl, by intro r e; cases e; exact hab⟩
            · dsimp only
              split
              · have hm := markDel_fuel (b := b) hra (f + 1) (g + 1) st ra hab hfa hga
                rw [← hm.1]
                exact addAny_pair_fuel hrb _ _ _ rb _ (fun _ => rfl) hm.2 hfb hgb
              · have hma := aObj_mem hab hoa
                have hmb := bObj_mem hab hob
                have hadd : AddEq a b (min f g) (addAny f) (addAny g) := fun st x hp hx =>
                  addAny_fuel hrb f g st x hp (by omega) (by omega)
                have hdiff : DiffEq a b (min f g) (diffAny f) (diffAny g) := fun st xa xb hp hxa hxb =>
                  diffAny_fuel hra hrb f g st xa xb hp (by omega) (by omega) (by omega) (by omega)
                have hmark : MarkEq a b (min f g) (markDel f) (markDel g) := fun st x hp hx =>
                  markDel_fuel hra f g st x hp (by omega) (by omega)
                have hd := diffSecs_eq hadd hdiff hmark ra.1 ra.2 oa.secs ob.secs
                  (secs_subsLt hra hma.1 (by rw [hma.2]; omega)) (secs_subsLt hrb hmb.1 (by rw [hmb.2]; omega))
                  (NA.Vpn.unorderedA (ob.secs.map (·.head)) (oa.secs.map (·.head)) 0 []) _ ((hab.markNeeded ra).setReady rb ra.2)
                rw [← hd.1]
                exact ⟨rfl, map_pair_AB (fun _ => rfl) hd.2⟩
        cases hk : ra.1 with
        | aaa =>
          simp only
          split
          · exact addAny_pair_fuel hrb _ _ st rb _ (fun _ => rfl) hab hfb hgb
          · exact ⟨rfl, by intro r e; cases e; exact (hab.markNeeded ra).setReady rb ra.2⟩
        | acl =>
          simp only
          exact leaf oa ob (fun st => if oa.lines.any (fun l => ob.lines.contains l) then { st with outside := true } else st)
            (fun _ o => o) (by intro s hs; split <;> exact hs) (by intro s o o' _ h; exact ⟨h.1, h.2⟩)
        | pool =>
          simp only
          exact leaf oa ob (fun st => st)
            (fun s o => match findPool s (ob.lines.headD "") with
              | some dn => some ((s.markNeeded (.pool, dn)).setReady rb dn, dn)
              | none => o) (fun s hs => hs) (by
              intro s o o' hs h
              split
              · exact ⟨rfl, by intro r e; cases e; exact (hs.markNeeded _).setReady rb _⟩
              · exact ⟨h.1, h.2⟩)
        | gp => simp only; have := sec (by rw [hk]; decide) (by rw [hk]; decide) (by rw [hk]; decide); rw [hk] at this; exact this
        | tg => simp only; have := sec (by rw [hk]; decide) (by rw [hk]; decide) (by rw [hk]; decide); rw [hk] at this; exact this
        | user => simp only; have := sec (by rw [hk]; decide) (by rw [hk]; decide) (by rw [hk]; decide); rw [hk] at this; exact this
        | certmap => simp only; have := sec (by rw [hk]; decide) (by rw [hk]; decide) (by rw [hk]; decide); rw [hk] at this; exact this

/-! ## the run with an explicit bound -/

def diffAnchorsF (f : Nat) (st : St) (k : Kind) : Option St :=
  let aN := sortS ((st.a.filter fun o => o.kind == k && o.anchor).map (·.name))
  let bN := sortS ((st.b.filter fun o => o.kind == k && o.anchor).map (·.name))
  let st? := aN.foldl (fun (acc : Option St) n =>
    acc.bind fun st =>
      if bN.contains n then (diffAny f st (k, n) (k, n)).map (·.1)
      else some (markDel f st (k, n))) (some st)
  bN.foldl (fun (acc : Option St) n =>
    acc.bind fun st => if aN.contains n then some st else addAny f st (k, n)) st?

def stillSetF (f : Nat) (st : St) : List Ref :=
  (st.a.filter fun o => !st.isNeeded o.id && !eligible st o).foldl (fun acc o => stillFrom f st acc o.id) []

def pendingDelF (f : Nat) (st : St) : List DelObj :=
  ((st.a.filter fun o => eligible st o && !(stillSetF f st).contains o.id).map fun o =>
    ({ id := o.id, lines := delLines o, refs := o.refs } : DelObj)).foldr insertD []

def deleteUnusedF (f : Nat) (st : St) : St :=
  let objs := pendingDelF f st
  let st := if !objs.isEmpty && st.mode.isSome then st.emit .exit else st
  { st with out := st.out ++ delRounds (objs.length + 1) objs, mode := if objs.isEmpty then st.mode else none }

/-- the model with recursion bound `f` everywhere -/
def runF (f : Nat) (a b : List Obj) : Option St :=
  ((diffAnchorsF f (initSt a b) .tg).bind fun st => diffAnchorsF f st .user).map (deleteUnusedF f)

def engineF (f : Nat) (a b : List Obj) : Option (List Chg) := (runF f a b).map (·.out)

theorem runF_fuel (a b : List Obj) : runF fuel a b = run a b := rfl

theorem rk_le_two (k : Kind) : rk k ≤ 2 := by cases k <;> decide

theorem diffAnchorsF_eq (hra : Ranked a) (hrb : Ranked b) (f g : Nat) (hf : 3 ≤ f) (hg : 3 ≤ g) (k : Kind) (st : St) (hab : AB a b st) :
    diffAnchorsF f st k = diffAnchorsF g st k ∧ ∀ st', diffAnchorsF f st k = some st' → AB a b st' := by
  have hk := rk_le_two k
  unfold diffAnchorsF
  dsimp only
  generalize sortS ((st.a.filter fun o => o.kind == k && o.anchor).map (·.name)) = aN
  generalize sortS ((st.b.filter fun o => o.kind == k && o.anchor).map (·.name)) = bN
  have h1 := foldl_opt_congr (AB a b)
    (fun s n => if bN.contains n then (diffAny f s (k, n) (k, n)).map (·.1) else some (markDel f s (k, n)))
    (fun s n => if bN.contains n then (diffAny g s (k, n) (k, n)).map (·.1) else some (markDel g s (k, n)))
    aN st (by
      intro n _ s hs
      split
      · have hd := diffAny_fuel hra hrb f g s (k, n) (k, n) hs (by show rk k < f; omega) (by show rk k < f; omega)
          (by show rk k < g; omega) (by show rk k < g; omega)
        refine ⟨by rw [hd.1], ?_⟩
        intro st' he
        cases hx : diffAny f s (k, n) (k, n) with
        | none => rw [hx] at he; cases he
        | some r =>
          rw [hx] at he
          simp only [Option.map_some, Option.some.injEq] at he
          rw [← he]; exact hd.2 r hx
      · have hm := markDel_fuel (b := b) hra f g s (k, n) hs (by show rk k < f; omega) (by show rk k < g; omega)
        exact ⟨by rw [hm.1], by intro st' e; cases e; exact hm.2⟩) hab
  rw [← h1.1]
  cases hfs : aN.foldl (fun (acc : Option St) n => acc.bind fun s =>
      if bN.contains n then (diffAny f s (k, n) (k, n)).map (·.1) else some (markDel f s (k, n))) (some st) with
  | none => simp only [foldl_opt_none]; exact ⟨trivial, by intro st' e; cases e⟩
  | some s1 =>
    refine foldl_opt_congr (AB a b) (fun s n => if aN.contains n then some s else addAny f s (k, n))
      (fun s n => if aN.contains n then some s else addAny g s (k, n)) bN s1 ?_ (h1.2 s1 hfs)
    intro n _ s hs
    split
    · exact ⟨rfl, by intro st' e; cases e; exact hs⟩
    · exact addAny_fuel hrb f g s (k, n) hs (by show rk k < f; omega) (by show rk k < g; omega)

theorem foldl_ext_mem {α β : Type} (g g' : β → α → β) : ∀ (l : List α) (acc : β), (∀ acc, ∀ x ∈ l, g acc x = g' acc x) →
    l.foldl g acc = l.foldl g' acc
  | [], _, _ => rfl
  | x :: xs, acc, h => by
    simp only [List.foldl_cons]
    rw [h acc x List.mem_cons_self]
    exact foldl_ext_mem g g' xs _ (fun acc y hy => h acc y (List.mem_cons_of_mem _ hy))

theorem stillFrom_fuel (hra : Ranked a) (st : St) (hab : AB a b st) : ∀ (f g : Nat) (acc : List Ref) (r : Ref),
    rk r.1 < f → rk r.1 < g → stillFrom f st acc r = stillFrom g st acc r
  | 0, _, _, _, hf, _ => by omega
  | _ + 1, 0, _, _, _, hg => by omega
  | f + 1, g + 1, acc, r, hf, hg => by
    unfold stillFrom
    cases ho : st.aObj r with
    | none => rfl
    | some o =>
      simp only
      have hom := aObj_mem hab ho
      apply foldl_ext_mem
      intro acc x hx
      have := hra o hom.1 x hx
      rw [hom.2] at this
      split
      · rfl
      · exact stillFrom_fuel hra st hab f g _ x (by omega) (by omega)

theorem stillSetF_eq (hra : Ranked a) (st : St) (hab : AB a b st) (f g : Nat) (hf : 3 ≤ f) (hg : 3 ≤ g) :
    stillSetF f st = stillSetF g st := by
  unfold stillSetF
  apply foldl_ext_mem
  intro acc o _
  have := rk_le_two o.id.1
  exact stillFrom_fuel hra st hab f g acc o.id (by omega) (by omega)

theorem deleteUnusedF_eq (hra : Ranked a) (st : St) (hab : AB a b st) (f g : Nat) (hf : 3 ≤ f) (hg : 3 ≤ g) :
    deleteUnusedF f st = deleteUnusedF g st := by
  unfold deleteUnusedF pendingDelF
  rw [stillSetF_eq hra st hab f g hf hg]

/-- **The recursion bound is no restriction**: for configurations whose references go to kinds of strictly lower rank
(what the command templates enforce; part of `WF` / `wfB`) the model gives the same result — state and change list — for
every bound from 3 on; `fuel` = 4. -/
theorem runF_eq (a b : List Obj) (hra : Ranked a) (hrb : Ranked b) (f g : Nat) (hf : 3 ≤ f) (hg : 3 ≤ g) :
    runF f a b = runF g a b := by
  unfold runF
  have hi : AB a b (initSt a b) := ⟨rfl, rfl⟩
  have h1 := diffAnchorsF_eq hra hrb f g hf hg .tg (initSt a b) hi
  rw [← h1.1]
  cases hd : diffAnchorsF f (initSt a b) .tg with
  | none => rfl
  | some s1 =>
    simp only [Option.bind_some]
    have h2 := diffAnchorsF_eq hra hrb f g hf hg .user s1 (h1.2 s1 hd)
    rw [← h2.1]
    cases hd2 : diffAnchorsF f s1 .user with
    | none => rfl
    | some s2 =>
      simp only [Option.map_some]
      rw [deleteUnusedF_eq hra s2 (h2.2 s2 hd2) f g hf hg]

theorem ranked_of_WF {A : List Ref} (hw : WF A a b) : Ranked a ∧ Ranked b :=
  ⟨fun o ho x hx => (hw.ares o ho x hx).2, fun o ho x hx => (hw.bres o ho x hx).2⟩

/-! ## the views of the specification side -/

theorem content_fuel (objs : List Obj) (hr : Ranked objs) : ∀ (f g : Nat) (r : Ref), rk r.1 < f → rk r.1 < g →
    content f objs r = content g objs r
  | 0, _, _, hf, _ => by omega
  | _ + 1, 0, _, _, hg => by omega
  | f + 1, g + 1, r, hf, hg => by
    unfold content
    cases ho : objs.find? (fun o => o.id == r) with
    | none => rfl
    | some o =>
      have hom := find_id objs r o ho
      have hk : o.kind = r.1 := by rw [← hom.2]; rfl
      cases hkk : r.1 <;> simp only
      all_goals
        refine congrArg _ (congrArg _ (List.map_congr_left ?_))
        intro s hs
        have hs' := (List.mem_filter.1 hs).1
        refine congrArg (fun t => s.head ++ "(" ++ "; ".intercalate (sortS t) ++ ")") (List.map_congr_left ?_)
        intro x hx
        cases hxr : x.ref with
        | none => rfl
        | some y =>
          have := hr o hom.1 y (ref_mem_refs o s x y hs' hx hxr)
          rw [hk] at this
          simp only
          rw [content_fuel objs hr f g y (by omega) (by omega)]

theorem reach_fuel (objs : List Obj) (hr : Ranked objs) : ∀ (f g : Nat) (acc : List Ref) (r : Ref), rk r.1 < f → rk r.1 < g →
    reach f objs acc r = reach g objs acc r
  | 0, _, _, _, hf, _ => by omega
  | _ + 1, 0, _, _, _, hg => by omega
  | f + 1, g + 1, acc, r, hf, hg => by
    unfold reach
    split
    · rfl
    · cases ho : objs.find? (fun o => o.id == r) with
      | none => rfl
      | some o =>
        simp only
        have hom := find_id objs r o ho
        have hk : o.kind = r.1 := by rw [← hom.2]; rfl
        apply foldl_ext_mem
        intro acc x hx
        have := hr o hom.1 x hx
        rw [hk] at this
        exact reach_fuel objs hr f g acc x (by omega) (by omega)

/-- the view with an explicit bound -/
def viewF (f : Nat) (objs : List Obj) : List String :=
  sortS ((objs.filter (·.anchor)).map fun o => o.kind.word ++ " " ++ o.name ++ ": " ++ content f objs o.id)

theorem viewF_eq (objs : List Obj) (hr : Ranked objs) (f g : Nat) (hf : 3 ≤ f) (hg : 3 ≤ g) : viewF f objs = viewF g objs := by
  unfold viewF
  refine congrArg _ (List.map_congr_left ?_)
  intro o _
  have := rk_le_two o.id.1
  rw [content_fuel objs hr f g o.id (by omega) (by omega)]

end NA.Vpn.G
