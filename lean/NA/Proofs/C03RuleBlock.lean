import NA.Proofs.C03Block
import NA.Proofs.C03PlainModel
/-
C03, whole-vsys theorems, part 8: executing the requests of one pair of an equal range
(`eqCmds`) on the strict device: afterwards the device rule has the target rule's lists (as
sets), everything else is untouched.  Core Lean only.
-/
namespace NA.PanOs

theorem insertedOf_mem {eq : Nat → Nat → Bool} {n m : Nat} (lb : List String) {rs : List Range}
    (h : validFrom eq n m 0 0 rs = true) {x : String} (hx : x ∈ insertedOf lb rs) : x ∈ lb := by
  have := insertedOf_sublist (eq := eq) lb rs 0 0 h
  simp only [List.drop_zero] at this
  exact this.subset hx

theorem onField_listCmds (n : String) (f : Fld) (la lb : List String) (rs : List Range) :
    OnField n f (listCmds (.rule n f) la lb rs) := by
  intro c hc
  unfold listCmds at hc
  rcases List.mem_append.mp hc with h | h
  · obtain ⟨m, _, rfl⟩ := List.mem_map.mp h
    exact Or.inl ⟨m, rfl⟩
  · split at h
    · cases h
    · simp only [List.mem_cons, List.not_mem_nil, or_false] at h
      exact Or.inr (Or.inl ⟨_, h⟩)

/-- **One list of one rule, both branches of the heuristic.** -/
theorem runs_fieldCmds (sh : Shared) (diff : Differ) (hd : GoodDiffer diff) (n : String) (f : Fld)
    (la lb : List String) (v : Vsys) (r0 : Rule)
    (hf : findRule v.rules n = some r0) (hsame : SameMem (r0.get f) la) (hla : la.Nodup) (hlb : lb.Nodup)
    (href : ∀ m ∈ lb, refOk sh v f m = true) :
    ∃ w l', Runs sh v (fieldCmds diff n f la lb) w ∧ findRule w.rules n = some (r0.set f l') ∧ SameMem l' lb ∧
      (∀ m, m ≠ n → findRule w.rules m = findRule v.rules m) ∧
      w.addrs = v.addrs ∧ w.svcs = v.svcs ∧ w.groups = v.groups ∧ w.sgroups = v.sgroups ∧ w.name = v.name := by
  unfold fieldCmds
  cases hrep : replaceInstead la.length (deletedCount (diff la.length lb.length (nameEq la lb)))
  · -- incremental
    simp only [Bool.false_eq_true, if_false]
    obtain ⟨hv, _⟩ := hd la.length lb.length (nameEq la lb)
    have hvf := validScript_incremental hv hrep
    obtain ⟨hrun, hperm⟩ := members_incremental la lb (nameEq la lb)
      (fun i j _ _ h => by simpa [nameEq] using h) _ hvf hla hlb
    obtain ⟨r', hr', hsm⟩ := runMem_sameMem _ la (r0.get f) _ hsame.symm hrun
    obtain ⟨w, hw, hfw, hoth, s1, s2, s3, s4, s5⟩ := runs_onField sh n f
      (listCmds (.rule n f) la lb (diff la.length lb.length (nameEq la lb))) v r0 r'
      (onField_listCmds n f la lb _) hf (by rw [listCmds_memOf]; exact hr')
      (by
        intro c hc m hm
        unfold listCmds at hc
        rcases List.mem_append.mp hc with h | h
        · obtain ⟨x, _, rfl⟩ := List.mem_map.mp h
          simp [MPath.delCmd, addedBy] at hm
        · split at h
          · cases h
          · simp only [List.mem_cons, List.not_mem_nil, or_false] at h
            subst h
            simp only [MPath.addCmd, addedBy] at hm
            exact href m (insertedOf_mem lb hvf hm))
    exact ⟨w, r', hw, hfw, hsm.symm.trans (SameMem.of_perm hperm), hoth, s1, s2, s3, s4, s5⟩
  · -- replace
    simp only [if_true]
    obtain ⟨w, hw, hfw, hoth, s1, s2, s3, s4, s5⟩ := runs_onField sh n f [.editList n f lb] v r0 lb
      (by intro c hc; simp only [List.mem_cons, List.not_mem_nil, or_false] at hc; exact Or.inr (Or.inr ⟨lb, hc⟩))
      hf rfl
      (by
        intro c hc m hm
        simp only [List.mem_cons, List.not_mem_nil, or_false] at hc
        subst hc
        exact href m (by simpa [addedBy] using hm))
    exact ⟨w, lb, hw, hfw, SameMem.refl lb, hoth, s1, s2, s3, s4, s5⟩

/-- The device rule `r` (found under name `n`) carries what target rule `rb` asks for. -/
def GoodRule (r : Rule) (n : String) (rb : Rule) : Prop :=
  r.name = n ∧ r.hdr = rb.hdr ∧ SameMem r.src rb.src ∧ SameMem r.dst rb.dst ∧ SameMem r.srv rb.srv

theorem Rule.set_name' (r : Rule) (f : Fld) (l : List String) : (r.set f l).name = r.name := by cases f <;> rfl
theorem Rule.set_hdr (r : Rule) (f : Fld) (l : List String) : (r.set f l).hdr = r.hdr := by cases f <;> rfl

/-- **One pair of an equal range.**  `ra` is the planner's (sorted) copy of the device rule `r0`,
`rb` the target rule (sorted, renamed).  After the requests of `eqCmds` the device rule carries
the target's lists; all other rules and the object tables are untouched. -/
theorem runs_eqCmds (sh : Shared) (diff : Differ) (hd : GoodDiffer diff) (ra rb : Rule) (v : Vsys) (r0 : Rule)
    (hf : findRule v.rules ra.name = some r0) (hhdr : r0.hdr = rb.hdr)
    (hsrc : SameMem r0.src ra.src) (hdst : SameMem r0.dst ra.dst) (hsrv : SameMem r0.srv ra.srv)
    (hna : ra.src.Nodup ∧ ra.dst.Nodup) (hnb : rb.src.Nodup ∧ rb.dst.Nodup)
    (hrs : ∀ m ∈ rb.src, refOk sh v .src m = true) (hrd : ∀ m ∈ rb.dst, refOk sh v .dst m = true)
    (hrv : ∀ m ∈ rb.srv, refOk sh v .srv m = true) :
    ∃ w r', Runs sh v (eqCmds diff ra rb) w ∧ findRule w.rules ra.name = some r' ∧ GoodRule r' ra.name rb ∧
      (∀ m, m ≠ ra.name → findRule w.rules m = findRule v.rules m) ∧
      w.addrs = v.addrs ∧ w.svcs = v.svcs ∧ w.groups = v.groups ∧ w.sgroups = v.sgroups ∧ w.name = v.name := by
  have hname := findRule_some_name hf
  unfold eqCmds
  obtain ⟨w1, l1, hw1, hf1, hs1, ho1, a1, a2, a3, a4, a5⟩ :=
    runs_fieldCmds sh diff hd ra.name .src ra.src rb.src v r0 hf hsrc hna.1 hnb.1 hrs
  obtain ⟨w2, l2, hw2, hf2, hs2, ho2, b1, b2, b3, b4, b5⟩ :=
    runs_fieldCmds sh diff hd ra.name .dst ra.dst rb.dst w1 (r0.set .src l1) hf1 hdst hna.2 hnb.2
      (fun m hm => by rw [refOk_congr sh a1 a2 a3 a4]; exact hrd m hm)
  by_cases hsv : (ra.srv != rb.srv) = true
  · simp only [hsv, if_true]
    obtain ⟨w3, hw3, hf3, ho3, c1, c2, c3, c4, c5⟩ := runs_onField sh ra.name .srv [.editList ra.name .srv rb.srv] w2
      ((r0.set .src l1).set .dst l2) rb.srv
      (by intro c hc; simp only [List.mem_cons, List.not_mem_nil, or_false] at hc; exact Or.inr (Or.inr ⟨_, hc⟩))
      hf2 rfl
      (by
        intro c hc m hm
        simp only [List.mem_cons, List.not_mem_nil, or_false] at hc
        subst hc
        rw [refOk_congr sh (b1.trans a1) (b2.trans a2) (b3.trans a3) (b4.trans a4)]
        exact hrv m (by simpa [addedBy] using hm))
    refine ⟨w3, _, (hw1.append hw2).append hw3, hf3, ⟨?_, ?_, ?_, ?_, ?_⟩, ?_, c1.trans (b1.trans a1), c2.trans (b2.trans a2),
      c3.trans (b3.trans a3), c4.trans (b4.trans a4), c5.trans (b5.trans a5)⟩
    · simpa [Rule.set] using hname
    · simpa [Rule.set] using hhdr
    · simpa [Rule.set] using hs1
    · simpa [Rule.set] using hs2
    · simp [Rule.set, SameMem.refl]
    · intro m hm; rw [ho3 m hm, ho2 m hm, ho1 m hm]
  · have hsv' : ra.srv = rb.srv := by simpa using hsv
    simp only [hsv, Bool.false_eq_true, if_false, List.append_nil]
    refine ⟨w2, _, hw1.append hw2, hf2, ⟨?_, ?_, ?_, ?_, ?_⟩, ?_, b1.trans a1, b2.trans a2, b3.trans a3, b4.trans a4,
      b5.trans a5⟩
    · simpa [Rule.set] using hname
    · simpa [Rule.set] using hhdr
    · simpa [Rule.set] using hs1
    · simpa [Rule.set] using hs2
    · simpa [Rule.set, ← hsv'] using hsrv
    · intro m hm; rw [ho2 m hm, ho1 m hm]

end NA.PanOs
