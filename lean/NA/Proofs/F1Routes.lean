import NA.Proofs.F1Binds
/-!
# F1: `diffRoutes` on the strict device
-/
namespace NA.F1
open NA.AsaDev
open NA.Acl (Range)

/-- Deleted device routes (with index) and inserted target routes, as `diffRoutes` reads them off the script. -/
def routeDels (al : List Route) (diff : List Range) : List (Nat × Route) :=
  diff.flatMap fun r =>
    if r.isDelete then (List.range (r.highA - r.lowA)).map fun i => (r.lowA + i, al.getD (r.lowA + i) default) else []

def routeInss (bl : List Route) (diff : List Range) : List Route :=
  diff.flatMap fun r => if r.isInsert then slice bl r.lowB r.highB else []

/-- Second loop of `diffRoutes`, commands only. -/
def routeAdds (dels : List (Nat × Route)) : List Route → List Nat → List String → List Chg × List Nat
  | [], used, _ => ([], used)
  | r :: rs, used, gone =>
    match (dels.filter fun d => d.2.dst == r.dst && !gone.contains r.dst).getLast? with
    | some d =>
      let (cs, u) := routeAdds dels rs (d.1 :: used) (r.dst :: gone)
      (Chg.join (.noRoute d.2.text) (.route r.text) :: cs, u)
    | none =>
      let (cs, u) := routeAdds dels rs used gone
      (Chg.route r.text :: cs, u)

def routePlan (bl : List Route) (dels : List (Nat × Route)) (inss : List Route) : List Chg :=
  (routeAdds dels inss [] []).1 ++
    (if bl.isEmpty then [] else (dels.filter fun d => !(routeAdds dels inss [] []).2.contains d.1).map fun d => Chg.noRoute d.2.text)

/-- Only the script, the sub-mode and the counters change in `diffRoutes`. -/
structure RouteFrame (st st' : St) (cs : List Chg) : Prop where
  out : st'.out = st.out ++ cs
  mode : st'.mode = if cs.isEmpty then st.mode else ""
  gNeeded : st'.gNeeded = st.gNeeded
  gToDel : st'.gToDel = st.gToDel
  gReady : st'.gReady = st.gReady
  gName : st'.gName = st.gName
  aNeeded : st'.aNeeded = st.aNeeded
  aToDel : st'.aToDel = st.aToDel
  aReady : st'.aReady = st.aReady
  aName : st'.aName = st.aName
  bNeeded : st'.bNeeded = st.bNeeded
  bToDel : st'.bToDel = st.bToDel

theorem RouteFrame.refl (st : St) : RouteFrame st st [] := ⟨by simp, rfl, rfl, rfl, rfl, rfl, rfl, rfl, rfl, rfl, rfl, rfl⟩

theorem RouteFrame.hit {st st' : St} {cs : List Chg} (h : RouteFrame st st' cs) (x : String) : RouteFrame st (st'.hit x) cs :=
  ⟨h.out, h.mode, h.gNeeded, h.gToDel, h.gReady, h.gName, h.aNeeded, h.aToDel, h.aReady, h.aName, h.bNeeded, h.bToDel⟩

theorem RouteFrame.emit {st st' : St} {cs : List Chg} (h : RouteFrame st st' cs) (c : Chg) (x : String) :
    RouteFrame st ({ (st'.emit c) with mode := "" }.hit x) (cs ++ [c]) :=
  ⟨by simp [St.hit, St.emit, h.out], by simp [St.hit], h.gNeeded, h.gToDel, h.gReady, h.gName, h.aNeeded, h.aToDel,
   h.aReady, h.aName, h.bNeeded, h.bToDel⟩

theorem routeAdds_fold (dels : List (Nat × Route)) (st0 : St) : ∀ (rs : List Route) (st' : St) (used : List Nat) (gone : List String)
    (cs0 : List Chg), RouteFrame st0 st' cs0 →
    RouteFrame st0 (rs.foldl (fun (s : St × List Nat × List String) r =>
        let (st, used, gone) := s
        match (dels.filter fun d => d.2.dst == r.dst && !gone.contains r.dst).getLast? with
        | some d =>
          ({ (st.emit (.join (.noRoute d.2.text) (.route r.text))) with mode := "" }.hit "route:replace",
            d.1 :: used, r.dst :: gone)
        | none => ({ (st.emit (.route r.text)) with mode := "" }.hit "route:add", used, gone)) (st', used, gone)).1
      (cs0 ++ (routeAdds dels rs used gone).1) ∧
    (rs.foldl (fun (s : St × List Nat × List String) r =>
        let (st, used, gone) := s
        match (dels.filter fun d => d.2.dst == r.dst && !gone.contains r.dst).getLast? with
        | some d =>
          ({ (st.emit (.join (.noRoute d.2.text) (.route r.text))) with mode := "" }.hit "route:replace",
            d.1 :: used, r.dst :: gone)
        | none => ({ (st.emit (.route r.text)) with mode := "" }.hit "route:add", used, gone)) (st', used, gone)).2.1 =
      (routeAdds dels rs used gone).2 := by
  intro rs
  induction rs with
  | nil => intro st' used gone cs0 h; simp [routeAdds]; exact h
  | cons r rs ih =>
    intro st' used gone cs0 h
    simp only [List.foldl_cons, routeAdds]
    cases hm : (dels.filter fun d => d.2.dst == r.dst && !gone.contains r.dst).getLast? with
    | some dd =>
      simp only []
      obtain ⟨i1, i2⟩ := ih _ (dd.1 :: used) (r.dst :: gone) _ (h.emit (.join (.noRoute dd.2.text) (.route r.text)) "route:replace")
      generalize routeAdds dels rs (dd.1 :: used) (r.dst :: gone) = q at i1 i2 ⊢
      obtain ⟨cs, u⟩ := q
      simp only at i1 i2 ⊢
      exact ⟨by simpa [List.append_assoc] using i1, i2⟩
    | none =>
      simp only []
      obtain ⟨i1, i2⟩ := ih _ used gone _ (h.emit (.route r.text) "route:add")
      generalize routeAdds dels rs used gone = q at i1 i2 ⊢
      obtain ⟨cs, u⟩ := q
      simp only at i1 i2 ⊢
      exact ⟨by simpa [List.append_assoc] using i1, i2⟩

theorem emitFold_frame {α : Type} (st0 : St) (f : α → Chg) (x : String) : ∀ (l : List α) (st' : St) (cs0 : List Chg),
    RouteFrame st0 st' cs0 →
    RouteFrame st0 (l.foldl (fun st r => { (st.emit (f r)) with mode := "" }.hit x) st') (cs0 ++ l.map f) := by
  intro l
  induction l with
  | nil => intro st' cs0 h; simpa using h
  | cons r rs ih =>
    intro st' cs0 h
    have := ih _ _ (h.emit (f r) x)
    simpa [List.append_assoc] using this

/-- What `diffRoutes` emits. -/
theorem diffRoutes_frame (st : St) (al bl : List Route) :
    RouteFrame st (diffRoutes st al bl)
      (if al.isEmpty then bl.map (fun r => Chg.route r.text)
       else routePlan bl (routeDels al (diffUnordered (al.map (·.text)) (bl.map (·.text))))
              (routeInss bl (diffUnordered (al.map (·.text)) (bl.map (·.text))))) := by
  unfold diffRoutes
  by_cases ha : al.isEmpty = true
  · simp only [ha, if_true]
    have := emitFold_frame st (fun (r : Route) => Chg.route r.text) "route:add" bl st [] (RouteFrame.refl st)
    simpa using this
  · simp only [ha, Bool.false_eq_true, if_false]
    show RouteFrame st _ (routePlan bl (routeDels al _) (routeInss bl _))
    unfold routePlan
    generalize hd : routeDels al (diffUnordered (al.map (·.text)) (bl.map (·.text))) = dels
    generalize hi : routeInss bl (diffUnordered (al.map (·.text)) (bl.map (·.text))) = inss
    have hd' : (List.flatMap (fun r => if r.isDelete = true then
        List.map (fun i => (r.lowA + i, al.getD (r.lowA + i) default)) (List.range (r.highA - r.lowA)) else [])
        (diffUnordered (al.map (·.text)) (bl.map (·.text)))) = dels := hd
    have hi' : (List.flatMap (fun r => if r.isInsert = true then slice bl r.lowB r.highB else [])
        (diffUnordered (al.map (·.text)) (bl.map (·.text)))) = inss := hi
    simp only [hd', hi']
    obtain ⟨f1, f2⟩ := routeAdds_fold dels st inss st [] [] [] (RouteFrame.refl st)
    generalize List.foldl _ (st, ([] : List Nat), ([] : List String)) inss = q at f1 f2 ⊢
    obtain ⟨st1, used, gone⟩ := q
    simp only at f1 f2 ⊢
    simp only [List.nil_append] at f1
    by_cases hb : bl.isEmpty = true
    · simp only [hb, if_true, List.append_nil]
      split
      · exact f1
      · exact f1.hit _
    · simp only [hb, Bool.false_eq_true, if_false]
      -- third loop
      have key : ∀ (l : List (Nat × Route)) (st' : St) (cs0 : List Chg), RouteFrame st st' cs0 →
          RouteFrame st (l.foldl (fun st d => if used.contains d.1 then st
            else { (st.emit (.noRoute d.2.text)) with mode := "" }.hit "route:del") st')
            (cs0 ++ (l.filter fun d => !used.contains d.1).map fun d => Chg.noRoute d.2.text) := by
        intro l
        induction l with
        | nil => intro st' cs0 h; simpa using h
        | cons x xs ih =>
          intro st' cs0 h
          simp only [List.foldl_cons, List.filter]
          by_cases hu : used.contains x.1 = true
          · simp only [hu, if_true, Bool.not_true]
            exact ih _ _ h
          · simp only [hu, Bool.false_eq_true, if_false, Bool.not_false, List.map_cons]
            have := ih _ _ (h.emit (.noRoute x.2.text) "route:del")
            simpa [List.append_assoc] using this
      have := key dels st1 _ f1
      rw [← f2]
      exact this

/-! ## Pure execution of route commands -/

def routeExec : List String → List Chg → Option (List String)
  | R, [] => some R
  | R, .route r :: cs => if R.any (fun x => routeDst x == routeDst r) then none else routeExec (R ++ [r]) cs
  | R, .noRoute r :: cs => if R.contains r then routeExec (R.filter (· != r)) cs else none
  | R, .join (.noRoute x) (.route r) :: cs =>
    if R.contains x then
      if (R.filter (· != x)).any (fun y => routeDst y == routeDst r) then none
      else routeExec (R.filter (· != x) ++ [r]) cs
    else none
  | _, _ :: _ => none

/-- The strict device follows `routeExec`; nothing but the routes (and the sub-mode) changes. -/
theorem routeExec_dev : ∀ (cs : List Chg) (d : Dev) (R' : List String), routeExec d.routes cs = some R' →
    ∃ d', exec d cs = some d' ∧ d'.routes = R' ∧ d'.groups = d.groups ∧ d'.acls = d.acls ∧ d'.binds = d.binds ∧
      d'.intfs = d.intfs ∧ d'.mode = if cs.isEmpty then d.mode else none := by
  intro cs
  induction cs with
  | nil => intro d R' h; simp [routeExec] at h; exact ⟨d, exec_nil d, h, rfl, rfl, rfl, rfl, rfl⟩
  | cons c cs ih =>
    intro d R' h
    have fin : ∀ (d1 : Dev), exec1 d c = .ok d1 → d1.groups = d.groups → d1.acls = d.acls → d1.binds = d.binds →
        d1.intfs = d.intfs → d1.mode = none → routeExec d1.routes cs = some R' →
        ∃ d', exec d (c :: cs) = some d' ∧ d'.routes = R' ∧ d'.groups = d.groups ∧ d'.acls = d.acls ∧ d'.binds = d.binds ∧
          d'.intfs = d.intfs ∧ d'.mode = if (c :: cs).isEmpty then d.mode else none := by
      intro d1 he g a b i m hr
      obtain ⟨d', e', r', g', a', b', i', m'⟩ := ih d1 R' hr
      refine ⟨d', by rw [exec_cons]; simp only [step, he, Option.bind_some]; exact e', r', g'.trans g, a'.trans a,
        b'.trans b, i'.trans i, ?_⟩
      simp only [List.isEmpty_cons, Bool.false_eq_true, if_false]
      rw [m']; split
      · exact m
      · rfl
    cases c with
    | route r =>
      simp only [routeExec] at h
      split at h
      · exact absurd h (by simp)
      · rename_i hc
        have hc' : d.routes.any (fun x => routeDst x == routeDst r) = false := by simpa using hc
        exact fin { d with routes := d.routes ++ [r], mode := none } (by simp [exec1, hc']) rfl rfl rfl rfl rfl h
    | noRoute r =>
      simp only [routeExec] at h
      split at h
      · rename_i hc
        have hm : r ∈ d.routes := by simpa using hc
        exact fin { d with routes := d.routes.filter (· != r), mode := none } (by simp [exec1, hm]) rfl rfl rfl rfl rfl h
      · exact absurd h (by simp)
    | join c1 c2 =>
      cases c1 with
      | noRoute x =>
        cases c2 with
        | route r =>
          simp only [routeExec] at h
          split at h
          · rename_i hx
            have hxm : x ∈ d.routes := by simpa using hx
            split at h
            · exact absurd h (by simp)
            · rename_i hc
              have hc' : (d.routes.filter (· != x)).any (fun y => routeDst y == routeDst r) = false := by simpa using hc
              refine fin { d with routes := d.routes.filter (· != x) ++ [r], mode := none } ?_ rfl rfl rfl rfl rfl h
              have e1 : exec1 d (.noRoute x) = .ok { d with routes := d.routes.filter (· != x), mode := none } := by
                simp [exec1, hxm]
              show (match exec1 d (.noRoute x) with
                | .ok d' => exec1 d' (.route r)
                | .error e => .error e) = _
              rw [e1]
              simp [exec1, hc']
          · exact absurd h (by simp)
        | _ => simp [routeExec] at h
      | _ => simp [routeExec] at h
    | _ => simp [routeExec] at h

/-! ## Convergence of the route plan (pure) -/

structure RC (al bl : List Route) (dels : List (Nat × Route)) (inss : List Route) : Prop where
  aText : (al.map (·.text)).Nodup
  bText : (bl.map (·.text)).Nodup
  aDst : (al.map (·.dst)).Nodup
  bKey : (bl.map fun r => routeDst r.text).Nodup
  cons : ∀ a ∈ al, ∀ r ∈ bl, routeDst a.text = routeDst r.text → a.dst = r.dst
  delsEq : dels.map (·.2) = al.filter fun a => !(bl.map (·.text)).contains a.text
  delsIdx : (dels.map (·.1)).Nodup
  inssEq : inss = bl.filter fun r => !(al.map (·.text)).contains r.text

theorem RC.of_check {al bl : List Route} {dels : List (Nat × Route)} {inss : List Route}
    (h : routesCheck al bl dels inss = true) : RC al bl dels inss := by
  unfold routesCheck at h
  simp only [Bool.and_eq_true, decide_eq_true_eq] at h
  obtain ⟨⟨⟨⟨⟨⟨⟨h1, h2⟩, h3⟩, h4⟩, h5⟩, h6⟩, h7⟩, h8⟩ := h
  refine ⟨h1, h2, h3, h4, ?_, h6, h7, h8⟩
  intro a ha r hr e1
  have := List.all_eq_true.mp (List.all_eq_true.mp h5 a ha) r hr
  simp only [Bool.or_eq_true, Bool.not_eq_true', beq_eq_false_iff_ne, beq_iff_eq] at this
  rcases this with h9 | h9
  · exact absurd e1 h9
  · exact h9

theorem nodup_of_map {α β : Type} (f : α → β) : ∀ (l : List α), (l.map f).Nodup → l.Nodup := by
  intro l
  induction l with
  | nil => intro _; exact List.nodup_nil
  | cons a l ih =>
    intro h
    simp only [List.map_cons, List.nodup_cons] at h
    exact List.nodup_cons.mpr ⟨fun hm => h.1 (List.mem_map.mpr ⟨a, hm, rfl⟩), ih h.2⟩

theorem routeExec_append : ∀ (xs ys : List Chg) (R : List String),
    routeExec R (xs ++ ys) = (routeExec R xs).bind fun R1 => routeExec R1 ys := by
  intro xs
  induction xs with
  | nil => intro ys R; simp [routeExec]
  | cons c cs ih =>
    intro ys R
    cases c with
    | route r => simp only [List.cons_append, routeExec]; split <;> simp [ih]
    | noRoute r => simp only [List.cons_append, routeExec]; split <;> simp [ih]
    | join c1 c2 =>
      cases c1 <;> cases c2 <;> simp only [List.cons_append, routeExec, Option.bind_none] <;> try rfl
      split
      · split <;> simp [ih]
      · simp
    | _ => simp [routeExec]

theorem RC.del_mem {al bl : List Route} {dels : List (Nat × Route)} {inss : List Route} (h : RC al bl dels inss)
    {d : Nat × Route} (hd : d ∈ dels) : d.2 ∈ al ∧ d.2.text ∉ bl.map (·.text) := by
  have : d.2 ∈ dels.map (·.2) := List.mem_map.mpr ⟨d, hd, rfl⟩
  rw [h.delsEq] at this
  obtain ⟨h1, h2⟩ := List.mem_filter.mp this
  exact ⟨h1, by simpa using h2⟩

theorem RC.del_of {al bl : List Route} {dels : List (Nat × Route)} {inss : List Route} (h : RC al bl dels inss)
    {a : Route} (ha : a ∈ al) (hb : a.text ∉ bl.map (·.text)) : ∃ d ∈ dels, d.2 = a := by
  have : a ∈ dels.map (·.2) := by
    rw [h.delsEq]; exact List.mem_filter.mpr ⟨ha, by simpa using hb⟩
  obtain ⟨d, hd, e1⟩ := List.mem_map.mp this
  exact ⟨d, hd, e1⟩

theorem RC.dels_inj {al bl : List Route} {dels : List (Nat × Route)} {inss : List Route} (h : RC al bl dels inss)
    {d d' : Nat × Route} (hd : d ∈ dels) (hd' : d' ∈ dels) (e1 : d.2 = d'.2) : d = d' := by
  have hn : (dels.map (·.2)).Nodup := by
    rw [h.delsEq]
    have : al.Nodup := by
      exact nodup_of_map _ al h.aText
    exact List.Nodup.sublist List.filter_sublist this
  exact inj_of_nodup_map (·.2) dels hn d hd d' hd' e1

structure AInv (al : List Route) (dels : List (Nat × Route)) (R : List String) (used : List Nat) (gone Rm Ad : List String) : Prop where
  mem : ∀ x, x ∈ R ↔ (x ∈ al.map (·.text) ∧ x ∉ Rm) ∨ x ∈ Ad
  usedIff : ∀ d ∈ dels, (used.contains d.1 = true ↔ d.2.text ∈ Rm)
  goneIff : ∀ d ∈ dels, (gone.contains d.2.dst = true ↔ d.2.text ∈ Rm)
  rmSub : ∀ x ∈ Rm, ∃ d ∈ dels, d.2.text = x

theorem RC.ins_mem {al bl : List Route} {dels : List (Nat × Route)} {inss : List Route} (h : RC al bl dels inss)
    {r : Route} (hr : r ∈ inss) : r ∈ bl ∧ r.text ∉ al.map (·.text) := by
  rw [h.inssEq] at hr
  obtain ⟨h1, h2⟩ := List.mem_filter.mp hr
  exact ⟨h1, by simpa using h2⟩

theorem RC.inss_nodup {al bl : List Route} {dels : List (Nat × Route)} {inss : List Route} (h : RC al bl dels inss) :
    inss.Nodup := by
  rw [h.inssEq]
  exact List.Nodup.sublist List.filter_sublist (nodup_of_map _ bl h.bText)

theorem routeAdds_some (dels : List (Nat × Route)) (r : Route) (rs : List Route) (used : List Nat) (gone : List String)
    (dd : Nat × Route) (hm : (dels.filter fun d => d.2.dst == r.dst && !gone.contains r.dst).getLast? = some dd) :
    routeAdds dels (r :: rs) used gone =
      (Chg.join (.noRoute dd.2.text) (.route r.text) :: (routeAdds dels rs (dd.1 :: used) (r.dst :: gone)).1,
       (routeAdds dels rs (dd.1 :: used) (r.dst :: gone)).2) := by
  simp only [routeAdds, hm]

theorem routeAdds_none (dels : List (Nat × Route)) (r : Route) (rs : List Route) (used : List Nat) (gone : List String)
    (hm : (dels.filter fun d => d.2.dst == r.dst && !gone.contains r.dst).getLast? = none) :
    routeAdds dels (r :: rs) used gone =
      (Chg.route r.text :: (routeAdds dels rs used gone).1, (routeAdds dels rs used gone).2) := by
  simp only [routeAdds, hm]

/-- The second loop of `diffRoutes`: every command is accepted. -/
theorem routeAdds_exec {al bl : List Route} {dels : List (Nat × Route)} {inss : List Route} (h : RC al bl dels inss) :
    ∀ (rs done : List Route) (R : List String) (used : List Nat) (gone Rm : List String),
    inss = done ++ rs → AInv al dels R used gone Rm (done.map (·.text)) →
    ∃ R' gone' Rm', routeExec R (routeAdds dels rs used gone).1 = some R' ∧
      AInv al dels R' (routeAdds dels rs used gone).2 gone' Rm' (inss.map (·.text)) := by
  intro rs
  induction rs with
  | nil =>
    intro done R used gone Rm hi hinv
    refine ⟨R, gone, Rm, by simp [routeAdds, routeExec], ?_⟩
    simp only [routeAdds]
    rw [hi]; simpa using hinv
  | cons r rs ih =>
    intro done R used gone Rm hi hinv
    have hrI : r ∈ inss := by rw [hi]; simp
    obtain ⟨hrB, hrA⟩ := h.ins_mem hrI
    have hnd := h.inss_nodup
    rw [hi] at hnd
    have hrdone : r ∉ done := by
      intro hx
      have := (List.nodup_append.mp hnd).2.2 r hx r List.mem_cons_self
      exact this rfl
    -- nothing on the device clashes with `r`, except possibly the route that is replaced
    have hclash : ∀ x ∈ R, routeDst x = routeDst r.text →
        ∃ d ∈ dels, d.2.text = x ∧ d.2.dst = r.dst ∧ d.2.text ∉ Rm := by
      intro x hx hk
      rcases (hinv.mem x).mp hx with ⟨hxa, hxr⟩ | hxd
      · obtain ⟨a, ha, rfl⟩ := List.mem_map.mp hxa
        have hdst := h.cons a ha r hrB hk
        by_cases hab : a.text ∈ bl.map (·.text)
        · exfalso
          obtain ⟨r', hr', e1⟩ := List.mem_map.mp hab
          have : r' = r := inj_of_nodup_map (fun r => routeDst r.text) bl h.bKey r' hr' r hrB (by show routeDst r'.text = routeDst r.text; rw [e1]; exact hk)
          apply hrA
          rw [← this, e1]; exact hxa
        · obtain ⟨d, hd, e1⟩ := h.del_of ha hab
          exact ⟨d, hd, by rw [e1], by rw [e1]; exact hdst, by rw [e1]; exact hxr⟩
      · exfalso
        obtain ⟨r', hr', e1⟩ := List.mem_map.mp hxd
        have hr'B : r' ∈ bl := (h.ins_mem (by rw [hi]; exact List.mem_append_left _ hr')).1
        have : r' = r := inj_of_nodup_map (fun r => routeDst r.text) bl h.bKey r' hr'B r hrB
          (by show routeDst r'.text = routeDst r.text; rw [e1]; exact hk)
        exact hrdone (this ▸ hr')
    have hAdA : ∀ x ∈ done.map (·.text), x ∉ al.map (·.text) := by
      intro x hx
      obtain ⟨r', hr', rfl⟩ := List.mem_map.mp hx
      exact (h.ins_mem (by rw [hi]; exact List.mem_append_left _ hr')).2
    have hdst_inj : ∀ d ∈ dels, ∀ d' ∈ dels, d.2.dst = d'.2.dst → d = d' := by
      intro d hd d' hd' e1
      exact h.dels_inj hd hd' (inj_of_nodup_map (·.dst) al h.aDst d.2 (h.del_mem hd).1 d'.2 (h.del_mem hd').1 e1)
    have htext_inj : ∀ d ∈ dels, ∀ d' ∈ dels, d.2.text = d'.2.text → d = d' := by
      intro d hd d' hd' e1
      exact h.dels_inj hd hd' (inj_of_nodup_map (·.text) al h.aText d.2 (h.del_mem hd).1 d'.2 (h.del_mem hd').1 e1)
    have hidx_inj : ∀ d ∈ dels, ∀ d' ∈ dels, d.1 = d'.1 → d = d' := fun d hd d' hd' e1 =>
      inj_of_nodup_map (·.1) dels h.delsIdx d hd d' hd' e1
    cases hm : (dels.filter fun d => d.2.dst == r.dst && !gone.contains r.dst).getLast? with
    | some dd =>
      rw [routeAdds_some dels r rs used gone dd hm]
      have hddm := List.mem_of_getLast? hm
      obtain ⟨hdd, hddc⟩ := List.mem_filter.mp hddm
      simp only [Bool.and_eq_true, beq_iff_eq, Bool.not_eq_true'] at hddc
      have hddRm : dd.2.text ∉ Rm := by
        intro hx
        have := (hinv.goneIff dd hdd).mpr hx
        rw [hddc.1, hddc.2] at this; exact absurd this (by simp)
      have hddR : dd.2.text ∈ R := (hinv.mem _).mpr (Or.inl ⟨List.mem_map.mpr ⟨dd.2, (h.del_mem hdd).1, rfl⟩, hddRm⟩)
      have hnoclash : (R.filter (· != dd.2.text)).any (fun y => routeDst y == routeDst r.text) = false := by
        cases hh : (R.filter (· != dd.2.text)).any (fun y => routeDst y == routeDst r.text) with
        | false => rfl
        | true =>
          exfalso
          obtain ⟨y, hy, hyk⟩ := List.any_eq_true.mp hh
          obtain ⟨hy1, hy2⟩ := List.mem_filter.mp hy
          obtain ⟨d, hd, e1, e2, _⟩ := hclash y hy1 (by simpa using hyk)
          have : d = dd := hdst_inj d hd dd hdd (by rw [e2, hddc.1])
          rw [this] at e1
          simp [e1] at hy2
      obtain ⟨R', gone', Rm', he, hi'⟩ := ih (done ++ [r]) (R.filter (· != dd.2.text) ++ [r.text]) (dd.1 :: used)
        (r.dst :: gone) (dd.2.text :: Rm) (by rw [hi]; simp) (by
          refine ⟨?_, ?_, ?_, fun x hx => by
            rcases List.mem_cons.mp hx with e1 | e1
            · exact ⟨dd, hdd, e1.symm⟩
            · exact hinv.rmSub x e1⟩
          · intro x
            simp only [List.mem_append, List.mem_filter, List.mem_singleton, List.map_append, List.map_cons,
              List.map_nil, List.mem_cons, bne_iff_ne, ne_eq, not_or]
            rw [hinv.mem x]
            constructor
            · rintro (⟨h1 | h1, h2⟩ | h1)
              · exact Or.inl ⟨h1.1, h2, h1.2⟩
              · exact Or.inr (Or.inl h1)
              · exact Or.inr (Or.inr h1)
            · rintro (⟨h1, h2, h3⟩ | h1 | h1)
              · exact Or.inl ⟨Or.inl ⟨h1, h3⟩, h2⟩
              · refine Or.inl ⟨Or.inr h1, ?_⟩
                intro e1
                exact hAdA x h1 (e1 ▸ List.mem_map.mpr ⟨dd.2, (h.del_mem hdd).1, rfl⟩)
              · exact Or.inr h1
          · intro d hd
            simp only [List.contains_cons, Bool.or_eq_true, beq_iff_eq, List.mem_cons]
            rw [hinv.usedIff d hd]
            constructor
            · rintro (h1 | h1)
              · exact Or.inl (by rw [hidx_inj d hd dd hdd h1])
              · exact Or.inr h1
            · rintro (h1 | h1)
              · exact Or.inl (by rw [htext_inj d hd dd hdd h1])
              · exact Or.inr h1
          · intro d hd
            simp only [List.contains_cons, Bool.or_eq_true, beq_iff_eq, List.mem_cons]
            rw [hinv.goneIff d hd]
            constructor
            · rintro (h1 | h1)
              · exact Or.inl (by rw [hdst_inj d hd dd hdd (by rw [h1, hddc.1])])
              · exact Or.inr h1
            · rintro (h1 | h1)
              · exact Or.inl (by rw [htext_inj d hd dd hdd h1, hddc.1])
              · exact Or.inr h1)
      refine ⟨R', gone', Rm', ?_, hi'⟩
      have hc : R.contains dd.2.text = true := by simpa using hddR
      simp only [routeExec, hc, if_true, hnoclash, Bool.false_eq_true, if_false]
      exact he
    | none =>
      rw [routeAdds_none dels r rs used gone hm]
      have hempty : ∀ d ∈ dels, ¬ (d.2.dst = r.dst ∧ gone.contains r.dst = false) := by
        intro d hd hx
        have : d ∈ dels.filter fun d => d.2.dst == r.dst && !gone.contains r.dst :=
          List.mem_filter.mpr ⟨hd, by simp only [hx.1, hx.2, beq_self_eq_true, Bool.not_false, Bool.and_self]⟩
        have hnil := List.getLast?_eq_none_iff.mp hm
        rw [hnil] at this; simp at this
      have hnoclash : R.any (fun y => routeDst y == routeDst r.text) = false := by
        cases hh : R.any (fun y => routeDst y == routeDst r.text) with
        | false => rfl
        | true =>
          exfalso
          obtain ⟨y, hy, hyk⟩ := List.any_eq_true.mp hh
          obtain ⟨d, hd, _, e2, e3⟩ := hclash y hy (by simpa using hyk)
          cases hg : gone.contains r.dst with
          | false => exact hempty d hd ⟨e2, hg⟩
          | true =>
            apply e3
            exact (hinv.goneIff d hd).mp (by rw [e2]; exact hg)
      obtain ⟨R', gone', Rm', he, hi'⟩ := ih (done ++ [r]) (R ++ [r.text]) used gone Rm (by rw [hi]; simp) (by
        refine ⟨?_, hinv.usedIff, hinv.goneIff, hinv.rmSub⟩
        intro x
        simp only [List.mem_append, List.mem_singleton, List.map_append, List.map_cons, List.map_nil]
        rw [hinv.mem x]
        constructor
        · rintro ((h1 | h1) | h1)
          · exact Or.inl h1
          · exact Or.inr (Or.inl h1)
          · exact Or.inr (Or.inr h1)
        · rintro (h1 | h1 | h1)
          · exact Or.inl (Or.inl h1)
          · exact Or.inl (Or.inr h1)
          · exact Or.inr h1)
      refine ⟨R', gone', Rm', ?_, hi'⟩
      simp only [routeExec, hnoclash, Bool.false_eq_true, if_false]
      exact he

/-- The third loop: the remaining deletes. -/
theorem routeDels_exec {al : List Route} (Ad : List String) (hAd : ∀ x ∈ Ad, x ∉ al.map (·.text)) :
    ∀ (l : List (Nat × Route)) (R Rm : List String),
    (∀ x, x ∈ R ↔ (x ∈ al.map (·.text) ∧ x ∉ Rm) ∨ x ∈ Ad) →
    (∀ d ∈ l, d.2.text ∈ al.map (·.text) ∧ d.2.text ∉ Rm) → (l.map (·.2.text)).Nodup →
    ∃ R', routeExec R (l.map fun d => Chg.noRoute d.2.text) = some R' ∧
      ∀ x, x ∈ R' ↔ (x ∈ al.map (·.text) ∧ x ∉ Rm ++ l.map (·.2.text)) ∨ x ∈ Ad := by
  intro l
  induction l with
  | nil => intro R Rm hm _ _; exact ⟨R, rfl, by simpa using hm⟩
  | cons d l ih =>
    intro R Rm hm hl hnd
    simp only [List.map_cons, List.nodup_cons] at hnd
    obtain ⟨hd1, hd2⟩ := hl d List.mem_cons_self
    have hdR : d.2.text ∈ R := (hm _).mpr (Or.inl ⟨hd1, hd2⟩)
    have hc : R.contains d.2.text = true := by simpa using hdR
    obtain ⟨R', he, hi⟩ := ih (R.filter (· != d.2.text)) (d.2.text :: Rm) (by
        intro x
        simp only [List.mem_filter, bne_iff_ne, ne_eq, List.mem_cons, not_or]
        rw [hm x]
        constructor
        · rintro ⟨h1 | h1, h2⟩
          · exact Or.inl ⟨h1.1, h2, h1.2⟩
          · exact Or.inr h1
        · rintro (⟨h1, h2, h3⟩ | h1)
          · exact ⟨Or.inl ⟨h1, h3⟩, h2⟩
          · exact ⟨Or.inr h1, fun e1 => hAd x h1 (e1 ▸ hd1)⟩)
      (fun d' hd' => ⟨(hl d' (List.mem_cons_of_mem _ hd')).1, by
        intro hx
        rcases List.mem_cons.mp hx with e1 | e1
        · exact hnd.1 (List.mem_map.mpr ⟨d', hd', e1⟩)
        · exact (hl d' (List.mem_cons_of_mem _ hd')).2 e1⟩) hnd.2
    refine ⟨R', ?_, ?_⟩
    · simp only [List.map_cons, routeExec, hc, if_true]; exact he
    · intro x
      rw [hi x]
      simp only [List.mem_append, List.mem_cons, List.map_cons, not_or]
      constructor
      · rintro (⟨h1, ⟨h2, h3⟩, h4⟩ | h1)
        · exact Or.inl ⟨h1, h3, h2, h4⟩
        · exact Or.inr h1
      · rintro (⟨h1, h2, h3, h4⟩ | h1)
        · exact Or.inl ⟨h1, ⟨h3, h2⟩, h4⟩
        · exact Or.inr h1

/-- **Routes converge**: the plan of `diffRoutes` is accepted; if the target has routes, the device ends with
exactly the target's routes (as a set); otherwise nothing is emitted. -/
theorem routePlan_converges {al bl : List Route} {dels : List (Nat × Route)} {inss : List Route} (h : RC al bl dels inss)
    (R0 : List String) (hR0 : ∀ x, x ∈ R0 ↔ x ∈ al.map (·.text)) :
    ∃ R', routeExec R0 (routePlan bl dels inss) = some R' ∧
      (bl ≠ [] → ∀ x, x ∈ R' ↔ x ∈ bl.map (·.text)) ∧ (bl = [] → routePlan bl dels inss = []) := by
  obtain ⟨R1, gone1, Rm1, he1, hi1⟩ := routeAdds_exec h inss [] R0 [] [] [] (by simp)
    ⟨fun x => by simp [hR0 x], fun _ _ => by simp, fun _ _ => by simp, fun _ hx => by simp at hx⟩
  unfold routePlan
  by_cases hb : bl = []
  · have hins : inss = [] := by rw [h.inssEq, hb]; rfl
    subst hins
    refine ⟨R0, by simp [hb, routeAdds, routeExec], fun hx => absurd hb hx, fun _ => by simp [hb, routeAdds]⟩
  · have hbe : bl.isEmpty = false := by cases bl <;> simp_all
    simp only [hbe, Bool.false_eq_true, if_false]
    generalize hL : (dels.filter fun d => !(routeAdds dels inss [] []).2.contains d.1) = L
    have hLsub : ∀ d ∈ L, d ∈ dels ∧ (routeAdds dels inss [] []).2.contains d.1 = false := by
      intro d hd; rw [← hL] at hd
      obtain ⟨h1, h2⟩ := List.mem_filter.mp hd
      exact ⟨h1, by simpa using h2⟩
    have hAd : ∀ x ∈ inss.map (·.text), x ∉ al.map (·.text) := by
      intro x hx
      obtain ⟨r, hr, rfl⟩ := List.mem_map.mp hx
      exact (h.ins_mem hr).2
    obtain ⟨R2, he2, hi2⟩ := routeDels_exec (al := al) (inss.map (·.text)) hAd L R1 Rm1 hi1.mem
      (by
        intro d hd
        obtain ⟨h1, h2⟩ := hLsub d hd
        refine ⟨List.mem_map.mpr ⟨d.2, (h.del_mem h1).1, rfl⟩, ?_⟩
        intro hx
        have := (hi1.usedIff d h1).mpr hx
        rw [h2] at this; exact absurd this (by simp))
      (by
        have hn : (dels.map (·.2.text)).Nodup := by
          have : dels.map (·.2.text) = (dels.map (·.2)).map (·.text) := by simp [List.map_map]
          rw [this, h.delsEq]
          exact (List.Sublist.map _ List.filter_sublist).nodup h.aText |> fun x => x
        rw [← hL]
        exact (List.Sublist.map _ List.filter_sublist).nodup hn |> fun x => x)
    refine ⟨R2, by rw [routeExec_append, he1]; exact he2, fun _ => ?_, fun hx => absurd hx hb⟩
    intro x
    rw [hi2 x]
    constructor
    · rintro (⟨h1, h2⟩ | h1)
      · -- a device route that was not removed is a target route
        obtain ⟨a, ha, rfl⟩ := List.mem_map.mp h1
        cases hcase : decide (a.text ∈ bl.map (·.text)) with
        | true => exact of_decide_eq_true hcase
        | false =>
          exfalso
          have hnb := of_decide_eq_false hcase
          obtain ⟨d, hd, e1⟩ := h.del_of ha hnb
          apply h2
          cases hu : (routeAdds dels inss [] []).2.contains d.1 with
          | true => exact List.mem_append_left _ (by rw [← e1]; exact (hi1.usedIff d hd).mp hu)
          | false =>
            apply List.mem_append_right
            rw [← hL]
            exact List.mem_map.mpr ⟨d, List.mem_filter.mpr ⟨hd, by rw [hu]; rfl⟩, by rw [e1]⟩
      · obtain ⟨r, hr, rfl⟩ := List.mem_map.mp h1
        exact List.mem_map.mpr ⟨r, (h.ins_mem hr).1, rfl⟩
    · intro hx
      obtain ⟨r, hr, rfl⟩ := List.mem_map.mp hx
      cases hcase : decide (r.text ∈ al.map (·.text)) with
      | true =>
        left
        refine ⟨of_decide_eq_true hcase, ?_⟩
        intro hm
        -- removed texts are texts of deleted routes, which are not target routes
        have hdel : ∃ d ∈ dels, d.2.text = r.text := by
          rcases List.mem_append.mp hm with h1 | h1
          · exact hi1.rmSub _ h1
          · obtain ⟨d, hd, e1⟩ := List.mem_map.mp h1
            exact ⟨d, (hLsub d hd).1, e1⟩
        obtain ⟨d, hd, e1⟩ := hdel
        exact (h.del_mem hd).2 (e1 ▸ List.mem_map.mpr ⟨r, hr, rfl⟩)
      | false =>
        right
        have hna := of_decide_eq_false hcase
        exact List.mem_map.mpr ⟨r, by rw [h.inssEq]; exact List.mem_filter.mpr ⟨hr, by simpa using hna⟩, rfl⟩

/-! ## `diffRoutes` on the strict device -/

theorem mem_insertR (x y : Route) : ∀ (l : List Route), y ∈ insertR x l ↔ y = x ∨ y ∈ l := by
  intro l
  induction l with
  | nil => simp [insertR]
  | cons z zs ih =>
    unfold insertR
    split
    · simp
    · simp only [List.mem_cons, ih]
      constructor
      · rintro (h | h | h)
        · exact Or.inr (Or.inl h)
        · exact Or.inl h
        · exact Or.inr (Or.inr h)
      · rintro (h | h | h)
        · exact Or.inr (Or.inl h)
        · exact Or.inl h
        · exact Or.inr (Or.inr h)

theorem mem_sortRoutes (y : Route) : ∀ (l : List Route), y ∈ sortRoutes l ↔ y ∈ l := by
  intro l
  induction l with
  | nil => simp [sortRoutes]
  | cons x xs ih =>
    show y ∈ insertR x (sortRoutes xs) ↔ _
    rw [mem_insertR, ih]; simp

theorem routeAdds_nodels : ∀ (rs : List Route) (used : List Nat) (gone : List String),
    routeAdds [] rs used gone = (rs.map fun r => Chg.route r.text, used) := by
  intro rs
  induction rs with
  | nil => intro used gone; rfl
  | cons r rs ih => intro used gone; simp [routeAdds, ih]

theorem routePlan_nodels (bl : List Route) : routePlan bl [] bl = bl.map fun r => Chg.route r.text := by
  unfold routePlan
  rw [routeAdds_nodels]
  simp

/-- `diffRoutes`: accepted; the invariant is kept; bindings untouched; the routes converge. -/
theorem diffRoutes_full (e : Env) (st : St) (d : Dev) (hF : Full e st d) (hr : d.routes = e.a.routes.map (·.text))
    (hc : routesCheck (sortRoutes e.a.routes) (sortRoutes e.b.routes)
      (routeDelsOf (sortRoutes e.a.routes) (sortRoutes e.b.routes))
      (routeInssOf (sortRoutes e.a.routes) (sortRoutes e.b.routes)) = true) :
    ∃ d' cs, RouteFrame st (diffRoutes st (sortRoutes e.a.routes) (sortRoutes e.b.routes)) cs ∧ exec d cs = some d' ∧
      Full e (diffRoutes st (sortRoutes e.a.routes) (sortRoutes e.b.routes)) d' ∧
      d'.binds = d.binds ∧ d'.intfs = d.intfs ∧ d'.acls = d.acls ∧ d'.groups = d.groups ∧
      (e.b.routes ≠ [] → ∀ x, x ∈ d'.routes ↔ x ∈ e.b.routes.map (·.text)) ∧
      (e.b.routes = [] → d'.routes = d.routes) := by
  have hrc := RC.of_check hc
  generalize hal : sortRoutes e.a.routes = al at hrc ⊢
  generalize hbl : sortRoutes e.b.routes = bl at hrc ⊢
  have hR0 : ∀ x, x ∈ d.routes ↔ x ∈ al.map (·.text) := by
    intro x
    rw [hr, ← hal]
    simp only [List.mem_map]
    constructor
    · rintro ⟨y, hy, rfl⟩; exact ⟨y, (mem_sortRoutes y _).mpr hy, rfl⟩
    · rintro ⟨y, hy, rfl⟩; exact ⟨y, (mem_sortRoutes y _).mp hy, rfl⟩
  have hblmem : ∀ x, x ∈ bl.map (·.text) ↔ x ∈ e.b.routes.map (·.text) := by
    intro x
    rw [← hbl]
    simp only [List.mem_map]
    constructor
    · rintro ⟨y, hy, rfl⟩; exact ⟨y, (mem_sortRoutes y _).mp hy, rfl⟩
    · rintro ⟨y, hy, rfl⟩; exact ⟨y, (mem_sortRoutes y _).mpr hy, rfl⟩
  have hblnil : bl = [] ↔ e.b.routes = [] := by
    constructor
    · intro h0
      cases hb : e.b.routes with
      | nil => rfl
      | cons y ys =>
        have : y ∈ bl := by rw [← hbl]; exact (mem_sortRoutes y _).mpr (by rw [hb]; exact List.mem_cons_self)
        rw [h0] at this; simp at this
    · intro h0; rw [← hbl, h0]; rfl
  have hframe := diffRoutes_frame st al bl
  -- the plan in both cases
  have hplan : (if al.isEmpty then bl.map (fun r => Chg.route r.text)
       else routePlan bl (routeDels al (diffUnordered (al.map (·.text)) (bl.map (·.text))))
              (routeInss bl (diffUnordered (al.map (·.text)) (bl.map (·.text))))) =
      routePlan bl (routeDelsOf al bl) (routeInssOf al bl) := by
    unfold routeDelsOf routeInssOf
    split
    · rw [routePlan_nodels]
    · rfl
  rw [hplan] at hframe
  obtain ⟨R', he, hconv, hnil⟩ := routePlan_converges hrc d.routes hR0
  obtain ⟨d', hex, hro, hg, ha, hb, hi, hm⟩ := routeExec_dev _ d R' he
  generalize routePlan bl (routeDelsOf al bl) (routeInssOf al bl) = cs at hframe hex hm hnil he
  refine ⟨d', cs, hframe, hex, ?_, hb, hi, ha, hg, ?_, ?_⟩
  · apply hF.of_dev hg ha ?_ hframe.gNeeded hframe.gReady hframe.gName hframe.aNeeded hframe.aReady hframe.aName
    unfold ModeRel
    rw [hframe.mode, hm]
    split
    · exact hF.sem.mode
    · rfl
  · intro hne x
    rw [hro, hconv (fun h0 => hne (hblnil.mp h0)) x, hblmem]
  · intro h0
    have := hnil (hblnil.mpr h0)
    subst this
    rw [hro]
    simpa [routeExec] using he.symm

end NA.F1
