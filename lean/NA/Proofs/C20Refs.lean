import NA.Proofs.C20Shape
import NA.Model.CursorRefs
/-!
C20, round 3 — what the parser model guarantees about every command it returns (`TopOK`, `SubOK`),
the lookup map built from them, and `checkReferences`.
-/
set_option linter.unusedSimpArgs false
namespace NA.C20
open Res

def refTok : Str := lit "$REF"

/-- The `TEMPLATE` loop stores one reference per `$REF` token. -/
theorem matchTemplate_refs : ∀ (tmpl args : List Str) (acc acc' : MatchAcc) (rest : List Str),
    lit "*" ∉ tmpl.dropLast →
    matchTemplate tmpl args acc = .ok (some (acc', rest)) →
    acc'.ref.length = acc.ref.length + tmpl.count refTok
  | [], args, acc, acc', rest, _, h => by
    simp only [matchTemplate] at h
    cases h
    simp
  | tok :: ts, args, acc, acc', rest, hstar, h => by
    have hstar' : lit "*" ∉ ts.dropLast := by
      intro hm
      apply hstar
      cases ts with
      | nil => simp at hm
      | cons a as => simp [List.dropLast]; right; exact hm
    have ih := fun args a => matchTemplate_refs ts args a acc' rest hstar'
    unfold matchTemplate at h
    split at h
    · cases h
    · rename_i w restw
      split at h
      · rename_i ht
        have := ih _ _ h
        have hne : tok ≠ refTok := by rw [ht]; decide
        simp [List.count_cons, hne] at this ⊢
        exact this
      · split at h
        · rename_i ht
          have hne : tok ≠ refTok := by rw [ht]; decide
          split at h
          · cases h
          · have := ih _ _ h
            simp [List.count_cons, hne] at this ⊢
            exact this
        · split at h
          · rename_i ht
            have := ih _ _ h
            simp [List.count_cons, ht, refTok] at this ⊢
            omega
          · rename_i hnref
            have hne : tok ≠ refTok := hnref
            split at h
            · split at h
              · cases h
              · split at h
                · split at h
                  · cases h
                  · have := ih _ _ h
                    simp [List.count_cons, hne] at this ⊢
                    exact this
                · have := ih _ _ h
                  simp [List.count_cons, hne] at this ⊢
                  exact this
            · split at h
              · rename_i hst
                have hts : ts = [] := by
                  cases ts with
                  | nil => rfl
                  | cons a as => exfalso; apply hstar; subst hst; simp [List.dropLast]
                subst hts
                cases h
                simp [List.count_cons, hne]
              · split at h
                · cases h
                · have := ih _ _ h
                  simp [List.count_cons, hne] at this ⊢
                  exact this

/-- what `matchCmd` guarantees about the command it builds from template `tmpl`. -/
def CmdFrom (pre : Str) (tmpl : List Str) (c : Cmd) : Prop :=
  (fields pre).length + tmpl.length ≤ (fields c.parsed).length ∧
  c.ref.length = tmpl.count refTok ∧ c.sub = []

theorem matchCmd_spec (pre : Str) (words : List Str) (hl : LastNonblank words) (c : Cmd) :
    ∀ ds : List (Nat × List Str × Bool), (∀ d ∈ ds, CleanTemplate d.2.1) →
    matchCmd pre words ds = .ok (some c) →
    ∃ d ∈ ds, c.descr = d.1 ∧ CmdFrom pre d.2.1 c
  | [], _, h => by simp [matchCmd] at h
  | (i, tmpl, ign) :: ds, hc, h => by
    have hcd : ∀ d ∈ ds, CleanTemplate d.2.1 := fun d hd => hc d (List.mem_cons_of_mem _ hd)
    have next : matchCmd pre words ds = .ok (some c) →
        ∃ d ∈ (i, tmpl, ign) :: ds, c.descr = d.1 ∧ CmdFrom pre d.2.1 c := by
      intro h'
      obtain ⟨d, hd, r⟩ := matchCmd_spec pre words hl c ds hcd h'
      exact ⟨d, List.mem_cons_of_mem _ hd, r⟩
    have hfull := h
    unfold matchCmd at h
    split at h
    · cases h
    · cases h
    · exact next h
    · rename_i acc rest hm
      split at h
      · exact next h
      · split at h
        · cases h
        · -- the fields part is the old lemma; references and sub are read off the construction
          obtain ⟨d, hd, hdi, hlen⟩ := matchCmd_fields_ge pre words hl c ((i, tmpl, ign) :: ds) hc hfull
          obtain ⟨_, hst⟩ := hc (i, tmpl, ign) (by simp)
          have hrefs := matchTemplate_refs tmpl words _ acc rest hst hm
          simp at hrefs
          simp only [Res.ok.injEq, Option.some.injEq] at h
          have hci : c.descr = i := by rw [← h]
          have hcr : c.ref.length = tmpl.count refTok := by rw [← h]; simpa using hrefs
          have hcs : c.sub = [] := by rw [← h]
          have hlen' : (fields pre).length + tmpl.length ≤ (fields c.parsed).length := by
            -- recompute for this very template (d may be another entry with the same index)
            obtain ⟨hct, _⟩ := hc (i, tmpl, ign) (by simp)
            obtain ⟨hnb, hl2⟩ := matchTemplate_shape tmpl words _ acc rest hct hst hl (by simp) hm
            simp at hl2
            rw [← h]
            simp only
            have hrev : ∀ s ∈ acc.parsed.reverse, Nonblank s := fun s hs => hnb s (by simpa using hs)
            by_cases hp : pre = []
            · subst hp
              simp only [ne_eq, not_true_eq_false, if_false]
              have := fields_join_length_ge acc.parsed.reverse hrev
              simp [fields] at this ⊢
              omega
            · simp only [ne_eq, hp, not_false_eq_true, if_true]
              have := nonblank_flatMap_length pre acc.parsed.reverse hrev
              simp at this
              omega
          exact ⟨(i, tmpl, ign), by simp, hci, hlen', hcr, hcs⟩

theorem lookupAux_spec (ds : List (Nat × Descr)) (hc : ∀ d ∈ ds, CleanTemplate d.2.template) (c : Cmd) :
    ∀ (words pre : List Str), LastNonblank words → lookupAux ds pre words = .ok (some c) →
    ∃ d ∈ ds, c.descr = d.1 ∧ CmdFrom d.2.pre d.2.template c
  | [], pre, _, h => by simp [lookupAux] at h
  | w :: rest, pre, hl, h => by
    have hlr : LastNonblank rest := by
      cases rest with
      | nil => intro x hx; simp at hx
      | cons a as => exact hl.tail (by simp)
    unfold lookupAux at h
    simp only at h
    split at h
    · cases h
    · split at h
      · obtain ⟨d, hd, h1, h2⟩ := matchCmd_spec (join (pre ++ [w])) rest hlr c _ (by
            intro d hd
            simp at hd
            obtain ⟨a, b, hab, rfl⟩ := hd
            exact hc (a, b) hab.1) h
        simp at hd
        obtain ⟨a, b, hab, rfl⟩ := hd
        refine ⟨(a, b), hab.1, h1, ?_⟩
        have : join (pre ++ [w]) = b.pre := by
          have := hab.2
          rw [← this, join_splitSp]
        rw [this] at h2
        exact h2
      · exact lookupAux_spec ds hc c rest _ hlr h

theorem lookupCmd_spec (ds : List Descr) (hc : CleanTop ds) (raw : Str) (hne : trimRight raw ≠ [])
    (c : Cmd) (h : lookupCmd ds (trimRight raw) = .ok (some c)) :
    ∃ d ∈ indexed ds, c.descr = d.1 ∧ CmdFrom d.2.pre d.2.template c := by
  unfold lookupCmd at h
  exact lookupAux_spec _ (fun d hd => hc d.2 (mem_indexed hd)) c _ _
    (splitSp_trimRight_lastNonblank raw hne) h

/-! ### invariant of the line loop -/

def SubOK (subs : List (List Str × Bool)) (sc : Cmd) : Prop :=
  ∃ s ∈ indexed subs, sc.descr = s.1 ∧ s.2.1.length ≤ (fields sc.parsed).length ∧
    sc.ref.length = s.2.1.count refTok

/-- every top-level command the parser returns: found by `lookupCmd` for a description `d`,
with at least as many words as prefix + template, one reference per `$REF`, and sub commands
that `matchCmd` found among the sub templates of `d`. -/
def TopOK (ds : List Descr) (c : Cmd) : Prop :=
  ∃ d ∈ indexed ds, c.descr = d.1 ∧
    (fields d.2.pre).length + d.2.template.length ≤ (fields c.parsed).length ∧
    c.ref.length = d.2.template.count refTok ∧ ∀ sc ∈ c.sub, SubOK d.2.sub sc

def CleanSubsOf (ds : List Descr) : Prop := ∀ d ∈ ds, ∀ s ∈ d.sub, CleanTemplate s.1

theorem indexed_getD' {α : Type} (l : List α) (dflt : α) (x : Nat × α) (h : x ∈ indexed l) :
    l.getD x.1 dflt = x.2 := by
  unfold indexed at h
  obtain ⟨i, hi, hx⟩ := List.mem_iff_getElem.mp h
  simp at hi
  have : x = (i, l[i]'(by omega)) := by
    rw [← hx]; simp
  subst this
  simp [hi]

theorem res_bind_ok {α β : Type} {x : Res α} {f : α → Res β} {b : β} (h : x.bind f = .ok b) :
    ∃ a, x = .ok a ∧ f a = .ok b := by
  cases x with
  | ok a => exact ⟨a, rfl, h⟩
  | diag m => cases h
  | panic p => cases h

theorem subBody_inv (ds : List Descr) (hcs : CleanSubsOf ds) (st : LoopSt) (pc : Cmd) (others : List Cmd)
    (line : Str) (i : Nat) (f : Str) (st' : LoopSt)
    (hst : st.cmds = pc :: others) (hinv : ∀ c ∈ st.cmds, TopOK ds c)
    (h : subBody ds st pc others line i f = .ok st') : ∀ c ∈ st'.cmds, TopOK ds c := by
  unfold subBody at h
  split at h
  · split at h
    · cases h
    · rename_i d body hd
      split at h
      · cases h; exact hinv
      · dsimp only at h
        obtain ⟨oc, hoc, h⟩ := res_bind_ok h
        split at h
        · cases h; exact hinv
        · rename_i sc
          cases h
          intro c hc
          simp at hc
          rcases hc with rfl | hc
          · -- the parent with one more sub command
            obtain ⟨dd, hdd, hdi, hlen, hrefs, hsubs⟩ := hinv pc (by rw [hst]; simp)
            refine ⟨dd, hdd, hdi, hlen, hrefs, ?_⟩
            intro x hx
            simp [addSub] at hx
            rcases hx with hx | rfl
            · exact hsubs x hx
            · have hget := indexed_getD' ds { pre := [], template := [], ignore := false } dd hdd
              rw [← hdi] at hget
              rw [hget] at hoc
              obtain ⟨e, he, hei, hce⟩ := matchCmd_spec [] (fields (d :: body)) (fields_lastNonblank _) sc _ (by
                intro e he
                obtain ⟨x, hx, rfl⟩ := List.mem_map.mp he
                exact hcs dd.2 (mem_indexed hdd) x.2 (mem_indexed hx)) hoc
              obtain ⟨x, hx, rfl⟩ := List.mem_map.mp he
              refine ⟨x, hx, hei, ?_, hce.2.1⟩
              have := hce.1
              simp [fields] at this
              exact this
          · exact hinv c (by rw [hst]; exact List.mem_cons_of_mem _ hc)
  · cases h

theorem parseLine_inv (ds : List Descr) (hct : CleanTop ds) (hcs : CleanSubsOf ds) (isRaw : Bool)
    (st st' : LoopSt) (raw : Str) (hinv : ∀ c ∈ st.cmds, TopOK ds c)
    (h : parseLine true ds isRaw st raw = .ok st') : ∀ c ∈ st'.cmds, TopOK ds c := by
  unfold parseLine at h
  simp only at h
  split at h
  · cases h; exact hinv
  · rename_i c0 tl hline
    have hne : trimRight raw ≠ [] := by rw [hline]; simp
    split at h
    · cases h; exact hinv
    · split at h
      · cases h; exact hinv
      · split at h
        · cases hl : lookupCmd ds (trimRight raw) with
          | panic p => rw [hl] at h; cases h
          | diag m => rw [hl] at h; cases h
          | ok oc =>
            rw [hl] at h
            simp only [Res.bind] at h
            split at h
            · split at h
              · cases h
              · cases h; exact hinv
            · rename_i c
              cases h
              intro x hx
              simp at hx
              rcases hx with rfl | hx
              · obtain ⟨d, hd, hdi, hlen, hrefs, hsub⟩ := lookupCmd_spec ds hct raw hne c hl
                exact ⟨d, hd, hdi, hlen, hrefs, by simp [hsub]⟩
              · exact hinv x hx
        · split at h
          · cases h; exact hinv
          · split at h
            · cases h; exact hinv
            · rename_i pc others hcm
              cases hsi : subIndent true st pc (trimRight raw) with
              | panic q => rw [hsi] at h; cases h
              | diag m => rw [hsi] at h; cases h
              | ok r =>
                rw [hsi] at h
                exact subBody_inv ds hcs st pc others _ r.1 r.2 st' hcm hinv h

theorem parseLines_inv (ds : List Descr) (hct : CleanTop ds) (hcs : CleanSubsOf ds) (isRaw : Bool) :
    ∀ (ls : List Str) (st st' : LoopSt), (∀ c ∈ st.cmds, TopOK ds c) →
    parseLines true ds isRaw st ls = .ok st' → ∀ c ∈ st'.cmds, TopOK ds c
  | [], st, st', hinv, h => by
    unfold parseLines at h; cases h; exact hinv
  | l :: ls, st, st', hinv, h => by
    unfold parseLines at h
    cases hl : parseLine true ds isRaw st l with
    | panic p => rw [hl] at h; cases h
    | diag m => rw [hl] at h; cases h
    | ok st1 =>
      rw [hl] at h
      exact parseLines_inv ds hct hcs isRaw ls st1 st' (parseLine_inv ds hct hcs isRaw st st1 l hinv hl) h

/-- Everything `ParseConfig` returns (before `postprocessParsed`) satisfies `TopOK`. -/
theorem parseConfig_inv (ds : List Descr) (hct : CleanTop ds) (hcs : CleanSubsOf ds) (isRaw : Bool)
    (data : Str) (cmds : List Cmd) (h : parseConfig true ds isRaw data = .ok cmds) :
    ∀ c ∈ cmds, TopOK ds c := by
  unfold parseConfig at h
  cases hp : parseLines true ds isRaw initSt (splitLines data) with
  | panic p => rw [hp] at h; cases h
  | diag m => rw [hp] at h; cases h
  | ok st =>
    rw [hp] at h
    cases h
    intro c hc
    exact parseLines_inv ds hct hcs isRaw _ initSt st (by simp [initSt]) hp c (by simpa using hc)

/-! ### the lookup map built from the parser's result -/

def keyOf (ds : List Descr) (c : Cmd) : Str × Str := (prefixOf ds c, c.name)

/-- entries are non-empty, hold only commands with property `P`, filed under their own key. -/
def LookupOK (ds : List Descr) (P : Cmd → Prop) (lk : Lookup) : Prop :=
  ∀ g ∈ lk, g.2 ≠ [] ∧ ∀ x ∈ g.2, P x ∧ keyOf ds x = g.1

theorem insertCmd_ok (ds : List Descr) (P : Cmd → Prop) (c : Cmd) (hc : P c) :
    ∀ lk : Lookup, LookupOK ds P lk → LookupOK ds P (insertCmd lk (keyOf ds c) c)
  | [], _ => by
    intro g hg
    simp [insertCmd] at hg
    subst hg
    exact ⟨by simp, fun x hx => by simp at hx; subst hx; exact ⟨hc, rfl⟩⟩
  | (k', l) :: rest, h => by
    unfold insertCmd
    split
    · rename_i hk
      intro g hg
      simp at hg
      rcases hg with rfl | hg
      · obtain ⟨_, h2⟩ := h (k', l) (by simp)
        refine ⟨by simp, fun x hx => ?_⟩
        simp at hx
        rcases hx with hx | rfl
        · exact h2 x hx
        · exact ⟨hc, hk.symm⟩
      · exact h g (List.mem_cons_of_mem _ hg)
    · intro g hg
      simp at hg
      rcases hg with rfl | hg
      · exact h (k', l) (by simp)
      · exact insertCmd_ok ds P c hc rest (fun g hg => h g (List.mem_cons_of_mem _ hg)) g hg

theorem foldl_insert_ok (ds : List Descr) (P : Cmd → Prop) : ∀ (cmds : List Cmd) (lk : Lookup),
    (∀ c ∈ cmds, P c) → LookupOK ds P lk →
    LookupOK ds P (cmds.foldl (fun lk c => insertCmd lk (prefixOf ds c, c.name) c) lk)
  | [], lk, _, h => by simpa using h
  | c :: cs, lk, hp, h => by
    simp only [List.foldl_cons]
    exact foldl_insert_ok ds P cs _ (fun x hx => hp x (List.mem_cons_of_mem _ hx))
      (insertCmd_ok ds P c (hp c (by simp)) lk h)

/-- The lookup map of `ParseConfig`: every list stored in it is non-empty (a key is only created
by `append`), its members are commands of the parse result, filed under their own prefix and name. -/
theorem buildLookup_ok (ds : List Descr) (P : Cmd → Prop) (cmds : List Cmd) (hp : ∀ c ∈ cmds, P c) :
    LookupOK ds P (buildLookup ds cmds) := by
  unfold buildLookup
  exact foldl_insert_ok ds P cmds [] hp (by intro g hg; simp at hg)

/-- The hypotheses of `aaaGroup_noPanic` DERIVED from the parser model: for the commands that
`ParseConfig` returns, every entry of the lookup map under prefix `aaa-server` is non-empty, its
commands have three words and their sub commands carry a reference — provided the tables say so
(`hmin`, `hsub`: decided on the regenerated tables in Props/C20.lean). -/
theorem aaaGroup_derived (ds : List Descr) (hct : CleanTop ds) (hcs : CleanSubsOf ds) (isRaw : Bool)
    (data : Str) (cmds : List Cmd) (h : parseConfig true ds isRaw data = .ok cmds)
    (hmin : ∀ d ∈ ds, d.pre = lit "aaa-server" → 3 ≤ (fields d.pre).length + d.template.length)
    (hsub : ∀ d ∈ ds, d.pre = lit "aaa-server" → ∀ s ∈ d.sub, 1 ≤ s.1.count refTok) :
    ∀ g ∈ buildLookup ds cmds, g.1.1 = lit "aaa-server" → NoPanic (aaaGroup true g.1.2 g.2) := by
  intro g hg hpre
  obtain ⟨hne, hmem⟩ := buildLookup_ok ds (TopOK ds) cmds (parseConfig_inv ds hct hcs isRaw data cmds h) g hg
  have key : ∀ c ∈ g.2, 3 ≤ (fields c.parsed).length ∧ ∀ s ∈ c.sub, s.ref ≠ [] := by
    intro c hc
    obtain ⟨⟨d, hd, hdi, hlen, _, hsubs⟩, hk⟩ := hmem c hc
    have hget := indexed_getD' ds noDescr d hd
    have hp : d.2.pre = lit "aaa-server" := by
      have : prefixOf ds c = g.1.1 := by rw [← hk]; rfl
      unfold prefixOf at this
      rw [hdi, hget] at this
      rw [this, hpre]
    refine ⟨by have := hmin d.2 (mem_indexed hd) hp; omega, ?_⟩
    intro sc hsc
    obtain ⟨s, hs, _, _, hr⟩ := hsubs sc hsc
    have := hsub d.2 (mem_indexed hd) hp s.2 (mem_indexed hs)
    intro hnil
    rw [hnil] at hr
    simp at hr
    omega
  exact aaaGroup_noPanic g.1.2 g.2 hne (fun c hc => (key c hc).1) (fun c hc => (key c hc).2)

/-! ### checkReferences -/

theorem checkRefs_noPanic (lk : Lookup) (isRaw : Bool) (orig : Str) : ∀ (typRef refs : List Str),
    refs.length ≤ typRef.length → NoPanic (checkRefs lk isRaw orig typRef refs)
  | _, [], _ => by unfold checkRefs; exact noPanic_ok _
  | [], _ :: _, h => by simp at h
  | p :: ps, n :: ns, h => by
    unfold checkRefs
    split
    · exact checkRefs_noPanic lk isRaw orig ps ns (by simp at h; omega)
    · split
      · exact noPanic_ok _
      · exact noPanic_diag _

/-- a command (with its sub commands) has no more references than prefixes are registered. -/
def RefsFit (fixed : Bool) (ds : List Descr) (c : Cmd) : Prop :=
  c.ref.length ≤ (typRefTop ds c).length ∧
  ∀ sc ∈ c.sub, sc.ref.length ≤ (typRefSub fixed ds c sc).length

theorem checkSubs_noPanic (fixed : Bool) (ds : List Descr) (lk : Lookup) (isRaw : Bool) (pc : Cmd) :
    ∀ scs : List Cmd, (∀ sc ∈ scs, sc.ref.length ≤ (typRefSub fixed ds pc sc).length) →
    NoPanic (checkSubs fixed ds lk isRaw pc scs)
  | [], _ => by unfold checkSubs; exact noPanic_ok _
  | sc :: scs, h => by
    unfold checkSubs
    exact NoPanic.bind (checkRefs_noPanic lk isRaw _ _ _ (h sc (by simp))) fun _ =>
      checkSubs_noPanic fixed ds lk isRaw pc scs (fun x hx => h x (List.mem_cons_of_mem _ hx))

theorem checkCmds_noPanic (fixed : Bool) (ds : List Descr) (lk : Lookup) (isRaw : Bool) :
    ∀ cs : List Cmd, (∀ c ∈ cs, RefsFit fixed ds c) → NoPanic (checkCmds fixed ds lk isRaw cs)
  | [], _ => by unfold checkCmds; exact noPanic_ok _
  | c :: cs, h => by
    unfold checkCmds
    obtain ⟨h1, h2⟩ := h c (by simp)
    exact NoPanic.bind (checkRefs_noPanic lk isRaw _ _ _ h1) fun _ =>
      NoPanic.bind (checkSubs_noPanic fixed ds lk isRaw c c.sub h2) fun _ =>
        checkCmds_noPanic fixed ds lk isRaw cs (fun x hx => h x (List.mem_cons_of_mem _ hx))

theorem checkEntries_noPanic (fixed : Bool) (ds : List Descr) (lk : Lookup) (isRaw : Bool) :
    ∀ gs : Lookup, (∀ g ∈ gs, ∀ c ∈ g.2, RefsFit fixed ds c) → NoPanic (checkEntries fixed ds lk isRaw gs)
  | [], _ => by unfold checkEntries; exact noPanic_ok _
  | g :: gs, h => by
    unfold checkEntries
    exact NoPanic.bind (checkCmds_noPanic fixed ds lk isRaw g.2 (h g (by simp))) fun _ =>
      checkEntries_noPanic fixed ds lk isRaw gs (fun x hx => h x (List.mem_cons_of_mem _ hx))

theorem mem_insertSorted (g x : (Str × Str) × List Cmd) : ∀ l : Lookup, x ∈ insertSorted g l → x = g ∨ x ∈ l
  | [], h => by simp [insertSorted] at h; exact Or.inl h
  | hd :: t, h => by
    unfold insertSorted at h
    split at h
    · simp at h
      rcases h with h | h | h
      · exact Or.inl h
      · exact Or.inr (by simp [h])
      · exact Or.inr (by simp [h])
    · simp at h
      rcases h with h | h
      · exact Or.inr (by simp [h])
      · rcases mem_insertSorted g x t h with h' | h'
        · exact Or.inl h'
        · exact Or.inr (by simp [h'])

theorem mem_sortLookup (x : (Str × Str) × List Cmd) : ∀ lk : Lookup, x ∈ sortLookup lk → x ∈ lk
  | [], h => by simp [sortLookup] at h
  | g :: gs, h => by
    unfold sortLookup at h
    simp only [List.foldr_cons] at h
    rcases mem_insertSorted g x _ h with h' | h'
    · simp [h']
    · exact List.mem_cons_of_mem _ (mem_sortLookup x gs h')

/-- `checkReferences`: no index out of range in `c.typ.ref[i]` when every command of the lookup map
has at most as many references as its type has registered prefixes. -/
theorem checkReferences_noPanic (fixed : Bool) (ds : List Descr) (lk : Lookup) (isRaw : Bool)
    (h : ∀ g ∈ lk, ∀ c ∈ g.2, RefsFit fixed ds c) : NoPanic (checkReferences fixed ds lk isRaw) := by
  unfold checkReferences
  exact checkEntries_noPanic fixed ds lk isRaw _ (fun g hg => h g (mem_sortLookup g lk hg))

end NA.C20
