import NA.Proofs.C05Ipt
import NA.Proofs.C05Norm
/-!
C05: invariants of `parseIPTables`: table names and, per table, chain names are distinct (Go maps),
which is what `iptables_replace_converges_partial` asks of the target.
-/
namespace NA.C05
open NA.Linux

theorem keysA_setA {β : Type} (k : Str) (v : β) (m : List (Str × β)) :
    keysA (setA k v m) = if k ∈ keysA m then keysA m else keysA m ++ [k] := by
  induction m with
  | nil => simp [setA, keysA]
  | cons x xs ih =>
    obtain ⟨k0, v0⟩ := x
    simp only [keysA, List.map_cons] at ih ⊢
    by_cases h : k0 = k
    · subst h; simp [setA]
    · have h' : ¬ k = k0 := fun e => h e.symm
      simp only [setA, h, ↓reduceIte, List.map_cons, ih, List.mem_cons, h', false_or]
      by_cases hk : k ∈ List.map (fun x => x.fst) xs <;> simp [hk]

theorem setA_nodup {β : Type} (k : Str) (v : β) (m : List (Str × β)) (h : (keysA m).Nodup) :
    (keysA (setA k v m)).Nodup := by
  rw [keysA_setA]
  split
  · exact h
  · rename_i hk
    exact List.nodup_append.mpr ⟨h, by simp, by intro a ha b hb; simp at hb; subst hb; intro e; exact hk (e ▸ ha)⟩

/-- Table names distinct; chain names distinct in every table. -/
def WFT (tb : Tables) : Prop := (keysA tb).Nodup ∧ ∀ t cm, getA t tb = some cm → (keysA cm).Nodup

theorem WFT_set (tb : Tables) (t : Str) (cm : Chains) (h : WFT tb) (hc : (keysA cm).Nodup) : WFT (setA t cm tb) := by
  refine ⟨setA_nodup t cm tb h.1, ?_⟩
  intro t' cm' hg
  rw [getA_setA] at hg
  by_cases e : t = t'
  · simp only [e, ↓reduceIte, Option.some.injEq] at hg; rw [← hg]; exact hc
  · rw [if_neg e] at hg; exact h.2 t' cm' hg

theorem getD_nodup (tb : Tables) (t : Str) (h : WFT tb) : (keysA ((getA t tb).getD [])).Nodup := by
  cases hg : getA t tb with
  | none => simp [keysA]
  | some cm => simpa using h.2 t cm hg

theorem parseIptLine_wft (st st' : PState) (line : Str) (h : parseIptLine st line = .ok st') (hw : WFT st.tb) :
    WFT st'.tb := by
  unfold parseIptLine at h
  split at h
  · injection h with h; rw [← h]; exact hw
  · injection h with h; rw [← h]; exact hw
  · split at h
    · exact absurd h (by simp)
    · injection h with h; rw [← h]; exact WFT_set _ _ _ hw (by simp [keysA])
  · split at h
    · exact absurd h (by simp)
    · split at h
      · simp only at h
        split at h
        · exact absurd h (by simp)
        · injection h with h; rw [← h]
          exact WFT_set _ _ _ hw (setA_nodup _ _ _ (getD_nodup _ _ hw))
      · injection h with h; rw [← h]; exact hw
  · split at h
    · exact absurd h (by simp)
    · simp only at h
      split at h
      · injection h with h; rw [← h]; exact hw
      · split at h
        · exact absurd h (by simp)
        · split at h
          · exact absurd h (by simp)
          · split at h
            · exact absurd h (by simp)
            · split at h
              · exact absurd h (by simp)
              · injection h with h; rw [← h]
                exact WFT_set _ _ _ hw (setA_nodup _ _ _ (getD_nodup _ _ hw))
  · split at h
    · injection h with h; rw [← h]; exact hw
    · split at h
      · injection h with h; rw [← h]; exact hw
      · exact absurd h (by simp)

theorem parseIPTablesAux_wft : ∀ (lines : List Str) (st st' : PState),
    parseIPTablesAux lines st = .ok st' → WFT st.tb → WFT st'.tb := by
  intro lines
  induction lines with
  | nil => intro st st' h hw; simp [parseIPTablesAux] at h; rw [← h]; exact hw
  | cons l ls ih =>
    intro st st' h hw
    simp only [parseIPTablesAux, bind, Except.bind] at h
    cases h1 : parseIptLine st (trimSpace l) with
    | error e => simp [h1] at h
    | ok st1 =>
      simp only [h1] at h
      exact ih st1 st' h (parseIptLine_wft st st1 _ h1 hw)

/-- Every rule set the parser accepts has distinct table names and distinct chain names per table. -/
theorem parseIPTables_wft (lines : List Str) (tb : Tables) (h : parseIPTables lines = .ok tb) : WFT tb := by
  simp only [parseIPTables, bind, Except.bind] at h
  cases h1 : parseIPTablesAux lines {} with
  | error e => simp [h1] at h
  | ok st =>
    simp only [h1, pure, Except.pure, Except.ok.injEq] at h
    rw [← h]
    exact parseIPTablesAux_wft lines {} st h1 ⟨by simp [keysA], by intro t cm hg; simp [getA] at hg⟩

end NA.C05
